import TarpcModel.Lemmas.ClientDue
import TarpcModel.Lemmas.ClientParked
import TarpcModel.Props.C05
import TarpcModel.Props.C16Client
/-!
# C05 (client) — request deadlines are enforced, not late

Property theorems only.  `Props/C05.lean` has the *never early* half of C05 and keeps the monitor with the *not late*
clauses as a statement (`C05_monitor_full_Statement`).  What was missing — completeness of the timer-wheel emulation —
is now available (`Lemmas/DelayQComplete.lean`, `Lemmas/DelayQReach.lean`, `Props/C05DelayQ.lean`);
`Lemmas/ClientDelayQBridge.lean` shows that the dispatch's queue satisfies its hypotheses (the client model only applies
`insert` of a clamped timeout at the current clock, `remove`, `poll_expired`, `clear`, a reset, and takes the stored waker),
and `Lemmas/ClientNotLate.lean` follows the control flow: `poll_expired` loops until the queue reports nothing,
`pump_write` calls it before it gives up whatever the transport's readiness, `run` goes round again while anything
made progress.

**Scripts quantified over**: all op lists whose total advanced time `advSum ops` is below `2^35` ms (as in
`C16_client_no_panic`).  Beyond the strict range the timer wheel itself can miss a due entry
(`DelayQ.C05_delayq_late_witness`).

**Time convention**: the *tick* of an in-flight request is the `whenMs` of its armed timer; it is due at clock `now`
(ns) iff `tick * 10^6 ≤ now`.  `C05_timer_not_before_deadline` relates tick (+ `remainder`) and deadline from below.

**What is proved, what is not.**  Proved: when a dispatch poll goes back to waiting, *no in-flight request has a due
timer* (`C05_dispatch_idle_not_late`) — every timer that was due was handled in that poll: its request failed with
`DeadlineExceeded`, or (time still to be armed) re-armed for a later tick — and the wake-up is armed no later than the
earliest remaining tick; the pre/post forms (`C05_due_request_gone_exact`, `C05_due_request_gone`); and, on the exact
invariant `TInv.due` (`Lemmas/ClientInv.lean`: `deadline ≤ dueAt + remainder ≤ max deadline now`, timer = millisecond
ceiling of `dueAt`; repo ae850d0), the same in terms of deadlines: after an idle poll every in-flight request is before
the millisecond tick of its deadline unless it was armed after its deadline less than a millisecond ago
(`C05_idle_deadline_tick`), and a request armed before its deadline is gone after the first idle poll at or after that
tick (`C05_deadline_passed_gone`).  Not proved: the monitor form.  `C05_monitor_full_Statement` (all scripts) is **false**
beyond the bound on the clock (`C05_wheel_lag_witness`: the timer-wheel defect surfaces through tarpc after ≈ 430 days);
with the bound it is kept as `C05_monitor_bounded_Statement` (the former counterexample — a re-arm that rounded up a
second time — is gone: `C05_rearm_late_witness_fixed`).
-/
set_option linter.unusedSimpArgs false
namespace TarpcModel.Client
open TarpcModel

/-- **What the client does to its `DelayQueue`.**  Every family `Q now` of predicates on timer queues that is closed
under the operations the client model applies to its queue at clock `now` (`QClosed`: `insert` of a clamped timeout at
`now`, `remove`, `poll_expired now`, `clear`, reset to the empty queue, taking the waker) and monotone in the clock
holds of the queue of every reachable state: the model does nothing else to the queue. -/
theorem C05_queue_ops_only (Q : Nat → DelayQ → Prop) (hQ : ∀ now, QClosed now (Q now))
    (hmono : ∀ now now' q, now ≤ now' → Q now q → Q now' q) (hinit : Q 0 {})
    (m bufCap tcap : Nat) (coupled : Bool) (ops : List COp) :
    Q (ops.foldl applyOp (initSys m bufCap tcap coupled)).now (ops.foldl applyOp (initSys m bufCap tcap coupled)).s.timers :=
  QClosed.reach Q hQ hmono _ hinit ops

/-- **Bridge.**  In every reachable state of every configuration, for every script whose total advanced time is below
`2^35` ms, the dispatch's timer queue satisfies the two-sided wheel invariant (`DelayQ.Complete`) — next to the key /
one-sided invariants of `Lemmas/DelayQInv.lean` that `Client.StInv` carries. -/
theorem C05_timers_complete (m bufCap tcap : Nat) (coupled : Bool) (ops : List COp)
    (hT : advSum ops < 2 ^ 35 * nsPerMs) :
    DelayQ.Complete (ops.foldl applyOp (initSys m bufCap tcap coupled)).s.timers ∧
    (ops.foldl applyOp (initSys m bufCap tcap coupled)).s.timers.WF ∧
    (ops.foldl applyOp (initSys m bufCap tcap coupled)).s.timers.Timely (advSum ops) := by
  have hq := qc_reach C16_client_flags.1 m bufCap tcap coupled ops
  have hi := (inv_reach m bufCap tcap coupled ops).t
  rw [now_reach] at hq hi
  exact ⟨hq hT, hi.wf, hi.timely⟩

/-- … hence, in every such state: if some timer is due, the queue yields one (not late); what it yields is due
(never early: `C05_expiry_only_when_due`). -/
theorem C05_queue_yields_if_due (m bufCap tcap : Nat) (coupled : Bool) (ops : List COp)
    (hT : advSum ops < 2 ^ 35 * nsPerMs) (c : Sys) (hc : c = ops.foldl applyOp (initSys m bufCap tcap coupled))
    (k v w : Nat) (hk : c.s.timers.Has k v w) (hdue : w * nsPerMs ≤ c.now) :
    ∃ e, (c.s.timers.pollExpired c.now).2 = .expired e := by
  subst hc
  obtain ⟨d, hd, _, _, rfl⟩ := hk
  have hq := (C05_timers_complete m bufCap tcap coupled ops hT).1
  have hwf := (inv_reach m bufCap tcap coupled ops).t.wf
  have hko : DelayQ.KeysOk (ops.foldl applyOp (initSys m bufCap tcap coupled)).s.timers :=
    ⟨by
      have := hwf.keys
      unfold DelayQ.KeysDistinct at this
      rw [List.nodup_iff_pairwise_ne, List.pairwise_map]
      exact this, hwf.keyLt⟩
  exact DelayQ.pollExpired_due hq hko hd hdue

/-- **C05: not late — nothing due is left behind.**  From every reachable state with a live dispatch (clock below
`2^35` ms): if a poll of the dispatch leaves it not done — it returned `Pending`, i.e. goes back to waiting — then in
the state it leaves behind *no in-flight request has a due timer*: every in-flight entry has its timer in the queue
(tick `w`) and `now < w * 10^6`, whatever the entry's `remainder` — and this whatever the transport did during the poll
(readiness, flush and write failures of requests are irrelevant: `pump_write` polls `poll_expired` before it gives up).
So every request that was due in that poll (tick passed, nothing left to arm after taking off the lateness) has been
failed with `DeadlineExceeded` in it (`expireWith`), unless it was completed or cancelled first; a timer that fired
with time still to arm has been re-armed for a later tick.  Moreover the dispatch's waker is stored in the queue and
the queue's `Sleep` is registered for an instant `t` with `now < t ≤ w * 10^6` for every remaining tick `w`, so the
timer (`onAdvance`) wakes the dispatch no later than the earliest remaining tick. -/
theorem C05_dispatch_idle_not_late (m bufCap tcap : Nat) (coupled : Bool) (ops : List COp)
    (hT : advSum ops < 2 ^ 35 * nsPerMs) (c : Sys) (hc : c = ops.foldl applyOp (initSys m bufCap tcap coupled))
    (hlive : c.s.dDropped = false ∧ c.s.done = none) (hd : (pollDispatchKeep c.s c.now).done = none) :
    pollDispatch c.s c.now = pollDispatchKeep c.s c.now ∧
    (pollDispatch c.s c.now).poisoned = false ∧
    (∀ en ∈ (pollDispatch c.s c.now).inflight, ∃ w, (pollDispatch c.s c.now).timers.Has en.timerKey en.id w ∧
      c.now < w * nsPerMs ∧ en.ctx.deadline ≤ w * nsPerMs + en.remainder) ∧
    (∀ d ∈ (pollDispatch c.s c.now).timers.all, c.now < d.whenMs * nsPerMs ∧
      (pollDispatch c.s c.now).timers.waker = true ∧
      ∃ t, (pollDispatch c.s c.now).timers.nextFire = some t ∧ c.now < t ∧ t ≤ d.whenMs * nsPerMs) := by
  subst hc
  have hf := C16_client_flags
  have hT' : advSum (ops ++ [.pollDispatch]) < panicFreeNs := by
    rw [advSum_append]; simp only [advSum, opAdv]; exact hT
  have hp0 := reach_not_poisoned hf.1 hf.2 m bufCap tcap coupled ops hT
  have hp1 := reach_not_poisoned hf.1 hf.2 m bufCap tcap coupled (ops ++ [.pollDispatch]) hT'
  have hi1 := inv_reach m bufCap tcap coupled (ops ++ [.pollDispatch])
  rw [List.foldl_append] at hp1 hi1
  simp only [List.foldl_cons, List.foldl_nil, applyOp] at hp1 hi1
  generalize hcd : ops.foldl applyOp (initSys m bufCap tcap coupled) = c at *
  have e : pollDispatch c.s c.now = pollDispatchKeep c.s c.now := by
    rw [Flow.pollDispatch_eq, hd]; rfl
  have hnow : c.now < panicFreeNs := by
    have := now_reach m bufCap tcap coupled ops
    rw [hcd] at this; rw [this]; exact hT
  have hq : DelayQ.Complete c.s.timers := by
    have := qc_reach hf.1 m bufCap tcap coupled ops
    rw [hcd] at this; exact this hnow
  have hcl : QClosed c.now DelayQ.Complete := by
    have := qc_closed hf.1 c.now
    exact ⟨fun h hi => this.insert (fun _ => h) hi hnow, fun h hr => this.remove (fun _ => h) hr hnow,
      fun h => this.poll (fun _ => h) hnow, fun h => this.clear (fun _ => h) hnow, this.empty hnow,
      fun b h => this.waker b (fun _ => h) hnow⟩
  have hrun : (c.s.dDropped || c.s.done.isSome || c.s.poisoned) = false := by
    simp [hlive.1, hlive.2, hp0]
  have hidle := (pollDispatch_idle hcl hq hrun hd (by rw [← e]; exact hp1)).2
  refine ⟨e, hp1, ?_, ?_⟩
  · intro en hen
    obtain ⟨w, hw, hdl⟩ := hi1.t.e2t en hen
    obtain ⟨d, hdm, hdk, hdv, hdw⟩ := hw
    exact ⟨w, ⟨d, hdm, hdk, hdv, hdw⟩, by rw [← hdw]; exact hidle.notDue d hdm, hdl⟩
  · intro d hdm
    obtain ⟨hw, t, ht⟩ := hidle.armed d hdm
    exact ⟨hidle.notDue d hdm, hw, t, ht⟩

/-- **C05: not late, pre/post form (exact lateness).**  From every reachable state with a live dispatch (clock below
`2^35` ms): if a poll of the dispatch leaves it not done (it returned `Pending`), then every request that was in flight
and *due* when the poll began — its timer tick `w` had passed and its `remainder` does not exceed the lateness
`now − dueAt` measured, as the code measures it, from the exact time the timer was due (so `poll_expired` fails it rather
than re-arming it) — is no longer in flight afterwards: it was failed with `DeadlineExceeded` by `poll_expired` in that
poll, unless a response for it was read, its write failed, its call was cancelled or the connection failed first (each of
which also removes it and tells the call).  A due request is never re-armed, and no other request can take its id. -/
theorem C05_due_request_gone_exact (m bufCap tcap : Nat) (coupled : Bool) (ops : List COp)
    (hT : advSum ops < 2 ^ 35 * nsPerMs) (c : Sys) (hc : c = ops.foldl applyOp (initSys m bufCap tcap coupled))
    (hlive : c.s.dDropped = false ∧ c.s.done = none) (hd : (pollDispatchKeep c.s c.now).done = none)
    (en : Entry) (hen : en ∈ c.s.inflight) (w : Nat) (hw : c.s.timers.Has en.timerKey en.id w)
    (hdue : w * nsPerMs ≤ c.now) (hrem : en.remainder ≤ c.now - en.dueAt) :
    ∀ en' ∈ (pollDispatch c.s c.now).inflight, en'.id ≠ en.id := by
  subst hc
  have hf := C16_client_flags
  have hT' : advSum (ops ++ [.pollDispatch]) < panicFreeNs := by
    rw [advSum_append]; simp only [advSum, opAdv]; exact hT
  have hp0 := reach_not_poisoned hf.1 hf.2 m bufCap tcap coupled ops hT
  have hp1 := reach_not_poisoned hf.1 hf.2 m bufCap tcap coupled (ops ++ [.pollDispatch]) hT'
  have hi0 := inv_reach m bufCap tcap coupled ops
  rw [List.foldl_append] at hp1
  simp only [List.foldl_cons, List.foldl_nil, applyOp] at hp1
  generalize hcd : ops.foldl applyOp (initSys m bufCap tcap coupled) = c at *
  have e : pollDispatch c.s c.now = pollDispatchKeep c.s c.now := by
    rw [Flow.pollDispatch_eq, hd]; rfl
  have hnow : c.now < panicFreeNs := by
    have := now_reach m bufCap tcap coupled ops
    rw [hcd] at this; rw [this]; exact hT
  have hq : DelayQ.Complete c.s.timers := by
    have := qc_reach hf.1 m bufCap tcap coupled ops
    rw [hcd] at this; exact this hnow
  have hcl : QClosed c.now DelayQ.Complete := by
    have := qc_closed hf.1 c.now
    exact ⟨fun h hi => this.insert (fun _ => h) hi hnow, fun h hr => this.remove (fun _ => h) hr hnow,
      fun h => this.poll (fun _ => h) hnow, fun h => this.clear (fun _ => h) hnow, this.empty hnow,
      fun b h => this.waker b (fun _ => h) hnow⟩
  have hrun : (c.s.dDropped || c.s.done.isSome || c.s.poisoned) = false := by
    simp [hlive.1, hlive.2, hp0]
  rw [e]
  exact pollDispatchKeep_due_gone hcl hi0 hq hrun hd (by rw [← e]; exact hp1) ⟨en, hen, rfl, w, hw, hdue, hrem⟩

/-- **C05: not late, pre/post form.**  The same with the lateness measured from the timer's millisecond tick `w`
(which is less than a millisecond after `dueAt`, so this hypothesis is the stronger one): in particular every in-flight
request with `remainder = 0` whose tick has passed is gone after a poll that returns `Pending`. -/
theorem C05_due_request_gone (m bufCap tcap : Nat) (coupled : Bool) (ops : List COp)
    (hT : advSum ops < 2 ^ 35 * nsPerMs) (c : Sys) (hc : c = ops.foldl applyOp (initSys m bufCap tcap coupled))
    (hlive : c.s.dDropped = false ∧ c.s.done = none) (hd : (pollDispatchKeep c.s c.now).done = none)
    (en : Entry) (hen : en ∈ c.s.inflight) (w : Nat) (hw : c.s.timers.Has en.timerKey en.id w)
    (hdue : w * nsPerMs ≤ c.now) (hrem : en.remainder ≤ c.now - w * nsPerMs) :
    ∀ en' ∈ (pollDispatch c.s c.now).inflight, en'.id ≠ en.id := by
  have hle : en.dueAt ≤ w * nsPerMs := by
    subst hc
    exact ((inv_reach m bufCap tcap coupled ops).t.due en hen w hw).2.2.1
  exact C05_due_request_gone_exact m bufCap tcap coupled ops hT c hc hlive hd en hen w hw hdue (by omega)

/-! ### in terms of deadlines -/

/-- **C05: not late, in terms of the deadline.**  After a dispatch poll that returns `Pending` at clock `now` (live
dispatch, clock below `2^35` ms), for every request still in flight: *the millisecond tick of its deadline has not been
reached* (`now < ceil_ms deadline`) — or its timer was armed when its deadline had already passed (`deadline < dueAt`:
the request was taken off the queue after its deadline, `dueAt` is that instant) less than a millisecond ago
(`dueAt ≤ now < dueAt + 1 ms`; the timer fires at the next millisecond tick).  This holds for every deadline, however far
away and however often the timer was re-armed: the exact due time does not drift
(`C05_timer_is_ceiling_of_due`). -/
theorem C05_idle_deadline_tick (m bufCap tcap : Nat) (coupled : Bool) (ops : List COp)
    (hT : advSum ops < 2 ^ 35 * nsPerMs) (c : Sys) (hc : c = ops.foldl applyOp (initSys m bufCap tcap coupled))
    (hlive : c.s.dDropped = false ∧ c.s.done = none) (hd : (pollDispatchKeep c.s c.now).done = none) :
    ∀ en ∈ (pollDispatch c.s c.now).inflight,
      c.now < ceilMs en.ctx.deadline * nsPerMs ∨
      (en.ctx.deadline < en.dueAt ∧ en.dueAt ≤ c.now ∧ c.now < en.dueAt + nsPerMs) := by
  intro en hen
  obtain ⟨-, -, h3, -⟩ := C05_dispatch_idle_not_late m bufCap tcap coupled ops hT c hc hlive hd
  obtain ⟨w, hw, hlt, -⟩ := h3 en hen
  have hi1 := inv_reach m bufCap tcap coupled (ops ++ [.pollDispatch])
  rw [List.foldl_append] at hi1
  simp only [List.foldl_cons, List.foldl_nil, applyOp] at hi1
  rw [← hc] at hi1
  obtain ⟨h1, h2, h3', h4⟩ := hi1.t.due en hen w hw
  by_cases hle : en.dueAt ≤ en.ctx.deadline
  · left
    exact Nat.lt_of_lt_of_le hlt (tick_le_ceil h4 hle)
  · right
    refine ⟨by omega, ?_, by omega⟩
    rcases Nat.le_total en.ctx.deadline c.now with hdn | hdn
    · rw [Nat.max_eq_right hdn] at h2; omega
    · rw [Nat.max_eq_left hdn] at h2; omega

/-- **C05: not late, in terms of the deadline (pre/post).**  If a request is in flight when the dispatch is polled at a
clock `now` at or after the millisecond tick of its deadline, and its timer was armed no later than its deadline
(`dueAt ≤ deadline`: it was taken off the queue before its deadline), then after a poll that returns `Pending` it is no
longer in flight: it has been failed with `DeadlineExceeded` in that poll (or completed / cancelled / failed with the
connection first). -/
theorem C05_deadline_passed_gone (m bufCap tcap : Nat) (coupled : Bool) (ops : List COp)
    (hT : advSum ops < 2 ^ 35 * nsPerMs) (c : Sys) (hc : c = ops.foldl applyOp (initSys m bufCap tcap coupled))
    (hlive : c.s.dDropped = false ∧ c.s.done = none) (hd : (pollDispatchKeep c.s c.now).done = none)
    (en : Entry) (hen : en ∈ c.s.inflight) (hpast : ceilMs en.ctx.deadline * nsPerMs ≤ c.now)
    (harmed : en.dueAt ≤ en.ctx.deadline) :
    ∀ en' ∈ (pollDispatch c.s c.now).inflight, en'.id ≠ en.id := by
  have hi0 := inv_reach m bufCap tcap coupled ops
  rw [← hc] at hi0
  obtain ⟨w, hw, -⟩ := hi0.t.e2t en hen
  obtain ⟨h1, h2, h3, h4⟩ := hi0.t.due en hen w hw
  have hdn : en.ctx.deadline ≤ c.now := by
    exact Nat.le_trans (le_ceil_tick _) hpast
  rw [Nat.max_eq_right hdn] at h2
  exact C05_due_request_gone_exact m bufCap tcap coupled ops hT c hc hlive hd en hen w hw
    (Nat.le_trans (tick_le_ceil h4 harmed) hpast) (by omega)

/-! ### the former drift of re-armed timers -/

/-- a call made at 1 ns whose deadline is one clamp + 10 ms away; the dispatch is polled when the first timer fires
(at `clampNs + 1 ms`, the millisecond tick of `1 ns + clampNs`), and again exactly at the deadline -/
def c05RearmLateOps : List COp :=
  [.advance 1, .call 0 (clampNs + 10000000) ⟨1, .given 1, true⟩ 7, .pollCall 0, .pollDispatch,
   .advance (clampNs + 1000000 - 1), .pollDispatch, .advance 9000000, .pollDispatch, .pollCall 0]

set_option maxRecDepth 100000 in
/-- **Former finding, turned around (repo ae850d0).**  The call is made at `t0 = 1 ns` with deadline
`D = clampNs + 10 ms`.  `insert_request` arms `clampNs`, records the exact due time `dueAt = 1 ns + clampNs` and keeps
`remainder = 10 ms − 1 ns`; the timer's tick is `clampNs + 1 ms`.  Polled exactly then, `poll_expired` now measures the
lateness from `dueAt` (`late = 1 ms − 1 ns`), so `rest = 9 ms` and the new tick is `clampNs + 10 ms = D`: the dispatch
polled at `D` fails the call there, and the full C05 monitor accepts the trace.  (When the lateness was measured from the
queue's *rounded* tick, `late` was 0 here, the re-arm rounded up a second time, the call was still pending at `D` — the
monitor rejected the trace — and failed at `D + 1 ms`.) -/
theorem C05_rearm_late_witness_fixed :
    advSum c05RearmLateOps < 2 ^ 35 * nsPerMs ∧
    (c05RearmLateOps.foldl applyOp (initSys 1 1 1 true)).now = clampNs + 10000000 ∧
    (c05RearmLateOps.foldl applyOp (initSys 1 1 1 true)).s.inflight = [] ∧
    (monC05 (trace (initSys 1 1 1 true) c05RearmLateOps)).ok = true ∧
    CEv.obs (.resolved 0 .deadline (clampNs + 10000000)) ∈ trace (initSys 1 1 1 true) c05RearmLateOps := by
  decide

/-! ### the wake-up: a due timer never waits for an unrelated event -/

/-- **A parked dispatch has its timers armed.**  In every reachable state (clock below `2^35` ms): if the dispatch is
alive and has not been woken since its last poll (`dWoken = false`: it is parked), then no timer is due, the dispatch's
waker is stored in the timer queue and the queue's `Sleep` is registered for an instant `t` with `now < t ≤ tick` for every
remaining tick.  (A poll that returns `Pending` establishes this — `C05_dispatch_idle_not_late`; the calls, the handles
and the transport do not touch the queue and can only wake the dispatch; when the clock reaches the `Sleep`, the timer
wakes the dispatch.) -/
theorem C05_parked_dispatch_armed (m bufCap tcap : Nat) (coupled : Bool) (ops : List COp)
    (hT : advSum ops < 2 ^ 35 * nsPerMs) (c : Sys) (hc : c = ops.foldl applyOp (initSys m bufCap tcap coupled))
    (hlive : c.s.dDropped = false ∧ c.s.done = none) (hparked : c.s.dWoken = false) :
    ∀ d ∈ c.s.timers.all, c.now < d.whenMs * nsPerMs ∧ c.s.timers.waker = true ∧
      ∃ t, c.s.timers.nextFire = some t ∧ c.now < t ∧ t ≤ d.whenMs * nsPerMs := by
  subst hc
  have hf := C16_client_flags
  have hp0 := reach_not_poisoned hf.1 hf.2 m bufCap tcap coupled ops hT
  have hi := parked_reach hf.1 m bufCap tcap coupled ops hT hlive.1 hlive.2 hp0 hparked
  intro d hd
  obtain ⟨hw, t, ht⟩ := hi.armed d hd
  exact ⟨hi.notDue d hd, hw, t, ht⟩

/-- **A due timer has woken the dispatch.**  In every reachable state (clock below `2^35` ms) with a live dispatch: if
the timer of some in-flight request is due (`tick ≤ now`), the dispatch has been woken (`dWoken = true`) — it will be
polled, and that poll handles every due timer (`C05_dispatch_idle_not_late`).  So a deadline never waits for an
unrelated event (a response, a new call, the transport becoming writable) to be noticed. -/
theorem C05_due_timer_wakes_dispatch (m bufCap tcap : Nat) (coupled : Bool) (ops : List COp)
    (hT : advSum ops < 2 ^ 35 * nsPerMs) (c : Sys) (hc : c = ops.foldl applyOp (initSys m bufCap tcap coupled))
    (hlive : c.s.dDropped = false ∧ c.s.done = none)
    (en : Entry) (hen : en ∈ c.s.inflight) (w : Nat) (hw : c.s.timers.Has en.timerKey en.id w)
    (hdue : w * nsPerMs ≤ c.now) : c.s.dWoken = true := by
  cases hwk : c.s.dWoken with
  | true => rfl
  | false =>
    exfalso
    obtain ⟨d, hd, _, _, rfl⟩ := hw
    have := (C05_parked_dispatch_armed m bufCap tcap coupled ops hT c hc hlive hwk d hd).1
    omega

/-- **… in terms of the deadline.**  If the millisecond tick of the deadline of an in-flight request (armed before its
deadline) has been reached, the dispatch has been woken. -/
theorem C05_deadline_passed_wakes_dispatch (m bufCap tcap : Nat) (coupled : Bool) (ops : List COp)
    (hT : advSum ops < 2 ^ 35 * nsPerMs) (c : Sys) (hc : c = ops.foldl applyOp (initSys m bufCap tcap coupled))
    (hlive : c.s.dDropped = false ∧ c.s.done = none)
    (en : Entry) (hen : en ∈ c.s.inflight) (hpast : ceilMs en.ctx.deadline * nsPerMs ≤ c.now)
    (harmed : en.dueAt ≤ en.ctx.deadline) : c.s.dWoken = true := by
  have hi0 := inv_reach m bufCap tcap coupled ops
  rw [← hc] at hi0
  obtain ⟨w, hw, -⟩ := hi0.t.e2t en hen
  obtain ⟨-, -, -, h4⟩ := hi0.t.due en hen w hw
  exact C05_due_timer_wakes_dispatch m bufCap tcap coupled ops hT c hc hlive en hen w hw
    (Nat.le_trans (tick_le_ceil h4 harmed) hpast)

/-! ### the monitor form: false without the bound on the clock -/

/-- the clock (ms) from which a one-year timeout lands in the top wheel level's slot 0 of the *next* rotation -/
def c05WheelLagStartMs : Nat := 2 ^ 36 + 2 - clampNs / nsPerMs

/-- call 0 (deadline 64 ms) times out at 64 ms — the only time the wheel clock (`elapsed`) ever moves: it stays at 64;
≈ 430 days later call 1 is made with a deadline two years away (its timer is armed with the one-year clamp: tick
`2^36 + 2` ms) and call 2 with a deadline 5 ms away; 5 ms later the dispatch is polled -/
def c05WheelLagOps : List COp :=
  [.call 0 (64 * nsPerMs) ⟨1, .given 1, true⟩ 1, .pollCall 0, .pollDispatch, .advance (64 * nsPerMs), .pollDispatch,
   .pollCall 0, .advance ((c05WheelLagStartMs - 64) * nsPerMs),
   .call 0 (c05WheelLagStartMs * nsPerMs + 2 * clampNs) ⟨1, .given 1, true⟩ 2, .pollCall 1, .pollDispatch,
   .call 0 ((c05WheelLagStartMs + 5) * nsPerMs) ⟨1, .given 1, true⟩ 3, .pollCall 2, .pollDispatch,
   .advance (5 * nsPerMs), .pollDispatch, .pollCall 2]

set_option maxRecDepth 1000000 in
/-- **Finding (tarpc-level consequence of the timer-wheel defect `DelayQ.C05_delayq_late_witness` and of the lag of the
wheel clock, F9): beyond `2^35` ms a short deadline can go unenforced for years.**  A client whose timer wheel last
advanced within its first 12 days (one early timeout; every later request completed in time, and only an *expiring* timer
moves `wheel.elapsed`) is, after ≈ 430 days (`2^36 ms − 1 year`), asked for a call with a deadline at least a year away.
The clamped timer (tick `2^36 + 2` ms) passes `DelayQueue::insert`'s range check (`when − elapsed ≤ 2^36 − 1`, `elapsed =
64`) and is filed in slot 0 of the top wheel level — one rotation ahead.  From then on `Level::next_expiration`, which
starts its search at the slot of `elapsed` *inclusive*, takes that entry for the wheel's next expiration: a call with a
5 ms deadline made next is not failed when the dispatch is polled at its deadline (nothing is yielded, the `Sleep` is
re-armed for `2^36 + 34·2^30` ms ≈ 3.3 years); the full C05 monitor rejects the trace.  The script's clock is beyond the
`2^35` ms for which the not-late theorems above are stated — it shows that their bound is not an artefact. -/
theorem C05_wheel_lag_witness :
    ¬ advSum c05WheelLagOps < 2 ^ 35 * nsPerMs ∧
    (c05WheelLagOps.foldl applyOp (initSys 2 2 2 true)).now = (c05WheelLagStartMs + 5) * nsPerMs ∧
    (c05WheelLagOps.foldl applyOp (initSys 2 2 2 true)).s.poisoned = false ∧
    (c05WheelLagOps.foldl applyOp (initSys 2 2 2 true)).s.inflight.map (fun e => (e.id, e.ctx.deadline, e.remainder)) =
      [(1, c05WheelLagStartMs * nsPerMs + 2 * clampNs, clampNs), (2, (c05WheelLagStartMs + 5) * nsPerMs, 0)] ∧
    (c05WheelLagOps.foldl applyOp (initSys 2 2 2 true)).s.timers.nextFire = some ((2 ^ 36 + 34 * 2 ^ 30) * nsPerMs) ∧
    (monC05 (trace (initSys 2 2 2 true) c05WheelLagOps)).ok = false := by
  decide

/-- **`C05_monitor_full_Statement` (all scripts, no bound on the clock) is false.** -/
theorem C05_monitor_full_statement_false : ¬ C05_monitor_full_Statement := by
  intro h
  have := h 2 2 2 true c05WheelLagOps
  rw [C05_wheel_lag_witness.2.2.2.2.2] at this
  cases this

/-- The monitor form with the bound on the clock under which the state-level theorems of this file hold.  Not proved:
beyond `C05_dispatch_idle_not_late` / `C05_idle_deadline_tick` it needs the ownership coupling between the monitor's book
and the in-flight table (a call that is awaiting, whose request was written and not answered, has its request in
flight — C01 / C03 territory) for the third clause of `checkC05`, and the analogous coupling of `reads` for the second.
No counterexample is known (the former one, `c05RearmLateOps`, is accepted since the exact due time is kept:
`C05_rearm_late_witness_fixed`). -/
def C05_monitor_bounded_Statement : Prop :=
  ∀ (m bufCap tcap : Nat) (coupled : Bool) (ops : List COp), advSum ops < 2 ^ 35 * nsPerMs →
    (monC05 (trace (initSys m bufCap tcap coupled) ops)).ok = true

/-! ### non-vacuity -/

/-- two calls (deadlines 5 ms and 50 ms) are sent; the clock moves to 6 ms -/
def c05TwoOps : List COp :=
  [.call 0 5000000 ⟨1, .given 1, true⟩ 7, .call 0 50000000 ⟨1, .given 1, true⟩ 8, .pollCall 0, .pollCall 1,
   .pollDispatch, .advance 6000000]

set_option maxRecDepth 100000 in
/-- The hypotheses of `C05_dispatch_idle_not_late` are satisfiable and its conclusion is not vacuous: after `c05TwoOps`
(`maxInFlight = 2`) both requests are in flight, the first one's timer (tick 5 ms) is due at 6 ms; the dispatch is live;
the poll leaves it not done; afterwards only request 1 is in flight, its tick (50 ms) lies after the clock, call 0 has
been sent `DeadlineExceeded`, the queue's waker is stored and its `Sleep` fires at 50 ms. -/
example :
    advSum c05TwoOps < 2 ^ 35 * nsPerMs ∧
    (c05TwoOps.foldl applyOp (initSys 2 2 2 true)).now = 6000000 ∧
    (c05TwoOps.foldl applyOp (initSys 2 2 2 true)).s.inflight.map (fun e => (e.id, e.timerKey, e.remainder)) =
      [(0, 0, 0), (1, 1, 0)] ∧
    (c05TwoOps.foldl applyOp (initSys 2 2 2 true)).s.timers.all.map (fun d => (d.key, d.val, d.whenMs)) =
      [(0, 0, 5), (1, 1, 50)] ∧
    (c05TwoOps.foldl applyOp (initSys 2 2 2 true)).s.dDropped = false ∧
    (c05TwoOps.foldl applyOp (initSys 2 2 2 true)).s.done = none ∧
    (pollDispatchKeep (c05TwoOps.foldl applyOp (initSys 2 2 2 true)).s 6000000).done = none ∧
    (pollDispatch (c05TwoOps.foldl applyOp (initSys 2 2 2 true)).s 6000000).inflight.map (fun e => (e.id, e.timerKey)) =
      [(1, 1)] ∧
    (pollDispatch (c05TwoOps.foldl applyOp (initSys 2 2 2 true)).s 6000000).timers.all.map
      (fun d => (d.key, d.val, d.whenMs)) = [(1, 1, 50)] ∧
    (pollDispatch (c05TwoOps.foldl applyOp (initSys 2 2 2 true)).s 6000000).calls.map (fun cl => (cl.cid, cl.os.val)) =
      [(0, some .deadline), (1, none)] ∧
    (pollDispatch (c05TwoOps.foldl applyOp (initSys 2 2 2 true)).s 6000000).timers.waker = true ∧
    (pollDispatch (c05TwoOps.foldl applyOp (initSys 2 2 2 true)).s 6000000).timers.nextFire = some 50000000 := by
  decide

/-- the wake-up: two calls are sent (the first poll of the dispatch wakes itself by arming timers), the second poll
parks the dispatch (`dWoken = false`) with its waker in the queue and the `Sleep` at 5 ms; advancing the clock to 4 ms
leaves it parked, advancing it to 6 ms wakes it -/
def c05ParkOps : List COp :=
  [.call 0 5000000 ⟨1, .given 1, true⟩ 7, .call 0 50000000 ⟨1, .given 1, true⟩ 8, .pollCall 0, .pollCall 1,
   .pollDispatch, .pollDispatch]

example :
    (c05ParkOps.foldl applyOp (initSys 2 2 2 true)).s.dWoken = false ∧
    (c05ParkOps.foldl applyOp (initSys 2 2 2 true)).s.timers.waker = true ∧
    (c05ParkOps.foldl applyOp (initSys 2 2 2 true)).s.timers.nextFire = some 5000000 ∧
    ((c05ParkOps ++ [COp.advance 4000000]).foldl applyOp (initSys 2 2 2 true)).s.dWoken = false ∧
    ((c05ParkOps ++ [COp.advance 6000000]).foldl applyOp (initSys 2 2 2 true)).s.dWoken = true := by
  decide

end TarpcModel.Client

import TarpcModel.Lemmas.ServerMon18
/-!
# C18 (server side) — the run-time monitor `monC18` accepts every trace of the server model

Property theorems only.  `checkC18` (`Monitors/Server.lean`) judges every `yielded r id d tr` observation (a request
handed to the application) against the request read last for `id`: the handler must see the request's trace id and
sampling decision, a span id that is neither the request's own nor that of any request handed out before, and the
request's deadline.

In the model — as in `tarpc::server::BaseChannel::start_request` — the handler's span id is drawn afresh
(`Span.fresh k`, `k` the running counter).  The scripts quantified over are those whose injected requests carry
caller-chosen span ids (`Span.given n`): a script may not pre-empt the values of the code's own random draws
(`GivenOps`; the same hypothesis as in `C18_monitor_accepts` on the client side; `C18S_fresh_span_witness` shows the
artefact it excludes).  Proof: `Lemmas/ServerMon18.lean`.
-/
namespace TarpcModel.Server
open TarpcModel TarpcModel.Server.Mon18

/-- **C18 (server), monitor form.**  For every configuration and every script over all ops whose injected requests
carry `given` span ids — with duplicates, re-used ids, cancellations, throttled requests, transport faults — the C18
monitor accepts the model's trace: every request handed out carries the trace id, the sampling decision and the
deadline of the request read last for its id, and a span id that differs from the request's and from those of all
requests handed out before. -/
theorem C18S_monitor_accepts (limit : Option Nat) (respCap tcap : Nat) (coupled : Bool) (ops : List SOp)
    (hg : GivenOps ops) : (monC18 limit (trace (initSys limit respCap tcap coupled) ops)).ok = true := by
  unfold Mon.ok
  rw [c18_accepts limit respCap tcap coupled ops hg]; rfl

/-- The hypothesis on the scripts, spelled out. -/
theorem C18S_givenOps_iff (ops : List SOp) :
    GivenOps ops ↔ ∀ id d tr b, SOp.injectReq id d tr b ∈ ops → ∃ n, tr.span = .given n := by
  constructor
  · intro h id d tr b hm; exact h _ hm
  · intro h op hop
    cases op with
    | injectReq id d tr b => exact h id d tr b hop
    | _ => trivial

/-- **Why the hypothesis is there (an artefact of the symbolic span ids, not a finding).**  A script that injects a
request whose span id is the very value the server's generator will draw next (`Span.fresh 0`) makes the monitor
report "reuses the request's span id"; with real 64-bit random span ids the script cannot be written. -/
theorem C18S_fresh_span_witness :
    (monC18 none (trace (initSys none 1 1 true) [.injectReq 1 5000000 ⟨7, .fresh 0, true⟩ 0, .pollServer])).ok = false := by
  decide

/-- Non-vacuity: the monitor runs over a trace in which three requests are handed out — one of them re-using the id
of a cancelled one, with a different trace context and deadline — and accepts it; the spans handed out are the
generator's first three draws. -/
example :
    let evs := trace (initSys none 1 4 true)
      [.injectReq 1 5000000 ⟨7, .given 1, true⟩ 0, .injectReq 2 6000000 ⟨8, .given 2, false⟩ 0, .pollServer, .pollServer,
       .injectCancel 1 ⟨7, .given 1, true⟩, .injectReq 1 9000000 ⟨9, .given 3, true⟩ 0, .pollServer, .pollServer]
    (monC18 none evs).ok = true ∧
    evs.filterMap (fun e => match e with | .obs (.yielded r id d tr) => some (r, id, d, tr) | _ => none)
      = [(0, 1, 5000000, ⟨7, .fresh 0, true⟩), (1, 2, 6000000, ⟨8, .fresh 1, false⟩), (2, 1, 9000000, ⟨9, .fresh 2, true⟩)] := by
  decide

/-- The clauses are not vacuous: a handler given a wrong deadline, or the request's own span id, is rejected. -/
example :
    (monC18 none [.op .pollServer, .obs (.tNext (.server 0) (.item (.request 1 5 ⟨7, .given 1, true⟩ 0))),
      .obs (.yielded 0 1 6 ⟨7, .fresh 0, true⟩)]).ok = false ∧
    (monC18 none [.op .pollServer, .obs (.tNext (.server 0) (.item (.request 1 5 ⟨7, .given 1, true⟩ 0))),
      .obs (.yielded 0 1 5 ⟨7, .given 1, true⟩)]).ok = false := by
  decide

end TarpcModel.Server

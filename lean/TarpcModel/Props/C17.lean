import TarpcModel.Lemmas.C17
/-!
# C17 — Generated service glue connects each method to itself

Property theorems only.  The model is `TarpcModel.Macro` (`Macro.lean`): `generate` produces the name
tables the attribute macro emits, `clientBuild` / `serverDispatch` / `requestName` / `clientUnwrap` are
rustc's name resolution on them, `accepted` is the parser's checks together with the explicit (trusted)
list of what rustc enforces on the expansion.  All theorems quantify over **all** service definitions:
any number of methods, any argument lists, raw identifiers, any cfg pattern, any derive option.
-/
namespace TarpcModel.Macro

/-! ## The round trip -/

/-- **C17 (request path).**  For every accepted service, every method `i` that survives cfg and every
argument tuple of its arity: the request built by client method `i` is the variant
`snakeToCamel (unraw m)` carrying the arguments under the parameter names in order, and the server's
`match` sends it to trait method `i` with exactly those arguments in the same order. -/
theorem C17_roundtrip {V : Type} (s : Service) (hacc : accepted s) (i : Nat) (m : Method)
    (hm : s.methods[i]? = some m) (hact : m.active = true) (args : List V)
    (hlen : args.length = m.args.length) :
    clientBuild (generate s) i args = some ⟨snakeToCamel m.ident.name, m.argNames.zip args⟩ ∧
    (clientBuild (generate s) i args).bind (serverDispatch (generate s)) =
      some (i, args, snakeToCamel m.ident.name) := by
  have h1 := clientBuild_generate hacc hm hact args hlen
  refine ⟨h1, ?_⟩
  rw [h1]
  exact serverDispatch_generate hacc hm hact args hlen

/-- **C17 (response path).**  The response variant that server arm `i` wraps the result in is the one
client method `i` unwraps, and it yields the same value. -/
theorem C17_response_roundtrip {V : Type} (s : Service) (hacc : accepted s) (i : Nat) (m : Method)
    (hm : s.methods[i]? = some m) (hact : m.active = true) (args : List V)
    (hlen : args.length = m.args.length) (v : V) :
    ∃ rv, (clientBuild (generate s) i args).bind (serverDispatch (generate s)) = some (i, args, rv) ∧
      clientUnwrap (generate s) i ⟨rv, v⟩ = some v :=
  ⟨m.variant, (C17_roundtrip s hacc i m hm hact args hlen).2, clientUnwrap_generate hm v⟩

/-- **C17 (whole call).**  Calling method `i` on the generated client with `args` and context `ctx`
invokes exactly the implementor's method `i` with the same arguments in the same order and that context,
and the caller gets that invocation's result. -/
theorem C17_call {V C : Type} (s : Service) (hacc : accepted s) (i : Nat) (m : Method)
    (hm : s.methods[i]? = some m) (hact : m.active = true) (impl : Impl V C) (ctx : C) (args : List V)
    (hlen : args.length = m.args.length) :
    ∃ t, call (generate s) impl i ctx args = some t ∧
      t.ranMethod = i ∧ t.ranCtx = ctx ∧ t.ranArgs = args ∧
      t.produced = impl i ctx args ∧ t.returned = impl i ctx args ∧
      t.request.fields.map (·.2) = args :=
  ⟨_, call_generate hacc hm hact impl ctx args hlen, rfl, rfl, rfl, rfl, rfl,
    map_snd_zip _ _ (by rw [argNames_length, hlen])⟩

/-- **C17 (exactness, no hypotheses on `i`).**  Whatever call goes through on an accepted service ran
the method that was called — never another one — with the caller's arguments and context. -/
theorem C17_call_exact {V C : Type} (s : Service) (hacc : accepted s) (impl : Impl V C) (i : Nat)
    (ctx : C) (args : List V) (t : CallTrace V C) (h : call (generate s) impl i ctx args = some t) :
    t.ranMethod = i ∧ t.ranCtx = ctx ∧ t.ranArgs = args ∧ t.returned = impl i ctx args := by
  cases hm : s.methods[i]? with
  | none => simp [call, clientBuild, generate, hm] at h
  | some m =>
    by_cases hact : m.active = true
    · by_cases hlen : args.length = m.args.length
      · rw [call_generate hacc hm hact impl ctx args hlen] at h
        cases h
        exact ⟨rfl, rfl, rfl, rfl⟩
      · simp [call, clientBuild, generate, hm, Method.argNames, hlen] at h
    · simp [call, clientBuild, generate, hm, hact] at h

/-! ## The reported name -/

/-- **C17 (name).**  The request's reported name is `<Service>.<method>` with both identifiers as
written. -/
theorem C17_name {V : Type} (s : Service) (hacc : accepted s) (i : Nat) (m : Method)
    (hm : s.methods[i]? = some m) (hact : m.active = true) (args : List V)
    (hlen : args.length = m.args.length) :
    (clientBuild (generate s) i args).bind (requestName (generate s)) =
      some (s.ident.printed ++ ['.'] ++ m.ident.printed) := by
  rw [clientBuild_generate hacc hm hact args hlen]
  exact requestName_generate hacc hm hact _

/-- What "as written" means: a raw identifier keeps its `r#` prefix (the name of `r#type` in service
`Svc` is `Svc.r#type`), a plain one is printed unchanged. -/
theorem C17_name_printed (n : Name) :
    (Ident.mk true n).printed = 'r' :: '#' :: n ∧ (Ident.mk false n).printed = n := ⟨rfl, rfl⟩

/-! ## Collisions of mangled names -/

/-- **C17 (collisions rejected).**  Two different methods whose identifiers mangle to the same variant
name are never accepted (whatever their cfg: the response enum keeps every variant). -/
theorem C17_camel_collisions (s : Service) (i j : Nat) (a b : Method) (hij : i ≠ j)
    (hi : s.methods[i]? = some a) (hj : s.methods[j]? = some b)
    (hcol : snakeToCamel a.ident.name = snakeToCamel b.ident.name) : ¬ accepted s :=
  fun hacc => hij (idx_eq_of_nodup_map (·.variant) s.methods (accepted_variants_nodup hacc) i j a b hi hj hcol)

/-- In particular `r#foo` next to `foo` (same text once unrawed) is rejected. -/
theorem C17_raw_plain_collision (s : Service) (i j : Nat) (a b : Method) (hij : i ≠ j)
    (hi : s.methods[i]? = some a) (hj : s.methods[j]? = some b)
    (hname : a.ident.name = b.ident.name) : ¬ accepted s :=
  C17_camel_collisions s i j a b hij hi hj (by rw [hname])

/-- **Exact characterisation of collisions.**  The mangled name is the concatenation of the capitalised
words between underscores; two identifiers collide iff those concatenations coincide. -/
theorem C17_camel_words (a : Name) : snakeToCamel a = (words a).flatMap cap := by
  have := wordsAux_flatMap_cap [] a
  simp only [if_true] at this
  exact this.symm

theorem C17_camel_collision_iff (a b : Name) :
    snakeToCamel a = snakeToCamel b ↔ (words a).flatMap cap = (words b).flatMap cap := by
  rw [C17_camel_words, C17_camel_words]

/-- Collision sources: letter case is ignored ... -/
theorem C17_camel_case_insensitive (a : Name) :
    snakeToCamel (a.map Char.toLower) = snakeToCamel a ∧ snakeToCamel (a.map Char.toUpper) = snakeToCamel a :=
  ⟨camelAux_map_toLower true a, camelAux_map_toUpper true a⟩

/-- ... and so are leading, trailing and repeated underscores. -/
theorem C17_camel_underscore_insensitive (a b : Name) :
    snakeToCamel ('_' :: a) = snakeToCamel a ∧
    snakeToCamel (a ++ ['_']) = snakeToCamel a ∧
    snakeToCamel (a ++ '_' :: '_' :: b) = snakeToCamel (a ++ '_' :: b) := by
  refine ⟨by simp [snakeToCamel, camelAux_cons], ?_, ?_⟩
  · simp [snakeToCamel, camelAux_append_us, camelAux_nil]
  · simp [snakeToCamel, camelAux_append_us, camelAux_cons]

/-- Concrete collisions and non-collisions (`fooBar` is *not* `foo_bar`: an inner capital is
lower-cased; a digit is caseless, so `a_1` and `a1` do collide). -/
theorem C17_camel_examples :
    snakeToCamel "foo_bar".toList = "FooBar".toList ∧
    snakeToCamel "foo__bar".toList = "FooBar".toList ∧
    snakeToCamel "_foo_bar_".toList = "FooBar".toList ∧
    snakeToCamel "FOO_BAR".toList = "FooBar".toList ∧
    snakeToCamel "fooBar".toList = "Foobar".toList ∧
    snakeToCamel "foobar".toList = "Foobar".toList ∧
    snakeToCamel "a_1".toList = "A1".toList ∧
    snakeToCamel "a1".toList = "A1".toList ∧
    snakeToCamel "__".toList = [] ∧
    snakeToCamel "_1x".toList = "1x".toList ∧
    snakeToCamel "self_".toList = "Self".toList := by
  decide

/-! ## `snake_to_camel` facts -/

theorem C17_camel_no_underscore (a : Name) : '_' ∉ snakeToCamel a := camelAux_no_underscore true a

theorem C17_camel_length (a : Name) :
    (snakeToCamel a).length = (a.filter (· ≠ '_')).length ∧ (snakeToCamel a).length ≤ a.length :=
  ⟨camelAux_length true a, camelAux_length_le true a⟩

/-- Not idempotent (`foo_bar ↦ FooBar ↦ Foobar`), but it stabilises after two steps. -/
theorem C17_camel_stabilises (a : Name) :
    snakeToCamel (snakeToCamel (snakeToCamel a)) = snakeToCamel (snakeToCamel a) := by
  have h1 := C17_camel_no_underscore a
  cases ht : snakeToCamel a with
  | nil => simp [snakeToCamel, camelAux_nil]
  | cons c cs =>
    rw [ht] at h1
    have e1 : snakeToCamel (c :: cs) = c.toUpper :: cs.map Char.toLower := camelAux_true_clean c cs h1
    have h2 := C17_camel_no_underscore (c :: cs)
    rw [e1] at h2 ⊢
    have e2 := camelAux_true_clean c.toUpper (cs.map Char.toLower) h2
    simp only [snakeToCamel] at e2 ⊢
    rw [e2]
    simp [toUpper_toUpper, toLower_toLower]

/-- Capitalised underscore-free words are fixed points. -/
theorem C17_camel_fixed_point (c : Char) (cs : Name) (h : '_' ∉ c :: cs) (hc : c.toUpper = c)
    (hcs : ∀ d ∈ cs, d.toLower = d) : snakeToCamel (c :: cs) = c :: cs := by
  have e := camelAux_true_clean c cs h
  simp only [snakeToCamel, e, hc, List.cons.injEq, true_and]
  clear e h
  induction cs with
  | nil => rfl
  | cons d ds ih =>
    simp only [List.map_cons, hcs d (by simp), List.cons.injEq, true_and]
    exact ih (fun x hx => hcs x (by simp [hx]))

/-! ## Rejections -/

/-- **C17 (reserved names).**  A method written `new` or `serve` (the generated table of names the
parser refuses) is rejected, under any cfg. -/
theorem C17_reserved_rejected (s : Service) (m : Method) (hm : m ∈ s.methods)
    (hres : m.ident.printed ∈ reservedNames) : ¬ accepted s :=
  fun hacc => hacc.1.2 m hm hres

/-- The raw spellings `r#new` / `r#serve` slip through the parser's comparison but a method that
survives cfg then clashes with the generated fn of that name, so rustc rejects the expansion. -/
theorem C17_reserved_raw_rejected (s : Service) (m : Method) (hm : m ∈ s.methods)
    (hact : m.active = true) (hres : m.ident.name ∈ reservedNames) : ¬ accepted s :=
  fun hacc => (hacc.2.2.2.2.2.2 m hm hact).1 hres

/-- The table really contains the two names generated items use. -/
theorem C17_reserved_names_are : nameNew ∈ reservedNames ∧ nameServe ∈ reservedNames := by decide

/-- Patterns, decorated identifiers and `self` receivers are rejected. -/
theorem C17_non_ident_arg_rejected (s : Service) (m : Method) (hm : m ∈ s.methods) (a : Arg)
    (ha : a ∈ m.args) (hk : a.kind ≠ .plain) : ¬ accepted s := by
  intro hacc
  have h1 := hacc.1.1 m hm a ha
  have h2 := hacc.2.2.2.2.2.1 m hm a ha
  cases hkind : a.kind <;> simp_all

/-- An argument named `ctx` (the client fn's own parameter), or two arguments with one name, on a method
that survives cfg, are rejected — so binding by name in the server arm can never pick a different value
than positional passing would. -/
theorem C17_arg_name_clash_rejected (s : Service) (m : Method) (hm : m ∈ s.methods)
    (hact : m.active = true) (h : ctxName ∈ m.argNames ∨ ¬ m.argNames.Nodup) : ¬ accepted s := by
  intro hacc
  have := hacc.2.2.2.2.2.2 m hm hact
  cases h with
  | inl h => exact this.2.2 h
  | inr h => exact h this.2.1

/-- A mangled name that is not an identifier (`__ ↦ ""`, `_1 ↦ "1"`) or is the keyword `Self`
(`self_ ↦ Self`) is rejected. -/
theorem C17_bad_variant_rejected (s : Service) (m : Method) (hm : m ∈ s.methods)
    (h : validIdent (snakeToCamel m.ident.name) = false ∨ snakeToCamel m.ident.name = selfVariant) :
    ¬ accepted s := by
  intro hacc
  cases h with
  | inl h => have := hacc.2.1 m hm; simp [Method.variant, h] at this
  | inr h => exact hacc.2.2.2.2.1 m hm h

/-- A service none of whose methods survives cfg — in particular one with no methods — is rejected
(the generated `name()` would be `match self {}` on a reference). -/
theorem C17_no_active_method_rejected (s : Service) (h : ∀ m ∈ s.methods, m.active = false) :
    ¬ accepted s := by
  intro hacc
  obtain ⟨m, hm, ha⟩ := hacc.2.2.1
  rw [h m hm] at ha
  cases ha

/-- The rejection classes the check observes refine `accepted` exactly. -/
theorem C17_classify_accepted_iff (s : Service) : classify s = .accepted ↔ accepted s := by
  unfold classify accepted
  by_cases h0 : firstArgErrs s.methods ≠ []
  · rw [if_pos h0]
    constructor
    · intro h; cases h
    · intro h
      exfalso
      apply h0
      have hp := h.1.1
      generalize s.methods = ms at hp
      induction ms with
      | nil => rfl
      | cons m ms ih =>
        have hm : argErrs m = [] := by
          unfold argErrs
          rw [List.filterMap_eq_nil_iff]
          intro a ha
          have := hp m (by simp) a ha
          cases hk : a.kind <;> simp_all
        simp only [firstArgErrs, hm, if_true]
        exact ih (fun m' hm' => hp m' (by simp [hm']))
  · rw [if_neg h0]
    by_cases h1 : parserOk s
    · by_cases h2 : macroOk s
      · by_cases h3 : rustcOk s <;> simp [h1, h2, h3]
      · simp [h1, h2]
    · simp [h1]

/-! ## The monitor accepts the model -/

/-- **C17 (monitor form).**  For every accepted service and every invocation, the monitor that the check
runs on the implementation's observations accepts the model's observations. -/
theorem C17_monitor_accepts {V C : Type} [DecidableEq V] [DecidableEq C] (s : Service)
    (hacc : accepted s) (impl : Impl V C) (i : Nat) (ctx : C) (args : List V) :
    (mon (invokeObs s impl i ctx args)).ok = true := by
  unfold invokeObs
  cases hm : s.methods[i]? with
  | none => simp [mon, monStep]
  | some m =>
    cases hc : call (generate s) impl i ctx args with
    | none => simp [mon, monStep]
    | some t =>
      have hex := C17_call_exact s hacc impl i ctx args t hc
      by_cases hact : m.active = true
      · by_cases hlen : args.length = m.args.length
        · rw [call_generate hacc hm hact impl ctx args hlen] at hc
          cases hc
          simp [mon, monStep, MonSt.fail, requestNameStr, Method.variant,
            map_snd_zip m.argNames args (by rw [argNames_length, hlen])]
        · simp [call, clientBuild, generate, hm, Method.argNames, hlen] at hc
      · simp [call, clientBuild, generate, hm, hact] at hc

/-! ## Non-vacuity: a concrete three-method service -/

/-- `trait Svc { async fn r#type(a: u8, b: String) -> u64; #[cfg(all())] async fn _get__Thing_(x: u8, y: u8);
async fn ping(); #[cfg(any())] async fn off(a: u8, a: u8, ctx: u8) -> u8; }` -/
def exampleSvc : Service where
  ident := ⟨false, "Svc".toList⟩
  derive := 0
  methods := [
    ⟨⟨true, "type".toList⟩, [⟨.plain, ⟨false, "a".toList⟩, .u8⟩, ⟨.plain, ⟨true, "match".toList⟩, .string⟩],
      some .u64, .none⟩,
    ⟨⟨false, "_get__Thing_".toList⟩, [⟨.plain, ⟨false, "x".toList⟩, .u8⟩, ⟨.plain, ⟨false, "y".toList⟩, .u8⟩],
      none, .on⟩,
    ⟨⟨false, "ping".toList⟩, [], none, .none⟩,
    ⟨⟨false, "off".toList⟩, [⟨.plain, ⟨false, "a".toList⟩, .u8⟩, ⟨.plain, ⟨false, "a".toList⟩, .u8⟩,
      ⟨.plain, ⟨false, "ctx".toList⟩, .u8⟩], some .u8, .off⟩]

example : accepted exampleSvc := by decide

/-- The implementor used in the examples: returns `1000·method + 10·first + second`. -/
def exampleImpl : Impl Nat Nat := fun i _ args => 1000 * i + 10 * args.headD 0 + (args.drop 1).headD 0

example :
    call (generate exampleSvc) exampleImpl 1 77 [3, 4] =
      some ⟨⟨"GetThing".toList, [("x".toList, 3), ("y".toList, 4)]⟩, "Svc._get__Thing_".toList,
            1, 77, [3, 4], 1034, 1034⟩ := by
  decide

example :
    (call (generate exampleSvc) exampleImpl 0 5 [8, 9]).map (fun t => (t.request.variant, t.name, t.returned)) =
      some ("Type".toList, "Svc.r#type".toList, 89) := by
  decide

/-- The cfg'd-out method has no client fn; a wrong arity does not type-check. -/
example : call (generate exampleSvc) exampleImpl 3 0 [1, 2, 3] = none ∧
    call (generate exampleSvc) exampleImpl 2 0 [1] = none := by
  decide

/-- Rejected variants of the example. -/
example : classify { exampleSvc with methods := exampleSvc.methods ++
    [⟨⟨false, "get_thing".toList⟩, [], none, .off⟩] } = .rustc := by decide
example : classify { exampleSvc with methods := exampleSvc.methods ++
    [⟨⟨false, "new".toList⟩, [], none, .off⟩, ⟨⟨false, "serve".toList⟩, [], none, .none⟩] } =
    .parser [.new, .serve] := by decide
example : classify { exampleSvc with methods := exampleSvc.methods ++
    [⟨⟨true, "new".toList⟩, [], none, .none⟩] } = .rustc := by decide
example : classify { exampleSvc with methods := exampleSvc.methods ++
    [⟨⟨true, "new".toList⟩, [], none, .off⟩] } = .accepted := by decide
example : classify { exampleSvc with methods := exampleSvc.methods ++
    [⟨⟨false, "__".toList⟩, [], none, .none⟩] } = .macroPanic := by decide
example : classify { exampleSvc with methods :=
    [⟨⟨false, "a".toList⟩, [⟨.receiver, ⟨false, "self".toList⟩, .u8⟩, ⟨.pattern, ⟨false, "p".toList⟩, .u8⟩], none, .none⟩,
     ⟨⟨false, "new".toList⟩, [], none, .none⟩] } = .parser [.receiver, .pattern] := by decide
example : classify { exampleSvc with methods := [] } = .rustc := by decide

end TarpcModel.Macro

import TarpcModel.Lemmas.ServerStallWalk
import TarpcModel.Props.C06LimiterExit
/-!
# C06 / C04 (server side) — the limiter's early exit is taken at the limit only: the general theorem

Property theorems only.  `Props/C06LimiterExit.lean` describes the clause of `checkC06Stall` that rejects a top-level
poll of the request stream in which the limiter returned on `poll_ready → Pending` without polling the inner channel
although the poll began below the limit (`Book.belowLimitStall`), with examples.  Here: **that clause never fires on a
trace of the model** — every configuration (any limit or none, any capacities), every script over all ops, every fault,
no bound on the clock (`C06S_limiter_exit_accepts`).

The proof (`Lemmas/ServerStallWalk.lean`) is an observation-precise walk through one poll: between the calls of the
pumps the book's flag is clear and a pending `poll_ready` as last transport call implies that the limit is at most the
count the poll began with (`LG`); every part of the poll that makes no `poll_ready` call keeps that (`ObsRel`,
`or_basePollNext` …); the write pump's own pending `poll_ready` is always followed by its `poll_flush`
(`LG_ensureOnce`, `LG_pumpWrite`); the limiter calls `poll_ready` only behind its `in_flight ≥ limit` test
(`LG_legacy`), and the table does not grow while no request is accepted (`basePollNext_len`), so at the limit now means
at the limit when the poll began; and the count the book remembers (`lastCounts`) is the size of the table when the next
channel poll begins (`OIL`: requests in flight change inside channel polls only, `applyOp_inflight_len`).
-/
namespace TarpcModel.Server
open TarpcModel TarpcModel.Server.Tab

/-- the monitor with the limiter-exit clause of `checkC06Stall` only -/
def monLimiterExit (limit : Option Nat) (evs : List SEv) : Mon Unit := Mon.run limit checkLimiterExit () evs

/-- **On the model the limiter takes its early exit at the limit only.**  For every configuration and every script over
all ops, the limiter-exit clause never fires on the model's trace: no top-level poll of the request stream in which
`poll_ready → Pending` is followed at once by the write pump's `poll_ready` began with fewer requests in flight than the
limit. -/
theorem C06S_limiter_exit_accepts (limit : Option Nat) (respCap tcap : Nat) (coupled : Bool) (ops : List SOp) :
    (monLimiterExit limit (trace (initSys limit respCap tcap coupled) ops)).ok = true := by
  unfold Mon.ok monLimiterExit
  rw [limiter_exit_accepts limit respCap tcap coupled ops]; rfl

/-- The sub-monitor is the first clause of `checkC06Stall`: whenever it objects, so does `checkC06Stall`, with the same
message. -/
theorem C06S_limiter_exit_first_clause (b : Book) (s : C06StallSt) (e : SEv) (why : String)
    (h : (checkLimiterExit b () e).2 = some why) : (checkC06Stall b s e).2 = some why := by
  cases e with
  | op o => cases h
  | obs o =>
    cases o with
    | ret t r =>
      cases t with
      | server k =>
        simp only [checkLimiterExit, checkC06Stall] at h ⊢
        by_cases hc : (b.topPoll && b.belowLimitStall) = true
        · rw [if_pos hc] at h ⊢; exact h
        · rw [if_neg hc] at h; cases h
      | _ => cases h
    | _ => cases h

/-- … and where it is silent, `checkC06Stall` judges a `ret` of the request stream by its stalled-poll clause alone
(which never objects at a `ret`). -/
theorem C06S_stall_ret_silent (b : Book) (s : C06StallSt) (k : Nat) (r : Ret)
    (h : (checkLimiterExit b () (.obs (.ret (.server k) r))).2 = none) :
    (checkC06Stall b s (.obs (.ret (.server k) r))).2 = none := by
  simp only [checkLimiterExit, checkC06Stall] at h ⊢
  by_cases hc : (b.topPoll && b.belowLimitStall) = true
  · rw [if_pos hc] at h; cases h
  · rw [if_neg hc]
    split <;> rfl

set_option maxRecDepth 100000 in
/-- Non-vacuity: the sub-monitor rejects the synthetic trace of `Props/C06LimiterExit.lean` (exit taken with 0 of 2 in
flight) and accepts a model trace in which the limiter does take the exit, at its limit. -/
example :
    (monLimiterExit (some 2)
      [.op .pollServer, .obs (.tReady (.server 0) .pending), .obs (.tReady (.server 0) .pending),
       .obs (.tFlush (.server 0) .pending), .obs (.ret (.server 0) .pending), .obs (.counts (.server 0) 0 0)]).ok = false ∧
    (let tr : Trace := ⟨0, .given 0, false⟩
     (monLimiterExit (some 1) (trace (initSys (some 1) 1 8 false)
        [.injectReq 1 50000000 tr 0, .pollServer, .setReady false, .injectReq 2 60000000 tr 0, .pollServer,
         .pollServer])).ok = true) := by
  decide

end TarpcModel.Server

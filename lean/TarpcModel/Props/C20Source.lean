import TarpcModel.Gen.Flags
/-!
C20, assumption check: the balance theorems (`Props/C20.lean`) take for granted that every call draws
its ticket from one atomic fetch-add on the shared cursor.  The translator reads that fact off the
current source of `tarpc/src/client/stub/load_balance.rs`; if the cursor is ever advanced in two
steps this obligation fails and the check searches for a failing interleaving with real threads
(family `c20mt`).
-/
namespace TarpcModel.Stubs

theorem C20_cursor_is_one_atomic_fetch_add : Gen.rrCursorFetchAdd = true := by decide

end TarpcModel.Stubs

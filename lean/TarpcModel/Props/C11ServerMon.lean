import TarpcModel.Lemmas.ServerMon11
import TarpcModel.Props.C11Server
/-!
# C11 (server side) — the counting clauses of the run-time monitor `monC11` accept every trace of the model

Property theorems only.  `checkC11` (`Monitors/Server.lean`) judges each `counts (server _) inflight timers`
observation (emitted at the end of every poll of the request stream).  Its first two clauses do not depend on the
monitor's approximate table of yielded requests:

1. `inflight = timers` — as many tracked requests as armed deadline timers;
2. once the request stream has ended (`Book.streamDone`: a `Ready(None)` was observed), `inflight = 0`.

`checkC11Counts` (`Lemmas/ServerMon11.lean`) is `checkC11` restricted to these two clauses, `checkC11Rest` the
remaining clauses; `C11S_check_split`: `checkC11` fires iff `checkC11Counts` fires or, that failing, `checkC11Rest`
does — so the theorem below says: on a trace of the model an alarm of the C11 monitor can only come from the clauses
that compare the count with the monitor's table (where the known findings F2 / F7 and id re-use live).
-/
namespace TarpcModel.Server
open TarpcModel TarpcModel.Server.Mon11

/-- `checkC11` is its two counting clauses followed by the remaining ones. -/
theorem C11S_check_split (b : Book) (u : Unit) (e : SEv) :
    (checkC11 b u e).2 = (checkC11Counts b u e).2.orElse fun _ => (checkC11Rest b u e).2 :=
  checkC11_split b u e

/-- **C11 (server), monitor form, counting clauses.**  For every configuration and every script over all ops the
clauses "`inflight` = `timers`" and "stream ended ⇒ `inflight` = 0" of the C11 monitor never fire on the model's
trace: the in-flight table and the timer queue are in bijection whenever a poll ends, the poll that ends the
request stream reports 0 (it ends only with nothing in flight), and after it no poll reports anything. -/
theorem C11S_monitor_accepts_counts (limit : Option Nat) (respCap tcap : Nat) (coupled : Bool) (ops : List SOp) :
    (monC11Counts limit (trace (initSys limit respCap tcap coupled) ops)).ok = true := by
  have h := mon11_accepts_of (trace (initSys limit respCap tcap coupled) ops)
    { st := (), book := { limit := limit } } {} rfl rfl
    (inv11_trace ops _ _ ⟨rfl, fun h => by cases h⟩)
    (fun k a b hm => C11_counts_always_equal limit respCap tcap coupled ops k a b hm)
  unfold Mon.ok monC11Counts Mon.run
  rw [h]; rfl

/-- Hence: whenever the full C11 monitor rejects a trace of the model, the clause that fired is one of those
comparing the reported count with the monitor's own table (`checkC11Rest`) — at the first event at which
`checkC11` fires (with the book the monitor has at that event), `checkC11Rest` fires with the same message. -/
theorem C11S_alarm_is_table_clause (b : Book) (u : Unit) (e : SEv) (why : String)
    (hc : (checkC11Counts b u e).2 = none) (h : (checkC11 b u e).2 = some why) :
    (checkC11Rest b u e).2 = some why := by
  rw [C11S_check_split, hc] at h
  exact h

/-- Non-vacuity: the monitor runs over a trace with several polls (a request tracked, answered, end of stream,
one more poll of the ended stream) and its `counts` clauses are exercised with a non-zero count and at the end of
the stream. -/
example :
    let evs := trace (initSys none 1 4 true)
      [.injectReq 1 5000000 ⟨7, .given 1, true⟩ 0, .pollServer, .finish 0 (.ok 3), .pollExec 0, .eof, .pollServer,
       .pollServer]
    (monC11Counts none evs).ok = true ∧ (monC11Counts none evs).book.streamDone = true ∧
    evs.filter (fun e => match e with | .obs (.counts _ _ _) => true | _ => false)
      = [.obs (.counts (.server 0) 1 1), .obs (.counts (.server 0) 0 0)] := by
  decide

/-- The clause is not vacuous: a `counts` observation with a non-zero count after the end of the stream is rejected. -/
example :
    (monC11Counts none [.op .pollServer, .obs (.ret (.server 0) .readyNone), .obs (.counts (.server 0) 1 1)]).ok = false ∧
    (monC11Counts none [.op .pollServer, .obs (.ret (.server 0) .pending), .obs (.counts (.server 0) 1 2)]).ok = false := by
  decide

end TarpcModel.Server

import TarpcModel.Props.C15Codec
/-!
# C15 — witness: error kinds written as an untyped (`i32`) literal do not round-trip under bincode

`serialize_io_error_kind_as_u32` hands serde an integer literal without a type annotation, so it is an
`i32`; bincode's `VarintEncoding` zigzag-encodes signed integers (`k ↦ 2k` for `k ≥ 0`), while
`deserialize_io_error_kind_from_u32` reads a plain `u32`.  Kind number `k` therefore arrives as number
`2k`.  These theorems are about the explicit `"i32"` variant of the writer (`encodeKindWith "i32"`) and
so stay true after the source is repaired.
-/
namespace TarpcModel.Bincode
open TarpcModel.Gen

/-- The defect: `PermissionDenied` (1) is written as zigzag `2` and read as `ConnectionRefused`. -/
theorem C15_errorkind_witness :
    decodeKind (encodeKindWith "i32" "PermissionDenied") = some "ConnectionRefused" := by
  decide

/-- Extent of the defect: among the portable kinds only `NotFound` (0) and `Other` (16 ↦ 32 ↦ default)
survive; every kind numbered 8 or more arrives as `Other`. -/
theorem C15_errorkind_witness_extent :
    (portableKinds.filter fun k => decodeKind (encodeKindWith "i32" k) == some k) = ["NotFound", "Other"] ∧
    decodeKind (encodeKindWith "i32" "TimedOut") = some "Other" ∧
    decodeKind (encodeKindWith "i32" "UnexpectedEof") = some "Other" := by
  decide

/-- The bytes: `1` as an `i32` is the single byte `02`; as a `u32` it would be `01`. -/
example : encodeKindWith "i32" "PermissionDenied" = [2] ∧ encodeKindWith "u32" "PermissionDenied" = [1] := by
  decide

/-- Writing a `u32` is a sufficient repair: all portable kinds then round-trip. -/
example : ∀ k ∈ portableKinds, decodeKind (encodeKindWith "u32" k) = some k := by decide

end TarpcModel.Bincode

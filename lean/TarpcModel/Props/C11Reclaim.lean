import TarpcModel.Props.C03Full
import TarpcModel.Props.C11Client
/-!
# C11 (client), third clause — tracked request state is fully reclaimed

Once every call has resolved or been dropped, a dispatch poll during which the transport was writable leaves nothing
in the in-flight table and no armed deadline timer — without waiting for any deadline.  (The guard of a dropped call
queues a cancellation; `pump_write` takes one cancellation per iteration off the queue, removes the entry and its
timer, and writes the `Cancel`; `run` returns `Pending` only once that queue is empty or the sink is not ready.)

* `C11_reclaimed_state` — the state form, for every reachable state and one top-level `poll-dispatch`;
* `C11_monitor_full_accepts` — `monC11` with all three clauses accepts every trace of the model, for scripts with
  pairwise distinct call bodies and caller-chosen span ids.  These two hypotheses are those of the coupling between the
  monitors' book and the model (`Lemmas/ClientTop.lean`), which the proof re-uses to read "every call is resolved or
  dropped" off the book; `C11_monitor_full_Statement` (`Props/C11Client.lean`) does not have them and is *not* derived
  here (see the remark at the end).  The hypothesis `1 ≤ m` of that statement is not needed.
-/
namespace TarpcModel.Client

/-! ### state form -/

/-- **C11 (4), reclaim.**  Take any reachable state in which the dispatch is alive and run one top-level
`poll-dispatch`.  If the poll returned `Pending`, ended without terminal error and without a panic, no
`poll_ready → Pending` was observed during it, and afterwards no call future is still waiting for a response, then the
in-flight table is empty and no deadline timer is armed. -/
theorem C11_reclaimed_state (m b c : Nat) (coupled : Bool) (ops : List COp)
    (c0 : Sys) (hc0 : c0 = ops.foldl applyOp (initSys m b c coupled))
    (halive : (c0.s.dDropped || c0.s.done.isSome || c0.s.poisoned) = false)
    (hpending : (stepOp c0 .pollDispatch).1.s.done = none)
    (hnoerr : (stepOp c0 .pollDispatch).1.s.termErr = none)
    (hnopanic : (stepOp c0 .pollDispatch).1.s.poisoned = false)
    (hwritable : ∀ ep, Obs.tReady ep .pending ∉ (stepOp c0 .pollDispatch).2)
    (hdead : ∀ cl ∈ (stepOp c0 .pollDispatch).1.s.calls, cl.phase ≠ .awaiting) :
    (stepOp c0 .pollDispatch).1.s.inflight = [] ∧ (stepOp c0 .pollDispatch).1.s.timers.len = 0 := by
  have h1 := C03_cancel_owed_state m b c coupled ops c0 hc0 halive hpending hnoerr hnopanic hwritable
  have hinf : (stepOp c0 .pollDispatch).1.s.inflight = [] := by
    cases hi : (stepOp c0 .pollDispatch).1.s.inflight with
    | nil => rfl
    | cons e rest =>
      exfalso
      obtain ⟨cl, hcl, _, hph, _⟩ := h1.2 e (by rw [hi]; exact List.mem_cons_self)
      exact hdead cl hcl hph
  refine ⟨hinf, ?_⟩
  subst hc0
  have hst := inv_stepOp (inv_reach m b c coupled ops) .pollDispatch
  rw [hst.t.len_eq hst.i.inNodup, hinf]; rfl

/-! ### monitor form -/

theorem checkC11_split (m : Nat) (b : Book) (e : CEv) :
    (checkC11 m b () e).2 = none ↔ (checkC11Bounded m b () e).2 = none ∧ (checkC11c b () e).2 = none := by
  cases e with
  | op o => exact ⟨fun _ => ⟨rfl, rfl⟩, fun _ => rfl⟩
  | obs o =>
    cases o with
    | counts ep i t =>
      cases ep with
      | dispatch k =>
        simp only [checkC11, checkC11Bounded, checkC11c]
        by_cases h1 : i > m
        · simp [h1]
        · by_cases h2 : (i != t) = true
          · simp [h1, h2]
          · simp only [h1, h2, ↓reduceIte, Bool.false_eq_true, true_and]
      | _ => exact ⟨fun _ => ⟨rfl, rfl⟩, fun _ => rfl⟩
    | _ => exact ⟨fun _ => ⟨rfl, rfl⟩, fun _ => rfl⟩

/-- **C11, all three clauses (monitor form).**  For every configuration and every op sequence (calls with pairwise
distinct bodies and caller-chosen span ids) `monC11` accepts the model's trace: the table never exceeds
`max_in_flight_requests`, it always has as many entries as armed timers, and (third clause) at the end of every
top-level dispatch poll that returns `Pending`, during which no `poll_ready → Pending` was observed and before which the
transport never reported a failure, nothing is tracked once every call is resolved or dropped. -/
theorem C11_monitor_full_accepts (m bufCap tcap : Nat) (coupled : Bool) (ops : List COp)
    (hb : (callBodies ops).Nodup) (hsp : ∀ op ∈ ops, SpanOk op) :
    (monC11 m (trace (initSys m bufCap tcap coupled) ops)).ok = true := by
  have h1 : (Mon.run (checkC11Bounded m) () (trace (initSys m bufCap tcap coupled) ops)).bad = none := by
    have := C11_monitor_bounded_accepts m bufCap tcap coupled ops
    simpa [Mon.ok, monC11Bounded] using this
  have h2 := monC11c_accepts m bufCap tcap coupled ops hb hsp
  unfold Mon.run at h1 h2
  obtain ⟨_, p1⟩ := (unit_mon_accepts_iff (checkC11Bounded m) _ _).mp h1
  obtain ⟨_, p2⟩ := (unit_mon_accepts_iff checkC11c _ _).mp h2
  have h3 : ((trace (initSys m bufCap tcap coupled) ops).foldl (Mon.step (checkC11 m)) { st := () }).bad = none := by
    refine (unit_mon_accepts_iff (checkC11 m) _ _).mpr ⟨rfl, ?_⟩
    intro pre e post he hs
    exact (checkC11_split m _ e).mpr ⟨p1 pre e post he hs, p2 pre e post he hs⟩
  simp [monC11, Mon.run, Mon.ok, h3]

/-! ### non-vacuity -/

/-- An abandoned call is reclaimed by the next writable poll: the table and the timers are empty although the deadline
(1 s) is far away; `monC11` accepts, and its third clause is exercised (all calls dropped at the last `counts`). -/
example :
    let ops := [COp.call 0 1000000000 ⟨7, .given 1, true⟩ 5, .pollCall 0, .pollDispatch, .dropCall 0 .none, .pollDispatch]
    (ops.foldl applyOp (initSys 4 4 4 true)).s.inflight = [] ∧
    (ops.foldl applyOp (initSys 4 4 4 true)).s.timers.len = 0 ∧
    (ops.foldl applyOp (initSys 4 4 4 true)).now = 0 ∧
    (monC11 4 (trace (initSys 4 4 4 true) ops)).ok = true ∧
    CEv.obs (.counts (.dispatch 0) 0 0) ∈ trace (initSys 4 4 4 true) ops := by
  decide

/-! ### remark

`C11_monitor_full_Statement` quantifies over *all* scripts, also those in which two calls carry the same body or a
call supplies a `fresh` span id.  The third clause does not depend on either, but the proof here reads "the book says
every call is resolved or dropped" through the book/model coupling of `Lemmas/ClientTop.lean` (`Cpl`), which is only
maintained for scripts with distinct bodies and caller-chosen spans (it also serves C01 / C18).  A coupling restricted
to the calls' `resolved` / `dropped` flags would remove the two hypotheses; the state form `C11_reclaimed_state` has no
such restriction. -/

end TarpcModel.Client

import TarpcModel.Wire.Bincode
import TarpcModel.Wire.Frame
/-!
# C16 (decoders) — no byte string presented to a decoder can crash the endpoint

The framed decoder and the bincode reader of the model are total functions: malformed or truncated
input is an `error`/`truncated`/`failed` outcome.  The one place where the real reader could panic —
`now + d` while the deadline field is read — is modelled explicitly (`readClientMessage`), and whether
the source saturates there is read off `tarpc/src/context.rs` by the translator
(`Gen.deadlineSaturates`).  These theorems therefore stop building if the saturation is removed.
That third-party decoders (`serde_json`, `bincode`, `LengthDelimitedCodec`) never panic on arbitrary
bytes is not provable here; it is tested by the `c16dec` family under `catch_unwind`.
-/
namespace TarpcModel.Bincode

/-- The source as translated saturates the decoded deadline. -/
theorem C16_deadline_decode_saturates : Gen.deadlineSaturates = true := by decide

theorem outcome_ite_ne_panic {α : Type} (c : Prop) [Decidable c] (a b : Outcome α)
    (ha : a ≠ .panic) (hb : b ≠ .panic) : (if c then a else b) ≠ .panic := by
  split <;> assumption

/-- **No panic for any byte string**: whatever bytes a peer sends as a `ClientMessage`, the reader's
outcome is a message or an error, never a panic. -/
theorem C16_reader_never_panics {T : Type} (decT : Parser T) (bs : Bytes) :
    readClientMessage decT bs ≠ .panic := by
  have h := C16_deadline_decode_saturates
  simp only [readClientMessage, h, ↓reduceIte]
  cases hd : decodeClientMessage decT bs with
  | none => exact outcome_ite_ne_panic _ _ _ (by simp) (by simp)
  | some m => cases m <;> exact outcome_ite_ne_panic _ _ _ (by simp) (by simp)

/-- The defect as first found, as a theorem about the pre-fix reading (`now + d` unchecked): a
well-formed request whose `secs` is `2^63` overflows the `Instant`. -/
theorem C16_deadline_overflow_witness : instantAddPanics { secs := 2 ^ 63, nanos := 0 } = true := by decide

end TarpcModel.Bincode

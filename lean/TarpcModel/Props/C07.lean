import TarpcModel.Lemmas.C07
/-!
# C07 — Deadlines propagate across hops without stretching

Property theorems only.  The model is `TarpcModel.Ctx` (`Context.lean`): time is `Nat` nanoseconds,
`ser d now = d - now` (saturating, `Instant::duration_since`), `de x now' = now' + x`,
`hop d tSend tRecv = de (ser d tSend) tRecv`, `chain` folds `hop` over the (send, receive) times of
the hops.  All theorems hold for every `Nat` value (every remaining duration from zero upward, every
transit delay) and chains of every length (so in particular one to three hops).  The monitor
`TarpcModel.Ctx.mon` (`Monitors/C07.lean`) is the decidable predicate the check evaluates on the
implementation's observation stream.
-/
namespace TarpcModel.Ctx

/-- **C07, one hop.**  A request written at `tSend` and read at `tRecv ≥ tSend` gives the handler
the deadline `max d tSend + (tRecv - tSend)`.  Hence it is never earlier than the caller's deadline,
never in the receiver's past, at most `d + transit` (in fact exactly that) when the deadline had not
passed when the request was written, and exactly "now" (`tRecv`) when it had: an expired deadline is
delivered, it is not an error. -/
theorem C07_one_hop (d tSend tRecv : Nat) (h : tSend ≤ tRecv) :
    hop d tSend tRecv = max d tSend + (tRecv - tSend) ∧
    d ≤ hop d tSend tRecv ∧
    tRecv ≤ hop d tSend tRecv ∧
    (tSend ≤ d → hop d tSend tRecv = d + (tRecv - tSend)) ∧
    (tSend ≤ d → hop d tSend tRecv ≤ d + (tRecv - tSend)) ∧
    (d ≤ tSend → hop d tSend tRecv = tRecv) := by
  have := hop_eq d tSend tRecv h
  omega

/-- **C07, chains of any length** (exact form).  For causally ordered hops (each received no earlier
than sent, each nested request sent no earlier than the enclosing one was received) the last
handler's deadline is `max (d + accumulated transit) (last receive time)`.  Hence it is never earlier
than the original, never in the last receiver's past, and if it had not already expired on arrival it
exceeds the original by exactly the accumulated transit time. -/
theorem C07_chain (d : Nat) (hops : List (Nat × Nat)) (h : Ordered 0 hops) :
    chain d hops = max (d + totalTransit hops) (lastRecv 0 hops) ∧
    d ≤ chain d hops ∧
    lastRecv 0 hops ≤ chain d hops ∧
    (chain d hops ≤ d + totalTransit hops ∨ chain d hops = lastRecv 0 hops) ∧
    (lastRecv 0 hops ≤ d + totalTransit hops → chain d hops = d + totalTransit hops) := by
  have := chain_closed d 0 hops h
  omega

/-- **C07, chains whose handlers are alive when they call on** (the server aborts a handler at its
deadline, so a nested request is written while the handler's deadline has not passed): the last
handler's deadline is `max d (first send) + accumulated transit`; the `max` accounts for a caller
whose deadline had already passed when it sent the first request. -/
theorem C07_chain_live (d s₀ r₀ : Nat) (rest : List (Nat × Nat))
    (h : Ordered 0 ((s₀, r₀) :: rest)) (hl : Live (hop d s₀ r₀) rest) :
    chain d ((s₀, r₀) :: rest) = max d s₀ + totalTransit ((s₀, r₀) :: rest) ∧
    d ≤ chain d ((s₀, r₀) :: rest) ∧
    chain d ((s₀, r₀) :: rest) ≤ max d s₀ + totalTransit ((s₀, r₀) :: rest) := by
  obtain ⟨_, hsr, ht⟩ := h
  have h1 := chain_live (hop d s₀ r₀) r₀ rest ht hl
  have h2 := hop_eq d s₀ r₀ hsr
  simp only [chain, totalTransit]
  omega

/-- **C07: a nested call never outlives the original deadline by more than accumulated transit.**
A nested call issued with the handler's context carries the deadline `chain d hops` (the client uses
and sends `ctx.deadline` unchanged).  At every instant `t` from the moment the handler received its
request, the time left to the nested call is exactly the time left until `d + accumulated transit`;
so any instant at which the nested call has not yet timed out lies before `d + accumulated transit`. -/
theorem C07_nested_call_bound (d : Nat) (hops : List (Nat × Nat)) (h : Ordered 0 hops)
    (t : Nat) (ht : lastRecv 0 hops ≤ t) :
    remaining (chain d hops) t = remaining (d + totalTransit hops) t ∧
    (t < chain d hops → t < d + totalTransit hops) ∧
    (lastRecv 0 hops < chain d hops → chain d hops ≤ d + totalTransit hops) := by
  have := chain_closed d 0 hops h
  unfold remaining
  omega

/-- The next hop of such a nested call (sent at `s ≥` last receive, received at `r ≥ s`): the chain
bound extends by exactly that hop's transit. -/
theorem C07_nested_call_next_hop (d : Nat) (hops : List (Nat × Nat)) (h : Ordered 0 hops)
    (s r : Nat) (hs : lastRecv 0 hops ≤ s) (hsr : s ≤ r) :
    hop (chain d hops) s r = max (d + totalTransit hops + (r - s)) r := by
  have h1 := chain_closed d 0 hops h
  have h2 := hop_eq_max (chain d hops) s r hsr
  omega

/-- **C07: no clock skew enters.**  Let the receiving host's clock read `skew` more (or less) than
the sender's.  The remaining duration the receiver computes on its own clock equals the remaining
duration the sender computed on its clock, and the decoded deadline, translated back to the sender's
clock, is the skew-free `hop`. -/
theorem C07_skew_free (d tSend tRecv : Nat) (skew : Int) (hpos : 0 ≤ (tRecv : Int) + skew)
    (nowR : Nat) (hnow : nowR = ((tRecv : Int) + skew).toNat) :
    remaining (de (ser d tSend) nowR) nowR = remaining d tSend ∧
    ((de (ser d tSend) nowR : Nat) : Int) - skew = (hop d tSend tRecv : Nat) := by
  unfold remaining hop de ser
  omega

/-- The remaining duration after decoding does not depend on the receiver's clock reading at all. -/
theorem C07_skew_free_any_clock (d tSend nowR : Nat) :
    remaining (de (ser d tSend) nowR) nowR = remaining d tSend := by
  unfold remaining de ser
  omega

/-- **C07: default deadline.**  A request without a `deadline` field decoded at `tRecv` gets
`tRecv + defaultDeadlineSecs · 10⁹` ns, and the constant read from the source is the documented 10
seconds. -/
theorem C07_default (tRecv : Nat) :
    defaultDeadline tRecv = tRecv + Gen.defaultDeadlineSecs * 10 ^ 9 ∧
    remaining (defaultDeadline tRecv) tRecv = 10 * 10 ^ 9 ∧
    Gen.defaultDeadlineSecs = 10 := by
  refine ⟨?_, ?_, rfl⟩
  · simp [defaultDeadline, nsPerSec_eq]
  · have : Gen.defaultDeadlineSecs * nsPerSec = 10 * 10 ^ 9 := by decide
    unfold remaining defaultDeadline
    omega

/-- **C07: the in-memory transport** moves the instant unchanged, over any number of hops. -/
theorem C07_mem_identity (d : Nat) (hops : List (Nat × Nat)) (s r : Nat) :
    hopVia .mem d s r = d ∧ chainVia .mem d hops = d ∧
    ∀ x ∈ chainSeen .mem d hops, x = d := by
  refine ⟨rfl, rfl, ?_⟩
  induction hops with
  | nil => simp [chainSeen]
  | cons hd t ih =>
    obtain ⟨s', r'⟩ := hd
    intro x hx
    simp only [chainSeen, hopVia, Codec.serialises, Bool.false_eq_true, ↓reduceIte, List.mem_cons] at hx
    rcases hx with rfl | hx
    · rfl
    · exact ih x hx

/-- Both shipped codecs behave as `hop`/`chain`; every handler on the way sees a deadline no earlier
than the original. -/
theorem C07_every_handler_ge (c : Codec) (d p : Nat) (hops : List (Nat × Nat)) (h : Ordered p hops) :
    ∀ x ∈ chainSeen c d hops, d ≤ x := by
  induction hops generalizing d p with
  | nil => simp [chainSeen]
  | cons hd t ih =>
    obtain ⟨s, r⟩ := hd
    obtain ⟨_, hsr, ht⟩ := h
    intro x hx
    have h1 : d ≤ hopVia c d s r := by
      have := hop_eq d s r hsr
      cases c <;> simp [hopVia, Codec.serialises] <;> omega
    simp only [chainSeen, List.mem_cons] at hx
    rcases hx with rfl | hx
    · exact h1
    · exact Nat.le_trans h1 (ih _ r ht x hx)

/-- **C07 (monitor form).**  For every sequence of operations the monitor accepts the model's
observations. -/
theorem C07_monitor_accepts (ops : List Op) : (mon (run ops)).ok = true :=
  foldl_monStep_ok _ _ rfl (run_check ops)

/-- **C07: what an accepted hop observation means** (for the implementation's trace): the observed
handler deadline is the model's prediction, is never earlier than the caller's deadline nor in the
receiver's past, exceeds the caller's deadline by at most the transit time if that had not passed,
and is "now" if it had. -/
theorem C07_monitor_sound (seen : Nat) (c : Codec) (d s r : Nat) (h : checkHop seen c d s r = true) :
    s ≤ r ∧ seen = hopVia c d s r ∧ d ≤ seen ∧
    (c.serialises = true → r ≤ seen ∧ (s ≤ d → seen ≤ d + (r - s)) ∧ (d ≤ s → seen = r)) := by
  have hh := hop_eq d s r
  cases c <;> simp [checkHop, hopVia, Codec.serialises] at h ⊢ <;> omega

/-- Accepted chain observation: ordered hops, final deadline as in `C07_chain`. -/
theorem C07_monitor_sound_chain (final : Nat) (c : Codec) (d : Nat) (hops : List (Nat × Nat))
    (h : checkChain final c d hops = true) :
    Ordered 0 hops ∧ final = chainVia c d hops ∧ d ≤ final ∧
    (c.serialises = true → final ≤ d + totalTransit hops ∨ final = lastRecv 0 hops) := by
  simp only [checkChain, Bool.and_eq_true, decide_eq_true_eq, orderedB_iff] at h
  obtain ⟨⟨⟨ho, hf⟩, hd⟩, hc⟩ := h
  refine ⟨ho, hf, hd, ?_⟩
  intro hs
  simp only [hs, ↓reduceIte, decide_eq_true_eq] at hc
  omega

/-- A single rejected observation makes the verdict `FAIL` whatever follows. -/
theorem C07_monitor_rejects (pre post : List Obs) (o : Obs) (h : check o = false) :
    (mon (pre ++ o :: post)).ok = false := by
  unfold mon
  rw [List.foldl_append, List.foldl_cons]
  apply foldl_monStep_bad
  simp [monStep, h]

/-! ### Non-vacuity -/

/-- A hop with transit 3 and a live deadline: shifted by exactly the transit. -/
example : hop 100 10 13 = 103 := by decide

/-- An already-passed deadline (5 < 10) arrives as "now" (13). -/
example : hop 5 10 13 = 13 := by decide

/-- Zero remaining and zero transit. -/
example : hop 10 10 10 = 10 := by decide

/-- The hypotheses of `C07_chain` / `C07_chain_live` are satisfiable: three ordered, live hops. -/
example : Ordered 0 [(10, 13), (20, 21), (30, 36)] ∧ Live (hop 100 10 13) [(20, 21), (30, 36)] ∧
    chain 100 [(10, 13), (20, 21), (30, 36)] = 110 ∧ totalTransit [(10, 13), (20, 21), (30, 36)] = 10 := by
  decide

/-- A chain in which a handler calls on after its deadline passed: the next handler sees "now", which
exceeds `d + transit` — the reason `C07_chain` is stated with `max … (last receive)`. -/
example : Ordered 0 [(0, 0), (100, 100)] ∧ chain 10 [(0, 0), (100, 100)] = 100 ∧
    totalTransit [(0, 0), (100, 100)] = 0 ∧ ¬ Live (hop 10 0 0) [(100, 100)] := by
  decide

/-- Skew: receiver clock 1000 ahead; remaining 90 either way. -/
example : remaining (de (ser 100 10) 1013) 1013 = 90 ∧ remaining 100 10 = 90 := by decide

/-- The model's trace for one of each operation, and the monitor's verdict on it. -/
example :
    run [.hop .json 100 10 13, .hop .mem 5 10 13, .dflt 7, .chain .bincode 100 [(10, 13), (20, 21)]] =
      [.deadline 103 .json 100 10 13, .deadline 5 .mem 5 10 13, .dflt 10000000007 7,
       .deadline 103 .bincode 100 10 13, .deadline 104 .bincode 103 20 21,
       .chain 104 .bincode 100 [(10, 13), (20, 21)]] := by
  decide

/-- The monitor rejects a stretched deadline, an early one, an error-like "zero", a wrong default. -/
example : check (.deadline 104 .json 100 10 13) = false ∧ check (.deadline 102 .json 100 10 13) = false ∧
    check (.deadline 0 .json 5 10 13) = false ∧ check (.dflt 17 7) = false ∧
    check (.chain 105 .bincode 100 [(10, 13), (20, 21)]) = false ∧
    check (.deadline 6 .mem 5 10 13) = false := by
  decide

end TarpcModel.Ctx

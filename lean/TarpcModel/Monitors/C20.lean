import TarpcModel.Stubs
/-
C20 monitors: decidable predicates over the observation streams of the stub families (model or
implementation).

`monLb kind n` (families `c20rr`, `c20hash`) checks at every `picked id b req` (mock backend `b` recorded
request `req` for call `id`):
  * `b < n`                                            — only valid backends are picked,
  * call `id` was created with exactly `req` and has not been dispatched or dropped before
                                                        — the request reaches the backend unchanged, once,
  * round robin: after this pick the per-backend counts differ by at most one,
  * consistent hash: every earlier pick of an equal request went to the same backend — whatever any backend
    answered in between (`resultSet b k` switches mock backend `b` to result code `k`);
at every `answered id k` that the caller got exactly the answer the picked backend gives (`k` is the code
the last `resultSet` for that backend announced, 0 = `Ok` if none);
and a `panicked` first poll is accepted only for `n = 0` (outside the property).

`monRt` (family `c20retry`, run by the C20 and the C07 check) checks each `start q ctx … ret r` episode: the
backend is always given `q`; its calls are numbered 1, 2, 3, … and every one carries the caller's trace
context (C20) and the caller's deadline — the very same instant, however much time the earlier attempts took
(C07: a retried nested call never outlives the caller's deadline); the policy is consulted after every backend
answer (`Ok`, `Shutdown`, `DeadlineExceeded`, `Server`, `Send`) with attempt numbers 1, 2, 3, …; after a
`retry = true` answer the backend is called again, after the first `retry = false` answer the call returns
exactly the result the policy has just seen; the stream ends between episodes.  Failures are tagged with the
property they belong to (`[C20] …`, `[C07] …`).
-/
namespace TarpcModel.Stubs

/-! ## Load balancing -/

structure LbMon where
  created : List (Nat × Nat) := []    -- (call id, request) of futures not yet polled
  picks   : List (Nat × Nat) := []    -- (request, backend), most recent first
  results : List (Nat × Nat) := []    -- (backend, result code it currently answers with)
  last    : Option (Nat × Nat) := none  -- (call id, backend) of a pick whose answer has not been seen yet
  ok      : Bool := true
  why     : String := ""
deriving Repr

/-- Per-backend counts differ by at most one. -/
def spreadOk (n : Nat) (bs : List Nat) : Bool :=
  let cs := (List.range n).map (fun j => bs.count j)
  cs.all (fun a => cs.all (fun b => decide (a ≤ b + 1)))

/-- Every earlier pick of the same request went to backend `b`. -/
def stableOk (req b : Nat) (picks : List (Nat × Nat)) : Bool :=
  picks.all (fun p => p.1 != req || p.2 == b)

def kindOk (kind : Kind) (n req b : Nat) (picks : List (Nat × Nat)) : Bool :=
  match kind with
  | .rr => spreadOk n (b :: picks.map (·.2))
  | .hash => stableOk req b picks

def LbMon.flag (m : LbMon) (good : Bool) (msg : String) : LbMon :=
  { m with ok := m.ok && good, why := if m.ok && !good then msg else m.why }

def monLbStep (kind : Kind) (n : Nat) (m : LbMon) : LbObs → LbMon
  | .created id req => { m with created := m.created ++ [(id, req)] }
  | .dropped id => { m with created := erase id m.created }
  | .picked id b req =>
      let valid := decide (b < n)
      let known := lookup id m.created == some req
      let kok := kindOk kind n req b m.picks
      let m' := { m with created := erase id m.created, picks := (req, b) :: m.picks, last := some (id, b) }
      m'.flag (valid && known && kok)
        (if !valid then s!"call {id}: backend {b} is not below n={n}"
         else if !known then s!"call {id}: backend {b} got request {req}, which is not what the call was created with"
         else match kind with
           | .rr => s!"call {id} -> backend {b}: per-backend counts now differ by more than one"
           | .hash => s!"call {id}: request {req} -> backend {b}, but an equal request went elsewhere before")
  | .panicked id =>
      let m' := { m with created := erase id m.created }
      m'.flag (n == 0) s!"call {id}: first poll panicked although n={n} > 0"
  | .resultSet b k =>
      let m' := { m with results := (b, k) :: erase b m.results }
      m'.flag (decide (b < n)) s!"result set for backend {b}, which is not below n={n}"
  | .answered id k =>
      let m' := { m with last := none }
      match m.last with
      | some (id', b) =>
          m'.flag (id' == id && k == resultOf b m.results)
            s!"call {id}: the caller got result code {k}, backend {b} (picked for call {id'}) answers {resultOf b m.results}"
      | none => m'.flag false s!"call {id}: an answer without a dispatch"
  | .noop => m

def monLb (kind : Kind) (n : Nat) (obs : List LbObs) : LbMon := obs.foldl (monLbStep kind n) {}

/-! ## Retry -/

inductive RtPhase where
  | idle
  | wantBackend (req i : Nat) (ctx : RtCtx)   -- next: the backend is called with `req` (attempt `i`)
  | wantAttempt (req i : Nat) (ctx : RtCtx)   -- next: the context of that call
  | wantPolicy (req i : Nat) (ctx : RtCtx)    -- next: the policy is asked about attempt `i` (or the backend never answers)
  | wantRet (r : Res)                         -- next: the call returns `r`
  | dead                                      -- the episode structure was violated: nothing more is checked
deriving Repr, DecidableEq

structure RtMon where
  phase : RtPhase := .idle
  ok    : Bool := true
  why20 : String := ""      -- first C20 failure
  why07 : String := ""      -- first C07 failure
deriving Repr

/-- A C20 failure that leaves the episode structure intact. -/
def RtMon.fail20 (m : RtMon) (msg : String) : RtMon :=
  { m with ok := false, why20 := if m.why20 = "" then msg else m.why20 }

/-- A C20 failure after which the observation stream can no longer be followed. -/
def RtMon.fail (m : RtMon) (msg : String) : RtMon :=
  { m.fail20 msg with phase := .dead }

def RtMon.fail07 (m : RtMon) (msg : String) : RtMon :=
  { m with ok := false, why07 := if m.why07 = "" then msg else m.why07 }

def showRes : Res → String
  | .ok v => s!"ok {v}"
  | .err k => s!"err {k}"
  | .send k => s!"send {k}"

def showTrace (c : RtCtx) : String := s!"{c.traceId}:{c.spanId}:{if c.sampled then "S" else "U"}"

/-- The context checks at backend call `i` (issued at `now`): same trace context (C20), same deadline (C07). -/
def RtMon.checkCtx (m : RtMon) (i now : Nat) (caller got : RtCtx) : RtMon :=
  let m := if got.traceId = caller.traceId ∧ got.spanId = caller.spanId ∧ got.sampled = caller.sampled then m
    else m.fail20 s!"attempt {i}: backend was given trace context {showTrace got}, the caller's is {showTrace caller}"
  if got.deadline = caller.deadline then m
  else m.fail07 (s!"attempt {i} of a retried call (issued at {now} ns) carries deadline {got.deadline} ns, the caller's " ++
    s!"deadline is {caller.deadline} ns" ++
    (if caller.deadline < got.deadline then s!": the retry may outlive the caller by {got.deadline - caller.deadline} ns" else ""))

def monRtStep (m : RtMon) (o : RtObs) : RtMon :=
  match m.phase, o with
  | .dead, _ => m
  | .idle, .start q _ ctx => { m with phase := .wantBackend q 1 ctx }
  | .wantBackend q i ctx, .backend q' =>
      if q' = q then { m with phase := .wantAttempt q i ctx }
      else m.fail s!"attempt {i}: backend was given request {q'}, the caller's request is {q}"
  | .wantAttempt q i ctx, .attempt i' now ctx' =>
      if i' = i then ({ m with phase := .wantPolicy q i ctx }).checkCtx i now ctx ctx'
      else m.fail s!"backend call number {i'} where attempt {i} was due"
  | .wantPolicy q i ctx, .policy i' r d =>
      if i' = i then { m with phase := if d then .wantBackend q (i + 1) ctx else .wantRet r }
      else m.fail s!"policy was passed attempt number {i'}, expected {i}"
  | .wantPolicy _ _ _, .stuck => { m with phase := .idle }
  | .wantRet r, .ret r' =>
      if r' = r then { m with phase := .idle }
      else m.fail s!"returned {showRes r'} but the last backend result (declined by the policy) was {showRes r}"
  | .idle, _ => m.fail "event outside a call"
  | .wantBackend _ i _, _ => m.fail s!"expected backend call for attempt {i}"
  | .wantAttempt _ i _, _ => m.fail s!"expected the context of backend call {i}"
  | .wantPolicy _ i _, _ => m.fail s!"expected the policy to be consulted about attempt {i}"
  | .wantRet r, _ => m.fail s!"policy declined; expected the call to return {showRes r}"

def monRt (obs : List RtObs) : RtMon := obs.foldl monRtStep {}

/-- Final verdict: no step failed and no call is left half-way. -/
def RtMon.accepts (m : RtMon) : Bool := m.ok && decide (m.phase = .idle)

/-- The verdict text: one part per property concerned, `[C20] … ;; [C07] …`. -/
def RtMon.verdict (m : RtMon) : Option String :=
  if m.accepts then none
  else
    let p20 := if m.why20 ≠ "" then ["[C20] " ++ m.why20]
               else if m.ok then ["[C20] trace ends in the middle of a call"] else []
    let p07 := if m.why07 ≠ "" then ["[C07] " ++ m.why07] else []
    some (" ;; ".intercalate (p20 ++ p07))

end TarpcModel.Stubs

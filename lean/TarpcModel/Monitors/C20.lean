import TarpcModel.Stubs
/-
C20 monitors: decidable predicates over the observation streams of the stub families (model or
implementation).

`monLb kind n` (families `c20rr`, `c20hash`) checks at every `picked id b req` (mock backend `b` recorded
request `req` for call `id`):
  * `b < n`                                            — only valid backends are picked,
  * call `id` was created with exactly `req` and has not been dispatched or dropped before
                                                        — the request reaches the backend unchanged, once,
  * round robin: after this pick the per-backend counts differ by at most one,
  * consistent hash: every earlier pick of an equal request went to the same backend;
and a `panicked` first poll is accepted only for `n = 0` (outside the property).

`monRt` (family `c20retry`) checks each `start q … ret r` episode: the backend is always given `q`; the
policy is consulted after every backend answer with attempt numbers 1, 2, 3, …; after a `retry = true`
answer the backend is called again, after the first `retry = false` answer the call returns exactly the
result the policy has just seen; the stream ends between episodes.
-/
namespace TarpcModel.Stubs

/-! ## Load balancing -/

structure LbMon where
  created : List (Nat × Nat) := []    -- (call id, request) of futures not yet polled
  picks   : List (Nat × Nat) := []    -- (request, backend), most recent first
  ok      : Bool := true
  why     : String := ""
deriving Repr

/-- Per-backend counts differ by at most one. -/
def spreadOk (n : Nat) (bs : List Nat) : Bool :=
  let cs := (List.range n).map (fun j => bs.count j)
  cs.all (fun a => cs.all (fun b => decide (a ≤ b + 1)))

/-- Every earlier pick of the same request went to backend `b`. -/
def stableOk (req b : Nat) (picks : List (Nat × Nat)) : Bool :=
  picks.all (fun p => p.1 != req || p.2 == b)

def kindOk (kind : Kind) (n req b : Nat) (picks : List (Nat × Nat)) : Bool :=
  match kind with
  | .rr => spreadOk n (b :: picks.map (·.2))
  | .hash => stableOk req b picks

def LbMon.flag (m : LbMon) (good : Bool) (msg : String) : LbMon :=
  { m with ok := m.ok && good, why := if m.ok && !good then msg else m.why }

def monLbStep (kind : Kind) (n : Nat) (m : LbMon) : LbObs → LbMon
  | .created id req => { m with created := m.created ++ [(id, req)] }
  | .dropped id => { m with created := erase id m.created }
  | .picked id b req =>
      let valid := decide (b < n)
      let known := lookup id m.created == some req
      let kok := kindOk kind n req b m.picks
      let m' := { m with created := erase id m.created, picks := (req, b) :: m.picks }
      m'.flag (valid && known && kok)
        (if !valid then s!"call {id}: backend {b} is not below n={n}"
         else if !known then s!"call {id}: backend {b} got request {req}, which is not what the call was created with"
         else match kind with
           | .rr => s!"call {id} -> backend {b}: per-backend counts now differ by more than one"
           | .hash => s!"call {id}: request {req} -> backend {b}, but an equal request went elsewhere before")
  | .panicked id =>
      let m' := { m with created := erase id m.created }
      m'.flag (n == 0) s!"call {id}: first poll panicked although n={n} > 0"
  | .noop => m

def monLb (kind : Kind) (n : Nat) (obs : List LbObs) : LbMon := obs.foldl (monLbStep kind n) {}

/-! ## Retry -/

inductive RtPhase where
  | idle
  | wantBackend (req i : Nat)     -- next: the backend is called with `req` (attempt `i`)
  | wantPolicy (req i : Nat)      -- next: the policy is asked about attempt `i` (or the backend never answers)
  | wantRet (r : Res)             -- next: the call returns `r`
deriving Repr, DecidableEq

structure RtMon where
  phase : RtPhase := .idle
  ok    : Bool := true
  why   : String := ""
deriving Repr

def RtMon.fail (m : RtMon) (msg : String) : RtMon :=
  { m with ok := false, why := if m.ok then msg else m.why }

def showRes : Res → String
  | .ok v => s!"ok {v}"
  | .err k => s!"err {k}"

def monRtStep (m : RtMon) (o : RtObs) : RtMon :=
  match m.phase, o with
  | .idle, .start q => { m with phase := .wantBackend q 1 }
  | .wantBackend q i, .backend q' =>
      if q' = q then { m with phase := .wantPolicy q i }
      else m.fail s!"attempt {i}: backend was given request {q'}, the caller's request is {q}"
  | .wantPolicy q i, .policy i' r d =>
      if i' = i then { m with phase := if d then .wantBackend q (i + 1) else .wantRet r }
      else m.fail s!"policy was passed attempt number {i'}, expected {i}"
  | .wantPolicy _ _, .stuck => { m with phase := .idle }
  | .wantRet r, .ret r' =>
      if r' = r then { m with phase := .idle }
      else m.fail s!"returned {showRes r'} but the last backend result (declined by the policy) was {showRes r}"
  | .idle, _ => m.fail "event outside a call"
  | .wantBackend _ i, _ => m.fail s!"expected backend call for attempt {i}"
  | .wantPolicy _ i, _ => m.fail s!"expected the policy to be consulted about attempt {i}"
  | .wantRet r, _ => m.fail s!"policy declined; expected the call to return {showRes r}"

def monRt (obs : List RtObs) : RtMon := obs.foldl monRtStep {}

/-- Final verdict: no step failed and no call is left half-way. -/
def RtMon.accepts (m : RtMon) : Bool := m.ok && decide (m.phase = .idle)

end TarpcModel.Stubs

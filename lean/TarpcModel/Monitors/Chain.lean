import TarpcModel.Chain
/-
Monitor of the `chain` family: a decidable predicate over the `op`/`obs` lines of a trace (model or
implementation).  From the ops it knows, per call, the caller-supplied trace context, the deadline
and whether the call was abandoned / told to finish; from the `obs` lines it reconstructs, per call
and hop, the request written, the context the handler observed, the cancel written and the
handler's status, and checks

* C18: every request written for call `c` and every context observed by a handler of `c` carries
  `c`'s caller-supplied trace id and sampling decision (and deadline); its span is a random one that
  has not appeared anywhere before in the trace (so all spans are pairwise distinct, and differ from
  every caller-supplied span, which is not a random one); a handler starts only at a hop whose
  request was written;
* C18: a cancel written at hop `i` for `c` carries exactly the trace context (trace id, span,
  sampling decision) of the request written at hop `i` for `c`, and is written only for an abandoned
  call whose hop-`i` handler runs;
* C04 (frame): a handler is dropped only if its call was abandoned (and after its hop's cancel), and
  completes only if its call was told to finish;
* C04 (cascade): at the end of a `run`, no handler of an abandoned call is still running; a call
  told to finish has produced its outcome.
-/
namespace TarpcModel.Chain

/-- Applies `f` to hop `i` (1-based); `none` if there is no such hop or `f` refuses. -/
def updHop (f : Hop → Option Hop) : Nat → List Hop → Option (List Hop)
  | _, [] => none
  | 0, _ :: _ => none
  | i + 1, hp :: rest =>
    if i = 0 then (f hp).map (· :: rest) else (updHop f i rest).map (hp :: ·)

def isFresh : Span → Bool
  | .fresh _ => true
  | .given _ => false

def sameTrace (cl : Call) (t : Trace) : Bool :=
  t.traceId == cl.ctx.traceId && t.sampled == cl.ctx.sampled

def freshSpan (seen : List Span) (sp : Span) : Bool := isFresh sp && !seen.contains sp

def anyRunning (hops : List Hop) : Bool := hops.any (fun hp => hp.h == .running)

def setHops (cl : Call) (hs : Option (List Hop)) : Option Call := hs.map (fun h => { cl with hops := h })

/-- One observation about call `cl`: the updated reconstruction, or `none` = violation. -/
def obsCall (seen : List Span) (cl : Call) : Obs → Option Call
  | .wireReq i _ t d =>
      if sameTrace cl t && d == cl.deadline && freshSpan seen t.span &&
         (cl.phase == .fresh || cl.phase == .finishing) then
        setHops cl (updHop (fun hp =>
          if hp.req.isNone && hp.seen.isNone && hp.cancel.isNone && hp.h == .notStarted
          then some { hp with req := some t } else none) i cl.hops)
      else none
  | .handler i _ t d =>
      if sameTrace cl t && d == cl.deadline && freshSpan seen t.span &&
         (cl.phase == .fresh || cl.phase == .finishing) then
        setHops cl (updHop (fun hp =>
          if hp.req.isSome && hp.seen.isNone && hp.h == .notStarted
          then some { hp with seen := some t, h := .running } else none) i cl.hops)
      else none
  | .wireCancel i _ t =>
      if cl.phase == .abandoning then
        setHops cl (updHop (fun hp =>
          if hp.req == some t && hp.cancel.isNone && hp.h == .running
          then some { hp with cancel := some t } else none) i cl.hops)
      else none
  | .dropped i _ =>
      if cl.phase == .abandoning then
        setHops cl (updHop (fun hp =>
          if hp.cancel.isSome && hp.h == .running then some { hp with h := .dropped } else none) i cl.hops)
      else none
  | .completed i _ =>
      if cl.phase == .finishing then
        setHops cl (updHop (fun hp =>
          if hp.h == .running then some { hp with h := .completed } else none) i cl.hops)
      else none
  | .outcomeOk _ _ =>
      if cl.phase == .finishing && !anyRunning cl.hops then some { cl with phase := .done } else none
  | .outcomeRefused _ =>
      if cl.phase == .fresh && !anyRunning cl.hops then some { cl with phase := .refused } else none
  | _ => none

def Obs.call : Obs → Option Nat
  | .wireReq _ c _ _ => some c
  | .wireCancel _ c _ => some c
  | .handler _ c _ _ => some c
  | .dropped _ c => some c
  | .completed _ c => some c
  | .outcomeOk c _ => some c
  | .outcomeRefused c => some c
  | _ => none

def Obs.spans : Obs → List Span
  | .wireReq _ _ t _ => [t.span]
  | .handler _ _ t _ => [t.span]
  | _ => []

def Obs.describe : Obs → String
  | .wireReq i c _ _ => s!"request of call {c} at hop {i}: trace id, sampling decision or deadline differ from the caller's, or span not fresh, or unexpected"
  | .handler i c _ _ => s!"handler of call {c} at hop {i}: observed trace id, sampling decision or deadline differ from the caller's, or span not fresh, or no request was written"
  | .wireCancel i c _ => s!"cancel of call {c} at hop {i}: context differs from the request's, or call not abandoned, or handler not running"
  | .dropped i c => s!"handler of call {c} at hop {i} dropped although the call was not abandoned or before its cancel"
  | .completed i c => s!"handler of call {c} at hop {i} completed although the call was not told to finish"
  | .outcomeOk c _ => s!"call {c} returned although not told to finish or with a handler still running"
  | .outcomeRefused c => s!"call {c} refused although its chain had started"
  | .now _ => "clock line outside advance"
  | .noop => "noop"

structure MonSt where
  depth   : Nat
  calls   : List Call := []
  seen    : List Span := []
  pending : Option Op := none
  ok      : Bool := true
  why     : String := ""
deriving Repr

def MonSt.fail (m : MonSt) (why : String) : MonSt := { m with ok := false, why := why, pending := none }

/-- What the end of a `run` makes of a call: `none` = violation. -/
def endCall (cl : Call) : Option Call :=
  match cl.phase with
  | .fresh => some { cl with phase := .waiting }
  | .abandoning => if anyRunning cl.hops then none else some { cl with phase := .dead }
  | .finishing => none
  | _ => some cl

def endCalls : List Call → Option (List Call)
  | [] => some []
  | cl :: rest =>
    match endCall cl, endCalls rest with
    | some cl', some rest' => some (cl' :: rest')
    | _, _ => none

/-- Takes the pending op into account (it was not followed by `noop`). -/
def closeOut (m : MonSt) : MonSt :=
  match m.pending with
  | none => m
  | some (.start c t d stop) =>
      if hasCall c m.calls then m.fail s!"start of call {c}, which exists"
      else { m with pending := none, calls := m.calls ++
              [{ id := c, ctx := t, deadline := d, stop := stop, phase := .fresh, hops := blank m.depth }] }
  | some (.abandon c) =>
      match findCall c m.calls with
      | none => m.fail s!"abandon of unknown call {c}"
      | some cl =>
        match cl.phase with
        | .fresh => { m with pending := none, calls := updCall c (fun cl => { cl with phase := .dead }) m.calls }
        | .waiting => { m with pending := none, calls := updCall c (fun cl => { cl with phase := .abandoning }) m.calls }
        | _ => m.fail s!"abandon of call {c}, which is not active"
  | some (.finish c) =>
      match findCall c m.calls with
      | none => m.fail s!"finish of unknown call {c}"
      | some cl =>
        match cl.phase with
        | .waiting => { m with pending := none, calls := updCall c (fun cl => { cl with phase := .finishing }) m.calls }
        | _ => m.fail s!"finish of call {c}, which is not waiting"
  | some (.advance _) => { m with pending := none }
  | some .run =>
      match endCalls m.calls with
      | some calls => { m with pending := none, calls := calls }
      | none => m.fail "after abandon and run a handler of the abandoned call is still running (C04), or a finished call produced no outcome"

def monOp (m : MonSt) (op : Op) : MonSt :=
  if m.ok then
    if (closeOut m).ok then { closeOut m with pending := some op } else closeOut m
  else m

/-- An event line inside a `run`. -/
def monObsRun (m : MonSt) (o : Obs) : MonSt :=
  match o.call with
  | none => m.fail o.describe
  | some c =>
    match findCall c m.calls with
    | none => m.fail s!"event for unknown call {c}"
    | some cl =>
      match obsCall m.seen cl o with
      | none => m.fail o.describe
      | some cl' => { m with calls := updCall c (fun _ => cl') m.calls, seen := m.seen ++ o.spans }

def monObs (m : MonSt) (o : Obs) : MonSt :=
  if m.ok then
    match o, m.pending with
    | .noop, some .run => m.fail "noop inside run"
    | .noop, _ => { m with pending := none }
    | .now _, some (.advance _) => { m with pending := none }
    | .now _, _ => m.fail "clock line outside advance"
    | o, some .run => monObsRun m o
    | o, _ => m.fail ("event outside run: " ++ o.describe)
  else m

def monInit (depth : Nat) : MonSt := { depth := depth }

def monPair (m : MonSt) (p : Op × List Obs) : MonSt := p.2.foldl monObs (monOp m p.1)

/-- The monitor over a whole trace (per-op observation lists). -/
def mon (depth : Nat) (tr : List (Op × List Obs)) : MonSt := closeOut (tr.foldl monPair (monInit depth))

end TarpcModel.Chain

import TarpcModel.Client.Run
/-
Client-side monitors: decidable predicates over the event trace (ops and observations) of a `cli`
script.  Each property has its own small monitor; all share the bookkeeping in `Book`, which is
reconstructed from the trace alone (so the same code judges the implementation's trace).

A monitor's state has `bad : Option String`; the first violation sticks.
-/
namespace TarpcModel.Client

/-! ### bookkeeping shared by the monitors -/

structure BCall where
  cid      : Nat
  body     : Nat
  deadline : Nat
  trace    : Trace
  dropped  : Bool := false            -- a `drop-call` op on it has completed
  resolved : Option Outcome := none
deriving Repr, DecidableEq

structure BSend where
  id       : Nat
  body     : Nat
  deadline : Nat
  trace    : Trace
  ok       : Bool
  at_      : Nat                      -- position in the sink's write order
  time     : Nat := 0                 -- virtual time of the write
deriving Repr, DecidableEq

structure BRead where
  id  : Nat
  res : Res
  time : Nat
  sentBefore : Bool                   -- `Request id` had been written when this was read
deriving Repr, DecidableEq

structure Book where
  handles    : List Nat := [0]
  nextHandle : Nat := 1
  calls      : List BCall := []
  now        : Nat := 0
  sends      : List BSend := []       -- `Request` writes, in order
  cancels    : List (Nat × Trace × Nat) := []   -- successful `Cancel` writes: id, trace, position
  reads      : List BRead := []
  writes     : Nat := 0               -- number of sink writes so far
  topPoll    : Bool := false          -- the current op is a top-level `poll-dispatch`
  curDrop    : Option Nat := none     -- the current op is `drop-call c`
  pollReadyP : Bool := false          -- a `poll_ready → Pending` happened in the current op
  dispatchRet : Option Ret := none    -- the dispatch future completed with this
  spun       : Bool := false          -- a task span or panicked: its observations are incomplete
  failed     : Bool := false          -- the transport reported a failure that ends the connection
deriving Repr

def Book.callOfBody (b : Book) (body : Nat) : Option BCall := b.calls.find? (·.body == body)
def Book.sendOfBody (b : Book) (body : Nat) : Option BSend := b.sends.find? (·.body == body)
def Book.sendOfId (b : Book) (id : Nat) : Option BSend := b.sends.find? (·.id == id)
def Book.liveCalls (b : Book) : List BCall := b.calls.filter (fun c => !c.dropped && c.resolved.isNone)
def Book.senders (b : Book) : Nat := b.handles.length + b.liveCalls.length

def Book.updCall (b : Book) (cid : Nat) (f : BCall → BCall) : Book :=
  { b with calls := b.calls.map (fun c => if c.cid == cid then f c else c) }

/-- Finishes the bookkeeping of the previous op (a `drop-call` takes effect when its op ends). -/
def Book.endOp (b : Book) : Book :=
  let b := match b.curDrop with
    | some c => b.updCall c (fun x => if x.resolved.isNone then { x with dropped := true } else x)
    | none => b
  { b with curDrop := none, topPoll := false, pollReadyP := false }

def Book.step (b : Book) : CEv → Book
  | .op o =>
      let b := b.endOp
      match o with
      | .call h d tr body =>
          if b.handles.contains h then
            { b with calls := b.calls ++ [{ cid := b.calls.length, body := body, deadline := d, trace := tr }] }
          else b
      | .clone h =>
          if b.handles.contains h then { b with handles := b.handles ++ [b.nextHandle], nextHandle := b.nextHandle + 1 } else b
      | .dropHandle h => { b with handles := b.handles.filter (· != h) }
      | .dropCall c _ => { b with curDrop := some c }
      | .pollDispatch => { b with topPoll := true }
      | .advance n => { b with now := b.now + n }
      | _ => b
  | .obs o =>
      match o with
      | .tSend _ (.request id d tr body) ok =>
          { b with sends := b.sends ++ [{ id := id, body := body, deadline := d, trace := tr, ok := ok, at_ := b.writes, time := b.now }],
                   writes := b.writes + 1 }
      | .tSend _ (.cancel id tr) ok =>
          if ok then { b with cancels := b.cancels ++ [(id, tr, b.writes)], writes := b.writes + 1 }
          else { b with writes := b.writes + 1, failed := true }
      | .tNext _ (.item (.response id res)) =>
          { b with reads := b.reads ++ [{ id := id, res := res, time := b.now,
                                          sentBefore := (b.sends.any (fun s => s.id == id && s.ok)) }] }
      | .tReady _ .pending => { b with pollReadyP := true }
      | .tReady _ .err => { b with failed := true }
      | .tFlush _ .err => { b with failed := true }
      | .tClose _ .err => { b with failed := true }
      | .tNext _ .err => { b with failed := true }
      | .resolved c o _ => b.updCall c (fun x => { x with resolved := some o })
      | .ret (.dispatch _) r => if r == .pending then b else { b with dispatchRet := some r }
      | .spin _ => { b with spun := true }
      | .panic _ _ => { b with spun := true }
      | _ => b

/-! ### a generic monitor wrapper -/

structure Mon (σ : Type) where
  book : Book := {}
  st   : σ
  bad  : Option String := none

def Mon.fail {σ} (m : Mon σ) (why : String) : Mon σ :=
  match m.bad with
  | some _ => m
  | none => { m with bad := some why }

/-- Runs a checker that sees the book *before* the event, then advances the book. -/
def Mon.step {σ} (check : Book → σ → CEv → σ × Option String) (m : Mon σ) (e : CEv) : Mon σ :=
  -- the op boundary is applied first so that checks see completed drops
  let bk := match e with | .op _ => m.book.endOp | _ => m.book
  -- once a task span or panicked the trace of that poll is truncated: stop judging
  let (st, f) := if bk.spun then (m.st, none) else check bk m.st e
  let m := { m with st := st, book := m.book.step e }
  match f with
  | some why => m.fail why
  | none => m

def Mon.run {σ} (check : Book → σ → CEv → σ × Option String) (init : σ) (evs : List CEv) : Mon σ :=
  evs.foldl (Mon.step check) { st := init }

def Mon.ok {σ} (m : Mon σ) : Bool := m.bad.isNone

/-! ### C01 — responses reach exactly the call that asked -/

/-- ids of the responses already consumed by a successful resolution -/
abbrev C01St := List Nat

def expectedRes : Outcome → Option Res
  | .ok b => some (.ok b)
  | .server k => some (.err k)
  | _ => none

def checkC01 (b : Book) (used : C01St) : CEv → C01St × Option String
  | .obs (.resolved c o _) =>
      match expectedRes o with
      | none => (used, none)
      | some res =>
          match b.calls.find? (·.cid == c) with
          | none => (used, some s!"call {c} resolved but was never created")
          | some ci =>
              match b.sendOfBody ci.body with
              | none => (used, some s!"call {c} succeeded although its request was never written")
              | some sd =>
                  if used.contains sd.id then (used, some s!"call {c}: a second success for request id {sd.id}")
                  else if b.reads.any (fun r => r.id == sd.id && r.res == res && r.sentBefore) then (sd.id :: used, none)
                  else (used, some s!"call {c} (request id {sd.id}) succeeded with a result no response for that id carried")
  | _ => (used, none)

def monC01 (evs : List CEv) : Mon C01St := Mon.run checkC01 [] evs

/-! ### C03 — abandoned calls are cancelled on the wire, exactly when needed -/

def reqEnded (b : Book) (sd : BSend) : Bool :=
  !sd.ok || b.reads.any (·.id == sd.id) || sd.deadline ≤ b.now

def checkC03 (b : Book) (_ : Unit) : CEv → Unit × Option String
  | .obs (.tSend _ (.request id _ _ body) _) =>
      match b.callOfBody body with
      | some ci =>
          if ci.dropped then ((), some s!"request {id} of call {ci.cid} was transmitted after the call had been abandoned")
          else ((), none)
      | none => ((), none)
  | .obs (.tSend _ (.cancel id _) _) =>
      match b.sendOfId id with
      | none => ((), some s!"cancel for id {id} without a preceding request")
      | some sd =>
          if !sd.ok then ((), some s!"cancel for id {id} whose request write had failed")
          else if b.cancels.any (·.1 == id) then ((), some s!"second cancel for id {id}")
          else match b.callOfBody sd.body with
            | some ci =>
                match ci.resolved with
                | some (.ok _) | some (.server _) => ((), some s!"cancel for id {id} although call {ci.cid} resolved normally")
                | _ => ((), none)
            | none => ((), none)
  | .obs (.ret (.dispatch _) r) =>
      -- end of a top-level poll with the transport writable throughout: every abandoned call whose
      -- request is on the wire and has not ended must have its cancel on the wire by now
      -- (only a poll that goes idle is judged here: a dispatch that *completes* either saw the peer end the read side —
      -- the connection is lost and no cancel is owed — or shuts down after the last handle went away, where the
      -- C10 monitor demands that every queued cancel was written before the transport was closed)
      -- (after a failure that loses the connection the dispatch may go idle once more while it drains its queues
      -- before it ends with the error: no cancel is owed any more)
      if b.topPoll && !b.pollReadyP && !b.failed && r == .pending then
        let owed := b.calls.filter fun ci =>
          ci.dropped && match b.sendOfBody ci.body with
            | some sd => !reqEnded b sd && !(b.cancels.any (·.1 == sd.id))
            | none => false
        match owed with
        | ci :: _ => ((), some s!"abandoned call {ci.cid}: request transmitted, not ended, yet no cancel after a writable dispatch poll")
        | [] => ((), none)
      else ((), none)
  | _ => ((), none)

def monC03 (evs : List CEv) : Mon Unit := Mon.run checkC03 () evs

/-! ### C05 — client enforces request deadlines, never early -/

/-- time at which the last top-level dispatch poll completed without the dispatch ending -/
abbrev C05St := Option Nat

def ceilMsNs (ns : Nat) : Nat := ceilMs ns * nsPerMs

def checkC05 (b : Book) (last : C05St) : CEv → C05St × Option String
  | .obs (.resolved c .deadline t) =>
      match b.calls.find? (·.cid == c) with
      | none => (last, none)
      | some ci =>
          if t < ci.deadline then (last, some s!"call {c} failed with DeadlineExceeded at {t} before its deadline {ci.deadline}")
          else match b.sendOfBody ci.body with
            | some sd =>
                if b.reads.any (fun r => r.id == sd.id && r.sentBefore && r.time < ci.deadline) then
                  (last, some s!"call {c}: a reply was processed before the deadline yet the call failed with DeadlineExceeded")
                else (last, none)
            | none => (last, some s!"call {c} failed with DeadlineExceeded although its request was never written")
  | .obs (.ret (.dispatch _) .pending) => (if b.topPoll then some b.now else last, none)
  | .obs (.ret (.call c) .pending) =>
      -- the call is still pending although the dispatch ran at or after the timer tick of its deadline
      match b.calls.find? (·.cid == c), last with
      | some ci, some t =>
          match b.sendOfBody ci.body with
          | some sd =>
              -- the timer fires at the first millisecond tick at or after max(deadline, transmission)
              if sd.ok && ceilMsNs (max ci.deadline sd.time) ≤ t && !(b.reads.any (·.id == sd.id)) && b.dispatchRet.isNone then
                (last, some s!"call {c} still pending although the dispatch ran at {t}, past its deadline {ci.deadline}")
              else (last, none)
          | none => (last, none)
      | _, _ => (last, none)
  | _ => (last, none)

def monC05 (evs : List CEv) : Mon C05St := Mon.run checkC05 none evs

/-! ### C09 (client) — transport failures are contained and reported -/

/-- the activity of the first transport failure the dispatch must report -/
abbrev C09St := Option Activity

def checkC09 (b : Book) (exp : C09St) : CEv → C09St × Option String
  | .obs (.tReady _ .err) => (exp.orElse fun _ => some .ready, none)
  | .obs (.tFlush _ .err) => (exp.orElse fun _ => some .flush, none)
  | .obs (.tClose _ .err) => (exp.orElse fun _ => some .close, none)
  | .obs (.tNext _ .err) => (exp.orElse fun _ => some .read, none)
  | .obs (.tSend _ (.cancel _ _) false) => (exp.orElse fun _ => some .write, none)
  | .obs (.ret (.dispatch _) (.readyErr a)) =>
      if exp == some a then (exp, none) else (exp, some s!"dispatch ended with error tag {repr a}, expected {repr exp}")
  | .obs (.ret (.dispatch _) .readyOk) =>
      if exp.isSome then (exp, some "dispatch completed successfully after a transport failure") else (exp, none)
  | .obs (.resolved c (.channel a) _) =>
      if b.dispatchRet == some (.readyErr a) || exp == some a then (exp, none)
      else (exp, some s!"call {c} reports channel error {repr a} which the transport never produced")
  | .obs (.resolved c .send _) =>
      match b.calls.find? (·.cid == c) with
      | some ci =>
          if b.sends.any (fun s => s.body == ci.body && !s.ok) then (exp, none)
          else (exp, some s!"call {c} reports a send failure but its request write did not fail")
      | none => (exp, none)
  | .obs (.panic _ site) => (exp, some s!"panic: {site}")
  | _ => (exp, none)

def monC09 (evs : List CEv) : Mon C09St := Mon.run checkC09 none evs

/-! ### C10 (client) — shutdown is orderly -/

/-- `some true` once `poll_close` was called in the current poll / inbound EOF was seen -/
structure C10St where
  closeSeen : Bool := false
  eofSeen   : Bool := false
deriving Repr

def checkC10 (b : Book) (s : C10St) : CEv → C10St × Option String
  | .op _ => ({}, none)
  | .obs (.tClose _ _) =>
      if b.senders != 0 then (s, some "transport closed while a handle or call was still alive")
      else
        let owed := b.calls.filter fun ci =>
          ci.dropped && match b.sendOfBody ci.body with
            | some sd => !reqEnded b sd && !(b.cancels.any (·.1 == sd.id))
            | none => false
        match owed with
        | ci :: _ => (s, some s!"transport closed before the cancel of abandoned call {ci.cid} was transmitted")
        | [] => ({ s with closeSeen := true }, none)
  | .obs (.tSend _ _ _) =>
      if s.closeSeen then (s, some "write after poll_close in the same poll") else (s, none)
  | .obs (.tNext _ .eof) => ({ s with eofSeen := true }, none)
  | .obs (.ret (.dispatch _) r) =>
      -- (if the transport also failed in this poll the dispatch is shutting down with that error and may
      -- have to wait for an outstanding queue permit before it completes)
      if s.eofSeen && !b.failed && r != .readyOk && !(match r with | .readyErr _ => true | _ => false) then
        (s, some "inbound side ended but the dispatch did not stop in that poll")
      -- a dispatch completes successfully only by closing the transport (after the last handle went away) or
      -- because the peer ended the read side, in the poll in which that happens
      else if r == .readyOk && !s.eofSeen && !s.closeSeen then
        (s, some "dispatch completed successfully although the peer had not closed and the transport was not closed")
      else (s, none)
  | _ => (s, none)

def monC10 (evs : List CEv) : Mon C10St := Mon.run checkC10 {} evs

/-! ### C11 (client) — tracked request state is bounded and fully reclaimed -/

def checkC11 (maxInFlight : Nat) (b : Book) (_ : Unit) : CEv → Unit × Option String
  | .obs (.counts (.dispatch _) inflight timers) =>
      if inflight > maxInFlight then ((), some s!"{inflight} requests in flight > max_in_flight_requests = {maxInFlight}")
      else if inflight != timers then ((), some s!"{inflight} tracked requests but {timers} armed timers")
      else if b.topPoll && !b.pollReadyP && !b.failed && b.liveCalls.isEmpty && b.dispatchRet.isNone && inflight != 0 then
        ((), some s!"all calls resolved or dropped, transport writable, yet {inflight} requests still tracked")
      else ((), none)
  | _ => ((), none)

def monC11 (maxInFlight : Nat) (evs : List CEv) : Mon Unit := Mon.run (checkC11 maxInFlight) () evs

/-! ### C14 — the transport contract (one endpoint's sink; used for both ends) -/

structure C14St where
  gotReady  : Bool := false
  closed    : Bool := false
  failed    : Bool := false
  unflushed : Nat := 0          -- writes since the last completed flush
  flushPendingAfterWrite : Bool := false
  readFailed : Bool := false
  readyP    : Nat := 0          -- consecutive `poll_ready → Pending` with nothing but flushes in between
deriving Repr

def c14ReadyPLimit : Nat := 4

def checkC14Obs (s : C14St) : Obs → C14St × Option String
  | .tReady _ r =>
      match r with
      | .ready => ({ s with gotReady := true, readyP := 0 }, none)
      | .err => ({ s with failed := true }, none)
      | .pending =>
          let s := { s with readyP := s.readyP + 1 }
          if s.readyP > c14ReadyPLimit then (s, some "poll_ready retried again and again without returning to the executor") else (s, none)
  | .tSend _ m ok =>
      -- a failed write of anything but a request ends the connection (client: cancel; server: response)
      let fatal := !ok && (match m with | .request _ _ _ _ => false | _ => true)
      let s' := { s with gotReady := false, unflushed := if ok then s.unflushed + 1 else s.unflushed, flushPendingAfterWrite := false, readyP := 0,
                         readFailed := s.readFailed || fatal }
      if s.failed then (s', some "write after the transport reported a failure")
      else if s.closed then (s', some "write after the transport was closed")
      else if !s.gotReady then (s', some "write without a preceding poll_ready → Ready")
      else (s', none)
  | .tFlush _ r =>
      match r with
      | .ready => ({ s with unflushed := 0, flushPendingAfterWrite := false }, none)
      | .pending => ({ s with flushPendingAfterWrite := true }, none)
      | .err => ({ s with failed := true }, none)
  | .tClose _ r =>
      match r with
      | .ready => ({ s with unflushed := 0, closed := true }, none)
      | .pending => ({ s with flushPendingAfterWrite := true }, none)
      | .err => ({ s with failed := true }, none)
  | .ret t r =>
      let owner := match t with | .dispatch _ | .server _ => true | _ => false
      -- (a dispatch that *completes* — read side closed — is not going idle; only `Pending` and the
      -- end of the server's request stream are judged)
      if owner && (r == .pending || r == .readyNone) && s.unflushed > 0 && !s.flushPendingAfterWrite && !s.failed && !s.readFailed then
        (s, some s!"went idle with {s.unflushed} written item(s) neither flushed nor being flushed")
      else (s, none)
  | .spin _ => (s, some "busy loop: poll_ready/poll_flush retried without returning to the executor")
  | .tNext _ r =>
      -- after a read failure the owner tears the connection down; it is no longer "going idle"
      ({ s with readyP := 0, readFailed := s.readFailed || r == .err }, none)
  | _ => (s, none)

def checkC14 (_ : Book) (s : C14St) : CEv → C14St × Option String
  | .op _ => ({ s with readyP := 0 }, none)
  | .obs o => checkC14Obs s o

def monC14 (evs : List CEv) : Mon C14St := Mon.run checkC14 {} evs

/-! ### C18 (client) — trace context follows the request -/

def checkC18 (b : Book) (_ : Unit) : CEv → Unit × Option String
  | .obs (.tSend _ (.request id _ tr body) _) =>
      match b.callOfBody body with
      | some ci =>
          if tr.traceId != ci.trace.traceId then ((), some s!"request {id} carries trace id {tr.traceId}, caller supplied {ci.trace.traceId}")
          else if tr.sampled != ci.trace.sampled then ((), some s!"request {id} changed the sampling decision")
          else if tr.span == ci.trace.span then ((), some s!"request {id} reuses the caller's span id")
          else if b.sends.any (fun s => s.trace.span == tr.span && s.id != id) then ((), some s!"request {id} shares its span id with another request")
          else ((), none)
      | none => ((), none)
  | .obs (.tSend _ (.cancel id tr) _) =>
      match b.sendOfId id with
      | some sd => if sd.trace == tr then ((), none) else ((), some s!"cancel {id} carries a trace context different from its request's")
      | none => ((), none)
  | _ => ((), none)

def monC18 (evs : List CEv) : Mon Unit := Mon.run checkC18 () evs

end TarpcModel.Client

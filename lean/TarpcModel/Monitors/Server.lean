import TarpcModel.Server.Run
import TarpcModel.Monitors.Client
/-
Server-side monitors: decidable predicates over the event trace of a `srv` script.  As on the client
side all monitors share a `Book` reconstructed from the trace alone.  The book keeps an *abstract
table* of tracked request instances, updated by what is observable: a yield inserts; a written
response, a `Cancel` read for the id, an expiry that a (non-stalled) channel poll must have processed
and a guard cancellation (the application dropped the request) that such a poll must have processed
remove.
-/
namespace TarpcModel.Server

open TarpcModel.Client (ceilMsNs)

structure BExec where
  rid       : Nat
  id        : Nat
  deadline  : Nat
  trace     : Trace
  yieldedAt : Nat
  finishCmd : Option Res := none     -- what the script told the handler to return
  completed : Option Res := none     -- the handler returned this
  hDropped  : Bool := false          -- the handler was dropped before completing
  gone      : Bool := false          -- the application dropped it, or its future finished
  abandoned : Bool := false          -- the application dropped it before its future finished
  cancelRead : Bool := false         -- a `Cancel` for its id was read while it was tracked
  expiredSeen : Bool := false        -- a non-stalled channel poll went idle at or after its timer tick
deriving Repr, DecidableEq

/-- the timer tick (ns) at which the channel's timer for this request fires -/
def BExec.tick (e : BExec) : Nat := ceilMsNs (max e.deadline e.yieldedAt)

structure Book where
  limit     : Option Nat := none
  now       : Nat := 0
  execs     : List BExec := []
  table     : List (Nat × Nat) := []       -- (id, rid) instances believed tracked
  reqReads  : List (Nat × Nat × Trace × Nat) := []   -- request messages read: id, deadline, trace, body
  respWritten : List (Nat × Res) := []     -- responses written successfully, in order
  lastRead  : Option Nat := none           -- id of the request read last in the current op, not yet offered
  justRead  : Option Nat := none           -- … and nothing else has been observed since
  topPoll   : Bool := false                -- the current op is `poll-server`
  stalled   : Bool := false                -- … and the limiter, at its limit, returned on `poll_ready → Pending` before reading
  belowLimitStall : Bool := false          -- … and the limiter did so although the poll began below the limit
  sawT      : Bool := false                -- a transport call was seen in the current op
  prevReadyP : Bool := false               -- the previous transport call was `poll_ready → Pending`
  failed    : Bool := false
  spun      : Bool := false
  dropped   : Bool := false
  streamDone : Bool := false
  eofSeen   : Bool := false
  curDropExec : Option Nat := none
  lastIdlePoll : Option Nat := none        -- time of the last non-stalled channel poll that went idle (Pending / end)
  idleNow   : Bool := false                -- … and that poll is the current op
  lastCounts : Nat := 0                    -- in-flight count reported at the end of the previous channel poll
  abandonOrder : List Nat := []            -- executions the application dropped, in order
  tableAtPollStart : Nat := 0              -- size of `table` when the current channel poll began
deriving Repr

def Book.exec (b : Book) (r : Nat) : Option BExec := b.execs.find? (·.rid == r)

/-- An id was accepted again while an earlier request with it had been cancelled, expired, abandoned or aborted
(not completed): the first request's late guard cancellation then erases the second one's table entry.  Re-use of
an id after anything but completion is outside the properties' quantifiers (C08: "id reused after completion"). -/
def Book.reuseTainted (b : Book) : Bool :=
  b.execs.any fun e => b.execs.any fun e' =>
    e'.id == e.id && e'.rid < e.rid && (e'.cancelRead || e'.abandoned || e'.hDropped || e'.expiredSeen)
def Book.updExec (b : Book) (r : Nat) (f : BExec → BExec) : Book :=
  { b with execs := b.execs.map (fun e => if e.rid == r then f e else e) }
def Book.tracked (b : Book) (id : Nat) : Bool := b.table.any (·.1 == id)
def Book.untrack (b : Book) (id : Nat) : Book := { b with table := b.table.filter (·.1 != id) }

/-- What a non-stalled channel poll at time `now` must have removed before reading: expired
instances and instances the application abandoned. -/
def Book.sweep (b : Book) : Book :=
  { b with execs := b.execs.map (fun e => if e.tick ≤ b.now then { e with expiredSeen := true } else e),
           table := b.table.filter fun (_, r) =>
      match b.exec r with
      | some e => !(e.tick ≤ b.now) && !e.abandoned
      | none => true }

/-- Each iteration of the channel's poll loop processes one queued guard cancellation and one due
expiration before it reads the transport: what is *certainly* gone when a read is observed. -/
def Book.sweepOne (b : Book) : Book :=
  -- the head of the guard-cancellation queue (its entry may already be gone)
  let b := match b.abandonOrder with
    | r :: rest => { b with table := b.table.filter (·.2 != r), abandonOrder := rest }
    | [] => b
  -- the due entry with the smallest tick, if unique
  let due := b.table.filterMap fun (_, r) => match b.exec r with
    | some e => if e.tick ≤ b.now then some (e.tick, r) else none
    | none => none
  match due with
  | [] => b
  | d :: ds =>
      let m := ds.foldl (fun acc x => if x.1 < acc.1 then x else acc) d
      if (due.filter (·.1 == m.1)).length == 1 then { b with table := b.table.filter (·.2 != m.2) } else b

def Book.endOp (b : Book) : Book :=
  let b := match b.curDropExec with
    | some r =>
        let fresh := match b.exec r with | some e => !e.gone | none => false
        let b := b.updExec r (fun e => if e.gone then e else { e with gone := true, abandoned := true })
        if fresh then { b with abandonOrder := b.abandonOrder ++ [r] } else b
    | none => b
  { b with curDropExec := none, topPoll := false, stalled := false, belowLimitStall := false, sawT := false, prevReadyP := false, lastRead := none, justRead := none, idleNow := false }

def Book.step (b : Book) : SEv → Book
  | .op o =>
      let b := b.endOp
      match o with
      | .pollServer => { b with topPoll := true, tableAtPollStart := b.table.length }
      | .dropServer => { b with dropped := true }
      | .dropExec r => { b with curDropExec := some r }
      | .advance n => { b with now := b.now + n }
      | _ => b
  | .obs (.wake _) => b
  | .obs o =>
      let jr := b.justRead
      let b := { b with justRead := none }
      match o with
      | .tReady _ r =>
          let b := if r == .err then { b with failed := true } else b
          -- the limiter's `ready!(poll_ready)` returned Pending (so the inner channel was not polled):
          -- recognisable because the next transport call is the write pump's own `poll_ready`
          -- … and only a channel at its limit does that: the count this poll began with is the one the previous
          -- channel poll reported (`lastCounts`; in-flight requests change inside channel polls only)
          let b := if b.topPoll && b.prevReadyP && b.limit.isSome then
              (if b.lastCounts ≥ b.limit.getD 0 then { b with stalled := true } else { b with belowLimitStall := true })
            else b
          { b with sawT := true, prevReadyP := r == .pending }
      | .tFlush _ r => { (if r == .err then { b with failed := true } else b) with sawT := true, prevReadyP := false }
      | .tNext _ r =>
          let b := { b with sawT := true, prevReadyP := false }
          let b := if b.topPoll then b.sweepOne else b
          match r with
          | .item (.request id d tr body) =>
              { b with reqReads := b.reqReads ++ [(id, d, tr, body)], lastRead := some id, justRead := some id }
          | .item (.cancel id _) =>
              let b := match b.table.reverse.find? (·.1 == id) with
                | some (_, r) => b.updExec r (fun e => { e with cancelRead := true })
                | none => b
              b.untrack id
          | .err => { b with failed := true }
          | .eof => { b with eofSeen := true }
          | _ => b
      | .tSend _ (.response id res) ok =>
          let b := { b with sawT := true, prevReadyP := false, justRead := jr }
          let b := b.untrack id
          let b := { b with justRead := none, lastRead := if jr == some id then none else b.lastRead }
          if ok then { b with respWritten := b.respWritten ++ [(id, res)] } else { b with failed := true }
      | .yielded r id d tr =>
          -- a newly accepted request replaces whatever instance of that id the book still listed
          { b with execs := b.execs ++ [{ rid := r, id := id, deadline := d, trace := tr, yieldedAt := b.now }],
                   table := (b.table.filter (·.1 != id)) ++ [(id, r)], lastRead := none }
      | .handler r .completed _ => b.updExec r (fun e => { e with completed := e.finishCmd })
      | .handler r .dropped _ => b.updExec r (fun e => { e with hDropped := true })
      | .ret (.exec r) .readyOk => b.updExec r (fun e => { e with gone := true })
      | .ret (.server _) r =>
          let b := if r == .readyNone then { b with streamDone := true } else b
          -- the application stops at the end of the stream or at its first error item and drops it
          let b := match r with
            | .readyNone | .readyItemErr _ => { b with dropped := true }
            | _ => b
          -- a non-stalled poll that goes idle has drained every queued cancellation and due expiration
          if b.topPoll && !b.stalled && !b.failed && (r == .pending || r == .readyNone) then
            { b.sweep with lastIdlePoll := some b.now, idleNow := true, abandonOrder := [] }
          else b
      | .counts (.server _) n _ => { b with lastCounts := n }
      | .spin _ => { b with spun := true }
      | .panic _ _ => { b with spun := true }
      | _ => b

/-- `finish r res` tells the handler what to return; the monitor learns it from the op. -/
def Book.noteFinish (b : Book) : SEv → Book
  | .op (.finish r res) => b.updExec r (fun e => if e.completed.isNone && !e.gone then { e with finishCmd := some res } else e)
  | _ => b

structure Mon (σ : Type) where
  book : Book := {}
  st   : σ
  bad  : Option String := none

def Mon.fail {σ} (m : Mon σ) (why : String) : Mon σ :=
  match m.bad with
  | some _ => m
  | none => { m with bad := some why }

def Mon.step {σ} (check : Book → σ → SEv → σ × Option String) (m : Mon σ) (e : SEv) : Mon σ :=
  let bk := match e with | .op _ => m.book.endOp | _ => m.book
  let (st, f) := if bk.spun then (m.st, none) else check bk m.st e
  let m := { m with st := st, book := (m.book.step e).noteFinish e }
  match f with
  | some why => m.fail why
  | none => m

def Mon.run {σ} (limit : Option Nat) (check : Book → σ → SEv → σ × Option String) (init : σ) (evs : List SEv) : Mon σ :=
  evs.foldl (Mon.step check) { st := init, book := { limit := limit } }

def Mon.ok {σ} (m : Mon σ) : Bool := m.bad.isNone

/-- the execution whose handler result is `res` for request id `id` (most recent first) -/
def Book.execOfResult (b : Book) (id : Nat) (res : Res) : Option BExec :=
  b.execs.reverse.find? (fun e => e.id == id && e.completed == some res)

/-! ### C04 — servers stop cancelled work -/

def checkC04 (b : Book) (_ : Unit) : SEv → Unit × Option String
  | .obs (.handler r .polled _) =>
      match b.exec r with
      | some e => if e.cancelRead then ((), some s!"handler of request {r} (id {e.id}) was polled after its cancellation had been received") else ((), none)
      | none => ((), none)
  | .obs (.tSend _ (.response id res) _) =>
      match b.execOfResult id res with
      | some e =>
          -- (a peer that re-uses the id of a request it cancelled may be answered with the first
          -- handler's already buffered result; id re-use after cancellation is outside C04's quantifier)
          let reused := b.lastRead == some id || b.execs.any (fun e' => e'.id == id && e'.rid > e.rid)
          if e.cancelRead && !reused then ((), some s!"response of cancelled request {e.rid} (id {id}) was transmitted") else ((), none)
      | none => ((), none)
  | _ => ((), none)

def monC04 (limit : Option Nat) (evs : List SEv) : Mon Unit := Mon.run limit checkC04 () evs

/-! ### C06 — server enforces request deadlines, never early -/

def checkC06 (b : Book) (_ : Unit) : SEv → Unit × Option String
  | .obs (.handler r .dropped t) =>
      -- inside `poll-exec` the drop is an abort by the channel; inside `drop-exec` it is the application's
      match b.exec r with
      | some e =>
          if b.curDropExec == some r || b.dropped || e.cancelRead then ((), none)
          else if t < e.deadline then ((), some s!"handler of request {r} aborted at {t}, before its deadline {e.deadline}")
          else ((), none)
      | none => ((), none)
  | .obs (.handler r .polled t) =>
      match b.exec r, b.lastIdlePoll with
      | some e, some tp =>
          -- (an id re-used while an earlier request with it was cancelled or abandoned — not completed — is outside
          -- the quantifier: the first request's late guard cancellation erases the second one's entry, see C04)
          let reusedAfterAbort := b.execs.any fun e' => e'.id == e.id && e'.rid < e.rid && (e'.cancelRead || e'.abandoned || e'.hDropped)
          if e.expiredSeen && !reusedAfterAbort then ((), some s!"handler of request {r} still running at {t}: the channel was polled (last at {tp}) past its deadline {e.deadline}")
          else ((), none)
      | _, _ => ((), none)
  | .obs (.tSend _ (.response id res) _) =>
      match b.execOfResult id res, b.lastIdlePoll with
      | some e, some tp =>
          if e.expiredSeen && tp ≥ e.tick && !(b.execs.any fun e' => e'.id == id && e'.rid > e.rid) then
            ((), some s!"response of request {e.rid} (id {id}) transmitted after its deadline had been enforced")
          else ((), none)
      | _, _ => ((), none)
  | _ => ((), none)

def monC06 (limit : Option Nat) (evs : List SEv) : Mon Unit := Mon.run limit checkC06 () evs

/-- The limiter-stall finding (DESIGN.md F7): the handler outlives its deadline because every channel
poll since the deadline returned on `poll_ready → Pending` before processing expirations.  (`checkC06Stall` also rejects
a poll in which the limiter took that exit although the poll began below the limit — `belowLimitStall` — with a message
of its own: only a channel at its limit may stop polling the inner channel.) -/
structure C06StallSt where
  /-- requests whose timer tick had passed when a *stalled* channel poll returned -/
  overdue : List Nat := []
  lastStalledAt : Nat := 0
deriving Repr

def checkC06Stall (b : Book) (s : C06StallSt) : SEv → C06StallSt × Option String
  | .obs (.ret (.server _) _) =>
      if b.topPoll && b.belowLimitStall then
        (s, some s!"limiter returned on poll_ready → Pending without polling the inner channel although only {b.lastCounts} of {b.limit.getD 0} requests were in flight")
      else if b.topPoll && b.stalled then
        let due := (b.table.filterMap fun (_, r) => match b.exec r with
          | some e => if e.tick ≤ b.now && !e.gone then some r else none
          | none => none)
        ({ overdue := s.overdue ++ due, lastStalledAt := b.now }, none)
      else (s, none)
  | .obs (.handler r .polled t) =>
      match b.exec r with
      | some e =>
          if s.overdue.contains r && !e.cancelRead && !e.expiredSeen then
            (s, some s!"limiter at its limit and sink not ready: handler of request {r} still running at {t} although the channel was polled at {s.lastStalledAt}, past its deadline {e.deadline}")
          else (s, none)
      | none => (s, none)
  | _ => (s, none)

def monC06Stall (limit : Option Nat) (evs : List SEv) : Mon C06StallSt := Mon.run limit checkC06Stall {} evs

/-! ### C08 — one handler and at most one response per request -/

/-- responses written per id since that id was last accepted (yielded or throttled) -/
abbrev C08St := List (Nat × Nat)

def bump (l : C08St) (id : Nat) : C08St × Nat :=
  match l.find? (·.1 == id) with
  | some (_, n) => (l.map (fun p => if p.1 == id then (id, n + 1) else p), n + 1)
  | none => ((id, 1) :: l, 1)

def reset (l : C08St) (id : Nat) (n : Nat) : C08St := (id, n) :: l.filter (·.1 != id)

def checkC08 (b : Book) (s : C08St) : SEv → C08St × Option String
  | .obs (.yielded r id _ _) =>
      -- a duplicate of a request that is certainly still tracked must not be offered again
      let certain := b.table.any fun (i, r') => i == id && match b.exec r' with
        | some e => !e.gone && !(e.tick ≤ b.now)
        | none => false
      if certain then (reset s id 0, some s!"request {r} offered although id {id} is still in flight")
      else if b.lastRead != some id then (reset s id 0, some s!"request {r} (id {id}) offered without a matching request having been read")
      else (reset s id 0, none)
  | .obs (.tSend _ (.response id res) _) =>
      if !(b.reqReads.any (·.1 == id)) then (s, some s!"response for id {id}, which was never read on this channel")
      else if b.justRead == some id then (reset s id 1, none)       -- the throttle reply of the request just read
      else
        let (s, n) := bump s id
        if n > 1 then (s, some s!"second response for id {id} since it was last accepted")
        else match b.execOfResult id res with
          | some _ => (s, none)
          | none => (s, some s!"response for id {id} carries a result no finished handler produced")
  | _ => (s, none)

def monC08 (limit : Option Nat) (evs : List SEv) : Mon C08St := Mon.run limit checkC08 [] evs

/-! ### C09 (server) — transport failures are reported through the stream -/

abbrev C09St := Option Activity

def checkC09 (_ : Book) (exp : C09St) : SEv → C09St × Option String
  | .op _ => (none, none)
  | .obs (.tReady _ .err) => (exp.orElse fun _ => some .ready, none)
  | .obs (.tFlush _ .err) => (exp.orElse fun _ => some .flush, none)
  | .obs (.tNext _ .err) => (exp.orElse fun _ => some .read, none)
  | .obs (.tSend _ _ false) => (exp.orElse fun _ => some .write, none)
  | .obs (.ret (.server _) (.readyItemErr a)) =>
      if exp == some a then (exp, none) else (exp, some s!"stream reported error tag {repr a}, expected {repr exp}")
  | .obs (.ret (.server _) r) =>
      if exp.isSome && r != .pending then (exp, some "a transport failure in this poll was not reported through the stream") else (exp, none)
  | .obs (.panic _ site) => (exp, some s!"panic: {site}")
  | _ => (exp, none)

def monC09 (limit : Option Nat) (evs : List SEv) : Mon C09St := Mon.run limit checkC09 none evs

/-! ### C10 (server) and C11 (server) — orderly end; tracked state bounded and reclaimed -/

def Book.expectedTracked (b : Book) : Nat := b.sweep.table.length

def checkC11 (b : Book) (_ : Unit) : SEv → Unit × Option String
  | .obs (.counts (.server _) inflight timers) =>
      if inflight != timers then ((), some s!"{inflight} tracked requests but {timers} armed timers")
      else if b.streamDone && inflight != 0 then ((), some s!"request stream ended with {inflight} requests in flight")
      else if !b.failed && inflight > b.table.length then
        ((), some s!"{inflight} requests reported in flight, only {b.table.length} yielded requests can still be tracked")
      else if b.stalled && !b.failed && inflight > b.sweep.table.length then
        ((), some s!"limiter at its limit and sink not ready: {inflight} reported in flight, only {b.sweep.table.length} yielded request(s) unfinished (cancellations / expirations are not processed until the sink is ready)")
      else if b.idleNow && inflight != b.table.length && !b.reuseTainted then
        ((), some s!"channel idle: {inflight} reported in flight, {b.table.length} yielded requests unanswered, uncancelled, unexpired and not abandoned")
      else ((), none)
  | _ => ((), none)

def monC11 (limit : Option Nat) (evs : List SEv) : Mon Unit := Mon.run limit checkC11 () evs

/-- State: number of items written to the sink and not yet covered by a completed flush. -/
def checkC10 (b : Book) (unflushed : Nat) : SEv → Nat × Option String
  | .obs (.tSend _ _ true) => (unflushed + 1, none)
  | .obs (.tFlush _ .ready) => (0, none)
  | .obs (.ret (.server _) .readyNone) =>
      if !b.eofSeen then (unflushed, some "request stream ended although the inbound side had not ended")
      else if unflushed != 0 then
        (unflushed, some s!"request stream ended with {unflushed} written response(s) not yet flushed")
      else (unflushed, none)
  | _ => (unflushed, none)

def monC10 (limit : Option Nat) (evs : List SEv) : Mon Nat := Mon.run limit checkC10 0 evs

/-! ### C12 — per-channel request limit throttles exactly the excess -/

def checkC12 (b : Book) (yieldedNow : Bool) : SEv → Bool × Option String
  | .op _ => (false, none)
  | .obs (.yielded _ _ _ _) => (true, none)
  | .obs (.counts (.server _) inflight _) =>
      match b.limit with
      | some l =>
          if yieldedNow && inflight > l then (yieldedNow, some s!"request handed out with {inflight - 1} already in flight, limit {l}")
          else (yieldedNow, none)
      | none => (yieldedNow, none)
  | .obs (.tSend _ (.response id (.err k)) _) =>
      -- a throttle reply: the request read last, answered without being offered
      match b.limit with
      | some l =>
          if b.justRead == some id && k == throttleKindIdx then
            if b.table.length < l then
              -- the known over-throttle: the limit test is made before the inner poll, which may first
              -- process cancellations / expirations and only then read the request
              -- (known finding only if the yielded-and-unfinished requests really were at the limit when the
              -- poll began; a count that is merely stale — entries the channel failed to reclaim — is not it)
              let how := if b.tableAtPollStart ≥ l && b.lastCounts ≥ l then " (the channel was at its limit when this poll began and dropped below it before the request was read)" else ""
              (yieldedNow, some s!"request id {id} refused with only {b.table.length} request(s) in flight, limit {l}{how}")
            else (yieldedNow, none)
          else (yieldedNow, none)
      | none => (yieldedNow, none)
  | _ => (yieldedNow, none)

def monC12 (limit : Option Nat) (evs : List SEv) : Mon Bool := Mon.run limit checkC12 false evs

/-! ### C14 (server) — the transport contract -/

def checkC14 (_ : Book) (s : Client.C14St) : SEv → Client.C14St × Option String
  | .op _ => ({ s with readyP := 0 }, none)
  | .obs o => Client.checkC14Obs s o

def monC14 (limit : Option Nat) (evs : List SEv) : Mon Client.C14St := Mon.run limit checkC14 {} evs

/-! ### C18 (server) and C07 (in-memory hop) — what the handler is given -/

def checkC18 (b : Book) (_ : Unit) : SEv → Unit × Option String
  | .obs (.yielded r id d tr) =>
      match b.reqReads.reverse.find? (·.1 == id) with
      | some (_, d', tr', _) =>
          if tr.traceId != tr'.traceId then ((), some s!"handler {r} sees trace id {tr.traceId}, request carried {tr'.traceId}")
          else if tr.sampled != tr'.sampled then ((), some s!"handler {r} sees a different sampling decision")
          else if tr.span == tr'.span then ((), some s!"handler {r} reuses the request's span id")
          else if b.execs.any (·.trace.span == tr.span) then ((), some s!"handler {r} shares its span id with another request")
          else if d != d' then ((), some s!"handler {r} sees deadline {d}, request carried {d'}")
          else ((), none)
      | none => ((), none)
  | _ => ((), none)

def monC18 (limit : Option Nat) (evs : List SEv) : Mon Unit := Mon.run limit checkC18 () evs

end TarpcModel.Server

import TarpcModel.Sim.Obs
/-!
# C16 on the system families: no task ever panics

The client (`cli`) and server (`srv`) families run the real endpoints under `catch_unwind`; a panic of the
dispatch, of a call, of the channel's stream or of a handler is recorded as an `Obs.panic`.  C16 demands that no
peer-supplied message and no caller-supplied deadline produces one.  The monitor is this one-line predicate; the
theorems `C16_client_no_panic` / `C16_server_no_panic` state that the models never emit the observation.
-/
namespace TarpcModel

/-- The reason a trace is rejected by C16, if this observation is a panic. -/
def panicOf : Obs → Option String
  | .panic _ site => some s!"an endpoint task panicked: {site}"
  | _ => none

/-- First panic in a list of observations. -/
def firstPanic (os : List Obs) : Option String := os.findSome? panicOf

end TarpcModel

import TarpcModel.Limits.ChannelsPerKey
/-
C13 monitor: a decidable predicate over the observation stream of a `MaxChannelsPerKey`
(model or implementation).  It reconstructs the set of live yielded channels from
`yielded`/`closed` events and checks
  * after every `yielded c k`: live channels with key `k` ≤ n,
  * at every `shed c k`: live channels with key `k` ≥ n (shed only when full).
"Every closed channel frees capacity" is the second clause read contrapositively: a close that
failed to free capacity would make a later arrival be shed with fewer than `n` alive.
-/
namespace TarpcModel.CPK

structure MonSt where
  alive : List (Nat × Nat) := []     -- (chan, key)
  ok    : Bool := true
  why   : String := ""
deriving Repr

def countKey (k : Nat) (l : List (Nat × Nat)) : Nat := (l.filter (fun e => e.2 == k)).length

def monStep (n : Nat) (m : MonSt) : Obs → MonSt
  | .yielded c k =>
      let alive := m.alive ++ [(c, k)]
      let good := decide (countKey k alive ≤ n)
      { alive := alive, ok := m.ok && good,
        why := if m.ok && !good then s!"yield chan={c} key={k}: {countKey k alive} alive > n={n}" else m.why }
  | .shed c k =>
      let good := decide (n ≤ countKey k m.alive)
      { alive := m.alive, ok := m.ok && good,
        why := if m.ok && !good then s!"shed chan={c} key={k}: only {countKey k m.alive} alive < n={n}" else m.why }
  | .closed c => { m with alive := m.alive.filter (fun e => e.1 != c) }
  | _ => m

def mon (n : Nat) (obs : List Obs) : MonSt := obs.foldl (monStep n) {}

end TarpcModel.CPK

import TarpcModel.Context
/-
C07 monitor: a decidable predicate over the observation stream of the `c07` family (model or
implementation).  Every observation line carries the inputs it was measured from, so the monitor is
stateless: each line is judged on its own.

* `deadline seen codec d send recv` (one hop; in a chain `d` is what the calling handler held):
    - `send ≤ recv` (a measured hop),
    - serialising codecs: `seen = max d send + (recv - send)` (the model's prediction), and, checked
      separately, `d ≤ seen` (never earlier), `recv ≤ seen` (an expired deadline arrives as "now",
      never in the receiver's past), `seen ≤ d + transit` when the deadline had not passed at `send`,
      `seen = recv` when it had;
    - in-memory transport: `seen = d`.
* `default seen recv`: `seen = recv + defaultDeadlineSecs` seconds.
* `chain final codec d hops`: the hops are causally ordered, `final` is the model's chain value, is
  never earlier than `d`, and for serialising codecs equals `max (d + accumulated transit) (last
  receive)`; for the in-memory transport it equals `d`.
-/
namespace TarpcModel.Ctx

def checkHop (seen : Nat) (c : Codec) (d s r : Nat) : Bool :=
  decide (s ≤ r) &&
  (if c.serialises then
     decide (seen = max d s + (r - s)) &&
     decide (d ≤ seen) &&
     decide (r ≤ seen) &&
     (decide (d < s) || decide (seen ≤ d + (r - s))) &&
     (decide (s < d) || decide (seen = r))
   else decide (seen = d))

def checkDefault (seen r : Nat) : Bool :=
  decide (seen = r + Gen.defaultDeadlineSecs * nsPerSec)

def checkChain (final : Nat) (c : Codec) (d : Nat) (hops : List (Nat × Nat)) : Bool :=
  orderedB 0 hops &&
  decide (final = chainVia c d hops) &&
  decide (d ≤ final) &&
  (if c.serialises then decide (final = max (d + totalTransit hops) (lastRecv 0 hops))
   else decide (final = d))

def check : Obs → Bool
  | .deadline seen c d s r => checkHop seen c d s r
  | .dflt seen r => checkDefault seen r
  | .chain final c d hops => checkChain final c d hops
  | .noop => true

def describe : Obs → String
  | .deadline seen c d s r =>
      if c.serialises then
        s!"hop d={d} send={s} recv={r}: handler deadline {seen} is not max(d,send)+(recv-send) within [d, d+transit]"
      else s!"in-memory hop d={d} send={s} recv={r}: handler deadline {seen} differs from the caller's"
  | .dflt seen r => s!"default at recv={r}: deadline {seen} is not recv+{Gen.defaultDeadlineSecs}s"
  | .chain final _ d hops =>
      s!"chain d={d} hops={hops.length}: final deadline {final} is not max(d+transit, last receive) or hops unordered"
  | .noop => "noop"

structure MonSt where
  ok  : Bool := true
  why : String := ""
deriving Repr

def monStep (m : MonSt) (o : Obs) : MonSt :=
  if check o then m
  else { ok := false, why := if m.ok then describe o else m.why }

def mon (obs : List Obs) : MonSt := obs.foldl monStep {}

end TarpcModel.Ctx

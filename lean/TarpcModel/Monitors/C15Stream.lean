import TarpcModel.Wire.Frame
import TarpcModel.Wire.Queue
/-
C15 (stream level) monitors: decidable predicates over the observation stream of the `c15frame` and
`c15e2e` families (model or implementation).

`c15frame`: the monitor is phrased with the *encoder* (`frame`), not with the decoder model.  It keeps the
bytes that were fed and are not yet accounted for by an emitted frame and checks
  * `frame p`      : the unaccounted bytes start with `frame p` and `|p| ≤ max`  (whole, unmodified, in order);
  * next `fed …`   : the decoder was not sitting on a complete frame (or an oversize header) when the
                     previous chunk had been processed  (nothing is withheld);
  * `error oversize`: the unaccounted bytes start with a length prefix `> max`;
  * `eof`          : nothing unaccounted — or exactly one header of a non-empty frame, the tokio-util
                     behaviour documented in `Props/C15Stream.lean` (`tolerateEofAfterHeader`);
  * `error truncated`: something unaccounted, not a complete frame;
  * `wire bs`      : (encoder) `bs = frame p` for the `p` it carries, `|p| ≤ max`.

`c15e2e`: the monitor keeps the list of accepted-but-not-yet-delivered items and checks order,
completeness, end-of-stream placement, capacity and that losses only hit unflushed items.
-/
namespace TarpcModel.Wire

/-! ### c15frame -/

inductive FObs where
  | fed (bs : List UInt8)
  | frame (p : Payload)
  | errOversize
  | errTruncated
  | eof
  | wire (bs : List UInt8)
  | errTooLong (len : Nat)
  | noop
deriving Repr, DecidableEq

structure FMon where
  max  : Nat
  tolerateEofAfterHeader : Bool := true
  rem  : List UInt8 := []
  dead : Bool := false          -- an error or EOF was reported: nothing but `noop` may follow
  ok   : Bool := true
  why  : String := ""
deriving Repr

def FMon.fail (m : FMon) (why : String) : FMon :=
  if m.ok then { m with ok := false, why := why } else m

/-- The length announced by the first four bytes, if there are four. -/
def headerLen : List UInt8 → Option Nat
  | b0 :: b1 :: b2 :: b3 :: _ => some (be32Val b0 b1 b2 b3)
  | _ => none

/-- A complete acceptable frame, or an oversize header, is at the front: the decoder must act. -/
def actionable (max : Nat) (rem : List UInt8) : Bool :=
  match headerLen rem with
  | some n => decide (max < n) || decide (n + 4 ≤ rem.length)
  | none => false

def isPrefix : List UInt8 → List UInt8 → Bool
  | [], _ => true
  | _ :: _, [] => false
  | a :: as, b :: bs => a == b && isPrefix as bs

def fmonStep (m : FMon) (o : FObs) : FMon :=
  match o with
  | .wire bs =>
      let p := bs.drop 4
      if bs == frame p && decide (p.length ≤ m.max) then m
      else m.fail "encoder output is not be32(len) ++ payload within max"
  | .errTooLong len =>
      if m.max < len then m else m.fail s!"encoder refused a payload of {len} ≤ max bytes"
  | .noop => m
  | _ =>
    if m.dead then m.fail "output after the stream had ended or failed" else
    match o with
    | .fed bs =>
        if actionable m.max m.rem then
          (m.fail "decoder withheld a complete frame (or an oversize header) until more bytes came")
        else { m with rem := m.rem ++ bs }
    | .frame p =>
        if isPrefix (frame p) m.rem && decide (p.length ≤ m.max) then
          { m with rem := m.rem.drop (p.length + 4) }
        else m.fail "emitted frame is not the next frame of the byte stream"
    | .errOversize =>
        match headerLen m.rem with
        | some n => if m.max < n then { m with dead := true }
                    else { m with dead := true }.fail "oversize error on an acceptable length"
        | none => { m with dead := true }.fail "oversize error without a complete header"
    | .errTruncated =>
        if m.rem.isEmpty then { m with dead := true }.fail "truncation error on a clean boundary"
        else if actionable m.max m.rem then { m with dead := true }.fail "truncation error with a complete frame pending"
        else { m with dead := true }
    | .eof =>
        if m.rem.isEmpty then { m with dead := true }
        else if m.tolerateEofAfterHeader && m.rem.length == 4 && !actionable m.max m.rem then
          { m with dead := true }
        else { m with dead := true }.fail "clean EOF with a partial frame buffered"
    | _ => m

/-! ### c15e2e -/

structure PMon where
  cfg      : PipeCfg
  inflight : List String := []   -- accepted, not yet delivered (oldest first)
  unflushed : Nat := 0           -- how many of the newest of them are still in the write buffer
  writer   : Writer := .opened
  ended    : Bool := false       -- `eof` was reported
  ok       : Bool := true
  why      : String := ""
deriving Repr

def PMon.fail (m : PMon) (why : String) : PMon :=
  if m.ok then { m with ok := false, why := why } else m

def PMon.eofVisible (m : PMon) : Bool :=
  match m.writer with
  | .opened => false
  | .closed => m.cfg.closeSignals
  | .dropped => true

def pmonStep (m : PMon) (o : PObs String) : PMon :=
  match o with
  | .sent a =>
      let m := if m.writer = .opened then m else m.fail "item accepted by a closed or dropped writer"
      let m := { m with inflight := m.inflight ++ [a],
                        unflushed := if m.cfg.buffered then m.unflushed + 1 else 0 }
      match m.cfg.cap with
      | some c => if m.inflight.length ≤ c + 1 then m else m.fail s!"more than cap+1 = {c + 1} items in flight"
      | none => m
  | .full =>
      match m.cfg.cap with
      | some c => if c < m.inflight.length then m else m.fail "sender not ready although the channel is not over capacity"
      | none => m.fail "unbounded transport reported not-ready"
  | .flushed => { m with unflushed := 0 }
  | .recv a =>
      let m := if m.ended then m.fail "item delivered after end-of-stream" else m
      -- a receive pumps the writer (if it is still there) first
      let m := if m.writer = .opened then { m with unflushed := 0 } else m
      match m.inflight with
      | b :: rest =>
          if a == b then { m with inflight := rest }
          else { m with inflight := rest }.fail s!"delivered {a} but the oldest undelivered item is {b}"
      | [] => m.fail s!"delivered {a} which was never sent (or was already delivered)"
  | .pending =>
      if !m.inflight.isEmpty then m.fail "reader pending although an item is in flight"
      else if m.eofVisible then m.fail "reader pending although the writer is gone" else m
  | .eof =>
      if !m.eofVisible then { m with ended := true }.fail "end-of-stream while the writer is still there"
      else if !m.inflight.isEmpty then { m with ended := true }.fail "end-of-stream before the last item was delivered"
      else { m with ended := true }
  | .closed => { m with writer := .closed, unflushed := 0 }
  | .dropped lost =>
      let m := if lost ≤ m.unflushed then m else m.fail "dropping the writer lost items that had been flushed"
      { m with writer := .dropped, unflushed := 0, inflight := m.inflight.take (m.inflight.length - lost) }
  | .noop => m

end TarpcModel.Wire

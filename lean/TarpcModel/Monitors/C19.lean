import TarpcModel.Hooks
/-
C19 monitor: decidable predicates over the observations of one `Serve::serve` call through a stack of
request-hook wrappers (model or implementation).  The observations of a call are: the stack that was
built and the initial context / request (`call`), every hook / handler invocation in order (`Event`),
and the response that came out (`result`).

* `shapeOk` (needs no knowledge of the stack): the invocations are
  `passing before-hooks*  (handler | failing before-hook)  after-hooks*`;
  so after a failing before-hook no other before-hook and no handler runs, and its error `err tag`
  is what the next after-hook sees or, if no after-hook follows, the response.
* `conforms` (per wrapper, following the stack): each before-hook sees the context left by the
  before-hooks outside / to the left of it, a failing one ends the call of its wrapper with its
  error, an after-hook is the last invocation of its wrapper, sees the context its wrapper received
  (`after`) resp. its own before part produced (`both`) and the result of what it wraps, and the
  response of the wrapper is what the hook left.
-/
namespace TarpcModel.Hooks

inductive Phase where
  | down                 -- before-hooks are still running, no result yet
  | failed (e : Nat)     -- a before-hook failed with `e`; no after-hook has run since
  | up                   -- handler or after-hooks have produced / seen the result
deriving Repr, DecidableEq

def shapeStep : Option Phase → Event → Option Phase
  | some .down, .before _ _ _ false => some .down
  | some .down, .before t _ _ true => some (.failed t)
  | some .down, .handler _ _ _ => some .up
  | some (.failed e), .after _ _ r => if r = .err e then some .up else none
  | some .up, .after _ _ _ => some .up
  | _, _ => none

def shapeRun (p : Option Phase) (evs : List Event) : Option Phase := evs.foldl shapeStep p

def shapeOk (evs : List Event) (r : Res) : Bool :=
  match shapeRun (some .down) evs with
  | some .up => true
  | some (.failed e) => r == .err e
  | _ => false

/-- Before-hooks of a cons-list against the events; `k` continues with the context they leave and
the remaining events when all of them pass. -/
def conformsList (q : Req) (r : Res) (k : Ctx → List Event → Bool) :
    List Hook → Ctx → List Event → Bool
  | [], c, evs => k c evs
  | h :: hs, c, evs =>
      match evs with
      | .before t c' q' f :: rest =>
          t == h.tag && c' == c && q' == q && f == h.fail &&
            (if h.fail then rest == [] && r == .err h.tag
             else conformsList q r k hs (h.edit.apply c) rest)
      | _ => false

/-- Do the invocations `evs` and the response `r` conform to the stack `s` called with `c`, `q`? -/
def conforms : Serve → Ctx → Req → List Event → Res → Bool
  | .leaf t r0, c, q, evs, r => evs == [.handler t c q] && r == r0
  | .before h s, c, q, evs, r =>
      match evs with
      | .before t c' q' f :: rest =>
          t == h.tag && c' == c && q' == q && f == h.fail &&
            (if h.fail then rest == [] && r == .err h.tag
             else conforms s (h.edit.apply c) q rest r)
      | _ => false
  | .beforeList hs s, c, q, evs, r =>
      conformsList q r (fun c' rest => conforms s c' q rest r) hs c evs
  | .after s h, c, q, evs, r =>
      match evs.getLast? with
      | some (.after t c' rin) =>
          t == h.tag && c' == c && r == h.redit.apply rin && conforms s c q evs.dropLast rin
      | _ => false
  | .both h s, c, q, evs, r =>
      match evs with
      | .before t c' q' f :: rest =>
          t == h.tag && c' == c && q' == q && f == h.fail &&
            (if h.fail then rest == [] && r == .err h.tag
             else
               match rest.getLast? with
               | some (.after t2 c2 rin) =>
                   t2 == h.tag && c2 == h.edit.apply c && r == h.redit.apply rin &&
                     conforms s (h.edit.apply c) q rest.dropLast rin
               | _ => false)
      | _ => false

/-- Monitor state: the call being observed and its invocations so far (newest first). -/
structure MonSt where
  cur  : Option (Serve × Ctx × Req) := none
  evs  : List Event := []
  ok   : Bool := true
  why  : String := ""
deriving Repr

inductive Obs where
  | call (s : Serve) (c : Ctx) (q : Req)
  | ev (e : Event)
  | result (r : Res)
deriving Repr

def monFail (m : MonSt) (why : String) : MonSt :=
  { m with ok := false, why := if m.ok then why else m.why }

def monStep (m : MonSt) : Obs → MonSt
  | .call s c q =>
      let m := if m.cur.isSome then monFail m "call without result" else m
      { m with cur := some (s, c, q), evs := [] }
  | .ev e =>
      match m.cur with
      | some _ => { m with evs := e :: m.evs }
      | none => monFail m "invocation outside a call"
  | .result r =>
      match m.cur with
      | none => monFail m "result outside a call"
      | some (s, c, q) =>
          let evs := m.evs.reverse
          let m := { m with cur := none, evs := [] }
          if !shapeOk evs r then
            monFail m "shape: not before-ok* (handler|before-fail) after*, or a before-hook's error was not what the next after-hook / the caller saw"
          else if !conforms s c q evs r then
            monFail m "invocations / response do not conform to the wrapper stack (order, context seen, result seen, response)"
          else m

def mon (obs : List Obs) : MonSt := obs.foldl monStep {}

/-- End of stream: a call still waiting for its result is rejected. -/
def monVerdictOk (m : MonSt) : Bool := m.ok && m.cur.isNone

/-- The observations the model produces for one call. -/
def callObs (s : Serve) (c : Ctx) (q : Req) : List Obs :=
  .call s c q :: ((eval s c q).1.map .ev ++ [.result (eval s c q).2])

/-- The observations of a sequence of calls, as the driver prints them. -/
def callsObs : List (Serve × Ctx × Req) → List Obs
  | [] => []
  | x :: xs => callObs x.1 x.2.1 x.2.2 ++ callsObs xs

end TarpcModel.Hooks

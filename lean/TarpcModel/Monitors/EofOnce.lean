import TarpcModel.Monitors.Server
/-!
# C10 (server), supplementary clause: a finished inbound stream is not polled again

`BaseChannel` wraps its transport in `Fuse`: once the inbound side has reported end-of-stream it is never polled
again (the `Stream` contract leaves a second poll undefined: some streams panic, some stay `Pending` for ever, and the
channel would then die or never end instead of "keeping running until every in-flight request has been answered").
The checker sees the book *before* the event, so a second end-of-stream observation finds `eofSeen` already set.
-/
namespace TarpcModel.Server

def checkEofOnce (b : Book) (_ : Unit) : SEv → Unit × Option String
  | .obs (.tNext _ .eof) =>
      if b.eofSeen then ((), some "the inbound stream was polled again after it had reported its end") else ((), none)
  | _ => ((), none)

def monEofOnce (limit : Option Nat) (evs : List SEv) : Mon Unit := Mon.run limit checkEofOnce () evs

end TarpcModel.Server

import TarpcModel.Macro
/-
C17 monitors: decidable predicates over the observation stream (model or implementation).

* `camelOk` (family `c17camel`): a `snake_to_camel` result over `[A-Za-z0-9_]` inputs has no underscore
  and does not start with a lower-case letter.
* `monStep` / `mon` (family `c17svc`): after each `called i svc m ctx args` the following observations of
  that invocation must say: the request's name is `<svc>.<m>` as written; the request variant is
  `snakeToCamel (unraw m)` and its field values are `args` in order; the implementor that ran is method `i`
  with the same context and the same arguments in the same order; the caller got what it returned.
-/
namespace TarpcModel.Macro

def camelOk (r : Name) : Bool :=
  !r.contains '_' && (match r with | [] => true | c :: _ => !c.isLower)

structure MonSt (V C : Type) where
  cur : Option (Nat × Ident × Ident × C × List V) := none
  ret : Option V := none
  ok : Bool := true
  why : String := ""

def MonSt.fail {V C : Type} (m : MonSt V C) (good : Bool) (msg : String) : MonSt V C :=
  { m with ok := m.ok && good, why := if m.ok && !good then msg else m.why }

def monStep {V C : Type} [DecidableEq V] [DecidableEq C] (m : MonSt V C) : Obs V C → MonSt V C
  | .called i svc meth ctx args => { m with cur := some (i, svc, meth, ctx, args), ret := none }
  | .name n =>
    match m.cur with
    | none => m.fail false "name without a call"
    | some (_, svc, meth, _, _) =>
      m.fail (decide (n = svc.printed ++ dot ++ meth.printed)) "request name is not <Service>.<method>"
  | .request v fields =>
    match m.cur with
    | none => m.fail false "request without a call"
    | some (_, _, meth, _, args) =>
      (m.fail (decide (v = snakeToCamel meth.name)) "request variant is not the method's camel-case name").fail
        (decide (fields.map (·.2) = args)) "request fields are not the call's arguments in order"
  | .ran j ctx' r args' =>
    match m.cur with
    | none => m.fail false "implementor ran without a call"
    | some (i, _, _, ctx, args) =>
      let m := ((m.fail (decide (j = i)) "a different implementor method ran").fail
        (decide (ctx' = ctx)) "the implementor saw a different context").fail
        (decide (args' = args)) "the implementor saw different arguments or a different order"
      { m with ret := some r }
  | .returned v =>
    match m.cur, m.ret with
    | some _, some r => m.fail (decide (v = r)) "the caller got a different value than the implementor returned"
    | _, _ => m.fail false "return without an invocation"
  | .noop => m

def mon {V C : Type} [DecidableEq V] [DecidableEq C] (obs : List (Obs V C)) : MonSt V C :=
  obs.foldl monStep {}

end TarpcModel.Macro

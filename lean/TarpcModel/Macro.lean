import TarpcModel.Gen.ReservedNames
/-
C17 model of `#[tarpc::service]` (`/repo/plugins/src/lib.rs`).

* A service definition is data (`Service`): identifiers as written (`raw` flag + text without the
  `r#` prefix), ordered methods with ordered arguments, optional return type, `cfg` switch.
* `snakeToCamel` mirrors the loop of `fn snake_to_camel` (lib.rs 827-844).
* `generate` mirrors what `ServiceGenerator` emits, as *name tables* (`Glue`): the macro never links a
  client method to a server arm directly — both mention the request variant, the response variant, the
  trait method and the argument identifiers **by name**, and rustc resolves the names.  The functions
  `clientBuild`, `serverDispatch`, `requestName`, `clientUnwrap` below are that name resolution
  (first matching arm / first item with the name), so "method m is connected to itself" is a theorem
  about the tables (Props/C17.lean), not something true by construction.
* `accepted` = parser checks (`Service::parse`, `RpcMethod::parse`) ∧ the identifier check of
  `Ident::new` inside the macro ∧ what rustc enforces on the output (`rustcOk`, trusted base, each clause
  established by experiment against the real compiler, see the comments).

Character coverage: `Char.toUpper` / `Char.toLower` change only ASCII letters; Rust's
`char::to_uppercase` / `to_lowercase` agree with them on every ASCII character.  The model therefore
covers identifiers over ASCII (the harness generator uses `[A-Za-z0-9_]`); non-ASCII identifiers, where
Rust may produce multi-character expansions, are outside the model.
-/
namespace TarpcModel.Macro

abbrev Name := List Char

/-! ## snake_to_camel (lib.rs 827-844) -/

/-- The loop body: `last` is `last_char_was_underscore`. -/
def camelAux : Bool → Name → Name
  | _, [] => []
  | last, c :: cs =>
    if c = '_' then camelAux true cs
    else if last then c.toUpper :: camelAux false cs
    else c.toLower :: camelAux false cs

/-- `snake_to_camel`: the flag starts out `true`. -/
def snakeToCamel (s : Name) : Name := camelAux true s

/-! ## Service definitions as data -/

/-- An identifier as written: `r#type` is `⟨true, "type"⟩`.  `name` is `Ident::unraw()`. -/
structure Ident where
  raw : Bool
  name : Name
deriving DecidableEq, Repr

/-- `Display` of a `proc_macro2::Ident` (what `format!("{ident}")` prints): raw identifiers keep `r#`. -/
def Ident.printed (i : Ident) : Name := if i.raw then 'r' :: '#' :: i.name else i.name

inductive Ty where
  | u8 | i32 | u64 | string | bool | unit | vecU8 | optU32
deriving DecidableEq, Repr

/-- Shape of one `FnArg`.  `plain` is `x: T`; `decorated` is a `Pat::Ident` that is not a bare
identifier (`mut x`, `ref x`, `x @ p`) — the parser lets it through; `pattern` is any other pattern
(`(a, b)`, `_`); `receiver` is `self`, `&self`, `self: T`. -/
inductive ArgKind where
  | plain | decorated | pattern | receiver
deriving DecidableEq, Repr

structure Arg where
  kind : ArgKind
  ident : Ident
  ty : Ty
deriving DecidableEq, Repr

/-- `#[cfg(..)]` on a method: absent, one that holds (`cfg(all())`), one that does not (`cfg(any())`). -/
inductive Cfg where
  | none | on | off
deriving DecidableEq, Repr

structure Method where
  ident : Ident
  args : List Arg
  ret : Option Ty
  cfg : Cfg
deriving DecidableEq, Repr

def Method.active (m : Method) : Bool := m.cfg != .off

/-- `derive` is the index of the `#[tarpc::service(..)]` option used; the glue does not depend on it. -/
structure Service where
  ident : Ident
  derive : Nat
  methods : List Method
deriving DecidableEq, Repr

/-! ## The generator: name tables -/

def Method.variant (m : Method) : Name := snakeToCamel m.ident.name
def Method.argNames (m : Method) : List Name := m.args.map (·.ident.name)

/-- One `#request_ident::#camel{ #args }` variant (cfg attributes copied). -/
structure ReqVariant where
  name : Name
  fields : List Name
  active : Bool
deriving DecidableEq, Repr

/-- One arm of `RequestName::name` (cfg attributes copied). -/
structure NameArm where
  variant : Name
  str : Name
  active : Bool
deriving DecidableEq, Repr

/-- One arm of `Serve::serve`: `Req::variant{ binds } => Ok(Resp::respVariant(Svc::method(self.service,
ctx, passes).await))` (cfg attributes copied). -/
structure ServerArm where
  variant : Name
  binds : List Name
  method : Name
  passes : List Name
  respVariant : Name
  active : Bool
deriving DecidableEq, Repr

/-- One client method: `fn method(&self, ctx, params) { let request = Req::variant{ inits }; ...
match resp { Resp::respVariant(msg) => Ok(msg), _ => unreachable!() } }` (all method attributes copied). -/
structure ClientMethod where
  method : Name
  params : List Name
  variant : Name
  inits : List Name
  respVariant : Name
  active : Bool
deriving DecidableEq, Repr

structure Glue where
  /-- trait methods: name and whether the cfg keeps it -/
  traitMethods : List (Name × Bool)
  requestVariants : List ReqVariant
  /-- the response enum copies **no** cfg attributes: one variant per method, always -/
  responseVariants : List Name
  nameArms : List NameArm
  serverArms : List ServerArm
  clientMethods : List ClientMethod
deriving DecidableEq, Repr

def dot : Name := ['.']

/-- `format!("{ident}.{m}")` with both identifiers as written. -/
def requestNameStr (s : Service) (m : Method) : Name := s.ident.printed ++ dot ++ m.ident.printed

def generate (s : Service) : Glue where
  traitMethods := s.methods.map fun m => (m.ident.name, m.active)
  requestVariants := s.methods.map fun m => ⟨m.variant, m.argNames, m.active⟩
  responseVariants := s.methods.map (·.variant)
  nameArms := s.methods.map fun m => ⟨m.variant, requestNameStr s m, m.active⟩
  serverArms := s.methods.map fun m => ⟨m.variant, m.argNames, m.ident.name, m.argNames, m.variant, m.active⟩
  clientMethods := s.methods.map fun m => ⟨m.ident.name, m.argNames, m.variant, m.argNames, m.variant, m.active⟩

/-! ## Name resolution: what the generated items do once rustc has resolved the names -/

/-- Index of the first element satisfying `p` (a `match` takes the first matching arm; name lookup
finds the item with that name). -/
def firstIdx {α : Type} (p : α → Bool) : List α → Option Nat
  | [] => none
  | a :: as => if p a then some 0 else (firstIdx p as).map (· + 1)

/-- The binding with that name (bindings of one pattern / parameter list). -/
def lookup {V : Type} (n : Name) : List (Name × V) → Option V
  | [] => none
  | (k, v) :: rest => if k = n then some v else lookup n rest

def lookupAll {V : Type} (env : List (Name × V)) : List Name → Option (List V)
  | [] => some []
  | n :: ns =>
    match lookup n env, lookupAll env ns with
    | some v, some vs => some (v :: vs)
    | _, _ => none

/-- A request value: variant name and named fields. -/
structure Req (V : Type) where
  variant : Name
  fields : List (Name × V)
deriving DecidableEq, Repr

/-- A response value: variant name and payload. -/
structure Resp (V : Type) where
  variant : Name
  val : V
deriving DecidableEq, Repr

/-- Client method number `i` called with positional arguments: parameters are bound positionally, the
request variant's fields are initialised from the bindings **by name** (`Variant { a, b }` shorthand). -/
def clientBuild {V : Type} (g : Glue) (i : Nat) (args : List V) : Option (Req V) :=
  match g.clientMethods[i]? with
  | none => none
  | some cm =>
    if cm.active = true ∧ args.length = cm.params.length then
      match lookupAll (cm.params.zip args) cm.inits with
      | some vals => some ⟨cm.variant, cm.inits.zip vals⟩
      | none => none
    else none

/-- `Serve::serve`: first active arm whose variant is the request's; the pattern binds the fields by
name; the trait method is found by name among the trait's (active) methods and receives the bindings
listed in `passes`, in that order.  Result: (trait method index, arguments, response variant used). -/
def serverDispatch {V : Type} (g : Glue) (req : Req V) : Option (Nat × List V × Name) :=
  match firstIdx (fun a : ServerArm => a.active && decide (a.variant = req.variant)) g.serverArms with
  | none => none
  | some k =>
    match g.serverArms[k]? with
    | none => none
    | some arm =>
      match lookupAll req.fields arm.passes,
            firstIdx (fun t : Name × Bool => t.2 && decide (t.1 = arm.method)) g.traitMethods with
      | some vals, some j => some (j, vals, arm.respVariant)
      | _, _ => none

/-- `RequestName::name`: the string of the first active arm for the request's variant. -/
def requestName {V : Type} (g : Glue) (req : Req V) : Option Name :=
  match firstIdx (fun a : NameArm => a.active && decide (a.variant = req.variant)) g.nameArms with
  | none => none
  | some k => (g.nameArms[k]?).map (·.str)

/-- Client method `i` unwrapping a response: its own variant yields the payload, anything else is
`unreachable!()` (`none`). -/
def clientUnwrap {V : Type} (g : Glue) (i : Nat) (r : Resp V) : Option V :=
  match g.clientMethods[i]? with
  | none => none
  | some cm => if cm.respVariant = r.variant ∧ r.variant ∈ g.responseVariants then some r.val else none

/-- Everything observable about one call through the generated glue. -/
structure CallTrace (V C : Type) where
  request : Req V
  name : Name
  /-- which implementor method ran, with which context and arguments (in order) -/
  ranMethod : Nat
  ranCtx : C
  ranArgs : List V
  /-- what the implementor returned -/
  produced : V
  /-- what the caller got -/
  returned : V
deriving DecidableEq, Repr

/-- An implementor: trait method index, context, arguments ↦ result. -/
abbrev Impl (V C : Type) := Nat → C → List V → V

/-- One whole call: client method `i` builds the request, the channel carries request and context
unchanged (C01-C12 are about the channel), the server arm runs the implementor and wraps, the client
unwraps. -/
def call {V C : Type} (g : Glue) (impl : Impl V C) (i : Nat) (ctx : C) (args : List V) :
    Option (CallTrace V C) :=
  match clientBuild g i args with
  | none => none
  | some req =>
    match requestName g req, serverDispatch g req with
    | some nm, some (j, vals, rv) =>
      let r := impl j ctx vals
      match clientUnwrap g i ⟨rv, r⟩ with
      | some out => some ⟨req, nm, j, ctx, vals, r, out⟩
      | none => none
    | _, _ => none

/-! ## Observations of one invocation (shared by the driver and the monitor) -/

inductive Obs (V C : Type) where
  /-- echo of what the caller did: method index, service and method identifiers, context, arguments -/
  | called (i : Nat) (svc : Ident) (method : Ident) (ctx : C) (args : List V)
  /-- `RequestName::name` of the request the client method built -/
  | name (s : Name)
  /-- the request the client method built (its `Debug`: variant and named fields) -/
  | request (variant : Name) (fields : List (Name × V))
  /-- what the implementor recorded: its method index, context, arguments in order, and its result -/
  | ran (i : Nat) (ctx : C) (ret : V) (args : List V)
  /-- what the caller got back -/
  | returned (v : V)
  | noop
deriving DecidableEq, Repr

/-- The model's prediction for `invoke i ctx args` on service `s` (no-op if there is no such call). -/
def invokeObs {V C : Type} (s : Service) (impl : Impl V C) (i : Nat) (ctx : C) (args : List V) :
    List (Obs V C) :=
  match s.methods[i]?, call (generate s) impl i ctx args with
  | some m, some t =>
    [.called i s.ident m.ident ctx args, .name t.name, .request t.request.variant t.request.fields,
     .ran t.ranMethod t.ranCtx t.produced t.ranArgs, .returned t.returned]
  | _, _ => [.noop]

/-! ## Acceptance -/

/-- Names the parser refuses (`rpc.ident == "new"` / `"serve"`), from the generated table. -/
def reservedNames : List Name := TarpcModel.Gen.reservedMethodNames.map String.toList

def ctxName : Name := ['c', 't', 'x']
def selfVariant : Name := ['S', 'e', 'l', 'f']

/-- `RpcMethod::parse` rejects patterns and receivers; `Service::parse` compares the identifier **as
written** with the reserved names (`r#new` is not caught here). -/
def parserOk (s : Service) : Prop :=
  (∀ m ∈ s.methods, ∀ a ∈ m.args, a.kind ≠ .pattern ∧ a.kind ≠ .receiver) ∧
  (∀ m ∈ s.methods, m.ident.printed ∉ reservedNames)

/-- What `Ident::new` accepts among strings over `[A-Za-z0-9]`: non-empty, not starting with a digit
(otherwise the macro panics: "custom attribute panicked"). -/
def validIdent : Name → Bool
  | [] => false
  | c :: _ => !c.isDigit

/-- `Ident::new(camel, span)` is evaluated for every method, whatever its cfg. -/
def macroOk (s : Service) : Prop := ∀ m ∈ s.methods, validIdent m.variant = true

/-- What rustc enforces on the expansion (trusted; every clause reproduced by a negative program):
* some method survives cfg — otherwise `match self {}` in `name()` is E0004 (`&Request` is inhabited);
* variant names pairwise distinct over **all** methods — the response enum has no cfg (E0428);
* no variant is the keyword `Self`;
* every argument is a bare identifier — `mut x: T` is not a field (syntax error even under a false cfg);
* for methods that survive cfg: the name is not that of a generated fn (`r#new` vs `Client::new` E0592,
  `r#serve` vs `Trait::serve` E0428), argument names are pairwise distinct (E0415/E0124) and none is
  `ctx`, the client fn's own parameter (E0415). -/
def rustcOk (s : Service) : Prop :=
  (∃ m ∈ s.methods, m.active = true) ∧
  (s.methods.map (·.variant)).Nodup ∧
  (∀ m ∈ s.methods, m.variant ≠ selfVariant) ∧
  (∀ m ∈ s.methods, ∀ a ∈ m.args, a.kind ≠ .decorated) ∧
  (∀ m ∈ s.methods, m.active = true →
      m.ident.name ∉ reservedNames ∧ m.argNames.Nodup ∧ ctxName ∉ m.argNames)

/-- The service definitions the attribute macro (and then rustc) accepts. -/
def accepted (s : Service) : Prop := parserOk s ∧ macroOk s ∧ rustcOk s

instance (s : Service) : Decidable (parserOk s) := by unfold parserOk; infer_instance
instance (s : Service) : Decidable (macroOk s) := by unfold macroOk; infer_instance
instance (s : Service) : Decidable (rustcOk s) := by unfold rustcOk; infer_instance
instance (s : Service) : Decidable (accepted s) := by unfold accepted; infer_instance

/-! ## Rejection classes (what the check observes for a rejected program) -/

inductive ParseErr where
  | pattern | receiver | new | serve
deriving DecidableEq, Repr

/-- Errors of one `RpcMethod::parse` (accumulated over the arguments, in order). -/
def argErrs (m : Method) : List ParseErr :=
  m.args.filterMap fun a =>
    match a.kind with
    | .pattern => some .pattern
    | .receiver => some .receiver
    | _ => none

/-- The first method with argument errors aborts the parse (`content.parse()?`). -/
def firstArgErrs : List Method → List ParseErr
  | [] => []
  | m :: ms => if argErrs m = [] then firstArgErrs ms else argErrs m

def nameNew : Name := ['n', 'e', 'w']
def nameServe : Name := ['s', 'e', 'r', 'v', 'e']

/-- The reserved-name loop: per method, `new` then `serve`, errors accumulated. -/
def reservedErrs (s : Service) : List ParseErr :=
  s.methods.flatMap fun m =>
    (if m.ident.printed = nameNew ∧ nameNew ∈ reservedNames then [ParseErr.new] else []) ++
    (if m.ident.printed = nameServe ∧ nameServe ∈ reservedNames then [ParseErr.serve] else [])

inductive Verdict where
  | accepted
  | parser (errs : List ParseErr)
  | macroPanic
  | rustc
deriving DecidableEq, Repr

def classify (s : Service) : Verdict :=
  if firstArgErrs s.methods ≠ [] then .parser (firstArgErrs s.methods)
  else if ¬ parserOk s then .parser (reservedErrs s)
  else if ¬ macroOk s then .macroPanic
  else if ¬ rustcOk s then .rustc
  else .accepted

end TarpcModel.Macro

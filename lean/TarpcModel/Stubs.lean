/-
Model of the client-side stubs
  * `tarpc/src/client/stub/load_balance.rs` — `RoundRobin` (`AtomicCycle::next`: `fetch_add(1) % len`) and
    `ConsistentHash` (`hash_request(req) % stubs_len`),
  * `tarpc/src/client/stub/retry.rs` — `Retry` (`for i in 1.. { result = stub.call(ctx, Arc::clone(&request)).await;
    if should_retry(&result, i) { continue } return result }`).

All three `call`s are `async fn`s: nothing of their body runs until the returned future is polled for the
first time.  For `RoundRobin` that means the ticket (the value returned by `fetch_add`) is taken at the
*first poll* of a call future, not when the future is created; a future dropped before its first poll takes
no ticket.  The op-level model below (`LbSt`, `lbStep`) therefore has separate `call` (create), `poll`
(first poll) and `drop` operations, and concurrency is any interleaving of those.

Core Lean only (this file is linked into the `driver` executable).
-/
namespace TarpcModel.Stubs

/-- Modulus of `usize` / `u64` (64-bit targets): `AtomicUsize::fetch_add` wraps here and hashes live below it. -/
def W : Nat := 2 ^ 64

/-! ## Round robin (`AtomicCycle`) -/

/-- `State { elements, next }` of `AtomicCycle`: only the number of elements and the cursor matter. -/
structure RR where
  n : Nat
  next : Nat := 0
deriving Repr, DecidableEq

def RR.init (n : Nat) : RR := { n := n }

/-- `self.next.fetch_add(1, Ordering::Relaxed)`: returns the old value (the *ticket*), wraps at `usize::MAX`.
A single atomic read-modify-write: two callers never obtain the same ticket, whatever the interleaving. -/
def RR.fetchAdd (s : RR) : RR × Nat := ({ s with next := (s.next + 1) % W }, s.next)

/-- `State::next`: `&self.elements[next % self.elements.len()]`.  `none` = the remainder by zero panics
(empty backend list; outside C20's "non-empty" quantifier, recorded by a witness theorem). -/
def RR.pick (s : RR) : RR × Option Nat :=
  let (s', t) := s.fetchAdd
  (s', if s.n = 0 then none else some (t % s.n))

/-- `N` successive `RoundRobin::call` first polls: the backends chosen, in ticket order. -/
def rrCalls (s : RR) : Nat → RR × List (Option Nat)
  | 0 => (s, [])
  | N + 1 =>
      let (s1, b) := s.pick
      let (s2, l) := rrCalls s1 N
      (s2, b :: l)

/-- Concurrent calls: `order` lists the call ids in the order in which their futures are first polled
(any permutation of the issued calls).  Result: which backend each call was sent to. -/
def rrDispatch (s : RR) : List Nat → RR × List (Nat × Option Nat)
  | [] => (s, [])
  | c :: cs =>
      let (s1, b) := s.pick
      let (s2, l) := rrDispatch s1 cs
      (s2, (c, b) :: l)

/-! ## Consistent hash -/

/-- `ConsistentHash::call`: `usize::try_from(self.hash_request(&request) % self.stubs_len)`.
`hash` stands for `BuildHasher::build_hasher` + `Hash::hash` + `finish` (any function of the request);
`none` = remainder by zero panics (empty backend list). -/
def chIndex {Req : Type} (hash : Req → Nat) (n : Nat) (r : Req) : Option Nat :=
  if n = 0 then none else some (hash r % n)

/-- The deterministic hasher the harness plugs into `ConsistentHash::with_hasher` (requests are `u64`,
whose `Hash` impl is one `write_u64`): `finish() = (x ^ seed).wrapping_mul(0x9E3779B97F4A7C15)`. -/
def verifHash (seed x : Nat) : Nat := ((x ^^^ seed) * 0x9E3779B97F4A7C15) % W

/-! ## Op-level model of a load-balancing stub over recording mock backends -/

inductive Kind where
  | rr | hash
deriving Repr, DecidableEq

structure LbSt where
  kind    : Kind
  rr      : RR                        -- backend count and (for round robin) the cursor
  hseed   : Nat := 0                  -- seed of the harness hasher (consistent hash only)
  nextId  : Nat := 0
  pending : List (Nat × Nat) := []    -- call futures created and not yet polled: (call id, request)
deriving Repr

inductive LbOp where
  | call (req : Nat)      -- `stub.call(ctx, req)`: creates the future, runs nothing
  | poll (id : Nat)       -- first poll of call future `id` (the mock backends answer at once)
  | drop (id : Nat)       -- drop call future `id` without ever polling it
deriving Repr, DecidableEq

inductive LbObs where
  | created (id req : Nat)
  | picked (id backend req : Nat)     -- recorded by mock backend `backend`: it received `req` (for call `id`)
  | panicked (id : Nat)               -- the first poll panicked (remainder by zero)
  | dropped (id : Nat)
  | noop
deriving Repr, DecidableEq

def lookup (k : Nat) : List (Nat × Nat) → Option Nat
  | [] => none
  | (k', v) :: m => if k' = k then some v else lookup k m

def erase (k : Nat) : List (Nat × Nat) → List (Nat × Nat)
  | [] => []
  | (k', v) :: m => if k' = k then erase k m else (k', v) :: erase k m

/-- The body of `RoundRobin::call` / `ConsistentHash::call` up to the delegation. -/
def pickBackend (s : LbSt) (req : Nat) : LbSt × Option Nat :=
  match s.kind with
  | .rr => let (r, b) := s.rr.pick; ({ s with rr := r }, b)
  | .hash => (s, chIndex (verifHash s.hseed) s.rr.n req)

def lbStep (s : LbSt) : LbOp → LbSt × List LbObs
  | .call req =>
      ({ s with pending := s.pending ++ [(s.nextId, req)], nextId := s.nextId + 1 }, [.created s.nextId req])
  | .drop id =>
      match lookup id s.pending with
      | none => (s, [.noop])
      | some _ => ({ s with pending := erase id s.pending }, [.dropped id])
  | .poll id =>
      match lookup id s.pending with
      | none => (s, [.noop])
      | some req =>
          let s := { s with pending := erase id s.pending }
          match pickBackend s req with
          | (s, some b) => (s, [.picked id b req])
          | (s, none) => (s, [.panicked id])

def lbRun (s : LbSt) : List LbOp → LbSt × List LbObs
  | [] => (s, [])
  | op :: ops =>
      let (s', o) := lbStep s op
      let (s'', o') := lbRun s' ops
      (s'', o ++ o')

def lbInit (kind : Kind) (n : Nat) (hseed : Nat := 0) : LbSt := { kind := kind, rr := RR.init n, hseed := hseed }

/-! ## Retry -/

/-- One completed attempt of the retry loop: what the backend was given, what it answered, the attempt
number handed to the policy together with that answer, and the policy's decision. -/
structure Attempt (Req Res : Type) where
  req     : Req
  result  : Res
  attempt : Nat
  retried : Bool
deriving Repr, DecidableEq

/-- `Retry::call` from attempt number `i` on, against a backend that answers with the scripted results
`rs` in order and then never answers.  The script doubles as the fuel of the loop (`for i in 1..` has no
bound of its own): structural recursion on it.  Returns the log of completed attempts and the value
returned to the caller (`none` = the call never completes because the backend stopped answering). -/
def retryLoop {Req Res : Type} (policy : Res → Nat → Bool) (req : Req) :
    Nat → List Res → List (Attempt Req Res) × Option Res
  | _, [] => ([], none)
  | i, r :: rs =>
      if policy r i then
        let (l, o) := retryLoop policy req (i + 1) rs
        (⟨req, r, i, true⟩ :: l, o)
      else ([⟨req, r, i, false⟩], some r)

/-- `Retry::call`: attempt numbers start at 1. -/
def retryCall {Req Res : Type} (policy : Res → Nat → Bool) (req : Req) (rs : List Res) :
    List (Attempt Req Res) × Option Res :=
  retryLoop policy req 1 rs

/-- Backend results used by the driver/harness: `Ok(v)` or the `k`-th error value. -/
inductive Res where
  | ok (v : Nat)
  | err (k : Nat)
deriving Repr, DecidableEq

/-- Scriptable policies: kind 0 = decision table indexed by attempt number (declines beyond the table);
any other kind = "retry errors while `attempt < max`". -/
structure Policy where
  kind  : Nat := 0
  max   : Nat := 0
  table : List Bool := []
deriving Repr

def Policy.eval (p : Policy) (r : Res) (i : Nat) : Bool :=
  if p.kind = 0 then p.table.getD (i - 1) false
  else (match r with | .err _ => true | .ok _ => false) && decide (i < p.max)

structure RtSt where
  policy  : Policy := {}
  results : List Res := []      -- what the mock backend will answer next, in order
deriving Repr

inductive RtOp where
  | result (r : Res)      -- append to the backend's script
  | decide (b : Bool)     -- append to the policy's decision table
  | call (req : Nat)      -- run `Retry::call(ctx, req)` (one poll: the mock answers at once or never)
deriving Repr, DecidableEq

inductive RtObs where
  | start (req : Nat)
  | backend (req : Nat)                                 -- the mock backend received `*request`
  | policy (attempt : Nat) (r : Res) (retry : Bool)     -- `should_retry(&r, attempt)` returned `retry`
  | ret (r : Res)                                       -- `Retry::call` returned `r`
  | stuck                                               -- the backend's script ran out: the call stays pending
deriving Repr, DecidableEq

def attemptObs (a : Attempt Nat Res) : List RtObs := [.backend a.req, .policy a.attempt a.result a.retried]

def flatObs : List (Attempt Nat Res) → List RtObs
  | [] => []
  | a :: l => attemptObs a ++ flatObs l

/-- How a call ends: it returns `r`, or the backend is called once more and never answers. -/
def callTail (q : Nat) : Option Res → List RtObs
  | some r => [.ret r]
  | none => [.backend q, .stuck]

def rtStep (s : RtSt) : RtOp → RtSt × List RtObs
  | .result r => ({ s with results := s.results ++ [r] }, [])
  | .decide b => ({ s with policy := { s.policy with table := s.policy.table ++ [b] } }, [])
  | .call req =>
      let (log, out) := retryCall s.policy.eval req s.results
      ({ s with results := s.results.drop log.length },
       [.start req] ++ flatObs log ++ callTail req out)

def rtRun (s : RtSt) : List RtOp → RtSt × List RtObs
  | [] => (s, [])
  | op :: ops =>
      let (s', o) := rtStep s op
      let (s'', o') := rtRun s' ops
      (s'', o ++ o')

def rtInit (kind max : Nat) : RtSt := { policy := { kind := kind, max := max } }

end TarpcModel.Stubs

/-
Model of the client-side stubs
  * `tarpc/src/client/stub/load_balance.rs` — `RoundRobin` (`AtomicCycle::next`: `fetch_add(1) % len`) and
    `ConsistentHash` (`hash_request(req) % stubs_len`),
  * `tarpc/src/client/stub/retry.rs` — `Retry` (`for i in 1.. { result = stub.call(ctx, Arc::clone(&request)).await;
    if should_retry(&result, i) { continue } return result }`; `ctx` is `Copy` and never reassigned).

All three `call`s are `async fn`s: nothing of their body runs until the returned future is polled for the
first time.  For `RoundRobin` that means the ticket (the value returned by `fetch_add`) is taken at the
*first poll* of a call future, not when the future is created; a future dropped before its first poll takes
no ticket.  The op-level model below (`LbSt`, `lbStep`) therefore has separate `call` (create), `poll`
(first poll) and `drop` operations, and concurrency is any interleaving of those.

Core Lean only (this file is linked into the `driver` executable).
-/
namespace TarpcModel.Stubs

/-- Modulus of `usize` / `u64` (64-bit targets): `AtomicUsize::fetch_add` wraps here and hashes live below it. -/
def W : Nat := 2 ^ 64

/-! ## Round robin (`AtomicCycle`) -/

/-- `State { elements, next }` of `AtomicCycle`: only the number of elements and the cursor matter. -/
structure RR where
  n : Nat
  next : Nat := 0
deriving Repr, DecidableEq

def RR.init (n : Nat) : RR := { n := n }

/-- `self.next.fetch_add(1, Ordering::Relaxed)`: returns the old value (the *ticket*), wraps at `usize::MAX`.
A single atomic read-modify-write: two callers never obtain the same ticket, whatever the interleaving. -/
def RR.fetchAdd (s : RR) : RR × Nat := ({ s with next := (s.next + 1) % W }, s.next)

/-- `State::next`: `&self.elements[next % self.elements.len()]`.  `none` = the remainder by zero panics
(empty backend list; outside C20's "non-empty" quantifier, recorded by a witness theorem). -/
def RR.pick (s : RR) : RR × Option Nat :=
  let (s', t) := s.fetchAdd
  (s', if s.n = 0 then none else some (t % s.n))

/-- `N` successive `RoundRobin::call` first polls: the backends chosen, in ticket order. -/
def rrCalls (s : RR) : Nat → RR × List (Option Nat)
  | 0 => (s, [])
  | N + 1 =>
      let (s1, b) := s.pick
      let (s2, l) := rrCalls s1 N
      (s2, b :: l)

/-- Concurrent calls: `order` lists the call ids in the order in which their futures are first polled
(any permutation of the issued calls).  Result: which backend each call was sent to. -/
def rrDispatch (s : RR) : List Nat → RR × List (Nat × Option Nat)
  | [] => (s, [])
  | c :: cs =>
      let (s1, b) := s.pick
      let (s2, l) := rrDispatch s1 cs
      (s2, (c, b) :: l)

/-! ## Consistent hash -/

/-- `ConsistentHash::call`: `usize::try_from(self.hash_request(&request) % self.stubs_len)`.
`hash` stands for `BuildHasher::build_hasher` + `Hash::hash` + `finish` (any function of the request);
`none` = remainder by zero panics (empty backend list). -/
def chIndex {Req : Type} (hash : Req → Nat) (n : Nat) (r : Req) : Option Nat :=
  if n = 0 then none else some (hash r % n)

/-- The deterministic hasher the harness plugs into `ConsistentHash::with_hasher` (requests are `u64`,
whose `Hash` impl is one `write_u64`): `finish() = (x ^ seed).wrapping_mul(0x9E3779B97F4A7C15)`. -/
def verifHash (seed x : Nat) : Nat := ((x ^^^ seed) * 0x9E3779B97F4A7C15) % W

/-! ## Op-level model of a load-balancing stub over recording mock backends -/

inductive Kind where
  | rr | hash
deriving Repr, DecidableEq

structure LbSt where
  kind    : Kind
  rr      : RR                        -- backend count and (for round robin) the cursor
  hseed   : Nat := 0                  -- seed of the harness hasher (consistent hash only)
  nextId  : Nat := 0
  pending : List (Nat × Nat) := []    -- call futures created and not yet polled: (call id, request)
  results : List (Nat × Nat) := []    -- what each mock backend answers from now on: (backend, code); absent = 0
deriving Repr

inductive LbOp where
  | call (req : Nat)      -- `stub.call(ctx, req)`: creates the future, runs nothing
  | poll (id : Nat)       -- first poll of call future `id` (the mock backends answer at once)
  | drop (id : Nat)       -- drop call future `id` without ever polling it
  | setResult (b k : Nat) -- from now on mock backend `b` answers with result code `k`
                          -- (0 `Ok(req)`, 1 `Shutdown`, 2 `DeadlineExceeded`, 3 `Server(..)`)
deriving Repr, DecidableEq

inductive LbObs where
  | created (id req : Nat)
  | picked (id backend req : Nat)     -- recorded by mock backend `backend`: it received `req` (for call `id`)
  | panicked (id : Nat)               -- the first poll panicked (remainder by zero)
  | dropped (id : Nat)
  | resultSet (b k : Nat)             -- mock backend `b` (`< n`) now answers with code `k`
  | answered (id k : Nat)             -- what the caller of call `id` got back (result code)
  | noop
deriving Repr, DecidableEq

def lookup (k : Nat) : List (Nat × Nat) → Option Nat
  | [] => none
  | (k', v) :: m => if k' = k then some v else lookup k m

def erase (k : Nat) : List (Nat × Nat) → List (Nat × Nat)
  | [] => []
  | (k', v) :: m => if k' = k then erase k m else (k', v) :: erase k m

/-- The answer mock backend `b` currently gives (result code; 0 = `Ok`). -/
def resultOf (b : Nat) (results : List (Nat × Nat)) : Nat := (lookup b results).getD 0

/-- The body of `RoundRobin::call` / `ConsistentHash::call` up to the delegation.  Neither stub looks at
what any backend answered before: `results` is not read here. -/
def pickBackend (s : LbSt) (req : Nat) : LbSt × Option Nat :=
  match s.kind with
  | .rr => let (r, b) := s.rr.pick; ({ s with rr := r }, b)
  | .hash => (s, chIndex (verifHash s.hseed) s.rr.n req)

def lbStep (s : LbSt) : LbOp → LbSt × List LbObs
  | .call req =>
      ({ s with pending := s.pending ++ [(s.nextId, req)], nextId := s.nextId + 1 }, [.created s.nextId req])
  | .drop id =>
      match lookup id s.pending with
      | none => (s, [.noop])
      | some _ => ({ s with pending := erase id s.pending }, [.dropped id])
  | .poll id =>
      match lookup id s.pending with
      | none => (s, [.noop])
      | some req =>
          let s := { s with pending := erase id s.pending }
          match pickBackend s req with
          | (s, some b) => (s, [.picked id b req, .answered id (resultOf b s.results)])
          | (s, none) => (s, [.panicked id])
  | .setResult b k =>
      if b < s.rr.n then ({ s with results := (b, k) :: erase b s.results }, [.resultSet b k])
      else (s, [.noop])

def lbRun (s : LbSt) : List LbOp → LbSt × List LbObs
  | [] => (s, [])
  | op :: ops =>
      let (s', o) := lbStep s op
      let (s'', o') := lbRun s' ops
      (s'', o ++ o')

def lbInit (kind : Kind) (n : Nat) (hseed : Nat := 0) : LbSt := { kind := kind, rr := RR.init n, hseed := hseed }

/-! ## Retry -/

/-- One completed attempt of the retry loop: the context and request the backend was given, what it
answered, the attempt number handed to the policy together with that answer, and the policy's decision. -/
structure Attempt (Ctx Req Res : Type) where
  ctx     : Ctx
  req     : Req
  result  : Res
  attempt : Nat
  retried : Bool
deriving Repr, DecidableEq

/-- `Retry::call` from attempt number `i` on, against a backend that answers with the scripted results
`rs` in order and then never answers.  `ctx` is the caller's `context::Context` (a `Copy` value): the loop
hands the very same value to every `self.stub.call(ctx, Arc::clone(&request))`.  The script doubles as the
fuel of the loop (`for i in 1..` has no bound of its own): structural recursion on it.  Returns the log of
completed attempts and the value returned to the caller (`none` = the call never completes because the
backend stopped answering). -/
def retryLoop {Ctx Req Res : Type} (policy : Res → Nat → Bool) (ctx : Ctx) (req : Req) :
    Nat → List Res → List (Attempt Ctx Req Res) × Option Res
  | _, [] => ([], none)
  | i, r :: rs =>
      if policy r i then
        let (l, o) := retryLoop policy ctx req (i + 1) rs
        (⟨ctx, req, r, i, true⟩ :: l, o)
      else ([⟨ctx, req, r, i, false⟩], some r)

/-- `Retry::call`: attempt numbers start at 1. -/
def retryCall {Ctx Req Res : Type} (policy : Res → Nat → Bool) (ctx : Ctx) (req : Req) (rs : List Res) :
    List (Attempt Ctx Req Res) × Option Res :=
  retryLoop policy ctx req 1 rs

/-- Backend results used by the driver/harness: `Ok(v)`, the `k`-th error value (`Shutdown`,
`DeadlineExceeded`, `Server(..)`), or `RpcError::Send(<boxed error k>)`. -/
inductive Res where
  | ok (v : Nat)
  | err (k : Nat)
  | send (k : Nat)
deriving Repr, DecidableEq

/-- What the harness's mock backend records of the `context::Context` it is called with: the deadline (ns
after the script's base instant, under the virtual clock) and the trace context. -/
structure RtCtx where
  deadline : Nat := 0
  traceId  : Nat := 0
  spanId   : Nat := 0
  sampled  : Bool := false
deriving Repr, DecidableEq

/-- Scriptable policies: kind 0 = decision table indexed by attempt number (declines beyond the table);
any other kind = "retry errors while `attempt < max`". -/
structure Policy where
  kind  : Nat := 0
  max   : Nat := 0
  table : List Bool := []
deriving Repr

def Policy.eval (p : Policy) (r : Res) (i : Nat) : Bool :=
  if p.kind = 0 then p.table.getD (i - 1) false
  else (match r with | .ok _ => false | _ => true) && decide (i < p.max)

structure RtSt where
  policy  : Policy := {}
  results : List (Res × Nat) := []   -- what the mock backend will answer next, and after how many ns
  now     : Nat := 0                 -- virtual clock, ns after the script's base instant
deriving Repr

inductive RtOp where
  | result (r : Res) (delay : Nat)   -- append to the backend's script: answer `r` after `delay` ns
  | decide (b : Bool)                -- append to the policy's decision table
  /-- run `Retry::call(ctx, req)` with `ctx.deadline = now + d` and the given trace context -/
  | call (req d traceId spanId : Nat) (sampled : Bool)
deriving Repr, DecidableEq

inductive RtObs where
  | start (req now : Nat) (ctx : RtCtx)                 -- the caller's request and context
  | backend (req : Nat)                                 -- the mock backend received `*request`
  | attempt (i now : Nat) (ctx : RtCtx)                 -- … as its `i`-th call of this episode, with `ctx`
  | policy (attempt : Nat) (r : Res) (retry : Bool)     -- `should_retry(&r, attempt)` returned `retry`
  | ret (r : Res)                                       -- `Retry::call` returned `r`
  | stuck                                               -- the backend's script ran out: the call stays pending
deriving Repr, DecidableEq

def attemptObs (now : Nat) (a : Attempt RtCtx Nat Res) : List RtObs :=
  [.backend a.req, .attempt a.attempt now a.ctx, .policy a.attempt a.result a.retried]

/-- Observations of the completed attempts; `ds` are the backend's answer delays, `now` the time at which
the first of them starts. -/
def flatObs : Nat → List Nat → List (Attempt RtCtx Nat Res) → List RtObs
  | _, _, [] => []
  | now, ds, a :: l => attemptObs now a ++ flatObs (now + ds.headD 0) ds.tail l

/-- Sum of the first `k` delays. -/
def sumTake : Nat → List Nat → Nat
  | 0, _ => 0
  | _, [] => 0
  | k + 1, d :: ds => d + sumTake k ds

/-- How a call ends: it returns `r`, or the backend is called once more (attempt `i`) and never answers. -/
def callTail (q i now : Nat) (ctx : RtCtx) : Option Res → List RtObs
  | some r => [.ret r]
  | none => [.backend q, .attempt i now ctx, .stuck]

def rtStep (s : RtSt) : RtOp → RtSt × List RtObs
  | .result r d => ({ s with results := s.results ++ [(r, d)] }, [])
  | .decide b => ({ s with policy := { s.policy with table := s.policy.table ++ [b] } }, [])
  | .call req d tid span smp =>
      let ctx : RtCtx := { deadline := s.now + d, traceId := tid, spanId := span, sampled := smp }
      let ds := s.results.map (·.2)
      let (log, out) := retryCall s.policy.eval ctx req (s.results.map (·.1))
      let now' := s.now + sumTake log.length ds
      ({ s with results := s.results.drop log.length, now := now' },
       [.start req s.now ctx] ++ flatObs s.now ds log ++ callTail req (log.length + 1) now' ctx out)

def rtRun (s : RtSt) : List RtOp → RtSt × List RtObs
  | [] => (s, [])
  | op :: ops =>
      let (s', o) := rtStep s op
      let (s'', o') := rtRun s' ops
      (s'', o ++ o')

def rtInit (kind max : Nat) : RtSt := { policy := { kind := kind, max := max } }

end TarpcModel.Stubs

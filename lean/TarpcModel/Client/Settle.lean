import TarpcModel.Client.Run
/-
C02 support: `settle` drives the client the way an executor would — polling a task only while its
waker has fired — until no task is woken, and then names the calls that are stuck: still pending
although nothing is left that could wake the system on their behalf.
-/
namespace TarpcModel.Client

def dispatchRunnable (s : St) : Bool := s.dWoken && !s.dDropped && s.done.isNone && !s.poisoned

def firstWokenCall (s : St) : Option Nat := (s.calls.find? (fun c => callLive c && c.woken)).map (·.cid)

/-- Poll woken tasks (the dispatch first, then calls in creation order) until none is woken. -/
def settleLoop : Nat → Sys → Sys
  | 0, c => c
  | fuel + 1, c =>
      if dispatchRunnable c.s then settleLoop fuel { c with s := pollDispatch c.s c.now }
      else match firstWokenCall c.s with
        | some cid => settleLoop fuel { c with s := pollCall c.s cid c.now }
        | none => c

def requestWritten (s : St) (c : Call) : Bool :=
  s.t.sentLog.any fun m => match m with
    | .request _ _ _ b => b == c.body
    | _ => false

/-- A live call is *excused* if something other than an unsolicited poll can still make progress for it:
its request is on the wire (the peer or its deadline timer owes the next event), or the transport is
not writable, or the in-flight table is full (a timer or reply owes), or the dispatch is
shutting down after a transport failure (it is then waiting for outstanding queue permits). -/
def excused (s : St) (c : Call) : Bool :=
  requestWritten s c || !s.t.isReadyNow || s.inflight.length ≥ s.maxInFlight || s.termErr.isSome

def stuckCalls (s : St) : List Nat :=
  (s.calls.filter fun c => callLive c && !excused s c).map (·.cid)

/-- Inbound items nobody will read: the dispatch is alive and healthy, not woken, yet the transport holds
items for it (a reply that arrived must have woken it). -/
def unreadInbound (s : St) : Nat :=
  if s.dDropped || s.done.isSome || s.poisoned || s.termErr.isSome || s.readFused then 0 else s.t.inbound.length

/-- `settle`: returns the settled state and the stuck calls. -/
def settle (c : Sys) : Sys × List Nat :=
  let c := settleLoop 400 c
  (c, if dispatchRunnable c.s || (firstWokenCall c.s).isSome then [] else stuckCalls c.s)

/-- Unread inbound items left after settling (0 when the fuel ran out with work still pending). -/
def settleUnread (c : Sys) : Nat :=
  let c := settleLoop 400 c
  if dispatchRunnable c.s || (firstWokenCall c.s).isSome then 0 else unreadInbound c.s

end TarpcModel.Client

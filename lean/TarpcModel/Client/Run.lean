import TarpcModel.Client.Model
/- Typed operations of the `cli` family and the event trace (ops interleaved with observations). -/
namespace TarpcModel.Client

inductive FaultKind where
  | ready | send | flush | close | next
deriving Repr, DecidableEq

inductive COp where
  | call (h : Nat) (deadline : Nat) (trace : Trace) (body : Nat)
  | pollCall (c : Nat)
  | dropCall (c : Nat) (site : DropAt)
  | clone (h : Nat)
  | dropHandle (h : Nat)
  | pollDispatch
  | dropDispatch
  | injectResp (id : Nat) (res : Res)
  | injectErr
  | eof
  | setReady (b : Bool)
  | setFlush (b : Bool)
  | fault (k : FaultKind)
  | faultSkip (n : Nat)          -- the next armed fault lets `n` calls of its kind through first
  | selfWake (b : Bool)          -- whether the transport wakes its owner when the owner's own flush restores readiness
  | take (n : Nat)
  | advance (n : Nat)
deriving Repr, DecidableEq

/-- The whole state of a `cli` script: the client and the virtual clock. -/
structure Sys where
  s   : St
  now : Nat := 0
deriving Repr

def armFault (t : SimT) : FaultKind → SimT
  | .ready => { t with faultReady := true }
  | .send => { t with faultSend := true }
  | .flush => { t with faultFlush := true }
  | .close => { t with faultClose := true }
  | .next => { t with faultNext := true }

def applyOp (c : Sys) : COp → Sys
  | .call h d tr b => { c with s := newCall c.s h { deadline := d, trace := tr } b }
  | .pollCall cid => { c with s := pollCall c.s cid c.now }
  | .dropCall cid site => { c with s := dropCall c.s cid site c.now }
  | .clone h => { c with s := cloneHandle c.s h }
  | .dropHandle h => { c with s := dropHandle c.s h }
  | .pollDispatch => { c with s := pollDispatch c.s c.now }
  | .dropDispatch => { c with s := dropDispatch c.s }
  | .injectResp id res => { c with s := liftT c.s (c.s.t.inject (.msg (.response id res))) }
  | .injectErr => { c with s := liftT c.s (c.s.t.inject .err) }
  | .eof => { c with s := liftT c.s c.s.t.setEof }
  | .setReady b => { c with s := liftT c.s (c.s.t.setReady b) }
  | .setFlush b => { c with s := liftT c.s (c.s.t.setFlush b) }
  | .fault k => { c with s := { c.s with t := armFault c.s.t k } }
  | .faultSkip n => { c with s := { c.s with t := { c.s.t with faultSkip := n } } }
  | .selfWake b => { c with s := { c.s with t := { c.s.t with selfWake := b } } }
  | .take n =>
      let (t, ms) := c.s.t.take n
      { c with s := ms.foldl (fun s m => emit s (.took (tid s) m)) { c.s with t := t } }
  | .advance n => { s := onAdvance c.s (c.now + n), now := c.now + n }

/-- One op: the new state and the observations it produced (oldest first). -/
def stepOp (c : Sys) (op : COp) : Sys × List Obs :=
  let c' := applyOp { c with s := { c.s with obs := [] } } op
  ({ c' with s := { c'.s with obs := [] } }, c'.s.obs.reverse)

inductive CEv where
  | op (o : COp)
  | obs (o : Obs)
deriving Repr, DecidableEq

/-- The event trace of a script: every op followed by its observations. -/
def trace (c : Sys) : List COp → List CEv
  | [] => []
  | op :: ops =>
      let (c', os) := stepOp c op
      CEv.op op :: (os.map CEv.obs ++ trace c' ops)

def initSys (maxInFlight bufCap tcap : Nat) (coupled : Bool) : Sys :=
  { s := init 0 maxInFlight bufCap tcap coupled }

end TarpcModel.Client

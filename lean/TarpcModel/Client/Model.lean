import TarpcModel.Prim.DelayQ
import TarpcModel.Sim.Obs
import TarpcModel.Gen.Flags
/-
Poll-granular model of the tarpc client: `client::Channel::call` (the call future and its
`ResponseGuard`), the bounded request queue and the unbounded cancellation queue (tokio `mpsc`),
the per-call `oneshot`, `client::InFlightRequests` and `RequestDispatch::poll`
(`tarpc/src/client.rs`, `client/in_flight_requests.rs`, `cancellations.rs`).

One poll of one task is one atomic step.  Every early return, `ready!`, `?` and loop of the Rust
code has a counterpart here; panicking sites are explicit `Obs.panic` outcomes.
-/
namespace TarpcModel.Client

structure Ctx where
  deadline : Nat
  trace    : Trace
deriving Repr, DecidableEq

/-- tokio `oneshot` as the call uses it. -/
structure Oneshot where
  val       : Option Outcome := none   -- sent, not yet read
  txDropped : Bool := false            -- sender dropped without sending
  rxClosed  : Bool := false            -- receiver closed or dropped
  rxWaker   : Bool := false
deriving Repr, DecidableEq

inductive Phase where
  | notPolled     -- future created, body not started
  | reserving     -- waiting for a slot in the request queue (guard armed, nothing enqueued)
  | awaiting      -- request enqueued, waiting on the oneshot
  | resolved
  | dropped
deriving Repr, DecidableEq

structure Call where
  cid     : Nat
  ctx     : Ctx                  -- as supplied by the caller
  body    : Nat
  phase   : Phase := .notPolled
  id      : Nat := 0             -- request id (meaningful once polled)
  trace   : Trace                -- child trace context actually sent (meaningful once polled)
  os      : Oneshot := {}
  woken   : Bool := true
  outcome : Option Outcome := none
deriving Repr, DecidableEq

/-- `DispatchRequest` (its oneshot sender is the one of call `cid`). -/
structure DReq where
  cid  : Nat
  id   : Nat
  ctx  : Ctx
  body : Nat
deriving Repr, DecidableEq

structure Entry where
  id       : Nat
  cid      : Nat
  ctx      : Ctx
  timerKey : Nat
  /-- `deadline_remainder` (ns): how much of the time until the deadline the timer has not been armed with yet;
  nonzero only for deadlines further away than the clamp -/
  remainder : Nat
  /-- `timer_due` (ns): the exact instant the armed timer is due (`now + timeout` at the time it was armed); the
  queue itself fires at the next millisecond tick -/
  dueAt : Nat
deriving Repr, DecidableEq

structure St where
  k           : Nat := 0
  maxInFlight : Nat := 1
  bufCap      : Nat := 1
  ensureLoop  : Bool := Gen.clientEnsureLoop   -- pre-fix `while poll_ready.is_pending() { flush }`
  handles     : List Nat := [0]
  nextHandle  : Nat := 1
  nextId      : Nat := 0
  nextFresh   : Nat := 0
  calls       : List Call := []
  -- bounded request queue
  pq          : List DReq := []
  pqAvail     : Nat := 1
  pqWaiters   : List Nat := []      -- FIFO of call ids waiting for a permit
  pqAssigned  : List Nat := []      -- waiters that were handed a permit, not polled since
  pqClosed    : Bool := false       -- `Receiver::close()` was called
  pqRxWaker   : Bool := false
  -- unbounded cancellation queue
  cq          : List Nat := []
  cqRxWaker   : Bool := false
  -- dispatch
  inflight    : List Entry := []
  timers      : DelayQ := {}
  termErr     : Option Activity := none
  readFused   : Bool := false
  done        : Option Ret := none
  dDropped    : Bool := false
  dWoken      : Bool := true
  poisoned    : Bool := false       -- the dispatch panicked or span; it is not polled again
  t           : SimT := {}
  obs         : List Obs := []      -- most recent first
deriving Repr

def tid (s : St) : TaskId := .dispatch s.k

def emit (s : St) (o : Obs) : St := { s with obs := o :: s.obs }

/-! ### wakes -/

def wakeDispatch (s : St) : St :=
  if s.dDropped || s.done.isSome then s else emit { s with dWoken := true } (.wake (.dispatch s.k))

def getCall (s : St) (cid : Nat) : Option Call := s.calls.find? (·.cid == cid)

def updCall (s : St) (cid : Nat) (f : Call → Call) : St :=
  { s with calls := s.calls.map (fun c => if c.cid == cid then f c else c) }

def callLive (c : Call) : Bool :=
  match c.phase with
  | .notPolled | .reserving | .awaiting => true
  | _ => false

def wakeCall (s : St) (cid : Nat) : St :=
  match getCall s cid with
  | some c => if callLive c then emit (updCall s cid (fun c => { c with woken := true })) (.wake (.call cid)) else s
  | none => s

/-- Live `Sender` / `RequestCancellation` clones: the handles plus one per live call future. -/
def senders (s : St) : Nat := s.handles.length + (s.calls.filter callLive).length

/-! ### oneshot -/

/-- `Sender::send`: fails (value dropped) if the receiver is closed; wakes the receiver task. -/
def osSend (s : St) (cid : Nat) (o : Outcome) : St :=
  match getCall s cid with
  | none => s
  | some c =>
      if c.os.rxClosed then s
      else
        let s := updCall s cid (fun c => { c with os := { c.os with val := some o, rxWaker := false } })
        if c.os.rxWaker then wakeCall s cid else s

/-- The sender is dropped without having sent. -/
def osDropTx (s : St) (cid : Nat) : St :=
  match getCall s cid with
  | none => s
  | some c =>
      if c.os.val.isSome || c.os.txDropped then s
      else
        let s := updCall s cid (fun c => { c with os := { c.os with txDropped := true, rxWaker := false } })
        if c.os.rxWaker then wakeCall s cid else s

def osIsClosed (s : St) (cid : Nat) : Bool :=
  match getCall s cid with
  | some c => c.os.rxClosed
  | none => true

/-! ### bounded request queue (tokio mpsc + batch semaphore) -/

/-- One permit goes back to the semaphore: handed to the oldest waiter if any. -/
def pqRelease (s : St) : St :=
  match s.pqWaiters with
  | w :: rest => wakeCall { s with pqWaiters := rest, pqAssigned := s.pqAssigned ++ [w] } w
  | [] => { s with pqAvail := s.pqAvail + 1 }

inductive Recv (α : Type) where
  | pending | closed | item (a : α)

/-- `Receiver::poll_recv` on the request queue. -/
def pqRecv (s : St) : St × Recv DReq :=
  match s.pq with
  | r :: rest => (pqRelease { s with pq := rest }, .item r)
  | [] =>
      if senders s == 0 then (s, .closed)
      else if s.pqClosed && s.pqAvail == s.bufCap then (s, .closed)
      else ({ s with pqRxWaker := true }, .pending)

/-- `Receiver::close()`: closes the semaphore and wakes every queued waiter. -/
def pqClose (s : St) : St :=
  let ws := s.pqWaiters
  ws.foldl wakeCall { s with pqClosed := true, pqWaiters := [] }

/-- A value is pushed by a sender holding a permit. -/
def pqPush (s : St) (r : DReq) : St :=
  let s := { s with pq := s.pq ++ [r] }
  if s.pqRxWaker then wakeDispatch { s with pqRxWaker := false } else s

/-! ### cancellation queue (unbounded mpsc) -/

def cqPush (s : St) (id : Nat) : St :=
  if s.dDropped then s      -- receiver gone: `send` fails silently
  else
    let s := { s with cq := s.cq ++ [id] }
    if s.cqRxWaker then wakeDispatch { s with cqRxWaker := false } else s

def cqRecv (s : St) : St × Recv Nat :=
  match s.cq with
  | i :: rest => ({ s with cq := rest }, .item i)
  | [] => if senders s == 0 then (s, .closed) else ({ s with cqRxWaker := true }, .pending)

/-! ### transport calls (recorded) -/

/-- Contract violations newly recorded by the transport are surfaced as observations. -/
def emitViolations (s : St) (before : Nat) : St :=
  ((s.t.violations.take (s.t.violations.length - before)).reverse).foldl
    (fun s w => emit s (.tViolation (tid s) w)) s

def tReady (s : St) : St × PollRes :=
  let n := s.t.violations.length
  let (t, r, w) := s.t.pollReady
  let s := emit (emitViolations { s with t := t } n) (.tReady (tid s) r)
  (if w then wakeDispatch s else s, r)

def tFlush (s : St) : St × PollRes :=
  let n := s.t.violations.length
  let (t, r, w) := s.t.pollFlush
  let s := emit (emitViolations { s with t := t } n) (.tFlush (tid s) r)
  (if w then wakeDispatch s else s, r)

def tClose (s : St) : St × PollRes :=
  let n := s.t.violations.length
  let (t, r, w) := s.t.pollClose
  let s := emit (emitViolations { s with t := t } n) (.tClose (tid s) r)
  (if w then wakeDispatch s else s, r)

def tSend (s : St) (m : Msg) : St × Bool :=
  let n := s.t.violations.length
  let (t, ok) := s.t.startSend m
  (emit (emitViolations { s with t := t } n) (.tSend (tid s) m ok), ok)

def tNext (s : St) : St × NextRes :=
  if s.readFused then (s, .eof)      -- `Fuse`: the inner stream is not polled again
  else
    let (t, r) := s.t.pollNext
    let s := emit { s with t := t } (.tNext (tid s) r)
    (if r == .eof then { s with readFused := true } else s, r)

/-! ### in-flight table -/

def findEntry (s : St) (id : Nat) : Option Entry := s.inflight.find? (·.id == id)

def removeTimer (s : St) (key : Nat) : St :=
  match s.timers.remove key with
  | some (q, woke) =>
      -- the emptying remove wakes the waker the queue stored: the dispatch's own (a self-wake)
      let s := { s with timers := q }
      if woke then wakeDispatch s else s
  | none => emit { s with poisoned := true } (.panic (tid s) "deadlines.remove: invalid key")

/-- `complete_request`: remove, disarm the timer, send the result. -/
def completeRequest (s : St) (id : Nat) (o : Outcome) : St × Bool :=
  match findEntry s id with
  | none => (s, false)
  | some e =>
      let s := { s with inflight := s.inflight.filter (·.id != id) }
      let s := removeTimer s e.timerKey
      (osSend s e.cid o, true)

/-- `cancel_request`. -/
def cancelRequest (s : St) (id : Nat) : St × Option Entry :=
  match findEntry s id with
  | none => (s, none)
  | some e =>
      let s := { s with inflight := s.inflight.filter (·.id != id) }
      (removeTimer s e.timerKey, some e)

/-- The timeout a deadline timer is armed with: clamped to `MAX_DEADLINE_TIMEOUT` if the source does so
(`Gen.clientTimerClampSecs`, read off `client/in_flight_requests.rs`; 0 = not clamped). -/
def clampTimeout (t : Nat) : Nat :=
  if Gen.clientTimerClampSecs == 0 then t else min t (Gen.clientTimerClampSecs * 1000000000)

/-- `insert_request`; `none` = the code panicked. -/
def insertRequest (s : St) (now : Nat) (r : DReq) : Option St :=
  if (findEntry s r.id).isSome then
    some (emit { s with poisoned := true } (.panic (tid s) "Request IDs should be unique"))
  else
    match s.timers.insert now (clampTimeout (r.ctx.deadline - now)) r.id with
    | (_, .panic, _) => some (emit { s with poisoned := true } (.panic (tid s) "DelayQueue::insert: invalid deadline"))
    | (q, .ok key, woke) =>
        -- an insert that moves the queue's `Sleep` earlier wakes the stored waker: a self-wake
        let s := { s with timers := q, inflight := s.inflight ++ [{ id := r.id, cid := r.cid, ctx := r.ctx, timerKey := key, remainder := (r.ctx.deadline - now) - clampTimeout (r.ctx.deadline - now), dueAt := now + clampTimeout (r.ctx.deadline - now) }] }
        some (if woke then wakeDispatch s else s)

/-! ### the write pump -/

inductive EW where
  | ready | pending | err (a : Activity) | spin
deriving Repr, DecidableEq

def spinLimit : Nat := 64

/-- Pre-fix `ensure_writeable`: `while poll_ready.is_pending() { ready!(poll_flush) }`. -/
def ensureLoop : Nat → St → St × EW
  | 0, s => (emit s (.spin (tid s)), .spin)
  | fuel + 1, s =>
      let (s, r) := tReady s
      match r with
      | .ready => (s, .ready)
      | .err => (s, .err .ready)
      | .pending =>
          let (s, f) := tFlush s
          match f with
          | .pending => (s, .pending)
          | .err => (s, .err .flush)
          | .ready => ensureLoop fuel s

/-- `ensure_writeable` after the fix: flush once, re-poll readiness once, then yield. -/
def ensureOnce (s : St) : St × EW :=
  let (s, r) := tReady s
  match r with
  | .ready => (s, .ready)
  | .err => (s, .err .ready)
  | .pending =>
      let (s, f) := tFlush s
      match f with
      | .pending => (s, .pending)
      | .err => (s, .err .flush)
      | .ready =>
          let (s, r2) := tReady s
          match r2 with
          | .ready => (s, .ready)
          | .err => (s, .err .ready)
          | .pending => (s, .pending)

def ensureWriteable (s : St) : St × EW :=
  if s.ensureLoop then ensureLoop spinLimit s else ensureOnce s

/-- Result of the `poll_…` helpers: `Poll<Option<Result<T, ChannelError>>>`. -/
inductive PW (α : Type) where
  | pending | none | some (a : α) | err (a : Activity) | spin

/-- The dequeue loop of `poll_next_request`: skips requests whose receiver is closed. -/
def nextRequestLoop : Nat → St → St × PW DReq
  | 0, s => (s, .pending)
  | fuel + 1, s =>
      match pqRecv s with
      | (s, .pending) => (s, .pending)
      | (s, .closed) => (s, .none)
      | (s, .item r) => if osIsClosed s r.cid then nextRequestLoop fuel s else (s, .some r)

def pollNextRequest (s : St) : St × PW DReq :=
  if s.inflight.length ≥ s.maxInFlight then (s, .pending)     -- no waker registered
  else
    match ensureWriteable s with
    | (s, .pending) => (s, .pending)
    | (s, .err a) => (s, .err a)
    | (s, .spin) => (s, .spin)
    | (s, .ready) => nextRequestLoop (s.pq.length + 1) s

def pollWriteRequest (s : St) (now : Nat) : St × PW Unit :=
  match pollNextRequest s with
  | (s, .pending) => (s, .pending)
  | (s, .none) => (s, .none)
  | (s, .err a) => (s, .err a)
  | (s, .spin) => (s, .spin)
  | (s, .some r) =>
      match insertRequest s now r with
      | none => (s, .spin)
      | some s =>
          if s.poisoned then (s, .spin)
          else
            let (s, ok) := tSend s (.request r.id r.ctx.deadline r.ctx.trace r.body)
            if ok then (s, .some ())
            else ((completeRequest s r.id .send).1, .some ())

def nextCancelLoop : Nat → St → St × PW Entry
  | 0, s => (s, .pending)
  | fuel + 1, s =>
      match cqRecv s with
      | (s, .pending) => (s, .pending)
      | (s, .closed) => (s, .none)
      | (s, .item id) =>
          match cancelRequest s id with
          | (s, some e) => (s, .some e)
          | (s, none) => nextCancelLoop fuel s

def pollNextCancellation (s : St) : St × PW Entry :=
  match ensureWriteable s with
  | (s, .pending) => (s, .pending)
  | (s, .err a) => (s, .err a)
  | (s, .spin) => (s, .spin)
  | (s, .ready) => nextCancelLoop (s.cq.length + 1) s

def pollWriteCancel (s : St) : St × PW Unit :=
  match pollNextCancellation s with
  | (s, .pending) => (s, .pending)
  | (s, .none) => (s, .none)
  | (s, .err a) => (s, .err a)
  | (s, .spin) => (s, .spin)
  | (s, .some e) =>
      let (s, ok) := tSend s (.cancel e.id e.ctx.trace)
      if ok then (s, .some ()) else (s, .err .write)

/-- The timer of request `id` fired while `deadline_remainder` is nonzero: the entry gets the new timer key and what
is left of the remainder. -/
def rearmEntry (id key t due : Nat) (x : Entry) : Entry :=
  if x.id == id then { x with timerKey := key, remainder := x.remainder - t, dueAt := due } else x

/-- One iteration of the loop of `in_flight_requests.poll_expired`. -/
inductive ExpStep where
  | again (s : St)                 -- `continue`: a timer was re-armed
  | done (s : St) (yielded : Bool) -- `true` = `Ready(Some(_))`

/-- the state after the iteration -/
def ExpStep.st : ExpStep → St
  | .again s => s
  | .done s _ => s

/-- What `poll_expired` does with the result `r` of re-arming (`DelayQueue::insert` with timeout `t`) the timer of
tracked request `id`.  A panicking insert poisons the dispatch (`pumpWrite` stops; the state is frozen as it was
before this iteration — it is never looked at again); otherwise the entry gets the new key and the rest of the
remainder, the insert's self-wake is delivered, and the queue is polled again. -/
def rearmWith (s : St) (id t due : Nat) : DelayQ × DelayQ.InsertRes × Bool → ExpStep
  | (_, .panic, _) =>
      .done (emit { s with poisoned := true } (.panic (tid s) "DelayQueue::insert: invalid deadline")) false
  | (q', .ok key, woke) =>
      .again (if woke then wakeDispatch { s with timers := q', inflight := s.inflight.map (rearmEntry id key t due) }
              else { s with timers := q', inflight := s.inflight.map (rearmEntry id key t due) })

/-- The timer of tracked request `id` (entry `en`) was due `late` ns ago (`late = now - timer_due`) and
`rest = deadline_remainder - late` is nonzero; `q` is the queue after the poll.  The timer is re-armed with (a clamped
part of) `rest`; the entry's remainder loses the lateness and the armed timeout (`rearmEntry … (late + timeout)`),
and its `timer_due` becomes `now + timeout`. -/
def rearm (s : St) (q : DelayQ) (now id : Nat) (en : Entry) (late : Nat) : ExpStep :=
  rearmWith s id (late + clampTimeout (en.remainder - late)) (now + clampTimeout (en.remainder - late))
    (q.insert now (clampTimeout (en.remainder - late)) id)

/-- What one iteration of `poll_expired`'s loop does with the result of polling the `DelayQueue`.
`now - en.dueAt` is `late`: how long ago the yielded timer was due, measured from the exact `timer_due` the entry
recorded when the timer was armed (not from the queue's own, ms-rounded-up deadline: that let every re-arm drift by up
to 1 ms). -/
def expireWith (s : St) (now : Nat) : DelayQ × DelayQ.PollRes → ExpStep
  | (q, .expired e) =>
      match findEntry s e.val with
      | some en =>
          if en.remainder - (now - en.dueAt) != 0 then rearm s q now e.val en (now - en.dueAt)
          else .done (osSend { s with timers := q, inflight := s.inflight.filter (·.id != e.val) } en.cid .deadline) true
      | none => .done { s with timers := q } true
  | (q, _) => .done { s with timers := q } false

/-- One iteration of `poll_expired`'s loop.  A timer that fires for a tracked request whose `deadline_remainder`
exceeds the time by which the expiry is handled late is re-armed (`rearm`) and the queue is polled again; otherwise
the request is failed with `DeadlineExceeded`.
(`rearmWith` / `expireWith` take the queue operation's *result* as a parameter so that proofs can do their case
analysis on a variable: a `match` whose discriminant is `DelayQ.insert …` itself makes Lean's kernel evaluate the
timer wheel's range check on symbolic input.) -/
def expireStep (s : St) (now : Nat) : ExpStep := expireWith s now (s.timers.pollExpired now)

/-- The loop of `in_flight_requests.poll_expired`.  Every re-arm takes at least 1 ns off a remainder, so `expiredFuel`
iterations suffice. -/
def pollExpiredLoop : Nat → St → Nat → St × Bool
  | 0, s, _ => (s, false)
  | fuel + 1, s, now =>
      match expireStep s now with
      | .again s => pollExpiredLoop fuel s now
      | .done s b => (s, b)

/-- An upper bound on the iterations of `poll_expired`'s loop: the remainders still to be armed, plus one. -/
def expiredFuel (s : St) : Nat := (s.inflight.map (·.remainder)).sum + 1

/-- `in_flight_requests.poll_expired`: `true` = `Ready(Some(_))`. -/
def pollExpired (s : St) (now : Nat) : St × Bool := pollExpiredLoop (expiredFuel s) s now

def pumpWrite (s : St) (now : Nat) : St × PW Unit :=
  match pollWriteRequest s now with
  | (s, .err a) => (s, .err a)
  | (s, .spin) => (s, .spin)
  | (s, .some ()) => (s, .some ())
  | (s, reqStatus) =>
      let reqClosed := match reqStatus with | .none => true | _ => false
      match pollWriteCancel s with
      | (s, .err a) => (s, .err a)
      | (s, .spin) => (s, .spin)
      | (s, .some ()) => (s, .some ())
      | (s, canStatus) =>
          let canClosed := match canStatus with | .none => true | _ => false
          let (s, exp) := pollExpired s now
          if exp then (s, .some ())
          else if s.poisoned then (s, .spin)      -- the re-arming `insert` panicked
          else if reqClosed && canClosed then
            match tClose s with
            | (s, .pending) => (s, .pending)
            | (s, .err) => (s, .err .close)
            | (s, .ready) => (s, .none)
          else
            match tFlush s with
            | (s, .pending) => (s, .pending)
            | (s, .err) => (s, .err .flush)
            | (s, .ready) => (s, .pending)

/-! ### the read pump -/

def outcomeOf : Res → Outcome
  | .ok b => .ok b
  | .err k => .server k

def pumpRead (s : St) : St × PW Unit :=
  match tNext s with
  | (s, .pending) => (s, .pending)
  | (s, .eof) => (s, .none)
  | (s, .err) => (s, .err .read)
  | (s, .item (.response id res)) => ((completeRequest s id (outcomeOf res)).1, .some ())
  | (s, .item _) => (s, .some ())       -- not producible by a typed transport; ignored

/-! ### `run`, `shut_down_with_terminal_error`, `poll` -/

inductive RunRes where
  | pending | ok | err (a : Activity) | spin
deriving Repr, DecidableEq

def run : Nat → St → Nat → St × RunRes
  | 0, s, _ => (emit s (.spin (tid s)), .spin)
  | fuel + 1, s, now =>
      match pumpRead s with
      | (s, .err a) => (s, .err a)
      | (s, .spin) => (s, .spin)
      | (s, read) =>
          match pumpWrite s now with
          | (s, .err a) => (s, .err a)
          | (s, .spin) => (s, .spin)
          | (s, write) =>
              match read, write with
              | .none, _ => (s, .ok)
              | rd, .none =>
                  if s.inflight.isEmpty then (s, .ok)
                  else match rd with
                    | .some () => run fuel s now
                    | _ => (s, .pending)
              | .some (), _ => run fuel s now
              | _, .some () => run fuel s now
              | _, _ => (s, .pending)

def failAll (s : St) (a : Activity) : St :=
  let es := s.inflight
  es.foldl (fun s e => osSend s e.cid (.channel a)) { s with inflight := [], timers := s.timers.clear }

def drainLoop : Nat → St → Activity → St × Bool      -- `true` = `Ready(())`
  | 0, s, _ => (s, false)
  | fuel + 1, s, a =>
      match pqRecv s with
      | (s, .pending) => (s, false)
      | (s, .closed) => (s, true)
      | (s, .item r) =>
          if osIsClosed s r.cid then drainLoop fuel s a
          else drainLoop fuel (osSend s r.cid (.channel a)) a

def shutDown (s : St) (a : Activity) : St × Bool :=
  let s := pqClose s
  let s := failAll s a
  drainLoop (s.pq.length + 1) s a

/-- An upper bound on the iterations of `run` (the real loop has no bound): every iteration that loops consumes
an inbound item, a queued request (which may arm one timer), a queued cancellation or an armed timer
(`Flow.run_no_spin` in `Lemmas/ClientFlowSpin.lean`: this fuel never runs out). -/
def runFuel (s : St) : Nat :=
  s.t.inbound.length + 2 * s.pq.length + s.cq.length + s.timers.len + 4

/-- `RequestDispatch::poll`. -/
def pollDispatchCore (s : St) (now : Nat) : St × Ret :=
  match s.termErr with
  | some a =>
      let (s, fin) := shutDown s a
      (s, if fin then .readyErr a else .pending)
  | none =>
      match run (runFuel s) s now with
      | (s, .pending) => (s, .pending)
      | (s, .ok) => (s, .readyOk)
      | (s, .spin) => ({ s with poisoned := true }, .pending)
      | (s, .err a) =>
          let s := { s with termErr := some a }
          let (s, fin) := shutDown s a
          (s, if fin then .readyErr a else .pending)

def pollDispatchKeep (s : St) (now : Nat) : St :=
  if s.dDropped || s.done.isSome || s.poisoned then emit s .noop
  else
    let obs0 := s.obs
    let s := { s with dWoken := false }
    let (s, r) := pollDispatchCore s now
    let spun := s.obs.any (fun o => match o with | .spin _ => true | _ => false) && !(obs0.any (fun o => match o with | .spin _ => true | _ => false))
    let s := if spun then { s with obs := .spin (tid s) :: obs0, poisoned := true }
             else if s.poisoned then s
             else emit (emit s (.ret (tid s) r)) (.counts (tid s) s.inflight.length s.timers.len)
    match r with
    | .pending => s
    | _ => { s with done := some r }

/-- Dropping the dispatch: the queues' receivers, the in-flight table and the transport go away. -/
def dropDispatch (s : St) : St :=
  if s.dDropped || s.poisoned then emit s .noop
  else
    let s := { s with dDropped := true, dWoken := false }
    -- pending_requests: `close()` then every queued message is dropped (its oneshot sender with it)
    let s := pqClose s
    let qs := s.pq
    let s := qs.foldl (fun s r => osDropTx s r.cid) { s with pq := [], pqAvail := s.bufCap - s.pqAssigned.length }
    -- in_flight_requests: the oneshot senders are dropped
    let es := s.inflight
    let s := es.foldl (fun s e => osDropTx s e.cid) { s with inflight := [], timers := {} }
    { s with cq := [] }

/-- One poll of the dispatch by an executor: a completed future is dropped right away. -/
def pollDispatch (s : St) (now : Nat) : St :=
  let s := pollDispatchKeep s now
  if s.done.isSome && !s.dDropped then
    dropDispatch s
  else s

/-! ### the call future -/

/-- `ResponseGuard::drop`, first half: close the receiver. -/
def guardClose (s : St) (cid : Nat) : St :=
  updCall s cid (fun c => { c with os := { c.os with rxClosed := true, rxWaker := false } })

/-- The tail of a call future's life: its handle clone is dropped. -/
def afterCallGone (s : St) : St :=
  -- the last sender going away wakes a receiver parked on either queue
  if senders s == 0 then
    let s := if s.pqRxWaker then wakeDispatch { s with pqRxWaker := false } else s
    if s.cqRxWaker then wakeDispatch { s with cqRxWaker := false } else s
  else s

def resolve (s : St) (cid : Nat) (o : Outcome) (now : Nat) : St :=
  let s := updCall s cid (fun c => { c with phase := .resolved, outcome := some o, woken := false,
                                            os := { c.os with rxClosed := true, rxWaker := false } })
  afterCallGone (emit s (.resolved cid o now))

/-- `send` failed because the queue is closed: the guard is dropped armed (close, then cancel). -/
def failShutdown (s : St) (cid : Nat) (id : Nat) (now : Nat) : St :=
  let s := osDropTx s cid                   -- the unsent `DispatchRequest` is dropped with its sender
  let s := guardClose s cid
  let s := cqPush s id
  resolve s cid .shutdown now

/-- Polling the oneshot in `ResponseGuard::response`. -/
def pollOneshot (s : St) (cid : Nat) (now : Nat) : St :=
  match getCall s cid with
  | none => s
  | some c =>
      match c.os.val with
      | some o => resolve (updCall s cid (fun c => { c with os := { c.os with val := none } })) cid o now
      | none =>
          if c.os.txDropped then resolve s cid .shutdown now
          else emit (updCall s cid (fun c => { c with os := { c.os with rxWaker := true } })) (.ret (.call cid) .pending)

/-- The permit is in hand: enqueue the request and start waiting for the response. -/
def enqueue (s : St) (c : Call) (now : Nat) : St :=
  let s := pqPush s { cid := c.cid, id := c.id, ctx := { deadline := c.ctx.deadline, trace := c.trace }, body := c.body }
  let s := updCall s c.cid (fun c => { c with phase := .awaiting })
  pollOneshot s c.cid now

def pollCall (s : St) (cid : Nat) (now : Nat) : St :=
  match getCall s cid with
  | none => emit s .noop
  | some c =>
      match c.phase with
      | .resolved | .dropped => emit s .noop
      | .notPolled =>
          -- the body of `call` up to the first await
          let tr : Trace := { c.ctx.trace with span := .fresh s.nextFresh }
          let id := s.nextId
          let s := { s with nextFresh := s.nextFresh + 1, nextId := s.nextId + 1 }
          let s := updCall s cid (fun c => { c with id := id, trace := tr, woken := false })
          let c := { c with id := id, trace := tr }
          if s.pqClosed || s.dDropped then failShutdown s cid id now
          else if s.pqAvail > 0 then enqueue { s with pqAvail := s.pqAvail - 1 } c now
          else
            emit (updCall { s with pqWaiters := s.pqWaiters ++ [cid] } cid (fun c => { c with phase := .reserving }))
              (.ret (.call cid) .pending)
      | .reserving =>
          let s := updCall s cid (fun c => { c with woken := false })
          if s.pqClosed || s.dDropped then
            -- `Acquire` returns `Err(closed)`; a permit it had been handed goes back silently
            let had := s.pqAssigned.contains cid
            let s := { s with pqAssigned := s.pqAssigned.filter (· != cid), pqWaiters := s.pqWaiters.filter (· != cid),
                              pqAvail := if had then s.pqAvail + 1 else s.pqAvail }
            failShutdown s cid c.id now
          else if s.pqAssigned.contains cid then
            enqueue { s with pqAssigned := s.pqAssigned.filter (· != cid) } c now
          else emit s (.ret (.call cid) .pending)
      | .awaiting =>
          pollOneshot (updCall s cid (fun c => { c with woken := false })) cid now

/-- The three stages of dropping an unresolved call future (the hook's yield points sit between
them): `dropPre` (the pending `send` future, if any), `dropClose` (guard: close the receiver),
`dropCancel` (guard: queue the cancellation, then the rest of the future's state). -/
def dropPre (s : St) (cid : Nat) : St :=
  match getCall s cid with
  | none => s
  | some c =>
      match c.phase with
      | .reserving =>
          -- `Acquire::drop`: leave the wait queue, hand back an assigned permit; the message and its
          -- oneshot sender are dropped
          let had := s.pqAssigned.contains cid
          let s := { s with pqAssigned := s.pqAssigned.filter (· != cid), pqWaiters := s.pqWaiters.filter (· != cid) }
          let s := if had then pqRelease s else s
          osDropTx s cid
      | _ => s

def dropClose (s : St) (cid : Nat) : St :=
  match getCall s cid with
  | none => s
  | some c =>
      match c.phase with
      | .reserving | .awaiting => guardClose s cid
      | _ => s

def dropCancel (s : St) (cid : Nat) : St :=
  match getCall s cid with
  | none => s
  | some c =>
      match c.phase with
      | .reserving | .awaiting => cqPush s c.id
      | _ => s

/-- The rest of the future's state goes away (its handle clone last). -/
def dropFinish (s : St) (cid : Nat) : St :=
  match getCall s cid with
  | none => emit s .noop
  | some c =>
      match c.phase with
      | .reserving | .awaiting | .notPolled =>
          afterCallGone (updCall s cid (fun c => { c with phase := .dropped, woken := false }))
      | _ => emit s .noop

inductive DropAt where
  | none | enter | mid | exit
deriving Repr, DecidableEq

/-- Drop call `cid`, running the dispatch at one of the guard's yield points if asked. -/
def dropCall (s : St) (cid : Nat) (at_ : DropAt) (now : Nat) : St :=
  let guarded := match getCall s cid with
    | some c => c.phase == .reserving || c.phase == .awaiting
    | none => false
  let s := dropPre s cid
  let s := if guarded && at_ == .enter then pollDispatch s now else s
  let s := dropClose s cid
  let s := if guarded && at_ == .mid then pollDispatch s now else s
  let s := dropCancel s cid
  let s := if guarded && at_ == .exit then pollDispatch s now else s
  dropFinish s cid

/-! ### handles and external events -/

def newCall (s : St) (h : Nat) (ctx : Ctx) (body : Nat) : St :=
  if s.handles.contains h then
    let cid := s.calls.length
    { s with calls := s.calls ++ [{ cid := cid, ctx := ctx, body := body, trace := ctx.trace }] }
  else emit s .noop

def cloneHandle (s : St) (h : Nat) : St :=
  if s.handles.contains h then { s with handles := s.handles ++ [s.nextHandle], nextHandle := s.nextHandle + 1 }
  else emit s .noop

def dropHandle (s : St) (h : Nat) : St :=
  if s.handles.contains h then afterCallGone { s with handles := s.handles.filter (· != h) }
  else emit s .noop

def liftT (s : St) (r : SimT × Bool) : St :=
  let s := { s with t := r.1 }
  if r.2 then wakeDispatch s else s

/-- Timers fire when the clock reaches them: the tokio timer wakes the dispatch. -/
def onAdvance (s : St) (now : Nat) : St :=
  match s.timers.nextFire with
  | some t => if t ≤ now && s.timers.waker then wakeDispatch { s with timers := { s.timers with waker := false } } else s
  | none => s

def init (k maxInFlight bufCap tcap : Nat) (coupled : Bool) : St :=
  { k := k, maxInFlight := maxInFlight, bufCap := bufCap, pqAvail := bufCap,
    t := { cap := tcap, coupled := coupled } }

end TarpcModel.Client

import TarpcModel.Gen.Cpk
/-
Model of `tarpc/src/server/limits/channels_per_key.rs` (`MaxChannelsPerKey`).

One `Tracker` per key is shared (through an `Arc`) by all live channels of that key; the filter
keeps `key ↦ Weak<Tracker>`.  A tracker whose last channel is dropped pushes its key onto the
`dropped_keys` queue.  `poll_next` evaluates `poll_listener` and then `poll_closed_channels` in
the same loop iteration (the tuple expression), which is what the C13 race is about.

`guardStale = true` is the code after the `fix:` commit (a drop notification removes the map
entry only if the entry's tracker is dead); `guardStale = false` is the code as first found and
is kept only for the witness theorem that documents the defect.
-/
namespace TarpcModel.CPK

structure Chan where
  id  : Nat
  key : Nat
  tid : Nat
deriving Repr, DecidableEq

structure St where
  limit      : Nat
  guardStale : Bool := true
  listener   : List (Nat × Nat) := []   -- (chan id, key) of arrivals not yet polled
  ended      : Bool := false            -- the listener stream has ended
  keyCounts  : List (Nat × Nat) := []   -- key ↦ tracker id   (FnvHashMap<K, Weak<Tracker>>)
  dropped    : List Nat := []           -- dropped_keys queue (FIFO)
  chans      : List Chan := []          -- yielded channels still alive
  nextTid    : Nat := 0
  nextChan   : Nat := 0
deriving Repr

inductive Op where
  | arrive (key : Nat)
  | endListener
  | close (chan : Nat)
  | poll
deriving Repr, DecidableEq

inductive Obs where
  | arrived (chan key : Nat)
  | shed (chan key : Nat)
  | yielded (chan key : Nat)
  | pending
  | ended
  | closed (chan : Nat)
  | noop
deriving Repr, DecidableEq

def lookup (k : Nat) : List (Nat × Nat) → Option Nat
  | [] => none
  | (k', t) :: m => if k' = k then some t else lookup k m

def erase (k : Nat) : List (Nat × Nat) → List (Nat × Nat)
  | [] => []
  | (k', t) :: m => if k' = k then erase k m else (k', t) :: erase k m

def set (k t : Nat) (m : List (Nat × Nat)) : List (Nat × Nat) :=
  (k, t) :: erase k m

/-- `Weak::strong_count` of tracker `t`: the number of live channels holding it. -/
def strongCount (t : Nat) (cs : List Chan) : Nat :=
  (cs.filter (fun c => c.tid == t)).length

/-- Number of live yielded channels with key `k` (what the property talks about). -/
def aliveForKey (k : Nat) (cs : List Chan) : Nat :=
  (cs.filter (fun c => c.key == k)).length

/-- `increment_channels_for_key`: `some tid` = admitted with that tracker, `none` = shed. -/
def increment (s : St) (k : Nat) : St × Option Nat :=
  match lookup k s.keyCounts with
  | none =>
      ({ s with keyCounts := set k s.nextTid s.keyCounts, nextTid := s.nextTid + 1 }, some s.nextTid)
  | some t =>
      let count := strongCount t s.chans
      if count ≥ s.limit then (s, none)
      else if count > 0 then (s, some t)           -- `upgrade()` succeeds
      else ({ s with keyCounts := set k s.nextTid s.keyCounts, nextTid := s.nextTid + 1 },
            some s.nextTid)                         -- dead tracker: recreate and replace

inductive ListenerPoll where
  | pending | none | admitted (c : Chan) | shedded
deriving Repr

/-- `poll_listener` (the listener is `Fuse`d, so after its end it keeps returning `None`). -/
def pollListener (s : St) : St × ListenerPoll × List Obs :=
  match s.listener with
  | (cid, k) :: rest =>
      let s := { s with listener := rest }
      match increment s k with
      | (s, some t) =>
          let c : Chan := { id := cid, key := k, tid := t }
          ({ s with chans := s.chans ++ [c] }, .admitted c, [.yielded cid k])
      | (s, none) => (s, .shedded, [.shed cid k])
  | [] => if s.ended then (s, .none, []) else (s, .pending, [])

/-- Whether a drop notification for `k` removes the map entry.  After the fix: only if the entry's
tracker is dead (an absent entry has nothing to remove).  Before the fix: always. -/
def eraseOnNotify (s : St) (k : Nat) : Bool :=
  if s.guardStale then
    match lookup k s.keyCounts with
    | some t => strongCount t s.chans == 0
    | none => false
  else true

/-- `poll_closed_channels`: `true` = `Ready(())`. -/
def pollClosed (s : St) : St × Bool :=
  match s.dropped with
  | k :: rest =>
      ({ s with dropped := rest,
                keyCounts := if eraseOnNotify s k then erase k s.keyCounts else s.keyCounts }, true)
  | [] => (s, false)

/-- `Stream::poll_next` for `MaxChannelsPerKey`. -/
def pollNext : Nat → St → St × List Obs
  | 0, s => (s, [.pending])     -- unreachable with the fuel given by `pollFuel`
  | fuel + 1, s =>
      let (s, l, o) := pollListener s
      let (s, c) := pollClosed s
      match l, c with
      | .admitted _, _ => (s, o)
      | .shedded, _ => let (s', o') := pollNext fuel s; (s', o ++ o')
      | _, true => let (s', o') := pollNext fuel s; (s', o ++ o')
      | .pending, false => (s, o ++ [.pending])
      | .none, false => (s, o ++ [.ended])

def pollFuel (s : St) : Nat := s.listener.length + s.dropped.length + 1

def closeChan (s : St) (cid : Nat) : St × List Obs :=
  match s.chans.find? (fun c => c.id == cid) with
  | none => (s, [.noop])
  | some c =>
      let chans := s.chans.filter (fun c => c.id != cid)
      -- `Tracker::drop` runs when the last `Arc` goes away and sends the key.
      let dropped := if strongCount c.tid chans == 0 then s.dropped ++ [c.key] else s.dropped
      ({ s with chans := chans, dropped := dropped }, [.closed cid])

def step (s : St) : Op → St × List Obs
  | .arrive k =>
      if s.ended then (s, [.noop]) else
      ({ s with listener := s.listener ++ [(s.nextChan, k)], nextChan := s.nextChan + 1 },
       [.arrived s.nextChan k])
  | .endListener => ({ s with ended := true }, [])
  | .close c => closeChan s c
  | .poll => pollNext (pollFuel s) s

def run (s : St) : List Op → St × List Obs
  | [] => (s, [])
  | op :: ops =>
      let (s', o) := step s op
      let (s'', o') := run s' ops
      (s'', o ++ o')

def init (limit : Nat) (guardStale : Bool := true) : St := { limit := limit, guardStale := guardStale }

/-- The initial state for the code as it is now: the removal policy is read from the source by the
translator (`Gen/Cpk.lean`). -/
def initCurrent (limit : Nat) : St := init limit Gen.cpkGuardStale

end TarpcModel.CPK

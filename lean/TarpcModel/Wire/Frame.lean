/-
Model of the length-delimited framing under `tarpc::serde_transport`
(`tokio_util::codec::Framed<S, LengthDelimitedCodec>` with the default builder: 4-byte big-endian
length prefix, no length adjustment, `max_frame_len = 8 MiB`), as a *streaming* decoder.

* `frame` / `encode`  : `impl Encoder<Bytes> for LengthDelimitedCodec` (rejects `len > max_frame_len`).
* `decode`            : one call of `impl Decoder for LengthDelimitedCodec::decode` on the read buffer,
                        with the codec's `DecodeState::{Head, Data(n)}`; `decode_head` consumes the four
                        header bytes as soon as they are all there, `decode_data` waits for `n` bytes.
* `drainAll`          : the `FramedRead::poll_next` loop polled until it returns `Pending`
                        (decode, decode, … until `Ok(None)` or `Err`).
* `feed`              : one chunk handed out by the underlying `AsyncRead` (an empty chunk is a read that
                        made no progress), then drain.  An oversize header poisons the stream (`failed`).
* `finish`            : the read side reaches EOF: `Decoder::decode_eof` = `decode`, then
                        `if buf.is_empty() { Ok(None) } else { Err("bytes remaining on stream") }`.
                        NB the test is on the *buffer*, not on the codec state: an EOF that falls exactly
                        between a header and its (non-empty) body is therefore reported as a clean end of
                        stream.  The model keeps that behaviour (see `Props/C15Stream.lean`).

Core Lean only (the `driver` executable links this file).
-/
namespace TarpcModel.Wire

abbrev Payload := List UInt8

/-- `length_delimited::Builder::new().max_frame_len` (tokio-util 0.7): `8 * 1_024 * 1_024`. -/
def defaultMaxFrameLen : Nat := 8 * 1024 * 1024

/-- Big-endian 32-bit length prefix (`dst.put_uint(n, 4)`). -/
def be32 (n : Nat) : List UInt8 :=
  [UInt8.ofNat (n / 16777216 % 256), UInt8.ofNat (n / 65536 % 256), UInt8.ofNat (n / 256 % 256),
   UInt8.ofNat (n % 256)]

/-- `src.get_uint(4)` on the four header bytes. -/
def be32Val (b0 b1 b2 b3 : UInt8) : Nat :=
  b0.toNat * 16777216 + b1.toNat * 65536 + b2.toNat * 256 + b3.toNat

/-- One frame on the wire. -/
def frame (p : Payload) : List UInt8 := be32 p.length ++ p

/-- `Encoder::encode`: `None` = `Err(InvalidInput, LengthDelimitedCodecError)` (frame too big). -/
def encode (max : Nat) (p : Payload) : Option (List UInt8) :=
  if p.length > max then none else some (frame p)

/-- `DecodeState`. -/
inductive Phase where
  | head
  | data (n : Nat)
deriving Repr, DecidableEq

structure DecState where
  max    : Nat := defaultMaxFrameLen
  buf    : List UInt8 := []          -- `ReadFrame::buffer`
  phase  : Phase := .head            -- `LengthDelimitedCodec::state`
  failed : Bool := false             -- `decode` returned `Err` (oversize length); the stream is dead
deriving Repr, DecidableEq

/-- Result of one `decode` call. -/
inductive Step where
  | none                    -- `Ok(None)`
  | frame (p : Payload)     -- `Ok(Some(p))`
  | oversize                -- `Err(InvalidData, LengthDelimitedCodecError)`
deriving Repr, DecidableEq

/-- `decode_data`. -/
def decodeData (s : DecState) (n : Nat) : DecState × Step :=
  if s.buf.length < n then (s, .none)
  else ({ s with buf := s.buf.drop n, phase := .head }, .frame (s.buf.take n))

/-- `Decoder::decode` (a poisoned stream is never decoded again). -/
def decode (s : DecState) : DecState × Step :=
  if s.failed then (s, .none) else
  match s.phase with
  | .head =>
      match s.buf with
      | b0 :: b1 :: b2 :: b3 :: rest =>
          if be32Val b0 b1 b2 b3 > s.max then (s, .oversize)      -- the header stays in the buffer
          else decodeData { s with buf := rest, phase := .data (be32Val b0 b1 b2 b3) } (be32Val b0 b1 b2 b3)
      | _ => (s, .none)
  | .data n => decodeData s n

/-- Upper bound on the number of `decode` calls that can return a frame. -/
def measure (s : DecState) : Nat :=
  s.buf.length + (match s.phase with | .head => 0 | .data _ => 1) + 1

/-- `poll_next` repeated until `Pending`/error, with explicit fuel. -/
def drain : Nat → DecState → DecState × List Payload
  | 0, s => (s, [])
  | fuel + 1, s =>
      match decode s with
      | (s', .frame p) => ((drain fuel s').1, p :: (drain fuel s').2)
      | (s', .none) => (s', [])
      | (s', .oversize) => ({ s' with failed := true }, [])

def drainAll (s : DecState) : DecState × List Payload := drain (measure s) s

/-- Bytes arriving from the `AsyncRead`. -/
def DecState.push (s : DecState) (bs : List UInt8) : DecState := { s with buf := s.buf ++ bs }

/-- One chunk (possibly empty) followed by polling until `Pending`: new state and the frames emitted. -/
def feed (s : DecState) (chunk : List UInt8) : DecState × List Payload := drainAll (s.push chunk)

/-- A whole sequence of chunks. -/
def feedAll (s : DecState) : List (List UInt8) → DecState × List Payload
  | [] => (s, [])
  | c :: cs => ((feedAll (feed s c).1 cs).1, (feed s c).2 ++ (feedAll (feed s c).1 cs).2)

inductive Finish where
  | clean        -- `None`: end of stream
  | truncated    -- `Err("bytes remaining on stream")`
  | failed       -- the stream had already failed (oversize length)
deriving Repr, DecidableEq

/-- The reader hits EOF. -/
def finish (s : DecState) : Finish :=
  if s.failed then .failed else if s.buf.isEmpty then .clean else .truncated

def initDec (max : Nat := defaultMaxFrameLen) : DecState := { max := max }

end TarpcModel.Wire

import TarpcModel.Wire.ErrorKind
import TarpcModel.Gen.Flags
/-!
# tarpc's protocol types under `tokio_serde::formats::Bincode` (= bincode 1.3 `DefaultOptions`)

Value-level model of what `serde` derive + bincode write and read for the types of
`tarpc/src/lib.rs`, `context.rs`, `trace.rs`:

* struct = its fields in order, no framing; newtype struct = its field;
* enum = `u32` varint variant index, then the variant's fields;
* `u64`/`u32` = varint; `String` = `u64` varint byte length + UTF-8 bytes (validated on read);
* `[u8; 16]` (the `TraceId`) = 16 raw bytes, little endian;
* `std::time::Duration` = `{secs: u64, nanos: u32}`; serde's reader accepts `nanos ≥ 10^9`, carries
  them into `secs` (`Duration::new`) and rejects only a `u64` overflow of `secs`;
* `context::Context.deadline` is written as the remaining `Duration`; the model carries that
  `Duration`.  Reading converts back with `now + d`, which **panics** when the `Instant` overflows
  (`instantAddPanics`; this is property C16's business, modelled here so that the driver agrees with the
  real reader on every byte string);
* `ServerError.kind` goes through `ErrorKind.lean`;
* top level (`Options::deserialize` of `DefaultOptions`): trailing bytes are rejected.

The message body type `T` is abstract: `(encT : T → Bytes) (decT : Parser T)`.
-/
namespace TarpcModel.Bincode

structure Duration where
  secs : Nat
  nanos : Nat
  deriving DecidableEq, Repr

/-- `trace::Context`. -/
structure TraceContext where
  traceId : Nat
  spanId : Nat
  sampled : Bool
  deriving DecidableEq, Repr

/-- `context::Context` with the deadline as the remaining duration (what is on the wire). -/
structure Context where
  deadline : Duration
  trace : TraceContext
  deriving DecidableEq, Repr

structure Request (T : Type) where
  context : Context
  id : Nat
  message : T
  deriving DecidableEq, Repr

inductive ClientMessage (T : Type) where
  | request (r : Request T)
  | cancel (trace : TraceContext) (requestId : Nat)
  deriving DecidableEq, Repr

structure ServerError where
  kind : String
  detail : String
  deriving DecidableEq, Repr

/-- `Result<T, ServerError>`. -/
inductive RespBody (T : Type) where
  | ok (t : T)
  | err (e : ServerError)
  deriving DecidableEq, Repr

structure Response (T : Type) where
  requestId : Nat
  message : RespBody T
  deriving DecidableEq, Repr

/-! ## Strings -/

def strBytes (s : String) : Bytes := s.toUTF8.data.toList

def encStr (s : String) : Bytes := encU64 (strBytes s).length ++ strBytes s

def decStr : Parser String := fun bs => do
  let (n, bs) ← decU64 bs
  if n ≤ bs.length then
    (String.fromUTF8? ⟨(bs.take n).toArray⟩).map fun s => (s, bs.drop n)
  else none

/-! ## Duration, contexts -/

def encDuration (d : Duration) : Bytes := encU64 d.secs ++ encU32 d.nanos

def decDuration : Parser Duration := fun bs => do
  let (s, bs) ← decU64 bs
  let (n, bs) ← decU32 bs
  let s' := s + n / 1000000000
  if s' < 2 ^ 64 then some ({ secs := s', nanos := n % 1000000000 }, bs) else none

def encTrace (t : TraceContext) : Bytes :=
  leBytes 16 t.traceId ++ encU64 t.spanId ++ encU32 (if t.sampled then 0 else 1)

def decTrace : Parser TraceContext := fun bs => do
  let (tid, bs) ← decLE 16 bs
  let (sid, bs) ← decU64 bs
  let (v, bs) ← decU32 bs
  if v = 0 then some ({ traceId := tid, spanId := sid, sampled := true }, bs)
  else if v = 1 then some ({ traceId := tid, spanId := sid, sampled := false }, bs)
  else none

def encContext (c : Context) : Bytes := encDuration c.deadline ++ encTrace c.trace

def decContext : Parser Context := fun bs => do
  let (d, bs) ← decDuration bs
  let (t, bs) ← decTrace bs
  some ({ deadline := d, trace := t }, bs)

/-! ## Messages -/

section
variable {T : Type} (encT : T → Bytes) (decT : Parser T)

def encRequest (r : Request T) : Bytes := encContext r.context ++ encU64 r.id ++ encT r.message

def decRequest : Parser (Request T) := fun bs => do
  let (c, bs) ← decContext bs
  let (id, bs) ← decU64 bs
  let (m, bs) ← decT bs
  some ({ context := c, id := id, message := m }, bs)

def encClientMessage : ClientMessage T → Bytes
  | .request r => encU32 0 ++ encRequest encT r
  | .cancel t id => encU32 1 ++ encTrace t ++ encU64 id

def decClientMessage : Parser (ClientMessage T) := fun bs => do
  let (v, bs) ← decU32 bs
  if v = 0 then
    let (r, bs) ← decRequest decT bs
    some (.request r, bs)
  else if v = 1 then
    let (t, bs) ← decTrace bs
    let (id, bs) ← decU64 bs
    some (.cancel t id, bs)
  else none

def encServerError (e : ServerError) : Bytes := encodeKind e.kind ++ encStr e.detail

def decServerError : Parser ServerError := fun bs => do
  let (k, bs) ← decKindP bs
  let (d, bs) ← decStr bs
  some ({ kind := k, detail := d }, bs)

def encResponse (r : Response T) : Bytes :=
  encU64 r.requestId ++
    match r.message with
    | .ok t => encU32 0 ++ encT t
    | .err e => encU32 1 ++ encServerError e

def decResponse : Parser (Response T) := fun bs => do
  let (id, bs) ← decU64 bs
  let (v, bs) ← decU32 bs
  if v = 0 then
    let (t, bs) ← decT bs
    some ({ requestId := id, message := .ok t }, bs)
  else if v = 1 then
    let (e, bs) ← decServerError bs
    some ({ requestId := id, message := .err e }, bs)
  else none

/-- Whole-buffer read (`RejectTrailing`). -/
def complete {α : Type} (p : Parser α) (bs : Bytes) : Option α :=
  match p bs with
  | some (a, []) => some a
  | _ => none

def decodeClientMessage (bs : Bytes) : Option (ClientMessage T) := complete (decClientMessage decT) bs
def decodeResponse (bs : Bytes) : Option (Response T) := complete (decResponse decT) bs

/-! ## The `Instant` conversion of the deadline (outside the value-level codec) -/

/-- `now + d` overflows `Instant` (Linux: `i64` seconds).  The real threshold is
`2^63 - now.tv_sec`; the model takes `now.tv_sec = 0` and the harness avoids the band
`[2^63 - 2^40, 2^63)`. -/
def instantAddPanics (d : Duration) : Bool := decide (2 ^ 63 ≤ d.secs)

inductive Outcome (α : Type) where
  | value (a : α)
  | error
  | panic
  deriving DecidableEq, Repr

/-- What the real reader does with a buffer: the deadline is the first field of a `Request`, and the
overflowing `now + d` happens while that field is read, before anything after it is looked at. -/
def readClientMessage (bs : Bytes) : Outcome (ClientMessage T) :=
  let early : Bool :=
    match decU32 bs with
    | some (0, r) =>
      match decDuration r with
      | some (d, _) => instantAddPanics d
      | none => false
    | _ => false
  if early then
    -- the deadline does not fit an `Instant`: the code either panics (as first found) or saturates to
    -- a deadline `Gen.deadlineFarFutureSecs` away (after the fix); which one is read off the source
    if Gen.deadlineSaturates then
      match decodeClientMessage decT bs with
      | some (.request r) =>
          .value (.request { r with context := { r.context with deadline := ⟨Gen.deadlineFarFutureSecs, 0⟩ } })
      | some m => .value m
      | none => .error
    else .panic
  else match decodeClientMessage decT bs with
    | some m => .value m
    | none => .error

end

/-! ## Validity (the ranges of the Rust types) -/

def Duration.Valid (d : Duration) : Prop := d.secs < 2 ^ 64 ∧ d.nanos < 1000000000
def TraceContext.Valid (t : TraceContext) : Prop := t.traceId < 2 ^ 128 ∧ t.spanId < 2 ^ 64
def Context.Valid (c : Context) : Prop := c.deadline.Valid ∧ c.trace.Valid
def strValid (s : String) : Prop := (strBytes s).length < 2 ^ 64
def Request.Valid {T : Type} (PT : T → Prop) (r : Request T) : Prop :=
  r.context.Valid ∧ r.id < 2 ^ 64 ∧ PT r.message
def ClientMessage.Valid {T : Type} (PT : T → Prop) : ClientMessage T → Prop
  | .request r => r.Valid PT
  | .cancel t id => t.Valid ∧ id < 2 ^ 64
def Response.Valid {T : Type} (PT : T → Prop) (r : Response T) : Prop :=
  r.requestId < 2 ^ 64 ∧
    match r.message with
    | .ok t => PT t
    | .err e => strValid e.detail

/-- The hypothesis on the abstract body codec: `decT` reads back what `encT` wrote for every body
satisfying `PT` (its Rust type's range), whatever bytes follow. -/
def BodyCodec {T : Type} (encT : T → Bytes) (decT : Parser T) (PT : T → Prop) : Prop :=
  ∀ t rest, PT t → decT (encT t ++ rest) = some (t, rest)

/-- A response after the kind of its error (if any) was replaced by `k'`. -/
def Response.withKind {T : Type} (r : Response T) (k' : String) : Response T :=
  match r.message with
  | .ok _ => r
  | .err e => { r with message := .err { e with kind := k' } }

end TarpcModel.Bincode

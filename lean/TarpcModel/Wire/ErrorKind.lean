import TarpcModel.Wire.Varint
import TarpcModel.Gen.ErrorKindTable
/-!
# `io::ErrorKind` on the bincode wire (`tarpc/src/util/serde.rs`)

`serialize_io_error_kind_as_u32` maps the kind through the *write table* (`Gen.ekSerTable`, default
`Gen.ekSerDefault`) and hands the resulting integer literal to serde.  The integer's **type** is
`Gen.ekSerTy`: when the match arms are untyped literals Rust's integer fallback makes it `i32`, which
bincode's varint encoding zigzag-maps (`k ↦ 2k`) before writing.  `deserialize_io_error_kind_from_u32`
reads an integer of type `Gen.ekDeTy` (`u32`: a plain unsigned varint) and maps it through the *read
table* (`Gen.ekDeTable`, default `Gen.ekDeDefault`).

Error kinds are identified by their Rust variant names (`String`), as in the generated tables; every
name outside the write table is a non-portable kind.  The tables and the two type names come from
`TarpcModel.Gen` (regenerated from the Rust source on every run) — nothing is copied here.
-/
namespace TarpcModel.Bincode
open TarpcModel.Gen

/-- First match wins, like a Rust `match`. -/
def lookupSer (k : String) : List (String × Nat) → Nat → Nat
  | [], d => d
  | (n, v) :: t, d => if k = n then v else lookupSer k t d

def lookupDe (v : Nat) : List (Nat × String) → String → String
  | [], d => d
  | (n, k) :: t, d => if v = n then k else lookupDe v t d

/-- The kinds with their own arm in the write table (the "18 portable kinds"). -/
def portableKinds : List String := ekSerTable.map (·.1)

/-- The integer the write table yields for a kind (`_ => default` for every other kind). -/
def kindNum (k : String) : Nat := lookupSer k ekSerTable ekSerDefault

/-- The kind the read table yields for an integer (`_ => default`; negative values can only arise
for a signed read type and have no arm). -/
def kindOfNum (i : Int) : String :=
  if i < 0 then ekDeDefault else lookupDe i.toNat ekDeTable ekDeDefault

/-- bincode bytes of the non-negative integer `n` serialized as Rust type `ty`.
`u8`/`i8`: one raw byte; `i16`/`i32`/`i64`/`isize`: zigzag varint; anything else
(`u16`/`u32`/`u64`/`usize`): unsigned varint. -/
def encKindNum (ty : String) (n : Nat) : Bytes :=
  if ty = "u8" ∨ ty = "i8" then encU8 n
  else if ty = "i16" ∨ ty = "i32" ∨ ty = "i64" ∨ ty = "isize" then encSigned (n : Int)
  else encVarint n

def natP (p : Parser Nat) : Parser Int := fun bs => (p bs).map fun (v, r) => ((v : Int), r)

/-- bincode read of an integer of Rust type `ty` (value as a mathematical integer). -/
def decKindNum (ty : String) : Parser Int :=
  if ty = "u8" then natP decU8
  else if ty = "i8" then fun bs => (decU8 bs).map fun (v, r) => ((if v < 128 then (v : Int) else (v : Int) - 256), r)
  else if ty = "u16" then natP decU16
  else if ty = "u64" ∨ ty = "usize" then natP decU64
  else if ty = "i16" then decI16
  else if ty = "i32" then decI32
  else if ty = "i64" ∨ ty = "isize" then decI64
  else natP decU32

/-- What `serialize_io_error_kind_as_u32` writes if its literals had type `ty`. -/
def encodeKindWith (ty : String) (k : String) : Bytes := encKindNum ty (kindNum k)

/-- What the current source writes (`ty = Gen.ekSerTy`). -/
def encodeKind (k : String) : Bytes := encodeKindWith ekSerTy k

/-- `deserialize_io_error_kind_from_u32` as a parser. -/
def decKindP : Parser String := fun bs =>
  (decKindNum ekDeTy bs).map fun (i, r) => (kindOfNum i, r)

/-- Value-level read of a complete kind encoding: the bytes must be consumed exactly. -/
def decodeKind (bs : Bytes) : Option String :=
  match decKindP bs with
  | some (k, []) => some k
  | _ => none

end TarpcModel.Bincode

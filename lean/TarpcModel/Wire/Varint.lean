/-!
# bincode 1.3 `VarintEncoding` (the integer encoding of `bincode::DefaultOptions`)

Model of `bincode-1.3.3/src/config/int.rs`:

* an unsigned `u` (`u16`/`u32`/`u64`) is written as one byte if `u ≤ 250`, else `251` + 2 LE bytes if
  `u < 2^16`, else `252` + 4 LE bytes if `u < 2^32`, else `253` + 8 LE bytes (`u128`: `254` + 16);
* a signed integer is zigzag-mapped to an unsigned one first;
* the reader (`deserialize_varint`) accepts *any* prefix `0..=253` whatever the value that follows
  (non-canonical encodings such as `fb 05 00` for `5` are accepted — checked against the real crate),
  rejects `254` (when reading at most 64 bits) and `255`, fails on a short buffer, and afterwards
  range-checks the *value* against the target width (`cast_u64_to_u32` …);
* `u8` is a single raw byte.

Bytes are `List UInt8` everywhere; integers are `Nat` / `Int` with explicit range hypotheses.
Core Lean only.
-/
namespace TarpcModel.Bincode

abbrev Bytes := List UInt8

/-- A decoder: consumes a prefix of the input, returns the value and the unread rest. -/
abbrev Parser (α : Type) := Bytes → Option (α × Bytes)

/-- `n` little-endian bytes of `v` (the low `8n` bits). -/
def leBytes : Nat → Nat → Bytes
  | 0, _ => []
  | n + 1, v => UInt8.ofNat (v % 256) :: leBytes n (v / 256)

/-- Value of a little-endian byte string. -/
def leVal : Bytes → Nat
  | [] => 0
  | b :: t => b.toNat + 256 * leVal t

/-- Read exactly `n` raw little-endian bytes (`deserialize_literal_u16/32/64/128`, `[u8; n]`). -/
def decLE (n : Nat) : Parser Nat := fun bs =>
  if n ≤ bs.length then some (leVal (bs.take n), bs.drop n) else none

/-- `serialize_varint` (values `< 2^64`). -/
def encVarint (v : Nat) : Bytes :=
  if v ≤ 250 then [UInt8.ofNat v]
  else if v < 2 ^ 16 then 251 :: leBytes 2 v
  else if v < 2 ^ 32 then 252 :: leBytes 4 v
  else 253 :: leBytes 8 v

/-- `serialize_varint128` (values `< 2^128`). -/
def encVarint128 (v : Nat) : Bytes :=
  if v < 2 ^ 64 then encVarint v else 254 :: leBytes 16 v

/-- `deserialize_varint`: the `u64`-range reader used for `u16`/`u32`/`u64`/`i16`/`i32`/`i64`/lengths
and enum variant indices. -/
def decVarint : Parser Nat
  | [] => none
  | b :: t =>
    if b.toNat ≤ 250 then some (b.toNat, t)
    else if b.toNat = 251 then decLE 2 t
    else if b.toNat = 252 then decLE 4 t
    else if b.toNat = 253 then decLE 8 t
    else none

/-- `deserialize_varint128`. -/
def decVarint128 : Parser Nat
  | [] => none
  | b :: t =>
    if b.toNat ≤ 250 then some (b.toNat, t)
    else if b.toNat = 251 then decLE 2 t
    else if b.toNat = 252 then decLE 4 t
    else if b.toNat = 253 then decLE 8 t
    else if b.toNat = 254 then decLE 16 t
    else none

/-- Read a varint and range-check the value (`cast_u64_to_u16`, `cast_u64_to_u32`). -/
def decVarintBounded (bound : Nat) : Parser Nat := fun bs =>
  match decVarint bs with
  | some (v, r) => if v < bound then some (v, r) else none
  | none => none

def encU8 (v : Nat) : Bytes := [UInt8.ofNat v]
def decU8 : Parser Nat
  | [] => none
  | b :: t => some (b.toNat, t)

def encU16 (v : Nat) : Bytes := encVarint v
def decU16 : Parser Nat := decVarintBounded (2 ^ 16)
def encU32 (v : Nat) : Bytes := encVarint v
def decU32 : Parser Nat := decVarintBounded (2 ^ 32)
def encU64 (v : Nat) : Bytes := encVarint v
def decU64 : Parser Nat := decVarint
def encU128 (v : Nat) : Bytes := encVarint128 v
def decU128 : Parser Nat := decVarint128

/-- `zigzag_encode` on mathematical integers: `0,-1,1,-2,2,… ↦ 0,1,2,3,4,…`. -/
def zigzag (i : Int) : Nat :=
  if i < 0 then 2 * (-i).toNat - 1 else 2 * i.toNat

/-- `zigzag_decode`. -/
def unzigzag (n : Nat) : Int :=
  if n % 2 = 0 then (n / 2 : Nat) else -((n / 2 : Nat) : Int) - 1

/-- Signed write: `serialize_varint(zigzag_encode(v as i64))`. -/
def encSigned (i : Int) : Bytes := encVarint (zigzag i)

/-- Signed read of a `bits`-bit integer: `deserialize_varint`, `zigzag_decode`, then `cast_i64_to_i16/32`
(no check for `i64`). -/
def decSigned (bits : Nat) : Parser Int := fun bs =>
  match decVarint bs with
  | some (v, r) =>
    let i := unzigzag v
    if -(2 ^ (bits - 1) : Int) ≤ i ∧ i < (2 ^ (bits - 1) : Int) then some (i, r) else none
  | none => none

def encI16 := encSigned
def decI16 : Parser Int := decSigned 16
def encI32 := encSigned
def decI32 : Parser Int := decSigned 32
def encI64 := encSigned
def decI64 : Parser Int := decSigned 64

end TarpcModel.Bincode

/-
FIFO model of one direction of a tarpc transport pair, as the application sees it through
`Sink::{poll_ready,start_send,poll_flush,poll_close}` on the writing end and `Stream::poll_next` on the
reading end.  It covers

* `tarpc::transport::channel::unbounded()`  (tokio `mpsc::unbounded_channel`):
    `cap = none`, `closeSignals = false` (`poll_close` is a no-op: "UnboundedSender can't initiate
    closure", only dropping the sender ends the stream), `buffered = false`;
* `tarpc::transport::channel::bounded(n)`   (futures `mpsc::channel(n)`, one sender):
    `cap = some n`: the sender is *parked* by the send that makes the queue longer than `n` (that send is
    still accepted, so `n + 1` items fit) and un-parked by the next receive; `closeSignals = true`
    (`Sender::poll_close` disconnects), `buffered = false`;
* `tarpc::serde_transport::Transport` over a reliable byte stream (abstracting the bytes away, see
  `Wire/Frame.lean` for them): `cap = none`, `closeSignals = true` (`poll_close` = flush + `shutdown`),
  `buffered = true`: `start_send` only encodes into `FramedWrite`'s buffer; the bytes reach the stream at
  the next flush, and are lost if the writer is dropped first.

Core Lean only.
-/
namespace TarpcModel.Wire

inductive Writer where
  | opened | closed | dropped
deriving Repr, DecidableEq

structure PipeCfg where
  cap          : Option Nat := none
  closeSignals : Bool := true
  buffered     : Bool := false
  /-- harness convention: a `send` that finds this many staged items flushes first (keeps the real
  write buffer below `FramedWrite`'s 8 KiB back-pressure boundary, where `poll_ready` starts flushing
  on its own). -/
  stageLimit   : Nat := 16
deriving Repr, DecidableEq

structure Pipe (α : Type) where
  cfg    : PipeCfg
  staged : List α := []        -- accepted by `start_send`, not yet flushed
  queue  : List α := []        -- in flight: flushed / in the channel, not yet received
  parked : Bool := false       -- bounded channel: sender not ready
  writer : Writer := .opened
  lost   : List α := []        -- ghost: staged items discarded by dropping the writer
deriving Repr

inductive POp (α : Type) where
  | send (a : α)     -- `poll_ready` then `start_send`
  | flush            -- `poll_flush` until `Ready`
  | recv             -- (flush the writer if it is still there, then) `poll_next`
  | close            -- `poll_close` until `Ready`
  | drop             -- drop the writing end
deriving Repr

inductive PObs (α : Type) where
  | sent (a : α)
  | full                     -- `poll_ready` returned `Pending`
  | flushed
  | recv (a : α)
  | pending
  | eof
  | closed
  | dropped (lost : Nat)     -- number of staged items that died with the writer
  | noop
deriving Repr, DecidableEq

variable {α : Type}

def Pipe.flushStaged (p : Pipe α) : Pipe α :=
  { p with queue := p.queue ++ p.staged, staged := [] }

/-- Does the reader see end-of-stream once the queue is empty? -/
def Pipe.eofVisible (p : Pipe α) : Bool :=
  match p.writer with
  | .opened => false
  | .closed => p.cfg.closeSignals
  | .dropped => true

/-- The harness convention described at `PipeCfg.stageLimit`. -/
def Pipe.autoFlush (p : Pipe α) : Pipe α :=
  if p.cfg.stageLimit ≤ p.staged.length then p.flushStaged else p

def overCap (cap : Option Nat) (len : Nat) : Bool :=
  match cap with
  | none => false
  | some c => decide (c < len)

/-- `poll_next` on the reading end. -/
def Pipe.pop (p : Pipe α) : Pipe α × List (PObs α) :=
  match p.queue with
  | a :: q => ({ p with queue := q, parked := false }, [.recv a])
  | [] => (p, [if p.eofVisible then .eof else .pending])

def Pipe.step (p : Pipe α) : POp α → Pipe α × List (PObs α)
  | .send a =>
      if p.writer ≠ .opened then (p, [.noop])
      else if p.parked then (p, [.full])
      else if p.cfg.buffered then
        ({ p.autoFlush with staged := p.autoFlush.staged ++ [a] }, [.sent a])
      else
        ({ p with queue := p.queue ++ [a], parked := overCap p.cfg.cap (p.queue.length + 1) }, [.sent a])
  | .flush =>
      if p.writer ≠ .opened then (p, [.noop]) else (p.flushStaged, [.flushed])
  | .recv =>
      (if p.writer = .opened then p.flushStaged else p).pop
  | .close =>
      if p.writer ≠ .opened then (p, [.noop])
      else ({ p.flushStaged with writer := .closed }, [.closed])
  | .drop =>
      if p.writer = .dropped then (p, [.noop])
      else ({ p with writer := .dropped, staged := [], lost := p.lost ++ p.staged },
            [.dropped p.staged.length])

def Pipe.run (p : Pipe α) : List (POp α) → Pipe α × List (PObs α)
  | [] => (p, [])
  | op :: ops => ((Pipe.run (p.step op).1 ops).1, (p.step op).2 ++ (Pipe.run (p.step op).1 ops).2)

def Pipe.init (cfg : PipeCfg) : Pipe α := { cfg := cfg }

/-- Items the writing end accepted, in order. -/
def accepted : List (PObs α) → List α
  | [] => []
  | .sent a :: os => a :: accepted os
  | _ :: os => accepted os

/-- Items the reading end yielded, in order. -/
def delivered : List (PObs α) → List α
  | [] => []
  | .recv a :: os => a :: delivered os
  | _ :: os => delivered os

end TarpcModel.Wire

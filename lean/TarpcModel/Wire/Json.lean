import TarpcModel.Wire.Bincode
import TarpcModel.Gen.Constants
/-!
# tarpc's protocol types under `tokio_serde::formats::Json` (= `serde_json` 1.0, compact writer)

Two layers.

**Text layer** — `Json`, `render`, `parse`.  `render` is `serde_json::to_vec` (the `CompactFormatter`):
no whitespace, `itoa` decimal integers, strings escaped byte-wise exactly as `format_escaped_str` does
(`\"`, `\\`, `\b`, `\f`, `\n`, `\r`, `\t`, any other byte `< 0x20` as `\u00xx` with lowercase hex,
every other byte — `/`, DEL and all non-ASCII UTF-8 included — verbatim).  `parse` is a total
(fuel-recursive, fuel = input length) recursive-descent parser for the grammar `serde_json`'s reader
accepts: the four whitespace bytes between tokens, `\uXXXX` escapes including surrogate pairs, the
full number grammar (`-`, fraction, exponent; leading zeros rejected), no trailing commas.

*Representation choices.*

* `num` carries a `Nat`: only `u64`, `u32` and `u8` occur in the schema (`Duration.secs/nanos`, ids,
  span id, the error-kind number, the 16 trace-id bytes); **no signed integer and no float occurs**.
  The parser turns every unsigned integer literal, however long, into `num n`; the range check is the
  schema layer's (`serde_json` reads a literal above `u64::MAX` as a float, which no integer visitor
  accepts — the same outcome).
* `str` and object keys carry a Lean `String` (= a sequence of Unicode scalar values = a Rust
  `String`; Lean's `String.fromUTF8?` and Rust's `str::from_utf8` accept the same byte strings:
  shortest-form UTF-8 of non-surrogate code points).  The message types of `Wire/Bincode.lean` use
  `String`, so no conversion is needed, and string escaping is defined on the UTF-8 *bytes*
  (`strBytes`), as in `serde_json`.
* `opaque` stands for a token `serde_json` can *skip* (the value of an unknown field,
  `IgnoredAny`) but never *deliver* to a typed visitor of this schema: a number literal that is not an
  unsigned integer (`-1`, `-0`, `1.5`, `1e3`), a string that is not valid Unicode (raw invalid UTF-8,
  an unpaired `\uD800`–`\uDFFF` escape; `ignore_str` checks neither), or an object with such a string
  as a key.  It carries no payload, is never produced by `toJson`, and is rendered as `-0`, the
  shortest member of the class.

**Schema layer** — what `#[derive(Serialize, Deserialize)]` generates for `ClientMessage<T>`,
`Request<T>`, `Response<T>`, `ServerError`, `context::Context`, `trace::Context` (the attributes are
read off `tarpc/src/lib.rs`, `context.rs`, `trace.rs`):

* struct → object with the field names as keys, in declaration order; on read the order is free,
  unknown keys are skipped (no `deny_unknown_fields` anywhere), a repeated known key is an error, a
  missing key is an error unless the field has `#[serde(default)]` (`Cancel.trace_context` →
  `trace::Context::default()`; `context::Context.deadline` → ten seconds from now); a struct may also
  be given as an array of its fields in order (`serde_json`'s `deserialize_struct` accepts `[`);
* enum → externally tagged: `{"Request":{…}}`, `{"Cancel":{…}}`, `{"Ok":…}`, `{"Err":{…}}`, exactly
  one member; a unit variant (`SamplingDecision`) is the bare string and is also accepted as
  `{"Sampled":null}`;
* newtype struct (`SpanId`, `TraceId`) → its field; `TraceId`'s `u128` goes through
  `u128_serde` = `[u8; 16]` little endian = an array of 16 numbers (it is **not** a JSON number);
* `std::time::Duration` → `{"secs":u64,"nanos":u32}`; serde's hand-written reader rejects unknown
  keys, carries `nanos ≥ 10^9` into `secs` and rejects a `u64` overflow of that sum;
* `context::Context.deadline` is the remaining `Duration` (as in the bincode model; the
  `Instant` conversion is `readClientMessageJson`);
* `ServerError.kind` is the number of `Wire/ErrorKind.lean`'s generated write table, read back as an
  integer of type `Gen.ekDeTy` and mapped through the read table.

The message body type `T` is abstract: `(encT : T → Json) (decT : Json → Option T)`.
Core Lean only.
-/
namespace TarpcModel.Json
open TarpcModel.Bincode (Bytes Duration TraceContext Context Request ClientMessage ServerError RespBody
  Response strBytes leBytes leVal kindNum kindOfNum instantAddPanics Outcome)
open TarpcModel.Gen

inductive Json where
  | null
  | bool (b : Bool)
  | num (n : Nat)
  | str (s : String)
  | arr (xs : List Json)
  | obj (kvs : List (String × Json))
  | opaque
  deriving Repr, Inhabited

/-! ## Text layer: writer -/

def digitByte (d : Nat) : UInt8 := UInt8.ofNat (48 + d)

/-- Decimal digits of `n`, most significant first (`itoa`).  The fuel only has to exceed `n`. -/
def natDigitsF : Nat → Nat → Bytes
  | 0, _ => []
  | f + 1, n => if n < 10 then [digitByte n] else natDigitsF f (n / 10) ++ [digitByte (n % 10)]

def natDigits (n : Nat) : Bytes := natDigitsF (n + 1) n

def hexDigit (n : Nat) : UInt8 := if n < 10 then UInt8.ofNat (48 + n) else UInt8.ofNat (87 + n)

/-- `serde_json::ser::format_escaped_str_contents`, one byte (`ESCAPE` table). -/
def escByte (b : UInt8) : Bytes :=
  if b = 0x22 then [0x5c, 0x22]
  else if b = 0x5c then [0x5c, 0x5c]
  else if b = 0x08 then [0x5c, 0x62]
  else if b = 0x0c then [0x5c, 0x66]
  else if b = 0x0a then [0x5c, 0x6e]
  else if b = 0x0d then [0x5c, 0x72]
  else if b = 0x09 then [0x5c, 0x74]
  else if b.toNat < 0x20 then [0x5c, 0x75, 0x30, 0x30, hexDigit (b.toNat / 16), hexDigit (b.toNat % 16)]
  else [b]

def escBytes : Bytes → Bytes
  | [] => []
  | b :: t => escByte b ++ escBytes t

def renderStr (s : String) : Bytes := 0x22 :: (escBytes (strBytes s) ++ [0x22])

mutual
/-- `serde_json::to_vec`. -/
def render : Json → Bytes
  | .null => [0x6e, 0x75, 0x6c, 0x6c]
  | .bool true => [0x74, 0x72, 0x75, 0x65]
  | .bool false => [0x66, 0x61, 0x6c, 0x73, 0x65]
  | .num n => natDigits n
  | .str s => renderStr s
  | .arr [] => [0x5b, 0x5d]
  | .arr (x :: xs) => 0x5b :: (render x ++ renderElems xs)
  | .obj [] => [0x7b, 0x7d]
  | .obj ((k, v) :: kvs) => 0x7b :: (renderStr k ++ 0x3a :: (render v ++ renderFields kvs))
  | .opaque => [0x2d, 0x30]
/-- The elements after the first, each preceded by `,`, then `]`. -/
def renderElems : List Json → Bytes
  | [] => [0x5d]
  | x :: xs => 0x2c :: (render x ++ renderElems xs)
/-- The members after the first, each preceded by `,`, then `}`. -/
def renderFields : List (String × Json) → Bytes
  | [] => [0x7d]
  | (k, v) :: kvs => 0x2c :: (renderStr k ++ 0x3a :: (render v ++ renderFields kvs))
end

/-! ## Text layer: reader -/

def isWs (b : UInt8) : Bool := b == 0x20 || b == 0x0a || b == 0x09 || b == 0x0d

def skipWs : Bytes → Bytes
  | [] => []
  | b :: t => if isWs b then skipWs t else b :: t

def isDigit (b : UInt8) : Bool := decide (48 ≤ b.toNat) && decide (b.toNat ≤ 57)

/-- The longest prefix of digits, and what follows it. -/
def spanDigits : Bytes → Bytes × Bytes
  | [] => ([], [])
  | b :: t => if isDigit b then ((b :: (spanDigits t).1), (spanDigits t).2) else ([], b :: t)

def digitsVal : Bytes → Nat → Nat
  | [], a => a
  | b :: t, a => digitsVal t (a * 10 + (b.toNat - 48))

/-- Optional exponent part; `seen` = a fraction was read.  Result: (fraction or exponent present, rest). -/
def parseExp (seen : Bool) (bs : Bytes) : Option (Bool × Bytes) :=
  match bs with
  | [] => some (seen, [])
  | b :: t =>
    if b = 0x65 ∨ b = 0x45 then
      let t' := match t with
        | [] => []
        | s :: u => if s = 0x2b ∨ s = 0x2d then u else s :: u
      match spanDigits t' with
      | ([], _) => none
      | (_ :: _, r) => some (true, r)
    else some (seen, b :: t)

/-- Optional fraction and exponent parts. -/
def parseFrac (bs : Bytes) : Option (Bool × Bytes) :=
  match bs with
  | [] => some (false, [])
  | b :: t =>
    if b = 0x2e then
      match spanDigits t with
      | ([], _) => none
      | (_ :: _, r) => parseExp true r
    else parseExp false (b :: t)

/-- A number literal after its optional `-` (`neg`): digits without a superfluous leading zero, optional
fraction, optional exponent.  An unsigned integer literal becomes `num`, anything else `opaque`. -/
def parseNum (neg : Bool) (bs : Bytes) : Option (Json × Bytes) :=
  match spanDigits bs with
  | ([], _) => none
  | ([d], r) =>
    match parseFrac r with
    | none => none
    | some (fl, r') => some (if neg || fl then .opaque else .num (digitsVal [d] 0), r')
  | (d :: e :: ds, r) =>
    if d = 0x30 then none
    else match parseFrac r with
      | none => none
      | some (fl, r') => some (if neg || fl then .opaque else .num (digitsVal (d :: e :: ds) 0), r')

def hexVal (b : UInt8) : Option Nat :=
  if 48 ≤ b.toNat ∧ b.toNat ≤ 57 then some (b.toNat - 48)
  else if 97 ≤ b.toNat ∧ b.toNat ≤ 102 then some (b.toNat - 87)
  else if 65 ≤ b.toNat ∧ b.toNat ≤ 70 then some (b.toNat - 55)
  else none

def hex4 : Bytes → Option (Nat × Bytes)
  | a :: b :: c :: d :: t =>
    match hexVal a, hexVal b, hexVal c, hexVal d with
    | some a, some b, some c, some d => some (4096 * a + 256 * b + 16 * c + d, t)
    | _, _, _, _ => none
  | _ => none

/-- `push_wtf8_codepoint`: UTF-8 of a code point `< 0x110000`. -/
def utf8Of (n : Nat) : Bytes :=
  if n < 0x80 then [UInt8.ofNat n]
  else if n < 0x800 then [UInt8.ofNat (0xc0 + n / 64), UInt8.ofNat (0x80 + n % 64)]
  else if n < 0x10000 then
    [UInt8.ofNat (0xe0 + n / 4096), UInt8.ofNat (0x80 + n / 64 % 64), UInt8.ofNat (0x80 + n % 64)]
  else
    [UInt8.ofNat (0xf0 + n / 262144), UInt8.ofNat (0x80 + n / 4096 % 64), UInt8.ofNat (0x80 + n / 64 % 64),
     UInt8.ofNat (0x80 + n % 64)]

/-- Prepend decoded bytes to the result of the rest of the string. -/
def pre (bs : Bytes) : Option (Bytes × Bool × Bytes) → Option (Bytes × Bool × Bytes)
  | some (o, bad, r) => some (bs ++ o, bad, r)
  | none => none

/-- Mark the string as containing an unpaired surrogate escape. -/
def markBad : Option (Bytes × Bool × Bytes) → Option (Bytes × Bool × Bytes)
  | some (o, _, r) => some (o, true, r)
  | none => none

/-- The single-character escapes. -/
def simpleEsc (e : UInt8) : Option UInt8 :=
  if e = 0x22 then some 0x22 else if e = 0x5c then some 0x5c else if e = 0x2f then some 0x2f
  else if e = 0x62 then some 0x08 else if e = 0x66 then some 0x0c else if e = 0x6e then some 0x0a
  else if e = 0x72 then some 0x0d else if e = 0x74 then some 0x09 else none

/-- String contents after the opening quote up to and including the closing quote: the decoded bytes,
whether an unpaired surrogate escape occurred (then the bytes are meaningless), and the rest.
`none` = what both `parse_str` and `ignore_str` reject: end of input, a raw control byte, an unknown
escape, a `\u` without four hex digits.  Fuel: at least the input length. -/
def strBody : Nat → Bytes → Option (Bytes × Bool × Bytes)
  | 0, _ => none
  | _ + 1, [] => none
  | f + 1, b :: t =>
    if b = 0x22 then some ([], false, t)
    else if b = 0x5c then
      match t with
      | [] => none
      | e :: u =>
        if e = 0x75 then
          match hex4 u with
          | none => none
          | some (n, v) =>
            if 0xdc00 ≤ n ∧ n ≤ 0xdfff then markBad (strBody f v)
            else if 0xd800 ≤ n ∧ n ≤ 0xdbff then
              match v with
              | 0x5c :: 0x75 :: w =>
                match hex4 w with
                | none => none
                | some (n2, x) =>
                  if 0xdc00 ≤ n2 ∧ n2 ≤ 0xdfff then
                    pre (utf8Of (0x10000 + (n - 0xd800) * 1024 + (n2 - 0xdc00))) (strBody f x)
                  else markBad (strBody f v)
              | _ => markBad (strBody f v)
            else pre (utf8Of n) (strBody f v)
        else
          match simpleEsc e with
          | some c => pre [c] (strBody f u)
          | none => none
    else if b.toNat < 0x20 then none
    else pre [b] (strBody f t)

/-- A string token after its opening quote: `str` if it is valid Unicode, else `opaque`. -/
def parseStrTok (bs : Bytes) : Option (Json × Bytes) :=
  match strBody bs.length bs with
  | none => none
  | some (o, bad, r) =>
    if bad then some (.opaque, r)
    else match String.fromUTF8? ⟨o.toArray⟩ with
      | some s => some (.str s, r)
      | none => some (.opaque, r)

/-- Expect the given bytes. -/
def expect : Bytes → Bytes → Option Bytes
  | [], bs => some bs
  | _ :: _, [] => none
  | c :: cs, b :: bs => if b = c then expect cs bs else none

/-- Members as parsed (the key is a string token: `str` or `opaque`) to an object value. -/
def keysOf : List (Json × Json) → Option (List (String × Json))
  | [] => some []
  | (.str k, v) :: t =>
    match keysOf t with
    | some kvs => some ((k, v) :: kvs)
    | none => none
  | _ :: _ => none

def mkObj (l : List (Json × Json)) : Json :=
  match keysOf l with
  | some kvs => .obj kvs
  | none => .opaque

/-- `"key" : value` with the opening quote already consumed. -/
def parseMember (pv : Bytes → Option (Json × Bytes)) (bs : Bytes) : Option ((Json × Json) × Bytes) :=
  match parseStrTok bs with
  | none => none
  | some (k, r) =>
    match skipWs r with
    | 0x3a :: r' =>
      match pv r' with
      | none => none
      | some (v, r'') => some ((k, v), r'')
    | _ => none

mutual
/-- One value, after optional whitespace.  Fuel: more than the input length. -/
def parseVal : Nat → Bytes → Option (Json × Bytes)
  | 0, _ => none
  | f + 1, bs =>
    match skipWs bs with
    | [] => none
    | b :: r =>
      if b = 0x6e then (expect [0x75, 0x6c, 0x6c] r).map fun r' => (.null, r')
      else if b = 0x74 then (expect [0x72, 0x75, 0x65] r).map fun r' => (.bool true, r')
      else if b = 0x66 then (expect [0x61, 0x6c, 0x73, 0x65] r).map fun r' => (.bool false, r')
      else if b = 0x22 then parseStrTok r
      else if b = 0x2d then parseNum true r
      else if isDigit b then parseNum false (b :: r)
      else if b = 0x5b then
        match skipWs r with
        | [] => none
        | c :: r' =>
          if c = 0x5d then some (.arr [], r')
          else
            match parseVal f (c :: r') with
            | none => none
            | some (x, r1) =>
              match parseElems f r1 with
              | none => none
              | some (xs, r2) => some (.arr (x :: xs), r2)
      else if b = 0x7b then
        match skipWs r with
        | [] => none
        | c :: r' =>
          if c = 0x7d then some (.obj [], r')
          else if c = 0x22 then
            match parseMember (parseVal f) r' with
            | none => none
            | some (m, r1) =>
              match parseFields f r1 with
              | none => none
              | some (ms, r2) => some (mkObj (m :: ms), r2)
          else none
      else none
/-- `, value`* `]`. -/
def parseElems : Nat → Bytes → Option (List Json × Bytes)
  | 0, _ => none
  | f + 1, bs =>
    match skipWs bs with
    | [] => none
    | b :: r =>
      if b = 0x5d then some ([], r)
      else if b = 0x2c then
        match parseVal f r with
        | none => none
        | some (x, r1) =>
          match parseElems f r1 with
          | none => none
          | some (xs, r2) => some (x :: xs, r2)
      else none
/-- `, "key" : value`* `}`. -/
def parseFields : Nat → Bytes → Option (List (Json × Json) × Bytes)
  | 0, _ => none
  | f + 1, bs =>
    match skipWs bs with
    | [] => none
    | b :: r =>
      if b = 0x7d then some ([], r)
      else if b = 0x2c then
        match skipWs r with
        | 0x22 :: r' =>
          match parseMember (parseVal f) r' with
          | none => none
          | some (m, r1) =>
            match parseFields f r1 with
            | none => none
            | some (ms, r2) => some (m :: ms, r2)
        | _ => none
      else none
end

/-- One value from the front of the input (leading whitespace allowed), and the unread rest. -/
def parse (bs : Bytes) : Option (Json × Bytes) := parseVal (bs.length + 1) bs

/-- A whole document (`serde_json::from_reader` + `Deserializer::end`): one value, then only whitespace. -/
def parseDoc (bs : Bytes) : Option Json :=
  match parse bs with
  | some (v, r) => if skipWs r = [] then some v else none
  | none => none

/-! ## Schema layer -/

/-- All values stored under key `k`, in document order. -/
def lookupAll (k : String) : List (String × Json) → List Json
  | [] => []
  | (k', v) :: t => if k' = k then v :: lookupAll k t else lookupAll k t

/-- A field without `#[serde(default)]`: present exactly once. -/
def req {α : Type} (k : String) (kvs : List (String × Json)) (dec : Json → Option α) : Option α :=
  match lookupAll k kvs with
  | [v] => dec v
  | _ => none

/-- A field with a default: present at most once. -/
def opt {α : Type} (k : String) (kvs : List (String × Json)) (dec : Json → Option α) (dflt : α) :
    Option α :=
  match lookupAll k kvs with
  | [] => some dflt
  | [v] => dec v
  | _ => none

/-- An unsigned integer below `bound` (`u64`: `2^64`, `u32`: `2^32`, `u8`: `2^8`). -/
def uintFromJson (bound : Nat) : Json → Option Nat
  | .num n => if n < bound then some n else none
  | _ => none

def strFromJson : Json → Option String
  | .str s => some s
  | _ => none

def durationToJson (d : Duration) : Json := .obj [("secs", .num d.secs), ("nanos", .num d.nanos)]

/-- `Duration::new(secs, nanos)` with serde's overflow check. -/
def mkDuration (s n : Nat) : Option Duration :=
  let s' := s + n / 1000000000
  if s' < 2 ^ 64 then some { secs := s', nanos := n % 1000000000 } else none

def durationKeysOk : List (String × Json) → Bool
  | [] => true
  | (k, _) :: t => (k = "secs" || k = "nanos") && durationKeysOk t

def durationFromJson : Json → Option Duration
  | .obj kvs =>
    if durationKeysOk kvs then
      match req "secs" kvs (uintFromJson (2 ^ 64)), req "nanos" kvs (uintFromJson (2 ^ 32)) with
      | some s, some n => mkDuration s n
      | _, _ => none
    else none
  | .arr [s, n] =>
    match uintFromJson (2 ^ 64) s, uintFromJson (2 ^ 32) n with
    | some s, some n => mkDuration s n
    | _, _ => none
  | _ => none

def bytesToJson : Bytes → List Json
  | [] => []
  | b :: t => .num b.toNat :: bytesToJson t

def bytesFromJson : List Json → Option Bytes
  | [] => some []
  | .num n :: t =>
    if n < 256 then
      match bytesFromJson t with
      | some bs => some (UInt8.ofNat n :: bs)
      | none => none
    else none
  | _ :: _ => none

/-- `TraceId`: `u128::to_le_bytes` as a 16-tuple. -/
def traceIdToJson (t : Nat) : Json := .arr (bytesToJson (leBytes 16 t))

def traceIdFromJson : Json → Option Nat
  | .arr xs =>
    match bytesFromJson xs with
    | some bs => if bs.length = 16 then some (leVal bs) else none
    | none => none
  | _ => none

def samplingToJson (sampled : Bool) : Json := .str (if sampled then "Sampled" else "Unsampled")

def samplingFromJson : Json → Option Bool
  | .str s => if s = "Sampled" then some true else if s = "Unsampled" then some false else none
  | .obj [(k, .null)] => if k = "Sampled" then some true else if k = "Unsampled" then some false else none
  | _ => none

def traceToJson (t : TraceContext) : Json :=
  .obj [("trace_id", traceIdToJson t.traceId), ("span_id", .num t.spanId),
        ("sampling_decision", samplingToJson t.sampled)]

def mkTrace : Option Nat → Option Nat → Option Bool → Option TraceContext
  | some t, some s, some d => some { traceId := t, spanId := s, sampled := d }
  | _, _, _ => none

def traceFromJson : Json → Option TraceContext
  | .obj kvs =>
    mkTrace (req "trace_id" kvs traceIdFromJson) (req "span_id" kvs (uintFromJson (2 ^ 64)))
      (req "sampling_decision" kvs samplingFromJson)
  | .arr [t, s, d] => mkTrace (traceIdFromJson t) (uintFromJson (2 ^ 64) s) (samplingFromJson d)
  | _ => none

def contextToJson (c : Context) : Json :=
  .obj [("deadline", durationToJson c.deadline), ("trace_context", traceToJson c.trace)]

/-- `ten_seconds_from_now()` as a remaining duration. -/
def defaultDeadline : Duration := { secs := defaultDeadlineSecs, nanos := 0 }

/-- `trace::Context::default()`. -/
def defaultTrace : TraceContext := { traceId := 0, spanId := 0, sampled := false }

def mkContext : Option Duration → Option TraceContext → Option Context
  | some d, some t => some { deadline := d, trace := t }
  | _, _ => none

def contextFromJson : Json → Option Context
  | .obj kvs =>
    mkContext (opt "deadline" kvs durationFromJson defaultDeadline) (req "trace_context" kvs traceFromJson)
  | .arr [d, t] => mkContext (durationFromJson d) (traceFromJson t)
  | _ => none

/-- The largest value (exclusive) an integer of Rust type `ty` can take from an unsigned literal. -/
def kindBound (ty : String) : Nat :=
  if ty = "u8" then 2 ^ 8 else if ty = "i8" then 2 ^ 7
  else if ty = "u16" then 2 ^ 16 else if ty = "i16" then 2 ^ 15
  else if ty = "i32" then 2 ^ 31
  else if ty = "u64" ∨ ty = "usize" then 2 ^ 64 else if ty = "i64" ∨ ty = "isize" then 2 ^ 63
  else 2 ^ 32

def kindToJson (k : String) : Json := .num (kindNum k)

def kindFromJson : Json → Option String
  | .num n => if n < kindBound ekDeTy then some (kindOfNum (n : Int)) else none
  | _ => none

/-- What a kind arrives as. -/
def kindBack (k : String) : Option String := kindFromJson (kindToJson k)

def serverErrorToJson (e : ServerError) : Json :=
  .obj [("kind", kindToJson e.kind), ("detail", .str e.detail)]

def mkServerError : Option String → Option String → Option ServerError
  | some k, some d => some { kind := k, detail := d }
  | _, _ => none

def serverErrorFromJson : Json → Option ServerError
  | .obj kvs => mkServerError (req "kind" kvs kindFromJson) (req "detail" kvs strFromJson)
  | .arr [k, d] => mkServerError (kindFromJson k) (strFromJson d)
  | _ => none

section
variable {T : Type} (encT : T → Json) (decT : Json → Option T)

def requestToJson (r : Request T) : Json :=
  .obj [("context", contextToJson r.context), ("id", .num r.id), ("message", encT r.message)]

def mkRequest : Option Context → Option Nat → Option T → Option (Request T)
  | some c, some i, some m => some { context := c, id := i, message := m }
  | _, _, _ => none

def requestFromJson : Json → Option (Request T)
  | .obj kvs =>
    mkRequest (req "context" kvs contextFromJson) (req "id" kvs (uintFromJson (2 ^ 64)))
      (req "message" kvs decT)
  | .arr [c, i, m] => mkRequest (contextFromJson c) (uintFromJson (2 ^ 64) i) (decT m)
  | _ => none

def clientMessageToJson : ClientMessage T → Json
  | .request r => .obj [("Request", requestToJson encT r)]
  | .cancel t id => .obj [("Cancel", .obj [("trace_context", traceToJson t), ("request_id", .num id)])]

def mkCancel : Option TraceContext → Option Nat → Option (ClientMessage T)
  | some t, some i => some (.cancel t i)
  | _, _ => none

def cancelFromJson : Json → Option (ClientMessage T)
  | .obj kvs =>
    mkCancel (opt "trace_context" kvs traceFromJson defaultTrace) (req "request_id" kvs (uintFromJson (2 ^ 64)))
  | .arr [t, i] => mkCancel (traceFromJson t) (uintFromJson (2 ^ 64) i)
  | _ => none

def clientMessageFromJson : Json → Option (ClientMessage T)
  | .obj [(k, v)] =>
    if k = "Request" then (requestFromJson decT v).map .request
    else if k = "Cancel" then cancelFromJson v
    else none
  | _ => none

def resultToJson : RespBody T → Json
  | .ok t => .obj [("Ok", encT t)]
  | .err e => .obj [("Err", serverErrorToJson e)]

def resultFromJson : Json → Option (RespBody T)
  | .obj [(k, v)] =>
    if k = "Ok" then (decT v).map .ok
    else if k = "Err" then (serverErrorFromJson v).map .err
    else none
  | _ => none

def responseToJson (r : Response T) : Json :=
  .obj [("request_id", .num r.requestId), ("message", resultToJson encT r.message)]

def mkResponse : Option Nat → Option (RespBody T) → Option (Response T)
  | some i, some m => some { requestId := i, message := m }
  | _, _ => none

def responseFromJson : Json → Option (Response T)
  | .obj kvs =>
    mkResponse (req "request_id" kvs (uintFromJson (2 ^ 64))) (req "message" kvs (resultFromJson decT))
  | .arr [i, m] => mkResponse (uintFromJson (2 ^ 64) i) (resultFromJson decT m)
  | _ => none

/-! ## The codec: `Serializer::serialize` / `Deserializer::deserialize` of `formats::Json` -/

def encodeClientMessage (m : ClientMessage T) : Bytes := render (clientMessageToJson encT m)
def encodeResponse (r : Response T) : Bytes := render (responseToJson encT r)

def decodeClientMessage (bs : Bytes) : Option (ClientMessage T) :=
  match parseDoc bs with
  | some v => clientMessageFromJson decT v
  | none => none

def decodeResponse (bs : Bytes) : Option (Response T) :=
  match parseDoc bs with
  | some v => responseFromJson decT v
  | none => none

/-- What the real reader does with a buffer, including the `Instant` conversion of the deadline
(`Wire/Bincode.lean`'s `readClientMessage` for this codec).  With `Gen.deadlineSaturates = false`
(the source before the repair) the real reader panics *while* reading the `deadline` member, i.e. it
never sees what follows; this model decides after the whole document was read, so it agrees with
such a source only on documents that are otherwise well-formed. -/
def readClientMessage (bs : Bytes) : Outcome (ClientMessage T) :=
  match decodeClientMessage decT bs with
  | none => .error
  | some (.request r) =>
    if instantAddPanics r.context.deadline then
      if deadlineSaturates then
        .value (.request { r with context := { r.context with deadline := ⟨deadlineFarFutureSecs, 0⟩ } })
      else .panic
    else .value (.request r)
  | some m => .value m

end

/-- `String` bodies. -/
def encStrBody (s : String) : Json := .str s
def decStrBody : Json → Option String := strFromJson

def encodeJson (m : ClientMessage String) : Bytes := encodeClientMessage encStrBody m
def decodeJson (bs : Bytes) : Option (ClientMessage String) := decodeClientMessage decStrBody bs
def encodeJsonResponse (r : Response String) : Bytes := encodeResponse encStrBody r
def decodeJsonResponse (bs : Bytes) : Option (Response String) := decodeResponse decStrBody bs

/-- The hypothesis on the abstract body codec. -/
def BodyCodec {T : Type} (encT : T → Json) (decT : Json → Option T) (PT : T → Prop) : Prop :=
  ∀ t, PT t → decT (encT t) = some t

/-! ## Vocabulary of the round-trip statements (`Props/C15Json.lean`) -/

/-- Which values are number literals. -/
def isNumTok : Json → Bool
  | .num _ => true
  | .opaque => true
  | _ => false

/-- What may follow a number: anything that does not continue it. -/
def numEnd : Bytes → Bool
  | [] => true
  | c :: _ => !(isDigit c || c == 0x2e || c == 0x65 || c == 0x45)

/-- Only the four JSON whitespace bytes. -/
def allWs (ws : Bytes) : Prop := ∀ b ∈ ws, isWs b = true

/-- Validity of a response for the JSON codec: no length prefixes, so no condition on the detail. -/
def ValidResponse {T : Type} (PT : T → Prop) (r : Response T) : Prop :=
  r.requestId < 2 ^ 64 ∧ ∀ t, r.message = .ok t → PT t

end TarpcModel.Json

import TarpcModel.Gen.Constants
/-
Model of the deadline field of `tarpc::context::Context` on the wire
(`tarpc/src/context.rs`, module `absolute_to_relative_time`, and `ten_seconds_from_now`).

Time is a `Nat` number of nanoseconds on one host's monotonic clock.

* `ser d now = d - now` (truncated subtraction) is `deadline.duration_since(now)`: `Instant::duration_since`
  saturates to zero when the deadline already passed, so serialisation never fails and never
  produces a negative duration.
* `de x now' = now' + x` is `Instant::now() + duration` on the receiving host.
* `hop d tSend tRecv` is one serialising hop: written at `tSend`, read at `tRecv`.
* A request whose `deadline` field is absent (possible only in a self-describing encoding such as
  JSON) gets `now' + defaultDeadlineSecs` (`#[serde(default = "ten_seconds_from_now")]`); the
  constant is regenerated from the source by `tools/translate.py`.
* The in-memory transport (`tarpc::transport::channel`) moves the `Instant` itself: the hop is the
  identity.
* The client puts `ctx.deadline` in the request untouched (`client.rs`, `poll_write_request`) and the
  server hands the request's context to the handler untouched (`server.rs`, `start_request` /
  `InFlightRequest::execute`), so the handler of hop `k` observes `hop` of what hop `k-1`'s handler
  passed to its nested call.

Not modelled here: overflow of the platform `Instant` in `now' + x` (a panic in `std`; that is a
C16 matter), and the exactness of the `Duration` encodings (secs: u64 + nanos: u32, C15) - the
correspondence harness exercises both real codecs.
-/
namespace TarpcModel.Ctx

/-- Nanoseconds per second. -/
def nsPerSec : Nat := 1000000000

/-- `absolute_to_relative_time::serialize`: the remaining duration, saturating at zero. -/
def ser (d now : Nat) : Nat := d - now

/-- `absolute_to_relative_time::deserialize`: the receiver's `now` plus the duration. -/
def de (x now' : Nat) : Nat := now' + x

/-- One serialising hop: encoded at `tSend`, decoded at `tRecv` (same clock). -/
def hop (d tSend tRecv : Nat) : Nat := de (ser d tSend) tRecv

/-- `ten_seconds_from_now` evaluated at `tRecv` (the field was absent). -/
def defaultDeadline (tRecv : Nat) : Nat := tRecv + Gen.defaultDeadlineSecs * nsPerSec

/-- Remaining time of deadline `d` read at `now` (`Instant::duration_since`, saturating). -/
def remaining (d now : Nat) : Nat := d - now

inductive Codec where
  | json | bincode | mem
deriving Repr, DecidableEq

/-- Does the transport serialise the context (`true`) or move the `Instant` (`false`)? -/
def Codec.serialises : Codec → Bool
  | .json => true
  | .bincode => true
  | .mem => false

/-- One hop over the given transport. -/
def hopVia (c : Codec) (d tSend tRecv : Nat) : Nat :=
  if c.serialises then hop d tSend tRecv else d

/-- The deadline seen by the last handler of a chain; each element is the (send, receive) time of
one hop, and every handler passes the context it received to its nested call. -/
def chain (d : Nat) : List (Nat × Nat) → Nat
  | [] => d
  | (s, r) :: rest => chain (hop d s r) rest

def chainVia (c : Codec) (d : Nat) (hops : List (Nat × Nat)) : Nat :=
  if c.serialises then chain d hops else d

/-- The deadlines seen by every handler of the chain, in hop order. -/
def chainSeen (c : Codec) (d : Nat) : List (Nat × Nat) → List Nat
  | [] => []
  | (s, r) :: rest => hopVia c d s r :: chainSeen c (hopVia c d s r) rest

/-- A causally ordered chain: every hop is received no earlier than it was sent, and sent no
earlier than `prev`, the time the previous hop was received (the handler runs after receipt). -/
def Ordered (prev : Nat) : List (Nat × Nat) → Prop
  | [] => True
  | (s, r) :: rest => prev ≤ s ∧ s ≤ r ∧ Ordered r rest

def orderedB (prev : Nat) : List (Nat × Nat) → Bool
  | [] => true
  | (s, r) :: rest => decide (prev ≤ s) && decide (s ≤ r) && orderedB r rest

/-- Accumulated transit time of a chain. -/
def totalTransit : List (Nat × Nat) → Nat
  | [] => 0
  | (s, r) :: rest => (r - s) + totalTransit rest

/-- Receive time of the last hop (`dflt` for the empty chain). -/
def lastRecv (dflt : Nat) : List (Nat × Nat) → Nat
  | [] => dflt
  | (_, r) :: rest => lastRecv r rest

/-! ### Operations and observations of the `c07` family -/

inductive Op where
  /-- Encode a context with deadline `d` at `send`, decode it at `recv`. -/
  | hop (c : Codec) (d send recv : Nat)
  /-- Decode, at `recv`, a JSON request whose `deadline` field was deleted. -/
  | dflt (recv : Nat)
  /-- A chain of real client/server hops; `hops` are the measured (send, receive) times. -/
  | chain (c : Codec) (d : Nat) (hops : List (Nat × Nat))
deriving Repr, DecidableEq

inductive Obs where
  /-- `seen` = deadline the receiving side decoded / the handler observed. -/
  | deadline (seen : Nat) (c : Codec) (d send recv : Nat)
  | dflt (seen recv : Nat)
  | chain (final : Nat) (c : Codec) (d : Nat) (hops : List (Nat × Nat))
  | noop
deriving Repr, DecidableEq

/-- Per-hop observations of a chain: each carries the deadline the caller of that hop held. -/
def chainObs (c : Codec) (d : Nat) : List (Nat × Nat) → List Obs
  | [] => []
  | (s, r) :: rest => .deadline (hopVia c d s r) c d s r :: chainObs c (hopVia c d s r) rest

/-- What the model predicts for one operation.  Operations that could not have been measured (a
receive before its send, a nested send before the enclosing receive) are no-ops. -/
def step : Op → List Obs
  | .hop c d s r => if s ≤ r then [.deadline (hopVia c d s r) c d s r] else [.noop]
  | .dflt r => [.dflt (defaultDeadline r) r]
  | .chain c d hops =>
      if orderedB 0 hops then chainObs c d hops ++ [.chain (chainVia c d hops) c d hops] else [.noop]

def run : List Op → List Obs
  | [] => []
  | op :: ops => step op ++ run ops

end TarpcModel.Ctx

/-
Model of `tarpc/src/server/request_hook.rs` and `request_hook/{before,after,before_and_after}.rs`.

A `Serve` value is a stack of hook wrappers around a handler:

* `HookThenServe { serve, hook }`            (`serve.before(hook)`, `list.serving(serve)`):
    `hook.before(&mut ctx, &req).await?; serve.serve(ctx, req).await`
* `ServeThenHook { serve, hook }`            (`serve.after(hook)`):
    `let mut resp = serve.serve(ctx, req).await; hook.after(&mut ctx, &mut resp).await; resp`
  `Context` is `Copy`, so `serve.serve(ctx, req)` hands a *copy* to the inner serve: the after-hook
  sees the context this wrapper received, not what inner hooks made of it.
* `HookThenServeThenHook { serve, hook }`    (`serve.before_and_after(hook)`):
    `hook.before(&mut ctx, &req).await?; let mut resp = serve.serve(ctx, req).await;
     hook.after(&mut ctx, &mut resp).await; resp`
  here the after part sees the context as edited by the hook's own before part.
* `BeforeRequestCons(first, rest)`: `first.before(ctx, req).await?; rest.before(ctx, req).await?; Ok(())`
  `BeforeRequestNil`: `Ok(())`;  `then` appends at the end of the cons-list;  `Nil.serving(s) = s`,
  `Cons.serving(s) = HookThenServe::new(s, self)`.

The request context is abstracted to one editable number (the harness uses
`ctx.trace_context.span_id`), a response to `ok v` / `err e`.  Hooks are scripted (data), so that the
same script can be run by the real combinators in the harness.  Core Lean only, no imports.
-/
namespace TarpcModel.Hooks

abbrev Ctx := Nat
abbrev Req := Nat

/-- `Result<Resp, ServerError>`; `err e` is the `ServerError` whose detail is the number `e`. -/
inductive Res where
  | ok (v : Nat)
  | err (e : Nat)
deriving Repr, DecidableEq, Inhabited

/-- What a scripted hook does to `&mut Context`. -/
inductive CtxEdit where
  | keep
  | add (k : Nat)
  | set (v : Nat)
deriving Repr, DecidableEq, Inhabited

def CtxEdit.apply : CtxEdit → Ctx → Ctx
  | .keep, c => c
  | .add k, c => c + k
  | .set v, _ => v

/-- What a scripted after-hook does to `&mut Result<Resp, ServerError>`. -/
inductive ResEdit where
  | keep
  | ok (v : Nat)
  | err (e : Nat)
deriving Repr, DecidableEq, Inhabited

def ResEdit.apply : ResEdit → Res → Res
  | .keep, r => r
  | .ok v, _ => .ok v
  | .err e, _ => .err e

/-- A scripted hook.  As a `BeforeRequest` it logs, then fails with `err tag` if `fail`, else applies
`edit` to the context.  As an `AfterRequest` it logs, applies `redit` to the response and `aedit` to
its `&mut Context` (which nobody can observe afterwards: the context is a local of the wrapper). -/
structure Hook where
  tag   : Nat
  fail  : Bool := false
  edit  : CtxEdit := .keep
  redit : ResEdit := .keep
  aedit : CtxEdit := .keep
deriving Repr, DecidableEq, Inhabited

/-- One invocation of a hook part or of the handler, with what it saw on entry. -/
inductive Event where
  | before (tag : Nat) (ctx : Ctx) (req : Req) (failed : Bool)
  | handler (tag : Nat) (ctx : Ctx) (req : Req)
  | after (tag : Nat) (ctx : Ctx) (res : Res)
deriving Repr, DecidableEq, Inhabited

/-- Outcome of a `BeforeRequest::before` call: the context it leaves, or the error. -/
inductive BOut where
  | ok (c : Ctx)
  | err (e : Nat)
deriving Repr, DecidableEq, Inhabited

/-- `BeforeRequestCons` / `BeforeRequestNil` as a hook: `first.before()?; rest.before()?; Ok(())`. -/
def runList : List Hook → Ctx → Req → List Event × BOut
  | [], c, _ => ([], .ok c)
  | h :: hs, c, q =>
      if h.fail then ([.before h.tag c q true], .err h.tag)
      else
        let p := runList hs (h.edit.apply c) q
        (.before h.tag c q false :: p.1, p.2)

/-- `BeforeRequestList::then`: `Nil.then(n) = Cons(n, Nil)`, `Cons(f, r).then(n) = Cons(f, r.then(n))`. -/
def thenL : List Hook → Hook → List Hook
  | [], n => [n]
  | f :: r, n => f :: thenL r n

/-- `request_hook::before().then(h1).then(h2)…` -/
def chain (hs : List Hook) : List Hook := hs.foldl thenL []

inductive Serve where
  | leaf (tag : Nat) (r : Res)                      -- the handler: logs, returns `r`
  | before (h : Hook) (inner : Serve)               -- `HookThenServe` with a single hook
  | beforeList (hs : List Hook) (inner : Serve)     -- `HookThenServe` with a cons-list as the hook
  | after (inner : Serve) (h : Hook)                -- `ServeThenHook`
  | both (h : Hook) (inner : Serve)                 -- `HookThenServeThenHook`
deriving Repr, DecidableEq, Inhabited

/-- `BeforeRequestList::serving`: the nil list returns the serve fn itself. -/
def serving : List Hook → Serve → Serve
  | [], s => s
  | h :: hs, s => .beforeList (h :: hs) s

/-- `Serve::serve`: the invocations in order, and the response. -/
def eval : Serve → Ctx → Req → List Event × Res
  | .leaf t r, c, q => ([.handler t c q], r)
  | .before h s, c, q =>
      if h.fail then ([.before h.tag c q true], .err h.tag)
      else
        let p := eval s (h.edit.apply c) q
        (.before h.tag c q false :: p.1, p.2)
  | .beforeList hs s, c, q =>
      let b := runList hs c q
      match b.2 with
      | .err e => (b.1, .err e)
      | .ok c' =>
          let p := eval s c' q
          (b.1 ++ p.1, p.2)
  | .after s h, c, q =>
      let p := eval s c q                            -- `serve.serve(ctx, req)`: ctx is copied
      (p.1 ++ [.after h.tag c p.2], h.redit.apply p.2)
  | .both h s, c, q =>
      if h.fail then ([.before h.tag c q true], .err h.tag)
      else
        let c' := h.edit.apply c
        let p := eval s c' q
        (.before h.tag c q false :: (p.1 ++ [.after h.tag c' p.2]), h.redit.apply p.2)

/-- Number of wrappers around the handler. -/
def Serve.depth : Serve → Nat
  | .leaf _ _ => 0
  | .before _ s => s.depth + 1
  | .beforeList _ s => s.depth + 1
  | .after s _ => s.depth + 1
  | .both _ s => s.depth + 1

end TarpcModel.Hooks

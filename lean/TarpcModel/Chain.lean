import TarpcModel.Sim.Transport
/-
Service chains (the chain parts of C04 and C18): an abstract executable model at the level of calls
and handlers (not poll-granular).

A chain has `depth` hops.  Hop `i` is a client dispatch (`tarpc/src/client.rs`) talking to a server
channel (`tarpc/src/server.rs`, optionally behind `max_concurrent_requests(n)`,
`server/limits/requests_per_channel.rs`).  The handler of hop `i < depth` calls hop `i+1` with the
context it was given and awaits the answer; the handler of hop `stop` (chosen per call) first waits
for the script's `finish`.

What the model takes from the code:
* `Channel::call` without a tracing subscriber replaces the caller's trace context by
  `ctx.trace_context.new_child()` (client.rs 131-139, trace.rs 79-88): same trace id and sampling
  decision, fresh span.  That child is what is written in the request and what the dispatch keeps
  for the request (`in_flight_requests.insert_request(request_id, ctx, ..)`).
* `BaseChannel::start_request` derives *its own* child of the received context (server.rs 207-221)
  and hands that to the handler: the handler's span differs from the span on the wire.
* Dropping a call future sends the request id to the dispatch (`ResponseGuard::drop`), which writes
  `ClientMessage::Cancel` with the stored request context (client.rs 544-553).  The server aborts
  the handler (`in_flight_requests.cancel_request` -> `AbortHandle::abort`); the aborted handler
  future is dropped, and with it the nested call future it was awaiting, which cancels the next hop.
* `MaxRequests::poll_next` answers a request arriving while `n` are in flight with
  `ServerError { kind: WouldBlock }` and never starts a handler for it.
* The in-memory transports move the `Instant`: every hop observes the caller's deadline.

`run` lets every pending activity propagate to quiescence, call by call (in `start` order; the
harness prints the events of a run stably sorted by call, and inside one call every event is
causally after the previous one, so the order is determined).  Fresh spans are numbered in the
order in which they first appear.

Ops that would make the outcome depend on the poll-level schedule are no-ops (`noop`) on both
sides: `abandon` of a call whose `finish` has not run yet; under a request limit, `start` together
with an un-run `abandon`/`finish` (whether the limiter sees the freed slot first is the business of
the `srv` family and of finding C12); deadlines closer than `margin` to the clock (expiry races);
`advance` while anything is un-run (the harness's clock jump yields to the tasks).
-/
namespace TarpcModel.Chain

/-- `trace::Context::new_child` with the `k`-th span drawn from the RNG. -/
def newChild (t : Trace) (k : Nat) : Trace := { t with span := .fresh k }

inductive HSt where
  | notStarted | running | dropped | completed
deriving Repr, DecidableEq

structure Hop where
  req    : Option Trace := none   -- context of the request written at this hop
  seen   : Option Trace := none   -- context the handler observed
  cancel : Option Trace := none   -- context of the cancel message written at this hop
  h      : HSt := .notStarted
deriving Repr, DecidableEq

inductive Phase where
  | fresh        -- `start`ed, the call future has not been polled yet
  | waiting      -- the chain reached hop `stop`, whose handler waits for `finish`
  | finishing    -- `finish` given, not yet run
  | abandoning   -- head call future dropped, cascade not yet run
  | dead         -- abandoned, nothing left
  | done         -- head call returned `Ok`
  | refused      -- head call returned the throttle error
deriving Repr, DecidableEq

structure Call where
  id       : Nat
  ctx      : Trace      -- caller-supplied trace context
  deadline : Nat
  stop     : Nat
  phase    : Phase
  hops     : List Hop
deriving Repr, DecidableEq

structure St where
  depth : Nat
  limit : Option Nat
  now   : Nat := 0
  next  : Nat := 0        -- number of fresh spans drawn so far
  calls : List Call := []
deriving Repr

inductive Op where
  | start (c : Nat) (t : Trace) (d : Nat) (stop : Nat)
  | run
  | abandon (c : Nat)
  | finish (c : Nat)
  | advance (ns : Nat)
deriving Repr, DecidableEq

inductive Obs where
  | wireReq (hop c : Nat) (t : Trace) (d : Nat)
  | wireCancel (hop c : Nat) (t : Trace)
  | handler (hop c : Nat) (t : Trace) (d : Nat)
  | dropped (hop c : Nat)
  | completed (hop c : Nat)
  | outcomeOk (c v : Nat)
  | outcomeRefused (c : Nat)
  | now (t : Nat)
  | noop
deriving Repr, DecidableEq

/-- Distance kept between the clock and every deadline (nanoseconds). -/
def margin : Nat := 10000000

/-- Largest caller-supplied span id (larger values are reserved for the random ones). -/
def givenBound : Nat := 4294967296

def givenSpan : Span → Bool
  | .given n => decide (n < givenBound)
  | .fresh _ => false

/-- Starts the handlers of the hops from `i` on, up to and including hop `upto`.  `parent` is the
context held by whoever calls hop `i`; hops whose handler already runs are walked through. -/
def extend (c dl upto : Nat) : Nat → Trace → Nat → List Hop → List Hop × List Obs × Nat
  | _, _, k, [] => ([], [], k)
  | i, parent, k, hp :: rest =>
    if upto < i then (hp :: rest, [], k) else
    match hp.h, hp.seen with
    | .running, some seen =>
        let r := extend c dl upto (i + 1) seen k rest
        (hp :: r.1, r.2.1, r.2.2)
    | .notStarted, _ =>
        let rq := newChild parent k          -- `Channel::call`
        let sn := newChild rq (k + 1)        -- `BaseChannel::start_request`
        let r := extend c dl upto (i + 1) sn (k + 2) rest
        ({ req := some rq, seen := some sn, cancel := none, h := .running } :: r.1,
         .wireReq i c rq dl :: .handler i c sn dl :: r.2.1, r.2.2)
    | _, _ => (hp :: rest, [], k)

/-- The head call future is dropped: hop `i` gets a cancel carrying the context of its request, its
handler is dropped, which drops the handler's nested call, and so on down the chain. -/
def cascade (c : Nat) : Nat → List Hop → List Hop × List Obs
  | _, [] => ([], [])
  | i, hp :: rest =>
    match hp.h, hp.req with
    | .running, some rq =>
        let r := cascade c (i + 1) rest
        ({ hp with cancel := some rq, h := .dropped } :: r.1,
         .wireCancel i c rq :: .dropped i c :: r.2)
    | _, _ => (hp :: rest, [])

/-- The last handler returns and the responses travel back up: handlers complete deepest first. -/
def complete (c : Nat) : Nat → List Hop → List Hop × List Obs
  | _, [] => ([], [])
  | i, hp :: rest =>
    let r := complete c (i + 1) rest
    if hp.h = .running then ({ hp with h := .completed } :: r.1, r.2 ++ [.completed i c])
    else (hp :: r.1, r.2)

/-- The value the head call returns: the last handler echoes its payload `c*100 + depth`, every
handler above adds 1000. -/
def result (depth c : Nat) : Nat := c * 100 + depth + 1000 * (depth - 1)

/-- Is the hop-1 handler of this call in flight at the first server? -/
def inFlight1 (cl : Call) : Bool :=
  match cl.hops with
  | hp :: _ => hp.h == .running
  | [] => false

def countInFlight1 (calls : List Call) : Nat := (calls.filter inFlight1).length

/-- The request of a throttled call: written at hop 1, answered with the throttle error. -/
def refuse (c dl : Nat) (parent : Trace) (k : Nat) : List Hop → List Hop × List Obs × Nat
  | [] => ([], [.outcomeRefused c], k)
  | hp :: rest =>
    ({ hp with req := some (newChild parent k) } :: rest,
     [.wireReq 1 c (newChild parent k) dl, .outcomeRefused c], k + 1)

/-- `MaxRequests::poll_next`: a request arriving while `n` are in flight is refused. -/
def throttled (limit : Option Nat) (cnt : Nat) : Bool :=
  match limit with
  | some n => decide (n ≤ cnt)
  | none => false

/-- One call's share of a `run`.  `cnt` = requests in flight at hop 1 when this call's turn comes;
returns the call, its events, the span counter and the new count. -/
def runCall (depth : Nat) (limit : Option Nat) (cnt k : Nat) (cl : Call) : Call × List Obs × Nat × Nat :=
  match cl.phase with
  | .fresh =>
      if throttled limit cnt then
        let r := refuse cl.id cl.deadline cl.ctx k cl.hops
        ({ cl with phase := .refused, hops := r.1 }, r.2.1, r.2.2, cnt)
      else
        let r := extend cl.id cl.deadline cl.stop 1 cl.ctx k cl.hops
        ({ cl with phase := .waiting, hops := r.1 }, r.2.1, r.2.2, cnt + 1)
  | .finishing =>
      let r := extend cl.id cl.deadline depth 1 cl.ctx k cl.hops
      let r' := complete cl.id 1 r.1
      ({ cl with phase := .done, hops := r'.1 },
       r.2.1 ++ r'.2 ++ [.outcomeOk cl.id (result depth cl.id)], r.2.2, cnt - 1)
  | .abandoning =>
      let r := cascade cl.id 1 cl.hops
      ({ cl with phase := .dead, hops := r.1 }, r.2, k, cnt - 1)
  | _ => (cl, [], k, cnt)

def runCalls (depth : Nat) (limit : Option Nat) : Nat → Nat → List Call → List Call × List Obs × Nat
  | _, k, [] => ([], [], k)
  | cnt, k, cl :: rest =>
    let r := runCall depth limit cnt k cl
    let r' := runCalls depth limit r.2.2.2 r.2.2.1 rest
    (r.1 :: r'.1, r.2.1 ++ r'.2.1, r'.2.2)

def hasCall (c : Nat) (calls : List Call) : Bool := calls.any (fun cl => cl.id == c)

def pendingStart (calls : List Call) : Bool := calls.any (fun cl => cl.phase == .fresh)

def pendingFree (calls : List Call) : Bool :=
  calls.any (fun cl => cl.phase == .finishing || cl.phase == .abandoning)

/-- Applies `f` to the call(s) with id `c`. -/
def updCall (c : Nat) (f : Call → Call) : List Call → List Call
  | [] => []
  | cl :: rest => (if cl.id = c then f cl else cl) :: updCall c f rest

def findCall (c : Nat) : List Call → Option Call
  | [] => none
  | cl :: rest => if cl.id = c then some cl else findCall c rest

def startOk (s : St) (c : Nat) (t : Trace) (d stop : Nat) : Bool :=
  !hasCall c s.calls && decide (c < 1000000) && givenSpan t.span &&
  decide (1 ≤ stop) && decide (stop ≤ s.depth) && decide (s.now + margin ≤ d) &&
  !(s.limit.isSome && pendingFree s.calls)

def blank (n : Nat) : List Hop := List.replicate n {}

def abandonPhase (s : St) (cl : Call) : Option Phase :=
  match cl.phase with
  | .fresh => some .dead                 -- never polled: dropping it does nothing at all
  | .waiting => if s.limit.isSome && pendingStart s.calls then none else some .abandoning
  | _ => none

def finishOk (s : St) (cl : Call) : Bool :=
  cl.phase == .waiting && !(s.limit.isSome && pendingStart s.calls)

def advanceOk (s : St) (ns : Nat) : Bool :=
  decide (0 < ns) && decide (ns ≤ 1000000000000) &&
  !pendingStart s.calls && !pendingFree s.calls &&   -- `tokio::time::advance` yields to the tasks
  s.calls.all (fun cl => decide (s.now + ns + margin ≤ cl.deadline))

def step (s : St) : Op → St × List Obs
  | .start c t d stop =>
      if startOk s c t d stop then
        ({ s with calls := s.calls ++
            [{ id := c, ctx := t, deadline := d, stop := stop, phase := .fresh, hops := blank s.depth }] }, [])
      else (s, [.noop])
  | .run =>
      let r := runCalls s.depth s.limit (countInFlight1 s.calls) s.next s.calls
      ({ s with calls := r.1, next := r.2.2 }, r.2.1)
  | .abandon c =>
      match findCall c s.calls with
      | none => (s, [.noop])
      | some cl =>
        match abandonPhase s cl with
        | some ph => ({ s with calls := updCall c (fun cl => { cl with phase := ph }) s.calls }, [])
        | none => (s, [.noop])
  | .finish c =>
      match findCall c s.calls with
      | none => (s, [.noop])
      | some cl =>
        if finishOk s cl then
          ({ s with calls := updCall c (fun cl => { cl with phase := .finishing }) s.calls }, [])
        else (s, [.noop])
  | .advance ns =>
      if advanceOk s ns then ({ s with now := s.now + ns }, [.now (s.now + ns)]) else (s, [.noop])

/-- Final state and the per-op observation lists. -/
def runTrace (s : St) : List Op → St × List (Op × List Obs)
  | [] => (s, [])
  | op :: ops =>
    let r := step s op
    let r' := runTrace r.1 ops
    (r'.1, (op, r.2) :: r'.2)

def run (s : St) (ops : List Op) : St × List Obs :=
  let r := runTrace s ops
  (r.1, r.2.flatMap (·.2))

def init (depth : Nat) (limit : Option Nat) : St := { depth := depth, limit := limit }

end TarpcModel.Chain

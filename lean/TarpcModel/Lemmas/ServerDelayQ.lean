import TarpcModel.Prim.DelayQ
/-!
Facts about the `DelayQueue` model that the server-side invariants need: the multiset of
`(key, value)` pairs a queue holds (`DelayQ.kv`), and how `insert`, `remove` and `pollExpired`
change it.  Nothing here depends on the timer-wheel geometry: cascades only re-file entries.
-/
namespace TarpcModel.DelayQ

/-- `(key, value)` pairs of a list of queue entries. -/
def kvOf (l : List DqEntry) : List (Nat × Nat) := l.map (fun d => (d.key, d.val))

/-- The `(key, value)` pairs a queue holds (wheel first, then the already-expired stack). -/
def kv (q : DelayQ) : List (Nat × Nat) := kvOf (q.entries ++ q.expired)

@[simp] theorem kvOf_nil : kvOf [] = [] := rfl
@[simp] theorem kvOf_cons (d : DqEntry) (l : List DqEntry) : kvOf (d :: l) = (d.key, d.val) :: kvOf l := rfl
@[simp] theorem kvOf_append (a b : List DqEntry) : kvOf (a ++ b) = kvOf a ++ kvOf b := by simp [kvOf]
@[simp] theorem kvOf_length (l : List DqEntry) : (kvOf l).length = l.length := by simp [kvOf]

theorem kv_length (q : DelayQ) : q.kv.length = q.len := by simp [kv, len]

theorem kv_def (q : DelayQ) : q.kv = kvOf q.entries ++ kvOf q.expired := by simp [kv]

/-- Well-formed queue: keys are pairwise distinct and below the key allocator. -/
structure KvWF (q : DelayQ) : Prop where
  nodup : (q.kv.map (·.1)).Nodup
  lt : ∀ p ∈ q.kv, p.1 < q.nextKey

theorem kvwf_empty : KvWF ({} : DelayQ) := ⟨by simp [kv], by simp [kv]⟩

/-! ### list helpers -/

theorem kvOf_filter_key (l : List DqEntry) (k : Nat) :
    kvOf (l.filter (·.key != k)) = (kvOf l).filter (·.1 != k) := by
  induction l with
  | nil => rfl
  | cons d l ih =>
    by_cases h : d.key = k <;> simp [h, ih]

theorem mem_kvOf {l : List DqEntry} {d : DqEntry} (h : d ∈ l) : (d.key, d.val) ∈ kvOf l := by
  simp only [kvOf, List.mem_map]; exact ⟨d, h, rfl⟩

/-- In a list of pairs with distinct first components, filtering out the key of a member removes
exactly that member. -/
theorem perm_cons_filter_fst {l : List (Nat × Nat)} (hn : (l.map (·.1)).Nodup) {p : Nat × Nat}
    (hp : p ∈ l) : l.Perm (p :: l.filter (·.1 != p.1)) := by
  induction l with
  | nil => cases hp
  | cons a l ih =>
    simp only [List.map_cons, List.nodup_cons, List.mem_map, not_exists, not_and] at hn
    rcases List.mem_cons.mp hp with rfl | hp'
    · have : l.filter (·.1 != p.1) = l := by
        apply List.filter_eq_self.mpr
        intro b hb
        have := hn.1 b hb
        simp only [bne_iff_ne, ne_eq]; exact this
      simp [this]
    · have hne : a.1 ≠ p.1 := fun h => hn.1 p hp' h.symm
      have := ih hn.2 hp'
      simp only [List.filter_cons, bne_iff_ne, ne_eq, hne, not_false_eq_true, ↓reduceIte]
      exact (List.Perm.cons a this).trans (List.Perm.swap _ _ _)

theorem nodup_filter_fst {l : List (Nat × Nat)} (hn : (l.map (·.1)).Nodup) (k : Nat) :
    ((l.filter (·.1 != k)).map (·.1)).Nodup :=
  List.Nodup.sublist ((List.filter_sublist).map _) hn

/-! ### the wheel only re-files entries -/

theorem slotTop_foldl_mem (l : List DqEntry) (init : Option DqEntry) (e : DqEntry)
    (h : l.foldl (fun acc e => match acc with
        | none => some e
        | some a => if e.seq > a.seq then some e else some a) init = some e) :
    e ∈ l ∨ init = some e := by
  induction l generalizing init with
  | nil => right; simpa using h
  | cons d l ih =>
    simp only [List.foldl_cons] at h
    rcases ih _ h with h' | h'
    · left; exact List.mem_cons_of_mem _ h'
    · cases init with
      | none => simp at h'; left; simp [h']
      | some a =>
        simp only at h'
        split at h'
        · left; simp at h'; simp [h']
        · right; exact h'

theorem slotTop_mem {q : DelayQ} {level slot : Nat} {e : DqEntry} (h : slotTop q level slot = some e) :
    e ∈ q.entries := by
  unfold slotTop at h
  rcases slotTop_foldl_mem _ _ _ h with h' | h'
  · exact (List.mem_filter.mp h').1
  · cases h'

/-- Re-filing one entry (same key and value) keeps the pairs. -/
theorem kvOf_refile {l : List DqEntry} (hn : ((kvOf l).map (·.1)).Nodup) {e e' : DqEntry} (he : e ∈ l)
    (hk : e'.key = e.key) (hv : e'.val = e.val) :
    (kvOf (l.filter (·.key != e.key) ++ [e'])).Perm (kvOf l) := by
  rw [kvOf_append, kvOf_filter_key]
  simp only [kvOf_cons, kvOf_nil, hk, hv]
  have := perm_cons_filter_fst hn (mem_kvOf he)
  exact (List.perm_append_comm).trans this.symm

theorem cascade_kv (fuel : Nat) (q : DelayQ) (level slot : Nat)
    (hn : ((kvOf q.entries).map (·.1)).Nodup) :
    (kvOf (cascade fuel q level slot).entries).Perm (kvOf q.entries)
    ∧ (cascade fuel q level slot).expired = q.expired
    ∧ (cascade fuel q level slot).nextKey = q.nextKey := by
  induction fuel generalizing q with
  | zero => simp [cascade]
  | succ fuel ih =>
    unfold cascade
    split
    · simp
    · rename_i e he
      have hp := kvOf_refile hn (slotTop_mem he) (e' := { e with level := level - 1, seq := q.seqCtr }) rfl rfl
      have hn' := (hp.map (·.1)).nodup_iff.mpr hn
      have := ih { q with entries := (q.entries.filter (·.key != e.key)) ++ [{ e with level := level - 1, seq := q.seqCtr }],
                          seqCtr := q.seqCtr + 1 } hn'
      exact ⟨this.1.trans hp, this.2.1, this.2.2⟩

/-- What a poll result says about the pairs: an expired entry left the collection, otherwise
nothing changed. -/
def PollSpec (before after : List (Nat × Nat)) : Option DqEntry → Prop
  | none => after.Perm before
  | some e => before.Perm ((e.key, e.val) :: after)

theorem wheelPoll_kv (fuel : Nat) (q : DelayQ) (now : Nat)
    (hn : ((kvOf q.entries).map (·.1)).Nodup) :
    PollSpec (kvOf q.entries) (kvOf (wheelPoll fuel q now).1.entries) (wheelPoll fuel q now).2
    ∧ (wheelPoll fuel q now).1.expired = q.expired
    ∧ (wheelPoll fuel q now).1.nextKey = q.nextKey := by
  induction fuel generalizing q with
  | zero => simp [wheelPoll, PollSpec]
  | succ fuel ih =>
    unfold wheelPoll
    split
    · simp [PollSpec]
    · rename_i ex _
      split
      · simp [PollSpec]
      · split
        · split
          · rename_i e he
            refine ⟨?_, rfl, rfl⟩
            simp only [PollSpec]
            rw [kvOf_filter_key]
            exact perm_cons_filter_fst hn (mem_kvOf (slotTop_mem he))
          · simp [PollSpec]
        · have hc := cascade_kv (q.entries.length + 1) q ex.level ex.slot hn
          have hn' := (hc.1.map (·.1)).nodup_iff.mpr hn
          have := ih { cascade (q.entries.length + 1) q ex.level ex.slot with
                        wheelElapsed := max (cascade (q.entries.length + 1) q ex.level ex.slot).wheelElapsed ex.deadline } hn'
          refine ⟨?_, this.2.1.trans hc.2.1, this.2.2.trans hc.2.2⟩
          revert this
          generalize (wheelPoll fuel _ now) = r
          intro this
          cases hr : r.2 with
          | none => have := this.1; rw [hr] at this; exact this.trans hc.1
          | some e => have := this.1; rw [hr] at this; exact hc.1.symm.trans this

/-- Result of a queue poll as an optional entry. -/
def PollRes.popped : PollRes → Option DqEntry
  | .expired e => some e
  | .none => Option.none
  | .pending => Option.none

/-- The part of `pollIdx` after the wheel was polled. -/
def pollIdxK (fuel now : Nat) (r : DelayQ × Option DqEntry) : DelayQ × PollRes :=
  match r.2 with
  | some e => ({ r.1 with delay := nextDeadline r.1 }, .expired e)
  | none =>
      if (nextDeadline r.1).isNone then ({ r.1 with delay := nextDeadline r.1, waker := true }, .none)
      else pollIdx fuel { r.1 with delay := nextDeadline r.1 } now

theorem pollIdx_succ_kv (fuel : Nat) (q : DelayQ) (now : Nat) :
    pollIdx (fuel + 1) q now =
      match q.delay with
      | some dl =>
          if now < dl * nsPerMs then ({ q with waker := true }, .pending)
          else pollIdxK fuel now (wheelPoll (wheelFuel { q with wheelNow := dl }) { q with wheelNow := dl } dl)
      | none => pollIdxK fuel now (wheelPoll (wheelFuel q) q q.wheelNow) := by
  rw [pollIdx]
  cases q.delay <;> rfl

theorem pollIdx_kv (fuel : Nat) (q : DelayQ) (now : Nat)
    (hn : ((kvOf q.entries).map (·.1)).Nodup) :
    PollSpec (kvOf q.entries) (kvOf (pollIdx fuel q now).1.entries) (pollIdx fuel q now).2.popped
    ∧ (pollIdx fuel q now).1.expired = q.expired
    ∧ (pollIdx fuel q now).1.nextKey = q.nextKey := by
  induction fuel generalizing q with
  | zero => simp [pollIdx, PollSpec, PollRes.popped]
  | succ fuel ih =>
    have key : ∀ (q0 : DelayQ) (wn : Nat), q0.entries = q.entries → q0.expired = q.expired →
        q0.nextKey = q.nextKey →
        PollSpec (kvOf q.entries) (kvOf (pollIdxK fuel now (wheelPoll (wheelFuel q0) q0 wn)).1.entries)
          (pollIdxK fuel now (wheelPoll (wheelFuel q0) q0 wn)).2.popped
        ∧ (pollIdxK fuel now (wheelPoll (wheelFuel q0) q0 wn)).1.expired = q.expired
        ∧ (pollIdxK fuel now (wheelPoll (wheelFuel q0) q0 wn)).1.nextKey = q.nextKey := by
      intro q0 wn h1 h2 h3
      have hw := wheelPoll_kv (wheelFuel q0) q0 wn (h1 ▸ hn)
      rw [h1, h2, h3] at hw
      revert hw
      generalize wheelPoll (wheelFuel q0) q0 wn = r
      intro hw
      unfold pollIdxK
      cases hr2 : r.2 with
      | some e =>
        simp only [PollRes.popped]
        have := hw.1; rw [hr2] at this
        exact ⟨this, hw.2.1, hw.2.2⟩
      | none =>
        have h1' := hw.1; rw [hr2] at h1'
        simp only [PollSpec] at h1'
        simp only
        split
        · exact ⟨by simpa [PollSpec, PollRes.popped] using h1', hw.2.1, hw.2.2⟩
        · have hn' := (h1'.map (·.1)).nodup_iff.mpr hn
          have := ih { r.1 with delay := nextDeadline r.1 } hn'
          refine ⟨?_, this.2.1.trans hw.2.1, this.2.2.trans hw.2.2⟩
          revert this
          generalize (pollIdx fuel _ now) = r'
          intro this
          cases hr' : r'.2.popped with
          | none => have := this.1; rw [hr'] at this; exact this.trans h1'
          | some e => have := this.1; rw [hr'] at this; exact h1'.symm.trans this
    rw [pollIdx_succ_kv]
    split
    · rename_i dl _
      split
      · simp [PollSpec, PollRes.popped]
      · exact key { q with wheelNow := dl } dl rfl rfl rfl
    · exact key q _ rfl rfl rfl

theorem pollExpired_eq (q : DelayQ) (now : Nat) :
    q.pollExpired now =
      match q.expired with
      | e :: rest => ({ q with waker := true, expired := rest }, .expired e)
      | [] => pollIdx (wheelFuel { q with waker := true } + 8) { q with waker := true } now := by
  unfold pollExpired
  cases q.expired <;> simp

/-- **`pollExpired`**: an entry reported expired has left the queue; otherwise the pairs are
unchanged.  The key allocator is untouched. -/
theorem pollExpired_kv (q : DelayQ) (now : Nat) (hw : KvWF q) :
    PollSpec q.kv (q.pollExpired now).1.kv (q.pollExpired now).2.popped
    ∧ (q.pollExpired now).1.nextKey = q.nextKey := by
  have hn : ((kvOf q.entries).map (·.1)).Nodup := by
    have := hw.nodup; rw [kv_def, List.map_append] at this
    exact (List.nodup_append.mp this).1
  rw [pollExpired_eq]
  split
  · rename_i e rest he
    simp only [PollRes.popped, PollSpec, kv_def, he, kvOf_cons]
    exact ⟨List.perm_middle, trivial⟩
  · rename_i he
    have := pollIdx_kv (wheelFuel { q with waker := true } + 8) { q with waker := true } now hn
    refine ⟨?_, this.2.2⟩
    revert this
    generalize (pollIdx _ _ now) = r
    intro this
    cases hr : r.2.popped with
    | none =>
      have h1 := this.1; rw [hr] at h1
      simp only [PollSpec, kv_def, this.2.1, he] at h1 ⊢
      exact h1.append_right _
    | some e =>
      have h1 := this.1; rw [hr] at h1
      simp only [PollSpec, kv_def, this.2.1, he] at h1 ⊢
      exact (h1.append_right _)

theorem pollExpired_wf (q : DelayQ) (now : Nat) (hw : KvWF q) : KvWF (q.pollExpired now).1 := by
  have hs := pollExpired_kv q now hw
  revert hs
  generalize q.pollExpired now = r
  intro hs
  cases hr : r.2.popped with
  | none =>
    rw [hr] at hs
    have hp : r.1.kv.Perm q.kv := hs.1
    exact ⟨(hp.map (·.1)).nodup_iff.mpr hw.nodup, fun p hp' => hs.2 ▸ hw.lt p (hp.mem_iff.mp hp')⟩
  | some e =>
    rw [hr] at hs
    have hp : q.kv.Perm ((e.key, e.val) :: r.1.kv) := hs.1
    have h2 := (hp.map (·.1)).nodup_iff.mp hw.nodup
    simp only [List.map_cons, List.nodup_cons] at h2
    exact ⟨h2.2, fun p hp' => hs.2 ▸ hw.lt p (hp.mem_iff.mpr (List.mem_cons_of_mem _ hp'))⟩

/-! ### `insert` -/

theorem insert_ok_spec (q : DelayQ) (now timeout val : Nat) (q' : DelayQ) (key : Nat) (w : Bool)
    (h : q.insert now timeout val = (q', .ok key, w)) :
    key = q.nextKey ∧ q'.nextKey = q.nextKey + 1 ∧ q'.kv.Perm ((key, val) :: q.kv) := by
  unfold insert at h
  simp only at h
  split at h
  · cases h
  · by_cases hle : max (ceilMs (now + timeout)) q.wheelElapsed ≤ q.wheelElapsed
    all_goals
      simp only [hle, ↓reduceIte] at h
      (repeat' split at h) <;>
        (simp only [Prod.mk.injEq, InsertRes.ok.injEq] at h; obtain ⟨rfl, rfl, _⟩ := h
         simp [kv_def, List.perm_middle])

theorem insert_ok_wf (q : DelayQ) (now timeout val : Nat) (q' : DelayQ) (key : Nat) (w : Bool)
    (h : q.insert now timeout val = (q', .ok key, w)) (hw : KvWF q) : KvWF q' := by
  obtain ⟨hk, hnk, hp⟩ := insert_ok_spec q now timeout val q' key w h
  constructor
  · apply (hp.map (·.1)).nodup_iff.mpr
    simp only [List.map_cons, List.nodup_cons, List.mem_map, not_exists, not_and]
    refine ⟨fun p hp' hpe => ?_, hw.nodup⟩
    have := hw.lt p hp'
    omega
  · intro p hp'
    rcases List.mem_cons.mp (hp.mem_iff.mp hp') with rfl | h'
    · simp [hnk, hk]
    · have := hw.lt p h'; omega

/-! ### `remove` -/

theorem remove_isSome_iff (q : DelayQ) (key : Nat) :
    (q.remove key).isSome = true ↔ key ∈ q.kv.map (·.1) := by
  unfold remove
  simp only [kv_def, List.map_append, List.mem_append, kvOf, List.map_map, List.mem_map, Function.comp]
  split
  · rename_i h
    simp only [Option.isSome_some, true_iff]
    simp only [Bool.or_eq_true, List.any_eq_true, beq_iff_eq] at h
    exact h
  · rename_i h
    simp only [Option.isSome_none, Bool.false_eq_true, false_iff]
    simp only [Bool.or_eq_true, List.any_eq_true, beq_iff_eq] at h
    exact h

theorem remove_some_spec (q : DelayQ) (key : Nat) (q' : DelayQ) (w : Bool)
    (h : q.remove key = some (q', w)) :
    q'.kv = q.kv.filter (·.1 != key) ∧ q'.nextKey = q.nextKey := by
  unfold remove at h
  split at h
  · simp only [Option.some.injEq, Prod.mk.injEq] at h
    obtain ⟨rfl, _⟩ := h
    simp only [kv_def, List.filter_append, ← kvOf_filter_key]
    split <;> simp
  · cases h

theorem remove_some_wf (q : DelayQ) (key : Nat) (q' : DelayQ) (w : Bool)
    (h : q.remove key = some (q', w)) (hw : KvWF q) : KvWF q' := by
  obtain ⟨hkv, hnk⟩ := remove_some_spec q key q' w h
  constructor
  · rw [hkv]; exact nodup_filter_fst hw.nodup key
  · intro p hp; rw [hkv] at hp; rw [hnk]; exact hw.lt p (List.mem_filter.mp hp).1

end TarpcModel.DelayQ

import TarpcModel.Lemmas.ServerMonObs
import TarpcModel.Lemmas.ServerMon14
/-!
The never-early clause of the server's C06 monitor (`checkC06`, `Monitors/Server.lean`) accepts every trace of the
server model: a handler reported `dropped` by `poll-exec` before its deadline has had a `Cancel` read for it (while
the monitor's table listed it) or the request stream dropped.

* views: `sview` (what of the model's state matters: per execution rid / id / deadline / vis / live / aborted; the
  `(id, rid)` pairs of the in-flight table; `nextVis`; `dropped`) and `bview` (what of the monitor's `Book` matters:
  clock, per execution id / deadline / yieldedAt / cancelRead / abandoned; table; abandon order; dropped);
* `K`: the coupling between the two views (`pend`: a request started in the current poll and not yet handed out),
  with the view-level preservation lemmas `K.model`, `K.book`, `K.start`, `K.yield`, `K.advance`, `K.unpend`;
* the book's own steps on views (`sweepOne_spec`, `K_sweepOne`, `K_untrack`, `K_cancelRead`, `K_sweep`, `K_step_tNext`,
  `K_step_ret`, `K_endOp`);
* `J`: the coupling along the observation buffer of the current op — or the monitor is past a spin / panic; `Ext` /
  `QS` / `ESt` / `LD`: what the parts of the model do to the buffer and the view;
* the walk through one poll (`J_bpStep` … `J_requestsPollNext`, `J_pskFinish`, `J_pollServer`), the other ops
  (`ld_applyOp`, `JP_ld`), one op (`op_step`), every trace (`c06_trace`, `c06_early_accepts`);
* `checkC06Early` / `checkC06Rest` / `checkC06_split`: the clause within `checkC06`.

(Pitfall met twice: never let the kernel compare terms containing `e.tick ≤ b.now` up to unfolding — `tick` is
`ceilMs … * 1000000`, and `whnf` of the `Decidable` instance evaluates the literal in unary.  State such facts
generically in the condition, or field by field.)
-/
namespace TarpcModel.Server.Mon06
open TarpcModel TarpcModel.Server TarpcModel.Server.Flow TarpcModel.Server.ObsMon
set_option linter.unusedSimpArgs false
set_option linter.unusedVariables false

/-! ## views -/

structure XE where
  rid : Nat
  id : Nat
  deadline : Nat
  vis : Option Nat
  live : Bool
  aborted : Bool

def xe (e : Exec) : XE := ⟨e.rid, e.id, e.deadline, e.vis, execLive e, e.aborted⟩

structure SV where
  execs : List XE
  inflight : List (Nat × Nat)      -- (id, rid)
  nextVis : Nat
  dropped : Bool

def sview (s : St) : SV := ⟨s.execs.map xe, s.inflight.map SEntry.ir, s.nextVis, s.dropped⟩

structure XB where
  rid : Nat
  id : Nat
  deadline : Nat
  yieldedAt : Nat
  cancelRead : Bool
  abandoned : Bool

def xb (e : BExec) : XB := ⟨e.rid, e.id, e.deadline, e.yieldedAt, e.cancelRead, e.abandoned⟩

def XB.tick (x : XB) : Nat := Client.ceilMsNs (max x.deadline x.yieldedAt)

structure BV where
  now : Nat
  execs : List XB
  table : List (Nat × Nat)
  ao : List Nat
  dropped : Bool

def bview (b : Book) : BV := ⟨b.now, b.execs.map xb, b.table, b.abandonOrder, b.dropped⟩

def BV.find (B : BV) (v : Nat) : Option XB := B.execs.find? (·.rid == v)

theorem BV.find_rid {B : BV} {v : Nat} {eb : XB} (h : B.find v = some eb) : eb.rid = v := by
  have := List.find?_some h
  simpa using this

theorem BV.find_mem {B : BV} {v : Nat} {eb : XB} (h : B.find v = some eb) : eb ∈ B.execs :=
  List.mem_of_find?_eq_some h

/-- the reasons for an abort the monitor's clause accepts (or the execution is not live: it will never be polled) -/
def Reason (now : Nat) (B : BV) (x : XE) (live : Bool) : Prop :=
  (∃ v eb, x.vis = some v ∧ B.find v = some eb ∧ eb.cancelRead = true) ∨ B.dropped = true ∨ x.deadline ≤ now ∨
    live = false

/-- the coupling between the monitor's book and the model's state (`pend`: rid and id of a request started in the
current poll and not yet handed out) -/
structure K (now : Nat) (pend : Option (Nat × Nat)) (B : BV) (S : SV) : Prop where
  clk : B.now = now
  ridNodup : (S.execs.map (·.rid)).Nodup
  ridLt : ∀ x ∈ S.execs, x.rid < S.execs.length
  bex : ∀ x ∈ S.execs, ∀ v, x.vis = some v → ∃ eb, B.find v = some eb ∧ eb.id = x.id ∧ eb.deadline = x.deadline ∧
    (eb.abandoned = true → x.live = false)
  visLt : ∀ x ∈ S.execs, ∀ v, x.vis = some v → v < S.nextVis
  visInj : ∀ x ∈ S.execs, ∀ x' ∈ S.execs, ∀ v, x.vis = some v → x'.vis = some v → x = x'
  bLt : ∀ eb ∈ B.execs, eb.rid < S.nextVis
  iridLt : ∀ en ∈ S.inflight, en.2 < S.execs.length
  eid : ∀ en ∈ S.inflight, ∀ x ∈ S.execs, x.rid = en.2 → x.id = en.1
  tab : ∀ en ∈ S.inflight, ∀ x ∈ S.execs, x.rid = en.2 → ∀ v, x.vis = some v → ∀ eb, B.find v = some eb →
    (en.1, v) ∈ B.table ∨ eb.tick ≤ B.now ∨ eb.abandoned = true
  tnd : (B.table.map (·.1)).Nodup
  ab : ∀ r ∈ B.ao, ∃ eb, B.find r = some eb ∧ eb.abandoned = true
  why : ∀ x ∈ S.execs, x.aborted = true → Reason now B x x.live
  unv : ∀ x ∈ S.execs, x.vis = none → x.live = false ∨ (∃ id, pend = some (x.rid, id)) ∨ ∀ en ∈ S.inflight, en.2 ≠ x.rid
  pnd : ∀ r id, pend = some (r, id) → (∀ en ∈ S.inflight, en.1 = id → en.2 = r) ∧
    ∃ x ∈ S.execs, x.rid = r ∧ x.id = id ∧ x.vis = none
  drp : S.dropped = true → B.dropped = true
  bNodup : (B.execs.map (·.rid)).Nodup

theorem eq_of_rid_nodup {l : List XE} (h : (l.map (·.rid)).Nodup) {x y : XE} (hx : x ∈ l) (hy : y ∈ l)
    (he : x.rid = y.rid) : x = y := by
  induction l with
  | nil => cases hx
  | cons a l ih =>
    simp only [List.map_cons, List.nodup_cons, List.mem_map, not_exists, not_and] at h
    rcases List.mem_cons.mp hx with rfl | hx'
    · rcases List.mem_cons.mp hy with rfl | hy'
      · rfl
      · exact absurd he.symm (h.1 y hy')
    · rcases List.mem_cons.mp hy with rfl | hy'
      · exact absurd he (h.1 x hx')
      · exact ih h.2 hx' hy'

/-! ### a model step that keeps the executions' identities -/

theorem K.model {now : Nat} {pend pend' : Option (Nat × Nat)} {B : BV} {S S' : SV} (h : K now pend B S) (g : XE → XE)
    (hex : S'.execs = S.execs.map g)
    (hg : ∀ x ∈ S.execs, (g x).rid = x.rid ∧ (g x).id = x.id ∧ (g x).deadline = x.deadline ∧ (g x).vis = x.vis ∧
      ((g x).live = true → x.live = true))
    (hab : ∀ x ∈ S.execs, (g x).aborted = true → x.aborted = true ∨ Reason now B x (g x).live)
    (hin : ∀ en ∈ S'.inflight, en ∈ S.inflight)
    (hnv : S'.nextVis = S.nextVis)
    (hdr : S'.dropped = true → S.dropped = true ∨ B.dropped = true)
    (hpend : pend' = pend ∨ (pend' = none ∧ ∀ r id, pend = some (r, id) → ∀ x ∈ S.execs, x.rid = r → (g x).live = false)) :
    K now pend' B S' := by
  have hmem : ∀ x' ∈ S'.execs, ∃ x ∈ S.execs, x' = g x := by
    intro x' hx'; rw [hex] at hx'; obtain ⟨x, hx, rfl⟩ := List.mem_map.mp hx'; exact ⟨x, hx, rfl⟩
  have hlive : ∀ x ∈ S.execs, x.live = false → (g x).live = false := by
    intro x hx hl
    cases hgl : (g x).live with
    | false => rfl
    | true => rw [(hg x hx).2.2.2.2 hgl] at hl; cases hl
  refine ⟨h.clk, ?_, ?_, ?_, ?_, ?_, ?_, ?_, ?_, ?_, h.tnd, h.ab, ?_, ?_, ?_, ?_, h.bNodup⟩
  · rw [hex, List.map_map]
    have : S.execs.map ((·.rid) ∘ g) = S.execs.map (·.rid) := List.map_congr_left (fun x hx => (hg x hx).1)
    rw [this]; exact h.ridNodup
  · intro x' hx'
    obtain ⟨x, hx, rfl⟩ := hmem x' hx'
    rw [hex, List.length_map, (hg x hx).1]; exact h.ridLt x hx
  · intro x' hx' v hv
    obtain ⟨x, hx, rfl⟩ := hmem x' hx'
    obtain ⟨h1, h2, h3, h4, h5⟩ := hg x hx
    rw [h4] at hv
    obtain ⟨eb, he1, he2, he3, he4⟩ := h.bex x hx v hv
    exact ⟨eb, he1, by rw [h2]; exact he2, by rw [h3]; exact he3, fun ha => hlive x hx (he4 ha)⟩
  · intro x' hx' v hv
    obtain ⟨x, hx, rfl⟩ := hmem x' hx'
    rw [(hg x hx).2.2.2.1] at hv
    rw [hnv]; exact h.visLt x hx v hv
  · intro x1 hx1 x2 hx2 v hv1 hv2
    obtain ⟨y1, hy1, rfl⟩ := hmem x1 hx1
    obtain ⟨y2, hy2, rfl⟩ := hmem x2 hx2
    rw [(hg y1 hy1).2.2.2.1] at hv1
    rw [(hg y2 hy2).2.2.2.1] at hv2
    rw [h.visInj y1 hy1 y2 hy2 v hv1 hv2]
  · intro eb heb; rw [hnv]; exact h.bLt eb heb
  · intro en hen; rw [hex, List.length_map]; exact h.iridLt en (hin en hen)
  · intro en hen x' hx' hr
    obtain ⟨x, hx, rfl⟩ := hmem x' hx'
    rw [(hg x hx).1] at hr
    rw [(hg x hx).2.1]; exact h.eid en (hin en hen) x hx hr
  · intro en hen x' hx' hr v hv eb heb
    obtain ⟨x, hx, rfl⟩ := hmem x' hx'
    rw [(hg x hx).1] at hr
    rw [(hg x hx).2.2.2.1] at hv
    exact h.tab en (hin en hen) x hx hr v hv eb heb
  · intro x' hx' ha
    obtain ⟨x, hx, rfl⟩ := hmem x' hx'
    obtain ⟨h1, h2, h3, h4, h5⟩ := hg x hx
    have conv : Reason now B x (g x).live → Reason now B (g x) (g x).live := by
      intro hr
      rcases hr with ⟨v, eb, hv, hf, hc⟩ | hr | hr | hr
      · exact Or.inl ⟨v, eb, by rw [h4]; exact hv, hf, hc⟩
      · exact Or.inr (Or.inl hr)
      · exact Or.inr (Or.inr (Or.inl (by rw [h3]; exact hr)))
      · exact Or.inr (Or.inr (Or.inr hr))
    rcases hab x hx ha with hold | hnew
    · apply conv
      rcases h.why x hx hold with hr | hr | hr | hr
      · exact Or.inl hr
      · exact Or.inr (Or.inl hr)
      · exact Or.inr (Or.inr (Or.inl hr))
      · exact Or.inr (Or.inr (Or.inr (hlive x hx hr)))
    · exact conv hnew
  · intro x' hx' hv
    obtain ⟨x, hx, rfl⟩ := hmem x' hx'
    rw [(hg x hx).2.2.2.1] at hv
    rcases h.unv x hx hv with hl | ⟨id, hp⟩ | ho
    · exact Or.inl (hlive x hx hl)
    · rcases hpend with hp' | ⟨hp', hall⟩
      · right; left; exact ⟨id, by rw [hp', hp, (hg x hx).1]⟩
      · left; exact hall x.rid id hp x hx rfl
    · right; right
      intro en hen
      rw [(hg x hx).1]; exact ho en (hin en hen)
  · intro r id hp
    rcases hpend with hp' | ⟨hp', _⟩
    · rw [hp'] at hp
      obtain ⟨h1, x, hx, h2, h3, h4⟩ := h.pnd r id hp
      refine ⟨fun en hen he => h1 en (hin en hen) he, g x, ?_, ?_, ?_, ?_⟩
      · rw [hex]; exact List.mem_map_of_mem hx
      · rw [(hg x hx).1]; exact h2
      · rw [(hg x hx).2.1]; exact h3
      · rw [(hg x hx).2.2.2.1]; exact h4
    · rw [hp'] at hp; cases hp
  · intro hd
    rcases hdr hd with h1 | h1
    · exact h.drp h1
    · exact h1

/-! ### a book step that keeps the executions' identities, shrinks the table with reason and grows flags -/

theorem find_map_rid (l : List XB) (hh : XB → XB) (hr : ∀ y, (hh y).rid = y.rid) (v : Nat) :
    (l.map hh).find? (·.rid == v) = (l.find? (·.rid == v)).map hh := by
  rw [List.find?_map]
  congr 1
  congr 1
  funext y
  simp [hr]

theorem K.book {now : Nat} {pend : Option (Nat × Nat)} {B B' : BV} {S : SV} (h : K now pend B S) (hh : XB → XB)
    (hnow : B'.now = B.now)
    (hex : B'.execs = B.execs.map hh)
    (hh1 : ∀ y, (hh y).rid = y.rid ∧ (hh y).id = y.id ∧ (hh y).deadline = y.deadline ∧ (hh y).yieldedAt = y.yieldedAt ∧
      (y.cancelRead = true → (hh y).cancelRead = true) ∧ (y.abandoned = true → (hh y).abandoned = true))
    (hab : ∀ y ∈ B.execs, (hh y).abandoned = true → y.abandoned = true ∨ ∀ x ∈ S.execs, x.vis = some y.rid → x.live = false)
    (htab : List.Sublist B'.table B.table)
    (hrem : ∀ p ∈ B.table, p ∈ B'.table ∨ (∃ eb, B.find p.2 = some eb ∧ (eb.tick ≤ B.now ∨ eb.abandoned = true)) ∨
      (∀ en ∈ S.inflight, en.1 ≠ p.1))
    (hao : ∀ r ∈ B'.ao, r ∈ B.ao ∨ ∃ eb', B'.find r = some eb' ∧ eb'.abandoned = true)
    (hdr : B.dropped = true → B'.dropped = true) : K now pend B' S := by
  have hfind : ∀ v, B'.find v = (B.find v).map hh := by
    intro v; unfold BV.find; rw [hex]; exact find_map_rid _ hh (fun y => (hh1 y).1) v
  have htick : ∀ y, (hh y).tick = y.tick := by
    intro y; unfold XB.tick; rw [(hh1 y).2.2.1, (hh1 y).2.2.2.1]
  have hreason : ∀ x l, Reason now B x l → Reason now B' x l := by
    intro x l hr
    rcases hr with ⟨v, eb, hv, hf, hc⟩ | hr | hr | hr
    · exact Or.inl ⟨v, hh eb, hv, by rw [hfind, hf]; rfl, (hh1 eb).2.2.2.2.1 hc⟩
    · exact Or.inr (Or.inl (hdr hr))
    · exact Or.inr (Or.inr (Or.inl hr))
    · exact Or.inr (Or.inr (Or.inr hr))
  refine ⟨hnow.trans h.clk, h.ridNodup, h.ridLt, ?_, h.visLt, h.visInj, ?_, h.iridLt, h.eid, ?_, ?_, ?_, ?_, h.unv, h.pnd, ?_, ?_⟩
  · intro x hx v hv
    obtain ⟨eb, he1, he2, he3, he4⟩ := h.bex x hx v hv
    refine ⟨hh eb, by rw [hfind, he1]; rfl, by rw [(hh1 eb).2.1]; exact he2, by rw [(hh1 eb).2.2.1]; exact he3, fun ha => ?_⟩
    rcases hab eb (BV.find_mem he1) ha with h1 | h1
    · exact he4 h1
    · exact h1 x hx (by rw [BV.find_rid he1]; exact hv)
  · intro eb' heb'
    rw [hex] at heb'
    obtain ⟨eb, heb, rfl⟩ := List.mem_map.mp heb'
    rw [(hh1 eb).1]; exact h.bLt eb heb
  · intro en hen x hx hr v hv eb' heb'
    rw [hfind] at heb'
    cases hf : B.find v with
    | none => rw [hf] at heb'; cases heb'
    | some eb =>
      rw [hf] at heb'
      simp only [Option.map_some, Option.some.injEq] at heb'
      subst heb'
      rw [htick, hnow]
      rcases h.tab en hen x hx hr v hv eb hf with h1 | h1 | h1
      · rcases hrem _ h1 with h2 | ⟨eb2, hf2, h2⟩ | h2
        · exact Or.inl h2
        · simp only at hf2
          rw [hf] at hf2
          cases hf2
          rcases h2 with h2 | h2
          · exact Or.inr (Or.inl h2)
          · exact Or.inr (Or.inr ((hh1 eb).2.2.2.2.2 h2))
        · exact absurd rfl (h2 en hen)
      · exact Or.inr (Or.inl h1)
      · exact Or.inr (Or.inr ((hh1 eb).2.2.2.2.2 h1))
  · exact (htab.map _).nodup h.tnd
  · intro r hr
    rcases hao r hr with h1 | h1
    · obtain ⟨eb, hf, ha⟩ := h.ab r h1
      exact ⟨hh eb, by rw [hfind, hf]; rfl, (hh1 eb).2.2.2.2.2 ha⟩
    · exact h1
  · intro x hx ha
    exact hreason x _ (h.why x hx ha)
  · intro hd; exact hdr (h.drp hd)
  · rw [hex, List.map_map]
    have : B.execs.map ((·.rid) ∘ hh) = B.execs.map (·.rid) := List.map_congr_left (fun y _ => (hh1 y).1)
    rw [this]; exact h.bNodup

/-- a `K.book` step that changes nothing but non-view fields -/
theorem K.book_same {now : Nat} {pend : Option (Nat × Nat)} {B B' : BV} {S : SV} (h : K now pend B S) (he : B' = B) :
    K now pend B' S := he ▸ h

/-! ### a request is started (tracked, not yet handed out) -/

theorem K.start {now : Nat} {B : BV} {S S' : SV} (h : K now none B S) (id d : Nat)
    (hex : S'.execs = S.execs ++ [⟨S.execs.length, id, d, none, true, false⟩])
    (hin : S'.inflight = S.inflight ++ [(id, S.execs.length)])
    (hfresh : ∀ en ∈ S.inflight, en.1 ≠ id)
    (hnv : S'.nextVis = S.nextVis) (hdr : S'.dropped = S.dropped) : K now (some (S.execs.length, id)) B S' := by
  have hmem : ∀ x' ∈ S'.execs, x' ∈ S.execs ∨ x' = ⟨S.execs.length, id, d, none, true, false⟩ := by
    intro x' hx'; rw [hex] at hx'; simpa using hx'
  have hmemI : ∀ en ∈ S'.inflight, en ∈ S.inflight ∨ en = (id, S.execs.length) := by
    intro en hen; rw [hin] at hen; simpa using hen
  have hlen : S'.execs.length = S.execs.length + 1 := by rw [hex]; simp
  refine ⟨h.clk, ?_, ?_, ?_, ?_, ?_, ?_, ?_, ?_, ?_, h.tnd, h.ab, ?_, ?_, ?_, ?_, h.bNodup⟩
  · rw [hex, List.map_append, List.nodup_append]
    refine ⟨h.ridNodup, by simp, ?_⟩
    intro a ha b hb
    simp only [List.map_cons, List.map_nil, List.mem_singleton] at hb
    subst hb
    obtain ⟨x, hx, rfl⟩ := List.mem_map.mp ha
    exact Nat.ne_of_lt (h.ridLt x hx)
  · intro x' hx'
    rw [hlen]
    rcases hmem x' hx' with hx | rfl
    · have := h.ridLt x' hx; omega
    · simp
  · intro x' hx' v hv
    rcases hmem x' hx' with hx | rfl
    · exact h.bex x' hx v hv
    · cases hv
  · intro x' hx' v hv
    rcases hmem x' hx' with hx | rfl
    · rw [hnv]; exact h.visLt x' hx v hv
    · cases hv
  · intro x1 hx1 x2 hx2 v hv1 hv2
    rcases hmem x1 hx1 with h1 | rfl
    · rcases hmem x2 hx2 with h2 | rfl
      · exact h.visInj x1 h1 x2 h2 v hv1 hv2
      · cases hv2
    · cases hv1
  · intro eb heb; rw [hnv]; exact h.bLt eb heb
  · intro en hen
    rw [hlen]
    rcases hmemI en hen with he | rfl
    · have := h.iridLt en he; omega
    · simp
  · intro en hen x' hx' hr
    rcases hmemI en hen with he | rfl
    · rcases hmem x' hx' with hx | rfl
      · exact h.eid en he x' hx hr
      · simp only at hr
        have := h.iridLt en he
        omega
    · rcases hmem x' hx' with hx | rfl
      · simp only at hr
        exact absurd hr (Nat.ne_of_lt (h.ridLt x' hx))
      · rfl
  · intro en hen x' hx' hr v hv eb heb
    rcases hmem x' hx' with hx | rfl
    · rcases hmemI en hen with he | rfl
      · exact h.tab en he x' hx hr v hv eb heb
      · simp only at hr
        exact absurd hr (Nat.ne_of_lt (h.ridLt x' hx))
    · cases hv
  · intro x' hx' ha
    rcases hmem x' hx' with hx | rfl
    · exact h.why x' hx ha
    · cases ha
  · intro x' hx' hv
    rcases hmem x' hx' with hx | rfl
    · rcases h.unv x' hx hv with hl | ⟨i, hp⟩ | ho
      · exact Or.inl hl
      · cases hp
      · right; right
        intro en hen
        rcases hmemI en hen with he | rfl
        · exact ho en he
        · exact Nat.ne_of_gt (h.ridLt x' hx)
    · exact Or.inr (Or.inl ⟨id, rfl⟩)
  · intro r i hp
    simp only [Option.some.injEq, Prod.mk.injEq] at hp
    obtain ⟨rfl, rfl⟩ := hp
    refine ⟨fun en hen he => ?_, ⟨S.execs.length, id, d, none, true, false⟩, by rw [hex]; simp, rfl, rfl, rfl⟩
    rcases hmemI en hen with he' | rfl
    · exact absurd he (hfresh en he')
    · rfl
  · intro hd; rw [hdr] at hd; exact h.drp hd

/-! ### the started request is handed out: it gets its number, the monitor lists it -/

theorem find_append_old (l : List XB) (y : XB) (v : Nat) (h : ∀ eb ∈ l, eb.rid < y.rid) (hv : v < y.rid) :
    (l ++ [y]).find? (·.rid == v) = l.find? (·.rid == v) := by
  rw [List.find?_append]
  cases hf : l.find? (·.rid == v) with
  | some eb => rfl
  | none =>
    simp only [Option.none_or, List.find?_cons, List.find?_nil]
    have : (y.rid == v) = false := by simp; omega
    rw [this]

theorem find_append_new (l : List XB) (y : XB) (h : ∀ eb ∈ l, eb.rid < y.rid) :
    (l ++ [y]).find? (·.rid == y.rid) = some y := by
  rw [List.find?_append]
  have : l.find? (·.rid == y.rid) = none := by
    rw [List.find?_eq_none]
    intro eb heb
    have := h eb heb
    simp; omega
  rw [this]
  simp

theorem K.yield {now : Nat} {B B' : BV} {S S' : SV} {r id : Nat} (h : K now (some (r, id)) B S) (d : Nat)
    (hd : ∀ x ∈ S.execs, x.rid = r → x.deadline = d)
    (hex : S'.execs = S.execs.map (fun x => if x.rid == r then { x with vis := some S.nextVis } else x))
    (hin : S'.inflight = S.inflight) (hnv : S'.nextVis = S.nextVis + 1) (hdr : S'.dropped = S.dropped)
    (hB : B' = { B with execs := B.execs ++ [⟨S.nextVis, id, d, B.now, false, false⟩],
                        table := B.table.filter (·.1 != id) ++ [(id, S.nextVis)] }) :
    K now none B' S' := by
  subst hB
  obtain ⟨hp1, x0, hx0, hr0, hid0, hv0⟩ := h.pnd r id rfl
  let ynew : XB := ⟨S.nextVis, id, d, B.now, false, false⟩
  let gg : XE → XE := fun x => if x.rid == r then { x with vis := some S.nextVis } else x
  have hmem : ∀ x' ∈ S'.execs, ∃ x ∈ S.execs, x' = gg x := by
    intro x' hx'; rw [hex] at hx'; obtain ⟨x, hx, rfl⟩ := List.mem_map.mp hx'; exact ⟨x, hx, rfl⟩
  have huniq : ∀ x ∈ S.execs, x.rid = r → x = x0 := by
    intro x hx hr
    have hnd := h.ridNodup
    have : x.rid = x0.rid := hr.trans hr0.symm
    exact eq_of_rid_nodup hnd hx hx0 this
  have hgr : ∀ x, (gg x).rid = x.rid := by intro x; simp only [gg]; split <;> rfl
  have hgne : ∀ x, x.rid ≠ r → gg x = x := by intro x hx; simp only [gg]; rw [if_neg (by simpa using hx)]
  have hgeq : ∀ x, x.rid = r → gg x = { x with vis := some S.nextVis } := by
    intro x hx; simp only [gg]; rw [if_pos (by simpa using hx)]
  have hfold : ∀ v, v < S.nextVis → BV.find { B with execs := B.execs ++ [ynew], table := B.table.filter (·.1 != id) ++ [(id, S.nextVis)] } v = B.find v := by
    intro v hv
    exact find_append_old B.execs ynew v (fun eb heb => h.bLt eb heb) hv
  have hfnew : BV.find { B with execs := B.execs ++ [ynew], table := B.table.filter (·.1 != id) ++ [(id, S.nextVis)] } S.nextVis = some ynew :=
    find_append_new B.execs ynew (fun eb heb => h.bLt eb heb)
  have hreason : ∀ x l, Reason now B x l → Reason now { B with execs := B.execs ++ [ynew], table := B.table.filter (·.1 != id) ++ [(id, S.nextVis)] } x l := by
    intro x l hr
    rcases hr with ⟨v, eb, hv, hf, hc⟩ | hr | hr | hr
    · refine Or.inl ⟨v, eb, hv, ?_, hc⟩
      rw [hfold v (by have := BV.find_rid hf; have := h.bLt eb (BV.find_mem hf); omega)]; exact hf
    · exact Or.inr (Or.inl hr)
    · exact Or.inr (Or.inr (Or.inl hr))
    · exact Or.inr (Or.inr (Or.inr hr))
  refine ⟨h.clk, ?_, ?_, ?_, ?_, ?_, ?_, ?_, ?_, ?_, ?_, ?_, ?_, ?_, ?_, ?_, ?_⟩
  · rw [hex, List.map_map]
    have : S.execs.map ((·.rid) ∘ gg) = S.execs.map (·.rid) := List.map_congr_left (fun x _ => hgr x)
    rw [this]; exact h.ridNodup
  · intro x' hx'
    obtain ⟨x, hx, rfl⟩ := hmem x' hx'
    rw [hex, List.length_map, hgr]; exact h.ridLt x hx
  · intro x' hx' v hv
    obtain ⟨x, hx, rfl⟩ := hmem x' hx'
    by_cases hxr : x.rid = r
    · have := huniq x hx hxr; subst this
      rw [hgeq x hxr] at hv ⊢
      simp only [Option.some.injEq] at hv
      subst hv
      exact ⟨ynew, hfnew, hid0.symm, (hd x hx hxr).symm, fun ha => by cases ha⟩
    · rw [hgne x hxr] at hv ⊢
      obtain ⟨eb, he1, he2, he3, he4⟩ := h.bex x hx v hv
      exact ⟨eb, by rw [hfold v (h.visLt x hx v hv)]; exact he1, he2, he3, he4⟩
  · intro x' hx' v hv
    obtain ⟨x, hx, rfl⟩ := hmem x' hx'
    rw [hnv]
    by_cases hxr : x.rid = r
    · rw [hgeq x hxr] at hv; simp only [Option.some.injEq] at hv; omega
    · rw [hgne x hxr] at hv; have := h.visLt x hx v hv; omega
  · intro x1 hx1 x2 hx2 v hv1 hv2
    obtain ⟨y1, hy1, rfl⟩ := hmem x1 hx1
    obtain ⟨y2, hy2, rfl⟩ := hmem x2 hx2
    by_cases h1 : y1.rid = r
    · by_cases h2 : y2.rid = r
      · rw [huniq y1 hy1 h1, huniq y2 hy2 h2]
      · rw [hgeq y1 h1] at hv1; rw [hgne y2 h2] at hv2
        simp only [Option.some.injEq] at hv1
        have := h.visLt y2 hy2 v hv2; omega
    · by_cases h2 : y2.rid = r
      · rw [hgne y1 h1] at hv1; rw [hgeq y2 h2] at hv2
        simp only [Option.some.injEq] at hv2
        have := h.visLt y1 hy1 v hv1; omega
      · rw [hgne y1 h1] at hv1 ⊢; rw [hgne y2 h2] at hv2 ⊢
        exact h.visInj y1 hy1 y2 hy2 v hv1 hv2
  · intro eb heb
    rw [hnv]
    simp only [List.mem_append, List.mem_singleton] at heb
    rcases heb with heb | rfl
    · have := h.bLt eb heb; omega
    · simp
  · intro en hen; rw [hex, List.length_map]; rw [hin] at hen; exact h.iridLt en hen
  · intro en hen x' hx' hr
    obtain ⟨x, hx, rfl⟩ := hmem x' hx'
    rw [hin] at hen
    rw [hgr] at hr
    have := h.eid en hen x hx hr
    by_cases hxr : x.rid = r
    · rw [hgeq x hxr]; exact this
    · rw [hgne x hxr]; exact this
  · intro en hen x' hx' hr v hv eb' heb'
    obtain ⟨x, hx, rfl⟩ := hmem x' hx'
    rw [hin] at hen
    rw [hgr] at hr
    by_cases hxr : x.rid = r
    · have := huniq x hx hxr; subst this
      rw [hgeq x hxr] at hv
      simp only [Option.some.injEq] at hv
      subst hv
      left
      have hid : en.1 = id := by rw [← h.eid en hen x hx hr]; exact hid0
      simp only [List.mem_append, List.mem_singleton]
      right
      exact Prod.ext hid rfl
    · rw [hgne x hxr] at hv
      have hvlt := h.visLt x hx v hv
      rw [hfold v hvlt] at heb'
      rcases h.tab en hen x hx hr v hv eb' heb' with h1 | h1 | h1
      · left
        simp only [List.mem_append, List.mem_filter, bne_iff_ne, ne_eq]
        left
        refine ⟨h1, fun hid => ?_⟩
        exact hxr (hr.trans (hp1 en hen hid))
      · exact Or.inr (Or.inl h1)
      · exact Or.inr (Or.inr h1)
  · show ((B.table.filter (·.1 != id) ++ [(id, S.nextVis)]).map (·.1)).Nodup
    rw [List.map_append, List.nodup_append]
    refine ⟨((List.filter_sublist).map _).nodup h.tnd, by simp, ?_⟩
    intro a ha b hb
    simp only [List.map_cons, List.map_nil, List.mem_singleton] at hb
    subst hb
    obtain ⟨p, hp, rfl⟩ := List.mem_map.mp ha
    have := (List.mem_filter.mp hp).2
    simpa using this
  · intro r' hr'
    obtain ⟨eb, hf, ha⟩ := h.ab r' hr'
    refine ⟨eb, ?_, ha⟩
    rw [hfold r' (by have := BV.find_rid hf; have := h.bLt eb (BV.find_mem hf); omega)]; exact hf
  · intro x' hx' ha
    obtain ⟨x, hx, rfl⟩ := hmem x' hx'
    by_cases hxr : x.rid = r
    · have := huniq x hx hxr; subst this
      rw [hgeq x hxr] at ha ⊢
      have hw := h.why x hx ha
      rcases hw with ⟨v, eb, hv, hf, hc⟩ | hr | hr | hr
      · rw [hv0] at hv; cases hv
      · exact Or.inr (Or.inl hr)
      · exact Or.inr (Or.inr (Or.inl hr))
      · exact Or.inr (Or.inr (Or.inr hr))
    · rw [hgne x hxr] at ha ⊢
      exact hreason x _ (h.why x hx ha)
  · intro x' hx' hv
    obtain ⟨x, hx, rfl⟩ := hmem x' hx'
    by_cases hxr : x.rid = r
    · rw [hgeq x hxr] at hv; cases hv
    · rw [hgne x hxr] at hv ⊢
      rcases h.unv x hx hv with hl | ⟨i, hp⟩ | ho
      · exact Or.inl hl
      · simp only [Option.some.injEq, Prod.mk.injEq] at hp
        exact absurd hp.1.symm hxr
      · right; right
        intro en hen
        rw [hin] at hen
        exact ho en hen
  · intro r' i hp; cases hp
  · intro hd'; rw [hdr] at hd'; exact h.drp hd'
  · show ((B.execs ++ [ynew]).map (·.rid)).Nodup
    rw [List.map_append, List.nodup_append]
    refine ⟨h.bNodup, by simp, ?_⟩
    intro a ha b hb
    simp only [List.map_cons, List.map_nil, List.mem_singleton] at hb
    subst hb
    obtain ⟨y, hy, rfl⟩ := List.mem_map.mp ha
    exact Nat.ne_of_lt (h.bLt y hy)

/-! ### the clock advances -/

theorem K.advance {now : Nat} {pend : Option (Nat × Nat)} {B B' : BV} {S : SV} (h : K now pend B S) (n : Nat)
    (hB : B' = { B with now := B.now + n }) : K (now + n) pend B' S := by
  subst hB
  refine ⟨by simp [h.clk], h.ridNodup, h.ridLt, h.bex, h.visLt, h.visInj, h.bLt, h.iridLt, h.eid, ?_, h.tnd, h.ab, ?_,
    h.unv, h.pnd, h.drp, h.bNodup⟩
  · intro en hen x hx hr v hv eb heb
    rcases h.tab en hen x hx hr v hv eb heb with h1 | h1 | h1
    · exact Or.inl h1
    · exact Or.inr (Or.inl (Nat.le_trans h1 (Nat.le_add_right _ _)))
    · exact Or.inr (Or.inr h1)
  · intro x hx ha
    rcases h.why x hx ha with hr | hr | hr | hr
    · exact Or.inl hr
    · exact Or.inr (Or.inl hr)
    · exact Or.inr (Or.inr (Or.inl (Nat.le_trans hr (Nat.le_add_right _ _))))
    · exact Or.inr (Or.inr (Or.inr hr))

/-! ### the started request is no longer tracked (its entry was removed before it could be handed out) -/

theorem K.unpend {now : Nat} {B : BV} {S : SV} {r id : Nat} (h : K now (some (r, id)) B S)
    (hno : ∀ en ∈ S.inflight, en.1 ≠ id) : K now none B S := by
  obtain ⟨_, x0, hx0, hr0, hid0, _⟩ := h.pnd r id rfl
  refine ⟨h.clk, h.ridNodup, h.ridLt, h.bex, h.visLt, h.visInj, h.bLt, h.iridLt, h.eid, h.tab, h.tnd, h.ab, h.why, ?_,
    (fun r' i hp => by cases hp), h.drp, h.bNodup⟩
  intro x hx hv
  rcases h.unv x hx hv with hl | ⟨i, hp⟩ | ho
  · exact Or.inl hl
  · right; right
    simp only [Option.some.injEq, Prod.mk.injEq] at hp
    intro en hen heq
    have hxe : x = x0 := eq_of_rid_nodup h.ridNodup hx hx0 (hp.1.symm.trans hr0.symm)
    have := h.eid en hen x hx heq.symm
    rw [hxe, hid0] at this
    exact hno en hen this.symm
  · exact Or.inr (Or.inr ho)

/-! ## the monitor's book, step by step, on views -/

theorem bview_find (b : Book) (v : Nat) : (bview b).find v = (b.exec v).map xb := by
  unfold BV.find bview Book.exec
  simp only
  rw [List.find?_map]
  rfl

theorem xb_tick (e : BExec) : (xb e).tick = e.tick := rfl

/-- the fold of the book over the observation buffer (most recent first) -/
def bo (b0 : Book) (obs : List Obs) : Book := obs.foldr (fun o b => b.step (.obs o)) b0

@[simp] theorem bo_nil (b0 : Book) : bo b0 [] = b0 := rfl
@[simp] theorem bo_cons (b0 : Book) (o : Obs) (l : List Obs) : bo b0 (o :: l) = (bo b0 l).step (.obs o) := rfl

/-- the observations that can change the book's view (or set `spun`) -/
def isBK : Obs → Bool
  | .tSend _ (.response _ _) _ => true
  | .tNext _ _ => true
  | .yielded _ _ _ _ => true
  | .ret (.server _) _ => true
  | .spin _ => true
  | .panic _ _ => true
  | _ => false

theorem updExec_view (b : Book) (r : Nat) (f : BExec → BExec) (hf : ∀ e, xb (f e) = xb e) :
    bview (b.updExec r f) = bview b := by
  unfold bview Book.updExec
  simp only [List.map_map]
  congr 1
  apply List.map_congr_left
  intro e _
  simp only [Function.comp]
  split
  · exact hf e
  · rfl

/-- an observation outside `isBK` leaves the view and `spun` alone -/
theorem step_not_bk (b : Book) (o : Obs) (h : isBK o = false) :
    bview (b.step (.obs o)) = bview b ∧ (b.step (.obs o)).spun = b.spun := by
  cases o with
  | tNext ep r => simp [isBK] at h
  | yielded r id d tr => simp [isBK] at h
  | spin t => simp [isBK] at h
  | panic t w => simp [isBK] at h
  | tSend ep m ok =>
    cases m with
    | response id res => simp [isBK] at h
    | _ => exact ⟨rfl, rfl⟩
  | ret t r =>
    cases t with
    | server k => simp [isBK] at h
    | exec v =>
      cases r with
      | readyOk => exact ⟨updExec_view _ _ _ (fun e => rfl), rfl⟩
      | _ => exact ⟨rfl, rfl⟩
    | _ => exact ⟨rfl, rfl⟩
  | handler r ev t =>
    cases ev with
    | completed => exact ⟨updExec_view _ _ _ (fun e => rfl), rfl⟩
    | dropped => exact ⟨updExec_view _ _ _ (fun e => rfl), rfl⟩
    | _ => exact ⟨rfl, rfl⟩
  | tReady ep r =>
    simp only [Book.step]
    (repeat' split) <;> exact ⟨rfl, rfl⟩
  | tFlush ep r =>
    simp only [Book.step]
    (repeat' split) <;> exact ⟨rfl, rfl⟩
  | counts ep a b' => cases ep <;> exact ⟨rfl, rfl⟩
  | wake t => exact ⟨rfl, rfl⟩
  | _ => exact ⟨rfl, rfl⟩

/-- `spun` is never reset -/
theorem step_spun_mono (b : Book) (e : SEv) (h : b.spun = true) : (b.step e).spun = true := by
  rw [FlowMon.step_spun, h]; rfl

theorem bo_spun_mono (b0 : Book) (l l' : List Obs) (h : (bo b0 l).spun = true) : (bo b0 (l' ++ l)).spun = true := by
  induction l' with
  | nil => exact h
  | cons o l' ih => exact step_spun_mono _ _ ih

/-! ### `sweepOne` -/

def so1 (b : Book) : Book :=
  match b.abandonOrder with
  | r :: rest => { b with table := b.table.filter (·.2 != r), abandonOrder := rest }
  | [] => b

def dueOf (b : Book) : List (Nat × Nat) :=
  b.table.filterMap fun (_, r) => match b.exec r with
    | some e => if e.tick ≤ b.now then some (e.tick, r) else none
    | none => none

def minOf (d : Nat × Nat) (ds : List (Nat × Nat)) : Nat × Nat :=
  ds.foldl (fun acc x => if x.1 < acc.1 then x else acc) d

theorem sweepOne_eq (b : Book) :
    b.sweepOne = match dueOf (so1 b) with
      | [] => so1 b
      | d :: ds =>
          if ((dueOf (so1 b)).filter (·.1 == (minOf d ds).1)).length == 1 then
            { so1 b with table := (so1 b).table.filter (·.2 != (minOf d ds).2) }
          else so1 b := by
  unfold Book.sweepOne so1 dueOf minOf
  cases b.abandonOrder <;> rfl

theorem minOf_mem (d : Nat × Nat) (ds : List (Nat × Nat)) : minOf d ds ∈ d :: ds := by
  unfold minOf
  induction ds generalizing d with
  | nil => simp
  | cons x ds ih =>
    simp only [List.foldl_cons]
    split
    · have := ih x
      simp only [List.mem_cons] at this ⊢
      rcases this with h | h
      · exact Or.inr (Or.inl h)
      · exact Or.inr (Or.inr h)
    · have := ih d
      simp only [List.mem_cons] at this ⊢
      rcases this with h | h
      · exact Or.inl h
      · exact Or.inr (Or.inr h)

theorem dueOf_mem (b : Book) (q : Nat × Nat) (h : q ∈ dueOf b) : ∃ e, b.exec q.2 = some e ∧ e.tick ≤ b.now := by
  unfold dueOf at h
  obtain ⟨p, hp, hq⟩ := List.mem_filterMap.mp h
  obtain ⟨i, r⟩ := p
  simp only at hq
  split at hq
  · next e he =>
    split at hq
    · next hle => cases hq; exact ⟨e, he, hle⟩
    · cases hq
  · cases hq

theorem so1_spec (b : Book) :
    (so1 b).now = b.now ∧ (so1 b).execs = b.execs ∧ (so1 b).dropped = b.dropped ∧ (so1 b).spun = b.spun ∧
    List.Sublist (so1 b).table b.table ∧
    (∀ p ∈ b.table, p ∈ (so1 b).table ∨ ∃ r rest, b.abandonOrder = r :: rest ∧ p.2 = r) ∧
    (∀ r ∈ (so1 b).abandonOrder, r ∈ b.abandonOrder) := by
  unfold so1
  split
  · next r rest heq =>
    refine ⟨rfl, rfl, rfl, rfl, List.filter_sublist, ?_, ?_⟩
    · intro p hp
      by_cases h : p.2 = r
      · exact Or.inr ⟨r, rest, heq, h⟩
      · exact Or.inl (List.mem_filter.mpr ⟨hp, by simpa using h⟩)
    · intro r' hr'; rw [heq]; exact List.mem_cons_of_mem _ hr'
  · exact ⟨rfl, rfl, rfl, rfl, List.Sublist.refl _, fun p hp => Or.inl hp, fun r hr => hr⟩

theorem sweepOne_spec (b : Book) :
    b.sweepOne.now = b.now ∧ b.sweepOne.execs = b.execs ∧ b.sweepOne.dropped = b.dropped ∧ b.sweepOne.spun = b.spun ∧
    List.Sublist b.sweepOne.table b.table ∧
    (∀ p ∈ b.table, p ∈ b.sweepOne.table ∨ (∃ r rest, b.abandonOrder = r :: rest ∧ p.2 = r) ∨
      (∃ e, b.exec p.2 = some e ∧ e.tick ≤ b.now)) ∧
    (∀ r ∈ b.sweepOne.abandonOrder, r ∈ b.abandonOrder) := by
  obtain ⟨h1, h2, h3, h4, h5, h6, h7⟩ := so1_spec b
  rw [sweepOne_eq]
  split
  · exact ⟨h1, h2, h3, h4, h5, fun p hp => (h6 p hp).imp id Or.inl, h7⟩
  · next d ds hdue =>
    split
    · refine ⟨h1, h2, h3, h4, List.Sublist.trans List.filter_sublist h5, ?_, h7⟩
      intro p hp
      rcases h6 p hp with h | h
      · by_cases hm : p.2 = (minOf d ds).2
        · right; right
          have hmem : minOf d ds ∈ dueOf (so1 b) := by rw [hdue]; exact minOf_mem d ds
          obtain ⟨e, he, hle⟩ := dueOf_mem (so1 b) _ hmem
          have hex : (so1 b).exec (minOf d ds).2 = b.exec (minOf d ds).2 := by unfold Book.exec; rw [h2]
          rw [hex] at he
          rw [h1] at hle
          exact ⟨e, by rw [hm]; exact he, hle⟩
        · exact Or.inl (List.mem_filter.mpr ⟨h, by simpa using hm⟩)
      · exact Or.inr (Or.inl h)
    · exact ⟨h1, h2, h3, h4, h5, fun p hp => (h6 p hp).imp id Or.inl, h7⟩

theorem sweepOne_cd (b : Book) : b.sweepOne.curDropExec = b.curDropExec := by
  rw [sweepOne_eq]
  have h1 : (so1 b).curDropExec = b.curDropExec := by unfold so1; split <;> rfl
  split
  · exact h1
  · split
    · exact h1
    · exact h1

/-! ### the coupling under the book's own steps -/

theorem K_sweepOne {now : Nat} {pend : Option (Nat × Nat)} {b : Book} {S : SV} (h : K now pend (bview b) S) :
    K now pend (bview b.sweepOne) S := by
  obtain ⟨h1, h2, h3, h4, h5, h6, h7⟩ := sweepOne_spec b
  refine h.book id (by simp [bview, h1]) (by simp [bview, h2]) (fun y => ⟨rfl, rfl, rfl, rfl, id, id⟩)
    (fun y _ ha => Or.inl ha) h5 ?_ (fun r hr => Or.inl (h7 r hr)) (by simp [bview, h3])
  intro p hp
  rcases h6 p hp with hk | ⟨r, rest, hao, hr⟩ | ⟨e, he, hle⟩
  · exact Or.inl hk
  · right; left
    obtain ⟨eb, hf, ha⟩ := h.ab r (by show r ∈ b.abandonOrder; rw [hao]; exact List.mem_cons_self ..)
    exact ⟨eb, by rw [hr]; exact hf, Or.inr ha⟩
  · right; left
    exact ⟨xb e, by rw [bview_find, he]; rfl, Or.inl hle⟩

theorem K_untrack {now : Nat} {pend : Option (Nat × Nat)} {b : Book} {S : SV} (h : K now pend (bview b) S) (rq : Nat)
    (hno : ∀ en ∈ S.inflight, en.1 ≠ rq) : K now pend (bview (b.untrack rq)) S := by
  refine h.book (fun y => y) rfl (by simp [bview, Book.untrack]) (fun y => ⟨rfl, rfl, rfl, rfl, fun h => h, fun h => h⟩)
    (fun y _ ha => Or.inl ha) List.filter_sublist ?_ (fun r hr => Or.inl hr) (fun h => h)
  intro p hp
  by_cases hpi : p.1 = rq
  · exact Or.inr (Or.inr (fun en hen => by rw [hpi]; exact hno en hen))
  · exact Or.inl (List.mem_filter.mpr ⟨hp, by simpa using hpi⟩)

theorem updExec_view_map (b : Book) (r : Nat) (f : BExec → BExec) (hh : XB → XB)
    (hf : ∀ e, e.rid = r → xb (f e) = hh (xb e)) (hne : ∀ y, y.rid ≠ r → hh y = y) :
    bview (b.updExec r f) = { bview b with execs := (bview b).execs.map hh } := by
  unfold bview Book.updExec
  simp only [List.map_map]
  congr 1
  apply List.map_congr_left
  intro e _
  simp only [Function.comp]
  split
  · next h => exact hf e (by simpa using h)
  · next h => exact (hne (xb e) (by simpa [xb] using h)).symm

theorem K_cancelRead {now : Nat} {pend : Option (Nat × Nat)} {b : Book} {S : SV} (h : K now pend (bview b) S) (r : Nat) :
    K now pend (bview (b.updExec r (fun e => { e with cancelRead := true }))) S := by
  let hh : XB → XB := fun y => if y.rid == r then { y with cancelRead := true } else y
  have hv := updExec_view_map b r (fun e => { e with cancelRead := true }) hh
    (fun e he => by simp [hh, xb, he]) (fun y hy => by simp [hh, hy])
  rw [hv]
  refine h.book hh rfl rfl (fun y => ?_) (fun y _ ha => Or.inl ?_) (List.Sublist.refl _) (fun p hp => Or.inl hp)
    (fun r hr => Or.inl hr) id
  · simp only [hh]; split <;> simp
  · simp only [hh] at ha; split at ha <;> exact ha

/-- the idle sweep at the end of a poll (stated for any book with the swept book's view) -/
theorem K_sweep {now : Nat} {pend : Option (Nat × Nat)} {b b' : Book} {S : SV} (h : K now pend (bview b) S)
    (hnow : b'.now = b.now) (hex : b'.execs.map xb = b.execs.map xb) (hsub : List.Sublist b'.table b.table)
    (htab : ∀ i r, (i, r) ∈ b.table → (i, r) ∈ b'.table ∨ ∃ e, b.exec r = some e ∧ (e.tick ≤ b.now ∨ e.abandoned = true))
    (hao : b'.abandonOrder = []) (hdr : b.dropped = true → b'.dropped = true) : K now pend (bview b') S := by
  refine h.book (fun y => y) hnow (by show b'.execs.map xb = (b.execs.map xb).map (fun y => y); rw [hex]; simp)
    (fun y => ⟨rfl, rfl, rfl, rfl, fun h => h, fun h => h⟩) (fun y _ ha => Or.inl ha) hsub ?_
    (fun r hr => by rw [show (bview b').ao = b'.abandonOrder from rfl, hao] at hr; cases hr) hdr
  intro p hp
  obtain ⟨i, r⟩ := p
  rcases htab i r hp with hk | ⟨e, he, hd⟩
  · exact Or.inl hk
  · exact Or.inr (Or.inl ⟨xb e, by rw [bview_find, he]; rfl, hd⟩)

theorem K_bdropped {now : Nat} {pend : Option (Nat × Nat)} {B : BV} {S : SV} (h : K now pend B S) :
    K now pend { B with dropped := true } S :=
  h.book id rfl (by simp) (fun y => ⟨rfl, rfl, rfl, rfl, id, id⟩) (fun y _ ha => Or.inl ha) (List.Sublist.refl _)
    (fun p hp => Or.inl hp) (fun r hr => Or.inl hr) (fun _ => rfl)

/-! ## the coupling along the observation buffer -/

/-- the coupling between the book folded over the current op's observations and the state — or the monitor is past
a spin / panic (it checks nothing any more) -/
def J (b0 : Book) (now : Nat) (pend : Option (Nat × Nat)) (s : St) : Prop :=
  (bo b0 s.obs).spun = true ∨ K now pend (bview (bo b0 s.obs)) (sview s)

/-- the four kinds of observation that change the book's view -/
def isCore : Obs → Bool
  | .tSend _ (.response _ _) _ => true
  | .tNext _ _ => true
  | .yielded _ _ _ _ => true
  | .ret (.server _) _ => true
  | _ => false

/-- `s'` extends the observation buffer of `s` by observations that do not change the book's view -/
def Ext (s s' : St) : Prop := ∃ l, s'.obs = l ++ s.obs ∧ ∀ o ∈ l, isCore o = false

theorem Ext.refl (s : St) : Ext s s := ⟨[], rfl, fun _ h => by cases h⟩
theorem Ext.trans {a b c : St} (h1 : Ext a b) (h2 : Ext b c) : Ext a c := by
  obtain ⟨l1, e1, p1⟩ := h1
  obtain ⟨l2, e2, p2⟩ := h2
  exact ⟨l2 ++ l1, by rw [e2, e1, List.append_assoc], fun o ho => (List.mem_append.mp ho).elim (p2 o) (p1 o)⟩
theorem Ext.of_eq {s s' : St} (h : s'.obs = s.obs) : Ext s s' := ⟨[], by simp [h], fun _ h => by cases h⟩
theorem Ext.pre {s s0 s' : St} (h : Ext s0 s') (h1 : s0.obs = s.obs) : Ext s s' := (Ext.of_eq h1).trans h
theorem Ext.emit (s : St) (o : Obs) (h : isCore o = false) : Ext s (emit s o) :=
  ⟨[o], rfl, fun o' ho' => by simp only [List.mem_singleton] at ho'; rw [ho']; exact h⟩

theorem step_not_core (b : Book) (o : Obs) (h : isCore o = false) :
    (b.step (.obs o)).spun = true ∨ (bview (b.step (.obs o)) = bview b ∧ (b.step (.obs o)).spun = b.spun) := by
  by_cases hb : isBK o = true
  · left
    cases o <;> simp [isBK, isCore] at hb h
    · rename_i ep m ok; cases m <;> simp [isBK, isCore] at hb h
    · rename_i t r; cases t <;> simp [isBK, isCore] at hb h
    · rfl
    · rfl
  · exact Or.inr (step_not_bk b o (by simpa using hb))

/-- the book folded over an extension: past a spin / panic, or with the same view -/
theorem bo_ext (b0 : Book) {s s' : St} (h : Ext s s') :
    (bo b0 s'.obs).spun = true ∨ (bview (bo b0 s'.obs) = bview (bo b0 s.obs) ∧ (bo b0 s'.obs).spun = (bo b0 s.obs).spun) := by
  obtain ⟨l, e, p⟩ := h
  rw [e]
  clear e
  induction l with
  | nil => exact Or.inr ⟨rfl, rfl⟩
  | cons o l ih =>
    have ih' := ih (fun o' ho' => p o' (List.mem_cons_of_mem _ ho'))
    show ((bo b0 (l ++ s.obs)).step (.obs o)).spun = true ∨ _
    rcases ih' with hs | ⟨hv, hs⟩
    · exact Or.inl (step_spun_mono _ _ hs)
    · rcases step_not_core (bo b0 (l ++ s.obs)) o (p o (List.mem_cons_self ..)) with h1 | ⟨h1, h2⟩
      · exact Or.inl h1
      · exact Or.inr ⟨h1.trans hv, h2.trans hs⟩

/-- a part of the model that emits no view-changing observation runs; on the model side the coupling is kept -/
theorem J_ext {b0 : Book} {now : Nat} {pend pend' : Option (Nat × Nat)} {s s' : St} (hx : Ext s s')
    (hJ : J b0 now pend s)
    (hK : K now pend (bview (bo b0 s.obs)) (sview s) → K now pend' (bview (bo b0 s.obs)) (sview s')) :
    J b0 now pend' s' := by
  rcases bo_ext b0 hx with hs | ⟨hv, hs⟩
  · exact Or.inl hs
  · rcases hJ with h | h
    · exact Or.inl (hs.trans h)
    · right; rw [hv]; exact hK h

theorem J_same {b0 : Book} {now : Nat} {pend : Option (Nat × Nat)} {s s' : St} (hx : Ext s s')
    (hv : sview s' = sview s) (hJ : J b0 now pend s) : J b0 now pend s' :=
  J_ext hx hJ (fun h => hv ▸ h)

/-! ## the model's steps on views -/

theorem sview_congr {s s' : St} (h1 : s'.execs.map xe = s.execs.map xe) (h2 : s'.inflight.map SEntry.ir = s.inflight.map SEntry.ir)
    (h3 : s'.nextVis = s.nextVis) (h4 : s'.dropped = s.dropped) : sview s' = sview s := by
  unfold sview; rw [h1, h2, h3, h4]

/-- quiet and the same view -/
def QS (s s' : St) : Prop := Ext s s' ∧ sview s' = sview s

theorem QS.refl (s : St) : QS s s := ⟨Ext.refl s, rfl⟩
theorem QS.trans {a b c : St} (h1 : QS a b) (h2 : QS b c) : QS a c := ⟨h1.1.trans h2.1, h2.2.trans h1.2⟩
theorem QS.of_eq {s s' : St} (h : s'.obs = s.obs) (hv : sview s' = sview s) : QS s s' := ⟨Ext.of_eq h, hv⟩
theorem QS.pre {s s0 s' : St} (h : QS s0 s') (h1 : s0.obs = s.obs) (hv : sview s0 = sview s) : QS s s' :=
  (QS.of_eq h1 hv).trans h
theorem QS.emit (s : St) (o : Obs) (h : isCore o = false) : QS s (emit s o) := ⟨Ext.emit s o h, rfl⟩

theorem J_qs {b0 : Book} {now : Nat} {pend : Option (Nat × Nat)} {s s' : St} (h : QS s s') (hJ : J b0 now pend s) :
    J b0 now pend s' := J_same h.1 h.2 hJ

theorem qs_emitViolations (s : St) (n : Nat) : QS s (emitViolations s n) := by
  unfold emitViolations
  generalize ((s.t.violations.take (s.t.violations.length - n)).reverse) = l
  induction l generalizing s with
  | nil => exact QS.refl s
  | cons a l ih => simp only [List.foldl_cons]; exact (QS.emit s _ rfl).trans (ih _)

theorem qs_wakeServer (s : St) : QS s (wakeServer s) := by
  unfold wakeServer; split
  · exact QS.refl s
  · exact (QS.emit _ _ rfl).pre rfl rfl

theorem updExec_xe (s : St) (r : Nat) (f : Exec → Exec) (hf : ∀ e, xe (f e) = xe e) :
    (updExec s r f).execs.map xe = s.execs.map xe := by
  unfold updExec
  simp only [List.map_map]
  apply List.map_congr_left
  intro e _
  simp only [Function.comp]
  split
  · exact hf e
  · rfl

theorem qs_updExec (s : St) (r : Nat) (f : Exec → Exec) (hf : ∀ e, xe (f e) = xe e) : QS s (updExec s r f) :=
  QS.of_eq rfl (sview_congr (updExec_xe s r f hf) rfl rfl rfl)

theorem qs_wakeExec (s : St) (r : Nat) : QS s (wakeExec s r) := by
  unfold wakeExec; repeat' split
  all_goals first | exact QS.refl s | exact QS.trans (qs_updExec s r (fun e => { e with woken := true }) (fun e => rfl)) (QS.emit _ _ rfl)

theorem qs_rqRelease (s : St) : QS s (rqRelease s) := by
  unfold rqRelease; split
  · exact (qs_wakeExec _ _).pre rfl rfl
  · exact QS.of_eq rfl rfl

theorem qs_tReady (s : St) : QS s (tReady s).1 := by
  unfold tReady
  simp only
  have h0 : QS s (emitViolations { s with t := s.t.pollReady.1 } s.t.violations.length) :=
    (qs_emitViolations _ _).pre rfl rfl
  have h : QS s (Server.emit (emitViolations { s with t := s.t.pollReady.1 } s.t.violations.length)
      (.tReady (tid s) s.t.pollReady.2.1)) := h0.trans (QS.emit _ _ rfl)
  split
  · exact h.trans (qs_wakeServer _)
  · exact h

theorem qs_tFlush (s : St) : QS s (tFlush s).1 := by
  unfold tFlush
  simp only
  have h0 : QS s (emitViolations { s with t := s.t.pollFlush.1 } s.t.violations.length) :=
    (qs_emitViolations _ _).pre rfl rfl
  have h : QS s (Server.emit (emitViolations { s with t := s.t.pollFlush.1 } s.t.violations.length)
      (.tFlush (tid s) s.t.pollFlush.2.1)) := h0.trans (QS.emit _ _ rfl)
  split
  · exact h.trans (qs_wakeServer _)
  · exact h

theorem qs_ensureOnce (s : St) : QS s (ensureOnce s).1 := by
  unfold ensureOnce
  have h1 := qs_tReady s
  split
  · next s1 heq => rw [heq] at h1; exact h1
  · next s1 heq => rw [heq] at h1; exact h1
  · next s1 heq =>
    rw [heq] at h1
    have h2 := h1.trans (qs_tFlush s1)
    split
    · next s2 heq2 => rw [heq2] at h2; exact h2
    · next s2 heq2 => rw [heq2] at h2; exact h2
    · next s2 heq2 =>
      rw [heq2] at h2
      have h3 := h2.trans (qs_tReady s2)
      split <;> (rename_i heq3; rw [heq3] at h3; exact h3)

theorem qs_ensureLoop : ∀ (fuel : Nat) (s : St), QS s (ensureLoop fuel s).1 := by
  intro fuel
  induction fuel with
  | zero => intro s; exact QS.emit _ _ rfl
  | succ n ih =>
    intro s
    unfold ensureLoop
    have h1 := qs_tReady s
    split
    · next s1 heq => rw [heq] at h1; exact h1
    · next s1 heq => rw [heq] at h1; exact h1
    · next s1 heq =>
      rw [heq] at h1
      have h2 := h1.trans (qs_tFlush s1)
      split
      · next s2 heq2 => rw [heq2] at h2; exact h2
      · next s2 heq2 => rw [heq2] at h2; exact h2
      · next s2 heq2 => rw [heq2] at h2; exact h2.trans (ih s2)

theorem qs_ensureWriteable (s : St) : QS s (ensureWriteable s).1 := by
  unfold ensureWriteable
  split
  · exact qs_ensureLoop _ s
  · exact qs_ensureOnce s

theorem qs_flushArm (s : St) (rc : Bool) : QS s (flushArm s rc).1 := by
  unfold flushArm
  have h1 := qs_tFlush s
  split
  · next s1 heq => rw [heq] at h1; exact h1
  · next s1 heq => rw [heq] at h1; exact h1
  · next s1 heq => rw [heq] at h1; split <;> exact h1

theorem qs_removeTimer (s : St) (k : Nat) : QS s (removeTimer s k) := by
  unfold removeTimer; split
  · simp only; split
    · exact (qs_wakeServer _).pre rfl rfl
    · exact QS.of_eq rfl rfl
  · exact (QS.emit _ _ rfl).pre rfl rfl

theorem qs_armRead (s : St) (r : SPoll Exec) : QS s (armRead s r) := by
  unfold armRead; split
  · exact qs_updExec _ _ _ (fun e => rfl)
  · exact QS.refl s

/-! ### steps that change the executions' flags or shrink the table -/

/-- `g` keeps an execution's identity and number and does not revive it -/
def Gid (g : Exec → Exec) : Prop :=
  ∀ e, (g e).rid = e.rid ∧ (g e).id = e.id ∧ (g e).deadline = e.deadline ∧ (g e).vis = e.vis ∧
    (execLive (g e) = true → execLive e = true)

/-- the executions are the same up to bookkeeping; only those whose rid satisfies `P` may have been newly aborted -/
def ESt (P : Nat → Prop) (s s' : St) : Prop :=
  ∃ g, s'.execs = s.execs.map g ∧ Gid g ∧ ∀ e ∈ s.execs, (g e).aborted = true → e.aborted = true ∨ P e.rid

theorem ESt.refl (P : Nat → Prop) (s : St) : ESt P s s :=
  ⟨id, by simp, fun e => ⟨rfl, rfl, rfl, rfl, fun h => h⟩, fun e _ h => Or.inl h⟩

theorem ESt.of_eq {P : Nat → Prop} {s s' : St} (h : s'.execs = s.execs) : ESt P s s' :=
  ⟨id, by simp [h], fun e => ⟨rfl, rfl, rfl, rfl, fun h => h⟩, fun e _ h => Or.inl h⟩

theorem ESt.trans {P Q : Nat → Prop} {a b c : St} (h1 : ESt P a b) (h2 : ESt Q b c) : ESt (fun r => P r ∨ Q r) a c := by
  obtain ⟨g1, e1, i1, a1⟩ := h1
  obtain ⟨g2, e2, i2, a2⟩ := h2
  refine ⟨g2 ∘ g1, by rw [e2, e1, List.map_map], fun e => ?_, fun e he h => ?_⟩
  · obtain ⟨p1, p2, p3, p4, p5⟩ := i1 e
    obtain ⟨q1, q2, q3, q4, q5⟩ := i2 (g1 e)
    exact ⟨q1.trans p1, q2.trans p2, q3.trans p3, q4.trans p4, fun h => p5 (q5 h)⟩
  · rcases a2 (g1 e) (by rw [e1]; exact List.mem_map_of_mem he) h with h' | h'
    · rcases a1 e he h' with h'' | h''
      · exact Or.inl h''
      · exact Or.inr (Or.inl h'')
    · rw [(i1 e).1] at h'; exact Or.inr (Or.inr h')

theorem ESt.mono {P Q : Nat → Prop} {s s' : St} (h : ESt P s s') (hpq : ∀ r, P r → Q r) : ESt Q s s' := by
  obtain ⟨g, e, i, a⟩ := h
  exact ⟨g, e, i, fun x hm hx => (a x hm hx).imp id (hpq _)⟩

theorem est_updExec (s : St) (r : Nat) (f : Exec → Exec) (P : Nat → Prop)
    (hf : ∀ e, (f e).rid = e.rid ∧ (f e).id = e.id ∧ (f e).deadline = e.deadline ∧ (f e).vis = e.vis ∧
      (execLive (f e) = true → execLive e = true))
    (ha : ∀ e, (f e).aborted = true → e.aborted = true ∨ P e.rid) : ESt P s (updExec s r f) := by
  refine ⟨fun e => if e.rid == r then f e else e, rfl, fun e => ?_, fun e _ h => ?_⟩
  · simp only; split
    · exact hf e
    · exact ⟨rfl, rfl, rfl, rfl, fun h => h⟩
  · simp only at h; split at h
    · exact ha e h
    · exact Or.inl h

theorem est_wakeServer (P : Nat → Prop) (s : St) : ESt P s (wakeServer s) := ESt.of_eq (by simp)

theorem est_wakeExec (P : Nat → Prop) (s : St) (r : Nat) : ESt P s (wakeExec s r) := by
  unfold wakeExec; repeat' split
  all_goals first
    | exact ESt.refl P s
    | exact (est_updExec s r (fun e => { e with woken := true }) P (fun e => ⟨rfl, rfl, rfl, rfl, fun h => h⟩) (fun e h => Or.inl h))

theorem est_abortExec (s : St) (r : Nat) : ESt (fun r' => r' = r) s (abortExec s r) := by
  unfold abortExec; split
  · exact ESt.refl _ s
  · simp only
    have h1 : ESt (fun r' => r' = r) s (updExec s r (fun e => { e with aborted := true, abortWaker := false })) := by
      refine ⟨fun e => if e.rid == r then { e with aborted := true, abortWaker := false } else e, rfl, fun e => ?_, fun e _ h => ?_⟩
      · simp only; split <;> exact ⟨rfl, rfl, rfl, rfl, fun h => h⟩
      · simp only at h; split at h
        · next hr => exact Or.inr (by simpa using hr)
        · exact Or.inl h
    split
    · exact (h1.trans (est_wakeExec (fun _ => False) _ r)).mono (fun r' h => h.elim id False.elim)
    · exact h1

theorem ext_abortExec (s : St) (r : Nat) : Ext s (abortExec s r) := by
  unfold abortExec; split
  · exact Ext.refl s
  · simp only; split
    · exact (qs_wakeExec _ r).1.pre rfl
    · exact Ext.of_eq rfl

theorem find_rid_nodup {l : List Exec} (h : (l.map (·.rid)).Nodup) {e : Exec} (he : e ∈ l) :
    l.find? (·.rid == e.rid) = some e := by
  induction l with
  | nil => cases he
  | cons a l ih =>
    simp only [List.map_cons, List.nodup_cons, List.mem_map, not_exists, not_and] at h
    rcases List.mem_cons.mp he with rfl | he'
    · simp
    · have hne : a.rid ≠ e.rid := fun heq => h.1 e he' heq.symm
      rw [List.find?_cons_of_neg (by simpa using hne)]
      exact ih h.2 he'

/-- `K.model` for a step of the model described on states -/
theorem K_model_st {now : Nat} {pend pend' : Option (Nat × Nat)} {B : BV} {s s' : St} {P : Nat → Prop}
    (h : K now pend B (sview s)) (he : ESt P s s')
    (hP : ∀ e ∈ s.execs, P e.rid → Reason now B (xe e) (execLive e))
    (hin : ∀ en ∈ s'.inflight.map SEntry.ir, en ∈ s.inflight.map SEntry.ir)
    (hnv : s'.nextVis = s.nextVis) (hdr : s'.dropped = true → s.dropped = true ∨ B.dropped = true)
    (hpend : pend' = pend ∨ (pend' = none ∧ ∀ r id, pend = some (r, id) → ∀ e' ∈ s'.execs, e'.rid = r → execLive e' = false)) :
    K now pend' B (sview s') := by
  obtain ⟨g, hg, hid, hab⟩ := he
  have hnd : (s.execs.map (·.rid)).Nodup := by
    have := h.ridNodup
    have heq : (sview s).execs.map (·.rid) = s.execs.map (·.rid) := by
      simp only [sview, List.map_map]; rfl
    rw [heq] at this; exact this
  let gx : XE → XE := fun x => match s.execs.find? (·.rid == x.rid) with
    | some e => xe (g e)
    | none => x
  have hgx : ∀ e ∈ s.execs, gx (xe e) = xe (g e) := by
    intro e he
    simp only [gx]
    rw [show (xe e).rid = e.rid from rfl, find_rid_nodup hnd he]
  have hex : (sview s').execs = (sview s).execs.map gx := by
    simp only [sview, hg, List.map_map]
    apply List.map_congr_left
    intro e he
    simp only [Function.comp]
    exact (hgx e he).symm
  have hlive : ∀ e ∈ s.execs, execLive e = false → execLive (g e) = false := by
    intro e he hl
    cases hgl : execLive (g e) with
    | false => rfl
    | true => rw [(hid e).2.2.2.2 hgl] at hl; cases hl
  refine h.model gx hex ?_ ?_ hin hnv hdr ?_
  · intro x hx
    obtain ⟨e, he, rfl⟩ := List.mem_map.mp hx
    rw [hgx e he]
    obtain ⟨h1, h2, h3, h4, h5⟩ := hid e
    exact ⟨h1, h2, h3, h4, h5⟩
  · intro x hx ha
    obtain ⟨e, he, rfl⟩ := List.mem_map.mp hx
    rw [hgx e he] at ha ⊢
    rcases hab e he ha with h1 | h1
    · exact Or.inl h1
    · right
      rcases hP e he h1 with hr | hr | hr | hr
      · exact Or.inl hr
      · exact Or.inr (Or.inl hr)
      · exact Or.inr (Or.inr (Or.inl hr))
      · exact Or.inr (Or.inr (Or.inr (hlive e he hr)))
  · rcases hpend with hp | ⟨hp, hall⟩
    · exact Or.inl hp
    · refine Or.inr ⟨hp, fun r id hpe x hx hr => ?_⟩
      obtain ⟨e, he, rfl⟩ := List.mem_map.mp hx
      rw [hgx e he]
      exact hall r id hpe (g e) (by rw [hg]; exact List.mem_map_of_mem he) (by rw [(hid e).1]; exact hr)

/-! ### `removeRequest`, `pollExpired` -/

theorem removeRequest_inflight (s : St) (id : Nat) :
    ((removeRequest s id).2 = false ∧ (removeRequest s id).1 = s ∧ findEntry s id = none) ∨
    ((removeRequest s id).2 = true ∧ (removeRequest s id).1.inflight = s.inflight.filter (·.id != id)) := by
  unfold removeRequest
  split
  · next h => exact Or.inl ⟨rfl, rfl, h⟩
  · exact Or.inr ⟨rfl, by simp⟩

theorem qsx_removeRequest (s : St) (id : Nat) : Ext s (removeRequest s id).1 := by
  unfold removeRequest; split
  · exact Ext.refl s
  · exact (qs_removeTimer _ _).1.pre rfl

theorem mem_filter_ir {l : List SEntry} {id : Nat} {en : Nat × Nat} (h : en ∈ (l.filter (·.id != id)).map SEntry.ir) :
    en ∈ l.map SEntry.ir ∧ en.1 ≠ id := by
  obtain ⟨x, hx, rfl⟩ := List.mem_map.mp h
  obtain ⟨h1, h2⟩ := List.mem_filter.mp hx
  exact ⟨List.mem_map_of_mem h1, by simpa [SEntry.ir] using h2⟩

theorem J_removeRequest {b0 : Book} {now : Nat} {pend : Option (Nat × Nat)} {s : St} (id : Nat)
    (hJ : J b0 now pend s) : J b0 now pend (removeRequest s id).1 := by
  refine J_ext (qsx_removeRequest s id) hJ (fun hK => ?_)
  refine K_model_st (P := fun _ => False) hK (ESt.of_eq (by simp)) (fun e _ h => h.elim) ?_ (by simp) (by simp; exact Or.inl)
    (Or.inl rfl)
  intro en hen
  rcases removeRequest_inflight s id with ⟨_, h, _⟩ | ⟨_, h⟩
  · rw [h] at hen; exact hen
  · rw [h] at hen; exact (mem_filter_ir hen).1

theorem ext_rearm {s s2 : St} {now : Nat} {en : SEntry} (hr : rearm s now en = some s2) : Ext s s2 := by
  rcases rearm_cases s now en with ⟨_, he⟩ | ⟨q, key, w, _, he⟩ <;> rw [he] at hr <;> cases hr
  cases w
  · exact Ext.of_eq rfl
  · exact (qs_wakeServer s).1.trans (Ext.of_eq rfl)

theorem ext_expireStep (s : St) (now : Nat) : Ext s (expireStep s now).1 := by
  have hs := expireStep_shape s now
  revert hs; generalize expireStep s now = q; intro hs
  obtain ⟨s', r⟩ := q
  dsimp only at hs ⊢
  cases hs with
  | idleNone q hp' => exact Ext.of_eq rfl
  | idlePending q hp' => exact Ext.of_eq rfl
  | orphan q e hp' hf => exact Ext.of_eq rfl
  | abort q e en hp' hf h0 => exact (ext_abortExec _ _).pre rfl
  | rearmed q e en s2 hp' hf h0 hr => exact (ext_rearm hr).pre rfl
  | panicked q e en hp' hf h0 hr => exact (Ext.emit _ _ rfl).pre rfl

theorem ext_pollExpired (s : St) (now : Nat) : Ext s (pollExpired s now).1 :=
  pollExpired_rel (R := Ext) now Ext.refl (fun _ _ _ => Ext.trans) (fun s => Ext.emit s _ rfl)
    (fun s => ext_expireStep s now) s

theorem est_expireStep (s : St) (now : Nat) : ESt (fun _ => True) s (expireStep s now).1 := by
  have hs := expireStep_shape s now
  revert hs; generalize expireStep s now = q; intro hs
  obtain ⟨s', r⟩ := q
  dsimp only at hs ⊢
  cases hs with
  | idleNone q hp' => exact ESt.of_eq rfl
  | idlePending q hp' => exact ESt.of_eq rfl
  | orphan q e hp' hf => exact ESt.of_eq rfl
  | abort q e en hp' hf h0 =>
    obtain ⟨g, hg, hi, ha⟩ := est_abortExec { s with timers := q, inflight := s.inflight.filter (·.id != e.val) } en.rid
    exact ⟨g, hg, hi, fun x hx h => (ha x hx h).imp id (fun _ => trivial)⟩
  | rearmed q e en s2 hp' hf h0 hr => exact ESt.of_eq ((rearm_frame hr).execs)
  | panicked q e en hp' hf h0 hr => exact ESt.of_eq rfl

theorem est_pollExpired (s : St) (now : Nat) : ESt (fun _ => True) s (pollExpired s now).1 :=
  pollExpired_rel (R := ESt (fun _ => True)) now (ESt.refl _) (fun _ _ _ h1 h2 => (h1.trans h2).mono (fun _ _ => trivial))
    (fun s => ESt.of_eq rfl) (fun s => est_expireStep s now) s

theorem pollExpired_inflight_sub (s : St) (now : Nat) :
    ∀ en ∈ (pollExpired s now).1.inflight.map SEntry.ir, en ∈ s.inflight.map SEntry.ir := by
  have h := pollExpired_touches s now
  revert h; generalize pollExpired s now = p; intro h
  obtain ⟨s', r⟩ := p
  dsimp only at h ⊢
  intro en hen
  cases h with
  | same _ hi he hr => rw [hi] at hen; exact hen
  | orphan id hi he hf => rw [hi] at hen; exact hen
  | expired id en' hf hi g he hm => rw [hi] at hen; exact (mem_filter_ir hen).1

/-- the expiry path: whatever it aborts is past its deadline (`TInv.expire_ab`) -/
theorem J_pollExpired {b0 : Book} {now : Nat} {pend : Option (Nat × Nat)} {s : St} (ht : TInv now s)
    (hJ : J b0 now pend s) : J b0 now pend (pollExpired s now).1 := by
  refine J_ext (ext_pollExpired s now) hJ (fun hK => ?_)
  obtain ⟨g, hg, hid, _⟩ := est_pollExpired s now
  have hnd : (s.execs.map (·.rid)).Nodup := by
    have := hK.ridNodup
    have heq : (sview s).execs.map (·.rid) = s.execs.map (·.rid) := by
      simp only [sview, List.map_map]; rfl
    rw [heq] at this; exact this
  have hab : ∀ e ∈ s.execs, (g e).aborted = true → e.aborted = true ∨ e.deadline ≤ now := by
    intro e he ha
    have hmem : g e ∈ (pollExpired s now).1.execs := by rw [hg]; exact List.mem_map_of_mem he
    have key : ∀ ro, ExecsAb ro s.execs (pollExpired s now).1.execs → e.aborted = true ∨ ro = some e.rid := by
      intro ro hx
      obtain ⟨ex, hex, hr, _, _, hax⟩ := hx.2 (g e) hmem
      have : ex = e := by
        have h1 := find_rid_nodup hnd hex
        have h2 := find_rid_nodup hnd he
        rw [← hr, (hid e).1] at h1
        rw [h2] at h1
        exact (Option.some.inj h1).symm
      subst this
      exact hax ha
    rcases ht.expire_ab with h0 | ⟨r, h1, hdl⟩
    · rcases key none h0 with h | h
      · exact Or.inl h
      · cases h
    · rcases key (some r) h1 with h | h
      · exact Or.inl h
      · exact Or.inr (hdl e he (Option.some.inj h).symm)
  refine K_model_st (P := fun r => ∀ e ∈ s.execs, e.rid = r → e.deadline ≤ now) hK
    ⟨g, hg, hid, fun e he ha => (hab e he ha).imp id (fun hd e' he' hr => ?_)⟩
    (fun e he hp => Or.inr (Or.inr (Or.inl (hp e he rfl)))) (pollExpired_inflight_sub s now) (by simp)
    (by simp; exact Or.inl) (Or.inl rfl)
  have h1 := find_rid_nodup hnd he'
  have h2 := find_rid_nodup hnd he
  rw [hr, h2] at h1
  rw [← Option.some.inj h1]; exact hd

/-! ### the transport read -/

theorem tNext_obs (s : St) (h : s.readFused = false) : (tNext s).1.obs = .tNext (tid s) (tNext s).2 :: s.obs := by
  unfold tNext
  rw [if_neg (by simp [h])]
  simp only
  split <;> rfl

theorem tNext_fused_eq (s : St) (h : s.readFused = true) : tNext s = (s, .eof) := by
  unfold tNext; simp [h]

theorem sview_tNext (s : St) : sview (tNext s).1 = sview s :=
  sview_congr (by simp) (by simp) (by simp) (by simp)

theorem K_view_eq {now : Nat} {pend : Option (Nat × Nat)} {b b' : Book} {S : SV} (he : bview b' = bview b)
    (h : K now pend (bview b) S) : K now pend (bview b') S := he ▸ h

/-- the book after the `sweepOne` that precedes the handling of a read -/
def preRead (b : Book) : Book :=
  if b.topPoll then ({ b with justRead := none, sawT := true, prevReadyP := false } : Book).sweepOne
  else { b with justRead := none, sawT := true, prevReadyP := false }

theorem K_preRead {now : Nat} {pend : Option (Nat × Nat)} {b : Book} {S : SV} (h : K now pend (bview b) S) :
    K now pend (bview (preRead b)) S := by
  unfold preRead
  split
  · exact K_sweepOne (b := { b with justRead := none, sawT := true, prevReadyP := false }) h
  · exact h

theorem step_tNext_eq (b : Book) (ep : TaskId) (r : NextRes) :
    b.step (.obs (.tNext ep r)) =
      match r with
      | .item (.request id d tr body) =>
          { preRead b with reqReads := (preRead b).reqReads ++ [(id, d, tr, body)], lastRead := some id, justRead := some id }
      | .item (.cancel id _) =>
          (match (preRead b).table.reverse.find? (fun p : Nat × Nat => p.1 == id) with
            | some (_, r) => (preRead b).updExec r (fun e => { e with cancelRead := true })
            | none => preRead b).untrack id
      | .err => { preRead b with failed := true }
      | .eof => { preRead b with eofSeen := true }
      | _ => preRead b := by
  unfold preRead
  cases r with
  | item m =>
    cases m with
    | request id d tr body => (simp only [Book.step]; try (first | rfl | (split <;> rfl)))
    | cancel id tr => (simp only [Book.step]; try (first | rfl | (split <;> rfl)))
    | response id res => (simp only [Book.step]; try (first | rfl | (split <;> rfl)))
  | pending => (simp only [Book.step]; try (first | rfl | (split <;> rfl)))
  | err => (simp only [Book.step]; try (first | rfl | (split <;> rfl)))
  | eof => (simp only [Book.step]; try (first | rfl | (split <;> rfl)))

theorem K_step_tNext {now : Nat} {pend : Option (Nat × Nat)} {b : Book} {S : SV} (ep : TaskId) (r : NextRes)
    (hr : ∀ id tr, r ≠ .item (.cancel id tr)) (h : K now pend (bview b) S) :
    K now pend (bview (b.step (.obs (.tNext ep r)))) S := by
  rw [step_tNext_eq]
  have hp := K_preRead h
  cases r with
  | item m =>
    cases m with
    | request id d tr body => exact K_view_eq rfl hp
    | cancel id tr => exact absurd rfl (hr id tr)
    | response id res => exact hp
  | pending => exact hp
  | err => exact K_view_eq rfl hp
  | eof => exact K_view_eq rfl hp

theorem J_tNext_other {b0 : Book} {now : Nat} {pend : Option (Nat × Nat)} {s : St}
    (hr : ∀ id tr, (tNext s).2 ≠ .item (.cancel id tr)) (hJ : J b0 now pend s) : J b0 now pend (tNext s).1 := by
  by_cases hf : s.readFused = true
  · rw [tNext_fused_eq s hf]; exact hJ
  · have hf' : s.readFused = false := by simpa using hf
    unfold J
    rw [tNext_obs s hf', bo_cons, sview_tNext]
    rcases hJ with h | h
    · exact Or.inl (step_spun_mono _ _ h)
    · exact Or.inr (K_step_tNext _ _ hr h)

/-! ### a `Cancel` is read: the book marks the execution it lists for the id, the model aborts the one it tracks -/

theorem XB.deadline_le_tick (eb : XB) : eb.deadline ≤ eb.tick := by
  unfold XB.tick Client.ceilMsNs
  exact Nat.le_trans (Nat.le_max_left _ _) (ceilMs_ge _)

theorem find_rev_nodup {l : List (Nat × Nat)} (h : (l.map (·.1)).Nodup) {i v : Nat} (hm : (i, v) ∈ l) :
    l.reverse.find? (fun p => p.1 == i) = some (i, v) := by
  cases hf : l.reverse.find? (fun p => p.1 == i) with
  | none =>
    have := List.find?_eq_none.mp hf (i, v) (List.mem_reverse.mpr hm)
    simp at this
  | some p =>
    have hp1 : p.1 = i := by simpa using List.find?_some hf
    have hpm : p ∈ l := List.mem_reverse.mp (List.mem_of_find?_eq_some hf)
    have : p = (i, v) := by
      clear hf
      induction l with
      | nil => cases hm
      | cons a l ih =>
        simp only [List.map_cons, List.nodup_cons, List.mem_map, not_exists, not_and] at h
        rcases List.mem_cons.mp hm with rfl | hm'
        · rcases List.mem_cons.mp hpm with rfl | hp'
          · rfl
          · exact absurd hp1 (h.1 p hp')
        · rcases List.mem_cons.mp hpm with rfl | hp'
          · exact absurd rfl (hp1 ▸ h.1 (i, v) hm')
          · exact ih h.2 hm' hp'
    rw [this]

theorem exec_updExec_self (b : Book) (v : Nat) (f : BExec → BExec) (hf : ∀ e, (f e).rid = e.rid) :
    (b.updExec v f).exec v = (b.exec v).map f := by
  unfold Book.exec Book.updExec
  simp only
  induction b.execs with
  | nil => rfl
  | cons a l ih =>
    simp only [List.map_cons, List.find?_cons]
    by_cases ha : a.rid = v
    · simp [ha, hf]
    · have h1 : (a.rid == v) = false := by simpa using ha
      simp only [h1, Bool.false_eq_true, if_false]
      exact ih

/-- the effect of `cancel_request` on the view -/
theorem cancelRequest_eff (s : St) (id : Nat) :
    (findEntry s id = none ∧ (cancelRequest s id).1 = s) ∨
    (∃ en, findEntry s id = some en ∧ ESt (fun r => r = en.rid) s (cancelRequest s id).1 ∧
      (cancelRequest s id).1.inflight = s.inflight.filter (·.id != id)) := by
  unfold cancelRequest
  split
  · next h => exact Or.inl ⟨h, rfl⟩
  · next en h =>
    refine Or.inr ⟨en, h, ?_, by simp⟩
    obtain ⟨g, hg, hi, ha⟩ := est_abortExec { s with inflight := s.inflight.filter (·.id != id) } en.rid
    exact ⟨g, by simpa using hg, hi, ha⟩

theorem ext_cancelRequest (s : St) (id : Nat) : Ext s (cancelRequest s id).1 := by
  unfold cancelRequest; split
  · exact Ext.refl s
  · exact ((ext_abortExec _ _).trans (qs_removeTimer _ _).1).pre rfl

theorem K_cancel {now : Nat} {b : Book} {s s2 : St} (id : Nat) (h : K now none (bview b) (sview s))
    (hm : (findEntry s id = none ∧ s2 = s) ∨
      (∃ en, findEntry s id = some en ∧ ESt (fun r => r = en.rid) s s2 ∧ s2.inflight = s.inflight.filter (·.id != id)))
    (hnv : s2.nextVis = s.nextVis) (hdr : s2.dropped = s.dropped) :
    K now none (bview ((match b.table.reverse.find? (fun p : Nat × Nat => p.1 == id) with
      | some (_, r) => b.updExec r (fun e => { e with cancelRead := true })
      | none => b).untrack id)) (sview s2) := by
  -- the book after the `cancelRead` mark
  have h2 : K now none (bview (match b.table.reverse.find? (fun p : Nat × Nat => p.1 == id) with
      | some (_, r) => b.updExec r (fun e => { e with cancelRead := true })
      | none => b)) (sview s) := by
    split
    · exact K_cancelRead h _
    · exact h
  rcases hm with ⟨hf, rfl⟩ | ⟨en, hf, hest, hin⟩
  · refine K_untrack h2 id (fun en hen => ?_)
    obtain ⟨x, hx, rfl⟩ := List.mem_map.mp hen
    exact findEntry_none hf x hx
  · obtain ⟨hen, heid⟩ := findEntry_some hf
    refine K_untrack (K_model_st h2 hest ?_ ?_ hnv (fun hd => Or.inl (hdr ▸ hd)) (Or.inl rfl)) id ?_
    · -- the reason for the execution the entry names
      intro e he hr
      cases hv : e.vis with
      | none =>
        rcases h.unv (xe e) (List.mem_map_of_mem he) hv with hl | ⟨i, hp⟩ | ho
        · exact Or.inr (Or.inr (Or.inr hl))
        · cases hp
        · exact absurd hr.symm (ho (SEntry.ir en) (List.mem_map_of_mem hen))
      | some v =>
        obtain ⟨eb, hfb, _, hdl, hab⟩ := h.bex (xe e) (List.mem_map_of_mem he) v hv
        rcases h.tab (SEntry.ir en) (List.mem_map_of_mem hen) (xe e) (List.mem_map_of_mem he) hr v hv eb hfb with ht | ht | ht
        · -- the book lists it: this `Cancel` is recorded for it
          left
          have hfind : b.table.reverse.find? (fun p : Nat × Nat => p.1 == id) = some (id, v) := by
            have := find_rev_nodup h.tnd (i := en.id) (v := v) ht
            rw [heid] at this; exact this
          rw [bview_find] at hfb
          cases hbe : b.exec v with
          | none => rw [hbe] at hfb; cases hfb
          | some e0 =>
            refine ⟨v, xb { e0 with cancelRead := true }, hv, ?_, rfl⟩
            rw [hfind]
            simp only
            rw [bview_find, exec_updExec_self b v (fun e => { e with cancelRead := true }) (fun e => rfl), hbe]
            rfl
        · right; right; left
          have h1 := eb.deadline_le_tick
          have h3 : (bview b).now = now := h.clk
          show e.deadline ≤ now
          have h4 : eb.deadline = e.deadline := hdl
          omega
        · exact Or.inr (Or.inr (Or.inr (hab ht)))
    · intro en' hen'
      rw [hin] at hen'
      exact (mem_filter_ir hen').1
    · intro en' hen'
      have hen'' : en' ∈ s2.inflight.map SEntry.ir := hen'
      rw [hin] at hen''
      exact (mem_filter_ir hen'').2

theorem J_cancel {b0 : Book} {now : Nat} {s : St} (id : Nat) (tr : Trace)
    (hr : (tNext s).2 = .item (.cancel id tr)) (hJ : J b0 now none s) :
    J b0 now none (cancelRequest (tNext s).1 id).1 := by
  have hf' : s.readFused = false := by
    cases hf : s.readFused with
    | false => rfl
    | true => rw [tNext_fused_eq s hf] at hr; cases hr
  have hobs := tNext_obs s hf'
  rw [hr] at hobs
  rcases bo_ext b0 (ext_cancelRequest (tNext s).1 id) with hs | ⟨hv, hs⟩
  · exact Or.inl hs
  · unfold J
    rw [hv, hs, hobs, bo_cons]
    rcases hJ with h | h
    · exact Or.inl (step_spun_mono _ _ h)
    · right
      rw [step_tNext_eq]
      have hp : K now none (bview (preRead (bo b0 s.obs))) (sview (tNext s).1) := by
        rw [sview_tNext]; exact K_preRead h
      exact K_cancel id hp (by
        rcases cancelRequest_eff (tNext s).1 id with ⟨h1, h2⟩ | ⟨en, h1, h2, h3⟩
        · exact Or.inl ⟨h1, h2⟩
        · exact Or.inr ⟨en, h1, h2, h3⟩) (by simp) (by simp)

/-! ### a request is read and started -/

theorem startRequest_eff (s : St) (now id d : Nat) (tr : Trace) (b : Nat) :
    ((startRequest s now id d tr b).2 = none ∧ QS s (startRequest s now id d tr b).1) ∨
    (∃ ex, (startRequest s now id d tr b).2 = some ex ∧ ex.rid = s.execs.length ∧ ex.id = id ∧
      findEntry s id = none ∧ Ext s (startRequest s now id d tr b).1 ∧
      (startRequest s now id d tr b).1.execs.map xe = s.execs.map xe ++ [⟨s.execs.length, id, d, none, true, false⟩] ∧
      (startRequest s now id d tr b).1.inflight.map SEntry.ir = s.inflight.map SEntry.ir ++ [(id, s.execs.length)]) := by
  unfold startRequest
  split
  · exact Or.inl ⟨rfl, QS.refl s⟩
  · next hfe =>
    have hfe' : findEntry s id = none := by
      cases h : findEntry s id with
      | none => rfl
      | some e => rw [h] at hfe; simp at hfe
    split
    · exact Or.inl ⟨rfl, (QS.emit _ _ rfl).pre rfl rfl⟩
    · next q key woke hq =>
      right
      simp only
      cases woke
      · exact ⟨_, rfl, rfl, rfl, hfe', Ext.of_eq rfl, by simp [xe, execLive], by simp [SEntry.ir]⟩
      · simp only [if_true]
        refine ⟨_, rfl, by simp, rfl, hfe', (qs_wakeServer s).1.trans (Ext.of_eq rfl), by simp [xe, execLive], by simp [SEntry.ir]⟩

theorem J_startRequest {b0 : Book} {now : Nat} {s : St} (id d : Nat) (tr : Trace) (b : Nat) (hJ : J b0 now none s) :
    match (startRequest s now id d tr b).2 with
    | some ex => J b0 now (some (ex.rid, ex.id)) (startRequest s now id d tr b).1
    | none => J b0 now none (startRequest s now id d tr b).1 := by
  rcases startRequest_eff s now id d tr b with ⟨h1, h2⟩ | ⟨ex, h1, hr, hi, hf, hx, he, hin⟩
  · rw [h1]; exact J_qs h2 hJ
  · rw [h1]
    simp only
    rw [hr, hi]
    refine J_ext hx hJ (fun hK => ?_)
    have hlen : (sview s).execs.length = s.execs.length := by simp [sview]
    rw [← hlen]
    refine hK.start id d (by simp only [sview]; rw [he]; simp) (by simp only [sview]; rw [hin]; simp) ?_ (by simp [sview]) (by simp [sview])
    intro en hen
    obtain ⟨x, hx', rfl⟩ := List.mem_map.mp hen
    exact findEntry_none hf x hx'

/-! ### a response is written -/

theorem step_tSend_resp (b : Book) (ep : TaskId) (id : Nat) (res : Res) (ok : Bool) :
    bview (b.step (.obs (.tSend ep (.response id res) ok))) = bview (b.untrack id) ∧
    (b.step (.obs (.tSend ep (.response id res) ok))).spun = b.spun := by
  cases ok <;> exact ⟨rfl, rfl⟩

theorem tSend_obs_ext (s : St) (m : Msg) :
    ∃ s0, QS s s0 ∧ (tSend s m).1.obs = .tSend (tid s) m (tSend s m).2 :: s0.obs ∧ sview (tSend s m).1 = sview s0 := by
  refine ⟨emitViolations { s with t := (s.t.startSend m).1 } s.t.violations.length, (qs_emitViolations _ _).pre rfl rfl, ?_, ?_⟩
  · unfold tSend; rfl
  · unfold tSend; rfl

theorem J_tSend {b0 : Book} {now : Nat} {pend : Option (Nat × Nat)} {s : St} (id : Nat) (res : Res)
    (hno : ∀ en ∈ s.inflight, en.id ≠ id) (hJ : J b0 now pend s) : J b0 now pend (tSend s (.response id res)).1 := by
  obtain ⟨s0, hq, hobs, hv⟩ := tSend_obs_ext s (.response id res)
  have h0 := J_qs hq hJ
  unfold J
  rw [hobs, bo_cons, hv]
  obtain ⟨h1, h2⟩ := step_tSend_resp (bo b0 s0.obs) (tid s) id res (tSend s (.response id res)).2
  rw [h1, h2]
  rcases h0 with h | h
  · exact Or.inl h
  · right
    refine K_untrack h id (fun en hen => ?_)
    rw [hq.2] at hen
    obtain ⟨x, hx, rfl⟩ := List.mem_map.mp hen
    exact hno x hx

theorem J_baseStartSend {b0 : Book} {now : Nat} {pend : Option (Nat × Nat)} {s : St} (id : Nat) (res : Res)
    (hJ : J b0 now pend s) : J b0 now pend (baseStartSend s id res).1 := by
  unfold baseStartSend
  have h1 := J_removeRequest id hJ
  have hi := removeRequest_inflight s id
  revert h1 hi
  generalize removeRequest s id = q
  obtain ⟨s1, f⟩ := q
  intro h1 hi
  cases f
  · exact h1
  · simp only
    refine J_tSend id res ?_ h1
    rcases hi with ⟨h, _⟩ | ⟨_, h⟩
    · cases h
    · intro en hen
      simp only at h
      rw [h] at hen
      simpa using (List.mem_filter.mp hen).2

/-! ### a started request is given up before it is handed out -/

theorem J_gone {b0 : Book} {now : Nat} {s : St} (rid id : Nat) (f : Exec → Exec)
    (hf : ∀ e, (f e).rid = e.rid ∧ (f e).id = e.id ∧ (f e).deadline = e.deadline ∧ (f e).vis = e.vis ∧
      (f e).aborted = e.aborted ∧ execLive (f e) = false)
    (hJ : J b0 now (some (rid, id)) s) : J b0 now none (updExec s rid f) := by
  refine J_ext (s := s) (Ext.of_eq rfl) hJ (fun hK => ?_)
  refine K_model_st (P := fun _ => False) hK
    (est_updExec s rid f _ (fun e => ⟨(hf e).1, (hf e).2.1, (hf e).2.2.1, (hf e).2.2.2.1, fun h => by rw [(hf e).2.2.2.2.2] at h; cases h⟩)
      (fun e h => Or.inl (by rw [(hf e).2.2.2.2.1] at h; exact h)))
    (fun e _ h => h.elim) (fun en hen => hen) rfl Or.inl (Or.inr ⟨rfl, fun r i hp e' he' hr => ?_⟩)
  simp only [Option.some.injEq, Prod.mk.injEq] at hp
  obtain ⟨rfl, rfl⟩ := hp
  simp only [updExec] at he'
  obtain ⟨e, he, rfl⟩ := List.mem_map.mp he'
  by_cases hre : e.rid = rid
  · simp only [hre, beq_self_eq_true, if_true]; exact (hf e).2.2.2.2.2
  · simp only [show (e.rid == rid) = false by simpa using hre] at hr ⊢
    exact absurd hr hre

theorem J_dropOffered {b0 : Book} {now : Nat} {s : St} (rid id id' : Nat) (hJ : J b0 now (some (rid, id)) s) :
    J b0 now none (dropOffered s rid id') := by
  unfold dropOffered
  simp only
  have h1 := J_gone rid id (fun e => { e with phase := .gone, guardArmed := false, woken := false })
    (fun e => ⟨rfl, rfl, rfl, rfl, rfl, rfl⟩) hJ
  split
  · exact J_qs ((qs_wakeServer _).pre rfl rfl) h1
  · exact J_qs (QS.of_eq rfl rfl) h1

/-! ## the walk through one poll of the request stream -/

theorem J_unpend {b0 : Book} {now : Nat} {s : St} {r id : Nat} (hJ : J b0 now (some (r, id)) s)
    (hno : ∀ en ∈ s.inflight, en.id ≠ id) : J b0 now none s :=
  hJ.imp (fun h => h) (fun h => h.unpend (fun en hen => by
    obtain ⟨x, hx, rfl⟩ := List.mem_map.mp hen
    exact hno x hx))

/-- an execution's bookkeeping changes; it may stop being live -/
theorem J_upd {b0 : Book} {now : Nat} {pend : Option (Nat × Nat)} {s : St} (r : Nat) (f : Exec → Exec)
    (hf : ∀ e, (f e).rid = e.rid ∧ (f e).id = e.id ∧ (f e).deadline = e.deadline ∧ (f e).vis = e.vis ∧
      (f e).aborted = e.aborted ∧ (execLive (f e) = true → execLive e = true))
    (hJ : J b0 now pend s) : J b0 now pend (updExec s r f) := by
  refine J_ext (s := s) (Ext.of_eq rfl) hJ (fun hK => ?_)
  exact K_model_st (P := fun _ => False) hK
    (est_updExec s r f _ (fun e => ⟨(hf e).1, (hf e).2.1, (hf e).2.2.1, (hf e).2.2.2.1, (hf e).2.2.2.2.2⟩)
      (fun e h => Or.inl (by rw [(hf e).2.2.2.2.1] at h; exact h)))
    (fun e _ h => h.elim) (fun en hen => hen) rfl Or.inl (Or.inl rfl)

theorem J_bpOther {b0 : Book} {now : Nat} {s2 : St} (hJ : J b0 now none s2) :
    J b0 now none (bpOther (tNext s2).1 (tNext s2).2).1 := by
  cases hnx : (tNext s2).2 with
  | item m =>
    cases m with
    | cancel id tr => exact J_cancel id tr hnx hJ
    | request id d tr b => exact J_tNext_other (by rw [hnx]; intro id tr h; cases h) hJ
    | response id res => exact J_tNext_other (by rw [hnx]; intro id tr h; cases h) hJ
  | pending => exact J_tNext_other (by rw [hnx]; intro id tr h; cases h) hJ
  | err => exact J_tNext_other (by rw [hnx]; intro id tr h; cases h) hJ
  | eof => exact J_tNext_other (by rw [hnx]; intro id tr h; cases h) hJ

theorem J_bpCancel {b0 : Book} {now : Nat} {pend : Option (Nat × Nat)} {s : St} (hJ : J b0 now pend s) :
    J b0 now pend (bpCancel s).1 := by
  unfold bpCancel
  split
  · next id rest _ =>
    exact J_removeRequest id (J_qs (s := s) (s' := { s with cancelQ := rest }) (QS.of_eq rfl rfl) hJ)
  · exact J_qs (QS.of_eq rfl rfl) hJ

/-- postcondition of a step / of the read side: a request that was started is pending -/
def PostRdO (b0 : Book) (now : Nat) : St × Option (SPoll Exec) → Prop
  | (s', some (.some ex)) => J b0 now (some (ex.rid, ex.id)) s'
  | (s', _) => J b0 now none s'

def PostRd (b0 : Book) (now : Nat) : St × SPoll Exec → Prop
  | (s', .some ex) => J b0 now (some (ex.rid, ex.id)) s'
  | (s', _) => J b0 now none s'

theorem J_bpStep {b0 : Book} {now : Nat} {s : St} (hs : SInv false now s) (hJ : J b0 now none s) :
    PostRdO b0 now (bpStep s now) := by
  have h1 := J_bpCancel hJ
  have hs1 : SInv false now (bpCancel s).1 := (sinv_closed false now).bpCancel s hs
  have h2 : J b0 now none (bp2 s now) := J_pollExpired hs1.t h1
  have h3 : bpNx s now ≠ .err → (∀ id tr, bpNx s now ≠ .item (.cancel id tr)) → J b0 now none (bp3 s now) :=
    fun _ hc => J_tNext_other hc h2
  have ho := bpStep_out s now
  generalize bpStep s now = out at ho ⊢
  cases ho with
  | poisoned2 hp => exact h2
  | readErr hp hn => exact J_tNext_other (s := bp2 s now) (by intro id tr h; unfold bpNx at hn; rw [hn] at h; cases h) h2
  | started id d tr b ex hp hn hs' =>
    have hb3 : J b0 now none (bp3 s now) :=
      J_tNext_other (s := bp2 s now) (by intro id tr h; unfold bpNx at hn; rw [hn] at h; cases h) h2
    have := J_startRequest id d tr b hb3
    rw [hs'] at this
    exact this
  | startPanic id d tr b hp hn hs' hpo =>
    have hb3 : J b0 now none (bp3 s now) :=
      J_tNext_other (s := bp2 s now) (by intro id tr h; unfold bpNx at hn; rw [hn] at h; cases h) h2
    have := J_startRequest id d tr b hb3
    rw [hs'] at this
    exact this
  | duplicate id d tr b hp hn hs' hpo =>
    have hb3 : J b0 now none (bp3 s now) :=
      J_tNext_other (s := bp2 s now) (by intro id tr h; unfold bpNx at hn; rw [hn] at h; cases h) h2
    have := J_startRequest id d tr b hb3
    rw [hs'] at this
    exact this
  | otherPoisoned hp hn1 hn2 hpo => exact J_bpOther h2
  | again hp hn1 hn2 hpo hc => exact J_bpOther h2
  | closed hp hn1 hn2 hpo hc => exact J_bpOther h2
  | pending hp hn1 hn2 hpo hc => exact J_bpOther h2

theorem J_basePollNext {b0 : Book} {now : Nat} : ∀ (fuel : Nat) (s : St), SInv false now s → J b0 now none s →
    PostRd b0 now (basePollNext fuel s now) := by
  intro fuel
  induction fuel with
  | zero => intro s _ hJ; exact J_qs (QS.emit s _ rfl) hJ
  | succ n ih =>
    intro s hs hJ
    rw [basePollNext_succ]
    have hb := J_bpStep hs hJ
    have hs' := (sinv_closed false now).bpStep s hs
    revert hb hs'
    generalize bpStep s now = p
    obtain ⟨s', r⟩ := p
    intro hb hs'
    cases r with
    | none => exact ih s' hs' hb
    | some r => cases r <;> exact hb

theorem baseStartSend_no_entry (s : St) (id : Nat) (res : Res) :
    ∀ en ∈ (baseStartSend s id res).1.inflight, en.id ≠ id := by
  unfold baseStartSend
  have hi := removeRequest_inflight s id
  revert hi
  generalize removeRequest s id = q
  obtain ⟨s1, f⟩ := q
  intro hi
  cases f
  · rcases hi with ⟨_, h, hf⟩ | ⟨h, _⟩
    · simp only at h; subst h; exact findEntry_none hf
    · cases h
  · rcases hi with ⟨h, _⟩ | ⟨_, h⟩
    · cases h
    · intro en hen
      simp only [tSend_inflight] at hen
      simp only at h
      rw [h] at hen
      simpa using (List.mem_filter.mp hen).2

theorem PostRd.none_of {b0 : Book} {now : Nat} {s : St} {r : SPoll Exec} (h : PostRd b0 now (s, r))
    (hr : ∀ ex, r ≠ .some ex) : J b0 now none s := by
  cases r with
  | some ex => exact absurd rfl (hr ex)
  | _ => exact h

theorem J_limitedLegacy {b0 : Book} (limit now : Nat) : ∀ (fuel : Nat) (s : St), SInv false now s → J b0 now none s →
    PostRd b0 now (limitedPollNextLegacy limit fuel s now) := by
  intro fuel
  induction fuel with
  | zero => intro s _ hJ; exact J_qs (QS.emit s _ rfl) hJ
  | succ n ih =>
    intro s hs hJ
    unfold limitedPollNextLegacy
    split
    · have ht := J_qs (qs_tReady s) hJ
      have hst := (sinv_closed false now).tReady s hs
      split
      · next s1 heq => rw [heq] at ht; exact ht
      · next s1 heq => rw [heq] at ht; exact ht
      · next s1 heq =>
        rw [heq] at ht hst
        have hb := J_basePollNext (baseFuel s1) s1 hst ht
        have hsb := (sinv_closed false now).basePollNext (baseFuel s1) s1 hst
        split
        · next s2 ex heq2 =>
          rw [heq2] at hb hsb
          have hsend := J_baseStartSend ex.id (.err throttleKindIdx) (show J b0 now (some (ex.rid, ex.id)) s2 from hb)
          have hno := baseStartSend_no_entry s2 ex.id (.err throttleKindIdx)
          have hss := (sinv_closed false now).baseStartSend s2 ex.id (.err throttleKindIdx) hsb
          have hnone := J_unpend hsend hno
          split
          · next s3 heq3 => rw [heq3] at hnone; exact hnone
          · next s3 r hne heq3 =>
            rw [heq3] at hnone hss
            exact ih _ ((sinv_closed false now).upd _ _ _ (fun e => ⟨rfl, rfl, rfl, rfl⟩) hss)
              (J_upd ex.rid _ (fun e => ⟨rfl, rfl, rfl, rfl, rfl, fun h => by cases h⟩) hnone)
        · next r hne =>
          revert hb hne
          generalize basePollNext (baseFuel s1) s1 now = p
          obtain ⟨s2, r2⟩ := p
          intro hb hne
          exact hb
    · exact J_basePollNext _ s hs hJ

theorem J_channelPollNext {b0 : Book} {now : Nat} {s : St} (hs : SInv false now s) (hJ : J b0 now none s)
    (hcfg : s.throttleAfterRead = false) : PostRd b0 now (channelPollNext s now) := by
  unfold channelPollNext
  split
  · exact J_basePollNext _ s hs hJ
  · simp only [hcfg]
    exact J_limitedLegacy _ now _ s hs hJ

theorem J_pumpWrite {b0 : Book} {now : Nat} {pend : Option (Nat × Nat)} {s : St} (rc : Bool) (hJ : J b0 now pend s) :
    J b0 now pend (pumpWrite s rc).1 := by
  unfold pumpWrite
  have h1 := J_qs (qs_ensureWriteable s) hJ
  split
  · next s1 heq => rw [heq] at h1; exact J_qs (qs_flushArm _ _) h1
  · next s1 a heq => rw [heq] at h1; exact h1
  · next s1 heq => rw [heq] at h1; exact h1
  · next s1 heq =>
    rw [heq] at h1
    split
    · next id res rest hq =>
      have h2 : J b0 now pend (rqRelease { s1 with respQ := rest }) := J_qs ((qs_rqRelease _).pre rfl rfl) h1
      have h3 := J_baseStartSend id res h2
      simp only
      split
      · next s3 heq3 => rw [heq3] at h3; exact h3
      · next s3 r hne heq3 => rw [heq3] at h3; exact h3
    · exact J_qs ((qs_flushArm _ _).pre rfl rfl) h1

theorem ensureOnce_ne_spin (s : St) : (ensureOnce s).2 ≠ .spin := by
  unfold ensureOnce
  (repeat' split) <;> simp

theorem flushArm_ne_spin (s : St) (rc : Bool) : (flushArm s rc).2 ≠ .spin := by
  unfold flushArm
  (repeat' split) <;> simp

theorem pumpWrite_ne_spin (s : St) (rc : Bool) (hel : s.ensureLoop = false) : (pumpWrite s rc).2 ≠ .spin := by
  unfold pumpWrite
  have he : (ensureWriteable s).2 ≠ .spin := by
    unfold ensureWriteable; simp only [hel]; exact ensureOnce_ne_spin s
  split
  · exact flushArm_ne_spin _ _
  · simp
  · next s1 heq => rw [heq] at he; exact absurd rfl he
  · split
    · simp only; split <;> simp
    · exact flushArm_ne_spin _ _

/-- postcondition of `Requests::poll_next` -/
def PostRq (b0 : Book) (now : Nat) : St × ReqPoll → Prop
  | (s', .item rid) => ∃ id, J b0 now (some (rid, id)) s'
  | (s', _) => J b0 now none s'

theorem J_requestsPollNext {b0 : Book} {now : Nat} : ∀ (fuel : Nat) (s : St), SInv false now s → J b0 now none s →
    s.throttleAfterRead = false → s.ensureLoop = false → PostRq b0 now (requestsPollNext fuel s now) := by
  intro fuel
  induction fuel with
  | zero => intro s _ hJ _ _; exact J_qs (QS.emit s _ rfl) hJ
  | succ n ih =>
    intro s hs hJ hcfg hel
    rw [requestsPollNext_succ]
    have hch := J_channelPollNext hs hJ hcfg
    have hsc := (sinv_closed false now).channelPollNext s hs
    have hc1 := (cfg_closed s now).channelPollNext s ⟨rfl, rfl, rfl, rfl⟩
    split
    · next s1 a heq => rw [heq] at hch; exact hch
    · next s1 heq => rw [heq] at hch; exact hch
    · next s1 read hne1 hne2 heq =>
      rw [heq] at hch hsc hc1
      have hel2 : (armRead s1 read).ensureLoop = false := by
        rw [(FlowMon.armRead_cfg s1 read).1, hc1.2.2.1]; exact hel
      have hcfg2 : (armRead s1 read).throttleAfterRead = false := by
        rw [(FlowMon.armRead_cfg s1 read).2, hc1.2.2.2]; exact hcfg
      have hsa : SInv false now (armRead s1 read) := by
        unfold armRead; split
        · exact (sinv_closed false now).upd _ _ _ (fun e => ⟨rfl, rfl, rfl, rfl⟩) hsc
        · exact hsc
      have hsp := (sinv_closed false now).pumpWrite (armRead s1 read) (readClosedOf read) hsa
      have hc3 := (cfg_closed (armRead s1 read) now).pumpWrite (armRead s1 read) (readClosedOf read) ⟨rfl, rfl, rfl, rfl⟩
      have hnsp := pumpWrite_ne_spin (armRead s1 read) (readClosedOf read) hel2
      cases read with
      | some ex =>
        have hp : J b0 now (some (ex.rid, ex.id)) (pumpWrite (armRead s1 (.some ex)) (readClosedOf (.some ex))).1 :=
          J_pumpWrite _ (J_qs (qs_armRead _ _) (show J b0 now (some (ex.rid, ex.id)) s1 from hch))
        split
        · next s3 a heq3 =>
          rw [heq3] at hp
          exact J_dropOffered ex.rid ex.id ex.id hp
        · next s3 heq3 => rw [heq3] at hnsp; exact absurd rfl hnsp
        · next s3 write hne3 hne4 heq3 =>
          rw [heq3] at hp
          split
          case h_2 exq heq' => cases heq'; exact ⟨ex.id, hp⟩
          case h_3 hx => exact (hx ex rfl).elim
          case h_4 _ hx _ => exact (hx ex rfl).elim
          all_goals (rename_i h; cases h)
      | err a => exact absurd rfl (hne1 a)
      | spin => exact absurd rfl hne2
      | pending =>
        have hp : J b0 now none (pumpWrite (armRead s1 .pending) (readClosedOf .pending)).1 :=
          J_pumpWrite _ (J_qs (qs_armRead _ _) (show J b0 now none s1 from hch))
        split
        · next s3 a heq3 => rw [heq3] at hp; exact hp
        · next s3 heq3 => rw [heq3] at hp; exact hp
        · next s3 write hne3 hne4 heq3 =>
          rw [heq3] at hp hsp hc3
          split
          · exact hp
          · next h => cases h
          · exact ih s3 hsp hp (hc3.2.2.2.trans hcfg2) (hc3.2.2.1.trans hel2)
          · exact hp
      | none =>
        have hp : J b0 now none (pumpWrite (armRead s1 .none) (readClosedOf .none)).1 :=
          J_pumpWrite _ (J_qs (qs_armRead _ _) (show J b0 now none s1 from hch))
        split
        · next s3 a heq3 => rw [heq3] at hp; exact hp
        · next s3 heq3 => rw [heq3] at hp; exact hp
        · next s3 write hne3 hne4 heq3 =>
          rw [heq3] at hp hsp hc3
          split
          · exact hp
          · next h => cases h
          · exact ih s3 hsp hp (hc3.2.2.2.trans hcfg2) (hc3.2.2.1.trans hel2)
          · exact hp


/-! ### the end of a poll: `yielded`, `ret`, `counts` -/

theorem step_yielded_view (b : Book) (r id d : Nat) (tr : Trace) :
    bview (b.step (.obs (.yielded r id d tr))) =
      { bview b with execs := (bview b).execs ++ [⟨r, id, d, b.now, false, false⟩],
                     table := (bview b).table.filter (·.1 != id) ++ [(id, r)] } := by
  simp [bview, Book.step, xb]

/-- the swept book (as the idle `ret` makes it), field by field -/
def sweptBook (b1 : Book) (l : Option Nat) : Book :=
  { b1.sweep with lastIdlePoll := l, idleNow := true, abandonOrder := [] }

theorem swept_now (b1 : Book) (l : Option Nat) : (sweptBook b1 l).now = b1.now := rfl
theorem swept_dropped (b1 : Book) (l : Option Nat) : (sweptBook b1 l).dropped = b1.dropped := rfl
theorem swept_spun (b1 : Book) (l : Option Nat) : (sweptBook b1 l).spun = b1.spun := rfl
theorem swept_ao (b1 : Book) (l : Option Nat) : (sweptBook b1 l).abandonOrder = [] := rfl
theorem swept_execs_eq (b1 : Book) (l : Option Nat) : (sweptBook b1 l).execs =
    b1.execs.map (fun e => if e.tick ≤ b1.now then { e with expiredSeen := true } else e) := rfl

/-- (generic in the condition, so that nothing ever tries to evaluate it) -/
theorem map_xb_ite (l : List BExec) (c : BExec → Prop) [DecidablePred c] (g : BExec → BExec)
    (hg : ∀ e, xb (g e) = xb e) : (l.map (fun e => if c e then g e else e)).map xb = l.map xb := by
  induction l with
  | nil => rfl
  | cons a l ih =>
    simp only [List.map_cons, ih]
    congr 1
    split
    · exact hg a
    · rfl

theorem swept_execs (b1 : Book) (l : Option Nat) : (sweptBook b1 l).execs.map xb = b1.execs.map xb := by
  rw [swept_execs_eq]
  exact map_xb_ite b1.execs (fun e => e.tick ≤ b1.now) (fun e => { e with expiredSeen := true }) (fun e => rfl)

theorem swept_table_sub (b1 : Book) (l : Option Nat) : List.Sublist (sweptBook b1 l).table b1.table := by
  show List.Sublist b1.sweep.table b1.table
  unfold Book.sweep
  exact List.filter_sublist

theorem swept_table_mem (b1 : Book) (l : Option Nat) (i r : Nat) (hm : (i, r) ∈ b1.table) :
    (i, r) ∈ (sweptBook b1 l).table ∨ ∃ e, b1.exec r = some e ∧ (e.tick ≤ b1.now ∨ e.abandoned = true) := by
  show (i, r) ∈ b1.sweep.table ∨ _
  unfold Book.sweep
  simp only [List.mem_filter]
  cases he : b1.exec r with
  | none => left; exact ⟨hm, by simp [he]⟩
  | some e =>
    by_cases hle : e.tick ≤ b1.now
    · exact Or.inr ⟨e, rfl, Or.inl hle⟩
    · cases ha : e.abandoned with
      | true => exact Or.inr ⟨e, rfl, Or.inr ha⟩
      | false => left; exact ⟨hm, by simp [he, hle, ha]⟩

theorem K_swept {now : Nat} {pend : Option (Nat × Nat)} {b1 : Book} {S : SV} (l : Option Nat)
    (h : K now pend (bview b1) S) : K now pend (bview (sweptBook b1 l)) S :=
  K_sweep h (swept_now b1 l) (swept_execs b1 l) (swept_table_sub b1 l) (swept_table_mem b1 l)
    (swept_ao b1 l) (fun hd => by rw [swept_dropped]; exact hd)

theorem step_ret_eq (b : Book) (k : Nat) (r : Ret) :
    b.step (.obs (.ret (.server k) r)) =
      (let b1 : Book := match r with
        | .readyNone => { b with justRead := none, streamDone := true, dropped := true }
        | .readyItemErr _ => { b with justRead := none, dropped := true }
        | _ => { b with justRead := none }
       if b1.topPoll && !b1.stalled && !b1.failed && (r == .pending || r == .readyNone) then sweptBook b1 (some b1.now)
       else b1) := by
  cases r <;> rfl

theorem K_ret_aux {now : Nat} {pend : Option (Nat × Nat)} {b1 : Book} {S : SV} (c : Bool)
    (h : K now pend (bview b1) S) : K now pend (bview (if c then sweptBook b1 (some b1.now) else b1)) S := by
  cases c
  · exact h
  · exact K_swept _ h

theorem K_step_ret {now : Nat} {pend : Option (Nat × Nat)} {b : Book} {S : SV} (k : Nat) (r : Ret)
    (h : K now pend (bview b) S) : K now pend (bview (b.step (.obs (.ret (.server k) r)))) S := by
  rw [step_ret_eq]
  cases r with
  | readyNone => exact K_ret_aux _ (K_bdropped h)
  | readyItemErr a => exact K_ret_aux _ (K_bdropped h)
  | pending => exact K_ret_aux _ h
  | readyOk => exact K_ret_aux _ h
  | readyErr a => exact K_ret_aux _ h
  | readyItem => exact K_ret_aux _ h

theorem ret_aux_dropped {b1 : Book} (c : Bool) (h : b1.dropped = true) :
    (if c then sweptBook b1 (some b1.now) else b1).dropped = true := by
  cases c
  · exact h
  · exact h

theorem step_ret_dropped (b : Book) (k : Nat) (r : Ret) (hr : r = .readyNone ∨ ∃ a, r = .readyItemErr a) :
    (b.step (.obs (.ret (.server k) r))).dropped = true := by
  rw [step_ret_eq]
  rcases hr with rfl | ⟨a, rfl⟩
  · exact ret_aux_dropped _ rfl
  · exact ret_aux_dropped _ rfl

theorem J_emit_ret {b0 : Book} {now : Nat} {pend : Option (Nat × Nat)} {s : St} (k : Nat) (r : Ret) (hJ : J b0 now pend s) :
    J b0 now pend (emit s (.ret (.server k) r)) := by
  unfold J
  have e1 : (emit s (.ret (.server k) r)).obs = .ret (.server k) r :: s.obs := rfl
  have e2 : sview (emit s (.ret (.server k) r)) = sview s := rfl
  rw [e1, bo_cons, e2]
  rcases hJ with h | h
  · exact Or.inl (step_spun_mono _ _ h)
  · exact Or.inr (K_step_ret k r h)

theorem bo_emit_ret_dropped (b0 : Book) (s : St) (k : Nat) (r : Ret) (hr : r = .readyNone ∨ ∃ a, r = .readyItemErr a) :
    (bo b0 (emit s (.ret (.server k) r)).obs).dropped = true :=
  step_ret_dropped _ k r hr

theorem step_counts_dropped (b : Book) (ep : TaskId) (a c : Nat) : (b.step (.obs (.counts ep a c))).dropped = b.dropped := by
  cases ep <;> rfl

theorem getExec_mem {s : St} {rid : Nat} {e : Exec} (h : getExec s rid = some e) : e ∈ s.execs ∧ e.rid = rid := by
  unfold getExec at h
  exact ⟨List.mem_of_find?_eq_some h, by simpa using List.find?_some h⟩

/-- the started request is handed out -/
theorem J_yield {b0 : Book} {now : Nat} {s : St} {rid id : Nat} {e : Exec} (hg : getExec s rid = some e)
    (hJ : J b0 now (some (rid, id)) s) :
    J b0 now none (emit (updExec { s with nextVis := s.nextVis + 1 } rid (fun x => { x with vis := some s.nextVis }))
      (.yielded s.nextVis e.id e.deadline e.trace)) := by
  obtain ⟨hem, her⟩ := getExec_mem hg
  unfold J
  show ((bo b0 s.obs).step (.obs (.yielded s.nextVis e.id e.deadline e.trace))).spun = true ∨ _
  rcases hJ with h | h
  · exact Or.inl (step_spun_mono _ _ h)
  · right
    obtain ⟨_, x0, hx0, hr0, hid0, _⟩ := h.pnd rid id rfl
    have hxe : xe e = x0 := eq_of_rid_nodup h.ridNodup (List.mem_map_of_mem hem) hx0 (her.trans hr0.symm)
    have hid : e.id = id := by rw [← hid0, ← hxe]; rfl
    show K now none (bview ((bo b0 s.obs).step (.obs (.yielded s.nextVis e.id e.deadline e.trace)))) _
    rw [step_yielded_view, hid]
    refine h.yield e.deadline ?_ ?_ rfl rfl rfl rfl
    · intro x hx hr
      have : x = xe e := eq_of_rid_nodup h.ridNodup hx (List.mem_map_of_mem hem) (hr.trans her.symm)
      rw [this]; rfl
    · show (List.map (fun e' => if e'.rid == rid then { e' with vis := some s.nextVis } else e') s.execs).map xe = _
      simp only [sview, List.map_map]
      apply List.map_congr_left
      intro e' _
      simp only [Function.comp]
      have hxr : (xe e').rid = e'.rid := rfl
      by_cases hc : (e'.rid == rid) = true
      · rw [if_pos hc, if_pos (by rw [hxr]; exact hc)]; rfl
      · rw [if_neg hc, if_neg (by rw [hxr]; exact hc)]

theorem J_pskFinish {b0 : Book} {now : Nat} {s : St} {r : ReqPoll} (h : PostRq b0 now (s, r)) :
    J b0 now none (pskFinish s r) ∧
    ((r = .none ∨ ∃ a, r = .err a) → (bo b0 (pskFinish s r).obs).spun = true ∨ (bo b0 (pskFinish s r).obs).dropped = true) := by
  have hfin : ∀ (s1 : St) (rt : Ret), J b0 now none s1 →
      J b0 now none (emit (emit s1 (.ret (tid s1) rt)) (.counts (tid s1) s1.inflight.length s1.timers.len)) :=
    fun s1 rt h1 => J_qs (QS.emit _ _ rfl) (J_emit_ret _ rt h1)
  have hdrop : ∀ (s1 : St) (rt : Ret), (rt = .readyNone ∨ ∃ a, rt = .readyItemErr a) →
      (bo b0 (emit (emit s1 (.ret (tid s1) rt)) (.counts (tid s1) s1.inflight.length s1.timers.len)).obs).dropped = true := by
    intro s1 rt hrt
    have e1 : (emit (emit s1 (.ret (tid s1) rt)) (.counts (tid s1) s1.inflight.length s1.timers.len)).obs =
        .counts (tid s1) s1.inflight.length s1.timers.len :: (emit s1 (.ret (tid s1) rt)).obs := rfl
    rw [e1, bo_cons, step_counts_dropped]
    exact bo_emit_ret_dropped b0 s1 _ rt hrt
  cases r with
  | pending => exact ⟨hfin s .pending h, fun hr => by rcases hr with hr | ⟨a, hr⟩ <;> cases hr⟩
  | spin => exact ⟨hfin s .pending h, fun hr => by rcases hr with hr | ⟨a, hr⟩ <;> cases hr⟩
  | none =>
    refine ⟨hfin { s with done := some .readyNone } .readyNone (J_qs (QS.of_eq rfl rfl) h), fun _ => Or.inr ?_⟩
    exact hdrop { s with done := some .readyNone } .readyNone (Or.inl rfl)
  | err a =>
    refine ⟨hfin { s with done := some (.readyItemErr a) } (.readyItemErr a) (J_qs (QS.of_eq rfl rfl) h), fun _ => Or.inr ?_⟩
    exact hdrop { s with done := some (.readyItemErr a) } (.readyItemErr a) (Or.inr ⟨a, rfl⟩)
  | item rid =>
    refine ⟨?_, fun hr => by rcases hr with hr | ⟨a, hr⟩ <;> cases hr⟩
    obtain ⟨id, hJ⟩ := h
    simp only [pskFinish, pskRet]
    split
    · next e he => exact hfin _ .readyItem (J_yield he hJ)
    · next he =>
      refine hfin s .readyItem ?_
      rcases hJ with hs | hK
      · exact Or.inl hs
      · exfalso
        obtain ⟨_, x0, hx0, hr0, _, _⟩ := hK.pnd rid id rfl
        obtain ⟨e, hem, rfl⟩ := List.mem_map.mp hx0
        unfold getExec at he
        have := List.find?_eq_none.mp he e hem
        simp at this
        exact this hr0

/-! ### the request stream is dropped -/

theorem ext_foldl_abort (es : List SEntry) (s : St) : Ext s (es.foldl (fun s e => abortExec s e.rid) s) := by
  induction es generalizing s with
  | nil => exact Ext.refl s
  | cons e es ih => exact (ext_abortExec s e.rid).trans (ih _)

theorem est_foldl_abort (es : List SEntry) (s : St) : ESt (fun _ => True) s (es.foldl (fun s e => abortExec s e.rid) s) := by
  induction es generalizing s with
  | nil => exact ESt.refl _ s
  | cons e es ih => exact ((est_abortExec s e.rid).trans (ih _)).mono (fun _ _ => trivial)

theorem qs_foldl_wake (ws : List Nat) (s : St) : QS s (ws.foldl wakeExec s) := by
  induction ws generalizing s with
  | nil => exact QS.refl s
  | cons w ws ih => exact (qs_wakeExec s w).trans (ih _)

theorem est_foldl_wake (ws : List Nat) (s : St) : ESt (fun _ => False) s (ws.foldl wakeExec s) := by
  induction ws generalizing s with
  | nil => exact ESt.refl _ s
  | cons w ws ih => exact ((est_wakeExec (fun _ => False) s w).trans (ih _)).mono (fun _ h => h.elim id id)

theorem ext_dropServer (s : St) : Ext s (dropServer s) := by
  unfold dropServer
  split
  · exact Ext.emit s _ rfl
  · simp only
    have h1 : Ext s (s.inflight.foldl (fun s e => abortExec s e.rid) { s with dropped := true, woken := false }) :=
      (ext_foldl_abort _ _).pre rfl
    generalize (s.inflight.foldl (fun s e => abortExec s e.rid) { s with dropped := true, woken := false }) = s1 at h1 ⊢
    have h2 : Ext s1 (s1.rqWaiters.foldl wakeExec { s1 with rqWaiters := [] }) := (qs_foldl_wake _ _).1.pre rfl
    generalize (s1.rqWaiters.foldl wakeExec { s1 with rqWaiters := [] }) = s2 at h2 ⊢
    exact (h1.trans h2).trans (Ext.of_eq rfl)

theorem est_dropServer (s : St) : ESt (fun _ => True) s (dropServer s) := by
  unfold dropServer
  split
  · exact ESt.of_eq rfl
  · simp only
    have h1 : ESt (fun _ => True) s (s.inflight.foldl (fun s e => abortExec s e.rid) { s with dropped := true, woken := false }) := by
      obtain ⟨g, hg, hi, ha⟩ := est_foldl_abort s.inflight { s with dropped := true, woken := false }
      exact ⟨g, hg, hi, ha⟩
    generalize (s.inflight.foldl (fun s e => abortExec s e.rid) { s with dropped := true, woken := false }) = s1 at h1
    have h2 : ESt (fun _ => False) s1 (s1.rqWaiters.foldl wakeExec { s1 with rqWaiters := [] }) := by
      obtain ⟨g, hg, hi, ha⟩ := est_foldl_wake s1.rqWaiters { s1 with rqWaiters := [] }
      exact ⟨g, hg, hi, ha⟩
    obtain ⟨g, hg, hi, ha⟩ := (h1.trans h2).mono (fun _ _ => trivial)
    exact ⟨g, hg, hi, ha⟩

theorem dropServer_inflight_sub (s : St) : ∀ en ∈ (dropServer s).inflight, en ∈ s.inflight := by
  unfold dropServer
  split
  · intro en hen; exact hen
  · intro en hen; cases hen

theorem J_dropServer {b0 : Book} {now : Nat} {pend : Option (Nat × Nat)} {s : St} (hJ : J b0 now pend s)
    (hd : (bo b0 s.obs).spun = true ∨ (bo b0 s.obs).dropped = true) : J b0 now pend (dropServer s) := by
  rcases hd with hd | hd
  · rcases bo_ext b0 (ext_dropServer s) with h | ⟨_, h⟩
    · exact Or.inl h
    · exact Or.inl (h.trans hd)
  · refine J_ext (ext_dropServer s) hJ (fun hK => ?_)
    refine K_model_st hK (est_dropServer s) (fun e _ _ => Or.inr (Or.inl hd)) ?_ (by simp) (fun _ => Or.inr hd) (Or.inl rfl)
    intro en hen
    obtain ⟨x, hx, rfl⟩ := List.mem_map.mp hen
    exact List.mem_map_of_mem (dropServer_inflight_sub s x hx)

/-! ### one poll of the request stream by the application -/

/-- between ops: the coupling holds with nothing pending — or the channel is poisoned (it is never polled again; a
request it had started stays pending for ever) -/
def JP (b0 : Book) (now : Nat) (s : St) : Prop :=
  J b0 now none s ∨ (s.poisoned = true ∧ ∃ pend, J b0 now pend s)

theorem J_pollServerKeep {b0 : Book} {now : Nat} {s : St} (hs : SInv false now s) (hJ : JP b0 now s)
    (hcfg : s.throttleAfterRead = false) (hel : s.ensureLoop = false) :
    JP b0 now (pollServerKeep s now) ∧
    ((pollServerKeep s now).done.isSome = true → s.done.isSome = true ∨
      (bo b0 (pollServerKeep s now).obs).spun = true ∨ (bo b0 (pollServerKeep s now).obs).dropped = true) := by
  rw [pollServerKeep_eq]
  split
  · refine ⟨?_, fun h => Or.inl h⟩
    rcases hJ with h | ⟨hp, pend, h⟩
    · exact Or.inl (J_qs (QS.emit s _ rfl) h)
    · exact Or.inr ⟨hp, pend, J_qs (QS.emit s _ rfl) h⟩
  · next hl =>
    simp only [Bool.or_eq_true, not_or, Bool.not_eq_true] at hl
    have hJ0 : J b0 now none { s with woken := false } := by
      rcases hJ with h | ⟨hp, _⟩
      · exact J_qs (QS.of_eq rfl rfl) h
      · rw [hl.2] at hp; cases hp
    have hs0 : SInv false now { s with woken := false } :=
      (sinv_closed false now).inert s _ (by constructor <;> rfl) hs
    have hp := J_requestsPollNext (pollFuel { s with woken := false }) { s with woken := false } hs0 hJ0 hcfg hel
    have hdd := (dd_closed s.done s.dropped now).requestsPollNext (pollFuel { s with woken := false })
      { s with woken := false } ⟨rfl, rfl⟩
    revert hp hdd
    generalize requestsPollNext (pollFuel { s with woken := false }) { s with woken := false } now = p
    obtain ⟨s1, r⟩ := p
    intro hp hdd
    simp only at hdd ⊢
    split
    · refine ⟨Or.inl (Or.inl ?_), fun h => Or.inl (by rw [← hdd.1]; exact h)⟩
      show ((bo b0 s.obs).step (.obs (.spin (tid s1)))).spun = true
      rfl
    · split
      · next hpo =>
        refine ⟨?_, fun h => Or.inl (by rw [← hdd.1]; exact h)⟩
        cases r with
        | item rid => obtain ⟨id, h⟩ := hp; exact Or.inr ⟨hpo, _, h⟩
        | pending => exact Or.inl hp
        | none => exact Or.inl hp
        | err a => exact Or.inl hp
        | spin => exact Or.inl hp
      · obtain ⟨h1, h2⟩ := J_pskFinish hp
        refine ⟨Or.inl h1, fun hdone => ?_⟩
        rw [pskFinish_done, pskRet_done] at hdone
        cases r with
        | none => exact Or.inr (h2 (Or.inl rfl))
        | err a => exact Or.inr (h2 (Or.inr ⟨a, rfl⟩))
        | pending => left; rw [← hdd.1]; exact hdone
        | spin => left; rw [← hdd.1]; exact hdone
        | item rid => left; rw [← hdd.1]; exact hdone

theorem J_pollServer {b0 : Book} {now : Nat} {s : St} (hs : SInv false now s) (hdd : DoneDropped s) (hJ : JP b0 now s)
    (hcfg : s.throttleAfterRead = false) (hel : s.ensureLoop = false) : JP b0 now (pollServer s now) := by
  obtain ⟨hk, hdone⟩ := J_pollServerKeep hs hJ hcfg hel
  unfold pollServer
  simp only
  split
  · next hc =>
    simp only [Bool.and_eq_true, Bool.not_eq_true'] at hc
    have hd : (bo b0 (pollServerKeep s now).obs).spun = true ∨ (bo b0 (pollServerKeep s now).obs).dropped = true := by
      rcases hdone hc.1 with h | h
      · -- the stream had ended before: it has been dropped, the poll did nothing
        exfalso
        have hdr := hdd h
        have : pollServerKeep s now = emit s .noop := pollServerKeep_dead s now (by simp [hdr])
        rw [this] at hc
        simp only [emit_dropped, hdr] at hc
        exact absurd hc.2 (by simp)
      · exact h
    rcases hk with h | ⟨hp, pend, h⟩
    · exact Or.inl (J_dropServer h hd)
    · exact Or.inr ⟨by simp [hp], pend, J_dropServer h hd⟩
  · split
    · rcases hk with h | ⟨hp, pend, h⟩
      · exact Or.inl (J_qs (QS.of_eq rfl rfl) h)
      · exact Or.inr ⟨hp, pend, J_qs (QS.of_eq rfl rfl) h⟩
    · exact hk

/-! ## the execution-side ops -/

/-- the executions keep rid / id / deadline / vis / aborted; only those with rid `r` may change liveness; table,
numbering and `dropped` are unchanged -/
def LD (r : Nat) (s s' : St) : Prop :=
  (∃ g, s'.execs = s.execs.map g ∧ ∀ e, (g e).rid = e.rid ∧ (g e).id = e.id ∧ (g e).deadline = e.deadline ∧
    (g e).vis = e.vis ∧ (g e).aborted = e.aborted ∧ (e.rid ≠ r → execLive (g e) = execLive e)) ∧
  s'.inflight = s.inflight ∧ s'.nextVis = s.nextVis ∧ s'.dropped = s.dropped

theorem LD.refl (r : Nat) (s : St) : LD r s s :=
  ⟨⟨id, by simp, fun e => ⟨rfl, rfl, rfl, rfl, rfl, fun _ => rfl⟩⟩, rfl, rfl, rfl⟩

theorem LD.of_eq {r : Nat} {s s' : St} (h1 : s'.execs = s.execs) (h2 : s'.inflight = s.inflight)
    (h3 : s'.nextVis = s.nextVis) (h4 : s'.dropped = s.dropped) : LD r s s' :=
  ⟨⟨id, by simp [h1], fun e => ⟨rfl, rfl, rfl, rfl, rfl, fun _ => rfl⟩⟩, h2, h3, h4⟩

theorem LD.trans {r : Nat} {a b c : St} (h1 : LD r a b) (h2 : LD r b c) : LD r a c := by
  obtain ⟨⟨g1, e1, p1⟩, i1, n1, d1⟩ := h1
  obtain ⟨⟨g2, e2, p2⟩, i2, n2, d2⟩ := h2
  refine ⟨⟨g2 ∘ g1, by rw [e2, e1, List.map_map], fun e => ?_⟩, i2.trans i1, n2.trans n1, d2.trans d1⟩
  obtain ⟨a1, a2, a3, a4, a5, a6⟩ := p1 e
  obtain ⟨b1, b2, b3, b4, b5, b6⟩ := p2 (g1 e)
  exact ⟨b1.trans a1, b2.trans a2, b3.trans a3, b4.trans a4, b5.trans a5,
    fun hne => (b6 (by rw [a1]; exact hne)).trans (a6 hne)⟩

theorem LD.pre {r : Nat} {s s0 s' : St} (h : LD r s0 s') (h1 : s0.execs = s.execs) (h2 : s0.inflight = s.inflight)
    (h3 : s0.nextVis = s.nextVis) (h4 : s0.dropped = s.dropped) : LD r s s' := (LD.of_eq h1 h2 h3 h4).trans h

theorem ld_emit (r : Nat) (s : St) (o : Obs) : LD r s (emit s o) := LD.of_eq rfl rfl rfl rfl

/-- an update of the executions with rid `r'`: any change of phase if `r' = r`, none otherwise -/
theorem ld_updExec (r r' : Nat) (s : St) (f : Exec → Exec)
    (hf : ∀ e, (f e).rid = e.rid ∧ (f e).id = e.id ∧ (f e).deadline = e.deadline ∧ (f e).vis = e.vis ∧
      (f e).aborted = e.aborted)
    (hl : r' ≠ r → ∀ e, execLive (f e) = execLive e) : LD r s (updExec s r' f) := by
  refine ⟨⟨fun e => if e.rid == r' then f e else e, rfl, fun e => ?_⟩, rfl, rfl, rfl⟩
  by_cases he : e.rid = r'
  · simp only []
    rw [if_pos (by simpa using he)]
    obtain ⟨h1, h2, h3, h4, h5⟩ := hf e
    exact ⟨h1, h2, h3, h4, h5, fun hne => hl (fun h => hne (he.trans h)) e⟩
  · simp only []
    rw [if_neg (by simpa using he)]
    exact ⟨rfl, rfl, rfl, rfl, rfl, fun _ => rfl⟩

theorem ld_wakeServer (r : Nat) (s : St) : LD r s (wakeServer s) := LD.of_eq (by simp) (by simp) (by simp) (by simp)

/-- the update in the goal concerns the rid `r` itself -/
macro "ld_upd_r" : tactic =>
  `(tactic| (refine ld_updExec _ _ _ _ ?_ ?_; (exact fun x => ⟨rfl, rfl, rfl, rfl, rfl⟩); (exact fun h => absurd rfl h)))

theorem ld_wakeExec (r : Nat) (s : St) (w : Nat) : LD r s (wakeExec s w) := by
  unfold wakeExec; repeat' split
  all_goals first
    | exact LD.refl r s
    | (refine LD.trans ?_ (ld_emit r _ _)
       refine ld_updExec _ _ _ _ ?_ ?_
       · exact fun x => ⟨rfl, rfl, rfl, rfl, rfl⟩
       · exact fun _ e => rfl)

theorem ld_rqRelease (r : Nat) (s : St) : LD r s (rqRelease s) := by
  unfold rqRelease; split
  · exact (ld_wakeExec r _ _).pre rfl rfl rfl rfl
  · exact LD.of_eq rfl rfl rfl rfl

theorem ld_guardDrop (r : Nat) (s : St) (e : Exec) : LD r s (guardDrop s e) := by
  unfold guardDrop; split
  · simp only; split
    · exact (ld_wakeServer r _).pre rfl rfl rfl rfl
    · exact LD.of_eq rfl rfl rfl rfl
  · exact LD.refl r s

theorem ld_queueAndFinish (s : St) (e : Exec) (res : Res) (n : Nat) : LD e.rid s (queueAndFinish s e res n) := by
  unfold queueAndFinish
  simp only
  refine LD.trans ?_ (ld_emit _ _ _)
  have h0 : LD e.rid s (if s.dropped = true then s else
      if s.rqRxWaker = true then wakeServer { s with respQ := s.respQ ++ [(e.id, res)], rqRxWaker := false }
      else { s with respQ := s.respQ ++ [(e.id, res)] }) := by
    split
    · exact LD.refl _ s
    · split
      · exact (ld_wakeServer _ _).pre rfl rfl rfl rfl
      · exact LD.of_eq rfl rfl rfl rfl
  refine h0.trans ?_
  ld_upd_r

theorem ld_trySend (s : St) (e : Exec) (res : Res) (n : Nat) : LD e.rid s (trySend s e res n) := by
  unfold trySend
  split
  · exact ld_queueAndFinish s e res n
  · split
    · exact (ld_queueAndFinish _ e res n).pre rfl rfl rfl rfl
    · split
      · refine LD.trans ?_ (ld_emit _ _ _)
        ld_upd_r
      · split
        · exact (ld_queueAndFinish _ e res n).pre rfl rfl rfl rfl
        · refine LD.trans ?_ (ld_emit _ _ _)
          refine LD.pre (s0 := { s with rqWaiters := s.rqWaiters ++ [e.rid] }) ?_ rfl rfl rfl rfl
          ld_upd_r

theorem getExecVis_mem {s : St} {v : Nat} {e : Exec} (h : getExecVis s v = some e) : e ∈ s.execs ∧ e.vis = some v := by
  unfold getExecVis at h
  exact ⟨List.mem_of_find?_eq_some h, by simpa using List.find?_some h⟩

/-- `poll-exec v`: nothing, or the execution numbered `v` (live) moves on -/
theorem ld_pollExec (s : St) (vid n : Nat) :
    LD s.execs.length s (pollExec s vid n) ∨
    ∃ e, getExecVis s vid = some e ∧ execLive e = true ∧ LD e.rid s (pollExec s vid n) := by
  unfold pollExec
  split
  · exact Or.inl (ld_emit _ _ _)
  · next e hg =>
    simp only
    split
    · exact Or.inl (ld_emit _ _ _)
    · next hl =>
      right
      refine ⟨e, hg, by simpa using hl, ?_⟩
      have h0 : LD e.rid s (updExec s e.rid (fun x => { x with woken := false })) := by ld_upd_r
      refine h0.trans ?_
      generalize updExec s e.rid (fun x => { x with woken := false }) = s0
      split
      · refine LD.trans ?_ (ld_emit _ _ _)
        refine LD.trans ?_ (by ld_upd_r)
        split
        · split
          · exact (ld_rqRelease _ _).pre rfl rfl rfl rfl
          · exact LD.of_eq rfl rfl rfl rfl
        · split
          · exact LD.refl _ _
          · exact ld_emit _ _ _
      · split
        · split
          · exact ld_trySend _ _ _ _
          · exact ld_emit _ _ _
        · have h1 : LD e.rid s0 (emit (updExec s0 e.rid (fun x => { x with phase := .running })) (.handler vid .polled n)) := by
            refine LD.trans ?_ (ld_emit _ _ _)
            ld_upd_r
          refine h1.trans ?_
          generalize emit (updExec s0 e.rid (fun x => { x with phase := .running })) (.handler vid .polled n) = s1
          split
          · refine LD.trans ?_ (ld_trySend _ { e with hDone := true, phase := .running } _ _)
            refine LD.trans (b := emit s1 (.handler vid .completed n)) (ld_emit _ _ _) ?_
            ld_upd_r
          · refine LD.trans ?_ (ld_emit _ _ _)
            ld_upd_r

theorem guardDrop_execs (s : St) (e : Exec) : (guardDrop s e).execs = s.execs := by
  unfold guardDrop; split
  · simp only; split <;> simp
  · rfl

/-- `drop-exec v`: nothing (no such execution, or it is not live), or the execution numbered `v` is gone -/
theorem ld_dropExec (s : St) (vid n : Nat) :
    (LD s.execs.length s (dropExec s vid n) ∧ ∀ e, getExecVis s vid = some e → execLive e = false) ∨
    ∃ e, getExecVis s vid = some e ∧ execLive e = true ∧ LD e.rid s (dropExec s vid n) ∧
      ∀ e' ∈ (dropExec s vid n).execs, e'.rid = e.rid → execLive e' = false := by
  unfold dropExec
  split
  · next hn => exact Or.inl ⟨ld_emit _ _ _, fun e he => by rw [hn] at he; cases he⟩
  · next e hg =>
    simp only
    split
    · next hl =>
      refine Or.inl ⟨ld_emit _ _ _, fun e' he' => ?_⟩
      rw [hg] at he'; cases he'
      simpa using hl
    · next hl =>
      right
      refine ⟨e, hg, by simpa using hl, ?_, ?_⟩
      · refine LD.trans ?_ (ld_guardDrop _ _ _)
        refine LD.trans ?_ (by ld_upd_r)
        split
        · split
          · exact LD.refl _ _
          · exact ld_emit _ _ _
        · split
          · exact (ld_rqRelease _ _).pre rfl rfl rfl rfl
          · exact LD.of_eq rfl rfl rfl rfl
        · exact LD.refl _ _
      · intro e' he' hr
        rw [guardDrop_execs] at he'
        simp only [updExec] at he'
        obtain ⟨e0, _, rfl⟩ := List.mem_map.mp he'
        by_cases h0 : e0.rid = e.rid
        · rw [if_pos (by simpa using h0)]; rfl
        · rw [if_neg (by simpa using h0)] at hr; exact absurd hr h0

theorem ld_finishHandler (r : Nat) (s : St) (vid : Nat) (res : Res) : LD r s (finishHandler s vid res) := by
  unfold finishHandler
  split
  · exact ld_emit _ _ _
  · simp only
    split
    · exact ld_emit _ _ _
    · have h0 : LD r s (updExec s ‹Exec›.rid (fun x => { x with finishCmd := some res })) := by
        refine ld_updExec _ _ _ _ ?_ ?_
        · exact fun x => ⟨rfl, rfl, rfl, rfl, rfl⟩
        · exact fun _ e => rfl
      split
      · exact h0.trans (ld_wakeExec _ _ _)
      · exact h0

/-- the coupling under an `LD` step: the executions with rid `r` were live before it -/
theorem K_of_LD {now : Nat} {pend : Option (Nat × Nat)} {B : BV} {s s' : St} {r : Nat}
    (h : K now pend B (sview s)) (hl : LD r s s') (hlive : ∀ e ∈ s.execs, e.rid = r → execLive e = true) :
    K now pend B (sview s') := by
  obtain ⟨⟨g, hg, hid⟩, hin, hnv, hdr⟩ := hl
  have hnd : (s.execs.map (·.rid)).Nodup := by
    have := h.ridNodup
    have heq : (sview s).execs.map (·.rid) = s.execs.map (·.rid) := by
      simp only [sview, List.map_map]; rfl
    rw [heq] at this; exact this
  let gx : XE → XE := fun x => match s.execs.find? (·.rid == x.rid) with
    | some e => xe (g e)
    | none => x
  have hgx : ∀ e ∈ s.execs, gx (xe e) = xe (g e) := by
    intro e he
    simp only [gx]
    rw [show (xe e).rid = e.rid from rfl, find_rid_nodup hnd he]
  have hex : (sview s').execs = (sview s).execs.map gx := by
    simp only [sview, hg, List.map_map]
    apply List.map_congr_left
    intro e he
    simp only [Function.comp]
    exact (hgx e he).symm
  refine h.model gx hex ?_ ?_ (by intro en hen; simp only [sview] at hen ⊢; rw [hin] at hen; exact hen)
    (by simp only [sview]; exact hnv) (fun hd => Or.inl (by simp only [sview] at hd ⊢; rw [← hdr]; exact hd)) (Or.inl rfl)
  · intro x hx
    obtain ⟨e, he, rfl⟩ := List.mem_map.mp hx
    rw [hgx e he]
    obtain ⟨h1, h2, h3, h4, h5, h6⟩ := hid e
    refine ⟨h1, h2, h3, h4, fun hlg => ?_⟩
    by_cases hr : e.rid = r
    · exact hlive e he hr
    · show execLive e = true
      rw [← h6 hr]; exact hlg
  · intro x hx ha
    obtain ⟨e, he, rfl⟩ := List.mem_map.mp hx
    rw [hgx e he] at ha
    left
    show e.aborted = true
    rw [← (hid e).2.2.2.2.1]; exact ha

theorem isCore_execQuiet : ExecQuiet isCore :=
  ⟨⟨⟨fun _ => rfl, rfl, fun _ _ => rfl⟩, fun _ _ => rfl⟩, fun _ _ _ => rfl⟩

/-- from an empty observation buffer, an op that emits no core observation extends it quietly -/
theorem ext_of_nil {s s' : St} (h0 : s.obs = []) (hf : s'.obs.filter isCore = s.obs.filter isCore) : Ext s s' := by
  refine ⟨s'.obs, by rw [h0]; simp, fun o ho => ?_⟩
  rw [h0] at hf
  have := List.filter_eq_nil_iff.mp hf o ho
  simpa using this

/-! ## between ops: `endOp`, the op events -/

theorem find_nodup {α : Type} (f : α → Nat) {l : List α} (h : (l.map f).Nodup) {a : α} (ha : a ∈ l) :
    l.find? (fun x => f x == f a) = some a := by
  induction l with
  | nil => cases ha
  | cons b l ih =>
    simp only [List.map_cons, List.nodup_cons, List.mem_map, not_exists, not_and] at h
    rcases List.mem_cons.mp ha with rfl | ha'
    · simp
    · have hne : f b ≠ f a := fun heq => h.1 a ha' heq.symm
      rw [List.find?_cons_of_neg (by simpa using hne)]
      exact ih h.2 ha'

theorem BV.ext' (B B' : BV) (h1 : B.now = B'.now) (h2 : B.execs = B'.execs) (h3 : B.table = B'.table)
    (h4 : B.ao = B'.ao) (h5 : B.dropped = B'.dropped) : B = B' := by
  cases B; cases B'; simp_all

theorem endOp_now (b : Book) : b.endOp.now = b.now := by
  unfold Book.endOp; simp only []; (repeat' split) <;> rfl
theorem endOp_table (b : Book) : b.endOp.table = b.table := by
  unfold Book.endOp; simp only []; (repeat' split) <;> rfl
theorem endOp_dropped (b : Book) : b.endOp.dropped = b.dropped := by
  unfold Book.endOp; simp only []; (repeat' split) <;> rfl
theorem endOp_curDropExec (b : Book) : b.endOp.curDropExec = none := by
  unfold Book.endOp; rfl

theorem endOp_execs_none (b : Book) (hc : b.curDropExec = none) : b.endOp.execs = b.execs := by
  unfold Book.endOp; simp only [hc]
theorem endOp_ao_none (b : Book) (hc : b.curDropExec = none) : b.endOp.abandonOrder = b.abandonOrder := by
  unfold Book.endOp; simp only [hc]

theorem endOp_execs_some (b : Book) (r : Nat) (hc : b.curDropExec = some r) :
    b.endOp.execs = (b.updExec r (fun e => if e.gone then e else { e with gone := true, abandoned := true })).execs := by
  unfold Book.endOp; simp only [hc]; (repeat' split) <;> rfl

theorem endOp_ao_some (b : Book) (r : Nat) (hc : b.curDropExec = some r) :
    b.endOp.abandonOrder =
      if (match b.exec r with | some e => !e.gone | none => false) then b.abandonOrder ++ [r] else b.abandonOrder := by
  unfold Book.endOp; simp only [hc]
  cases he : b.exec r with
  | none => rfl
  | some e => cases hg : e.gone <;> simp [hg, Book.updExec]

theorem endOp_view_none (b : Book) (hc : b.curDropExec = none) : bview b.endOp = bview b :=
  BV.ext' _ _ (endOp_now b) (by simp only [bview]; rw [endOp_execs_none b hc]) (endOp_table b)
    (endOp_ao_none b hc) (endOp_dropped b)

theorem endOp_view_some (b : Book) (r : Nat) (hc : b.curDropExec = some r) (hnd : (b.execs.map (·.rid)).Nodup) :
    bview b.endOp = { bview b with
      execs := (bview b).execs.map (fun y => if y.rid == r && (match b.exec r with | some e => !e.gone | none => false)
        then { y with abandoned := true } else y),
      ao := if (match b.exec r with | some e => !e.gone | none => false) then b.abandonOrder ++ [r] else b.abandonOrder } := by
  refine BV.ext' _ _ (endOp_now b) ?_ (endOp_table b) (endOp_ao_some b r hc) (endOp_dropped b)
  simp only [bview]
  rw [endOp_execs_some b r hc]
  simp only [Book.updExec, List.map_map]
  apply List.map_congr_left
  intro e he
  simp only [Function.comp]
  have hxr : (xb e).rid = e.rid := rfl
  by_cases her : e.rid = r
  · have hfe : b.exec r = some e := by
      have := find_nodup (·.rid) hnd he
      unfold Book.exec
      rw [← her]; exact this
    rw [if_pos (by simpa using her), hfe]
    cases hg : e.gone with
    | true => simp [hg]
    | false => simp [hg, hxr, her, xb]
  · rw [if_neg (by simpa using her)]
    simp [hxr, her]

theorem K_endOp {now : Nat} {pend : Option (Nat × Nat)} {b : Book} {S : SV} (h : K now pend (bview b) S)
    (hcd : ∀ r, b.curDropExec = some r → ∀ x ∈ S.execs, x.vis = some r → x.live = false) :
    K now pend (bview b.endOp) S := by
  cases hc : b.curDropExec with
  | none => rw [endOp_view_none b hc]; exact h
  | some r =>
    have hnd : (b.execs.map (·.rid)).Nodup := by
      have := h.bNodup
      have heq : (bview b).execs.map (·.rid) = b.execs.map (·.rid) := by simp only [bview, List.map_map]; rfl
      rw [heq] at this; exact this
    rw [endOp_view_some b r hc hnd]
    generalize hfr : (match b.exec r with | some e => !e.gone | none => false) = fr
    refine h.book _ rfl rfl (fun y => ?_) (fun y _ ha => ?_) (List.Sublist.refl _) (fun p hp => Or.inl hp) ?_ (fun hd => hd)
    · by_cases hcond : (y.rid == r && fr) = true
      · rw [if_pos hcond]; exact ⟨rfl, rfl, rfl, rfl, fun h => h, fun _ => rfl⟩
      · rw [if_neg hcond]; exact ⟨rfl, rfl, rfl, rfl, fun h => h, fun h => h⟩
    · by_cases hcond : (y.rid == r && fr) = true
      · simp only [Bool.and_eq_true, beq_iff_eq] at hcond
        right
        intro x hx hv
        exact hcd r hc x hx (by rw [← hcond.1]; exact hv)
      · rw [if_neg hcond] at ha
        exact Or.inl ha
    · intro r' hr'
      have hr'' : r' ∈ (if fr then b.abandonOrder ++ [r] else b.abandonOrder) := hr'
      cases hfv : fr with
      | false =>
        rw [hfv] at hr''
        exact Or.inl hr''
      | true =>
        rw [hfv] at hr''
        simp only [if_true, List.mem_append, List.mem_singleton] at hr''
        rcases hr'' with h1 | h1
        · exact Or.inl h1
        · right
          subst h1
          cases he : b.exec r' with
          | none => rw [he] at hfr; rw [hfv] at hfr; cases hfr
          | some e =>
            have hfb : (bview b).find r' = some (xb e) := by rw [bview_find, he]; rfl
            have hr : (xb e).rid = r' := BV.find_rid hfb
            refine ⟨{ xb e with abandoned := true }, ?_, rfl⟩
            show List.find? _ (List.map _ (bview b).execs) = _
            rw [find_map_rid _ _ (fun y => by split <;> rfl)]
            unfold BV.find at hfb
            rw [hfb]
            simp [hr]

/-! ## the check -/

/-- the first clause of `checkC06`: a handler dropped by `poll-exec` before its deadline has had a `Cancel` read
for it, or the request stream has been dropped -/
def checkC06Early (b : Book) (_ : Unit) : SEv → Unit × Option String
  | .obs (.handler r .dropped t) =>
      match b.exec r with
      | some e =>
          if b.curDropExec == some r || b.dropped || e.cancelRead then ((), none)
          else if t < e.deadline then ((), some s!"handler of request {r} aborted at {t}, before its deadline {e.deadline}")
          else ((), none)
      | none => ((), none)
  | _ => ((), none)

def monC06Early (limit : Option Nat) (evs : List SEv) : Mon Unit := Mon.run limit checkC06Early () evs

/-- a `handler … dropped` observation -/
def isHD : Obs → Bool
  | .handler _ .dropped _ => true
  | _ => false

theorem isHD_pollQuiet : PollQuiet isHD :=
  ⟨fun _ _ => rfl, fun _ _ _ => rfl, fun _ _ => rfl, fun _ _ => rfl, fun _ _ => rfl, fun _ => rfl, fun _ => rfl, fun _ _ => rfl⟩

theorem isHD_sendQuiet : SendQuiet isHD := ⟨⟨fun _ => rfl, rfl, fun _ _ => rfl⟩, fun _ _ => rfl⟩

/-- what makes the clause accept a `handler v dropped now` observation, on the view -/
def CheckOK (b : Book) (v now : Nat) : Prop :=
  ∀ eb, (bview b).find v = some eb →
    (b.curDropExec == some v || (bview b).dropped || eb.cancelRead) = true ∨ eb.deadline ≤ now

theorem check_ok (b : Book) (v t : Nat) (h : CheckOK b v t) :
    (checkC06Early b () (.obs (.handler v .dropped t))).2 = none := by
  simp only [checkC06Early]
  cases he : b.exec v with
  | none => rfl
  | some e =>
    simp only
    have := h (xb e) (by rw [bview_find, he]; rfl)
    rcases this with h1 | h1
    · rw [if_pos (by simpa [bview, xb] using h1)]
    · by_cases hc : (b.curDropExec == some v || b.dropped || e.cancelRead) = true
      · rw [if_pos hc]
      · rw [if_neg hc, if_neg (by show ¬ t < e.deadline; exact Nat.not_lt.mpr h1)]

theorem check_other (b : Book) (e : SEv) (h : ∀ v t, e ≠ .obs (.handler v .dropped t)) :
    (checkC06Early b () e).2 = none := by
  unfold checkC06Early
  split
  · next r t => exact absurd rfl (h r t)
  · rfl

theorem step_obs_curDropExec (b : Book) (o : Obs) : (b.step (.obs o)).curDropExec = b.curDropExec := by
  cases o with
  | tNext ep r =>
    rw [step_tNext_eq]
    have hp : (preRead b).curDropExec = b.curDropExec := by
      unfold preRead; split
      · exact (sweepOne_cd _).trans rfl
      · rfl
    cases r with
    | item m =>
      cases m with
      | request id d tr body => exact hp
      | cancel id tr => simp only; split <;> exact hp
      | response id res => exact hp
    | _ => exact hp
  | tSend ep m ok => cases m <;> (try rfl); cases ok <;> rfl
  | ret t r =>
    cases t with
    | server k =>
      rw [step_ret_eq]
      cases r <;> (simp only; split <;> rfl)
    | exec v => cases r <;> rfl
    | _ => rfl
  | handler r ev t => cases ev <;> rfl
  | counts ep a b' => cases ep <;> rfl
  | tReady ep r => simp only [Book.step]; (repeat' split) <;> rfl
  | tFlush ep r => simp only [Book.step]; (repeat' split) <;> rfl
  | _ => rfl

/-- the view and `curDropExec` do not change under a non-core observation -/
theorem step_not_core_view (b : Book) (o : Obs) (h : isCore o = false) : bview (b.step (.obs o)) = bview b := by
  by_cases hb : isBK o = true
  · cases o <;> simp [isBK, isCore] at hb h
    · rename_i ep m ok; cases m <;> simp [isBK, isCore] at hb h
    · rename_i t r; cases t <;> simp [isBK, isCore] at hb h
    · rfl
    · rfl
  · exact (step_not_bk b o (by simpa using hb)).1

theorem CheckOK.step {b : Book} {v now : Nat} (h : CheckOK b v now) (o : Obs) (ho : isCore o = false) :
    CheckOK (b.step (.obs o)) v now := by
  unfold CheckOK
  rw [step_not_core_view b o ho, step_obs_curDropExec]
  exact h

/-- the monitor over the observations of one op (oldest first) -/
def mobs (m : Mon Unit) (l : List Obs) : Mon Unit := l.foldl (fun m o => Mon.step checkC06Early m (.obs o)) m

theorem mon_step_book (m : Mon Unit) (e : SEv) : (Mon.step checkC06Early m e).book = (m.book.step e).noteFinish e := by
  rw [FlowMon.mon_step_def]
  split
  · rw [FlowMon.fail_book]
  · rfl

theorem mon_step_bad (m : Mon Unit) (e : SEv) (hb : m.bad = none)
    (hc : m.book.spun = true ∨ (checkC06Early (FlowMon.bookOf m.book e) () e).2 = none) :
    (Mon.step checkC06Early m e).bad = none := by
  rw [FlowMon.mon_step_def]
  have : (if (FlowMon.bookOf m.book e).spun then (m.st, none) else checkC06Early (FlowMon.bookOf m.book e) m.st e).2 = none := by
    rcases hc with hs | hc
    · rw [FlowMon.bookOf_spun, hs]; rfl
    · split
      · rfl
      · exact hc
  rw [this]; exact hb

theorem mobs_book (l : List Obs) (m : Mon Unit) : (mobs m l).book = l.foldl (fun b o => b.step (.obs o)) m.book := by
  induction l generalizing m with
  | nil => rfl
  | cons o l ih =>
    simp only [mobs, List.foldl_cons] at ih ⊢
    rw [ih, mon_step_book]
    rfl

/-- no `handler … dropped` among the observations: the clause has nothing to judge -/
theorem mobs_nohd (l : List Obs) (m : Mon Unit) (hb : m.bad = none) (hl : ∀ o ∈ l, isHD o = false) :
    (mobs m l).bad = none := by
  induction l generalizing m with
  | nil => exact hb
  | cons o l ih =>
    simp only [mobs, List.foldl_cons]
    refine ih _ (mon_step_bad m _ hb (Or.inr (check_other _ _ (fun v t he => ?_)))) (fun o' ho' => hl o' (List.mem_cons_of_mem _ ho'))
    cases he
    have := hl _ (List.mem_cons_self ..)
    simp [isHD] at this

/-- only non-core observations, each `handler v dropped t` among them accepted by the book at the start of the op -/
theorem mobs_ok (l : List Obs) (m : Mon Unit) (hb : m.bad = none) (hl : ∀ o ∈ l, isCore o = false)
    (hh : m.book.spun = true ∨ ∀ v t, Obs.handler v .dropped t ∈ l → CheckOK m.book v t) : (mobs m l).bad = none := by
  induction l generalizing m with
  | nil => exact hb
  | cons o l ih =>
    simp only [mobs, List.foldl_cons]
    refine ih _ (mon_step_bad m _ hb ?_) (fun o' ho' => hl o' (List.mem_cons_of_mem _ ho')) ?_
    · rcases hh with hs | hh
      · exact Or.inl hs
      · right
        by_cases hd : ∃ v t, o = .handler v .dropped t
        · obtain ⟨v, t, rfl⟩ := hd
          exact check_ok _ v t (hh v t (List.mem_cons_self ..))
        · exact check_other _ _ (fun v t he => hd ⟨v, t, by cases he; rfl⟩)
    · rw [mon_step_book]
      show ((m.book.step (.obs o))).spun = true ∨ _
      rcases hh with hs | hh
      · exact Or.inl (step_spun_mono _ _ hs)
      · right
        intro v t hm
        exact (hh v t (List.mem_cons_of_mem _ hm)).step o (hl o (List.mem_cons_self ..))

theorem bo_eq_foldl (b0 : Book) (obs : List Obs) : bo b0 obs = obs.reverse.foldl (fun b o => b.step (.obs o)) b0 := by
  unfold bo
  rw [List.foldl_reverse]

/-! ## one op -/

/-- the book right after the op event -/
def opBook (b : Book) (op : SOp) : Book := (b.step (.op op)).noteFinish (.op op)

theorem opBook_spun (b : Book) (op : SOp) : (opBook b op).spun = b.spun := by
  unfold opBook
  rw [FlowMon.noteFinish_spun, FlowMon.step_spun]
  simp [FlowMon.poisonEv]

theorem opBook_cd (b : Book) (op : SOp) :
    (opBook b op).curDropExec = match op with | .dropExec r => some r | _ => none := by
  unfold opBook
  cases op <;> simp only [Book.step, Book.noteFinish] <;> first | exact endOp_curDropExec b | rfl

theorem noteFinish_view (b : Book) (e : SEv) : bview (b.noteFinish e) = bview b := by
  unfold Book.noteFinish
  split
  · exact updExec_view _ _ _ (fun e => by split <;> rfl)
  · rfl

theorem opBook_dropped (b : Book) : (opBook b .dropServer).dropped = true := rfl

theorem K_opBook {now : Nat} {pend : Option (Nat × Nat)} {b : Book} {S : SV} (op : SOp)
    (h : K now pend (bview b.endOp) S) : K (now + opAdv op) pend (bview (opBook b op)) S := by
  unfold opBook
  rw [noteFinish_view]
  cases op with
  | advance n => exact h.advance n rfl
  | dropServer => exact K_bdropped h
  | pollServer => exact h
  | dropExec r => exact h
  | pollExec r => exact h
  | finish r res => exact h
  | injectReq id d tr b' => exact h
  | injectCancel id tr => exact h
  | injectErr => exact h
  | eof => exact h
  | setReady b' => exact h
  | setFlush b' => exact h
  | fault k => exact h
  | faultSkip n => exact h
  | selfWake b' => exact h
  | take n => exact h

theorem bo_curDropExec (b0 : Book) (obs : List Obs) : (bo b0 obs).curDropExec = b0.curDropExec := by
  induction obs with
  | nil => rfl
  | cons o l ih => rw [bo_cons, step_obs_curDropExec, ih]

theorem JP.of_J {b0 : Book} {now : Nat} {s : St} (h : J b0 now none s) : JP b0 now s := Or.inl h

/-- the executions named by `r` were live: `r` is no execution's rid, or that of a live execution -/
def LiveRid (s : St) (r : Nat) : Prop := r = s.execs.length ∨ ∃ e ∈ s.execs, e.rid = r ∧ execLive e = true

theorem liveRid_of_K {now : Nat} {pend : Option (Nat × Nat)} {B : BV} {s : St} {r : Nat} (h : K now pend B (sview s))
    (hl : LiveRid s r) : ∀ e ∈ s.execs, e.rid = r → execLive e = true := by
  have hnd : (s.execs.map (·.rid)).Nodup := by
    have := h.ridNodup
    have heq : (sview s).execs.map (·.rid) = s.execs.map (·.rid) := by simp only [sview, List.map_map]; rfl
    rw [heq] at this; exact this
  intro e he hr
  rcases hl with rfl | ⟨e0, he0, hr0, hl0⟩
  · have := h.ridLt (xe e) (List.mem_map_of_mem he)
    simp only [sview, List.length_map] at this
    exact absurd hr (Nat.ne_of_lt this)
  · have h1 := find_rid_nodup hnd he
    have h2 := find_rid_nodup hnd he0
    rw [hr, ← hr0, h2] at h1
    rw [← Option.some.inj h1]; exact hl0

theorem JP_ld {b0 : Book} {now : Nat} {s s' : St} {r : Nat} (hx : Ext s s') (hl : LD r s s') (hlive : LiveRid s r)
    (hp : s'.poisoned = s.poisoned) (h : JP b0 now s) : JP b0 now s' := by
  have key : ∀ pend, J b0 now pend s → J b0 now pend s' := fun pend hJ =>
    J_ext hx hJ (fun hK => K_of_LD hK hl (liveRid_of_K hK hlive))
  rcases h with h | ⟨hpo, pend, h⟩
  · exact Or.inl (key _ h)
  · exact Or.inr ⟨by rw [hp]; exact hpo, pend, key _ h⟩

/-- the execution-side ops and the external events, as `LD` steps -/
theorem ld_applyOp (c : Sys) (op : SOp) (h1 : op ≠ .pollServer) (h2 : op ≠ .dropServer) :
    ∃ r, LD r c.s (applyOp c op).s ∧ LiveRid c.s r := by
  have hframe : ∀ s' : St, s'.execs = c.s.execs → s'.inflight = c.s.inflight → s'.nextVis = c.s.nextVis →
      s'.dropped = c.s.dropped → ∃ r, LD r c.s s' ∧ LiveRid c.s r :=
    fun s' a1 a2 a3 a4 => ⟨c.s.execs.length, LD.of_eq a1 a2 a3 a4, Or.inl rfl⟩
  have hlift : ∀ r : SimT × Bool, ∃ r', LD r' c.s (liftT c.s r) ∧ LiveRid c.s r' := by
    intro r
    refine hframe _ ?_ ?_ ?_ ?_ <;> (unfold liftT; simp only; split <;> simp)
  cases op with
  | pollServer => exact absurd rfl h1
  | dropServer => exact absurd rfl h2
  | pollExec v =>
    rcases ld_pollExec c.s v c.now with h | ⟨e, hg, hl, h⟩
    · exact ⟨_, h, Or.inl rfl⟩
    · exact ⟨e.rid, h, Or.inr ⟨e, (getExecVis_mem hg).1, rfl, hl⟩⟩
  | dropExec v =>
    rcases ld_dropExec c.s v c.now with ⟨h, _⟩ | ⟨e, hg, hl, h, _⟩
    · exact ⟨_, h, Or.inl rfl⟩
    · exact ⟨e.rid, h, Or.inr ⟨e, (getExecVis_mem hg).1, rfl, hl⟩⟩
  | finish v res => exact ⟨_, ld_finishHandler _ c.s v res, Or.inl rfl⟩
  | injectReq id d tr b => exact hlift _
  | injectCancel id tr => exact hlift _
  | injectErr => exact hlift _
  | eof => exact hlift _
  | setReady b => exact hlift _
  | setFlush b => exact hlift _
  | fault k => exact hframe _ rfl rfl rfl rfl
  | faultSkip n => exact hframe _ rfl rfl rfl rfl
  | selfWake b => exact hframe _ rfl rfl rfl rfl
  | take n =>
    have : ∀ (ms : List Msg) (s1 : St), s1.execs = c.s.execs → s1.inflight = c.s.inflight → s1.nextVis = c.s.nextVis →
        s1.dropped = c.s.dropped →
        (ms.foldl (fun s m => emit s (.took (tid s) m)) s1).execs = c.s.execs ∧
        (ms.foldl (fun s m => emit s (.took (tid s) m)) s1).inflight = c.s.inflight ∧
        (ms.foldl (fun s m => emit s (.took (tid s) m)) s1).nextVis = c.s.nextVis ∧
        (ms.foldl (fun s m => emit s (.took (tid s) m)) s1).dropped = c.s.dropped := by
      intro ms
      induction ms with
      | nil => intro s1 a b c d; exact ⟨a, b, c, d⟩
      | cons m ms ih => intro s1 a b c d; exact ih _ a b c d
    obtain ⟨a, b, c', d⟩ := this (c.s.t.take n).2 { c.s with t := (c.s.t.take n).1 } rfl rfl rfl rfl
    exact hframe _ a b c' d
  | advance n =>
    refine hframe _ ?_ ?_ ?_ ?_ <;> (unfold applyOp onAdvance; simp only; (repeat' split) <;> simp)

theorem applyOp_poisoned (c : Sys) (op : SOp) (hop : op ≠ .pollServer) : (applyOp c op).s.poisoned = c.s.poisoned := by
  have hd : ExecClosed (fun s => s.poisoned = c.s.poisoned) :=
    ⟨fun s s' hi h => by rw [hi.poisoned]; exact h, fun s o _ h => h, fun s r f _ h => h⟩
  cases op with
  | pollServer => exact absurd rfl hop
  | dropServer => simp [applyOp]
  | pollExec r => exact hd.pollExec _ _ _ rfl
  | dropExec r => exact hd.dropExec _ _ _ rfl
  | finish r res => exact hd.finishHandler _ _ _ rfl
  | injectReq id d tr b => simp only [applyOp, liftT]; split <;> simp
  | injectCancel id tr => simp only [applyOp, liftT]; split <;> simp
  | injectErr => simp only [applyOp, liftT]; split <;> simp
  | eof => simp only [applyOp, liftT]; split <;> simp
  | setReady b => simp only [applyOp, liftT]; split <;> simp
  | setFlush b => simp only [applyOp, liftT]; split <;> simp
  | fault k => rfl
  | faultSkip n => rfl
  | selfWake b => rfl
  | take n =>
    simp only [applyOp]
    generalize (c.s.t.take n).2 = ms
    have h0 : ({ c.s with t := (c.s.t.take n).1 } : St).poisoned = c.s.poisoned := rfl
    revert h0
    generalize ({ c.s with t := (c.s.t.take n).1 } : St) = s1
    intro h0
    induction ms generalizing s1 with
    | nil => exact h0
    | cons m ms ih => exact ih _ h0
  | advance n => simp only [applyOp, onAdvance]; (repeat' split) <;> simp

/-! ### which ops emit `handler … dropped` -/

theorem isHD_wakeQuiet : WakeQuiet isHD := isHD_sendQuiet.toWakeQuiet

theorem pskRet_hd (s : St) (r : ReqPoll) : (pskRet s r).1.obs.filter isHD = s.obs.filter isHD := by
  unfold pskRet
  split <;> try rfl
  split <;> simp [Server.emit, Server.updExec, isHD]

theorem hd_pollServerKeep (s : St) (now : Nat) : (pollServerKeep s now).obs.filter isHD = s.obs.filter isHD := by
  rw [pollServerKeep_eq]
  split
  · simp [Server.emit, isHD]
  · have hflt := flt_requestsPollNext isHD_pollQuiet now (pollFuel { s with woken := false }) { s with woken := false }
    revert hflt
    generalize requestsPollNext (pollFuel { s with woken := false }) { s with woken := false } now = p
    intro hflt
    unfold Flt at hflt
    simp only
    split
    · simp [isHD]
    · split
      · exact hflt
      · unfold pskFinish
        simp only [Server.emit]
        rw [List.filter_cons_of_neg (by simp [isHD]), List.filter_cons_of_neg (by simp [isHD]), pskRet_hd]
        exact hflt

theorem hd_pollServer (s : St) (now : Nat) : (pollServer s now).obs.filter isHD = s.obs.filter isHD := by
  unfold pollServer
  simp only
  split
  · rw [fx_dropServer isHD_wakeQuiet]; exact hd_pollServerKeep s now
  · split
    · exact hd_pollServerKeep s now
    · exact hd_pollServerKeep s now

theorem nohd_of_filter {l : List Obs} (h : l.filter isHD = []) : ∀ o ∈ l, isHD o = false := by
  intro o ho
  have := List.filter_eq_nil_iff.mp h o ho
  simpa using this

theorem pollExec_hd (s : St) (vid now : Nat) (h0 : s.obs = []) (v t : Nat)
    (hm : Obs.handler v .dropped t ∈ (pollExec s vid now).obs) :
    v = vid ∧ t = now ∧ ∃ e, getExecVis s vid = some e ∧ e.aborted = true ∧ execLive e = true := by
  rcases pollExec_dropped_obs s vid now v t hm with h | ⟨hv, ht, e, hg, ha, _⟩
  · rw [h0] at h; cases h
  · refine ⟨hv, ht, e, hg, ha, ?_⟩
    cases hl : execLive e with
    | true => rfl
    | false =>
      exfalso
      have : pollExec s vid now = emit s .noop := by
        unfold pollExec; simp [hg, hl]
      rw [this, emit_obs, h0] at hm
      simp at hm

theorem dropExec_hd_filter (s : St) (vid now : Nat) :
    (dropExec s vid now).obs.filter isHD = s.obs.filter isHD ∨
    (dropExec s vid now).obs.filter isHD = .handler vid .dropped now :: s.obs.filter isHD := by
  unfold dropExec
  split
  · left; simp [Server.emit, isHD]
  · simp only
    split
    · left; simp [Server.emit, isHD]
    · rw [fx_guardDrop isHD_wakeQuiet]
      simp only [Server.updExec]
      split
      · split
        · left; rfl
        · right; simp only [Server.emit]; rw [List.filter_cons_of_pos (by rfl)]
      · left
        split
        · rw [fx_rqRelease isHD_wakeQuiet]
        · rfl
      · left; rfl

theorem dropExec_hd (s : St) (vid now : Nat) (h0 : s.obs = []) (v t : Nat)
    (hm : Obs.handler v .dropped t ∈ (dropExec s vid now).obs) : v = vid := by
  have hmem : Obs.handler v .dropped t ∈ (dropExec s vid now).obs.filter isHD :=
    List.mem_filter.mpr ⟨hm, rfl⟩
  rcases dropExec_hd_filter s vid now with h | h
  · rw [h, h0] at hmem; cases hmem
  · rw [h, h0] at hmem
    simp at hmem
    exact hmem.1

/-- after `drop-exec v` no execution numbered `v` is live -/
theorem cd_dropExec {now : Nat} {pend : Option (Nat × Nat)} {B : BV} (s : St) (vid n : Nat)
    (hrid : ∀ ex ∈ s.execs, ex.rid < s.execs.length) (hK : K now pend B (sview (dropExec s vid n))) :
    ∀ x ∈ (sview (dropExec s vid n)).execs, x.vis = some vid → x.live = false := by
  intro x hx hv
  have key : ∀ e0 ∈ s.execs, e0.vis = some vid → ∀ g : Exec → Exec, (dropExec s vid n).execs = s.execs.map g →
      (g e0).vis = e0.vis → execLive (g e0) = false → x.live = false := by
    intro e0 he0 hv0 g hg hgv hgl
    have hm : xe (g e0) ∈ (sview (dropExec s vid n)).execs := by
      simp only [sview]; rw [hg]; exact List.mem_map_of_mem (List.mem_map_of_mem he0)
    have := hK.visInj x hx (xe (g e0)) hm vid hv (by show (g e0).vis = some vid; rw [hgv]; exact hv0)
    rw [this]; exact hgl
  obtain ⟨e1, he1, rfl⟩ := List.mem_map.mp hx
  rcases ld_dropExec s vid n with ⟨⟨⟨g, hg, hid⟩, _⟩, hnl⟩ | ⟨e, hgv, hl, ⟨⟨g, hg, hid⟩, _⟩, hpost⟩
  · rw [hg] at he1
    obtain ⟨e0, he0, rfl⟩ := List.mem_map.mp he1
    have hv0 : e0.vis = some vid := by rw [← (hid e0).2.2.2.1]; exact hv
    -- the execution `getExecVis` finds is not live; it is this one (up to the view)
    cases hfe : getExecVis s vid with
    | none =>
      unfold getExecVis at hfe
      have := List.find?_eq_none.mp hfe e0 he0
      simp [hv0] at this
    | some ef =>
      obtain ⟨hfm, hfv⟩ := getExecVis_mem hfe
      have hfl := hnl ef hfe
      refine key ef hfm hfv g hg (hid ef).2.2.2.1 ?_
      rw [(hid ef).2.2.2.2.2 (Nat.ne_of_lt (hrid ef hfm))]; exact hfl
  · obtain ⟨hem, hev⟩ := getExecVis_mem hgv
    refine key e hem hev g hg (hid e).2.2.2.1 ?_
    exact hpost (g e) (by rw [hg]; exact List.mem_map_of_mem hem) (hid e).1

/-! ## the invariant between ops, and one op -/

structure OInv (b : Book) (c : Sys) : Prop where
  sinv : SInv false c.now c.s
  dd : DoneDropped c.s
  cfg1 : c.s.throttleAfterRead = false
  cfg2 : c.s.ensureLoop = false
  j : b.spun = true ∨ ∃ pend, (pend = none ∨ c.s.poisoned = true) ∧ K c.now pend (bview b.endOp) (sview c.s)

theorem endOp_spun' (b : Book) : b.endOp.spun = b.spun := FlowMon.endOp_spun b

/-- from the coupling at the end of an op's observations to the next op's start -/
theorem j_finish {b' : Book} {now' : Nat} {s' : St}
    (hJ : JP b' now' { s' with obs := [] })
    (hcd : ∀ pend, K now' pend (bview b') (sview s') → ∀ r, b'.curDropExec = some r →
      ∀ x ∈ (sview s').execs, x.vis = some r → x.live = false) :
    b'.spun = true ∨ ∃ pend, (pend = none ∨ s'.poisoned = true) ∧ K now' pend (bview b'.endOp) (sview s') := by
  rcases hJ with h | ⟨hp, pend, h⟩
  · rcases h with hs | hK
    · exact Or.inl hs
    · exact Or.inr ⟨none, Or.inl rfl, K_endOp hK (hcd _ hK)⟩
  · rcases h with hs | hK
    · exact Or.inl hs
    · exact Or.inr ⟨pend, Or.inr hp, K_endOp hK (hcd _ hK)⟩

/-- `JP` does not look at the observation buffer beyond folding the book over it -/
theorem JP_clear {b0 : Book} {now : Nat} {s : St} (h : JP b0 now s) : JP (bo b0 s.obs) now { s with obs := [] } := h

theorem op_step {b : Book} {c : Sys} (op : SOp) (h : OInv b c) :
    OInv (bo (opBook b op) (applyOp { c with s := { c.s with obs := [] } } op).s.obs) (stepOp c op).1 ∧
    ((∀ o ∈ (applyOp { c with s := { c.s with obs := [] } } op).s.obs, isHD o = false) ∨
     ((∀ o ∈ (applyOp { c with s := { c.s with obs := [] } } op).s.obs, isCore o = false) ∧
      ((opBook b op).spun = true ∨ ∀ v t, Obs.handler v .dropped t ∈ (applyOp { c with s := { c.s with obs := [] } } op).s.obs →
        CheckOK (opBook b op) v t))) := by
  -- the state the op starts from: the observation buffer cleared
  generalize hc0 : ({ c with s := { c.s with obs := [] } } : Sys) = c0
  have hobs0 : c0.s.obs = [] := by rw [← hc0]
  have hnow0 : c0.now = c.now := by rw [← hc0]
  have hsv0 : sview c0.s = sview c.s := by rw [← hc0]; rfl
  have hpo0 : c0.s.poisoned = c.s.poisoned := by rw [← hc0]
  have hs0 : SInv false c0.now c0.s := by rw [← hc0]; exact h.sinv.clear_obs
  have hdd0 : DoneDropped c0.s := by rw [← hc0]; exact h.dd
  have hcfg0 : c0.s.throttleAfterRead = false ∧ c0.s.ensureLoop = false := by rw [← hc0]; exact ⟨h.cfg1, h.cfg2⟩
  have hstep : (stepOp c op).1 = { applyOp c0 op with s := { (applyOp c0 op).s with obs := [] } } := by
    rw [← hc0]; rfl
  have hnow := applyOp_now c0 op
  rw [hnow0] at hnow
  -- the coupling right after the op event
  have hJ1 : JP (opBook b op) (c.now + opAdv op) c0.s := by
    rcases h.j with hs | ⟨pend, hpp, hK⟩
    · exact Or.inl (Or.inl (by rw [hobs0]; show (opBook b op).spun = true; rw [opBook_spun]; exact hs))
    · have hK1 : J (opBook b op) (c.now + opAdv op) pend c0.s := by
        right; rw [hobs0, hsv0]; exact K_opBook op hK
      rcases hpp with rfl | hpo
      · exact Or.inl hK1
      · exact Or.inr ⟨by rw [hpo0]; exact hpo, pend, hK1⟩
  -- the invariants of the model
  have hsA := sinv_applyOp c0 op hs0
  have hddA := DoneDropped_applyOp c0 op hdd0
  have hcfgA := cfg_reach c0 [op]
  have hbase : ∀ (hJ' : JP (opBook b op) (c.now + opAdv op) (applyOp c0 op).s)
      (hcd : ∀ pend, K (c.now + opAdv op) pend (bview (bo (opBook b op) (applyOp c0 op).s.obs)) (sview (applyOp c0 op).s) →
        ∀ r, (opBook b op).curDropExec = some r → ∀ x ∈ (sview (applyOp c0 op).s).execs, x.vis = some r → x.live = false),
      OInv (bo (opBook b op) (applyOp c0 op).s.obs) (stepOp c op).1 := by
    intro hJ' hcd
    rw [hstep]
    refine ⟨?_, ?_, ?_, ?_, ?_⟩
    · exact hsA.clear_obs
    · exact hddA
    · exact (hcfgA.2.2.2.trans hcfg0.1)
    · exact (hcfgA.2.2.1.trans hcfg0.2)
    · show _ ∨ ∃ pend, (pend = none ∨ (applyOp c0 op).s.poisoned = true) ∧
        K (applyOp c0 op).now pend _ (sview (applyOp c0 op).s)
      rw [hnow]
      exact j_finish (JP_clear hJ') (fun pend hK r hr => hcd pend hK r (by rw [← hr, bo_curDropExec]))
  by_cases hps : op = .pollServer
  · subst hps
    have hJ' : JP (opBook b .pollServer) (c.now + opAdv .pollServer) (pollServer c0.s c0.now) := by
      have e : c.now + opAdv SOp.pollServer = c0.now := by rw [hnow0]; rfl
      rw [e] at hJ1 ⊢
      exact J_pollServer hs0 hdd0 hJ1 hcfg0.1 hcfg0.2
    refine ⟨hbase hJ' (fun pend _ r hr => by rw [opBook_cd] at hr; cases hr), Or.inl ?_⟩
    apply nohd_of_filter
    show (pollServer c0.s c0.now).obs.filter isHD = []
    rw [hd_pollServer, hobs0]; rfl
  · by_cases hds : op = .dropServer
    · subst hds
      have hJ' : JP (opBook b .dropServer) (c.now + opAdv .dropServer) (dropServer c0.s) := by
        have hd : (bo (opBook b .dropServer) c0.s.obs).spun = true ∨ (bo (opBook b .dropServer) c0.s.obs).dropped = true := by
          rw [hobs0]; exact Or.inr (opBook_dropped b)
        rcases hJ1 with hJ | ⟨hp, pend, hJ⟩
        · exact Or.inl (J_dropServer hJ hd)
        · exact Or.inr ⟨by simp [hp], pend, J_dropServer hJ hd⟩
      refine ⟨hbase hJ' (fun pend _ r hr => by rw [opBook_cd] at hr; cases hr), Or.inl ?_⟩
      apply nohd_of_filter
      show (dropServer c0.s).obs.filter isHD = []
      rw [fx_dropServer isHD_wakeQuiet, hobs0]; rfl
    · -- the execution-side ops and the external events
      obtain ⟨r, hld, hlive⟩ := ld_applyOp c0 op hps hds
      have hext : Ext c0.s (applyOp c0 op).s :=
        ext_of_nil hobs0 (fx_applyOp isCore_execQuiet c0 op hps)
      have hJ' : JP (opBook b op) (c.now + opAdv op) (applyOp c0 op).s :=
        JP_ld hext hld hlive (applyOp_poisoned c0 op hps) hJ1
      have hcore : ∀ o ∈ (applyOp c0 op).s.obs, isCore o = false := by
        obtain ⟨l, hl, hp⟩ := hext
        rw [hl, hobs0, List.append_nil]; exact hp
      by_cases hpe : ∃ v, op = .pollExec v
      · obtain ⟨v, rfl⟩ := hpe
        refine ⟨hbase hJ' (fun pend _ r hr => by rw [opBook_cd] at hr; cases hr), Or.inr ⟨hcore, ?_⟩⟩
        -- the clause accepts what `poll-exec` reports
        rcases hJ1 with hJ | ⟨_, pend, hJ⟩ <;> rcases hJ with hs | hK
        · left; rw [hobs0] at hs; exact hs
        · right
          intro v' t hm
          obtain ⟨rfl, rfl, e, hg, ha, hl⟩ := pollExec_hd c0.s v c0.now hobs0 v' t hm
          rw [hobs0] at hK
          obtain ⟨hem, hev⟩ := getExecVis_mem hg
          intro eb hfb
          obtain ⟨eb', hfb', _, hdl, _⟩ := hK.bex (xe e) (List.mem_map_of_mem hem) v' hev
          have hbo : bo (opBook b (.pollExec v')) [] = opBook b (.pollExec v') := rfl
          rw [hbo] at hfb' hK
          rw [hfb] at hfb'; cases hfb'
          rcases hK.why (xe e) (List.mem_map_of_mem hem) ha with ⟨v2, eb2, hv2, hf2, hc2⟩ | hr | hr | hr
          · have : v2 = v' := by rw [show (xe e).vis = e.vis from rfl, hev] at hv2; exact (Option.some.inj hv2).symm
            subst this
            rw [hfb] at hf2; cases hf2
            left; simp [hc2]
          · left; simp [hr]
          · right
            have hd' : eb.deadline = e.deadline := hdl
            rw [hd', hnow0]; exact hr
          · rw [show (xe e).live = execLive e from rfl, hl] at hr; cases hr
        · left; rw [hobs0] at hs; exact hs
        · right
          intro v' t hm
          obtain ⟨rfl, rfl, e, hg, ha, hl⟩ := pollExec_hd c0.s v c0.now hobs0 v' t hm
          rw [hobs0] at hK
          obtain ⟨hem, hev⟩ := getExecVis_mem hg
          intro eb hfb
          obtain ⟨eb', hfb', _, hdl, _⟩ := hK.bex (xe e) (List.mem_map_of_mem hem) v' hev
          have hbo : bo (opBook b (.pollExec v')) [] = opBook b (.pollExec v') := rfl
          rw [hbo] at hfb' hK
          rw [hfb] at hfb'; cases hfb'
          rcases hK.why (xe e) (List.mem_map_of_mem hem) ha with ⟨v2, eb2, hv2, hf2, hc2⟩ | hr | hr | hr
          · have : v2 = v' := by rw [show (xe e).vis = e.vis from rfl, hev] at hv2; exact (Option.some.inj hv2).symm
            subst this
            rw [hfb] at hf2; cases hf2
            left; simp [hc2]
          · left; simp [hr]
          · right
            have hd' : eb.deadline = e.deadline := hdl
            rw [hd', hnow0]; exact hr
          · rw [show (xe e).live = execLive e from rfl, hl] at hr; cases hr
      · by_cases hde : ∃ v, op = .dropExec v
        · obtain ⟨v, rfl⟩ := hde
          refine ⟨hbase hJ' (fun pend hK r hr => ?_), Or.inr ⟨hcore, Or.inr ?_⟩⟩
          · rw [opBook_cd] at hr
            have hrv : v = r := Option.some.inj hr
            subst hrv
            exact cd_dropExec c0.s v c0.now hs0.t.execRid hK
          · intro v' t hm
            have := dropExec_hd c0.s v c0.now hobs0 v' t hm
            subst this
            intro eb _
            left
            rw [opBook_cd]; simp
        · refine ⟨hbase hJ' (fun pend _ r hr => ?_), Or.inl ?_⟩
          · rw [opBook_cd] at hr
            cases op <;> first | exact absurd ⟨_, rfl⟩ hde | cases hr
          · apply nohd_of_filter
            rw [fx_applyOp_wake isHD_wakeQuiet c0 op hps (fun v hv => hpe ⟨v, hv⟩) (fun v hv => hde ⟨v, hv⟩), hobs0]; rfl

/-! ## every trace -/

theorem c06_trace (ops : List SOp) : ∀ (c : Sys) (m : Mon Unit), m.bad = none → OInv m.book c →
    ((trace c ops).foldl (Mon.step checkC06Early) m).bad = none := by
  induction ops with
  | nil => intro c m hb _; exact hb
  | cons op ops ih =>
    intro c m hb hI
    obtain ⟨hI', hchk⟩ := op_step op hI
    have htr : trace c (op :: ops) = SEv.op op :: ((stepOp c op).2.map SEv.obs ++ trace (stepOp c op).1 ops) := rfl
    rw [htr, List.foldl_cons, List.foldl_append, List.foldl_map]
    have hb1 : (Mon.step checkC06Early m (.op op)).bad = none :=
      mon_step_bad m _ hb (Or.inr (check_other _ _ (fun v t h => by cases h)))
    have hbk1 : (Mon.step checkC06Early m (.op op)).book = opBook m.book op := mon_step_book m _
    have hos : (stepOp c op).2 = (applyOp { c with s := { c.s with obs := [] } } op).s.obs.reverse := rfl
    rw [hos]
    have hm2 : (mobs (Mon.step checkC06Early m (.op op)) (applyOp { c with s := { c.s with obs := [] } } op).s.obs.reverse).bad = none := by
      rcases hchk with hno | ⟨hcore, hok⟩
      · exact mobs_nohd _ _ hb1 (fun o ho => hno o (List.mem_reverse.mp ho))
      · refine mobs_ok _ _ hb1 (fun o ho => hcore o (List.mem_reverse.mp ho)) ?_
        rw [hbk1]
        exact hok.imp id (fun h v t hm => h v t (List.mem_reverse.mp hm))
    have hbk2 : (mobs (Mon.step checkC06Early m (.op op)) (applyOp { c with s := { c.s with obs := [] } } op).s.obs.reverse).book =
        bo (opBook m.book op) (applyOp { c with s := { c.s with obs := [] } } op).s.obs := by
      rw [mobs_book, hbk1, bo_eq_foldl]
    have hI2 : OInv (mobs (Mon.step checkC06Early m (.op op)) (applyOp { c with s := { c.s with obs := [] } } op).s.obs.reverse).book
        (stepOp c op).1 := by rw [hbk2]; exact hI'
    exact ih (stepOp c op).1 (mobs (Mon.step checkC06Early m (.op op)) (applyOp { c with s := { c.s with obs := [] } } op).s.obs.reverse) hm2 hI2

theorem K_init (now : Nat) : K now none ⟨now, [], [], [], false⟩ ⟨[], [], 0, false⟩ := by
  refine ⟨rfl, by simp, ?_, ?_, ?_, ?_, ?_, ?_, ?_, ?_, by simp, ?_, ?_, ?_, ?_, ?_, by simp⟩
  all_goals (intros; first | contradiction | (rename_i h; cases h) | skip)
  all_goals simp_all

theorem oinv_init (limit : Option Nat) (respCap tcap : Nat) (coupled : Bool) :
    OInv ({ limit := limit } : Book) (initSys limit respCap tcap coupled) := by
  refine ⟨sinv_init false limit respCap tcap coupled, (fun h => by cases h), rfl, rfl, Or.inr ⟨none, Or.inl rfl, ?_⟩⟩
  rw [endOp_view_none _ rfl]
  exact K_init 0

/-- **The never-early clause of the C06 monitor never fires on a trace of the model.** -/
theorem c06_early_accepts (limit : Option Nat) (respCap tcap : Nat) (coupled : Bool) (ops : List SOp) :
    (monC06Early limit (trace (initSys limit respCap tcap coupled) ops)).bad = none :=
  c06_trace ops _ _ rfl (oinv_init limit respCap tcap coupled)

/-! ## the clause within `checkC06` -/

/-- the other two clauses of `checkC06` (a handler still running, a response transmitted, after the channel was
polled past the deadline) -/
def checkC06Rest (b : Book) (_ : Unit) : SEv → Unit × Option String
  | .obs (.handler r .polled t) =>
      match b.exec r, b.lastIdlePoll with
      | some e, some tp =>
          let reusedAfterAbort := b.execs.any fun e' => e'.id == e.id && e'.rid < e.rid && (e'.cancelRead || e'.abandoned || e'.hDropped)
          if e.expiredSeen && !reusedAfterAbort then ((), some s!"handler of request {r} still running at {t}: the channel was polled (last at {tp}) past its deadline {e.deadline}")
          else ((), none)
      | _, _ => ((), none)
  | .obs (.tSend _ (.response id res) _) =>
      match b.execOfResult id res, b.lastIdlePoll with
      | some e, some tp =>
          if e.expiredSeen && tp ≥ e.tick && !(b.execs.any fun e' => e'.id == id && e'.rid > e.rid) then
            ((), some s!"response of request {e.rid} (id {id}) transmitted after its deadline had been enforced")
          else ((), none)
      | _, _ => ((), none)
  | _ => ((), none)

/-- `checkC06` is the never-early clause followed by the other two -/
theorem checkC06_split (b : Book) (u : Unit) (e : SEv) :
    (checkC06 b u e).2 = (checkC06Early b u e).2.orElse fun _ => (checkC06Rest b u e).2 := by
  cases e with
  | op o => rfl
  | obs o =>
    cases o <;> try rfl
    · rename_i ep m ok
      cases m <;> rfl
    · rename_i r ev t
      cases ev <;> try rfl
      simp only [checkC06, checkC06Early, checkC06Rest]
      cases b.exec r with
      | none => rfl
      | some e =>
        simp only
        split
        · rfl
        · split <;> rfl

end TarpcModel.Server.Mon06

import TarpcModel.Lemmas.ServerTab1
/-!
The third coupling `Y` between the monitor's book and the model (on top of `Mon06.K` and `Tab.X`), for the table clause
of the C11 monitor ("channel idle: n reported in flight, m yielded requests unanswered, uncancelled, unexpired and not
abandoned"), for scripts whose deadlines lie within the clamp horizon (no timer is ever re-armed):

* the book's `gone` mark of an execution says that it is no longer live; a live execution that has been handed out
  holds an armed guard;
* an entry of the model's table whose execution has not been handed out is the one pending in this poll, or its guard
  cancellation is queued;
* the timer of a tracked request is due exactly at `max deadline yieldedAt` (never re-armed: `rem = 0`);
* the ids in the guard-cancellation queue belong to executions the book knows as abandoned; a tracked request the book
  knows as abandoned has its guard cancellation queued;
* every entry of the book's table is tracked by the model, or due, or abandoned.
-/
namespace TarpcModel.Server.Tab
open TarpcModel TarpcModel.Server TarpcModel.Server.Flow TarpcModel.Server.ObsMon TarpcModel.Server.Mon06
set_option linter.unusedSimpArgs false
set_option linter.unusedVariables false

structure Y (now : Nat) (pend : Option (Nat × Nat)) (B : BW) (S : MV) : Prop where
  gl : ∀ x ∈ S.execs, ∀ eb ∈ B.execs, x.vis = some eb.rid → (eb.gone = true ↔ x.live = false)
  arm : ∀ x ∈ S.execs, x.vis ≠ none → x.live = true → x.armed = true
  nv : ∀ x ∈ S.execs, x.vis = none → ∀ en ∈ S.ents, en.rid = x.rid → (∃ i, pend = some (x.rid, i)) ∨ x.id ∈ S.cq
  pnd : ∀ r i, pend = some (r, i) → (∃ en ∈ S.ents, en.id = i ∧ en.rid = r ∧ now ≤ en.due) ∧
    ∀ x ∈ S.execs, x.rid = r → x.live = true
  rem0 : ∀ en ∈ S.ents, en.rem = 0
  lo : ∀ en ∈ S.ents, ∀ x ∈ S.execs, x.rid = en.rid → ∀ eb ∈ B.execs, x.vis = some eb.rid →
    max eb.deadline eb.yieldedAt ≤ en.due
  near : ∀ i d tr b, Inb.msg (.request i d tr b) ∈ S.inb → d ≤ clampNs
  cqab : ∀ i ∈ S.cq, ∀ eb ∈ B.execs, eb.id = i → eb.abandoned = true
  i3 : S.dropped = false → ∀ en ∈ S.ents, ∀ x ∈ S.execs, x.rid = en.rid → ∀ eb ∈ B.execs, x.vis = some eb.rid →
    eb.abandoned = true → en.id ∈ S.cq
  i2 : S.dropped = false → ∀ p ∈ B.table, ∃ eb ∈ B.execs, eb.rid = p.2 ∧ eb.id = p.1 ∧
    ((∃ en ∈ S.ents, en.id = p.1) ∨ eb.tick ≤ B.now ∨ eb.abandoned = true)

variable {now : Nat} {pend : Option (Nat × Nat)}

/-- a step of the model and of the book: the executions keep their identities, those handed out their liveness and
their guards; the table shrinks (never re-armed); the queues change as described; the book's table shrinks.
(`l`, `p`, `q`: the executions before and after, position by position.) -/
theorem Y.model {B B' : BW} {S S' : MV} (h : Y now pend B S) (hB : BW.le B B') {α : Type} (l : List α) (p q : α → YE)
    (hS : S.execs = l.map p) (hS' : S'.execs = l.map q)
    (hg : ∀ a ∈ l, (q a).rid = (p a).rid ∧ (q a).id = (p a).id ∧ (q a).vis = (p a).vis ∧
      ((p a).vis ≠ none → (q a).live = (p a).live) ∧ ((p a).vis ≠ none → (p a).armed = true → (q a).armed = true))
    (hents : ∀ en' ∈ S'.ents, en' ∈ S.ents)
    (hcq : ∀ i ∈ S'.cq, i ∈ S.cq ∨ ∀ eb ∈ B.execs, eb.id ≠ i)
    (hcq3 : ∀ i ∈ S.cq, i ∈ S'.cq ∨ ∀ en' ∈ S'.ents, en'.id ≠ i)
    (hinb : S'.inb = S.inb)
    (hdr : S'.dropped = false → S.dropped = false)
    (hgone : S'.dropped = false → ∀ en ∈ S.ents, en ∈ S'.ents ∨ (∀ p ∈ B'.table, p.1 ≠ en.id) ∨
      ∀ p ∈ B'.table, p.1 = en.id → ∀ eb ∈ B.execs, eb.rid = p.2 → eb.id = p.1 → eb.tick ≤ B.now ∨ eb.abandoned = true)
    (heid' : ∀ en ∈ S'.ents, ∀ x ∈ S'.execs, x.rid = en.rid → x.id = en.id)
    (hpk : ∀ r i, pend = some (r, i) → (∀ en ∈ S.ents, en.id = i → en ∈ S'.ents) ∧
      ∀ a ∈ l, (p a).rid = r → (q a).live = (p a).live) :
    Y now pend B' S' := by
  have hmem : ∀ x' ∈ S'.execs, ∃ a ∈ l, x' = q a := by
    intro x' hx'; rw [hS'] at hx'; obtain ⟨a, ha, rfl⟩ := List.mem_map.mp hx'; exact ⟨a, ha, rfl⟩
  have hin0 : ∀ a ∈ l, p a ∈ S.execs := fun a ha => by rw [hS]; exact List.mem_map_of_mem ha
  obtain ⟨hnow, hex, htab, _⟩ := hB
  refine ⟨?_, ?_, ?_, ?_, ?_, ?_, ?_, ?_, ?_, ?_⟩
  · intro x' hx' eb heb hv
    obtain ⟨a, ha, rfl⟩ := hmem x' hx'
    rw [hex] at heb
    obtain ⟨_, _, h3, h4, _⟩ := hg a ha
    rw [h3] at hv
    rw [h4 (by rw [hv]; exact Option.some_ne_none _)]
    exact h.gl (p a) (hin0 a ha) eb heb hv
  · intro x' hx' hv hl
    obtain ⟨a, ha, rfl⟩ := hmem x' hx'
    obtain ⟨_, _, h3, h4, h5⟩ := hg a ha
    rw [h3] at hv
    rw [h4 hv] at hl
    exact h5 hv (h.arm (p a) (hin0 a ha) hv hl)
  · intro x' hx' hv en' hen' hr
    obtain ⟨a, ha, rfl⟩ := hmem x' hx'
    obtain ⟨h1, h2, h3, _, _⟩ := hg a ha
    rw [h3] at hv
    rw [h1] at hr ⊢
    rcases h.nv (p a) (hin0 a ha) hv en' (hents en' hen') hr with hp | hc
    · exact Or.inl hp
    · rcases hcq3 _ hc with h6 | h6
      · exact Or.inr (by rw [h2]; exact h6)
      · exfalso
        have := heid' en' hen' (q a) (by rw [hS']; exact List.mem_map_of_mem ha) (by rw [h1]; exact hr.symm)
        exact h6 en' hen' (by rw [← this, h2])
  · intro r i hp
    obtain ⟨⟨en, hen, h1, h2, h3⟩, hl⟩ := h.pnd r i hp
    refine ⟨⟨en, (hpk r i hp).1 en hen h1, h1, h2, h3⟩, ?_⟩
    intro x' hx' hr
    obtain ⟨a, ha, rfl⟩ := hmem x' hx'
    rw [(hg a ha).1] at hr
    rw [(hpk r i hp).2 a ha hr]
    exact hl (p a) (hin0 a ha) hr
  · intro en' hen'; exact h.rem0 en' (hents en' hen')
  · intro en' hen' x' hx' hr eb heb hv
    obtain ⟨a, ha, rfl⟩ := hmem x' hx'
    rw [hex] at heb
    obtain ⟨h1, _, h3, _, _⟩ := hg a ha
    rw [h3] at hv
    rw [h1] at hr
    exact h.lo en' (hents en' hen') (p a) (hin0 a ha) hr eb heb hv
  · intro i d tr b hm
    rw [hinb] at hm
    exact h.near i d tr b hm
  · intro i hi eb heb hei
    rw [hex] at heb
    rcases hcq i hi with h1 | h1
    · exact h.cqab i h1 eb heb hei
    · exact absurd hei (h1 eb heb)
  · intro hd en' hen' x' hx' hr eb heb hv hab
    obtain ⟨a, ha, rfl⟩ := hmem x' hx'
    rw [hex] at heb
    obtain ⟨h1, _, h3, _, _⟩ := hg a ha
    rw [h3] at hv
    rw [h1] at hr
    have := h.i3 (hdr hd) en' (hents en' hen') (p a) (hin0 a ha) hr eb heb hv hab
    rcases hcq3 _ this with h6 | h6
    · exact h6
    · exact absurd rfl (h6 en' hen')
  · intro hd p' hp'
    obtain ⟨eb, heb, h1, h2, h3⟩ := h.i2 (hdr hd) p' (htab p' hp')
    refine ⟨eb, by rw [hex]; exact heb, h1, h2, ?_⟩
    rw [hnow]
    rcases h3 with ⟨en, hen, hei⟩ | h3 | h3
    · rcases hgone hd en hen with h4 | h4 | h4
      · exact Or.inl ⟨en, h4, hei⟩
      · exact absurd hei.symm (h4 p' hp')
      · rcases h4 p' hp' hei.symm eb heb h1 h2 with h5 | h5
        · exact Or.inr (Or.inl h5)
        · exact Or.inr (Or.inr h5)
    · exact Or.inr (Or.inl h3)
    · exact Or.inr (Or.inr h3)

theorem Y.le {B B' : BW} {S : MV} (h : Y now pend B S) (hl : BW.le B B') : Y now pend B' S := by
  obtain ⟨hnow, hex, htab, _⟩ := hl
  refine ⟨by rw [hex]; exact h.gl, h.arm, h.nv, h.pnd, h.rem0, by rw [hex]; exact h.lo, h.near, by rw [hex]; exact h.cqab,
    by rw [hex]; exact h.i3, ?_⟩
  intro hd p hp
  obtain ⟨eb, heb, h1, h2, h3⟩ := h.i2 hd p (htab p hp)
  exact ⟨eb, by rw [hex]; exact heb, h1, h2, by rw [hnow]; exact h3⟩

theorem Y.congr {B : BW} {S S' : MV} (h : Y now pend B S) (hex : S'.execs = S.execs) (hen : S'.ents = S.ents)
    (hcq : S'.cq = S.cq) (hinb : S'.inb = S.inb) (hdr : S'.dropped = S.dropped) : Y now pend B S' :=
  ⟨by rw [hex]; exact h.gl, by rw [hex]; exact h.arm, by rw [hex, hen, hcq]; exact h.nv, by rw [hex, hen]; exact h.pnd,
    by rw [hen]; exact h.rem0, by rw [hex, hen]; exact h.lo, by rw [hinb]; exact h.near, by rw [hcq]; exact h.cqab,
    by rw [hex, hen, hcq, hdr]; exact h.i3, by rw [hen, hdr]; exact h.i2⟩

/-- a request is read off the transport -/
theorem Y.read {B : BW} {S : MV} (h : Y now pend B S) (m : Inb) (l : List Inb) (hinb : S.inb = m :: l) :
    Y now pend B { S with inb := l } :=
  ⟨h.gl, h.arm, h.nv, h.pnd, h.rem0, h.lo,
    fun i d tr b hm => h.near i d tr b (by rw [hinb]; exact List.mem_cons_of_mem _ hm), h.cqab, h.i3, h.i2⟩

/-- the script injects an item; a request's deadline lies within the clamp horizon -/
theorem Y.inject {B : BW} {S : MV} (h : Y now pend B S) (m : Inb)
    (hm : ∀ i d tr b, m = .msg (.request i d tr b) → d ≤ clampNs) : Y now pend B { S with inb := S.inb ++ [m] } := by
  refine ⟨h.gl, h.arm, h.nv, h.pnd, h.rem0, h.lo, ?_, h.cqab, h.i3, h.i2⟩
  intro i d tr b hmem
  rcases List.mem_append.mp hmem with h1 | h1
  · exact h.near i d tr b h1
  · exact hm i d tr b (List.mem_singleton.mp h1).symm

/-- the clock advances between polls -/
theorem Y.advance {B B' : BW} {S : MV} {now' : Nat} (h : Y now none B S) (hex : B'.execs = B.execs)
    (htab : B'.table = B.table) (hn : B.now ≤ B'.now) : Y now' none B' S := by
  refine ⟨by rw [hex]; exact h.gl, h.arm, h.nv, fun r i hp => (by cases hp), h.rem0, by rw [hex]; exact h.lo, h.near,
    by rw [hex]; exact h.cqab, by rw [hex]; exact h.i3, ?_⟩
  intro hd p hp
  rw [htab] at hp
  obtain ⟨eb, heb, h1, h2, h3⟩ := h.i2 hd p hp
  refine ⟨eb, by rw [hex]; exact heb, h1, h2, ?_⟩
  rcases h3 with h3 | h3 | h3
  · exact Or.inl h3
  · exact Or.inr (Or.inl (Nat.le_trans h3 hn))
  · exact Or.inr (Or.inr h3)

/-- a request that was read is started (nothing was pending) -/
theorem Y.start {B : BW} {S S' : MV} (h : Y now none B S) (n i : Nat) (y : YE) (z : ZE)
    (hy : y.rid = n ∧ y.id = i ∧ y.vis = none ∧ y.live = true) (hz : z.id = i ∧ z.rid = n ∧ z.rem = 0 ∧ now ≤ z.due)
    (hex : S'.execs = S.execs ++ [y]) (hzs : S'.ents = S.ents ++ [z])
    (hcq : S'.cq = S.cq) (hinb : S'.inb = S.inb) (hdr : S'.dropped = S.dropped)
    (hfx : ∀ x ∈ S.execs, x.rid ≠ n) (hfe : ∀ en ∈ S.ents, en.rid ≠ n) : Y now (some (n, i)) B S' := by
  have hmx : ∀ x ∈ S'.execs, x ∈ S.execs ∨ x = y := by
    intro x hx; rw [hex] at hx
    rcases List.mem_append.mp hx with h1 | h1
    · exact Or.inl h1
    · exact Or.inr (List.mem_singleton.mp h1)
  have hme : ∀ en ∈ S'.ents, en ∈ S.ents ∨ en = z := by
    intro en hen; rw [hzs] at hen
    rcases List.mem_append.mp hen with h1 | h1
    · exact Or.inl h1
    · exact Or.inr (List.mem_singleton.mp h1)
  have hzin : z ∈ S'.ents := by rw [hzs]; exact List.mem_append_right _ (List.mem_singleton.mpr rfl)
  refine ⟨?_, ?_, ?_, ?_, ?_, ?_, ?_, ?_, ?_, ?_⟩
  · intro x hx eb heb hv
    rcases hmx x hx with h1 | h1
    · exact h.gl x h1 eb heb hv
    · rw [h1, hy.2.2.1] at hv; cases hv
  · intro x hx hv hl
    rcases hmx x hx with h1 | h1
    · exact h.arm x h1 hv hl
    · rw [h1] at hv; exact absurd hy.2.2.1 hv
  · intro x hx hv en hen hr
    rcases hmx x hx with h1 | h1
    · rcases hme en hen with h2 | h2
      · rcases h.nv x h1 hv en h2 hr with ⟨j, hp⟩ | hc
        · cases hp
        · exact Or.inr (by rw [hcq]; exact hc)
      · rw [h2, hz.2.1] at hr; exact absurd hr.symm (hfx x h1)
    · rw [h1, hy.1, hy.2.1]; exact Or.inl ⟨i, rfl⟩
  · intro r j hp
    simp only [Option.some.injEq, Prod.mk.injEq] at hp
    obtain ⟨rfl, rfl⟩ := hp
    refine ⟨⟨z, hzin, hz.1, hz.2.1, hz.2.2.2⟩, ?_⟩
    intro x hx hr
    rcases hmx x hx with h1 | h1
    · exact absurd hr (hfx x h1)
    · rw [h1]; exact hy.2.2.2
  · intro en hen
    rcases hme en hen with h2 | h2
    · exact h.rem0 en h2
    · rw [h2]; exact hz.2.2.1
  · intro en hen x hx hr eb heb hv
    rcases hmx x hx with h1 | h1
    · rcases hme en hen with h2 | h2
      · exact h.lo en h2 x h1 hr eb heb hv
      · rw [h2, hz.2.1] at hr; exact absurd hr (hfx x h1)
    · rw [h1, hy.2.2.1] at hv; cases hv
  · intro j d tr b hm; rw [hinb] at hm; exact h.near j d tr b hm
  · intro j hj eb heb hei; rw [hcq] at hj; exact h.cqab j hj eb heb hei
  · intro hd en hen x hx hr eb heb hv hab
    rw [hdr] at hd
    rcases hmx x hx with h1 | h1
    · rcases hme en hen with h2 | h2
      · rw [hcq]; exact h.i3 hd en h2 x h1 hr eb heb hv hab
      · rw [h2, hz.2.1] at hr; exact absurd hr (hfx x h1)
    · rw [h1, hy.2.2.1] at hv; cases hv
  · intro hd p hp
    rw [hdr] at hd
    obtain ⟨eb, heb, h1, h2, h3⟩ := h.i2 hd p hp
    refine ⟨eb, heb, h1, h2, ?_⟩
    rcases h3 with ⟨en, hen, hei⟩ | h3
    · exact Or.inl ⟨en, by rw [hzs]; exact List.mem_append_left _ hen, hei⟩
    · exact Or.inr h3

/-- the pending request is given up: its guard cancellation is queued -/
theorem Y.giveUp {B : BW} {S S' : MV} (h : Y now (some (r0, i0)) B S) {α : Type} (l : List α) (p q : α → YE)
    (hS : S.execs = l.map p) (hS' : S'.execs = l.map q)
    (hg : ∀ a ∈ l, (q a).rid = (p a).rid ∧ (q a).id = (p a).id ∧ (q a).vis = (p a).vis ∧
      ((p a).rid ≠ r0 → q a = p a))
    (hr0 : ∀ a ∈ l, (p a).rid = r0 → (p a).vis = none ∧ (p a).id = i0)
    (hents : S'.ents = S.ents) (hcq : S'.cq = S.cq ++ [i0]) (hinb : S'.inb = S.inb) (hdr : S'.dropped = S.dropped)
    (hnoeb : ∀ eb ∈ B.execs, eb.id ≠ i0) : Y now none B S' := by
  have hmem : ∀ x' ∈ S'.execs, ∃ a ∈ l, x' = q a := by
    intro x' hx'; rw [hS'] at hx'; obtain ⟨a, ha, rfl⟩ := List.mem_map.mp hx'; exact ⟨a, ha, rfl⟩
  have hin0 : ∀ a ∈ l, p a ∈ S.execs := fun a ha => by rw [hS]; exact List.mem_map_of_mem ha
  have hsame : ∀ a ∈ l, (p a).vis ≠ none → q a = p a := by
    intro a ha hv
    refine (hg a ha).2.2.2 (fun hr => ?_)
    exact hv (hr0 a ha hr).1
  refine ⟨?_, ?_, ?_, fun r i hp => (by cases hp), by rw [hents]; exact h.rem0, ?_, ?_, ?_, ?_, ?_⟩
  · intro x' hx' eb heb hv
    obtain ⟨a, ha, rfl⟩ := hmem x' hx'
    have hv' : (p a).vis = some eb.rid := by rw [← (hg a ha).2.2.1]; exact hv
    rw [hsame a ha (by rw [hv']; exact Option.some_ne_none _)]
    exact h.gl (p a) (hin0 a ha) eb heb hv'
  · intro x' hx' hv hl
    obtain ⟨a, ha, rfl⟩ := hmem x' hx'
    have hv' : (p a).vis ≠ none := by rw [← (hg a ha).2.2.1]; exact hv
    rw [hsame a ha hv'] at hl ⊢
    exact h.arm (p a) (hin0 a ha) hv' hl
  · intro x' hx' hv en hen hr
    obtain ⟨a, ha, rfl⟩ := hmem x' hx'
    rw [hents] at hen
    obtain ⟨h1, h2, h3, _⟩ := hg a ha
    rw [h3] at hv
    rw [h1] at hr ⊢
    rw [h2, hcq]
    rcases h.nv (p a) (hin0 a ha) hv en hen hr with ⟨j, hp⟩ | hc
    · simp only [Option.some.injEq, Prod.mk.injEq] at hp
      right
      have := (hr0 a ha hp.1.symm).2
      rw [this]
      exact List.mem_append_right _ (List.mem_singleton.mpr rfl)
    · exact Or.inr (List.mem_append_left _ hc)
  · intro en hen x' hx' hr eb heb hv
    obtain ⟨a, ha, rfl⟩ := hmem x' hx'
    rw [hents] at hen
    have hv' : (p a).vis = some eb.rid := by rw [← (hg a ha).2.2.1]; exact hv
    rw [(hg a ha).1] at hr
    exact h.lo en hen (p a) (hin0 a ha) hr eb heb hv'
  · intro j d tr b hm; rw [hinb] at hm; exact h.near j d tr b hm
  · intro j hj eb heb hei
    rw [hcq] at hj
    rcases List.mem_append.mp hj with h1 | h1
    · exact h.cqab j h1 eb heb hei
    · rw [List.mem_singleton.mp h1] at hei; exact absurd hei (hnoeb eb heb)
  · intro hd en hen x' hx' hr eb heb hv hab
    obtain ⟨a, ha, rfl⟩ := hmem x' hx'
    rw [hents] at hen
    rw [hdr] at hd
    have hv' : (p a).vis = some eb.rid := by rw [← (hg a ha).2.2.1]; exact hv
    rw [(hg a ha).1] at hr
    rw [hcq]
    exact List.mem_append_left _ (h.i3 hd en hen (p a) (hin0 a ha) hr eb heb hv' hab)
  · intro hd p' hp'
    rw [hdr] at hd
    obtain ⟨eb, heb, h1, h2, h3⟩ := h.i2 hd p' hp'
    exact ⟨eb, heb, h1, h2, by rw [hents]; exact h3⟩

/-- the started request is handed out: the book learns of it -/
theorem Y.yield {rest : List Nat} {B B' : BW} {S S' : MV} {r i : Nat} (h : Y now (some (r, i)) B S) (hX : X rest B S)
    (v d : Nat)
    (hex : S'.execs = S.execs.map (fun x => if x.rid == r then { x with vis := some v } else x))
    (hen : S'.ents = S.ents) (hcq : S'.cq = S.cq) (hinb : S'.inb = S.inb) (hdr : S'.dropped = S.dropped)
    (hb : B'.execs = B.execs ++ [⟨v, i, d, B.now, false, false, false⟩])
    (hbt : B'.table = B.table.filter (·.1 != i) ++ [(i, v)]) (hbn : B'.now = B.now)
    (hr0 : ∀ x ∈ S.execs, x.rid = r → x.vis = none ∧ x.id = i)
    (hv : ∀ x ∈ S.execs, x.vis ≠ some v) (hbv : ∀ eb ∈ B.execs, eb.rid ≠ v)
    (harm : ∀ x ∈ S.execs, x.rid = r → x.armed = true)
    (hlo : ∀ en ∈ S.ents, en.rid = r → max d B.now ≤ en.due) : Y now none B' S' := by
  let g : YE → YE := fun x => if x.rid == r then { x with vis := some v } else x
  have hgr : ∀ x, (g x).rid = x.rid := by intro x; show (if _ then _ else _ : YE).rid = _; split <;> rfl
  have hgi : ∀ x, (g x).id = x.id := by intro x; show (if _ then _ else _ : YE).id = _; split <;> rfl
  have hgl : ∀ x, (g x).live = x.live := by intro x; show (if _ then _ else _ : YE).live = _; split <;> rfl
  have hga : ∀ x, (g x).armed = x.armed := by intro x; show (if _ then _ else _ : YE).armed = _; split <;> rfl
  have hgv1 : ∀ x, x.rid = r → (g x).vis = some v := by
    intro x hx; show (if _ then _ else _ : YE).vis = _; rw [if_pos (by simpa using hx)]
  have hgv2 : ∀ x, x.rid ≠ r → g x = x := by
    intro x hx; show (if _ then _ else _ : YE) = _; rw [if_neg (by simpa using hx)]
  have hmem : ∀ x' ∈ S'.execs, ∃ x ∈ S.execs, x' = g x := by
    intro x' hx'; rw [hex] at hx'; obtain ⟨x, hx, rfl⟩ := List.mem_map.mp hx'; exact ⟨x, hx, rfl⟩
  have hbm : ∀ eb ∈ B'.execs, eb ∈ B.execs ∨ eb = ⟨v, i, d, B.now, false, false, false⟩ := by
    intro eb heb; rw [hb] at heb
    rcases List.mem_append.mp heb with h1 | h1
    · exact Or.inl h1
    · exact Or.inr (List.mem_singleton.mp h1)
  have hbin : ∀ eb ∈ B.execs, eb ∈ B'.execs := fun eb heb => by rw [hb]; exact List.mem_append_left _ heb
  obtain ⟨⟨en0, hen0, hen0i, hen0r, _⟩, hlive0⟩ := h.pnd r i rfl
  refine ⟨?_, ?_, ?_, fun r' i' hp => (by cases hp), by rw [hen]; exact h.rem0, ?_, by rw [hinb]; exact h.near, ?_, ?_, ?_⟩
  · intro x' hx' eb heb hxv
    obtain ⟨x, hx, rfl⟩ := hmem x' hx'
    rw [hgl]
    by_cases hxr : x.rid = r
    · rw [hgv1 x hxr] at hxv
      rcases hbm eb heb with h1 | h1
      · exact absurd (Option.some.inj hxv).symm (hbv eb h1)
      · rw [h1, hlive0 x hx hxr]; simp
    · rw [hgv2 x hxr] at hxv
      rcases hbm eb heb with h1 | h1
      · exact h.gl x hx eb h1 hxv
      · rw [h1] at hxv; exact absurd hxv (hv x hx)
  · intro x' hx' hxv hl
    obtain ⟨x, hx, rfl⟩ := hmem x' hx'
    rw [hgl] at hl
    rw [hga]
    by_cases hxr : x.rid = r
    · exact harm x hx hxr
    · rw [hgv2 x hxr] at hxv; exact h.arm x hx hxv hl
  · intro x' hx' hxv en hen' hr
    obtain ⟨x, hx, rfl⟩ := hmem x' hx'
    rw [hen] at hen'
    by_cases hxr : x.rid = r
    · rw [hgv1 x hxr] at hxv; cases hxv
    · rw [hgv2 x hxr] at hxv hr ⊢
      rcases h.nv x hx hxv en hen' hr with ⟨j, hp⟩ | hc
      · simp only [Option.some.injEq, Prod.mk.injEq] at hp
        exact absurd hp.1.symm hxr
      · exact Or.inr (by rw [hcq]; exact hc)
  · intro en hen' x' hx' hr eb heb hxv
    obtain ⟨x, hx, rfl⟩ := hmem x' hx'
    rw [hen] at hen'
    rw [hgr] at hr
    by_cases hxr : x.rid = r
    · rw [hgv1 x hxr] at hxv
      rcases hbm eb heb with h1 | h1
      · exact absurd (Option.some.inj hxv).symm (hbv eb h1)
      · rw [h1]; exact hlo en hen' (hr.symm.trans hxr)
    · rw [hgv2 x hxr] at hxv
      rcases hbm eb heb with h1 | h1
      · exact h.lo en hen' x hx hr eb h1 hxv
      · rw [h1] at hxv; exact absurd hxv (hv x hx)
  · intro j hj eb heb hei
    rw [hcq] at hj
    rcases hbm eb heb with h1 | h1
    · exact h.cqab j hj eb h1 hei
    · exfalso
      rw [h1] at hei
      have hij : i = j := hei
      obtain ⟨xd, hxd, hxdi, hxdl⟩ := hX.cq j hj
      obtain ⟨x0, hx0, hx0r⟩ := hX.esrc en0 hen0
      have hx0r' : x0.rid = r := hx0r.trans hen0r
      have : x0 = xd := hX.id_inj hx0 hxd (by rw [(hr0 x0 hx0 hx0r').2, hxdi, hij])
      rw [← this, hlive0 x0 hx0 hx0r'] at hxdl
      cases hxdl
  · intro hd en hen' x' hx' hr eb heb hxv hab
    obtain ⟨x, hx, rfl⟩ := hmem x' hx'
    rw [hen] at hen'
    rw [hdr] at hd
    rw [hgr] at hr
    rw [hcq]
    by_cases hxr : x.rid = r
    · rw [hgv1 x hxr] at hxv
      rcases hbm eb heb with h1 | h1
      · exact absurd (Option.some.inj hxv).symm (hbv eb h1)
      · rw [h1] at hab; cases hab
    · rw [hgv2 x hxr] at hxv
      rcases hbm eb heb with h1 | h1
      · exact h.i3 hd en hen' x hx hr eb h1 hxv hab
      · rw [h1] at hxv; exact absurd hxv (hv x hx)
  · intro hd p hp
    rw [hdr] at hd
    rw [hbt] at hp
    rw [hbn, hen]
    rcases List.mem_append.mp hp with h1 | h1
    · obtain ⟨eb, heb, a1, a2, a3⟩ := h.i2 hd p (List.mem_filter.mp h1).1
      exact ⟨eb, hbin eb heb, a1, a2, a3⟩
    · rw [List.mem_singleton.mp h1]
      exact ⟨⟨v, i, d, B.now, false, false, false⟩, by rw [hb]; exact List.mem_append_right _ (List.mem_singleton.mpr rfl),
        rfl, rfl, Or.inl ⟨en0, hen0, hen0i⟩⟩

/-- the book's executions are updated in place, keeping identity, deadline, hand-out time and the `gone` and
`abandoned` marks; its table shrinks -/
theorem Y.book {B B' : BW} {S : MV} (h : Y now pend B S) (f : WB → WB) (hb : B'.execs = B.execs.map f)
    (hf : ∀ e, (f e).rid = e.rid ∧ (f e).id = e.id ∧ (f e).deadline = e.deadline ∧ (f e).yieldedAt = e.yieldedAt ∧
      (f e).abandoned = e.abandoned ∧ (f e).gone = e.gone)
    (htab : ∀ p ∈ B'.table, p ∈ B.table) (hbn : B'.now = B.now) : Y now pend B' S := by
  have hmem : ∀ eb' ∈ B'.execs, ∃ eb ∈ B.execs, eb' = f eb := by
    intro x' hx'; rw [hb] at hx'; obtain ⟨x, hx, rfl⟩ := List.mem_map.mp hx'; exact ⟨x, hx, rfl⟩
  have htick : ∀ e, (f e).tick = e.tick := by
    intro e; unfold WB.tick; rw [(hf e).2.2.1, (hf e).2.2.2.1]
  refine ⟨?_, h.arm, h.nv, h.pnd, h.rem0, ?_, h.near, ?_, ?_, ?_⟩
  · intro x hx eb' heb' hv
    obtain ⟨eb, heb, rfl⟩ := hmem eb' heb'
    rw [(hf eb).1] at hv
    rw [(hf eb).2.2.2.2.2]
    exact h.gl x hx eb heb hv
  · intro en hen x hx hr eb' heb' hv
    obtain ⟨eb, heb, rfl⟩ := hmem eb' heb'
    rw [(hf eb).1] at hv
    rw [(hf eb).2.2.1, (hf eb).2.2.2.1]
    exact h.lo en hen x hx hr eb heb hv
  · intro j hj eb' heb' hei
    obtain ⟨eb, heb, rfl⟩ := hmem eb' heb'
    rw [(hf eb).2.1] at hei
    rw [(hf eb).2.2.2.2.1]
    exact h.cqab j hj eb heb hei
  · intro hd en hen x hx hr eb' heb' hv hab
    obtain ⟨eb, heb, rfl⟩ := hmem eb' heb'
    rw [(hf eb).1] at hv
    rw [(hf eb).2.2.2.2.1] at hab
    exact h.i3 hd en hen x hx hr eb heb hv hab
  · intro hd p hp
    obtain ⟨eb, heb, a1, a2, a3⟩ := h.i2 hd p (htab p hp)
    refine ⟨f eb, by rw [hb]; exact List.mem_map_of_mem heb, (hf eb).1.trans a1, (hf eb).2.1.trans a2, ?_⟩
    rw [htick, (hf eb).2.2.2.2.1, hbn]
    exact a3

/-- an op on an execution (`poll-exec`, `drop-exec` followed by the book's `endOp`, `finish`): the executions keep their
identities; the book's `gone` marks follow their liveness; guard cancellations are queued for those the book newly
knows as abandoned -/
theorem Y.execOp {B B' : BW} {S S' : MV} (h : Y now none B S) {α : Type} (l : List α) (p q : α → YE)
    (hS : S.execs = l.map p) (hS' : S'.execs = l.map q)
    (hg : ∀ a ∈ l, (q a).rid = (p a).rid ∧ (q a).id = (p a).id ∧ (q a).vis = (p a).vis ∧
      ((q a).live = true → (p a).live = true) ∧ ((q a).live = true → (p a).armed = true → (q a).armed = true))
    (f : WB → WB) (hb : B'.execs = B.execs.map f)
    (hf : ∀ e, (f e).rid = e.rid ∧ (f e).id = e.id ∧ (f e).deadline = e.deadline ∧ (f e).yieldedAt = e.yieldedAt ∧
      (e.abandoned = true → (f e).abandoned = true))
    (hgl : ∀ a ∈ l, ∀ eb ∈ B.execs, (p a).vis = some eb.rid → ((f eb).gone = true ↔ (q a).live = false))
    (hents : S'.ents = S.ents) (hinb : S'.inb = S.inb) (hdr : S'.dropped = S.dropped)
    (htab : B'.table = B.table) (hbn : B'.now = B.now)
    (hcq1 : ∀ i ∈ S.cq, i ∈ S'.cq)
    (hcq2 : ∀ i ∈ S'.cq, i ∈ S.cq ∨ ∀ eb ∈ B.execs, eb.id = i → (f eb).abandoned = true)
    (hab : S'.dropped = false → ∀ a ∈ l, ∀ eb ∈ B.execs, (p a).vis = some eb.rid → (f eb).abandoned = true →
      eb.abandoned = true ∨ (p a).id ∈ S'.cq)
    (heid : ∀ en ∈ S.ents, ∀ x ∈ S.execs, x.rid = en.rid → x.id = en.id) : Y now none B' S' := by
  have hmem : ∀ x' ∈ S'.execs, ∃ a ∈ l, x' = q a := by
    intro x' hx'; rw [hS'] at hx'; obtain ⟨a, ha, rfl⟩ := List.mem_map.mp hx'; exact ⟨a, ha, rfl⟩
  have hin0 : ∀ a ∈ l, p a ∈ S.execs := fun a ha => by rw [hS]; exact List.mem_map_of_mem ha
  have hbm : ∀ eb' ∈ B'.execs, ∃ eb ∈ B.execs, eb' = f eb := by
    intro x' hx'; rw [hb] at hx'; obtain ⟨x, hx, rfl⟩ := List.mem_map.mp hx'; exact ⟨x, hx, rfl⟩
  have htick : ∀ e, (f e).tick = e.tick := by
    intro e; unfold WB.tick; rw [(hf e).2.2.1, (hf e).2.2.2.1]
  refine ⟨?_, ?_, ?_, fun r i hp => (by cases hp), by rw [hents]; exact h.rem0, ?_, by rw [hinb]; exact h.near, ?_, ?_, ?_⟩
  · intro x' hx' eb' heb' hv
    obtain ⟨a, ha, rfl⟩ := hmem x' hx'
    obtain ⟨eb, heb, rfl⟩ := hbm eb' heb'
    rw [(hg a ha).2.2.1, (hf eb).1] at hv
    exact hgl a ha eb heb hv
  · intro x' hx' hv hl
    obtain ⟨a, ha, rfl⟩ := hmem x' hx'
    obtain ⟨_, _, h3, h4, h5⟩ := hg a ha
    rw [h3] at hv
    exact h5 hl (h.arm (p a) (hin0 a ha) hv (h4 hl))
  · intro x' hx' hv en hen hr
    obtain ⟨a, ha, rfl⟩ := hmem x' hx'
    rw [hents] at hen
    obtain ⟨h1, h2, h3, _, _⟩ := hg a ha
    rw [h3] at hv
    rw [h1] at hr ⊢
    rcases h.nv (p a) (hin0 a ha) hv en hen hr with ⟨j, hp⟩ | hc
    · cases hp
    · exact Or.inr (by rw [h2]; exact hcq1 _ hc)
  · intro en hen x' hx' hr eb' heb' hv
    obtain ⟨a, ha, rfl⟩ := hmem x' hx'
    obtain ⟨eb, heb, rfl⟩ := hbm eb' heb'
    rw [hents] at hen
    rw [(hg a ha).2.2.1, (hf eb).1] at hv
    rw [(hg a ha).1] at hr
    rw [(hf eb).2.2.1, (hf eb).2.2.2.1]
    exact h.lo en hen (p a) (hin0 a ha) hr eb heb hv
  · intro j hj eb' heb' hei
    obtain ⟨eb, heb, rfl⟩ := hbm eb' heb'
    rw [(hf eb).2.1] at hei
    rcases hcq2 j hj with h1 | h1
    · exact (hf eb).2.2.2.2 (h.cqab j h1 eb heb hei)
    · exact h1 eb heb hei
  · intro hd en hen x' hx' hr eb' heb' hv hab'
    obtain ⟨a, ha, rfl⟩ := hmem x' hx'
    obtain ⟨eb, heb, rfl⟩ := hbm eb' heb'
    rw [hents] at hen
    rw [(hg a ha).2.2.1, (hf eb).1] at hv
    rw [(hg a ha).1] at hr
    rcases hab hd a ha eb heb hv hab' with h1 | h1
    · exact hcq1 _ (h.i3 (by rw [← hdr]; exact hd) en hen (p a) (hin0 a ha) hr eb heb hv h1)
    · rw [← heid en hen (p a) (hin0 a ha) hr]; exact h1
  · intro hd p' hp'
    rw [htab] at hp'
    obtain ⟨eb, heb, a1, a2, a3⟩ := h.i2 (by rw [← hdr]; exact hd) p' hp'
    refine ⟨f eb, by rw [hb]; exact List.mem_map_of_mem heb, (hf eb).1.trans a1, (hf eb).2.1.trans a2, ?_⟩
    rw [htick, hbn, hents]
    rcases a3 with a3 | a3 | a3
    · exact Or.inl a3
    · exact Or.inr (Or.inl a3)
    · exact Or.inr (Or.inr ((hf eb).2.2.2.2 a3))

/-- an idle sweep (generic in the condition): only `expiredSeen` marks change; the table shrinks -/
theorem Y.sweepG {B B' : BW} {S : MV} (h : Y now pend B S) (c : WB → Prop) [DecidablePred c]
    (hb : B'.execs = B.execs.map (fun x => if c x then { x with expiredSeen := true } else x))
    (htab : ∀ p ∈ B'.table, p ∈ B.table) (hbn : B'.now = B.now) : Y now pend B' S := by
  refine h.book (fun x => if c x then { x with expiredSeen := true } else x) hb (fun e => ?_) htab hbn
  by_cases hce : c e
  · rw [if_pos hce]; exact ⟨rfl, rfl, rfl, rfl, rfl, rfl⟩
  · rw [if_neg hce]; exact ⟨rfl, rfl, rfl, rfl, rfl, rfl⟩

end TarpcModel.Server.Tab

import TarpcModel.Lemmas.ServerInv
import TarpcModel.Monitors.Server
/-!
Top-level invariant of the server model and its lifting to traces.

* `Top L g s`: what holds between ops (`TableWF`, `ExecWF`, the ghost's checks all passed, and —
  unless the channel is poisoned by a spin / panic, after which it is never polled again — the ghost
  coupling).  `top_applyOp`: every op preserves it.
* `gev` / `traceGhost`: the ghost folded over a trace; `top_trace` / `run_top` / `trace_gok`: along
  every op list the invariant holds for the state and the ghost of the trace.
* reading trace properties off the ghost flags (`GOk.at_split`, `mem_reads_traceGhost`, …).
* link to the decidable monitors of `Monitors/Server.lean` (`Mon.sim`, `Book.step_reqReads`).
-/
namespace TarpcModel.Server
set_option linter.unusedSimpArgs false
set_option linter.unusedVariables false

/-! ## the invariant between ops -/

/-- The invariant that holds between ops (`g` = ghost so far).  After a spin or a panic the channel
is `poisoned` and never polled again, so the ghost coupling is only claimed while it is not. -/
structure Top (L : Option Nat) (g : Ghost) (s : St) : Prop where
  table : TableWF s
  execs : ExecWF s
  ok : GOk g
  lim : s.limit = L
  coupled : s.poisoned = true ∨ Coupled g s

/-- `Top` with the ghost computed from the observations of the current op -/
def TopS (L : Option Nat) (g0 : Ghost) (s : St) : Prop := Top L (gh L g0 s.obs) s

theorem Mid.top {L g0} {s : St} (h : Mid L g0 s) : TopS L g0 s :=
  ⟨h.table, h.execs, h.ok, h.lim, Or.inr h.coupled⟩

theorem TopS.mid {L g0} {s : St} (h : TopS L g0 s) (hp : s.poisoned = false) : Mid L g0 s :=
  ⟨h.table, h.execs, h.coupled.resolve_left (by simp [hp]), h.ok, h.lim⟩

theorem Top.of_frame {L g} {s s' : St} (h : Top L g s) (h1 : s'.inflight = s.inflight)
    (h2 : s'.timers.kv = s.timers.kv) (h2' : s'.timers.nextKey = s.timers.nextKey)
    (h3 : s'.execs.map ekey = s.execs.map ekey) (h5 : s'.limit = s.limit)
    (h6 : s.poisoned = true → s'.poisoned = true) : Top L g s' := by
  refine ⟨⟨?_, ?_, ⟨?_, ?_⟩⟩, ⟨?_, ?_, ?_⟩, h.ok, ?_, ?_⟩
  · rw [h1]; exact h.table.idNodup
  · rw [h1, h2]; exact h.table.perm
  · rw [h2]; exact h.table.dq.nodup
  · rw [h2, h2']; exact h.table.dq.lt
  · rw [h3]; exact h.execs.rids
  · rw [h1, h3]; exact h.execs.owner
  · rw [h1]; exact h.execs.ridNodup
  · rw [h5]; exact h.lim
  · rcases h.coupled with hp | hc
    · exact Or.inl (h6 hp)
    · exact Or.inr ⟨by rw [h1]; exact hc.read, by rw [h1]; exact hc.unsent⟩

theorem TopS.of_quiet {L g0} {s s' : St} (h : TopS L g0 s) (hq : Quiet s s') : TopS L g0 s' := by
  unfold TopS
  rw [hq.gh]
  exact Top.of_frame h hq.inflight (by rw [hq.timers]) (by rw [hq.timers]) hq.ekeys hq.limit
    (by rw [hq.poisoned]; exact id)

/-! ### `dropServer` -/

theorem foldl_abortExec_spec (es : List SEntry) (s : St) :
    ((es.foldl (fun s e => abortExec s e.rid) s).execs.map ekey).map (·.1) = (s.execs.map ekey).map (·.1)
    ∧ (es.foldl (fun s e => abortExec s e.rid) s).limit = s.limit
    ∧ (es.foldl (fun s e => abortExec s e.rid) s).rqWaiters = s.rqWaiters
    ∧ ∀ L g0, gh L g0 (es.foldl (fun s e => abortExec s e.rid) s).obs = gh L g0 s.obs := by
  induction es generalizing s with
  | nil => simp
  | cons e es ih =>
    simp only [List.foldl_cons]
    obtain ⟨h1, h2, h3, h4⟩ := ih (abortExec s e.rid)
    refine ⟨by rw [h1]; simp, by rw [h2]; simp, ?_, fun L g0 => by rw [h4]; simp⟩
    rw [h3]; unfold abortExec; (repeat' split) <;> simp [wakeExec, updExec] <;> (repeat' split) <;> simp [emit]

theorem foldl_wakeExec_spec (ws : List Nat) (s : St) :
    (ws.foldl wakeExec s).execs.map ekey = s.execs.map ekey
    ∧ (ws.foldl wakeExec s).limit = s.limit
    ∧ ∀ L g0, gh L g0 (ws.foldl wakeExec s).obs = gh L g0 s.obs := by
  induction ws generalizing s with
  | nil => simp
  | cons w ws ih =>
    simp only [List.foldl_cons]
    obtain ⟨h1, h2, h3⟩ := ih (wakeExec s w)
    exact ⟨by rw [h1]; simp, by rw [h2]; simp, fun L g0 => by rw [h3]; simp⟩

theorem top_dropServer {L g0} (s : St) (h : TopS L g0 s) : TopS L g0 (dropServer s) := by
  unfold dropServer
  split
  · exact h.of_quiet (by quiet_tac)
  · simp only []
    have ha := foldl_abortExec_spec s.inflight { s with dropped := true, woken := false }
    revert ha
    generalize (s.inflight.foldl (fun s e => abortExec s e.rid) { s with dropped := true, woken := false }) = s1
    intro ha
    have hw := foldl_wakeExec_spec s1.rqWaiters { s1 with rqWaiters := [] }
    revert hw
    generalize (s1.rqWaiters.foldl wakeExec { s1 with rqWaiters := [] }) = s2
    intro hw
    simp only at ha hw
    unfold TopS
    have hg : gh L g0 s2.obs = gh L g0 s.obs := by rw [hw.2.2, ha.2.2.2]
    refine ⟨⟨by simp, by simp [DelayQ.kv], DelayQ.kvwf_empty⟩, ⟨?_, by simp, by simp⟩, ?_, ?_, Or.inr ⟨by simp, by simp⟩⟩
    · show ((s2.execs.map ekey).map (·.1)) = List.range (s2.execs.map ekey).length
      rw [hw.1, ha.1]
      have := h.execs.rids
      have hl : (s1.execs.map ekey).length = (s.execs.map ekey).length := by
        have := congrArg List.length ha.1
        simpa using this
      rw [hl]; exact this
    · show GOk (gh L g0 s2.obs)
      rw [hg]; exact h.ok
    · show s2.limit = L
      rw [hw.2.1, ha.2.1]; exact h.lim

/-! ### `pollServerKeep` / `pollServer` -/

theorem top_pollServerKeep {L g0} (s : St) (now : Nat) (h : TopS L g0 s)
    (hy : (gh L g0 s.obs).yieldedNow = false) : TopS L g0 (pollServerKeep s now) := by
  unfold pollServerKeep
  split
  · exact h.of_quiet (by quiet_tac)
  · rename_i hc
    simp only [Bool.or_eq_true, not_or, Bool.not_eq_true] at hc
    simp only []
    have hq0 : Quiet s { s with woken := false } := by quiet_tac
    have hm0 : Mid L g0 { s with woken := false } := (h.of_quiet hq0).mid hc.2
    have hm := mid_requestsPollNext (pollFuel { s with woken := false }) _ now hm0
    have hyield := rel_requestsPollNext yieldedRel (pollFuel { s with woken := false }) { s with woken := false } now L g0
    have hitem := requestsPollNext_item (pollFuel { s with woken := false }) { s with woken := false } now
    revert hm hyield hitem
    generalize requestsPollNext (pollFuel { s with woken := false }) { s with woken := false } now = p
    obtain ⟨s2, r⟩ := p
    intro hm hyield hitem
    simp only at hm hyield hitem
    rw [show (gh L g0 ({ s with woken := false } : St).obs) = gh L g0 s.obs from rfl, hy] at hyield
    split
    · -- the poll spun: its observations are discarded, the channel is poisoned
      refine ⟨hm.table.congr rfl rfl, hm.execs.congr rfl rfl, ?_, hm.lim, Or.inl rfl⟩
      show GOk (gh L g0 (Obs.spin (tid s2) :: s.obs))
      simp only [gh_cons, gstep_spin]
      exact h.ok
    · split
      · exact hm.top
      · -- the regular end of a poll: (yielded)? ret counts
        have key : ∀ s3 : St, s3.inflight = s2.inflight → s3.timers = s2.timers →
            s3.execs.map ekey = s2.execs.map ekey → s3.limit = s2.limit →
            ((gh L g0 s3.obs).yieldedNow = true → ∀ l, L = some l → s3.inflight.length ≤ l) →
            (gh L g0 s3.obs).reads = (gh L g0 s2.obs).reads →
            (gh L g0 s3.obs).sent = (gh L g0 s2.obs).sent →
            GOk (gh L g0 s3.obs) →
            ∀ ret, TopS L g0 (emit (emit s3 (.ret (tid s3) ret)) (.counts (tid s3) s3.inflight.length s3.timers.len)) := by
          intro s3 h1 h2 h3 h5 hlim hreads hsent hok ret
          have hm3 : TableWF s3 := hm.table.congr h1 h2
          refine ⟨hm3.congr rfl rfl, (hm.execs.congr h1 h3).congr rfl rfl, ?_, ?_, Or.inr ⟨?_, ?_⟩⟩
          · simp only [emit_obs, gh_cons, gstep_ret, gstep, tid]
            refine ⟨hok.orphan, hok.once, ?_, ?_⟩
            · simp [hok.counts, hm3.len_eq]
            · simp only [Bool.and_eq_true, hok.limit, true_and]
              cases hL : L with
              | none => rfl
              | some l =>
                simp only [Bool.or_eq_true, Bool.not_eq_true', decide_eq_true_eq]
                cases hyn : (gh L g0 s3.obs).yieldedNow with
                | false => left; rw [hL] at hyn; exact hyn
                | true => right; exact hlim hyn l hL
          · show s3.limit = L
            rw [h5]; exact hm.lim
          · intro e he
            simp only [emit_obs, gh_cons, gstep_ret, gstep, tid, emit_inflight] at he ⊢
            rw [h1] at he
            rw [hreads]
            exact hm.coupled.read e he
          · intro e he
            simp only [emit_obs, gh_cons, gstep_ret, gstep, tid, emit_inflight] at he ⊢
            rw [h1] at he
            rw [hsent]
            exact hm.coupled.unsent e he
        have nolim : ∀ s3 : St, gh L g0 s3.obs = gh L g0 s2.obs →
            ((gh L g0 s3.obs).yieldedNow = true → ∀ l, L = some l → s3.inflight.length ≤ l) := by
          intro s3 hg hy3; rw [hg, hyield] at hy3; cases hy3
        cases r with
        | pending => exact key s2 rfl rfl rfl rfl (nolim s2 rfl) rfl rfl hm.ok _
        | none => exact key { s2 with done := some .readyNone } rfl rfl rfl rfl (nolim _ rfl) rfl rfl hm.ok _
        | err a => exact key { s2 with done := some (.readyItemErr a) } rfl rfl rfl rfl (nolim _ rfl) rfl rfl hm.ok _
        | spin => exact key s2 rfl rfl rfl rfl (nolim s2 rfl) rfl rfl hm.ok _
        | item rid =>
          simp only []
          split
          · rename_i e _
            refine key (emit (updExec { s2 with nextVis := s2.nextVis + 1 } rid (fun x => { x with vis := some s2.nextVis }))
                (.yielded s2.nextVis e.id e.deadline e.trace)) rfl rfl (by simp) rfl ?_ rfl rfl ?_ _
            · intro _ l hl
              exact ((hitem s2 rid rfl).1 l (by show s.limit = some l; rw [h.lim, hl])).1
            · exact ⟨hm.ok.orphan, hm.ok.once, hm.ok.counts, hm.ok.limit⟩
          · exact key s2 rfl rfl rfl rfl (nolim s2 rfl) rfl rfl hm.ok _

theorem top_pollServer {L g0} (s : St) (now : Nat) (h : TopS L g0 s)
    (hy : (gh L g0 s.obs).yieldedNow = false) : TopS L g0 (pollServer s now) := by
  unfold pollServer
  simp only []
  split
  · exact top_dropServer _ (top_pollServerKeep s now h hy)
  · split
    · exact Top.of_frame (top_pollServerKeep s now h hy) rfl rfl rfl rfl rfl (fun hp => hp)
    · exact top_pollServerKeep s now h hy

/-! ## every op preserves the invariant; lifting to traces -/

/-- a new op begins: nothing has been handed out in it yet -/
def gop (g : Ghost) : Ghost := { g with yieldedNow := false }

/-- the ghost over trace events -/
def gev (L : Option Nat) (g : Ghost) : SEv → Ghost
  | .op _ => gop g
  | .obs o => gstep L g o

/-- the ghost after a whole event list -/
def traceGhost (L : Option Nat) (g : Ghost) (evs : List SEv) : Ghost := evs.foldl (gev L) g

theorem Top.gop {L g} {s : St} (h : Top L g s) : Top L (gop g) s :=
  ⟨h.table, h.execs, ⟨h.ok.orphan, h.ok.once, h.ok.counts, h.ok.limit⟩, h.lim,
   h.coupled.imp id (fun hc => ⟨hc.read, hc.unsent⟩)⟩

/-- `Top` does not look at the observation list -/
theorem Top.set_obs {L g} {s : St} (h : Top L g s) (l : List Obs) : Top L g { s with obs := l } :=
  ⟨h.table.congr rfl rfl, h.execs.congr rfl rfl, h.ok, h.lim,
   h.coupled.imp id (fun hc => ⟨hc.read, hc.unsent⟩)⟩

theorem quiet_foldl_took (ms : List Msg) (s : St) :
    Quiet s (ms.foldl (fun s m => emit s (.took (tid s) m)) s) := by
  induction ms generalizing s with
  | nil => exact Quiet.refl s
  | cons m ms ih => exact (by quiet_tac : Quiet s (emit s (.took (tid s) m))).trans (ih _)

@[simp] theorem onAdvance_timers_kv (s : St) (now : Nat) : (onAdvance s now).timers.kv = s.timers.kv := by
  unfold onAdvance; (repeat' split) <;> simp [DelayQ.kv]

@[simp] theorem onAdvance_timers_nextKey (s : St) (now : Nat) :
    (onAdvance s now).timers.nextKey = s.timers.nextKey := by
  unfold onAdvance; (repeat' split) <;> simp

theorem top_onAdvance {L g0} (s : St) (now : Nat) (h : TopS L g0 s) : TopS L g0 (onAdvance s now) := by
  unfold TopS
  rw [onAdvance_gh]
  exact Top.of_frame h (by simp) (by simp) (by simp) (by simp) (by simp) (by simp)

/-- **Every op preserves the invariant.** -/
theorem top_applyOp {L g0} (c : Sys) (op : SOp) (h : TopS L g0 c.s)
    (hy : (gh L g0 c.s.obs).yieldedNow = false) : TopS L g0 (applyOp c op).s := by
  cases op with
  | pollServer => exact top_pollServer _ _ h hy
  | dropServer => exact top_dropServer _ h
  | pollExec r => exact h.of_quiet (quiet_pollExec _ _ _)
  | dropExec r => exact h.of_quiet (quiet_dropExec _ _ _)
  | finish r res => exact h.of_quiet (quiet_finishHandler _ _ _)
  | injectReq id d tr b => exact h.of_quiet (quiet_liftT _ _)
  | injectCancel id tr => exact h.of_quiet (quiet_liftT _ _)
  | injectErr => exact h.of_quiet (quiet_liftT _ _)
  | eof => exact h.of_quiet (quiet_liftT _ _)
  | setReady b => exact h.of_quiet (quiet_liftT _ _)
  | setFlush b => exact h.of_quiet (quiet_liftT _ _)
  | fault k => exact h.of_quiet (by quiet_tac)
  | faultSkip n => exact h.of_quiet (by quiet_tac)
  | selfWake b => exact h.of_quiet (by quiet_tac)
  | take n =>
    exact h.of_quiet ((by quiet_tac : Quiet c.s { c.s with t := (c.s.t.take n).1 }).trans (quiet_foldl_took _ _))
  | advance n => exact top_onAdvance _ _ h

theorem init_top (L : Option Nat) (respCap tcap : Nat) (coupled : Bool) :
    Top L {} (initSys L respCap tcap coupled).s := by
  refine ⟨⟨by simp [initSys, init], by simp [initSys, init, DelayQ.kv], DelayQ.kvwf_empty⟩,
    ⟨by simp [initSys, init], by simp [initSys, init], by simp [initSys, init]⟩, ⟨rfl, rfl, rfl, rfl⟩, rfl,
    Or.inr ⟨by simp [initSys, init], by simp [initSys, init]⟩⟩

theorem traceGhost_obs (L : Option Nat) (g : Ghost) (obs : List Obs) :
    traceGhost L g (obs.reverse.map SEv.obs) = gh L g obs := by
  simp only [traceGhost, List.foldl_map, gev, gh]
  rw [List.foldl_reverse]

theorem traceGhost_append (L : Option Nat) (g : Ghost) (a b : List SEv) :
    traceGhost L g (a ++ b) = traceGhost L (traceGhost L g a) b := by
  simp [traceGhost, List.foldl_append]

/-- the ghost after one more op of the trace -/
theorem traceGhost_cons (L : Option Nat) (g : Ghost) (c : Sys) (op : SOp) (ops : List SOp) :
    traceGhost L g (trace c (op :: ops)) =
      traceGhost L (gh L (gop g) (applyOp { c with s := { c.s with obs := [] } } op).s.obs)
        (trace (stepOp c op).1 ops) := by
  simp only [trace, stepOp]
  rw [traceGhost, List.foldl_cons, ← traceGhost, traceGhost_append, traceGhost_obs]
  rfl

/-- **Main induction**: along every op sequence the invariant holds for the final state and the
ghost of the whole trace. -/
theorem top_trace {L : Option Nat} (ops : List SOp) (c : Sys) (g : Ghost) (h : Top L g c.s) :
    Top L (traceGhost L g (trace c ops)) (ops.foldl (fun c op => (stepOp c op).1) c).s := by
  induction ops generalizing c g with
  | nil => exact h
  | cons op ops ih =>
    rw [traceGhost_cons, List.foldl_cons]
    apply ih
    have h0 : TopS L (gop g) ({ c with s := { c.s with obs := [] } } : Sys).s := h.gop.set_obs []
    have := top_applyOp { c with s := { c.s with obs := [] } } op h0 rfl
    exact Top.set_obs this []

theorem trace_gok (L : Option Nat) (respCap tcap : Nat) (coupled : Bool) (ops : List SOp) :
    GOk (traceGhost L {} (trace (initSys L respCap tcap coupled) ops)) :=
  (top_trace ops _ _ (init_top L respCap tcap coupled)).ok

/-! ### reading properties of the trace off the ghost flags -/

theorem gev_ok_mono (L : Option Nat) (g : Ghost) (e : SEv) :
    ((gev L g e).okOrphan = true → g.okOrphan = true) ∧ ((gev L g e).okOnce = true → g.okOnce = true)
    ∧ ((gev L g e).okCounts = true → g.okCounts = true) ∧ ((gev L g e).okLimit = true → g.okLimit = true) := by
  cases e with
  | op o => simp [gev, gop]
  | obs o =>
    cases o with
    | tSend ep m ok => cases m <;> simp_all [gev, gstep]
    | tNext ep r =>
      have := gstep_tNext_spec L g ep r
      simp only [gev]
      refine ⟨by rw [this.2.2.1]; exact id, by rw [this.2.2.2.1]; exact id, by rw [this.2.2.2.2.1]; exact id,
        by rw [this.2.2.2.2.2.1]; exact id⟩
    | counts ep a b => cases ep <;> simp_all [gev, gstep]
    | _ => simp [gev, gstep]

theorem GOk.of_traceGhost {L : Option Nat} {g : Ghost} {evs : List SEv} (h : GOk (traceGhost L g evs)) : GOk g := by
  induction evs generalizing g with
  | nil => exact h
  | cons e evs ih =>
    have h1 : GOk (gev L g e) := ih (by simpa [traceGhost] using h)
    have := gev_ok_mono L g e
    exact ⟨this.1 h1.orphan, this.2.1 h1.once, this.2.2.1 h1.counts, this.2.2.2 h1.limit⟩

/-- if the whole trace passes the ghost checks, so does the step at any position -/
theorem GOk.at_split {L : Option Nat} {g : Ghost} {l1 l2 : List SEv} {e : SEv}
    (h : GOk (traceGhost L g (l1 ++ e :: l2))) : GOk (gev L (traceGhost L g l1) e) := by
  rw [traceGhost_append] at h
  have : traceGhost L (traceGhost L g l1) (e :: l2) = traceGhost L (gev L (traceGhost L g l1) e) l2 := rfl
  rw [this] at h
  exact h.of_traceGhost

/-- the states the trace is computed from: each op starts with an empty observation buffer -/
def run (c : Sys) (ops : List SOp) : Sys := ops.foldl (fun c op => (stepOp c op).1) c

theorem run_top (L : Option Nat) (respCap tcap : Nat) (coupled : Bool) (ops : List SOp) :
    Top L (traceGhost L {} (trace (initSys L respCap tcap coupled) ops)) (run (initSys L respCap tcap coupled) ops).s :=
  top_trace ops _ _ (init_top L respCap tcap coupled)

/-- ids recorded as read come from `Request` messages read earlier in the trace -/
theorem gev_reads (L : Option Nat) (g : Ghost) (e : SEv) (x : Nat) (h : x ∈ (gev L g e).reads) :
    x ∈ g.reads ∨ ∃ ep d tr b, e = SEv.obs (.tNext ep (.item (.request x d tr b))) := by
  cases e with
  | op o => left; simpa [gev, gop] using h
  | obs o =>
    cases o with
    | tSend ep m ok => left; cases m <;> simpa [gev, gstep] using h
    | tNext ep r =>
      cases r with
      | item m =>
        cases m with
        | request id d tr b =>
          simp only [gev, gstep, List.mem_cons] at h
          rcases h with rfl | h
          · right; exact ⟨ep, d, tr, b, rfl⟩
          · left; exact h
        | _ => left; simpa [gev] using h
      | _ => left; simpa [gev] using h
    | counts ep a b => left; cases ep <;> simpa [gev, gstep] using h
    | _ => left; simpa [gev, gstep] using h

theorem mem_reads_traceGhost (L : Option Nat) (g : Ghost) (evs : List SEv) (x : Nat)
    (h : x ∈ (traceGhost L g evs).reads) :
    x ∈ g.reads ∨ ∃ ep d tr b, SEv.obs (.tNext ep (.item (.request x d tr b))) ∈ evs := by
  induction evs generalizing g with
  | nil => left; exact h
  | cons e evs ih =>
    rcases ih (gev L g e) (by simpa [traceGhost] using h) with h1 | ⟨ep, d, tr, b, h1⟩
    · rcases gev_reads L g e x h1 with h2 | ⟨ep, d, tr, b, rfl⟩
      · left; exact h2
      · right; exact ⟨ep, d, tr, b, List.mem_cons_self ..⟩
    · right; exact ⟨ep, d, tr, b, List.mem_cons_of_mem _ h1⟩

/-- an id stays marked "answered" until a `Request` with that id is read -/
theorem gev_sent_persist (L : Option Nat) (g : Ghost) (e : SEv) (x : Nat) (h : x ∈ g.sent)
    (hne : ∀ ep d tr b, e ≠ SEv.obs (.tNext ep (.item (.request x d tr b)))) : x ∈ (gev L g e).sent := by
  cases e with
  | op o => simpa [gev, gop] using h
  | obs o =>
    cases o with
    | tSend ep m ok => cases m <;> simp [gev, gstep, h]
    | tNext ep r =>
      cases r with
      | item m =>
        cases m with
        | request id d tr b =>
          simp only [gev, gstep, List.mem_filter, bne_iff_ne, ne_eq]
          refine ⟨h, ?_⟩
          intro hx; subst hx
          exact hne ep d tr b rfl
        | _ => simpa [gev] using h
      | _ => simpa [gev] using h
    | counts ep a b => cases ep <;> simpa [gev, gstep] using h
    | _ => simpa [gev, gstep] using h

theorem traceGhost_sent_persist (L : Option Nat) (g : Ghost) (evs : List SEv) (x : Nat) (h : x ∈ g.sent)
    (hne : ∀ ep d tr b, SEv.obs (.tNext ep (.item (.request x d tr b))) ∉ evs) :
    x ∈ (traceGhost L g evs).sent := by
  induction evs generalizing g with
  | nil => exact h
  | cons e evs ih =>
    have h1 := gev_sent_persist L g e x h (fun ep d tr b he => hne ep d tr b (he ▸ List.mem_cons_self ..))
    exact ih (gev L g e) h1 (fun ep d tr b hm => hne ep d tr b (List.mem_cons_of_mem _ hm))

/-- `yieldedNow` stays set until the next op -/
theorem traceGhost_yielded_persist (L : Option Nat) (g : Ghost) (evs : List SEv) (h : g.yieldedNow = true)
    (hno : ∀ o, SEv.op o ∉ evs) : (traceGhost L g evs).yieldedNow = true := by
  induction evs generalizing g with
  | nil => exact h
  | cons e evs ih =>
    apply ih
    · cases e with
      | op o => exact absurd (List.mem_cons_self ..) (hno o)
      | obs o =>
        cases o with
        | tSend ep m ok => cases m <;> simpa [gev, gstep] using h
        | tNext ep r => simp only [gev]; rw [(gstep_tNext_spec L g ep r).2.2.2.2.2.2.1]; exact h
        | counts ep a b => cases ep <;> simpa [gev, gstep] using h
        | yielded => simp [gev, gstep]
        | _ => simpa [gev, gstep] using h
    · intro o hm; exact hno o (List.mem_cons_of_mem _ hm)

/-! ## link to the decidable monitors (`Monitors/Server.lean`) -/

/-- the book a check sees for an event -/
def bookOf (b : Book) : SEv → Book
  | .op _ => b.endOp
  | _ => b

theorem Mon.step_def {σ} (check : Book → σ → SEv → σ × Option String) (m : Mon σ) (e : SEv) :
    Mon.step check m e =
      match (if (bookOf m.book e).spun then (m.st, none) else check (bookOf m.book e) m.st e).2 with
      | some why =>
          Mon.fail { m with st := (if (bookOf m.book e).spun then (m.st, none) else check (bookOf m.book e) m.st e).1,
                            book := (m.book.step e).noteFinish e } why
      | none => { m with st := (if (bookOf m.book e).spun then (m.st, none) else check (bookOf m.book e) m.st e).1,
                         book := (m.book.step e).noteFinish e } := by
  cases e <;> rfl

theorem Mon.step_book {σ} (check : Book → σ → SEv → σ × Option String) (m : Mon σ) (e : SEv) :
    (Mon.step check m e).book = (m.book.step e).noteFinish e := by
  rw [Mon.step_def]
  split
  · unfold Mon.fail; split <;> rfl
  · rfl

theorem Mon.step_bad_none {σ} (check : Book → σ → SEv → σ × Option String) (m : Mon σ) (e : SEv)
    (hb : m.bad = none) (hc : (check (bookOf m.book e) m.st e).2 = none) : (Mon.step check m e).bad = none := by
  rw [Mon.step_def]
  have : (if (bookOf m.book e).spun then (m.st, none) else check (bookOf m.book e) m.st e).2 = none := by
    split
    · rfl
    · exact hc
  rw [this]
  exact hb

/-- a check that never fires is accepted -/
theorem Mon.foldl_bad_none {σ} (check : Book → σ → SEv → σ × Option String) (evs : List SEv) (m : Mon σ)
    (hb : m.bad = none) (hc : ∀ b st e, e ∈ evs → (check b st e).2 = none) :
    (evs.foldl (Mon.step check) m).bad = none := by
  induction evs generalizing m with
  | nil => exact hb
  | cons e evs ih =>
    simp only [List.foldl_cons]
    apply ih
    · exact Mon.step_bad_none check m e hb (hc _ _ e (List.mem_cons_self ..))
    · intro b st e' he'; exact hc b st e' (List.mem_cons_of_mem _ he')

/-- Simulation between a monitor run and the ghost: if a relation between the monitor's book and
the ghost is kept by every event and makes the check pass wherever the ghost's flags stay set, the
monitor accepts every event list on which the ghost's flags stay set. -/
theorem Mon.sim {σ} (L : Option Nat) (check : Book → σ → SEv → σ × Option String) (R : Book → Ghost → Prop)
    (hstep : ∀ b g e, R b g → R ((b.step e).noteFinish e) (gev L g e))
    (hcheck : ∀ b g st e, R b g → GOk (gev L g e) → (check (bookOf b e) st e).2 = none)
    (evs : List SEv) (m : Mon σ) (g : Ghost) (hb : m.bad = none) (hr : R m.book g)
    (hok : GOk (traceGhost L g evs)) : (evs.foldl (Mon.step check) m).bad = none := by
  induction evs generalizing m g with
  | nil => exact hb
  | cons e evs ih =>
    simp only [List.foldl_cons]
    have hok' : GOk (traceGhost L (gev L g e) evs) := hok
    apply ih _ (gev L g e)
    · exact Mon.step_bad_none check m e hb (hcheck _ _ _ _ hr hok'.of_traceGhost)
    · rw [Mon.step_book]; exact hstep _ _ _ hr
    · exact hok'

@[simp] theorem Book.endOp_reqReads (b : Book) : b.endOp.reqReads = b.reqReads := by
  unfold Book.endOp; simp only []; (repeat' split) <;> rfl

@[simp] theorem Book.sweepOne_reqReads (b : Book) : b.sweepOne.reqReads = b.reqReads := by
  unfold Book.sweepOne; simp only []; (repeat' split) <;> rfl

@[simp] theorem Book.updExec_reqReads (b : Book) (r f) : (b.updExec r f).reqReads = b.reqReads := rfl
@[simp] theorem Book.untrack_reqReads (b : Book) (id) : (b.untrack id).reqReads = b.reqReads := rfl
@[simp] theorem Book.sweep_reqReads (b : Book) : b.sweep.reqReads = b.reqReads := rfl
@[simp] theorem Book.noteFinish_reqReads (b : Book) (e : SEv) : (b.noteFinish e).reqReads = b.reqReads := by
  unfold Book.noteFinish; split <;> rfl

/-- the monitor's list of request reads only ever grows, by exactly the `Request` messages read -/
theorem Book.step_reqReads (b : Book) (e : SEv) :
    (b.step e).reqReads =
      match e with
      | .obs (.tNext _ (.item (.request id d tr body))) => b.reqReads ++ [(id, d, tr, body)]
      | _ => b.reqReads := by
  cases e with
  | op o => cases o <;> (try simp [Book.step]) <;> (repeat' split) <;> (try simp)
  | obs o =>
    cases o with
    | tNext ep r =>
      cases r with
      | item m => cases m <;> (try simp [Book.step]) <;> (repeat' split) <;> (try simp)
      | _ => (try simp [Book.step]) <;> (repeat' split) <;> (try simp)
    | tSend ep m ok => cases m <;> (try simp [Book.step]) <;> (repeat' split) <;> (try simp)
    | ret t r => cases t <;> cases r <;> (try simp [Book.step]) <;> (repeat' split) <;> (try simp)
    | handler r ev t => cases ev <;> (try simp [Book.step]) <;> (repeat' split) <;> (try simp)
    | counts ep a b => cases ep <;> (try simp [Book.step]) <;> (repeat' split) <;> (try simp)
    | _ => (try simp [Book.step]) <;> (repeat' split) <;> (try simp)

/-- the monitor's book knows every id the ghost has recorded as read -/
def ReadsKnown (b : Book) (g : Ghost) : Prop := ∀ x ∈ g.reads, b.reqReads.any (·.1 == x) = true

theorem readsKnown_step (L : Option Nat) (b : Book) (g : Ghost) (e : SEv) (h : ReadsKnown b g) :
    ReadsKnown ((b.step e).noteFinish e) (gev L g e) := by
  intro x hx
  rw [Book.noteFinish_reqReads, Book.step_reqReads]
  rcases gev_reads L g e x hx with h1 | ⟨ep, d, tr, bd, rfl⟩
  · have := h x h1
    split
    · simp only [List.any_append, this, Bool.true_or]
    · exact this
  · simp


end TarpcModel.Server

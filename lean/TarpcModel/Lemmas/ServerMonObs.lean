import TarpcModel.Lemmas.ServerTable
import TarpcModel.Monitors.Server
/-!
Which observations one poll of the request stream can emit.

`PollQuiet p`: a class `p` of observations that contains none of the kinds `Requests::poll_next` emits
(transport calls, their violations, wake-ups, spin / panic).  `Flt p s s'`: `s'` has the same observations of
class `p` as `s`, in the same order.  `flt_requestsPollNext`: a poll of the request stream emits no observation of
a poll-quiet class (`ret`, `counts`, `yielded`, `handler`, … are emitted around it, not by it).
-/
namespace TarpcModel.Server.ObsMon
open TarpcModel TarpcModel.Server TarpcModel.Server.Flow
set_option linter.unusedSimpArgs false
set_option linter.unusedVariables false

structure PollQuiet (p : Obs → Bool) : Prop where
  tReady : ∀ ep r, p (.tReady ep r) = false
  tSend : ∀ ep m ok, p (.tSend ep m ok) = false
  tFlush : ∀ ep r, p (.tFlush ep r) = false
  tNext : ∀ ep r, p (.tNext ep r) = false
  tViolation : ∀ ep w, p (.tViolation ep w) = false
  wake : ∀ t, p (.wake t) = false
  spin : ∀ t, p (.spin t) = false
  panic : ∀ t w, p (.panic t w) = false

/-- the same observations of class `p`, in the same order -/
def Flt (p : Obs → Bool) (s s' : St) : Prop := s'.obs.filter p = s.obs.filter p

section
variable {p : Obs → Bool}

theorem Flt.refl (s : St) : Flt p s s := rfl
theorem Flt.trans {a b c : St} (h1 : Flt p a b) (h2 : Flt p b c) : Flt p a c := Eq.trans h2 h1
theorem Flt.of_eq {s s' : St} (h : s'.obs = s.obs) : Flt p s s' := by unfold Flt; rw [h]
theorem Flt.pre {s s0 s' : St} (h : Flt p s0 s') (h1 : s0.obs = s.obs) : Flt p s s' := (Flt.of_eq h1).trans h
theorem Flt.emit (s : St) (o : Obs) (h : p o = false) : Flt p s (emit s o) := by
  unfold Flt; simp [Server.emit, List.filter_cons, h]

theorem flt_updExec (s : St) (r : Nat) (f : Exec → Exec) : Flt p s (updExec s r f) := Flt.of_eq rfl

variable (hp : PollQuiet p)
include hp

theorem flt_emitViolations (s : St) (n : Nat) : Flt p s (emitViolations s n) := by
  unfold emitViolations
  generalize ((s.t.violations.take (s.t.violations.length - n)).reverse) = l
  induction l generalizing s with
  | nil => exact Flt.refl s
  | cons a l ih => simp only [List.foldl_cons]; exact (Flt.emit s _ (hp.tViolation _ _)).trans (ih _)

theorem flt_wakeServer (s : St) : Flt p s (wakeServer s) := by
  unfold wakeServer; split
  · exact Flt.refl s
  · exact (Flt.emit _ _ (hp.wake _)).pre rfl

theorem flt_wakeExec (s : St) (r : Nat) : Flt p s (wakeExec s r) := by
  unfold wakeExec; repeat' split
  all_goals first | exact Flt.refl s | exact (flt_updExec s _ _).trans (Flt.emit _ _ (hp.wake _))

theorem flt_abortExec (s : St) (r : Nat) : Flt p s (abortExec s r) := by
  unfold abortExec; split
  · exact Flt.refl s
  · simp only; split
    · exact (flt_updExec s _ _).trans (flt_wakeExec hp _ _)
    · exact flt_updExec s _ _

theorem flt_removeTimer (s : St) (k : Nat) : Flt p s (removeTimer s k) := by
  unfold removeTimer; split
  · simp only; split
    · exact (flt_wakeServer hp _).pre rfl
    · exact Flt.of_eq rfl
  · exact (Flt.emit _ _ (hp.panic _ _)).pre rfl

theorem flt_removeRequest (s : St) (id : Nat) : Flt p s (removeRequest s id).1 := by
  unfold removeRequest; split
  · exact Flt.refl s
  · exact (flt_removeTimer hp _ _).pre rfl

theorem flt_cancelRequest (s : St) (id : Nat) : Flt p s (cancelRequest s id).1 := by
  unfold cancelRequest; split
  · exact Flt.refl s
  · exact ((flt_abortExec hp _ _).trans (flt_removeTimer hp _ _)).pre rfl

theorem flt_rearm {s s2 : St} {now : Nat} {en : SEntry} (hr : rearm s now en = some s2) : Flt p s s2 := by
  rcases rearm_cases s now en with ⟨_, he⟩ | ⟨q, key, w, _, he⟩ <;> rw [he] at hr <;> cases hr
  cases w
  · exact Flt.of_eq rfl
  · exact (flt_wakeServer hp s).trans (Flt.of_eq rfl)

theorem flt_expireStep (s : St) (now : Nat) : Flt p s (expireStep s now).1 := by
  have hs := expireStep_shape s now
  revert hs; generalize expireStep s now = q; intro hs
  obtain ⟨s', r⟩ := q
  dsimp only at hs ⊢
  cases hs with
  | idleNone q hp' => exact Flt.of_eq rfl
  | idlePending q hp' => exact Flt.of_eq rfl
  | orphan q e hp' hf => exact Flt.of_eq rfl
  | abort q e en hp' hf h0 => exact (flt_abortExec hp _ _).pre rfl
  | rearmed q e en s2 hp' hf h0 hr => exact (flt_rearm hp hr).pre rfl
  | panicked q e en hp' hf h0 hr => exact (Flt.emit _ _ (hp.panic _ _)).pre rfl

theorem flt_pollExpired (s : St) (now : Nat) : Flt p s (pollExpired s now).1 :=
  pollExpired_rel (R := Flt p) now Flt.refl (fun _ _ _ => Flt.trans) (fun s => Flt.emit s _ (hp.spin _))
    (fun s => flt_expireStep hp s now) s

theorem flt_startRequest (s : St) (now id d : Nat) (tr : Trace) (b : Nat) : Flt p s (startRequest s now id d tr b).1 := by
  unfold startRequest; split
  · exact Flt.refl s
  · split
    · exact (Flt.emit _ _ (hp.panic _ _)).pre rfl
    · simp only; split
      · exact (flt_wakeServer hp s).trans (Flt.of_eq rfl)
      · exact Flt.of_eq rfl

theorem flt_rqRelease (s : St) : Flt p s (rqRelease s) := by
  unfold rqRelease; split
  · exact (flt_wakeExec hp _ _).pre rfl
  · exact Flt.of_eq rfl

theorem flt_dropOffered (s : St) (rid id : Nat) : Flt p s (dropOffered s rid id) := by
  unfold dropOffered; simp only; split
  · exact (flt_wakeServer hp _).pre rfl
  · exact Flt.of_eq rfl

theorem flt_tReady (s : St) : Flt p s (tReady s).1 := by
  unfold tReady
  simp only
  have h0 : Flt p s (emitViolations { s with t := s.t.pollReady.1 } s.t.violations.length) :=
    (flt_emitViolations hp _ _).pre rfl
  have h : Flt p s (Server.emit (emitViolations { s with t := s.t.pollReady.1 } s.t.violations.length)
      (.tReady (tid s) s.t.pollReady.2.1)) := h0.trans (Flt.emit _ _ (hp.tReady _ _))
  split
  · exact h.trans (flt_wakeServer hp _)
  · exact h

theorem flt_tFlush (s : St) : Flt p s (tFlush s).1 := by
  unfold tFlush
  simp only
  have h0 : Flt p s (emitViolations { s with t := s.t.pollFlush.1 } s.t.violations.length) :=
    (flt_emitViolations hp _ _).pre rfl
  have h : Flt p s (Server.emit (emitViolations { s with t := s.t.pollFlush.1 } s.t.violations.length)
      (.tFlush (tid s) s.t.pollFlush.2.1)) := h0.trans (Flt.emit _ _ (hp.tFlush _ _))
  split
  · exact h.trans (flt_wakeServer hp _)
  · exact h

theorem flt_tSend (s : St) (m : Msg) : Flt p s (tSend s m).1 := by
  unfold tSend
  simp only
  have h0 : Flt p s (emitViolations { s with t := (s.t.startSend m).1 } s.t.violations.length) :=
    (flt_emitViolations hp _ _).pre rfl
  exact h0.trans (Flt.emit _ _ (hp.tSend _ _ _))

theorem flt_tNext (s : St) : Flt p s (tNext s).1 := by
  unfold tNext
  split
  · exact Flt.refl s
  · simp only
    have h : Flt p s (Server.emit { s with t := s.t.pollNext.1 } (.tNext (tid s) s.t.pollNext.2)) :=
      (Flt.emit _ _ (hp.tNext _ _)).pre rfl
    split
    · exact h.trans (Flt.of_eq rfl)
    · exact h

theorem flt_bpCancel (s : St) : Flt p s (bpCancel s).1 := by
  unfold bpCancel; split
  · exact (flt_removeRequest hp _ _).pre rfl
  · exact Flt.of_eq rfl

theorem flt_bpOther (s : St) (nx : NextRes) : Flt p s (bpOther s nx).1 := by
  unfold bpOther; split
  · exact flt_cancelRequest hp _ _
  all_goals exact Flt.refl s

theorem flt_bpStep (s : St) (now : Nat) : Flt p s (bpStep s now).1 := by
  have h2 : Flt p s (bp2 s now) := (flt_bpCancel hp s).trans (flt_pollExpired hp _ now)
  have h3 : Flt p s (bp3 s now) := h2.trans (flt_tNext hp _)
  have ho := bpStep_out s now
  generalize bpStep s now = out at ho ⊢
  cases ho with
  | poisoned2 => exact h2
  | readErr => exact h3
  | started => exact h3.trans (flt_startRequest hp _ _ _ _ _ _)
  | startPanic => exact h3.trans (flt_startRequest hp _ _ _ _ _ _)
  | duplicate => exact h3.trans (flt_startRequest hp _ _ _ _ _ _)
  | otherPoisoned => exact h3.trans (flt_bpOther hp _ _)
  | again => exact h3.trans (flt_bpOther hp _ _)
  | closed => exact h3.trans (flt_bpOther hp _ _)
  | pending => exact h3.trans (flt_bpOther hp _ _)

theorem flt_basePollNext (fuel : Nat) (s : St) (now : Nat) : Flt p s (basePollNext fuel s now).1 :=
  basePollNext_loop (Flt p s) now (fun s1 h => h.trans (flt_bpStep hp s1 now))
    (fun s1 h => h.trans (Flt.emit _ _ (hp.spin _))) fuel s (Flt.refl s)

theorem flt_baseStartSend (s : St) (id : Nat) (res : Res) : Flt p s (baseStartSend s id res).1 := by
  unfold baseStartSend
  have h1 := flt_removeRequest hp s id
  split
  · next s1 heq => rw [heq] at h1; exact h1.trans (flt_tSend hp _ _)
  · next s1 heq => rw [heq] at h1; exact h1

theorem flt_limitedLegacy (limit now : Nat) : ∀ (fuel : Nat) (s : St), Flt p s (limitedPollNextLegacy limit fuel s now).1 := by
  intro fuel
  induction fuel with
  | zero => intro s; exact Flt.emit _ _ (hp.spin _)
  | succ n ih =>
    intro s
    unfold limitedPollNextLegacy
    split
    · have h1 := flt_tReady hp s
      split
      · next s1 heq => rw [heq] at h1; exact h1
      · next s1 heq => rw [heq] at h1; exact h1
      · next s1 heq =>
        rw [heq] at h1
        have h2 := h1.trans (flt_basePollNext hp (baseFuel s1) s1 now)
        split
        · next s2 ex heq2 =>
          rw [heq2] at h2
          have h3 := h2.trans (flt_baseStartSend hp s2 ex.id (.err throttleKindIdx))
          split
          · next s3 heq3 => rw [heq3] at h3; exact h3
          · next s3 r hne heq3 =>
            rw [heq3] at h3
            exact (h3.trans (flt_updExec _ _ _)).trans (ih _)
        · next r hne => exact h2
    · exact flt_basePollNext hp _ s now

theorem flt_limitedFixed (limit now : Nat) : ∀ (fuel : Nat) (s : St), Flt p s (limitedPollNextFixed limit fuel s now).1 := by
  intro fuel
  induction fuel with
  | zero => intro s; exact Flt.emit _ _ (hp.spin _)
  | succ n ih =>
    intro s
    rw [limitedPollNextFixed_succ]
    have hpre : Flt p s (fixedPre limit s).1 := by
      unfold fixedPre
      split
      · have h1 := flt_tReady hp s
        split <;> (rename_i heq; rw [heq] at h1; exact h1)
      · exact Flt.refl s
    split
    · next s1 r heq => rw [heq] at hpre; exact hpre
    · next s1 heq =>
      rw [heq] at hpre
      have h2 := hpre.trans (flt_basePollNext hp (baseFuel s1) s1 now)
      split
      · next s2 ex heq2 =>
        rw [heq2] at h2
        split
        · have h3 := h2.trans (flt_baseStartSend hp s2 ex.id (.err throttleKindIdx))
          split
          · next s3 heq3 => rw [heq3] at h3; exact h3
          · next s3 r hne heq3 =>
            rw [heq3] at h3
            exact (h3.trans (flt_updExec _ _ _)).trans (ih _)
        · exact h2
      · exact h2

theorem flt_channelPollNext (s : St) (now : Nat) : Flt p s (channelPollNext s now).1 := by
  unfold channelPollNext
  split
  · exact flt_basePollNext hp _ s now
  · split
    · exact flt_limitedFixed hp _ now _ s
    · exact flt_limitedLegacy hp _ now _ s

theorem flt_ensureOnce (s : St) : Flt p s (ensureOnce s).1 := by
  unfold ensureOnce
  have h1 := flt_tReady hp s
  split
  · next s1 heq => rw [heq] at h1; exact h1
  · next s1 heq => rw [heq] at h1; exact h1
  · next s1 heq =>
    rw [heq] at h1
    have h2 := h1.trans (flt_tFlush hp s1)
    split
    · next s2 heq2 => rw [heq2] at h2; exact h2
    · next s2 heq2 => rw [heq2] at h2; exact h2
    · next s2 heq2 =>
      rw [heq2] at h2
      have h3 := h2.trans (flt_tReady hp s2)
      split <;> (rename_i heq3; rw [heq3] at h3; exact h3)

theorem flt_ensureLoop : ∀ (fuel : Nat) (s : St), Flt p s (ensureLoop fuel s).1 := by
  intro fuel
  induction fuel with
  | zero => intro s; exact Flt.emit _ _ (hp.spin _)
  | succ n ih =>
    intro s
    unfold ensureLoop
    have h1 := flt_tReady hp s
    split
    · next s1 heq => rw [heq] at h1; exact h1
    · next s1 heq => rw [heq] at h1; exact h1
    · next s1 heq =>
      rw [heq] at h1
      have h2 := h1.trans (flt_tFlush hp s1)
      split
      · next s2 heq2 => rw [heq2] at h2; exact h2
      · next s2 heq2 => rw [heq2] at h2; exact h2
      · next s2 heq2 => rw [heq2] at h2; exact h2.trans (ih s2)

theorem flt_ensureWriteable (s : St) : Flt p s (ensureWriteable s).1 := by
  unfold ensureWriteable
  split
  · exact flt_ensureLoop hp _ s
  · exact flt_ensureOnce hp s

theorem flt_flushArm (s : St) (rc : Bool) : Flt p s (flushArm s rc).1 := by
  unfold flushArm
  have h1 := flt_tFlush hp s
  split
  · next s1 heq => rw [heq] at h1; exact h1
  · next s1 heq => rw [heq] at h1; exact h1
  · next s1 heq => rw [heq] at h1; split <;> exact h1

theorem flt_pumpWrite (s : St) (rc : Bool) : Flt p s (pumpWrite s rc).1 := by
  unfold pumpWrite
  have h1 := flt_ensureWriteable hp s
  split
  · next s1 heq => rw [heq] at h1; exact h1.trans (flt_flushArm hp _ _)
  · next s1 a heq => rw [heq] at h1; exact h1
  · next s1 heq => rw [heq] at h1; exact h1
  · next s1 heq =>
    rw [heq] at h1
    split
    · next id res rest hq =>
      have h2 := (h1.trans ((flt_rqRelease hp { s1 with respQ := rest }).pre rfl)).trans
        (flt_baseStartSend hp (rqRelease { s1 with respQ := rest }) id res)
      simp only
      split
      · next s3 heq3 => rw [heq3] at h2; exact h2
      · next s3 r hne heq3 => rw [heq3] at h2; exact h2
    · exact h1.trans ((flt_flushArm hp _ _).pre rfl)

/-- **One poll of the request stream emits no observation of a poll-quiet class.** -/
theorem flt_requestsPollNext (now : Nat) : ∀ (fuel : Nat) (s : St), Flt p s (requestsPollNext fuel s now).1 := by
  intro fuel
  induction fuel with
  | zero => intro s; exact Flt.emit _ _ (hp.spin _)
  | succ n ih =>
    intro s
    rw [requestsPollNext_succ]
    have h1 := flt_channelPollNext hp s now
    split
    · next s1 a heq => rw [heq] at h1; exact h1
    · next s1 heq => rw [heq] at h1; exact h1
    · next s1 read hne1 hne2 heq =>
      rw [heq] at h1
      have h2 : Flt p s (armRead s1 read) := h1.trans (by unfold armRead; split <;> exact Flt.of_eq rfl)
      have h3 := h2.trans (flt_pumpWrite hp (armRead s1 read) (readClosedOf read))
      split
      · next s3 a heq3 =>
        rw [heq3] at h3
        refine h3.trans ?_
        unfold dropRead; split
        · exact flt_dropOffered hp _ _ _
        · exact Flt.refl _
      · next s3 heq3 => rw [heq3] at h3; exact h3
      · next s3 write hne3 hne4 heq3 =>
        rw [heq3] at h3
        split
        · exact h3
        · exact h3
        · exact h3.trans (ih s3)
        · exact h3

end
/-! ### the other ops -/

/-- a class of observations that contains none of: wake-ups, `noop`, `took` -/
structure WakeQuiet (p : Obs → Bool) : Prop where
  wake : ∀ t, p (.wake t) = false
  noop : p .noop = false
  took : ∀ ep m, p (.took ep m) = false

/-- … nor the `ret` of an execution -/
structure SendQuiet (p : Obs → Bool) : Prop extends WakeQuiet p where
  retExec : ∀ v r, p (.ret (.exec v) r) = false

/-- … nor any handler event: none of the kinds the execution-side ops and the external events emit -/
structure ExecQuiet (p : Obs → Bool) : Prop extends SendQuiet p where
  handler : ∀ r ev t, p (.handler r ev t) = false

section
variable {p : Obs → Bool}

theorem fx_wakeServer (hq : WakeQuiet p) (s : St) : (wakeServer s).obs.filter p = s.obs.filter p := by
  unfold wakeServer; split <;> simp [Server.emit, hq.wake]

theorem fx_wakeExec (hq : WakeQuiet p) (s : St) (r : Nat) : (wakeExec s r).obs.filter p = s.obs.filter p := by
  unfold wakeExec; (repeat' split) <;> simp [Server.emit, Server.updExec, hq.wake]

theorem fx_abortExec (hq : WakeQuiet p) (s : St) (r : Nat) : (abortExec s r).obs.filter p = s.obs.filter p := by
  unfold abortExec; (repeat' split) <;> simp [Server.emit, Server.updExec, fx_wakeExec hq]

theorem fx_rqRelease (hq : WakeQuiet p) (s : St) : (rqRelease s).obs.filter p = s.obs.filter p := by
  unfold rqRelease; split <;> simp [fx_wakeExec hq]

theorem fx_guardDrop (hq : WakeQuiet p) (s : St) (e : Exec) : (guardDrop s e).obs.filter p = s.obs.filter p := by
  unfold guardDrop
  (repeat' split) <;> (try simp [fx_wakeServer hq]) <;> (repeat' split) <;> (try simp [fx_wakeServer hq])

theorem fx_queueAndFinish (hq : SendQuiet p) (s : St) (e : Exec) (res : Res) (n : Nat) :
    (queueAndFinish s e res n).obs.filter p = s.obs.filter p := by
  unfold queueAndFinish
  (repeat' split) <;> (try simp [Server.emit, Server.updExec, hq.retExec, fx_wakeServer hq.toWakeQuiet]) <;>
    (repeat' split) <;> (try simp [Server.emit, Server.updExec, hq.retExec, fx_wakeServer hq.toWakeQuiet])

theorem fx_trySend (hq : SendQuiet p) (s : St) (e : Exec) (res : Res) (n : Nat) :
    (trySend s e res n).obs.filter p = s.obs.filter p := by
  unfold trySend
  (repeat' split) <;> simp [fx_queueAndFinish hq, Server.emit, Server.updExec, hq.retExec]

theorem fx_pollExec (hq : ExecQuiet p) (s : St) (vid n : Nat) : (pollExec s vid n).obs.filter p = s.obs.filter p := by
  unfold pollExec
  (repeat' split) <;> (try simp [fx_trySend hq.toSendQuiet, fx_rqRelease hq.toWakeQuiet, Server.emit, Server.updExec, hq.retExec, hq.handler, hq.noop]) <;>
    (repeat' split) <;> (try simp [fx_trySend hq.toSendQuiet, fx_rqRelease hq.toWakeQuiet, Server.emit, Server.updExec, hq.retExec, hq.handler, hq.noop])

theorem fx_dropExec (hq : ExecQuiet p) (s : St) (vid n : Nat) : (dropExec s vid n).obs.filter p = s.obs.filter p := by
  unfold dropExec
  (repeat' split) <;> (try simp [fx_guardDrop hq.toWakeQuiet, fx_rqRelease hq.toWakeQuiet, Server.emit, Server.updExec, hq.handler, hq.noop]) <;>
    (repeat' split) <;> (try simp [fx_guardDrop hq.toWakeQuiet, fx_rqRelease hq.toWakeQuiet, Server.emit, Server.updExec, hq.handler, hq.noop])

theorem fx_finishHandler (hq : WakeQuiet p) (s : St) (vid : Nat) (res : Res) :
    (finishHandler s vid res).obs.filter p = s.obs.filter p := by
  unfold finishHandler
  (repeat' split) <;> (try simp [fx_wakeExec hq, Server.emit, Server.updExec, hq.noop])

theorem fx_dropServer (hq : WakeQuiet p) (s : St) : (dropServer s).obs.filter p = s.obs.filter p := by
  unfold dropServer
  split
  · simp [Server.emit, hq.noop]
  · simp only
    rw [foldl_wakeExec_frame (fun s => s.obs.filter p) (fun s r => fx_wakeExec hq s r)]
    simp only
    rw [foldl_abortExec_frame (fun s => s.obs.filter p) (fun s r => fx_abortExec hq s r)]

theorem fx_liftT (hq : WakeQuiet p) (s : St) (r : SimT × Bool) : (liftT s r).obs.filter p = s.obs.filter p := by
  unfold liftT; simp only; split <;> simp [fx_wakeServer hq]

theorem fx_onAdvance (hq : WakeQuiet p) (s : St) (n : Nat) : (onAdvance s n).obs.filter p = s.obs.filter p := by
  unfold onAdvance; (repeat' split) <;> simp [fx_wakeServer hq]

theorem fx_took (hq : WakeQuiet p) (ms : List Msg) (s : St) :
    (ms.foldl (fun s m => Server.emit s (.took (tid s) m)) s).obs.filter p = s.obs.filter p := by
  induction ms generalizing s with
  | nil => rfl
  | cons m ms ih => simp only [List.foldl_cons]; rw [ih]; simp [Server.emit, hq.took]

/-- every op but `pollServer`, `pollExec`, `dropExec` emits no observation of a wake-quiet class -/
theorem fx_applyOp_wake (hq : WakeQuiet p) (c : Sys) (op : SOp) (hop : op ≠ .pollServer)
    (h1 : ∀ v, op ≠ .pollExec v) (h2 : ∀ v, op ≠ .dropExec v) :
    (applyOp c op).s.obs.filter p = c.s.obs.filter p := by
  cases op with
  | pollServer => exact absurd rfl hop
  | dropServer => exact fx_dropServer hq _
  | pollExec r => exact absurd rfl (h1 r)
  | dropExec r => exact absurd rfl (h2 r)
  | finish r res => exact fx_finishHandler hq _ _ _
  | injectReq id d tr b => exact fx_liftT hq _ _
  | injectCancel id tr => exact fx_liftT hq _ _
  | injectErr => exact fx_liftT hq _ _
  | eof => exact fx_liftT hq _ _
  | setReady b => exact fx_liftT hq _ _
  | setFlush b => exact fx_liftT hq _ _
  | fault k => rfl
  | faultSkip n => rfl
  | selfWake b => rfl
  | take n => exact fx_took hq _ _
  | advance n => exact fx_onAdvance hq _ _

/-- every op but `pollServer` emits no observation of an exec-quiet class -/
theorem fx_applyOp (hq : ExecQuiet p) (c : Sys) (op : SOp) (hop : op ≠ .pollServer) :
    (applyOp c op).s.obs.filter p = c.s.obs.filter p := by
  cases op with
  | pollExec r => exact fx_pollExec hq _ _ _
  | dropExec r => exact fx_dropExec hq _ _ _
  | pollServer => exact absurd rfl hop
  | dropServer => exact fx_dropServer hq.toWakeQuiet _
  | finish r res => exact fx_finishHandler hq.toWakeQuiet _ _ _
  | injectReq id d tr b => exact fx_liftT hq.toWakeQuiet _ _
  | injectCancel id tr => exact fx_liftT hq.toWakeQuiet _ _
  | injectErr => exact fx_liftT hq.toWakeQuiet _ _
  | eof => exact fx_liftT hq.toWakeQuiet _ _
  | setReady b => exact fx_liftT hq.toWakeQuiet _ _
  | setFlush b => exact fx_liftT hq.toWakeQuiet _ _
  | fault k => rfl
  | faultSkip n => rfl
  | selfWake b => rfl
  | take n => exact fx_took hq.toWakeQuiet _ _
  | advance n => exact fx_onAdvance hq.toWakeQuiet _ _

end
end TarpcModel.Server.ObsMon

import TarpcModel.Lemmas.ServerTab2
import TarpcModel.Lemmas.ServerTabY
/-!
The third coupling (`Tab.Y`) walked through one poll of the request stream, next to `Tab.NN`; the table clause of the
C11 monitor (`checkC11Idle`) on the `counts` observation that ends an idle poll.
-/
namespace TarpcModel.Server.Tab
open TarpcModel TarpcModel.Server TarpcModel.Server.Flow TarpcModel.Server.ObsMon TarpcModel.Server.Mon06
open TarpcModel.Server.Mon11
set_option linter.unusedSimpArgs false
set_option linter.unusedVariables false

/-! ## the clauses of `checkC11Rest` -/

/-- the first clause of `checkC11Rest`: no more requests in flight than the monitor's table lists -/
def checkC11Bound (b : Book) (_ : Unit) : SEv → Unit × Option String
  | .obs (.counts (.server _) inflight _) =>
      if !b.failed && inflight > b.table.length then
        ((), some s!"{inflight} requests reported in flight, only {b.table.length} yielded requests can still be tracked")
      else ((), none)
  | _ => ((), none)

/-- the other two: the stalled limiter, and the idle channel (as many in flight as the table lists) -/
def checkC11Idle (b : Book) (_ : Unit) : SEv → Unit × Option String
  | .obs (.counts (.server _) inflight _) =>
      if b.stalled && !b.failed && inflight > b.sweep.table.length then
        ((), some s!"limiter at its limit and sink not ready: {inflight} reported in flight, only {b.sweep.table.length} yielded request(s) unfinished (cancellations / expirations are not processed until the sink is ready)")
      else if b.idleNow && inflight != b.table.length && !b.reuseTainted then
        ((), some s!"channel idle: {inflight} reported in flight, {b.table.length} yielded requests unanswered, uncancelled, unexpired and not abandoned")
      else ((), none)
  | _ => ((), none)

theorem checkC11Rest_split (b : Book) (u : Unit) (e : SEv) :
    (checkC11Rest b u e).2 = (checkC11Bound b u e).2.orElse fun _ => (checkC11Idle b u e).2 := by
  cases e with
  | op o => rfl
  | obs o =>
    cases o <;> try rfl
    rename_i ep a t
    cases ep <;> try rfl
    simp only [checkC11Rest, checkC11Bound, checkC11Idle]
    by_cases h1 : (!b.failed && decide (a > b.table.length)) = true
    · rw [if_pos h1, if_pos h1]; rfl
    · rw [if_neg h1, if_neg h1]; rfl

def chk11 (b : Book) (o : Obs) : Option String := (checkC11Idle b () (.obs o)).2

theorem chk11_other (b : Book) (o : Obs) (h : ∀ k a t, o ≠ .counts (.server k) a t) : chk11 b o = none := by
  unfold chk11
  cases o with
  | counts ep a t =>
    cases ep with
    | server k => exact absurd rfl (h k a t)
    | _ => rfl
  | _ => rfl

theorem chk11_mild (o : Obs) (h2 : isOut o = false) (b : Book) : chk11 b o = none :=
  chk11_other b o (fun k a t h => by rw [h] at h2; cases h2)

theorem CK11.extW {b0 : Book} {s s' : St} (hx : ExtW s s') (h : CK chk11 b0 s.obs) : CK chk11 b0 s'.obs := by
  obtain ⟨l, e, p⟩ := hx
  rw [e]
  exact h.append l (fun o ho b => chk11_mild o (p o ho).2 b)

/-! ## model steps that abort and forget, seen exactly (no timer is re-armed) -/

/-- `g` keeps an execution's identity, number, phase; it does not disarm its guard -/
def Gy (g : Exec → Exec) : Prop :=
  ∀ e, (g e).rid = e.rid ∧ (g e).id = e.id ∧ (g e).vis = e.vis ∧ execLive (g e) = execLive e ∧
    (e.guardArmed = true → (g e).guardArmed = true)

structure MY (s s' : St) : Prop where
  ex : ∃ g : Exec → Exec, s'.execs = s.execs.map g ∧ Gy g
  ents : ∀ en' ∈ s'.inflight, en' ∈ s.inflight
  cq : s'.cancelQ = s.cancelQ
  inb : s'.t.inbound = s.t.inbound
  dr : s'.dropped = s.dropped

theorem Gy.id : Gy id := fun e => ⟨rfl, rfl, rfl, rfl, fun h => h⟩

theorem MY.of_frame {s s' : St} (h1 : s'.execs = s.execs) (h2 : s'.inflight = s.inflight) (h3 : s'.cancelQ = s.cancelQ)
    (h5 : s'.t.inbound = s.t.inbound) (h6 : s'.dropped = s.dropped) : MY s s' :=
  ⟨⟨id, by simp [h1], Gy.id⟩, fun en' h => by rw [← h2]; exact h, h3, h5, h6⟩

theorem MY.refl (s : St) : MY s s := MY.of_frame rfl rfl rfl rfl rfl

theorem MY.trans {a b c : St} (h1 : MY a b) (h2 : MY b c) : MY a c := by
  obtain ⟨g1, e1, i1⟩ := h1.ex
  obtain ⟨g2, e2, i2⟩ := h2.ex
  refine ⟨⟨g2 ∘ g1, by rw [e2, e1, List.map_map], fun e => ?_⟩, fun en h => h1.ents en (h2.ents en h),
    h2.cq.trans h1.cq, h2.inb.trans h1.inb, h2.dr.trans h1.dr⟩
  obtain ⟨p1, p2, p3, p4, p5⟩ := i1 e
  obtain ⟨q1, q2, q3, q4, q5⟩ := i2 (g1 e)
  exact ⟨q1.trans p1, q2.trans p2, q3.trans p3, q4.trans p4, fun h => q5 (p5 h)⟩

theorem MY.pre {s s0 s' : St} (h : MY s0 s') (h1 : s0.execs = s.execs) (h2 : s0.inflight = s.inflight)
    (h3 : s0.cancelQ = s.cancelQ) (h5 : s0.t.inbound = s.t.inbound) (h6 : s0.dropped = s.dropped) : MY s s' :=
  (MY.of_frame h1 h2 h3 h5 h6).trans h

theorem my_emit (s : St) (o : Obs) : MY s (emit s o) := MY.of_frame rfl rfl rfl rfl rfl

theorem my_updExec (s : St) (r : Nat) (f : Exec → Exec) (hf : Gy f) : MY s (updExec s r f) := by
  refine ⟨⟨fun e => if e.rid == r then f e else e, rfl, fun e => ?_⟩, fun en' h => h, rfl, rfl, rfl⟩
  simp only; split
  · exact hf e
  · exact Gy.id e

theorem my_wakeServer (s : St) : MY s (wakeServer s) :=
  MY.of_frame (by simp) (by simp) (by simp) (by simp) (by simp)

theorem my_wakeExec (s : St) (r : Nat) : MY s (wakeExec s r) := by
  unfold wakeExec; repeat' split
  all_goals first
    | exact MY.refl s
    | exact (my_updExec s r (fun e => { e with woken := true }) (fun e => ⟨rfl, rfl, rfl, rfl, fun h => h⟩)).trans
        (my_emit _ _)

theorem my_abortExec (s : St) (r : Nat) : MY s (abortExec s r) := by
  unfold abortExec; split
  · exact MY.refl s
  · simp only
    have h1 : MY s (updExec s r (fun e => { e with aborted := true, abortWaker := false })) :=
      my_updExec s r _ (fun e => ⟨rfl, rfl, rfl, rfl, fun h => h⟩)
    split
    · exact h1.trans (my_wakeExec _ r)
    · exact h1

theorem my_removeTimer (s : St) (k : Nat) : MY s (removeTimer s k) :=
  MY.of_frame (by simp) (by simp) (by simp) (by simp) (by simp)

theorem my_forget_abort (s : St) (id : Nat) (r : Nat) (q : DelayQ) :
    MY s (abortExec { s with timers := q, inflight := s.inflight.filter (·.id != id) } r) := by
  have hm := my_abortExec { s with timers := q, inflight := s.inflight.filter (·.id != id) } r
  exact ⟨hm.ex, fun en' h' => (List.mem_filter.mp (hm.ents en' h')).1, hm.cq, hm.inb, hm.dr⟩

theorem my_expireStep {now : Nat} {s : St} (hrem : ∀ en ∈ s.inflight, en.remainder = 0) :
    MY s (expireStep s now).1 ∧ ∀ en ∈ (expireStep s now).1.inflight, en.remainder = 0 := by
  have hs := expireStep_shape s now
  revert hs; generalize expireStep s now = p; intro hs
  obtain ⟨s', r⟩ := p
  dsimp only at hs ⊢
  cases hs with
  | idleNone q hp => exact ⟨MY.of_frame rfl rfl rfl rfl rfl, hrem⟩
  | idlePending q hp => exact ⟨MY.of_frame rfl rfl rfl rfl rfl, hrem⟩
  | orphan q e hp hf => exact ⟨MY.of_frame rfl rfl rfl rfl rfl, hrem⟩
  | abort q e en hp hf h0 =>
    have hm := my_forget_abort s e.val en.rid q
    exact ⟨hm, fun en' h' => hrem en' (hm.ents en' h')⟩
  | rearmed q e en s2 hp hf h0 hr =>
    exfalso
    have hen : en ∈ s.inflight := (findEntry_some hf).1
    have : restOf now en = 0 := by unfold restOf; rw [hrem en hen]; simp
    exact h0 this
  | panicked q e en hp hf h0 hr => exact ⟨MY.of_frame rfl rfl rfl rfl rfl, hrem⟩

theorem my_pollExpired {now : Nat} {s : St} (hrem : ∀ en ∈ s.inflight, en.remainder = 0) : MY s (pollExpired s now).1 := by
  have := pollExpired_ind (P := fun s1 => (∀ en ∈ s1.inflight, en.remainder = 0) ∧ MY s s1) now
    (fun s1 h1 => ⟨h1.1, h1.2.trans (my_emit _ _)⟩)
    (fun s1 h1 => ⟨(my_expireStep h1.1).2, h1.2.trans (my_expireStep h1.1).1⟩) s ⟨hrem, MY.refl s⟩
  exact this.2

theorem my_cancelRequest (s : St) (id : Nat) : MY s (cancelRequest s id).1 := by
  unfold cancelRequest
  split
  · exact MY.refl s
  · next e hf => exact (my_forget_abort s id e.rid s.timers).trans (my_removeTimer _ _)

theorem my_removeRequest (s : St) (i : Nat) : MY s (removeRequest s i).1 := by
  unfold removeRequest
  split
  · exact MY.refl s
  · next e hf =>
    refine MY.trans (b := { s with inflight := s.inflight.filter (·.id != i) }) ?_ (my_removeTimer _ _)
    exact ⟨⟨id, by simp, Gy.id⟩, fun en' h' => (List.mem_filter.mp h').1, rfl, rfl, rfl⟩

/-- what the expiry path removes was due -/
theorem expireStep_due {now : Nat} {s : St} (h : TInv now s) (hrem : ∀ en ∈ s.inflight, en.remainder = 0) :
    ∀ en ∈ s.inflight, en ∈ (expireStep s now).1.inflight ∨ ceilMs en.dueAt * nsPerMs ≤ now := by
  have hs := expireStep_shape s now
  revert hs; generalize expireStep s now = p; intro hs
  obtain ⟨s', r⟩ := p
  dsimp only at hs ⊢
  cases hs with
  | idleNone q hp => exact fun en hen => Or.inl hen
  | idlePending q hp => exact fun en hen => Or.inl hen
  | orphan q e hp hf => exact fun en hen => Or.inl hen
  | abort q e en' hp hf h0 =>
    intro en hen
    by_cases hc : en.id = e.val
    · right
      obtain ⟨en2, hen2, hk, hv, huniq, _⟩ := h.popped hp
      have := huniq en' hf; subst this
      have hee : en = en' := eq_of_map_nodup (·.id) h.ids hen hen2 (hc.trans hv.symm)
      subst hee
      obtain ⟨hcore, _⟩ := DelayQ.pollExpired_expired hp h.wf
      have hne := DelayQ.pollExpired_not_early hp h.sound
      have htk := h.tk en hen _ hcore hk.symm
      have hw : (DelayQ.core e).2.2 = e.whenMs := rfl
      rw [hw] at htk
      rw [← htk]; exact hne
    · left
      have : (abortExec { s with timers := q, inflight := s.inflight.filter (·.id != e.val) } en'.rid).inflight =
          s.inflight.filter (·.id != e.val) := by simp
      rw [this]
      exact List.mem_filter.mpr ⟨hen, by simpa using hc⟩
  | rearmed q e en s2 hp hf h0 hr =>
    exfalso
    have hen : en ∈ s.inflight := (findEntry_some hf).1
    have : restOf now en = 0 := by unfold restOf; rw [hrem en hen]; simp
    exact h0 this
  | panicked q e en hp hf h0 hr => exact fun en hen => Or.inl hen

theorem pollExpired_due {now : Nat} {s : St} (h : TInv now s) (hrem : ∀ en ∈ s.inflight, en.remainder = 0) :
    ∀ en ∈ s.inflight, en ∈ (pollExpired s now).1.inflight ∨ ceilMs en.dueAt * nsPerMs ≤ now := by
  have := pollExpired_ind (P := fun s1 => TInv now s1 ∧ (∀ en ∈ s1.inflight, en.remainder = 0) ∧
      ∀ en ∈ s.inflight, en ∈ s1.inflight ∨ ceilMs en.dueAt * nsPerMs ≤ now) now
    (fun s1 h1 => ⟨h1.1.of_sim rfl rfl (ExecsSim.refl _), h1.2.1, h1.2.2⟩)
    (fun s1 h1 => ⟨h1.1.expireStep, (my_expireStep h1.2.1).2, fun en hen => by
      rcases h1.2.2 en hen with h2 | h2
      · exact expireStep_due h1.1 h1.2.1 en h2
      · exact Or.inr h2⟩) s ⟨h, hrem, fun en hen => Or.inl hen⟩
  exact this.2.2

/-! ## the walked invariant, next to `NN` -/

structure NY (b0 : Book) (now : Nat) (pend : Option (Nat × Nat)) (rest : List Nat) (s : St) : Prop where
  nn : NN b0 now pend rest s
  ck : CK chk11 b0 s.obs
  y : (bo b0 s.obs).spun = true ∨ Y now pend (bw (bo b0 s.obs)) (mv s)

variable {b0 : Book} {now : Nat} {rest : List Nat}

/-- a part of the model that reads nothing and answers nothing runs -/
theorem NY_model {pend pend' : Option (Nat × Nat)} {s s' : St} (hx : ExtW s s') (hnn : NN b0 now pend' rest s')
    (hY : K now pend (bview (bo b0 s.obs)) (sview s) → X rest (bw (bo b0 s.obs)) (mv s) →
      Y now pend (bw (bo b0 s.obs)) (mv s) → Y now pend' (bw (bo b0 s.obs)) (mv s'))
    (h : NY b0 now pend rest s) : NY b0 now pend' rest s' := by
  refine ⟨hnn, CK11.extW hx h.ck, ?_⟩
  rcases bo_extW b0 hx with hs | ⟨_, hs, hle⟩
  · exact Or.inl hs
  · rcases h.y with h1 | hY0
    · exact Or.inl (hs.trans h1)
    · rcases h.nn.n with h1 | ⟨hK, hX⟩
      · exact Or.inl (hs.trans h1)
      · exact Or.inr ((hY hK hX hY0).le hle)

theorem NY_qm {pend : Option (Nat × Nat)} {s s' : St} (hq : QM s s') (h : NY b0 now pend rest s) :
    NY b0 now pend rest s' :=
  NY_model hq.1 (NN_qm hq h.nn) (fun _ _ hY => by rw [hq.2]; exact hY) h

theorem rem0_st {pend : Option (Nat × Nat)} {B : BW} {s : St} (h : Y now pend B (mv s)) :
    ∀ en ∈ s.inflight, en.remainder = 0 :=
  fun en hen => h.rem0 (ze en) (List.mem_map_of_mem hen)

/-- from an exact step of the model to the views -/
theorem Y_my {pend : Option (Nat × Nat)} {B B' : BW} {s s' : St} (hm : MY s s') (h : Y now pend B (mv s)) (hB : BW.le B B')
    (heid : ∀ en ∈ s.inflight, ∀ e ∈ s.execs, e.rid = en.rid → e.id = en.id)
    (hgone : s'.dropped = false → ∀ en ∈ s.inflight, en ∈ s'.inflight ∨ (∀ p ∈ B'.table, p.1 ≠ en.id) ∨
      ∀ p ∈ B'.table, p.1 = en.id → ∀ eb ∈ B.execs, eb.rid = p.2 → eb.id = p.1 → eb.tick ≤ B.now ∨ eb.abandoned = true)
    (hpk : ∀ r i, pend = some (r, i) → ∀ en ∈ s.inflight, en.id = i → en ∈ s'.inflight) :
    Y now pend B' (mv s') := by
  obtain ⟨g, hg, hid⟩ := hm.ex
  refine h.model hB s.execs ye (ye ∘ g) rfl (by show s'.execs.map ye = _; rw [hg, List.map_map]) ?_ ?_ ?_ ?_ hm.inb ?_ ?_ ?_ ?_
  · intro a _
    obtain ⟨h1, h2, h3, h4, h5⟩ := hid a
    exact ⟨h1, h2, h3, fun _ => h4, fun _ => h5⟩
  · intro en' hen'
    obtain ⟨e0, he0, rfl⟩ := List.mem_map.mp hen'
    exact List.mem_map_of_mem (hm.ents e0 he0)
  · intro i hi
    left
    show i ∈ s.cancelQ
    rw [← hm.cq]; exact hi
  · intro i hi
    left
    show i ∈ s'.cancelQ
    rw [hm.cq]; exact hi
  · intro hd
    show s.dropped = false
    rw [← hm.dr]; exact hd
  · intro hd en hen
    obtain ⟨en0, hen0, rfl⟩ := List.mem_map.mp hen
    rcases hgone hd en0 hen0 with h1 | h1 | h1
    · exact Or.inl (List.mem_map_of_mem h1)
    · exact Or.inr (Or.inl h1)
    · exact Or.inr (Or.inr h1)
  · intro en hen x hx hr
    obtain ⟨en0, hen0, rfl⟩ := List.mem_map.mp hen
    obtain ⟨e, he, rfl⟩ := List.mem_map.mp hx
    rw [hg] at he
    obtain ⟨e0, he0, rfl⟩ := List.mem_map.mp he
    show (g e0).id = en0.id
    rw [(hid e0).2.1]
    exact heid en0 (hm.ents en0 hen0) e0 he0 ((hid e0).1.symm.trans hr)
  · intro r i hp
    refine ⟨fun en hen hei => ?_, fun a _ _ => (hid a).2.2.2.1⟩
    obtain ⟨en0, hen0, rfl⟩ := List.mem_map.mp hen
    exact List.mem_map_of_mem (hpk r i hp en0 hen0 hei)

/-- a queued guard cancellation is processed -/
theorem Y_removeCq {B : BW} {s : St} {i : Nat} {l : List Nat} (hq : s.cancelQ = i :: l)
    (heid : ∀ en ∈ s.inflight, ∀ e ∈ s.execs, e.rid = en.rid → e.id = en.id) (hY : Y now none B (mv s)) :
    Y now none B (mv (removeRequest { s with cancelQ := l } i).1) := by
  have hri := removeRequest_inflight { s with cancelQ := l } i
  have hex : (removeRequest { s with cancelQ := l } i).1.execs = s.execs := by simp
  have hcq : (removeRequest { s with cancelQ := l } i).1.cancelQ = l := by simp
  have ht : (removeRequest { s with cancelQ := l } i).1.t = s.t := by simp
  have hdr : (removeRequest { s with cancelQ := l } i).1.dropped = s.dropped := by simp
  have hents : ∀ en ∈ (removeRequest { s with cancelQ := l } i).1.inflight, en ∈ s.inflight ∧ en.id ≠ i := by
    intro en hen
    rcases hri with ⟨_, he, hf⟩ | ⟨_, hi⟩
    · rw [he] at hen; exact ⟨hen, findEntry_none hf en hen⟩
    · rw [hi] at hen
      exact ⟨(List.mem_filter.mp hen).1, by simpa using (List.mem_filter.mp hen).2⟩
  have hkept : ∀ en ∈ s.inflight, en.id ≠ i → en ∈ (removeRequest { s with cancelQ := l } i).1.inflight := by
    intro en hen hne
    rcases hri with ⟨_, he, _⟩ | ⟨_, hi⟩
    · rw [he]; exact hen
    · rw [hi]; exact List.mem_filter.mpr ⟨hen, by simpa using hne⟩
  have hS' : (mv (removeRequest { s with cancelQ := l } i).1).execs = s.execs.map ye := by
    show List.map ye _ = _; rw [hex]
  have h1 : ∀ en' ∈ (mv (removeRequest { s with cancelQ := l } i).1).ents, en' ∈ (mv s).ents := by
    intro en' hen'
    obtain ⟨e0, he0, rfl⟩ := List.mem_map.mp hen'
    exact List.mem_map_of_mem (hents e0 he0).1
  have h2 : ∀ j ∈ (mv (removeRequest { s with cancelQ := l } i).1).cq, j ∈ (mv s).cq ∨ ∀ eb ∈ B.execs, eb.id ≠ j := by
    intro j hj
    left
    have hj' : j ∈ l := by rw [← hcq]; exact hj
    show j ∈ s.cancelQ
    rw [hq]; exact List.mem_cons_of_mem _ hj'
  have h3 : ∀ j ∈ (mv s).cq, j ∈ (mv (removeRequest { s with cancelQ := l } i).1).cq ∨
      ∀ en' ∈ (mv (removeRequest { s with cancelQ := l } i).1).ents, en'.id ≠ j := by
    intro j hj
    have hj' : j ∈ i :: l := by rw [← hq]; exact hj
    rcases List.mem_cons.mp hj' with rfl | h1
    · right
      intro en' hen'
      obtain ⟨e0, he0, rfl⟩ := List.mem_map.mp hen'
      exact (hents e0 he0).2
    · left
      show j ∈ (removeRequest { s with cancelQ := l } i).1.cancelQ
      rw [hcq]; exact h1
  have h4 : (mv (removeRequest { s with cancelQ := l } i).1).inb = (mv s).inb := by
    show (removeRequest { s with cancelQ := l } i).1.t.inbound = s.t.inbound; rw [ht]
  have h5 : (mv (removeRequest { s with cancelQ := l } i).1).dropped = false → (mv s).dropped = false := by
    intro hd; show s.dropped = false; rw [← hdr]; exact hd
  have h6 : (mv (removeRequest { s with cancelQ := l } i).1).dropped = false → ∀ en ∈ (mv s).ents,
      en ∈ (mv (removeRequest { s with cancelQ := l } i).1).ents ∨ (∀ p ∈ B.table, p.1 ≠ en.id) ∨
      ∀ p ∈ B.table, p.1 = en.id → ∀ eb ∈ B.execs, eb.rid = p.2 → eb.id = p.1 → eb.tick ≤ B.now ∨ eb.abandoned = true := by
    intro _ en hen
    obtain ⟨en0, hen0, rfl⟩ := List.mem_map.mp hen
    by_cases hc : en0.id = i
    · right; right
      intro p hp hpe eb heb _ hei
      right
      exact hY.cqab i (by show i ∈ s.cancelQ; rw [hq]; exact List.mem_cons_self ..) eb heb
        (hei.trans (hpe.trans hc))
    · exact Or.inl (List.mem_map_of_mem (hkept en0 hen0 hc))
  have h7 : ∀ en ∈ (mv (removeRequest { s with cancelQ := l } i).1).ents,
      ∀ x ∈ (mv (removeRequest { s with cancelQ := l } i).1).execs, x.rid = en.rid → x.id = en.id := by
    intro en hen x hx hr
    obtain ⟨en0, hen0, rfl⟩ := List.mem_map.mp hen
    rw [hS'] at hx
    obtain ⟨e, he, rfl⟩ := List.mem_map.mp hx
    exact heid en0 (hents en0 hen0).1 e he hr
  exact hY.model (BW.le.refl _) s.execs ye ye rfl hS' (fun a _ => ⟨rfl, rfl, rfl, fun _ => rfl, fun _ h => h⟩)
    h1 h2 h3 h4 h5 h6 h7 (fun r j hp => by cases hp)

theorem NY_bpCancel {s : St} (h : NY b0 now none rest s) : NY b0 now none rest (bpCancel s).1 := by
  have hx : ExtW s (bpCancel s).1 := by
    unfold bpCancel; split
    · exact (extW_removeRequest _ _).pre rfl
    · exact ExtW.of_eq rfl
  refine NY_model hx (NN_bpCancel h.nn) (fun hK hX hY => ?_) h
  unfold bpCancel
  split
  · next i l hq => exact Y_removeCq hq (K_eid_st hK) hY
  · exact hY

/-- the book's tick of a tracked request that has been handed out is its timer's -/
theorem tick_le_of_lo {pend : Option (Nat × Nat)} {B : BW} {S : MV} (hX : X rest B S) (hY : Y now pend B S)
    (heid : ∀ en ∈ S.ents, ∀ x ∈ S.execs, x.rid = en.rid → x.id = en.id)
    {en : ZE} (hen : en ∈ S.ents) {eb : WB} (heb : eb ∈ B.execs) (hid : eb.id = en.id) :
    eb.tick ≤ ceilMs en.due * nsPerMs := by
  obtain ⟨x, hx, hr⟩ := hX.esrc en hen
  obtain ⟨x0, hx0, hv0⟩ := hX.bsrc eb heb
  have h1 := heid en hen x hx hr
  have h2 := hX.bid eb heb x0 hx0 hv0
  have hxx : x = x0 := hX.id_inj hx hx0 (by rw [h1, ← hid, h2])
  subst hxx
  have h3 := hY.lo en hen x hx hr eb heb hv0
  have h6 : eb.tick = ceilMs (max eb.deadline eb.yieldedAt) * nsPerMs := rfl
  rw [h6]
  exact Nat.mul_le_mul_right nsPerMs (ceilMs_mono h3)

theorem NY_pollExpired {s : St} (ht : TInv now s) (h : NY b0 now none rest s) :
    NY b0 now none rest (pollExpired s now).1 := by
  refine NY_model (extW_pollExpired s now) (NN_pollExpired ht h.nn) (fun hK hX hY => ?_) h
  have hrem := rem0_st hY
  refine Y_my (my_pollExpired hrem) hY (BW.le.refl _) (K_eid_st hK) (fun _ en hen => ?_) (fun r i hp => by cases hp)
  rcases pollExpired_due ht hrem en hen with h1 | h1
  · exact Or.inl h1
  · right; right
    intro p hp hpe eb heb _ hei
    left
    have := tick_le_of_lo hX hY (K_eid_mv hK) (List.mem_map_of_mem hen) heb (hei.trans hpe)
    have hclk : (bw (bo b0 s.obs)).now = now := hK.clk
    rw [hclk]
    exact Nat.le_trans this h1

/-! ### the transport read -/

theorem Y_tNext {pend : Option (Nat × Nat)} {B : BW} {s : St} (hf : s.readFused = false) (h : Y now pend B (mv s)) :
    Y now pend B (mv (tNext s).1) ∧ ∀ i d tr b, (tNext s).2 = .item (.request i d tr b) → d ≤ clampNs := by
  obtain ⟨ht, hr⟩ := tNext_nf s hf
  rw [mv_tNext, ht, hr]
  rcases pollNext_inb s.t with ⟨h1, h2⟩ | ⟨i0, h1, h2⟩
  · rw [h1]
    exact ⟨h, fun i d tr b hc => absurd hc (h2 _)⟩
  · refine ⟨h.read i0 s.t.pollNext.1.inbound h1, fun i d tr b hc => ?_⟩
    have := h2 _ hc
    refine h.near i d tr b ?_
    show Inb.msg (.request i d tr b) ∈ s.t.inbound
    rw [h1, this]; exact List.mem_cons_self ..

theorem step_tNext_cancel_table (b : Book) (ep : TaskId) (id : Nat) (tr : Trace) :
    ∀ p ∈ (b.step (.obs (.tNext ep (.item (.cancel id tr))))).table, p.1 ≠ id := by
  rw [step_tNext_eq]
  simp only
  intro p hp
  unfold Book.untrack at hp
  simp only at hp
  simpa using (List.mem_filter.mp hp).2

theorem NY_tNext_other {pend : Option (Nat × Nat)} {s : St}
    (hr : ∀ id tr, (tNext s).2 ≠ .item (.cancel id tr)) (h : NY b0 now pend rest s) :
    NY b0 now pend rest (tNext s).1 ∧
    ∀ i d tr b, (tNext s).2 = .item (.request i d tr b) → (bo b0 (tNext s).1.obs).spun = true ∨
      (((mv (tNext s).1).execs.map (·.id) ++ i :: (inbIds (mv (tNext s).1).inb ++ rest)).Nodup ∧ d ≤ clampNs) := by
  obtain ⟨hnn, hside⟩ := NN_tNext_other hr h.nn
  cases hf : s.readFused with
  | true =>
    rw [tNext_fused_eq s hf]
    exact ⟨h, fun i d tr b hc => by cases hc⟩
  | false =>
    have hobs := tNext_obs s hf
    have hck : CK chk11 b0 (tNext s).1.obs := by
      rw [hobs]
      exact ⟨h.ck, Or.inr (chk11_other _ _ (fun _ _ _ hc => by cases hc))⟩
    have hle : BW.le (bw (bo b0 s.obs)) (bw (bo b0 (tNext s).1.obs)) := by
      rw [hobs, bo_cons]; exact bw_step_tNext _ _ _
    rcases h.y with h1 | hY
    · have hs : (bo b0 (tNext s).1.obs).spun = true := by rw [hobs, bo_cons]; exact step_spun_mono _ _ h1
      exact ⟨⟨hnn, hck, Or.inl hs⟩, fun _ _ _ _ _ => Or.inl hs⟩
    · obtain ⟨hY1, hnear⟩ := Y_tNext hf hY
      refine ⟨⟨hnn, hck, Or.inr (hY1.le hle)⟩, fun i d tr b hc => ?_⟩
      rcases hside i d tr b hc with h2 | h2
      · exact Or.inl h2
      · exact Or.inr ⟨h2, hnear i d tr b hc⟩

theorem NY_cancel {s : St} (ht : TInv now (tNext s).1) (id : Nat) (tr : Trace)
    (hr : (tNext s).2 = .item (.cancel id tr)) (h : NY b0 now none rest s) :
    NY b0 now none rest (cancelRequest (tNext s).1 id).1 := by
  have hf : s.readFused = false := by
    cases hf : s.readFused with
    | false => rfl
    | true => rw [tNext_fused_eq s hf] at hr; cases hr
  have hobs := tNext_obs s hf
  have hck3 : CK chk11 b0 (tNext s).1.obs := by
    rw [hobs]
    exact ⟨h.ck, Or.inr (chk11_other _ _ (fun _ _ _ hc => by cases hc))⟩
  have hx := extW_cancelRequest (tNext s).1 id
  refine ⟨NN_cancel ht id tr hr h.nn, CK11.extW hx hck3, ?_⟩
  rcases bo_extW b0 hx with hs | ⟨_, hs, hle5⟩
  · exact Or.inl hs
  · rcases h.y with h1 | hY
    · left; rw [hs, hobs, bo_cons]; exact step_spun_mono _ _ h1
    · rcases h.nn.n with h1 | ⟨hK, hX⟩
      · left; rw [hs, hobs, bo_cons]; exact step_spun_mono _ _ h1
      · right
        have hle : BW.le (bw (bo b0 s.obs)) (bw (bo b0 (tNext s).1.obs)) := by
          rw [hobs, bo_cons]; exact bw_step_tNext _ _ _
        have hY3 := (Y_tNext hf hY).1.le hle
        have heid3 : ∀ en ∈ (tNext s).1.inflight, ∀ e ∈ (tNext s).1.execs, e.rid = en.rid → e.id = en.id := by
          intro en hen e he
          rw [tNext_inflight] at hen
          rw [tNext_execs] at he
          exact K_eid_st hK en hen e he
        refine (Y_my (my_cancelRequest (tNext s).1 id) hY3 (BW.le.refl _) heid3 (fun _ en hen => ?_)
          (fun r i hp => by cases hp)).le hle5
        rcases cancelRequest_eff (tNext s).1 id with ⟨_, h2⟩ | ⟨en', _, _, h3⟩
        · rw [h2]; exact Or.inl hen
        · by_cases hc : en.id = id
          · right; left
            intro p hp
            rw [hobs, bo_cons, hr] at hp
            rw [hc]
            exact step_tNext_cancel_table (bo b0 s.obs) (tid s) id tr p hp
          · left
            rw [h3]
            exact List.mem_filter.mpr ⟨hen, by simpa using hc⟩

/-! ### a request is started -/

theorem startRequest_effY (s : St) (now id d : Nat) (tr : Trace) (b : Nat) (hd : d ≤ clampNs) (ex : Exec)
    (h : (startRequest s now id d tr b).2 = some ex) :
    ∃ z : ZE, z.id = id ∧ z.rid = s.execs.length ∧ z.rem = 0 ∧ now ≤ z.due ∧
      (mv (startRequest s now id d tr b).1).execs = (mv s).execs ++ [⟨s.execs.length, id, d, none, true, false, false⟩] ∧
      (mv (startRequest s now id d tr b).1).ents = (mv s).ents ++ [z] ∧
      (mv (startRequest s now id d tr b).1).cq = (mv s).cq ∧
      (mv (startRequest s now id d tr b).1).inb = (mv s).inb ∧
      (mv (startRequest s now id d tr b).1).dropped = (mv s).dropped := by
  have hrem : (d - now) - clampTimeout (d - now) = 0 := by
    rcases clampTimeout_cases (d - now) with h1 | ⟨_, h1, _⟩
    · rw [h1]; omega
    · omega
  revert h
  unfold startRequest
  split
  · intro h; cases h
  · split
    · intro h; cases h
    · next q key woke hq =>
      intro _
      simp only
      cases woke
      · exact ⟨⟨id, s.execs.length, now + clampTimeout (d - now), (d - now) - clampTimeout (d - now)⟩, rfl, rfl, hrem,
          Nat.le_add_right _ _, by simp [mv, ye, execLive], by simp [mv, ze], rfl, rfl, rfl⟩
      · simp only [if_true]
        exact ⟨⟨id, s.execs.length, now + clampTimeout (d - now), (d - now) - clampTimeout (d - now)⟩, rfl, rfl, hrem,
          Nat.le_add_right _ _, by simp [mv, ye, execLive], by simp [mv, ze], by simp [mv], by simp [mv], by simp [mv]⟩

def PostStartY (b0 : Book) (now : Nat) (rest : List Nat) : St × Option Exec → Prop
  | (s', some ex) => NY b0 now (some (ex.rid, ex.id)) rest s'
  | (s', none) => NY b0 now none rest s'

theorem NY_startRequest {s : St} (id d : Nat) (tr : Trace) (b : Nat) (h : NY b0 now none rest s)
    (hnd : (bo b0 s.obs).spun = true ∨
      (((mv s).execs.map (·.id) ++ id :: (inbIds (mv s).inb ++ rest)).Nodup ∧ d ≤ clampNs)) :
    PostStartY b0 now rest (startRequest s now id d tr b) := by
  have hnn := NN_startRequest id d tr b h.nn (hnd.imp (fun h => h) And.left)
  rcases startRequest_effT s now id d tr b with ⟨h1, h2⟩ | ⟨ex, h1, hr, hi, _⟩
  · rw [show startRequest s now id d tr b = ((startRequest s now id d tr b).1, none) from Prod.ext rfl h1] at hnn ⊢
    exact NY_qm h2 h
  · rw [show startRequest s now id d tr b = ((startRequest s now id d tr b).1, some ex) from Prod.ext rfl h1] at hnn ⊢
    show NY b0 now (some (ex.rid, ex.id)) rest _
    have hnn' : NN b0 now (some (ex.rid, ex.id)) rest (startRequest s now id d tr b).1 := hnn
    have hx := extW_startRequest s now id d tr b
    rcases hnd with hs | ⟨_, hdc⟩
    · refine ⟨hnn', CK11.extW hx h.ck, ?_⟩
      rcases bo_extW b0 hx with h3 | ⟨_, h3, _⟩
      · exact Or.inl h3
      · exact Or.inl (h3.trans hs)
    · refine NY_model hx hnn' (fun hK hX hY => ?_) h
      obtain ⟨hfx, hfe⟩ := K_fresh hK
      obtain ⟨z, hz1, hz2, hz3, hz4, he, hen, hcq, hinb, hdr⟩ := startRequest_effY s now id d tr b hdc ex h1
      rw [hr, hi]
      exact hY.start s.execs.length id _ z ⟨rfl, rfl, rfl, rfl⟩ ⟨hz1, hz2, hz3, hz4⟩ he hen hcq hinb hdr hfx hfe

/-! ### one iteration of the channel's loop, the loop -/

theorem NY_bpOther {s2 : St} (hs : SInv false now s2) (h : NY b0 now none rest s2) :
    NY b0 now none rest (bpOther (tNext s2).1 (tNext s2).2).1 := by
  have ht3 : TInv now (tNext s2).1 := ((sinv_closed false now).tNext s2 hs).t
  cases hnx : (tNext s2).2 with
  | item m =>
    cases m with
    | cancel id tr => exact NY_cancel ht3 id tr hnx h
    | request id d tr b => exact (NY_tNext_other (by rw [hnx]; intro id tr h; cases h) h).1
    | response id res => exact (NY_tNext_other (by rw [hnx]; intro id tr h; cases h) h).1
  | pending => exact (NY_tNext_other (by rw [hnx]; intro id tr h; cases h) h).1
  | err => exact (NY_tNext_other (by rw [hnx]; intro id tr h; cases h) h).1
  | eof => exact (NY_tNext_other (by rw [hnx]; intro id tr h; cases h) h).1

def PostRdOY (b0 : Book) (now : Nat) (rest : List Nat) : St × Option (SPoll Exec) → Prop
  | (s', some (.some ex)) => NY b0 now (some (ex.rid, ex.id)) rest s'
  | (s', _) => NY b0 now none rest s'

def PostRdY (b0 : Book) (now : Nat) (rest : List Nat) : St × SPoll Exec → Prop
  | (s', .some ex) => NY b0 now (some (ex.rid, ex.id)) rest s'
  | (s', _) => NY b0 now none rest s'

theorem NY_bpStep {s : St} (hs : SInv false now s) (h : NY b0 now none rest s) :
    PostRdOY b0 now rest (bpStep s now) := by
  have h1 := NY_bpCancel h
  have hs1 : SInv false now (bpCancel s).1 := (sinv_closed false now).bpCancel s hs
  have h2 : NY b0 now none rest (bp2 s now) := NY_pollExpired hs1.t h1
  have hs2 : SInv false now (bp2 s now) := (sinv_closed false now).expire _ hs1
  have hreq : ∀ id d tr b, bpNx s now = .item (.request id d tr b) →
      PostStartY b0 now rest (startRequest (bp3 s now) now id d tr b) := by
    intro id d tr b hn
    obtain ⟨hb3, hside⟩ := NY_tNext_other (s := bp2 s now)
      (by intro id tr h; unfold bpNx at hn; rw [hn] at h; cases h) h2
    exact NY_startRequest id d tr b hb3 (hside id d tr b hn)
  have ho := bpStep_out s now
  generalize bpStep s now = out at ho ⊢
  cases ho with
  | poisoned2 hp => exact h2
  | readErr hp hn =>
    exact (NY_tNext_other (s := bp2 s now) (by intro id tr h; unfold bpNx at hn; rw [hn] at h; cases h) h2).1
  | started id d tr b ex hp hn hs' =>
    have := hreq id d tr b hn
    rw [show startRequest (bp3 s now) now id d tr b = ((startRequest (bp3 s now) now id d tr b).1, some ex) from
      Prod.ext rfl hs'] at this
    exact this
  | startPanic id d tr b hp hn hs' hpo =>
    have := hreq id d tr b hn
    rw [show startRequest (bp3 s now) now id d tr b = ((startRequest (bp3 s now) now id d tr b).1, none) from
      Prod.ext rfl hs'] at this
    exact this
  | duplicate id d tr b hp hn hs' hpo =>
    have := hreq id d tr b hn
    rw [show startRequest (bp3 s now) now id d tr b = ((startRequest (bp3 s now) now id d tr b).1, none) from
      Prod.ext rfl hs'] at this
    exact this
  | otherPoisoned hp hn1 hn2 hpo => exact NY_bpOther hs2 h2
  | again hp hn1 hn2 hpo hc => exact NY_bpOther hs2 h2
  | closed hp hn1 hn2 hpo hc => exact NY_bpOther hs2 h2
  | pending hp hn1 hn2 hpo hc => exact NY_bpOther hs2 h2

theorem NY_basePollNext : ∀ (fuel : Nat) (s : St), SInv false now s → NY b0 now none rest s →
    PostRdY b0 now rest (basePollNext fuel s now) := by
  intro fuel
  induction fuel with
  | zero => intro s _ h; exact NY_qm (QM.emit s _ rfl rfl) h
  | succ n ih =>
    intro s hs h
    rw [basePollNext_succ]
    have hb := NY_bpStep hs h
    have hs' := (sinv_closed false now).bpStep s hs
    revert hb hs'
    generalize bpStep s now = p
    obtain ⟨s', r⟩ := p
    intro hb hs'
    cases r with
    | none => exact ih s' hs' hb
    | some r => cases r <;> exact hb

/-! ## the write side -/

theorem my_armRead (s : St) (r : SPoll Exec) : MY s (armRead s r) := by
  unfold armRead; split
  · exact my_updExec _ _ _ (fun e => ⟨rfl, rfl, rfl, rfl, fun _ => rfl⟩)
  · exact MY.refl s

theorem armRead_inflight (s : St) (r : SPoll Exec) : (armRead s r).inflight = s.inflight := by
  unfold armRead; split <;> rfl

theorem NY_armRead {pend : Option (Nat × Nat)} {s : St} (r : SPoll Exec) (h : NY b0 now pend rest s) :
    NY b0 now pend rest (armRead s r) := by
  have hx : ExtW s (armRead s r) := by
    unfold armRead; split
    · exact ExtW.of_eq rfl
    · exact ExtW.refl s
  refine NY_model hx (NN_armRead r h.nn) (fun hK hX hY => ?_) h
  exact Y_my (my_armRead s r) hY (BW.le.refl _) (K_eid_st hK)
    (fun _ en hen => Or.inl (by rw [armRead_inflight]; exact hen))
    (fun _ _ _ en hen _ => by rw [armRead_inflight]; exact hen)

def ArmedV (r : Nat) (S : MV) : Prop := ∀ x ∈ S.execs, x.rid = r → x.armed = true

theorem armRead_armed (s : St) (ex : Exec) : ArmedV ex.rid (mv (armRead s (.some ex))) := by
  intro x hx hr
  obtain ⟨e, he, rfl⟩ := List.mem_map.mp hx
  simp only [armRead, updExec] at he
  obtain ⟨e0, _, rfl⟩ := List.mem_map.mp he
  by_cases h0 : e0.rid = ex.rid
  · rw [if_pos (by simpa using h0)]; rfl
  · exfalso
    rw [if_neg (by simpa using h0)] at hr
    exact h0 hr

theorem step_tSend_table (b : Book) (ep : TaskId) (id : Nat) (res : Res) (ok : Bool) :
    ∀ p ∈ (b.step (.obs (.tSend ep (.response id res) ok))).table, p.1 ≠ id := by
  intro p hp
  have : (b.step (.obs (.tSend ep (.response id res) ok))).table = b.table.filter (·.1 != id) := by
    cases ok <;> rfl
  rw [this] at hp
  simpa using (List.mem_filter.mp hp).2

theorem NY_baseStartSend {pend : Option (Nat × Nat)} {s : St} (id : Nat) (res : Res) (h : NY b0 now pend rest s)
    (hd : (bo b0 s.obs).spun = true ∨ ∀ x ∈ (mv s).execs, x.id = id → x.live = false) :
    NY b0 now pend rest (baseStartSend s id res).1 := by
  have hnn := NN_baseStartSend id res h.nn (hd.imp (fun h => h) (fun h x hx hi => Or.inr (h x hx hi)))
  unfold baseStartSend at hnn ⊢
  have hi := removeRequest_inflight s id
  have hxA := extW_removeRequest s id
  have hexA : (removeRequest s id).1.execs = s.execs := by simp
  have hcqA : (removeRequest s id).1.cancelQ = s.cancelQ := by simp
  have htA : (removeRequest s id).1.t = s.t := by simp
  have hdrA : (removeRequest s id).1.dropped = s.dropped := by simp
  revert hnn hi hxA hexA hcqA htA hdrA
  generalize hq : removeRequest s id = q
  obtain ⟨sA, f⟩ := q
  intro hnn hi hxA hexA hcqA htA hdrA
  cases f with
  | false =>
    rcases hi with ⟨_, he, _⟩ | ⟨hc, _⟩
    · simp only at he ⊢; rw [he]; exact h
    · cases hc
  | true =>
    have hiA : sA.inflight = s.inflight.filter (·.id != id) := by
      rcases hi with ⟨hc, _⟩ | ⟨_, h2⟩
      · cases hc
      · exact h2
    simp only at hnn hxA hexA hcqA htA hdrA ⊢
    obtain ⟨s0, hq0, hobs, hv⟩ := tSend_obs_extT sA (.response id res)
    have hx0 : ExtW s s0 := hxA.trans hq0.1
    have hmvA : mv s0 = mv sA := hq0.2
    have hb0 := bo_extW b0 hx0
    have hspun : (bo b0 s0.obs).spun = true → (bo b0 (tSend sA (.response id res)).1.obs).spun = true := by
      intro hs; rw [hobs, bo_cons]; exact step_spun_mono _ _ hs
    refine ⟨hnn, ?_, ?_⟩
    · rw [hobs]
      exact ⟨CK11.extW hx0 h.ck, Or.inr (chk11_other _ _ (fun _ _ _ hc => by cases hc))⟩
    · rcases hb0 with hs | ⟨_, hs, hle0⟩
      · exact Or.inl (hspun hs)
      · rcases h.y with h1 | hY
        · exact Or.inl (hspun (hs.trans h1))
        · rcases h.nn.n with h1 | ⟨hK, hX⟩
          · exact Or.inl (hspun (hs.trans h1))
          · rcases hd with h1 | hdead
            · exact Or.inl (hspun (hs.trans h1))
            · right
              rw [hv, hmvA]
              have hleF : BW.le (bw (bo b0 s.obs)) (bw (bo b0 (tSend sA (.response id res)).1.obs)) := by
                refine hle0.trans ?_
                rw [hobs, bo_cons]
                exact bw_step_tSend _ _ _ _ _
              have hS' : (mv sA).execs = s.execs.map ye := by show List.map ye _ = _; rw [hexA]
              have h1 : ∀ en' ∈ (mv sA).ents, en' ∈ (mv s).ents := by
                intro en' hen'
                obtain ⟨e0, he0, rfl⟩ := List.mem_map.mp hen'
                rw [hiA] at he0
                exact List.mem_map_of_mem (List.mem_filter.mp he0).1
              have h6 : (mv sA).dropped = false → ∀ en ∈ (mv s).ents, en ∈ (mv sA).ents ∨
                  (∀ p ∈ (bw (bo b0 (tSend sA (.response id res)).1.obs)).table, p.1 ≠ en.id) ∨
                  ∀ p ∈ (bw (bo b0 (tSend sA (.response id res)).1.obs)).table, p.1 = en.id →
                    ∀ eb ∈ (bw (bo b0 s.obs)).execs, eb.rid = p.2 → eb.id = p.1 →
                      eb.tick ≤ (bw (bo b0 s.obs)).now ∨ eb.abandoned = true := by
                intro _ en hen
                obtain ⟨en0, hen0, rfl⟩ := List.mem_map.mp hen
                by_cases hc : en0.id = id
                · right; left
                  intro p hp
                  rw [hobs, bo_cons] at hp
                  have := step_tSend_table (bo b0 s0.obs) (tid sA) id res (tSend sA (.response id res)).2 p hp
                  exact fun hpe => this (hpe.trans hc)
                · left
                  refine List.mem_map_of_mem ?_
                  rw [hiA]
                  exact List.mem_filter.mpr ⟨hen0, by simpa using hc⟩
              have h7 : ∀ en ∈ (mv sA).ents, ∀ x ∈ (mv sA).execs, x.rid = en.rid → x.id = en.id := by
                intro en hen x hx hr
                rw [hS'] at hx
                exact K_eid_mv hK en (h1 en hen) x hx hr
              refine hY.model hleF s.execs ye ye rfl hS' (fun a _ => ⟨rfl, rfl, rfl, fun _ => rfl, fun _ h => h⟩)
                h1 (fun j hj => Or.inl (by show j ∈ s.cancelQ; rw [← hcqA]; exact hj))
                (fun j hj => Or.inl (by show j ∈ sA.cancelQ; rw [hcqA]; exact hj))
                (by show sA.t.inbound = s.t.inbound; rw [htA])
                (fun hdd => by show s.dropped = false; rw [← hdrA]; exact hdd) h6 h7 ?_
              intro r i hp
              refine ⟨fun en hen hei => ?_, fun _ _ _ => rfl⟩
              obtain ⟨en0, hen0, rfl⟩ := List.mem_map.mp hen
              refine List.mem_map_of_mem ?_
              rw [hiA]
              refine List.mem_filter.mpr ⟨hen0, ?_⟩
              have hne : en0.id ≠ id := by
                intro hc
                obtain ⟨x, hx, hxr⟩ := hX.esrc (ze en0) hen
                have hxid := K_eid_mv hK (ze en0) hen x hx hxr
                have hdx := hdead x hx (hxid.trans hc)
                obtain ⟨⟨en1, hen1, hen1i, hen1r, _⟩, hlive⟩ := hY.pnd r i hp
                -- the pending entry is `en0` (same id): its execution is live
                have hrr : (ze en0).rid = r := by
                  obtain ⟨x1, hx1, hx1r⟩ := hX.esrc en1 hen1
                  have h1i := K_eid_mv hK en1 hen1 x1 hx1 hx1r
                  have : x = x1 := hX.id_inj hx hx1 (by rw [hxid, h1i, hen1i]; exact hei)
                  rw [← hxr, this, hx1r, hen1r]
                rw [hlive x hx (hxr.trans hrr)] at hdx
                cases hdx
              simpa using hne

theorem pumpWrite_execs_ye (s : St) (rc : Bool) : (pumpWrite s rc).1.execs.map ye = s.execs.map ye := by
  have hqm : ∀ {a b : St}, QM a b → b.execs.map ye = a.execs.map ye := fun hq => congrArg MV.execs hq.2
  have hbs : ∀ (a : St) (id : Nat) (res : Res), (baseStartSend a id res).1.execs.map ye = a.execs.map ye := by
    intro a id res
    unfold baseStartSend
    have hexA : (removeRequest a id).1.execs = a.execs := by simp
    revert hexA
    generalize removeRequest a id = q
    obtain ⟨sA, f⟩ := q
    intro hexA
    cases f with
    | false => simp only at hexA ⊢; rw [hexA]
    | true =>
      simp only at hexA ⊢
      obtain ⟨s0, hq0, _, hv⟩ := tSend_obs_extT sA (.response id res)
      have := congrArg MV.execs hv
      show (tSend sA (.response id res)).1.execs.map ye = _
      rw [show (tSend sA (.response id res)).1.execs.map ye = s0.execs.map ye from this, hqm hq0, hexA]
  unfold pumpWrite
  have h1 := hqm (qm_ensureWriteable s)
  split
  · next s1 heq => rw [heq] at h1; rw [hqm (qm_flushArm s1 rc)]; exact h1
  · next s1 a heq => rw [heq] at h1; exact h1
  · next s1 heq => rw [heq] at h1; exact h1
  · next s1 heq =>
    rw [heq] at h1
    split
    · next id res l hq =>
      have h2 : (rqRelease { s1 with respQ := l }).execs.map ye = s1.execs.map ye :=
        hqm (a := { s1 with respQ := l }) (qm_rqRelease _)
      have h3 := hbs (rqRelease { s1 with respQ := l }) id res
      simp only
      split
      · next s3 heq3 => rw [heq3] at h3; simp only at h3 ⊢; rw [h3, h2]; exact h1
      · next s3 r hne heq3 => rw [heq3] at h3; simp only at h3 ⊢; rw [h3, h2]; exact h1
    · rw [hqm (qm_flushArm _ rc)]; exact h1

theorem NY_pumpWrite {pend : Option (Nat × Nat)} {s : St} (rc : Bool) (h : NY b0 now pend rest s) :
    NY b0 now pend rest (pumpWrite s rc).1 := by
  unfold pumpWrite
  have h1 := NY_qm (qm_ensureWriteable s) h
  split
  · next s1 heq => rw [heq] at h1; exact NY_qm (qm_flushArm _ _) h1
  · next s1 a heq => rw [heq] at h1; exact h1
  · next s1 heq => rw [heq] at h1; exact h1
  · next s1 heq =>
    rw [heq] at h1
    split
    · next id res l hq =>
      have hms : MS s1 { s1 with respQ := l } :=
        ms_setRq s1 l (fun p hp => by rw [hq]; exact List.mem_cons_of_mem _ hp)
      have hnn1 : NN b0 now pend rest { s1 with respQ := l } :=
        NN_ms (s := s1) (s' := { s1 with respQ := l }) (ExtW.of_eq rfl) (J_qs (QS.of_eq rfl rfl)) hms h1.nn
      have h1' : NY b0 now pend rest { s1 with respQ := l } :=
        NY_model (s := s1) (s' := { s1 with respQ := l }) (ExtW.of_eq rfl) hnn1
          (fun _ _ hY => hY.congr rfl rfl rfl rfl rfl) h1
      have h2 : NY b0 now pend rest (rqRelease { s1 with respQ := l }) := NY_qm (qm_rqRelease _) h1'
      have hd : (bo b0 (rqRelease { s1 with respQ := l }).obs).spun = true ∨
          ∀ x ∈ (mv (rqRelease { s1 with respQ := l })).execs, x.id = id → x.live = false := by
        rcases h1.nn.n with hs | ⟨_, hX⟩
        · left
          rcases bo_extW b0 ((qm_rqRelease { s1 with respQ := l }).1.pre (s := s1) rfl) with h3 | ⟨_, h3, _⟩
          · exact h3
          · exact h3.trans hs
        · right
          intro x hx hxi
          rw [mv_rqRelease_pop] at hx
          obtain ⟨x0, hx0, hxi0, hl⟩ := hX.rq id (by
            show id ∈ s1.respQ.map (·.1)
            rw [hq]; exact List.mem_cons_self ..)
          have : x = x0 := hX.id_inj hx hx0 (hxi.trans hxi0.symm)
          rw [this]; exact hl
      have h3 := NY_baseStartSend id res h2 hd
      simp only
      split
      · next s3 heq3 => rw [heq3] at h3; exact h3
      · next s3 r hne heq3 => rw [heq3] at h3; exact h3
    · exact NY_qm (s := s1) ((qm_flushArm _ _).pre rfl rfl) h1

/-- the request the read pump produced is dropped (the write pump failed) -/
theorem NY_dropOffered {s : St} (rid id : Nat) (h : NY b0 now (some (rid, id)) rest s) :
    NY b0 now none rest (dropOffered s rid id) := by
  have hx : ExtW s (dropOffered s rid id) := by
    unfold dropOffered
    simp only
    split
    · exact ((qm_wakeServer _).1.pre rfl).pre rfl
    · exact ExtW.of_eq rfl
  refine NY_model hx (NN_dropOffered rid id h.nn) (fun hK hX hY => ?_) h
  obtain ⟨_, x0, hx0, hr0, hi0, hv0⟩ := hK.pnd rid id rfl
  obtain ⟨e0, he0, rfl⟩ := List.mem_map.mp hx0
  let g : Exec → Exec := fun e => if e.rid == rid then { e with phase := .gone, guardArmed := false, woken := false } else e
  have hex : (dropOffered s rid id).execs = s.execs.map g := by
    unfold dropOffered; simp only; split <;> simp [updExec, g]
  have hinf : (dropOffered s rid id).inflight = s.inflight := by
    unfold dropOffered; simp only; split <;> simp
  have hcq : (dropOffered s rid id).cancelQ = s.cancelQ ++ [id] := by
    unfold dropOffered; simp only; split <;> simp
  have ht : (dropOffered s rid id).t = s.t := by
    unfold dropOffered; simp only; split <;> simp
  have hdr : (dropOffered s rid id).dropped = s.dropped := by
    unfold dropOffered; simp only; split <;> simp
  have hall : ∀ a ∈ s.execs, (ye a).rid = rid → (ye a).vis = none ∧ (ye a).id = id := by
    intro a ha har
    have : xe a = xe e0 := eq_of_rid_nodup hK.ridNodup (List.mem_map_of_mem ha) hx0 (har.trans hr0.symm)
    constructor
    · show (xe a).vis = none; rw [this]; exact hv0
    · show (xe a).id = id; rw [this]; exact hi0
  refine hY.giveUp s.execs ye (ye ∘ g) rfl (by show (dropOffered s rid id).execs.map ye = _; rw [hex, List.map_map]) ?_ hall
    (congrArg (List.map ze) hinf) hcq (by show (dropOffered s rid id).t.inbound = s.t.inbound; rw [ht]) hdr ?_
  · intro a _
    simp only [Function.comp, g]
    split
    · next hc =>
      have hc' : a.rid = rid := by simpa using hc
      exact ⟨rfl, rfl, rfl, fun hne => absurd hc' hne⟩
    · exact ⟨rfl, rfl, rfl, fun _ => rfl⟩
  · intro eb heb hei
    obtain ⟨x1, hx1, hv1⟩ := hX.bsrc eb heb
    have h1 := hX.bid eb heb x1 hx1 hv1
    have : x1 = ye e0 := hX.id_inj hx1 (List.mem_map_of_mem he0) (by rw [h1, hei]; exact hi0.symm)
    rw [this] at hv1
    have hv0' : (ye e0).vis = none := hv0
    rw [hv0'] at hv1; cases hv1

/-! ## `Requests::poll_next` (no limiter) -/

def PostRqY (b0 : Book) (now : Nat) (rest : List Nat) : St × ReqPoll → Prop
  | (s', .item rid) => ∃ id, NY b0 now (some (rid, id)) rest s' ∧ ArmedV rid (mv s')
  | (s', _) => NY b0 now none rest s'

theorem NY_requestsPollNext : ∀ (fuel : Nat) (s : St), SInv false now s → NY b0 now none rest s →
    s.limit = none → s.ensureLoop = false → PostRqY b0 now rest (requestsPollNext fuel s now) := by
  intro fuel
  induction fuel with
  | zero => intro s _ h _ _; exact NY_qm (QM.emit s _ rfl rfl) h
  | succ n ih =>
    intro s hs h hl hel
    rw [requestsPollNext_succ, channelPollNext_none hl]
    have hch := NY_basePollNext (baseFuel s) s hs h
    have hsc := (sinv_closed false now).basePollNext (baseFuel s) s hs
    have hc1 := (cfg_closed s now).toLoopClosed.basePollNext (baseFuel s) s ⟨rfl, rfl, rfl, rfl⟩
    split
    · next s1 a heq => rw [heq] at hch; exact hch
    · next s1 heq => rw [heq] at hch; exact hch
    · next s1 read hne1 hne2 heq =>
      rw [heq] at hch hsc hc1
      have hel2 : (armRead s1 read).ensureLoop = false := by
        rw [(FlowMon.armRead_cfg s1 read).1, hc1.2.2.1]; exact hel
      have hl2 : (armRead s1 read).limit = none := by
        have : (armRead s1 read).limit = s1.limit := by unfold armRead; split <;> rfl
        rw [this, hc1.2.1]; exact hl
      have hsa : SInv false now (armRead s1 read) := by
        unfold armRead; split
        · exact (sinv_closed false now).upd _ _ _ (fun e => ⟨rfl, rfl, rfl, rfl⟩) hsc
        · exact hsc
      have hsp := (sinv_closed false now).pumpWrite (armRead s1 read) (readClosedOf read) hsa
      have hc3 := (cfg_closed (armRead s1 read) now).pumpWrite (armRead s1 read) (readClosedOf read) ⟨rfl, rfl, rfl, rfl⟩
      have hnsp := pumpWrite_ne_spin (armRead s1 read) (readClosedOf read) hel2
      cases read with
      | some ex =>
        have hp : NY b0 now (some (ex.rid, ex.id)) rest (pumpWrite (armRead s1 (.some ex)) (readClosedOf (.some ex))).1 :=
          NY_pumpWrite _ (NY_armRead _ (show NY b0 now (some (ex.rid, ex.id)) rest s1 from hch))
        have harm : ArmedV ex.rid (mv (pumpWrite (armRead s1 (.some ex)) (readClosedOf (.some ex))).1) := by
          intro x hx hr
          have : (mv (pumpWrite (armRead s1 (.some ex)) (readClosedOf (.some ex))).1).execs =
              (mv (armRead s1 (.some ex))).execs := pumpWrite_execs_ye _ _
          rw [this] at hx
          exact armRead_armed s1 ex x hx hr
        split
        · next s3 a heq3 =>
          rw [heq3] at hp
          exact NY_dropOffered ex.rid ex.id hp
        · next s3 heq3 => rw [heq3] at hnsp; exact absurd rfl hnsp
        · next s3 write hne3 hne4 heq3 =>
          rw [heq3] at hp harm
          split
          case h_2 exq heq' => cases heq'; exact ⟨ex.id, hp, harm⟩
          case h_3 hx => exact (hx ex rfl).elim
          case h_4 _ hx _ => exact (hx ex rfl).elim
          all_goals (rename_i h; cases h)
      | err a => exact absurd rfl (hne1 a)
      | spin => exact absurd rfl hne2
      | pending =>
        have hp : NY b0 now none rest (pumpWrite (armRead s1 .pending) (readClosedOf .pending)).1 :=
          NY_pumpWrite _ (NY_armRead _ (show NY b0 now none rest s1 from hch))
        split
        · next s3 a heq3 => rw [heq3] at hp; exact hp
        · next s3 heq3 => rw [heq3] at hp; exact hp
        · next s3 write hne3 hne4 heq3 =>
          rw [heq3] at hp hsp hc3
          split
          · exact hp
          · next h => cases h
          · exact ih s3 hsp hp (hc3.2.1.trans hl2) (hc3.2.2.1.trans hel2)
          · exact hp
      | none =>
        have hp : NY b0 now none rest (pumpWrite (armRead s1 .none) (readClosedOf .none)).1 :=
          NY_pumpWrite _ (NY_armRead _ (show NY b0 now none rest s1 from hch))
        split
        · next s3 a heq3 => rw [heq3] at hp; exact hp
        · next s3 heq3 => rw [heq3] at hp; exact hp
        · next s3 write hne3 hne4 heq3 =>
          rw [heq3] at hp hsp hc3
          split
          · exact hp
          · next h => cases h
          · exact ih s3 hsp hp (hc3.2.1.trans hl2) (hc3.2.2.1.trans hel2)
          · exact hp

/-! ## an idle poll has drained the guard-cancellation queue -/

theorem bpStep_idle_cq (s : St) (now : Nat) (h : (bpStep s now).2 = some .pending ∨ (bpStep s now).2 = some .none) :
    (bpStep s now).1.cancelQ = [] := by
  have key : bpSt s now ≠ .ready → (bpOther (bp3 s now) (bpNx s now)).1.cancelQ = [] := by
    intro hne
    unfold bpSt at hne
    obtain ⟨h12, h3⟩ := combine_not_ready hne
    obtain ⟨h1, _⟩ := combine_not_ready h12
    rw [bpOther_not_ready h3]
    have hc : s.cancelQ = [] := by
      unfold bpCancel at h1
      cases hq : s.cancelQ with
      | nil => rfl
      | cons i l => rw [hq] at h1; exact absurd rfl h1
    show (tNext (pollExpired (bpCancel s).1 now).1).1.cancelQ = []
    rw [tNext_cancelQ, pollExpired_cancelQ]
    unfold bpCancel
    rw [hc]
  have ho := bpStep_out s now
  generalize bpStep s now = out at *
  cases ho with
  | closed hp hn1 hn2 hpo hc => exact key (by rw [hc]; simp)
  | pending hp hn1 hn2 hpo hc => exact key (by rw [hc]; simp)
  | _ => rcases h with h | h <;> cases h

theorem basePollNext_idle_cq (now : Nat) : ∀ (fuel : Nat) (s : St),
    ((basePollNext fuel s now).2 = .pending ∨ (basePollNext fuel s now).2 = .none) →
    (basePollNext fuel s now).1.cancelQ = [] := by
  intro fuel
  induction fuel with
  | zero => intro s h; rcases h with h | h <;> cases h
  | succ n ih =>
    intro s
    rw [basePollNext_succ]
    have hb := bpStep_idle_cq s now
    revert hb
    generalize bpStep s now = out
    intro hb
    rcases out with ⟨s', r⟩
    cases r with
    | none => exact ih s'
    | some r =>
      intro h
      dsimp only at h hb ⊢
      exact hb (by rcases h with h | h <;> simp [h])

theorem pumpWrite_mv_cq (s : St) (rc : Bool) : (pumpWrite s rc).1.cancelQ = s.cancelQ := by
  have hqm : ∀ {a b : St}, QM a b → b.cancelQ = a.cancelQ := fun hq => congrArg MV.cq hq.2
  have hbs : ∀ (a : St) (id : Nat) (res : Res), (baseStartSend a id res).1.cancelQ = a.cancelQ := by
    intro a id res
    unfold baseStartSend
    have hexA : (removeRequest a id).1.cancelQ = a.cancelQ := by simp
    revert hexA
    generalize removeRequest a id = q
    obtain ⟨sA, f⟩ := q
    intro hexA
    cases f with
    | false => simp only at hexA ⊢; rw [hexA]
    | true =>
      simp only at hexA ⊢
      obtain ⟨s0, hq0, _, hv⟩ := tSend_obs_extT sA (.response id res)
      have := congrArg MV.cq hv
      show (tSend sA (.response id res)).1.cancelQ = _
      rw [show (tSend sA (.response id res)).1.cancelQ = s0.cancelQ from this, hqm hq0, hexA]
  unfold pumpWrite
  have h1 := hqm (qm_ensureWriteable s)
  split
  · next s1 heq => rw [heq] at h1; rw [hqm (qm_flushArm s1 rc)]; exact h1
  · next s1 a heq => rw [heq] at h1; exact h1
  · next s1 heq => rw [heq] at h1; exact h1
  · next s1 heq =>
    rw [heq] at h1
    split
    · next id res l hq =>
      have h2 : (rqRelease { s1 with respQ := l }).cancelQ = s1.cancelQ :=
        hqm (a := { s1 with respQ := l }) (qm_rqRelease _)
      have h3 := hbs (rqRelease { s1 with respQ := l }) id res
      simp only
      split
      · next s3 heq3 => rw [heq3] at h3; simp only at h3 ⊢; rw [h3, h2]; exact h1
      · next s3 r hne heq3 => rw [heq3] at h3; simp only at h3 ⊢; rw [h3, h2]; exact h1
    · rw [hqm (qm_flushArm _ rc)]; exact h1

theorem requestsPollNext_idle_cq (now : Nat) : ∀ (fuel : Nat) (s : St), s.limit = none →
    ((requestsPollNext fuel s now).2 = .pending ∨ (requestsPollNext fuel s now).2 = .none) →
    (requestsPollNext fuel s now).1.cancelQ = [] := by
  intro fuel
  induction fuel with
  | zero => intro s _ h; rcases h with h | h <;> cases h
  | succ n ih =>
    intro s hl
    rw [requestsPollNext_succ, channelPollNext_none hl]
    have h1 := basePollNext_idle_cq now (baseFuel s) s
    have hc1 := (cfg_closed s now).toLoopClosed.basePollNext (baseFuel s) s ⟨rfl, rfl, rfl, rfl⟩
    split
    · next s1 a heq => intro h; rcases h with h | h <;> cases h
    · next s1 heq => intro h; rcases h with h | h <;> cases h
    · next s1 read hne1 hne2 heq =>
      rw [heq] at h1 hc1
      have hl2 : (armRead s1 read).limit = none := by
        have : (armRead s1 read).limit = s1.limit := by unfold armRead; split <;> rfl
        rw [this, hc1.2.1]; exact hl
      have hc3 := (cfg_closed (armRead s1 read) now).pumpWrite (armRead s1 read) (readClosedOf read) ⟨rfl, rfl, rfl, rfl⟩
      have hpw := pumpWrite_mv_cq (armRead s1 read) (readClosedOf read)
      have harm : (armRead s1 read).cancelQ = s1.cancelQ := by unfold armRead; split <;> rfl
      split
      · next s3 a heq3 => intro h; rcases h with h | h <;> cases h
      · next s3 heq3 => intro h; rcases h with h | h <;> cases h
      · next s3 write hne3 hne4 heq3 =>
        rw [heq3] at hpw hc3
        simp only at hpw hc3
        cases read with
        | some ex => cases write <;> (intro h; rcases h with h | h <;> cases h)
        | err a => exact absurd rfl (hne1 a)
        | spin => exact absurd rfl hne2
        | pending =>
          cases write with
          | some u => exact ih s3 (hc3.2.1.trans hl2)
          | pending => intro _; dsimp only; rw [hpw, harm]; exact h1 (Or.inl rfl)
          | none => intro _; dsimp only; rw [hpw, harm]; exact h1 (Or.inl rfl)
          | err a => exact absurd rfl (hne3 a)
          | spin => exact absurd rfl hne4
        | none =>
          cases write with
          | some u => exact ih s3 (hc3.2.1.trans hl2)
          | pending => intro _; dsimp only; rw [hpw, harm]; exact h1 (Or.inr rfl)
          | none => intro _; dsimp only; rw [hpw, harm]; exact h1 (Or.inr rfl)
          | err a => exact absurd rfl (hne3 a)
          | spin => exact absurd rfl hne4

/-! ## the book's own flags during a poll (no limiter) -/

structure BL (b : Book) : Prop where
  lim : b.limit = none
  st : b.stalled = false
  idle : b.idleNow = false

theorem BL.of_eq {b b' : Book} (h : BL b) (h1 : b'.limit = b.limit) (h2 : b'.stalled = b.stalled)
    (h3 : b'.idleNow = b.idleNow) : BL b' := ⟨h1.trans h.lim, h2.trans h.st, h3.trans h.idle⟩

theorem sweepOne_flags (b : Book) :
    b.sweepOne.limit = b.limit ∧ b.sweepOne.stalled = b.stalled ∧ b.sweepOne.idleNow = b.idleNow := by
  rw [sweepOne_eq]
  have h1 : (so1 b).limit = b.limit ∧ (so1 b).stalled = b.stalled ∧ (so1 b).idleNow = b.idleNow := by
    unfold so1; split <;> exact ⟨rfl, rfl, rfl⟩
  split
  · exact h1
  · split
    · exact h1
    · exact h1

theorem BL.step {b : Book} (h : BL b) (o : Obs) (ho : ∀ k r, o ≠ .ret (.server k) r) : BL (b.step (.obs o)) := by
  have hl := h.lim
  cases o with
  | tNext ep r =>
    rw [step_tNext_eq]
    have hp : BL (preRead b) := by
      unfold preRead
      split
      · obtain ⟨a1, a2, a3⟩ := sweepOne_flags ({ b with justRead := none, sawT := true, prevReadyP := false } : Book)
        exact h.of_eq a1 a2 a3
      · exact h.of_eq rfl rfl rfl
    cases r with
    | item m =>
      cases m with
      | request id d tr body => exact hp.of_eq rfl rfl rfl
      | cancel id tr =>
        simp only
        generalize (preRead b).table.reverse.find? (fun p : Nat × Nat => p.1 == id) = o
        cases o with
        | none => exact hp.of_eq rfl rfl rfl
        | some p => obtain ⟨i, r⟩ := p; exact hp.of_eq rfl rfl rfl
      | response id res => exact hp
    | pending => exact hp
    | err => exact hp.of_eq rfl rfl rfl
    | eof => exact hp.of_eq rfl rfl rfl
  | tReady ep r =>
    refine h.of_eq ?_ ?_ ?_
    · simp only [Book.step]
      (repeat' split) <;> rfl
    · simp only [Book.step]
      by_cases h1 : (r == PollRes.err) = true
      · simp only [h1, if_true, hl, Option.isSome_none, Bool.and_false, Bool.false_eq_true, if_false]
      · simp only [h1, if_false, hl, Option.isSome_none, Bool.and_false, Bool.false_eq_true, if_false]
    · simp only [Book.step]
      (repeat' split) <;> rfl
  | tFlush ep r =>
    simp only [Book.step]
    split <;> exact h.of_eq rfl rfl rfl
  | tSend ep m ok =>
    cases m with
    | response id res => cases ok <;> exact h.of_eq rfl rfl rfl
    | _ => exact h.of_eq rfl rfl rfl
  | ret t r =>
    cases t with
    | server k => exact absurd rfl (ho k r)
    | exec v => cases r <;> exact h.of_eq rfl rfl rfl
    | _ => exact h.of_eq rfl rfl rfl
  | handler r ev t => cases ev <;> exact h.of_eq rfl rfl rfl
  | counts ep a c => cases ep <;> exact h.of_eq rfl rfl rfl
  | _ => exact h.of_eq rfl rfl rfl

theorem BL.bo {b0 : Book} (h : BL b0) (l : List Obs) (hl : ∀ o ∈ l, ∀ k r, o ≠ .ret (.server k) r) : BL (bo b0 l) := by
  induction l with
  | nil => exact h
  | cons o l ih =>
    exact (ih (fun o' ho' => hl o' (List.mem_cons_of_mem _ ho'))).step o (hl o (List.mem_cons_self ..))

/-! ## the count at the end of an idle poll -/

theorem nodup_sub_length : ∀ {l1 l2 : List Nat}, l1.Nodup → (∀ a ∈ l1, a ∈ l2) → l1.length ≤ l2.length := by
  intro l1
  induction l1 with
  | nil => intro l2 _ _; exact Nat.zero_le _
  | cons a l1 ih =>
    intro l2 hnd hs
    have ha : a ∈ l2 := hs a (List.mem_cons_self ..)
    have hnd' := List.nodup_cons.mp hnd
    have hsub : ∀ x ∈ l1, x ∈ l2.erase a := by
      intro x hx
      have hne : x ≠ a := fun hc => hnd'.1 (hc ▸ hx)
      exact (List.mem_erase_of_ne hne).mpr (hs x (List.mem_cons_of_mem _ hx))
    have := ih hnd'.2 hsub
    rw [List.length_erase_of_mem ha] at this
    have hpos : 0 < l2.length := List.length_pos_of_mem ha
    simp only [List.length_cons]
    omega

theorem idle_count {b1 b1' : Book} {s : St} (l : Option Nat) (ht : TInv now s)
    (hK : K now none (bview b1) (sview s)) (hX : X rest (bw b1) (mv s)) (hY : Y now none (bw b1) (mv s))
    (he : b1'.execs = b1.execs) (htb : b1'.table = b1.table) (hnw : b1'.now = b1.now)
    (hidle : ∀ en ∈ (mv s).ents, now < ceilMs en.due * nsPerMs) (hcq : s.cancelQ = []) (hdr : s.dropped = false) :
    s.inflight.length = (sweptBook b1' l).table.length := by
  have hclk : b1.now = now := hK.clk
  have hexec : ∀ r, b1'.exec r = b1.exec r := by intro r; unfold Book.exec; rw [he]
  have hbnd : (b1.execs.map (·.rid)).Nodup := by
    have := hK.bNodup
    have heq : (bview b1).execs.map (·.rid) = b1.execs.map (·.rid) := by simp only [bview, List.map_map]; rfl
    rw [heq] at this; exact this
  have hT : (sweptBook b1' l).table = b1'.table.filter (fun p : Nat × Nat =>
      match b1'.exec p.2 with
      | some e => !(decide (e.tick ≤ b1'.now)) && !e.abandoned
      | none => true) := rfl
  -- the tracked requests are in the swept table
  have h1 : ∀ a ∈ s.inflight.map (·.id), a ∈ (sweptBook b1' l).table.map (·.1) := by
    intro a ha
    obtain ⟨en0, hen0, rfl⟩ := List.mem_map.mp ha
    have hzen : ze en0 ∈ (mv s).ents := List.mem_map_of_mem hen0
    obtain ⟨x, hx, hr⟩ := hX.esrc (ze en0) hzen
    obtain ⟨e, hem, rfl⟩ := List.mem_map.mp hx
    have hxid : e.id = en0.id := K_eid_st hK en0 hen0 e hem hr
    cases hv : e.vis with
    | none =>
      exfalso
      rcases hY.nv (ye e) hx hv (ze en0) hzen hr.symm with ⟨i, hp⟩ | hc
      · cases hp
      · have : (ye e).id ∈ s.cancelQ := hc
        rw [hcq] at this; cases this
    | some v =>
      obtain ⟨ebx, hfind, hbid, _, _⟩ := hK.bex (xe e) (List.mem_map_of_mem hem) v hv
      rw [bview_find] at hfind
      cases hex0 : b1.exec v with
      | none => rw [hex0] at hfind; cases hfind
      | some e0 =>
        rw [hex0] at hfind
        have hxb : xb e0 = ebx := Option.some.inj hfind
        have he0m : e0 ∈ b1.execs := List.mem_of_find?_eq_some hex0
        have he0r : e0.rid = v := by simpa using List.find?_some hex0
        have hwm : wb e0 ∈ (bw b1).execs := List.mem_map_of_mem he0m
        have he0id : e0.id = e.id := by
          have : (xb e0).id = (xe e).id := by rw [hxb]; exact hbid
          exact this
        have hndue : ¬ e0.tick ≤ now := by
          intro hle
          exact hX.due_untracked (K_eid_mv hK) now hidle hwm hle (ze en0) hzen (hxid.symm.trans he0id.symm)
        have hnab : e0.abandoned = false := by
          cases hab : e0.abandoned with
          | false => rfl
          | true =>
            exfalso
            have := hY.i3 hdr (ze en0) hzen (ye e) hx hr (wb e0) hwm (by show e.vis = some e0.rid; rw [he0r]; exact hv) hab
            have h2 : en0.id ∈ s.cancelQ := this
            rw [hcq] at h2; cases h2
        have htab := hK.tab (SEntry.ir en0) (List.mem_map_of_mem hen0) (xe e) (List.mem_map_of_mem hem) hr v hv ebx
          (by rw [bview_find, hex0]; exact hfind)
        have hmem : (en0.id, v) ∈ b1.table := by
          rcases htab with h3 | h3 | h3
          · exact h3
          · exfalso
            rw [← hxb] at h3
            have h3' : e0.tick ≤ b1.now := h3
            rw [hclk] at h3'
            exact hndue h3'
          · exfalso
            rw [← hxb] at h3
            have h3' : e0.abandoned = true := h3
            rw [hnab] at h3'; cases h3'
        refine List.mem_map.mpr ⟨(en0.id, v), ?_, rfl⟩
        rw [hT]
        refine List.mem_filter.mpr ⟨by rw [htb]; exact hmem, ?_⟩
        simp only [hexec, hex0, hnw, hclk, hnab]
        simp [hndue]
  -- the swept table lists tracked requests only
  have h2 : ∀ a ∈ (sweptBook b1' l).table.map (·.1), a ∈ s.inflight.map (·.id) := by
    intro a ha
    obtain ⟨p, hp, rfl⟩ := List.mem_map.mp ha
    rw [hT] at hp
    obtain ⟨hpt, hcond⟩ := List.mem_filter.mp hp
    rw [htb] at hpt
    obtain ⟨eb, heb, hr, hi, halt⟩ := hY.i2 hdr p hpt
    obtain ⟨e1, he1, rfl⟩ := List.mem_map.mp heb
    have hfe : b1.exec p.2 = some e1 := by
      have := find_nodup (·.rid) hbnd he1
      unfold Book.exec
      rw [← show e1.rid = p.2 from hr]
      exact this
    simp only [hexec, hfe, hnw, hclk, Bool.and_eq_true, Bool.not_eq_true', decide_eq_false_iff_not] at hcond
    rcases halt with ⟨en, hen, hei⟩ | h3 | h3
    · obtain ⟨en0, hen0, rfl⟩ := List.mem_map.mp hen
      exact List.mem_map.mpr ⟨en0, hen0, hei⟩
    · exfalso
      have h3' : e1.tick ≤ b1.now := h3
      rw [hclk] at h3'
      exact hcond.1 h3'
    · exfalso
      have h3' : e1.abandoned = true := h3
      rw [hcond.2] at h3'; cases h3'
  have hnd1 : (s.inflight.map (·.id)).Nodup := ht.ids
  have hnd2 : ((sweptBook b1' l).table.map (·.1)).Nodup := by
    have := hK.tnd
    have hsub : List.Sublist ((sweptBook b1' l).table.map (·.1)) ((bview b1).table.map (·.1)) := by
      refine List.Sublist.map _ ?_
      rw [hT]
      show List.Sublist _ b1.table
      rw [← htb]
      exact List.filter_sublist
    exact this.sublist hsub
  have a1 := nodup_sub_length hnd1 h1
  have a2 := nodup_sub_length hnd2 h2
  simp only [List.length_map] at a1 a2
  omega

/-! ## the end of a poll: `yielded`, `ret`, `counts` -/

theorem bw_step_yielded_table (b : Book) (r id d : Nat) (tr : Trace) :
    (bw (b.step (.obs (.yielded r id d tr)))).table = (bw b).table.filter (·.1 != id) ++ [(id, r)] := by
  simp [bw, Book.step]

theorem NY_yield {s : St} {rid id : Nat} {e : Exec} (hg : getExec s rid = some e) (ht : TInv now s)
    (h : NY b0 now (some (rid, id)) rest s) (harm : ArmedV rid (mv s)) :
    NY b0 now none rest (emit (updExec { s with nextVis := s.nextVis + 1 } rid (fun x => { x with vis := some s.nextVis }))
      (.yielded s.nextVis e.id e.deadline e.trace)) := by
  obtain ⟨hem, her⟩ := getExec_mem hg
  refine ⟨NN_yield hg ht h.nn, ⟨h.ck, Or.inr (chk11_other _ _ (fun _ _ _ hc => by cases hc))⟩, ?_⟩
  show ((bo b0 s.obs).step (.obs (.yielded s.nextVis e.id e.deadline e.trace))).spun = true ∨ _
  rcases h.y with h1 | hY
  · exact Or.inl (step_spun_mono _ _ h1)
  · rcases h.nn.n with h1 | ⟨hK, hX⟩
    · exact Or.inl (step_spun_mono _ _ h1)
    · right
      obtain ⟨_, x0, hx0, hr0, hid0, hv0⟩ := hK.pnd rid id rfl
      have hxe : xe e = x0 := eq_of_rid_nodup hK.ridNodup (List.mem_map_of_mem hem) hx0 (her.trans hr0.symm)
      have hid : e.id = id := by rw [← hid0, ← hxe]; rfl
      have hall : ∀ x ∈ (mv s).execs, x.rid = rid → x.vis = none ∧ x.id = id := by
        intro x hx hxr
        obtain ⟨e', he', rfl⟩ := List.mem_map.mp hx
        have : xe e' = x0 := eq_of_rid_nodup hK.ridNodup (List.mem_map_of_mem he') hx0 (hxr.trans hr0.symm)
        constructor
        · show (xe e').vis = none
          rw [this]; exact hv0
        · show (xe e').id = id
          rw [this]; exact hid0
      have hclk : (bo b0 s.obs).now = now := hK.clk
      show Y now none (bw ((bo b0 s.obs).step (.obs (.yielded s.nextVis e.id e.deadline e.trace)))) _
      refine hY.yield hX s.nextVis e.deadline ?_ rfl rfl rfl rfl ?_ ?_ rfl hall ?_ ?_ harm ?_
      · show (List.map (fun e' => if e'.rid == rid then { e' with vis := some s.nextVis } else e') s.execs).map ye = _
        simp only [mv, List.map_map]
        apply List.map_congr_left
        intro e' _
        simp only [Function.comp]
        have hxr : (ye e').rid = e'.rid := rfl
        by_cases hc : (e'.rid == rid) = true
        · rw [if_pos hc, if_pos (by rw [hxr]; exact hc)]; rfl
        · rw [if_neg hc, if_neg (by rw [hxr]; exact hc)]
      · rw [bw_step_yielded, hid]; rfl
      · rw [bw_step_yielded_table, hid]
      · intro x hx hxv
        obtain ⟨e', he', rfl⟩ := List.mem_map.mp hx
        have := hK.visLt (xe e') (List.mem_map_of_mem he') s.nextVis hxv
        exact Nat.lt_irrefl _ this
      · intro eb heb hr
        obtain ⟨e1, he1, rfl⟩ := List.mem_map.mp heb
        have := hK.bLt (xb e1) (List.mem_map_of_mem he1)
        have hr' : (xb e1).rid = s.nextVis := hr
        rw [hr'] at this
        exact Nat.lt_irrefl _ this
      · intro en hen hr
        obtain ⟨en0, hen0, rfl⟩ := List.mem_map.mp hen
        obtain ⟨c, hc, hk, _⟩ := ht.fwd en0 hen0
        have hok := ht.dl en0 hen0 c hc hk e hem (her.trans hr.symm)
        have hrem : en0.remainder = 0 := rem0_st hY en0 hen0
        have hlo := hok.lo
        rw [hrem] at hlo
        -- the pending entry is this one: it was armed in this poll
        obtain ⟨⟨en1, hen1, hen1i, hen1r, hdue⟩, _⟩ := hY.pnd rid id rfl
        obtain ⟨en1', hen1', rfl⟩ := List.mem_map.mp hen1
        have hsame : en0 = en1' := by
          have h1 : en0.id = id := by rw [← K_eid_st hK en0 hen0 e hem (her.trans hr.symm)]; exact hid
          exact eq_of_map_nodup (·.id) ht.ids hen0 hen1' (h1.trans hen1i.symm)
        have hclk' : (bw (bo b0 s.obs)).now = now := hclk
        rw [hclk']
        show max e.deadline now ≤ en0.dueAt
        have hdue' : now ≤ en0.dueAt := by rw [hsame]; exact hdue
        omega

theorem Y_ret_aux {pend : Option (Nat × Nat)} {b1 : Book} {S : MV} (c : Bool) (h : Y now pend (bw b1) S) :
    Y now pend (bw (if c then sweptBook b1 (some b1.now) else b1)) S := by
  cases c
  · exact h
  · refine h.sweepG (fun x => x.tick ≤ b1.now) ?_ (fun p hp => (swept_table_sub b1 (some b1.now)).subset hp) rfl
    show (sweptBook b1 (some b1.now)).execs.map wb = _
    rw [swept_execs_eq]
    exact map_wb_ite b1.execs (fun e => e.tick ≤ b1.now) (fun x => x.tick ≤ b1.now) (fun e => Iff.rfl)
      (fun e => { e with expiredSeen := true }) (fun x => { x with expiredSeen := true }) (fun e => rfl)

theorem Y_step_ret {pend : Option (Nat × Nat)} {b : Book} {S : MV} (k : Nat) (r : Ret) (h : Y now pend (bw b) S) :
    Y now pend (bw (b.step (.obs (.ret (.server k) r)))) S := by
  rw [step_ret_eq]
  have hle : ∀ b1 : Book, b1.now = b.now → b1.execs = b.execs → b1.table = b.table → b1.failed = b.failed →
      Y now pend (bw b1) S := by
    intro b1 h1 h2 h3 h4
    refine h.le ⟨h1, congrArg (List.map wb) h2, fun p hp => ?_, fun hf => ?_⟩
    · show p ∈ b.table
      rw [← h3]; exact hp
    · show b1.failed = true
      rw [h4]; exact hf
  cases r with
  | pending => exact Y_ret_aux _ (hle _ rfl rfl rfl rfl)
  | readyNone => exact Y_ret_aux _ (hle _ rfl rfl rfl rfl)
  | readyItem => exact Y_ret_aux _ (hle _ rfl rfl rfl rfl)
  | readyItemErr a => exact Y_ret_aux _ (hle _ rfl rfl rfl rfl)
  | readyOk => exact Y_ret_aux _ (hle _ rfl rfl rfl rfl)
  | readyErr a => exact Y_ret_aux _ (hle _ rfl rfl rfl rfl)

theorem chk11_counts (b' : Book) (k a t : Nat) (hst : b'.stalled = false)
    (hidle : b'.idleNow = true → a = b'.table.length) : chk11 b' (.counts (.server k) a t) = none := by
  unfold chk11
  simp only [checkC11Idle]
  rw [if_neg (by rw [hst]; simp)]
  cases hi : b'.idleNow with
  | false => rw [if_neg (by simp)]
  | true =>
    have := hidle hi
    rw [if_neg (by simp [this])]

theorem chk11_ret_aux (b1 : Book) (c : Bool) (k a t : Nat) (hst : b1.stalled = false) (hid : b1.idleNow = false)
    (h : c = true → a = (sweptBook b1 (some b1.now)).table.length) :
    chk11 (if c then sweptBook b1 (some b1.now) else b1) (.counts (.server k) a t) = none := by
  cases c
  · exact chk11_counts _ k a t hst (fun hi => by
      have hi' : b1.idleNow = true := hi
      rw [hid] at hi'; cases hi')
  · exact chk11_counts _ k a t hst (fun _ => h rfl)

theorem chk11_after_ret (b1 : Book) (k k' : Nat) (r : Ret) (a t : Nat) (hbl : BL b1)
    (hcnt : (r = .pending ∨ r = .readyNone) → ∀ b1' : Book, b1'.execs = b1.execs → b1'.table = b1.table →
      b1'.now = b1.now → ∀ l, a = (sweptBook b1' l).table.length) :
    chk11 (b1.step (.obs (.ret (.server k) r))) (.counts (.server k') a t) = none := by
  rw [step_ret_eq]
  cases r with
  | pending => exact chk11_ret_aux _ _ k' a t hbl.st hbl.idle (fun _ => by apply hcnt (Or.inl rfl) <;> rfl)
  | readyNone => exact chk11_ret_aux _ _ k' a t hbl.st hbl.idle (fun _ => by apply hcnt (Or.inr rfl) <;> rfl)
  | readyItem => exact chk11_ret_aux _ _ k' a t hbl.st hbl.idle (fun hc => by simp at hc)
  | readyItemErr e => exact chk11_ret_aux _ _ k' a t hbl.st hbl.idle (fun hc => by simp at hc)
  | readyOk => exact chk11_ret_aux _ _ k' a t hbl.st hbl.idle (fun hc => by simp at hc)
  | readyErr e => exact chk11_ret_aux _ _ k' a t hbl.st hbl.idle (fun hc => by simp at hc)

/-- the `ret` and `counts` observations that end a poll -/
theorem NY_fin {s1 : St} (rt : Ret) (h1 : NY b0 now none rest s1) (hbl : BL b0)
    (hnr : ∀ o ∈ s1.obs, ∀ k r, o ≠ .ret (.server k) r) (ht1 : (rt = .pending ∨ rt = .readyNone) → TInv now s1)
    (hnn : NN b0 now none rest (emit (emit s1 (.ret (tid s1) rt)) (.counts (tid s1) s1.inflight.length s1.timers.len)))
    (hidle : (rt = .pending ∨ rt = .readyNone) → DelayQ.Idle now s1.timers ∧ s1.cancelQ = [] ∧ s1.dropped = false) :
    NY b0 now none rest (emit (emit s1 (.ret (tid s1) rt)) (.counts (tid s1) s1.inflight.length s1.timers.len)) := by
  have hbw : bw (bo b0 (emit (emit s1 (.ret (tid s1) rt)) (.counts (tid s1) s1.inflight.length s1.timers.len)).obs) =
      bw ((bo b0 s1.obs).step (.obs (.ret (tid s1) rt))) := rfl
  refine ⟨hnn, ?_, ?_⟩
  · show CK chk11 b0 (.counts (tid s1) s1.inflight.length s1.timers.len :: .ret (tid s1) rt :: s1.obs)
    refine ⟨⟨h1.ck, Or.inr (chk11_other _ _ (fun _ _ _ hc => by cases hc))⟩, ?_⟩
    show ((bo b0 s1.obs).step (.obs (.ret (tid s1) rt))).spun = true ∨ _
    rcases h1.y with hs | hY
    · exact Or.inl (step_spun_mono _ _ hs)
    · rcases h1.nn.n with hs | ⟨hK, hX⟩
      · exact Or.inl (step_spun_mono _ _ hs)
      · right
        refine chk11_after_ret (bo b0 s1.obs) s1.sidx s1.sidx rt _ _ (hbl.bo _ hnr) (fun hr b1' he htb hnw l => ?_)
        obtain ⟨hi, hcq, hdr⟩ := hidle hr
        exact idle_count l (ht1 hr) hK hX hY he htb hnw (idle_mv (ht1 hr) hi) hcq hdr
  · rw [hbw]
    show ((bo b0 s1.obs).step (.obs (.ret (tid s1) rt))).spun = true ∨ _
    rcases h1.y with hs | hY
    · exact Or.inl (step_spun_mono _ _ hs)
    · exact Or.inr (Y_step_ret s1.sidx rt hY)

theorem PostRqY.toT {s : St} {r : ReqPoll} (h : PostRqY b0 now rest (s, r)) : PostRqT b0 now rest (s, r) := by
  cases r with
  | item rid => obtain ⟨id, h1, _⟩ := h; exact ⟨id, h1.nn⟩
  | pending => exact h.nn
  | none => exact h.nn
  | err a => exact h.nn
  | spin => exact h.nn

theorem NY_pskFinish {s : St} {r : ReqPoll} (ht : TInv now s) (h : PostRqY b0 now rest (s, r)) (hsp : r ≠ .spin)
    (hbl : BL b0) (hnr : ∀ o ∈ s.obs, ∀ k r, o ≠ .ret (.server k) r)
    (hidle : (r = .pending ∨ r = .none) → DelayQ.Idle now s.timers ∧ s.cancelQ = [] ∧ s.dropped = false) :
    NY b0 now none rest (pskFinish s r) := by
  have hnn := NN_pskFinish ht h.toT hsp (fun hr => (hidle hr).1)
  cases r with
  | pending => exact NY_fin .pending h hbl hnr (fun _ => ht) hnn (fun _ => hidle (Or.inl rfl))
  | spin => exact absurd rfl hsp
  | none =>
    have h1 : NY b0 now none rest { s with done := some .readyNone } :=
      NY_qm (s := s) (s' := { s with done := some .readyNone }) (QM.of_eq rfl rfl) h
    exact NY_fin (s1 := { s with done := some .readyNone }) .readyNone h1 hbl hnr
      (fun _ => ht.of_sim rfl rfl (ExecsSim.refl _)) hnn (fun _ => hidle (Or.inr rfl))
  | err a =>
    have h1 : NY b0 now none rest { s with done := some (.readyItemErr a) } :=
      NY_qm (s := s) (s' := { s with done := some (.readyItemErr a) }) (QM.of_eq rfl rfl) h
    exact NY_fin (s1 := { s with done := some (.readyItemErr a) }) (.readyItemErr a) h1 hbl hnr
      (fun hr => by rcases hr with hr | hr <;> cases hr) hnn (fun hr => by rcases hr with hr | hr <;> cases hr)
  | item rid =>
    obtain ⟨id, hN, harm⟩ := h
    simp only [pskFinish, pskRet] at hnn ⊢
    split
    · next e he =>
      rw [he] at hnn
      refine NY_fin .readyItem (NY_yield he ht hN harm) hbl ?_ (fun hr => by rcases hr with hr | hr <;> cases hr) hnn
        (fun hr => by rcases hr with hr | hr <;> cases hr)
      intro o ho k r hc
      simp only [emit_obs, List.mem_cons] at ho
      rcases ho with rfl | ho
      · cases hc
      · exact hnr o ho k r hc
    · next he =>
      rw [he] at hnn
      have h1 : NY b0 now none rest s := by
        refine ⟨?_, hN.ck, ?_⟩
        · refine ⟨?_, hN.nn.ck⟩
          rcases hN.nn.n with hs | ⟨hK, _⟩
          · exact Or.inl hs
          · exfalso
            obtain ⟨_, x0, hx0, hr0, _, _⟩ := hK.pnd rid id rfl
            obtain ⟨e, hem, rfl⟩ := List.mem_map.mp hx0
            unfold getExec at he
            have := List.find?_eq_none.mp he e hem
            simp at this
            exact this hr0
        · rcases hN.nn.n with hs | ⟨hK, _⟩
          · exact Or.inl hs
          · exfalso
            obtain ⟨_, x0, hx0, hr0, _, _⟩ := hK.pnd rid id rfl
            obtain ⟨e, hem, rfl⟩ := List.mem_map.mp hx0
            unfold getExec at he
            have := List.find?_eq_none.mp he e hem
            simp at this
            exact this hr0
      exact NY_fin .readyItem h1 hbl hnr (fun hr => by rcases hr with hr | hr <;> cases hr) hnn
        (fun hr => by rcases hr with hr | hr <;> cases hr)

/-! ## the request stream is dropped; one poll by the application -/

theorem my_foldl_abort (es : List SEntry) (s : St) : MY s (es.foldl (fun s e => abortExec s e.rid) s) := by
  induction es generalizing s with
  | nil => exact MY.refl s
  | cons e es ih => exact (my_abortExec s e.rid).trans (ih _)

theorem my_foldl_wake (ws : List Nat) (s : St) : MY s (ws.foldl wakeExec s) := by
  induction ws generalizing s with
  | nil => exact MY.refl s
  | cons w ws ih => exact (my_wakeExec s w).trans (ih _)

theorem Y_dropServer {B : BW} {s : St} (hY : Y now none B (mv s)) : Y now none B (mv (dropServer s)) := by
  unfold dropServer
  split
  · exact hY
  · simp only
    have h1 := my_foldl_abort s.inflight { s with dropped := true, woken := false }
    generalize (s.inflight.foldl (fun s e => abortExec s e.rid) { s with dropped := true, woken := false }) = s1 at h1 ⊢
    have h2 : MY s1 (s1.rqWaiters.foldl wakeExec { s1 with rqWaiters := [] }) := (my_foldl_wake _ _).pre rfl rfl rfl rfl rfl
    generalize (s1.rqWaiters.foldl wakeExec { s1 with rqWaiters := [] }) = s2 at h2 ⊢
    have h12 := h1.trans h2
    obtain ⟨g, hg, hid⟩ := h12.ex
    have hdrop : s2.dropped = true := h12.dr
    have hfalse : ∀ {P : Prop}, (mv { s2 with inflight := [], timers := {}, cancelQ := [], respQ := [] }).dropped = false → P := by
      intro P hd
      have : s2.dropped = false := hd
      rw [hdrop] at this; cases this
    refine hY.model (BW.le.refl _) s.execs ye (ye ∘ g) rfl (by show s2.execs.map ye = _; rw [hg, List.map_map]) ?_
      (fun en' h => by cases h) (fun j h => by cases h) (fun j _ => Or.inr (fun en' h => by cases h)) h12.inb
      (fun hd => hfalse hd) (fun hd => hfalse hd) (fun en h => by cases h) (fun r i hp => by cases hp)
    intro a _
    obtain ⟨a1, a2, a3, a4, a5⟩ := hid a
    exact ⟨a1, a2, a3, fun _ => a4, fun _ => a5⟩

theorem NY_dropServer {s : St} (h : NY b0 now none rest s)
    (hd : (bo b0 s.obs).spun = true ∨ (bo b0 s.obs).dropped = true) : NY b0 now none rest (dropServer s) :=
  NY_model (extW_dropServer s) (NN_dropServer h.nn hd) (fun _ _ hY => Y_dropServer hY) h

/-- between ops: the couplings hold with nothing pending — or the channel is poisoned (then the table clause of C11 has
nothing to judge any more: a poisoned channel reports no counts) -/
def NPY (b0 : Book) (now : Nat) (rest : List Nat) (s : St) : Prop :=
  NY b0 now none rest s ∨ (s.poisoned = true ∧ CK chk11 b0 s.obs ∧ ∃ pend, NN b0 now pend rest s)

theorem NPY.toNP {s : St} (h : NPY b0 now rest s) : NP b0 now rest s := by
  rcases h with h | ⟨hp, _, pend, h⟩
  · exact Or.inl h.nn
  · exact Or.inr ⟨hp, pend, h⟩

theorem NPY.qm {s s' : St} (hq : QM s s') (hp : s'.poisoned = s.poisoned) (h : NPY b0 now rest s) : NPY b0 now rest s' := by
  rcases h with h | ⟨hpo, hck, pend, h⟩
  · exact Or.inl (NY_qm hq h)
  · exact Or.inr ⟨hp.trans hpo, CK11.extW hq.1 hck, pend, NN_qm hq h⟩

/-- a `ret` of the request stream -/
def isRS : Obs → Bool
  | .ret (.server _) _ => true
  | _ => false

theorem isRS_pollQuiet : PollQuiet isRS :=
  ⟨fun _ _ => rfl, fun _ _ _ => rfl, fun _ _ => rfl, fun _ _ => rfl, fun _ _ => rfl, fun _ => rfl, fun _ => rfl, fun _ _ => rfl⟩

theorem NY_pollServerKeep {s : St} (hf : ClampFits) (hn : now < panicFreeNs) (h0 : s.obs = []) (hs : SInv false now s)
    (hq : QC now s) (h : NPY b0 now rest s) (hbl : BL b0) (hl : s.limit = none) (hcfg : s.throttleAfterRead = false)
    (hel : s.ensureLoop = false) : NPY b0 now rest (pollServerKeep s now) := by
  rw [pollServerKeep_eq]
  split
  · exact h.qm (QM.emit s _ rfl rfl) rfl
  · next hlive =>
    simp only [Bool.or_eq_true, not_or, Bool.not_eq_true] at hlive
    have hN0 : NY b0 now none rest { s with woken := false } := by
      rcases h with h | ⟨hp, _⟩
      · exact NY_qm (s := s) (QM.of_eq rfl rfl) h
      · rw [hlive.2] at hp; cases hp
    have hs0 : SInv false now { s with woken := false } :=
      (sinv_closed false now).inert s _ (by constructor <;> rfl) hs
    have hq0 : QC now { s with woken := false } := hq.of_timers rfl
    have hns : NS s := by unfold NS; rw [h0]; rfl
    have h1 := NS_requestsPollNext now (pollFuel { s with woken := false }) { s with woken := false }
      (by unfold pollFuel; simp only; omega) (NS_of_obs hns rfl) hcfg hel
    have hp := NY_requestsPollNext (b0 := b0) (rest := rest) (pollFuel { s with woken := false }) { s with woken := false }
      hs0 hN0 hl hel
    have hidle := requestsPollNext_idle_timers hf hn (pollFuel { s with woken := false }) { s with woken := false } hl hq0
    have hicq := requestsPollNext_idle_cq now (pollFuel { s with woken := false }) { s with woken := false } hl
    have hspin := requestsPollNext_spin now (pollFuel { s with woken := false }) { s with woken := false } hl hel
    have ht1 := ((sinv_closed false now).requestsPollNext (pollFuel { s with woken := false }) { s with woken := false } hs0).t
    have hdd := (dd_closed s.done s.dropped now).requestsPollNext (pollFuel { s with woken := false })
      { s with woken := false } ⟨rfl, rfl⟩
    have hflt := flt_requestsPollNext isRS_pollQuiet now (pollFuel { s with woken := false }) { s with woken := false }
    revert h1 hp hidle hicq hspin ht1 hdd hflt
    generalize requestsPollNext (pollFuel { s with woken := false }) { s with woken := false } now = p
    obtain ⟨s1, r⟩ := p
    intro h1 hp hidle hicq hspin ht1 hdd hflt
    simp only at h1 hp hidle hicq hspin ht1 hdd hflt ⊢
    split
    · next hsp =>
      exfalso
      unfold NS at hns h1
      simp [hns, h1] at hsp
    · split
      · next hpo =>
        cases r with
        | item rid => obtain ⟨id, h, _⟩ := hp; exact Or.inr ⟨hpo, h.ck, _, h.nn⟩
        | pending => exact Or.inl hp
        | none => exact Or.inl hp
        | err a => exact Or.inl hp
        | spin => exact Or.inl hp
      · next hpo =>
        have hnr : ∀ o ∈ s1.obs, ∀ k r, o ≠ .ret (.server k) r := by
          intro o ho k r' hc
          unfold Flt at hflt
          simp only at hflt
          have : o ∈ s1.obs.filter isRS := List.mem_filter.mpr ⟨ho, by rw [hc]; rfl⟩
          rw [hflt, h0] at this
          cases this
        refine Or.inl (NY_pskFinish ht1 hp ?_ hbl hnr ?_)
        · intro hr
          rcases hspin hr with h2 | h2
          · unfold NS at h1; rw [h1] at h2; cases h2
          · exact hpo h2
        · intro hr
          refine ⟨?_, hicq hr, by rw [hdd.2]; exact hlive.1.1⟩
          rcases hr with hr | hr
          · exact hidle (Or.inl hr)
          · exact hidle (Or.inr hr)

theorem NY_pollServer {s : St} (hf : ClampFits) (hn : now < panicFreeNs) (h0 : s.obs = []) (hs : SInv false now s)
    (hq : QC now s) (hdd : DoneDropped s) (h : NPY b0 now rest s) (hbl : BL b0) (hl : s.limit = none)
    (hcfg : s.throttleAfterRead = false) (hel : s.ensureLoop = false) : NPY b0 now rest (pollServer s now) := by
  have hk := NY_pollServerKeep hf hn h0 hs hq h hbl hl hcfg hel
  have hdone := (J_pollServerKeep hs h.toNP.toJP hcfg hel).2
  unfold pollServer
  simp only
  split
  · next hc =>
    simp only [Bool.and_eq_true, Bool.not_eq_true'] at hc
    have hd : (bo b0 (pollServerKeep s now).obs).spun = true ∨ (bo b0 (pollServerKeep s now).obs).dropped = true := by
      rcases hdone hc.1 with h | h
      · exfalso
        have hdr := hdd h
        have : pollServerKeep s now = emit s .noop := pollServerKeep_dead s now (by simp [hdr])
        rw [this] at hc
        simp only [emit_dropped, hdr] at hc
        exact absurd hc.2 (by simp)
      · exact h
    rcases hk with h | ⟨hp, hck, pend, h⟩
    · exact Or.inl (NY_dropServer h hd)
    · exact Or.inr ⟨by simp [hp], CK11.extW (extW_dropServer _) hck, pend, NN_dropServer h hd⟩
  · split
    · exact NPY.qm (s := pollServerKeep s now) (QM.of_eq rfl rfl) rfl hk
    · exact hk

end TarpcModel.Server.Tab

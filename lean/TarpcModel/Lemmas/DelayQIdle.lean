import TarpcModel.Lemmas.DelayQReach
/-!
What a timer queue looks like to its owner when the owner's poll has just gone idle (`DelayQ.Idle`), and the two ways
the client / server models establish it: the queue is empty, or the owner's last `poll_expired` on a queue satisfying
the two-sided wheel invariant reported nothing (`DelayQ.pollExpired_nothing_due`).
-/
namespace TarpcModel

/-- a timer that is the millisecond ceiling of a due time not after `dl` fires no later than the millisecond tick of `dl` -/
theorem tick_le_ceil {w due dl : Nat} (h4 : w * nsPerMs < due + nsPerMs) (hle : due ≤ dl) :
    w * nsPerMs ≤ ceilMs dl * nsPerMs := by
  unfold ceilMs nsPerMs at *
  omega

theorem le_ceil_tick (dl : Nat) : dl ≤ ceilMs dl * nsPerMs := by
  unfold ceilMs nsPerMs
  omega

end TarpcModel

namespace TarpcModel.DelayQ

/-- The owner's poll has just gone idle at clock `now`: no entry is due, and — if entries remain — the owner's waker is
stored and the `Sleep` is registered for an instant that lies in the future and not after any remaining tick. -/
structure Idle (now : Nat) (q : DelayQ) : Prop where
  notDue : ∀ e ∈ q.items, now < e.whenMs * nsPerMs
  armed : ∀ e ∈ q.items, q.waker = true ∧ ∃ t, q.nextFire = some t ∧ now < t ∧ t ≤ e.whenMs * nsPerMs

theorem Idle.of_items_nil {now : Nat} {q : DelayQ} (h : q.items = []) : Idle now q := by
  constructor <;> (rw [h]; simp)

theorem Idle.of_empty {now : Nat} {q : DelayQ} (h : q.isEmpty = true) : Idle now q :=
  Idle.of_items_nil ((isEmpty_iff q).1 h)

theorem Idle.of_poll {now : Nat} {q q' : DelayQ} {r : PollRes} (hq : Complete q)
    (hp : q.pollExpired now = (q', r)) (hr : r = .pending ∨ r = .none) : Idle now q' := by
  obtain ⟨h1, h2, h3⟩ := pollExpired_nothing_due hq hp hr
  exact ⟨h1, fun e he => ⟨h2, h3 e he⟩⟩

/-- in terms of the `(key, value, tick)` triples -/
theorem Idle.cores {now : Nat} {q : DelayQ} (h : Idle now q) : ∀ k ∈ q.cores, now < k.2.2 * nsPerMs := by
  intro k hk
  obtain ⟨e, he, rfl⟩ := mem_cores_iff.1 hk
  exact h.notDue e he

/-- the wake-up is not late: at any clock at which a remaining entry is due, `nextFire` has been reached with the
waker stored (the condition under which the models' `onAdvance` wakes the owner) -/
theorem Idle.wakes {now : Nat} {q : DelayQ} (h : Idle now q) {e : DqEntry} (he : e ∈ q.items) {now' : Nat}
    (hdue : e.whenMs * nsPerMs ≤ now') : ∃ t, q.nextFire = some t ∧ (decide (t ≤ now') && q.waker) = true := by
  obtain ⟨hw, t, ht, _, hle⟩ := h.armed e he
  exact ⟨t, ht, by simp only [hw, Bool.and_true, decide_eq_true_eq]; omega⟩

end TarpcModel.DelayQ

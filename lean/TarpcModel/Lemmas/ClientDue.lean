import TarpcModel.Lemmas.ClientNotLate
/-!
The pre/post form of "the client fails a request at its deadline": an in-flight request that is *due* when the dispatch
is polled (its timer tick has passed and nothing is left to arm after taking off the lateness) stays due — it is never
re-armed, and no new request can take its id — until it leaves the in-flight table.  Since a poll that goes back to
waiting leaves no due timer behind (`pollDispatchCore_idle`), such a request has left the table by then.
-/
set_option linter.unusedSimpArgs false
namespace TarpcModel.Client
open TarpcModel

/-- the in-flight entry with id `id` is due for expiry at `now`: its timer tick has passed and nothing of its
`remainder` is left after taking off the lateness, measured — as the code does — from the exact due time `dueAt` -/
def DueEntry (id now : Nat) (s : St) : Prop :=
  ∃ en ∈ s.inflight, en.id = id ∧ ∃ w, s.timers.Has en.timerKey en.id w ∧ w * nsPerMs ≤ now ∧
    en.remainder ≤ now - en.dueAt

/-- no queued request has id `id`; the in-flight entry with that id is due, or there is none -/
structure DueOr (id now : Nat) (s : St) : Prop where
  pq : ∀ r ∈ s.pq, r.id ≠ id
  st : DueEntry id now s ∨ ∀ en ∈ s.inflight, en.id ≠ id

variable {id now : Nat}

theorem DueOr.same {s s' : St} (hd : DueOr id now s) (hi : s'.inflight = s.inflight)
    (hh : ∀ k v w, s'.timers.Has k v w ↔ s.timers.Has k v w) (hp : ∀ r ∈ s'.pq, r ∈ s.pq) : DueOr id now s' := by
  refine ⟨fun r hr => hd.pq r (hp r hr), ?_⟩
  rcases hd.st with ⟨en, hen, h1, w, hw, h2, h3⟩ | hno
  · exact .inl ⟨en, hi ▸ hen, h1, w, (hh _ _ _).2 hw, h2, h3⟩
  · exact .inr (hi ▸ hno)

theorem has_of_same {q q' : DelayQ} (h : TimersSame q q') (k v w : Nat) : q'.Has k v w ↔ q.Has k v w := by
  unfold DelayQ.Has DelayQ.all
  rw [h.entries, h.expired]

theorem DueOr.quiet {s s' : St} (hd : DueOr id now s) (hq : Quiet s s') : DueOr id now s' :=
  hd.same hq.inflight (has_of_same hq.timers) (fun _ hr => hq.pq ▸ hr)

theorem DueOr.of_fields {s s' : St} (hd : DueOr id now s) (hi : s'.inflight = s.inflight) (ht : s'.timers = s.timers)
    (hp : s'.pq = s.pq) : DueOr id now s' :=
  hd.same hi (fun _ _ _ => by rw [ht]) (fun r hr => hp ▸ hr)

/-- distinct in-flight entries have distinct timer keys -/
theorem TInv.key_ne {m : Nat} {inf : List Entry} {q : DelayQ} (h : TInv m inf q now) {a b : Entry} (ha : a ∈ inf)
    (hb : b ∈ inf) (hne : a.id ≠ b.id) : a.timerKey ≠ b.timerKey := by
  intro hk
  obtain ⟨w, hw, -⟩ := h.e2t a ha
  obtain ⟨w', hw', -⟩ := h.e2t b hb
  rw [hk] at hw
  exact hne (DelayQ.Has.functional h.wf hw hw').1

/-- the entry `e` is removed together with its timer -/
theorem DueOr.removed {m : Nat} {s s' : St} (h : TInv m s.inflight s.timers now)
    (hd : DueOr id now s) {e : Entry} (he : e ∈ s.inflight)
    (hi : s'.inflight = s.inflight.filter (·.id != e.id))
    (hh : ∀ k v w, s'.timers.Has k v w ↔ (s.timers.Has k v w ∧ k ≠ e.timerKey))
    (hp : ∀ r ∈ s'.pq, r ∈ s.pq) : DueOr id now s' := by
  refine ⟨fun r hr => hd.pq r (hp r hr), ?_⟩
  rcases hd.st with ⟨en, hen, h1, w, hw, h2, h3⟩ | hno
  · by_cases hid : e.id = id
    · right
      intro en' hen'
      rw [hi] at hen'
      have := (List.mem_filter.1 hen').2
      simp only [bne_iff_ne, ne_eq] at this
      rw [← hid]; exact this
    · left
      have hne : en.id ≠ e.id := fun hh' => hid (hh'.symm.trans h1)
      refine ⟨en, ?_, h1, w, (hh _ _ _).2 ⟨hw, h.key_ne hen he hne⟩, h2, h3⟩
      rw [hi]; exact List.mem_filter.2 ⟨hen, by simpa using hne⟩
  · right
    intro en' hen'
    rw [hi] at hen'
    exact hno en' (List.mem_filter.1 hen').1

theorem DueOr.removeEntry {x : Option Nat} {b : Snap} {s : St} {id' : Nat} {e : Entry}
    (h : Inv' x b s now) (hd : DueOr id now s) (hf : findEntry s id' = some e) :
    DueOr id now (removeTimer { s with inflight := s.inflight.filter (·.id != id') } e.timerKey) := by
  obtain ⟨he, hid⟩ := findEntry_some_mem hf
  subst hid
  unfold removeTimer
  simp only
  cases hr : s.timers.remove e.timerKey with
  | none => exact absurd hr (h.t.remove_ne_none he)
  | some p =>
    obtain ⟨q', b'⟩ := p
    simp only
    have hS : DueOr id now { s with inflight := s.inflight.filter (·.id != e.id), timers := q' } :=
      hd.removed h.t he rfl (DelayQ.remove_spec h.t.wf hr).has (fun _ hr => hr)
    split
    · exact hS.quiet (quiet_wakeDispatch _)
    · exact hS

theorem DueOr.completeRequest {x : Option Nat} {b : Snap} {s : St} (h : Inv' x b s now) (hd : DueOr id now s)
    (id' : Nat) (o : Outcome) : DueOr id now (completeRequest s id' o).1 := by
  unfold Client.completeRequest
  cases hf : findEntry s id' with
  | none => exact hd
  | some e => exact (hd.removeEntry h hf).of_fields (osSend_inflight _ _ _) (osSend_timers _ _ _) (osSend_pq _ _ _)

theorem DueOr.cancelRequest {x : Option Nat} {b : Snap} {s : St} (h : Inv' x b s now) (hd : DueOr id now s)
    (id' : Nat) : DueOr id now (cancelRequest s id').1 := by
  unfold Client.cancelRequest
  cases hf : findEntry s id' with
  | none => exact hd
  | some e => exact hd.removeEntry h hf

theorem DueOr.unhold {s : St} {r : DReq} (hd : DueOr id now (hold s r)) : DueOr id now s :=
  hd.same rfl (fun _ _ _ => Iff.rfl) (fun _ hr' => List.mem_cons_of_mem _ hr')

/-- `insert_request` for a request just taken off the queue (it still counts as queued in the hypothesis) -/
theorem DueOr.insertRequest {x : Option Nat} {b : Snap} {s : St} {r : DReq}
    (h : Inv' x b (hold s r) now) (hd : DueOr id now (hold s r)) :
    ∀ s', insertRequest s now r = some s' → DueOr id now s' := by
  intro s' hs'
  have hd0 : DueOr id now s := hd.unhold
  have hrid : r.id ≠ id := hd.pq r List.mem_cons_self
  rcases insertRequest_some hs' with ⟨-, rfl⟩ | ⟨-, q, w, -, rfl⟩ | ⟨hf, q, key, w, hins, rfl⟩
  · exact hd0.of_fields rfl rfl rfl
  · exact hd0.of_fields rfl rfl rfl
  · have hwf : s.timers.WF := h.t.wf
    have hspec := DelayQ.insert_spec hwf hins
    suffices hS : DueOr id now { s with timers := q, inflight := s.inflight ++ [{ id := r.id, cid := r.cid, ctx := r.ctx, timerKey := key, remainder := (r.ctx.deadline - now) - clampTimeout (r.ctx.deadline - now), dueAt := now + clampTimeout (r.ctx.deadline - now) }] } by
      split
      · exact hS.quiet (quiet_wakeDispatch _)
      · exact hS
    refine ⟨hd0.pq, ?_⟩
    rcases hd0.st with ⟨en, hen, h1, w', hw, h2, h3⟩ | hno
    · exact .inl ⟨en, List.mem_append_left _ hen, h1, w', (hspec.has _ _ _).2 (.inl hw), h2, h3⟩
    · right
      intro en hen
      simp only [List.mem_append, List.mem_singleton] at hen
      rcases hen with hen | rfl
      · exact hno en hen
      · exact hrid

/-- one iteration of `poll_expired`, on the result `r` of polling the queue -/
theorem DueOr.expireWith {x : Option Nat} {b : Snap} {s : St} (h : Inv' x b s now) (hd : DueOr id now s)
    (r : DelayQ × DelayQ.PollRes) (hr : r = s.timers.pollExpired now) :
    DueOr id now (expireWith s now r).st := by
  have hs := DelayQ.pollExpired_spec s.timers now h.t.wf h.t.timely
  rw [← hr] at hs
  unfold Client.expireWith
  split
  · rename_i q e
    obtain ⟨h1, hdue, h3⟩ := hs.some e rfl
    simp only at h3
    obtain ⟨en0, hen0, hk0, hid0⟩ := h.t.t2e _ _ _ h1
    cases hf : findEntry s e.val with
    | none => exact absurd hid0 (findEntry_none_ne hf en0 hen0)
    | some en =>
      obtain ⟨hen, hid⟩ := findEntry_some_mem hf
      have heq : en = en0 := eq_of_nodup_map (·.id) h.i.inNodup hen hen0 (by rw [hid, hid0])
      subst heq
      show DueOr id now (ExpStep.st (if en.remainder - (now - en.dueAt) != 0 then _ else _))
      split
      · rename_i hne
        have hne' : en.remainder - (now - en.dueAt) ≠ 0 := by simpa using hne
        unfold Client.rearm
        rcases rearmWith_cases s e.val (now - en.dueAt + clampTimeout (en.remainder - (now - en.dueAt)))
            (now + clampTimeout (en.remainder - (now - en.dueAt)))
            (q.insert now (clampTimeout (en.remainder - (now - en.dueAt))) e.val) with
          ⟨q', w, hins, hrw⟩ | ⟨q', key, w, hins, hrw⟩
        · rw [hrw]
          exact hd.of_fields rfl rfl rfl
        · rw [hrw]
          generalize now - en.dueAt + clampTimeout (en.remainder - (now - en.dueAt)) = cut
          generalize now + clampTimeout (en.remainder - (now - en.dueAt)) = due'
          have hspec := DelayQ.insert_spec hs.wf hins
          by_cases hval : en.id = id
          · -- a due entry is never re-armed
            exfalso
            rcases hd.st with ⟨en', hen', g1, w', hw', g2, g3⟩ | hno
            · have hee : en' = en := eq_of_nodup_map (·.id) h.i.inNodup hen' hen (g1.trans hval.symm)
              subst hee
              rw [hk0, hid0] at hw'
              have hwe : w' = e.whenMs := (DelayQ.Has.functional h.t.wf hw' h1).2
              subst hwe
              omega
            · exact hno en hen hval
          · have hS : DueOr id now { s with timers := q', inflight := s.inflight.map (rearmEntry e.val key cut due') } := by
              refine ⟨hd.pq, ?_⟩
              rcases hd.st with ⟨en', hen', g1, w', hw', g2, g3⟩ | hno
              · left
                have hne'' : en'.id ≠ e.val := fun hh => hval ((hid.trans hh.symm).trans g1)
                refine ⟨en', List.mem_map.2 ⟨en', hen', rearmEntry_ne hne''⟩, g1, w', ?_, g2, g3⟩
                refine (hspec.has _ _ _).2 (.inl ((h3 _ _ _).2 ⟨hw', ?_⟩))
                rw [← hk0]
                exact h.t.key_ne hen' hen (by rw [hid]; exact hne'')
              · right
                intro en' hen'
                obtain ⟨y, hy, rfl⟩ := List.mem_map.1 hen'
                rw [(rearmEntry_same _ _ _ _ y).1]; exact hno y hy
            show DueOr id now (ExpStep.st (.again (if w = true then _ else _)))
            simp only [ExpStep.st]
            split
            · exact hS.quiet (quiet_wakeDispatch _)
            · exact hS
      · -- the request is failed: its entry and timer are gone
        have hS : DueOr id now { s with timers := q, inflight := s.inflight.filter (·.id != e.val) } := by
          refine hd.removed h.t hen (by simp [hid]) ?_ (fun _ hr => hr)
          intro k v w
          rw [hk0]; exact h3 k v w
        simp only [ExpStep.st]
        exact hS.of_fields (osSend_inflight _ _ _) (osSend_timers _ _ _) (osSend_pq _ _ _)
  · rename_i q res hres
    have hn : (q, res).2.entry = none := by
      cases res with
      | expired e => exact absurd rfl (hres e)
      | pending => rfl
      | none => rfl
    exact hd.same rfl (hs.none hn) (fun _ hr => hr)

/-! ### the pumps -/

/-- invariant and "due or gone" together -/
def DueJ (x : Option Nat) (b : Snap) (id now : Nat) (s : St) : Prop := Inv' x b s now ∧ DueOr id now s

variable {x : Option Nat} {b : Snap}

theorem DueJ.quiet {s s' : St} (h : DueJ x b id now s) (hq : Quiet s s') : DueJ x b id now s' :=
  ⟨h.1.quiet hq, h.2.quiet hq⟩

/-- result of `poll_next_request`: a request handed out still counts as queued -/
def HoldDue (id now : Nat) (p : St × PW DReq) : Prop :=
  match p.2 with
  | .some r => DueOr id now (hold p.1 r)
  | _ => DueOr id now p.1

theorem nextRequestLoop_due (fuel : Nat) (s : St) (hd : DueOr id now s) : HoldDue id now (nextRequestLoop fuel s) := by
  induction fuel generalizing s with
  | zero => exact hd
  | succ fuel ih =>
    unfold nextRequestLoop
    have hc := pqRecv_split s
    generalize pqRecv s = p at hc ⊢
    obtain ⟨s1, res⟩ := p
    simp only at hc
    cases res with
    | pending =>
      rcases hc with ⟨r, hr, -⟩ | ⟨hq, -⟩
      · cases hr
      · exact hd.quiet hq
    | closed =>
      rcases hc with ⟨r, hr, -⟩ | ⟨hq, -⟩
      · cases hr
      · exact hd.quiet hq
    | item r =>
      rcases hc with ⟨r', hr, hq⟩ | ⟨-, hr | hr⟩
      · simp only [Recv.item.injEq] at hr; subst hr
        have hh : DueOr id now (hold s1 r) := hd.quiet hq
        simp only
        split
        · exact ih s1 hh.unhold
        · exact hh
      · cases hr
      · cases hr

theorem pollNextRequest_due (s : St) (hd : DueOr id now s) : HoldDue id now (pollNextRequest s) := by
  unfold pollNextRequest
  split
  · exact hd
  · have hq := quiet_ensureWriteable s
    generalize ensureWriteable s = p at hq ⊢
    obtain ⟨s1, ew⟩ := p
    simp only at hq
    cases ew with
    | pending => exact hd.quiet hq
    | err a => exact hd.quiet hq
    | spin => exact hd.quiet hq
    | ready => exact nextRequestLoop_due (s1.pq.length + 1) s1 (hd.quiet hq)

theorem DueJ.pollWriteRequest {s : St} (h : DueJ x b id now s) : DueJ x b id now (pollWriteRequest s now).1 := by
  refine ⟨h.1.pollWriteRequest, ?_⟩
  unfold Client.pollWriteRequest
  obtain ⟨h1, h2⟩ := pollNextRequest_spec s h.1
  have d1 := pollNextRequest_due s h.2
  generalize pollNextRequest s = p at h1 h2 d1 ⊢
  obtain ⟨s1, res⟩ := p
  cases res with
  | pending => exact d1
  | none => exact d1
  | err a => exact d1
  | spin => exact d1
  | some r =>
    simp only
    have hh : Inv' x b (hold s1 r) now := h1
    have dh : DueOr id now (hold s1 r) := d1
    cases hi : Client.insertRequest s1 now r with
    | none => exact dh.unhold
    | some s2 =>
      simp only
      have h3 := hh.insertRequest (h2 r rfl) s2 hi
      have d3 := dh.insertRequest hh s2 hi
      split
      · exact d3
      · have hq := quiet_tSend s2 (.request r.id r.ctx.deadline r.ctx.trace r.body)
        generalize tSend s2 (.request r.id r.ctx.deadline r.ctx.trace r.body) = p at hq ⊢
        obtain ⟨s3, ok⟩ := p
        simp only at hq ⊢
        split
        · exact d3.quiet hq
        · exact (d3.quiet hq).completeRequest (h3.quiet hq) r.id .send

theorem DueJ.nextCancelLoop (fuel : Nat) {s : St} (h : DueJ x b id now s) : DueJ x b id now (nextCancelLoop fuel s).1 := by
  induction fuel generalizing s with
  | zero => exact h
  | succ fuel ih =>
    unfold Client.nextCancelLoop
    have hq := quiet_cqRecv s
    generalize cqRecv s = p at hq ⊢
    obtain ⟨s1, res⟩ := p
    cases res with
    | pending => exact h.quiet hq
    | closed => exact h.quiet hq
    | item id' =>
      simp only
      have h1 := h.quiet hq
      have h2 : DueJ x b id now (Client.cancelRequest s1 id').1 := ⟨h1.1.cancelRequest id', h1.2.cancelRequest h1.1 id'⟩
      generalize Client.cancelRequest s1 id' = p at h2 ⊢
      obtain ⟨s2, oe⟩ := p
      cases oe with
      | some e => exact h2
      | none => exact ih h2

theorem DueJ.pollNextCancellation {s : St} (h : DueJ x b id now s) : DueJ x b id now (pollNextCancellation s).1 := by
  unfold Client.pollNextCancellation
  have hq := quiet_ensureWriteable s
  generalize ensureWriteable s = p at hq ⊢
  obtain ⟨s1, ew⟩ := p
  cases ew with
  | pending => exact h.quiet hq
  | err a => exact h.quiet hq
  | spin => exact h.quiet hq
  | ready => exact (h.quiet hq).nextCancelLoop _

theorem DueJ.pollWriteCancel {s : St} (h : DueJ x b id now s) : DueJ x b id now (pollWriteCancel s).1 := by
  unfold Client.pollWriteCancel
  have h1 := h.pollNextCancellation
  generalize Client.pollNextCancellation s = p at h1 ⊢
  obtain ⟨s1, res⟩ := p
  cases res with
  | pending => exact h1
  | none => exact h1
  | err a => exact h1
  | spin => exact h1
  | some e =>
    simp only
    have hq := quiet_tSend s1 (.cancel e.id e.ctx.trace)
    generalize tSend s1 (.cancel e.id e.ctx.trace) = p at hq ⊢
    obtain ⟨s2, ok⟩ := p
    simp only at hq ⊢
    split <;> exact h1.quiet hq

theorem DueJ.pollExpiredLoop (fuel : Nat) {s : St} (h : DueJ x b id now s) : DueJ x b id now (pollExpiredLoop fuel s now).1 := by
  induction fuel generalizing s with
  | zero => exact h
  | succ fuel ih =>
    have h1 : DueJ x b id now (expireStep s now).st := ⟨h.1.expireWith _ rfl, h.2.expireWith h.1 _ rfl⟩
    unfold Client.pollExpiredLoop; split <;> rename_i heq <;> rw [heq] at h1
    · exact ih h1
    · exact h1

theorem DueJ.pollExpired {s : St} (h : DueJ x b id now s) : DueJ x b id now (pollExpired s now).1 := h.pollExpiredLoop _

theorem DueJ.pumpWrite {s : St} (h : DueJ x b id now s) : DueJ x b id now (pumpWrite s now).1 := by
  unfold Client.pumpWrite
  have h1 := h.pollWriteRequest
  generalize Client.pollWriteRequest s now = p at h1 ⊢
  obtain ⟨s1, r1⟩ := p
  cases r1 <;> simp only <;> try exact h1
  all_goals
    have h2 := h1.pollWriteCancel
    generalize Client.pollWriteCancel s1 = p at h2 ⊢
    obtain ⟨s2, r2⟩ := p
    cases r2 <;> simp only <;> try exact h2
    all_goals
      have h3 := h2.pollExpired
      generalize Client.pollExpired s2 now = p at h3 ⊢
      obtain ⟨s3, ex⟩ := p
      simp only at h3 ⊢
      split
      · exact h3
      · split
        · exact h3
        split
        · have hq := quiet_tClose s3
          generalize tClose s3 = p at hq ⊢
          obtain ⟨s4, r4⟩ := p
          cases r4 <;> exact h3.quiet hq
        · have hq := quiet_tFlush s3
          generalize tFlush s3 = p at hq ⊢
          obtain ⟨s4, r4⟩ := p
          cases r4 <;> exact h3.quiet hq

theorem DueJ.pumpRead {s : St} (h : DueJ x b id now s) : DueJ x b id now (pumpRead s).1 := by
  unfold Client.pumpRead
  have hq := quiet_tNext s
  generalize tNext s = p at hq ⊢
  obtain ⟨s1, r⟩ := p
  cases r with
  | pending => exact h.quiet hq
  | eof => exact h.quiet hq
  | err => exact h.quiet hq
  | item m =>
    cases m with
    | response id' res =>
      simp only
      have h1 := h.quiet hq
      exact ⟨h1.1.completeRequest id' _ (by cases res <;> simp [outcomeOf]), h1.2.completeRequest h1.1 id' _⟩
    | request _ _ _ _ => exact h.quiet hq
    | cancel _ _ => exact h.quiet hq

theorem DueJ.run (fuel : Nat) {s : St} (h : DueJ x b id now s) : DueJ x b id now (run fuel s now).1 := by
  induction fuel generalizing s with
  | zero => exact h.quiet (quiet_emit s (by simp [Harmless]))
  | succ fuel ih =>
    unfold Client.run
    have h1 := h.pumpRead
    generalize Client.pumpRead s = p at h1 ⊢
    obtain ⟨s1, rd⟩ := p
    have h2 := h1.pumpWrite
    cases rd <;> simp only <;> try exact h1
    all_goals
      generalize Client.pumpWrite s1 now = p at h2 ⊢
      obtain ⟨s2, wr⟩ := p
      cases wr <;> simp only <;> try exact h2
      all_goals try (split <;> first | exact h2 | exact ih h2)
      all_goals try exact ih h2

/-! ### after a terminal error the table is empty -/

theorem foldl_inflight {α : Type} (f : St → α → St) (hf : ∀ s a, (f s a).inflight = s.inflight) (l : List α) (s : St) :
    (l.foldl f s).inflight = s.inflight := by
  induction l generalizing s with
  | nil => rfl
  | cons a l ih => rw [List.foldl_cons, ih, hf]

theorem pqRecv_inflight (s : St) : (pqRecv s).1.inflight = s.inflight := by
  rcases pqRecv_split s with ⟨r, -, hq⟩ | ⟨hq, -⟩
  · exact hq.inflight
  · exact hq.inflight

theorem drainLoop_inflight (fuel : Nat) (s : St) (a : Activity) : (drainLoop fuel s a).1.inflight = s.inflight := by
  induction fuel generalizing s with
  | zero => rfl
  | succ n ih =>
    unfold drainLoop
    have h1 := pqRecv_inflight s
    generalize pqRecv s = p at h1 ⊢
    obtain ⟨s1, r⟩ := p
    cases r with
    | pending => exact h1
    | closed => exact h1
    | item r =>
      simp only
      split
      · exact (ih s1).trans h1
      · exact (ih _).trans ((osSend_inflight _ _ _).trans h1)

theorem shutDown_inflight (s : St) (a : Activity) : (shutDown s a).1.inflight = [] := by
  unfold Client.shutDown
  simp only [drainLoop_inflight]
  unfold Client.failAll
  simp only
  rw [foldl_inflight (fun s (e : Entry) => osSend s e.cid (.channel a)) (fun s e => osSend_inflight s e.cid _)]

/-- **Pre/post.**  A request that is due when `RequestDispatch::poll` begins has left the in-flight table when the poll
returns `Pending` (without the dispatch being poisoned). -/
theorem pollDispatchCore_due_gone (hc : QClosed now DelayQ.Complete) {s : St} (hi : Inv' x b s now)
    (hq : DelayQ.Complete s.timers) (hpq : ∀ r ∈ s.pq, r.id ≠ id) (hd : DueEntry id now s)
    (hr : (pollDispatchCore s now).2 = .pending) (hp : (pollDispatchCore s now).1.poisoned = false) :
    ∀ en ∈ (pollDispatchCore s now).1.inflight, en.id ≠ id := by
  have hidle := pollDispatchCore_idle hc hq hr hp
  unfold Client.pollDispatchCore at hr hp hidle ⊢
  split at hr
  · rename_i a hte
    simp only [hte]
    have h1 := shutDown_inflight s a
    generalize Client.shutDown s a = p at h1 ⊢
    obtain ⟨s1, fin⟩ := p
    simp only at h1 ⊢
    rw [h1]; intro en hen; cases hen
  · rename_i hte
    simp only [hte] at hp hidle ⊢
    have h1 : DueJ x b id now (Client.run (runFuel s) s now).1 := DueJ.run (runFuel s) ⟨hi, hpq, .inl hd⟩
    generalize Client.run (runFuel s) s now = p at h1 hr hp hidle ⊢
    obtain ⟨s1, r⟩ := p
    cases r with
    | pending =>
      simp only at hidle h1 ⊢
      rcases h1.2.st with ⟨en, _, _, w, hw, hdue, _⟩ | hno
      · obtain ⟨d, hdm, _, _, rfl⟩ := hw
        have := hidle.notDue d hdm
        omega
      · exact hno
    | ok => cases hr
    | spin => simp at hp
    | err a =>
      simp only
      have h3 := shutDown_inflight { s1 with termErr := some a } a
      generalize Client.shutDown { s1 with termErr := some a } a = p at h3 ⊢
      obtain ⟨s2, fin⟩ := p
      simp only at h3 ⊢
      rw [h3]; intro en hen; cases hen

/-- what a poll of a live dispatch that leaves it not done and not poisoned did: the core returned `Pending`, and the
bookkeeping at the end of the poll only recorded observations -/
theorem pollDispatchKeep_pending {s : St} (hrun : (s.dDropped || s.done.isSome || s.poisoned) = false)
    (hd : (pollDispatchKeep s now).done = none) (hp : (pollDispatchKeep s now).poisoned = false) :
    (pollDispatchCore { s with dWoken := false } now).2 = .pending ∧
    (pollDispatchCore { s with dWoken := false } now).1.poisoned = false ∧
    (pollDispatchKeep s now).inflight = (pollDispatchCore { s with dWoken := false } now).1.inflight ∧
    (pollDispatchKeep s now).timers = (pollDispatchCore { s with dWoken := false } now).1.timers := by
  rw [Flow.pollDispatchKeep_eq, if_neg (by simp [hrun])] at hd hp ⊢
  rcases hcc : pollDispatchCore { s with dWoken := false } now with ⟨s1, r⟩
  rw [hcc] at hd hp
  simp only at hd hp ⊢
  have hr : r = .pending := by
    cases r <;> simp [Flow.keepDone] at hd ⊢
  subst hr
  simp only [Flow.keepDone] at hd hp ⊢
  unfold Flow.keepFinish at hp ⊢
  split at hp
  · cases hp
  · rename_i hs
    rw [if_neg hs]
    split at hp
    · rename_i hpo; rw [hpo] at hp; cases hp
    · rename_i hpo
      rw [if_neg hpo]
      exact ⟨by trivial, by simpa using hpo, rfl, rfl⟩

theorem pollDispatchKeep_due_gone (hc : QClosed now DelayQ.Complete) {s : St} (hi : StInv s now)
    (hq : DelayQ.Complete s.timers) (hrun : (s.dDropped || s.done.isSome || s.poisoned) = false)
    (hd : (pollDispatchKeep s now).done = none) (hp : (pollDispatchKeep s now).poisoned = false)
    (hdue : DueEntry id now s) : ∀ en ∈ (pollDispatchKeep s now).inflight, en.id ≠ id := by
  obtain ⟨hr, hpo, hinf, -⟩ := pollDispatchKeep_pending hrun hd hp
  rw [hinf]
  have hi' : StInv { s with dWoken := false } now := hi.quiet (by quiet_rfl)
  refine pollDispatchCore_due_gone hc (s := { s with dWoken := false }) hi' hq ?_ hdue hr hpo
  intro r hr' hid
  obtain ⟨en, hen, heid, -⟩ := hdue
  have hn := hi.i.nodup
  rw [List.nodup_append] at hn
  exact hn.2.2 r.id (List.mem_map.2 ⟨r, hr', rfl⟩) en.id (List.mem_map.2 ⟨en, hen, rfl⟩) (hid.trans heid.symm)

end TarpcModel.Client

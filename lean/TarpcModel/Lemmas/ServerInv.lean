import TarpcModel.Server.Run
import TarpcModel.Lemmas.ServerDelayQ
import TarpcModel.Lemmas.PairSubst
import TarpcModel.Lemmas.ServerExpire
/-!
Shared lemmas about the server model (`Server/Model.lean`):

* frame lemmas (`@[simp]`, named `<function>_<field>`): which fields each model function leaves
  alone (`…_ekeys`: the `(rid, id, aborted)` part of the executions; `…_gh`: the ghost);
* a *ghost* state folded over the observations a function emits (`gstep`, `gh`), used to state
  trace properties as state invariants;
* the invariants `TableWF` (in-flight table ↔ timers), `ExecWF` (entries ↔ executions) and the
  ghost coupling `Coupled`, bundled as `Mid` (holds throughout a channel poll);
* `Quiet` steps and the relation classes `PreRel` / `BaseRel` / `WriteRel` / `PollRel`: the poll
  functions (`basePollNext`, the limiter, `pumpWrite`, `requestsPollNext`) are walked *once*,
  generically (`rel_basePollNext`, …, `rel_requestsPollNext`); `midRel`, `limitRel`, `execsLenRel`,
  `yieldedRel`, `sendsRel`, `lengthRel` are instances;
* what a yielded request tells about the state (`basePollNext_some`, `limitedPollNext…_some`,
  `channelPollNext_some`, `requestsPollNext_item`).

Engineering note: `simp only []`, `rfl` or `decide` on a goal that still contains an *unsplit*
`match s.timers.insert … with` hangs (whnf unfolds `DelayQ.insert`); use `startRequest_cases`.
-/
namespace TarpcModel.Server
set_option linter.unusedSimpArgs false
set_option linter.unusedVariables false

/-! ## ghost state over observations -/

/-- Ghost bookkeeping folded over observations (oldest first). -/
structure Ghost where
  /-- ids of the request messages read so far -/
  reads : List Nat := []
  /-- ids answered since a request with that id was last read -/
  sent : List Nat := []
  /-- number of `start_send` calls -/
  sends : Nat := 0
  /-- a request was handed out in the current op -/
  yieldedNow : Bool := false
  /-- every response written so far answers an id read before -/
  okOrphan : Bool := true
  /-- no id was answered twice without being read again in between -/
  okOnce : Bool := true
  /-- every `counts` observation showed as many timers as tracked requests -/
  okCounts : Bool := true
  /-- every `counts` observation that followed a `yielded` showed at most the limit -/
  okLimit : Bool := true
deriving Repr, DecidableEq

def gstep (L : Option Nat) (g : Ghost) : Obs → Ghost
  | .tNext _ (.item (.request id _ _ _)) => { g with reads := id :: g.reads, sent := g.sent.filter (· != id) }
  | .tSend _ (.response id _) _ =>
      { g with sends := g.sends + 1, okOrphan := g.okOrphan && g.reads.contains id,
               okOnce := g.okOnce && !g.sent.contains id, sent := id :: g.sent }
  | .tSend _ _ _ => { g with sends := g.sends + 1 }
  | .yielded _ _ _ _ => { g with yieldedNow := true }
  | .counts (.server _) a b =>
      { g with okCounts := g.okCounts && (a == b),
               okLimit := g.okLimit && (match L with | some l => !g.yieldedNow || decide (a ≤ l) | none => true) }
  | _ => g

/-- the ghost after the observations `obs` (newest first, as the model stores them) -/
def gh (L : Option Nat) (g0 : Ghost) (obs : List Obs) : Ghost := obs.foldr (fun o g => gstep L g o) g0

@[simp] theorem gh_nil (L g0) : gh L g0 [] = g0 := rfl
@[simp] theorem gh_cons (L g0 o obs) : gh L g0 (o :: obs) = gstep L (gh L g0 obs) o := rfl
theorem gh_append (L g0 l1 l2) : gh L g0 (l1 ++ l2) = gh L (gh L g0 l2) l1 := by simp [gh, List.foldr_append]

@[simp] theorem gstep_tReady (L g ep r) : gstep L g (.tReady ep r) = g := rfl
@[simp] theorem gstep_tFlush (L g ep r) : gstep L g (.tFlush ep r) = g := rfl
@[simp] theorem gstep_tClose (L g ep r) : gstep L g (.tClose ep r) = g := rfl
@[simp] theorem gstep_tViolation (L g ep w) : gstep L g (.tViolation ep w) = g := rfl
@[simp] theorem gstep_wake (L g t) : gstep L g (.wake t) = g := rfl
@[simp] theorem gstep_ret (L g t r) : gstep L g (.ret t r) = g := rfl
@[simp] theorem gstep_resolved (L g c o t) : gstep L g (.resolved c o t) = g := rfl
@[simp] theorem gstep_handler (L g r e t) : gstep L g (.handler r e t) = g := rfl
@[simp] theorem gstep_spin (L g t) : gstep L g (.spin t) = g := rfl
@[simp] theorem gstep_panic (L g t w) : gstep L g (.panic t w) = g := rfl
@[simp] theorem gstep_took (L g ep m) : gstep L g (.took ep m) = g := rfl
@[simp] theorem gstep_noop (L g) : gstep L g .noop = g := rfl
@[simp] theorem gstep_tNext_pending (L g ep) : gstep L g (.tNext ep .pending) = g := rfl
@[simp] theorem gstep_tNext_err (L g ep) : gstep L g (.tNext ep .err) = g := rfl
@[simp] theorem gstep_tNext_eof (L g ep) : gstep L g (.tNext ep .eof) = g := rfl
@[simp] theorem gstep_tNext_cancel (L g ep id tr) : gstep L g (.tNext ep (.item (.cancel id tr))) = g := rfl
@[simp] theorem gstep_tNext_response (L g ep id r) : gstep L g (.tNext ep (.item (.response id r))) = g := rfl

/-! ## the part of an execution the invariants look at -/

/-- `(rid, request id, aborted)` -/
def ekey (x : Exec) : Nat × Nat × Bool := (x.rid, x.id, x.aborted)

/-- what `abortExec rid` does to the keys -/
def abortKeys (rid : Nat) (l : List (Nat × Nat × Bool)) : List (Nat × Nat × Bool) :=
  l.map (fun k => if k.1 == rid then (k.1, k.2.1, true) else k)

/-! ## frame lemmas (generated; one per function and field it leaves alone) -/

@[simp] theorem emit_sidx (s : St) (o : Obs) : (emit s o).sidx = s.sidx := by
  first | rfl | (unfold emit; (try simp only []); (repeat' split) <;> pair_subst <;> simp [*])

@[simp] theorem emit_inflight (s : St) (o : Obs) : (emit s o).inflight = s.inflight := by
  first | rfl | (unfold emit; (try simp only []); (repeat' split) <;> pair_subst <;> simp [*])

@[simp] theorem emit_timers (s : St) (o : Obs) : (emit s o).timers = s.timers := by
  first | rfl | (unfold emit; (try simp only []); (repeat' split) <;> pair_subst <;> simp [*])

@[simp] theorem emit_poisoned (s : St) (o : Obs) : (emit s o).poisoned = s.poisoned := by
  first | rfl | (unfold emit; (try simp only []); (repeat' split) <;> pair_subst <;> simp [*])

@[simp] theorem emit_limit (s : St) (o : Obs) : (emit s o).limit = s.limit := by
  first | rfl | (unfold emit; (try simp only []); (repeat' split) <;> pair_subst <;> simp [*])

@[simp] theorem emit_throttleAfterRead (s : St) (o : Obs) : (emit s o).throttleAfterRead = s.throttleAfterRead := by
  first | rfl | (unfold emit; (try simp only []); (repeat' split) <;> pair_subst <;> simp [*])

@[simp] theorem emit_dropped (s : St) (o : Obs) : (emit s o).dropped = s.dropped := by
  first | rfl | (unfold emit; (try simp only []); (repeat' split) <;> pair_subst <;> simp [*])

@[simp] theorem emit_done (s : St) (o : Obs) : (emit s o).done = s.done := by
  first | rfl | (unfold emit; (try simp only []); (repeat' split) <;> pair_subst <;> simp [*])

@[simp] theorem emit_respQ (s : St) (o : Obs) : (emit s o).respQ = s.respQ := by
  first | rfl | (unfold emit; (try simp only []); (repeat' split) <;> pair_subst <;> simp [*])

@[simp] theorem emit_cancelQ (s : St) (o : Obs) : (emit s o).cancelQ = s.cancelQ := by
  first | rfl | (unfold emit; (try simp only []); (repeat' split) <;> pair_subst <;> simp [*])

@[simp] theorem emit_execs (s : St) (o : Obs) : (emit s o).execs = s.execs := by
  first | rfl | (unfold emit; (try simp only []); (repeat' split) <;> pair_subst <;> simp [*])

@[simp] theorem wakeServer_sidx (s : St) : (wakeServer s).sidx = s.sidx := by
  first | rfl | (unfold wakeServer; (try simp only []); (repeat' split) <;> pair_subst <;> simp [*])

@[simp] theorem wakeServer_inflight (s : St) : (wakeServer s).inflight = s.inflight := by
  first | rfl | (unfold wakeServer; (try simp only []); (repeat' split) <;> pair_subst <;> simp [*])

@[simp] theorem wakeServer_timers (s : St) : (wakeServer s).timers = s.timers := by
  first | rfl | (unfold wakeServer; (try simp only []); (repeat' split) <;> pair_subst <;> simp [*])

@[simp] theorem wakeServer_poisoned (s : St) : (wakeServer s).poisoned = s.poisoned := by
  first | rfl | (unfold wakeServer; (try simp only []); (repeat' split) <;> pair_subst <;> simp [*])

@[simp] theorem wakeServer_limit (s : St) : (wakeServer s).limit = s.limit := by
  first | rfl | (unfold wakeServer; (try simp only []); (repeat' split) <;> pair_subst <;> simp [*])

@[simp] theorem wakeServer_throttleAfterRead (s : St) : (wakeServer s).throttleAfterRead = s.throttleAfterRead := by
  first | rfl | (unfold wakeServer; (try simp only []); (repeat' split) <;> pair_subst <;> simp [*])

@[simp] theorem wakeServer_dropped (s : St) : (wakeServer s).dropped = s.dropped := by
  first | rfl | (unfold wakeServer; (try simp only []); (repeat' split) <;> pair_subst <;> simp [*])

@[simp] theorem wakeServer_done (s : St) : (wakeServer s).done = s.done := by
  first | rfl | (unfold wakeServer; (try simp only []); (repeat' split) <;> pair_subst <;> simp [*])

@[simp] theorem wakeServer_respQ (s : St) : (wakeServer s).respQ = s.respQ := by
  first | rfl | (unfold wakeServer; (try simp only []); (repeat' split) <;> pair_subst <;> simp [*])

@[simp] theorem wakeServer_cancelQ (s : St) : (wakeServer s).cancelQ = s.cancelQ := by
  first | rfl | (unfold wakeServer; (try simp only []); (repeat' split) <;> pair_subst <;> simp [*])

@[simp] theorem wakeServer_execs (s : St) : (wakeServer s).execs = s.execs := by
  first | rfl | (unfold wakeServer; (try simp only []); (repeat' split) <;> pair_subst <;> simp [*])

@[simp] theorem updExec_sidx (s : St) (rid : Nat) (f : Exec → Exec) : (updExec s rid f).sidx = s.sidx := by
  first | rfl | (unfold updExec; (try simp only []); (repeat' split) <;> pair_subst <;> simp [*])

@[simp] theorem updExec_inflight (s : St) (rid : Nat) (f : Exec → Exec) : (updExec s rid f).inflight = s.inflight := by
  first | rfl | (unfold updExec; (try simp only []); (repeat' split) <;> pair_subst <;> simp [*])

@[simp] theorem updExec_timers (s : St) (rid : Nat) (f : Exec → Exec) : (updExec s rid f).timers = s.timers := by
  first | rfl | (unfold updExec; (try simp only []); (repeat' split) <;> pair_subst <;> simp [*])

@[simp] theorem updExec_poisoned (s : St) (rid : Nat) (f : Exec → Exec) : (updExec s rid f).poisoned = s.poisoned := by
  first | rfl | (unfold updExec; (try simp only []); (repeat' split) <;> pair_subst <;> simp [*])

@[simp] theorem updExec_limit (s : St) (rid : Nat) (f : Exec → Exec) : (updExec s rid f).limit = s.limit := by
  first | rfl | (unfold updExec; (try simp only []); (repeat' split) <;> pair_subst <;> simp [*])

@[simp] theorem updExec_throttleAfterRead (s : St) (rid : Nat) (f : Exec → Exec) : (updExec s rid f).throttleAfterRead = s.throttleAfterRead := by
  first | rfl | (unfold updExec; (try simp only []); (repeat' split) <;> pair_subst <;> simp [*])

@[simp] theorem updExec_dropped (s : St) (rid : Nat) (f : Exec → Exec) : (updExec s rid f).dropped = s.dropped := by
  first | rfl | (unfold updExec; (try simp only []); (repeat' split) <;> pair_subst <;> simp [*])

@[simp] theorem updExec_done (s : St) (rid : Nat) (f : Exec → Exec) : (updExec s rid f).done = s.done := by
  first | rfl | (unfold updExec; (try simp only []); (repeat' split) <;> pair_subst <;> simp [*])

@[simp] theorem updExec_respQ (s : St) (rid : Nat) (f : Exec → Exec) : (updExec s rid f).respQ = s.respQ := by
  first | rfl | (unfold updExec; (try simp only []); (repeat' split) <;> pair_subst <;> simp [*])

@[simp] theorem updExec_cancelQ (s : St) (rid : Nat) (f : Exec → Exec) : (updExec s rid f).cancelQ = s.cancelQ := by
  first | rfl | (unfold updExec; (try simp only []); (repeat' split) <;> pair_subst <;> simp [*])

@[simp] theorem wakeExec_sidx (s : St) (rid : Nat) : (wakeExec s rid).sidx = s.sidx := by
  first | rfl | (unfold wakeExec; (try simp only []); (repeat' split) <;> pair_subst <;> simp [*])

@[simp] theorem wakeExec_inflight (s : St) (rid : Nat) : (wakeExec s rid).inflight = s.inflight := by
  first | rfl | (unfold wakeExec; (try simp only []); (repeat' split) <;> pair_subst <;> simp [*])

@[simp] theorem wakeExec_timers (s : St) (rid : Nat) : (wakeExec s rid).timers = s.timers := by
  first | rfl | (unfold wakeExec; (try simp only []); (repeat' split) <;> pair_subst <;> simp [*])

@[simp] theorem wakeExec_poisoned (s : St) (rid : Nat) : (wakeExec s rid).poisoned = s.poisoned := by
  first | rfl | (unfold wakeExec; (try simp only []); (repeat' split) <;> pair_subst <;> simp [*])

@[simp] theorem wakeExec_limit (s : St) (rid : Nat) : (wakeExec s rid).limit = s.limit := by
  first | rfl | (unfold wakeExec; (try simp only []); (repeat' split) <;> pair_subst <;> simp [*])

@[simp] theorem wakeExec_throttleAfterRead (s : St) (rid : Nat) : (wakeExec s rid).throttleAfterRead = s.throttleAfterRead := by
  first | rfl | (unfold wakeExec; (try simp only []); (repeat' split) <;> pair_subst <;> simp [*])

@[simp] theorem wakeExec_dropped (s : St) (rid : Nat) : (wakeExec s rid).dropped = s.dropped := by
  first | rfl | (unfold wakeExec; (try simp only []); (repeat' split) <;> pair_subst <;> simp [*])

@[simp] theorem wakeExec_done (s : St) (rid : Nat) : (wakeExec s rid).done = s.done := by
  first | rfl | (unfold wakeExec; (try simp only []); (repeat' split) <;> pair_subst <;> simp [*])

@[simp] theorem wakeExec_respQ (s : St) (rid : Nat) : (wakeExec s rid).respQ = s.respQ := by
  first | rfl | (unfold wakeExec; (try simp only []); (repeat' split) <;> pair_subst <;> simp [*])

@[simp] theorem wakeExec_cancelQ (s : St) (rid : Nat) : (wakeExec s rid).cancelQ = s.cancelQ := by
  first | rfl | (unfold wakeExec; (try simp only []); (repeat' split) <;> pair_subst <;> simp [*])

@[simp] theorem abortExec_sidx (s : St) (rid : Nat) : (abortExec s rid).sidx = s.sidx := by
  first | rfl | (unfold abortExec; (try simp only []); (repeat' split) <;> pair_subst <;> simp [*])

@[simp] theorem abortExec_inflight (s : St) (rid : Nat) : (abortExec s rid).inflight = s.inflight := by
  first | rfl | (unfold abortExec; (try simp only []); (repeat' split) <;> pair_subst <;> simp [*])

@[simp] theorem abortExec_timers (s : St) (rid : Nat) : (abortExec s rid).timers = s.timers := by
  first | rfl | (unfold abortExec; (try simp only []); (repeat' split) <;> pair_subst <;> simp [*])

@[simp] theorem abortExec_poisoned (s : St) (rid : Nat) : (abortExec s rid).poisoned = s.poisoned := by
  first | rfl | (unfold abortExec; (try simp only []); (repeat' split) <;> pair_subst <;> simp [*])

@[simp] theorem abortExec_limit (s : St) (rid : Nat) : (abortExec s rid).limit = s.limit := by
  first | rfl | (unfold abortExec; (try simp only []); (repeat' split) <;> pair_subst <;> simp [*])

@[simp] theorem abortExec_throttleAfterRead (s : St) (rid : Nat) : (abortExec s rid).throttleAfterRead = s.throttleAfterRead := by
  first | rfl | (unfold abortExec; (try simp only []); (repeat' split) <;> pair_subst <;> simp [*])

@[simp] theorem abortExec_dropped (s : St) (rid : Nat) : (abortExec s rid).dropped = s.dropped := by
  first | rfl | (unfold abortExec; (try simp only []); (repeat' split) <;> pair_subst <;> simp [*])

@[simp] theorem abortExec_done (s : St) (rid : Nat) : (abortExec s rid).done = s.done := by
  first | rfl | (unfold abortExec; (try simp only []); (repeat' split) <;> pair_subst <;> simp [*])

@[simp] theorem abortExec_respQ (s : St) (rid : Nat) : (abortExec s rid).respQ = s.respQ := by
  first | rfl | (unfold abortExec; (try simp only []); (repeat' split) <;> pair_subst <;> simp [*])

@[simp] theorem abortExec_cancelQ (s : St) (rid : Nat) : (abortExec s rid).cancelQ = s.cancelQ := by
  first | rfl | (unfold abortExec; (try simp only []); (repeat' split) <;> pair_subst <;> simp [*])

@[simp] theorem emitViolations_sidx (s : St) (n : Nat) : (emitViolations s n).sidx = s.sidx := by
  unfold emitViolations
  generalize ((s.t.violations.take (s.t.violations.length - n)).reverse) = l
  induction l generalizing s with
  | nil => rfl
  | cons a l ih => simp [List.foldl_cons, ih]

@[simp] theorem emitViolations_inflight (s : St) (n : Nat) : (emitViolations s n).inflight = s.inflight := by
  unfold emitViolations
  generalize ((s.t.violations.take (s.t.violations.length - n)).reverse) = l
  induction l generalizing s with
  | nil => rfl
  | cons a l ih => simp [List.foldl_cons, ih]

@[simp] theorem emitViolations_timers (s : St) (n : Nat) : (emitViolations s n).timers = s.timers := by
  unfold emitViolations
  generalize ((s.t.violations.take (s.t.violations.length - n)).reverse) = l
  induction l generalizing s with
  | nil => rfl
  | cons a l ih => simp [List.foldl_cons, ih]

@[simp] theorem emitViolations_poisoned (s : St) (n : Nat) : (emitViolations s n).poisoned = s.poisoned := by
  unfold emitViolations
  generalize ((s.t.violations.take (s.t.violations.length - n)).reverse) = l
  induction l generalizing s with
  | nil => rfl
  | cons a l ih => simp [List.foldl_cons, ih]

@[simp] theorem emitViolations_limit (s : St) (n : Nat) : (emitViolations s n).limit = s.limit := by
  unfold emitViolations
  generalize ((s.t.violations.take (s.t.violations.length - n)).reverse) = l
  induction l generalizing s with
  | nil => rfl
  | cons a l ih => simp [List.foldl_cons, ih]

@[simp] theorem emitViolations_throttleAfterRead (s : St) (n : Nat) : (emitViolations s n).throttleAfterRead = s.throttleAfterRead := by
  unfold emitViolations
  generalize ((s.t.violations.take (s.t.violations.length - n)).reverse) = l
  induction l generalizing s with
  | nil => rfl
  | cons a l ih => simp [List.foldl_cons, ih]

@[simp] theorem emitViolations_dropped (s : St) (n : Nat) : (emitViolations s n).dropped = s.dropped := by
  unfold emitViolations
  generalize ((s.t.violations.take (s.t.violations.length - n)).reverse) = l
  induction l generalizing s with
  | nil => rfl
  | cons a l ih => simp [List.foldl_cons, ih]

@[simp] theorem emitViolations_done (s : St) (n : Nat) : (emitViolations s n).done = s.done := by
  unfold emitViolations
  generalize ((s.t.violations.take (s.t.violations.length - n)).reverse) = l
  induction l generalizing s with
  | nil => rfl
  | cons a l ih => simp [List.foldl_cons, ih]

@[simp] theorem emitViolations_respQ (s : St) (n : Nat) : (emitViolations s n).respQ = s.respQ := by
  unfold emitViolations
  generalize ((s.t.violations.take (s.t.violations.length - n)).reverse) = l
  induction l generalizing s with
  | nil => rfl
  | cons a l ih => simp [List.foldl_cons, ih]

@[simp] theorem emitViolations_cancelQ (s : St) (n : Nat) : (emitViolations s n).cancelQ = s.cancelQ := by
  unfold emitViolations
  generalize ((s.t.violations.take (s.t.violations.length - n)).reverse) = l
  induction l generalizing s with
  | nil => rfl
  | cons a l ih => simp [List.foldl_cons, ih]

@[simp] theorem emitViolations_execs (s : St) (n : Nat) : (emitViolations s n).execs = s.execs := by
  unfold emitViolations
  generalize ((s.t.violations.take (s.t.violations.length - n)).reverse) = l
  induction l generalizing s with
  | nil => rfl
  | cons a l ih => simp [List.foldl_cons, ih]

@[simp] theorem tReady_sidx (s : St) : (tReady s).1.sidx = s.sidx := by
  first | rfl | (unfold tReady; (try simp only []); (repeat' split) <;> pair_subst <;> simp [*])

@[simp] theorem tReady_inflight (s : St) : (tReady s).1.inflight = s.inflight := by
  first | rfl | (unfold tReady; (try simp only []); (repeat' split) <;> pair_subst <;> simp [*])

@[simp] theorem tReady_timers (s : St) : (tReady s).1.timers = s.timers := by
  first | rfl | (unfold tReady; (try simp only []); (repeat' split) <;> pair_subst <;> simp [*])

@[simp] theorem tReady_poisoned (s : St) : (tReady s).1.poisoned = s.poisoned := by
  first | rfl | (unfold tReady; (try simp only []); (repeat' split) <;> pair_subst <;> simp [*])

@[simp] theorem tReady_limit (s : St) : (tReady s).1.limit = s.limit := by
  first | rfl | (unfold tReady; (try simp only []); (repeat' split) <;> pair_subst <;> simp [*])

@[simp] theorem tReady_throttleAfterRead (s : St) : (tReady s).1.throttleAfterRead = s.throttleAfterRead := by
  first | rfl | (unfold tReady; (try simp only []); (repeat' split) <;> pair_subst <;> simp [*])

@[simp] theorem tReady_dropped (s : St) : (tReady s).1.dropped = s.dropped := by
  first | rfl | (unfold tReady; (try simp only []); (repeat' split) <;> pair_subst <;> simp [*])

@[simp] theorem tReady_done (s : St) : (tReady s).1.done = s.done := by
  first | rfl | (unfold tReady; (try simp only []); (repeat' split) <;> pair_subst <;> simp [*])

@[simp] theorem tReady_respQ (s : St) : (tReady s).1.respQ = s.respQ := by
  first | rfl | (unfold tReady; (try simp only []); (repeat' split) <;> pair_subst <;> simp [*])

@[simp] theorem tReady_cancelQ (s : St) : (tReady s).1.cancelQ = s.cancelQ := by
  first | rfl | (unfold tReady; (try simp only []); (repeat' split) <;> pair_subst <;> simp [*])

@[simp] theorem tReady_execs (s : St) : (tReady s).1.execs = s.execs := by
  first | rfl | (unfold tReady; (try simp only []); (repeat' split) <;> pair_subst <;> simp [*])

@[simp] theorem tFlush_sidx (s : St) : (tFlush s).1.sidx = s.sidx := by
  first | rfl | (unfold tFlush; (try simp only []); (repeat' split) <;> pair_subst <;> simp [*])

@[simp] theorem tFlush_inflight (s : St) : (tFlush s).1.inflight = s.inflight := by
  first | rfl | (unfold tFlush; (try simp only []); (repeat' split) <;> pair_subst <;> simp [*])

@[simp] theorem tFlush_timers (s : St) : (tFlush s).1.timers = s.timers := by
  first | rfl | (unfold tFlush; (try simp only []); (repeat' split) <;> pair_subst <;> simp [*])

@[simp] theorem tFlush_poisoned (s : St) : (tFlush s).1.poisoned = s.poisoned := by
  first | rfl | (unfold tFlush; (try simp only []); (repeat' split) <;> pair_subst <;> simp [*])

@[simp] theorem tFlush_limit (s : St) : (tFlush s).1.limit = s.limit := by
  first | rfl | (unfold tFlush; (try simp only []); (repeat' split) <;> pair_subst <;> simp [*])

@[simp] theorem tFlush_throttleAfterRead (s : St) : (tFlush s).1.throttleAfterRead = s.throttleAfterRead := by
  first | rfl | (unfold tFlush; (try simp only []); (repeat' split) <;> pair_subst <;> simp [*])

@[simp] theorem tFlush_dropped (s : St) : (tFlush s).1.dropped = s.dropped := by
  first | rfl | (unfold tFlush; (try simp only []); (repeat' split) <;> pair_subst <;> simp [*])

@[simp] theorem tFlush_done (s : St) : (tFlush s).1.done = s.done := by
  first | rfl | (unfold tFlush; (try simp only []); (repeat' split) <;> pair_subst <;> simp [*])

@[simp] theorem tFlush_respQ (s : St) : (tFlush s).1.respQ = s.respQ := by
  first | rfl | (unfold tFlush; (try simp only []); (repeat' split) <;> pair_subst <;> simp [*])

@[simp] theorem tFlush_cancelQ (s : St) : (tFlush s).1.cancelQ = s.cancelQ := by
  first | rfl | (unfold tFlush; (try simp only []); (repeat' split) <;> pair_subst <;> simp [*])

@[simp] theorem tFlush_execs (s : St) : (tFlush s).1.execs = s.execs := by
  first | rfl | (unfold tFlush; (try simp only []); (repeat' split) <;> pair_subst <;> simp [*])

@[simp] theorem tSend_sidx (s : St) (m : Msg) : (tSend s m).1.sidx = s.sidx := by
  first | rfl | (unfold tSend; (try simp only []); (repeat' split) <;> pair_subst <;> simp [*])

@[simp] theorem tSend_inflight (s : St) (m : Msg) : (tSend s m).1.inflight = s.inflight := by
  first | rfl | (unfold tSend; (try simp only []); (repeat' split) <;> pair_subst <;> simp [*])

@[simp] theorem tSend_timers (s : St) (m : Msg) : (tSend s m).1.timers = s.timers := by
  first | rfl | (unfold tSend; (try simp only []); (repeat' split) <;> pair_subst <;> simp [*])

@[simp] theorem tSend_poisoned (s : St) (m : Msg) : (tSend s m).1.poisoned = s.poisoned := by
  first | rfl | (unfold tSend; (try simp only []); (repeat' split) <;> pair_subst <;> simp [*])

@[simp] theorem tSend_limit (s : St) (m : Msg) : (tSend s m).1.limit = s.limit := by
  first | rfl | (unfold tSend; (try simp only []); (repeat' split) <;> pair_subst <;> simp [*])

@[simp] theorem tSend_throttleAfterRead (s : St) (m : Msg) : (tSend s m).1.throttleAfterRead = s.throttleAfterRead := by
  first | rfl | (unfold tSend; (try simp only []); (repeat' split) <;> pair_subst <;> simp [*])

@[simp] theorem tSend_dropped (s : St) (m : Msg) : (tSend s m).1.dropped = s.dropped := by
  first | rfl | (unfold tSend; (try simp only []); (repeat' split) <;> pair_subst <;> simp [*])

@[simp] theorem tSend_done (s : St) (m : Msg) : (tSend s m).1.done = s.done := by
  first | rfl | (unfold tSend; (try simp only []); (repeat' split) <;> pair_subst <;> simp [*])

@[simp] theorem tSend_respQ (s : St) (m : Msg) : (tSend s m).1.respQ = s.respQ := by
  first | rfl | (unfold tSend; (try simp only []); (repeat' split) <;> pair_subst <;> simp [*])

@[simp] theorem tSend_cancelQ (s : St) (m : Msg) : (tSend s m).1.cancelQ = s.cancelQ := by
  first | rfl | (unfold tSend; (try simp only []); (repeat' split) <;> pair_subst <;> simp [*])

@[simp] theorem tSend_execs (s : St) (m : Msg) : (tSend s m).1.execs = s.execs := by
  first | rfl | (unfold tSend; (try simp only []); (repeat' split) <;> pair_subst <;> simp [*])

@[simp] theorem tNext_sidx (s : St) : (tNext s).1.sidx = s.sidx := by
  first | rfl | (unfold tNext; (try simp only []); (repeat' split) <;> pair_subst <;> simp [*])

@[simp] theorem tNext_inflight (s : St) : (tNext s).1.inflight = s.inflight := by
  first | rfl | (unfold tNext; (try simp only []); (repeat' split) <;> pair_subst <;> simp [*])

@[simp] theorem tNext_timers (s : St) : (tNext s).1.timers = s.timers := by
  first | rfl | (unfold tNext; (try simp only []); (repeat' split) <;> pair_subst <;> simp [*])

@[simp] theorem tNext_poisoned (s : St) : (tNext s).1.poisoned = s.poisoned := by
  first | rfl | (unfold tNext; (try simp only []); (repeat' split) <;> pair_subst <;> simp [*])

@[simp] theorem tNext_limit (s : St) : (tNext s).1.limit = s.limit := by
  first | rfl | (unfold tNext; (try simp only []); (repeat' split) <;> pair_subst <;> simp [*])

@[simp] theorem tNext_throttleAfterRead (s : St) : (tNext s).1.throttleAfterRead = s.throttleAfterRead := by
  first | rfl | (unfold tNext; (try simp only []); (repeat' split) <;> pair_subst <;> simp [*])

@[simp] theorem tNext_dropped (s : St) : (tNext s).1.dropped = s.dropped := by
  first | rfl | (unfold tNext; (try simp only []); (repeat' split) <;> pair_subst <;> simp [*])

@[simp] theorem tNext_done (s : St) : (tNext s).1.done = s.done := by
  first | rfl | (unfold tNext; (try simp only []); (repeat' split) <;> pair_subst <;> simp [*])

@[simp] theorem tNext_respQ (s : St) : (tNext s).1.respQ = s.respQ := by
  first | rfl | (unfold tNext; (try simp only []); (repeat' split) <;> pair_subst <;> simp [*])

@[simp] theorem tNext_cancelQ (s : St) : (tNext s).1.cancelQ = s.cancelQ := by
  first | rfl | (unfold tNext; (try simp only []); (repeat' split) <;> pair_subst <;> simp [*])

@[simp] theorem tNext_execs (s : St) : (tNext s).1.execs = s.execs := by
  first | rfl | (unfold tNext; (try simp only []); (repeat' split) <;> pair_subst <;> simp [*])

@[simp] theorem ensureLoop_sidx (fuel : Nat) (s : St) : (ensureLoop fuel s).1.sidx = s.sidx := by
  induction fuel generalizing s with
  | zero => simp [ensureLoop]
  | succ fuel ih =>
    unfold ensureLoop; (try simp only []); (repeat' split) <;> pair_subst <;> simp [*]

@[simp] theorem ensureLoop_inflight (fuel : Nat) (s : St) : (ensureLoop fuel s).1.inflight = s.inflight := by
  induction fuel generalizing s with
  | zero => simp [ensureLoop]
  | succ fuel ih =>
    unfold ensureLoop; (try simp only []); (repeat' split) <;> pair_subst <;> simp [*]

@[simp] theorem ensureLoop_timers (fuel : Nat) (s : St) : (ensureLoop fuel s).1.timers = s.timers := by
  induction fuel generalizing s with
  | zero => simp [ensureLoop]
  | succ fuel ih =>
    unfold ensureLoop; (try simp only []); (repeat' split) <;> pair_subst <;> simp [*]

@[simp] theorem ensureLoop_poisoned (fuel : Nat) (s : St) : (ensureLoop fuel s).1.poisoned = s.poisoned := by
  induction fuel generalizing s with
  | zero => simp [ensureLoop]
  | succ fuel ih =>
    unfold ensureLoop; (try simp only []); (repeat' split) <;> pair_subst <;> simp [*]

@[simp] theorem ensureLoop_limit (fuel : Nat) (s : St) : (ensureLoop fuel s).1.limit = s.limit := by
  induction fuel generalizing s with
  | zero => simp [ensureLoop]
  | succ fuel ih =>
    unfold ensureLoop; (try simp only []); (repeat' split) <;> pair_subst <;> simp [*]

@[simp] theorem ensureLoop_throttleAfterRead (fuel : Nat) (s : St) : (ensureLoop fuel s).1.throttleAfterRead = s.throttleAfterRead := by
  induction fuel generalizing s with
  | zero => simp [ensureLoop]
  | succ fuel ih =>
    unfold ensureLoop; (try simp only []); (repeat' split) <;> pair_subst <;> simp [*]

@[simp] theorem ensureLoop_dropped (fuel : Nat) (s : St) : (ensureLoop fuel s).1.dropped = s.dropped := by
  induction fuel generalizing s with
  | zero => simp [ensureLoop]
  | succ fuel ih =>
    unfold ensureLoop; (try simp only []); (repeat' split) <;> pair_subst <;> simp [*]

@[simp] theorem ensureLoop_done (fuel : Nat) (s : St) : (ensureLoop fuel s).1.done = s.done := by
  induction fuel generalizing s with
  | zero => simp [ensureLoop]
  | succ fuel ih =>
    unfold ensureLoop; (try simp only []); (repeat' split) <;> pair_subst <;> simp [*]

@[simp] theorem ensureLoop_respQ (fuel : Nat) (s : St) : (ensureLoop fuel s).1.respQ = s.respQ := by
  induction fuel generalizing s with
  | zero => simp [ensureLoop]
  | succ fuel ih =>
    unfold ensureLoop; (try simp only []); (repeat' split) <;> pair_subst <;> simp [*]

@[simp] theorem ensureLoop_cancelQ (fuel : Nat) (s : St) : (ensureLoop fuel s).1.cancelQ = s.cancelQ := by
  induction fuel generalizing s with
  | zero => simp [ensureLoop]
  | succ fuel ih =>
    unfold ensureLoop; (try simp only []); (repeat' split) <;> pair_subst <;> simp [*]

@[simp] theorem ensureLoop_execs (fuel : Nat) (s : St) : (ensureLoop fuel s).1.execs = s.execs := by
  induction fuel generalizing s with
  | zero => simp [ensureLoop]
  | succ fuel ih =>
    unfold ensureLoop; (try simp only []); (repeat' split) <;> pair_subst <;> simp [*]

@[simp] theorem ensureOnce_sidx (s : St) : (ensureOnce s).1.sidx = s.sidx := by
  first | rfl | (unfold ensureOnce; (try simp only []); (repeat' split) <;> pair_subst <;> simp [*])

@[simp] theorem ensureOnce_inflight (s : St) : (ensureOnce s).1.inflight = s.inflight := by
  first | rfl | (unfold ensureOnce; (try simp only []); (repeat' split) <;> pair_subst <;> simp [*])

@[simp] theorem ensureOnce_timers (s : St) : (ensureOnce s).1.timers = s.timers := by
  first | rfl | (unfold ensureOnce; (try simp only []); (repeat' split) <;> pair_subst <;> simp [*])

@[simp] theorem ensureOnce_poisoned (s : St) : (ensureOnce s).1.poisoned = s.poisoned := by
  first | rfl | (unfold ensureOnce; (try simp only []); (repeat' split) <;> pair_subst <;> simp [*])

@[simp] theorem ensureOnce_limit (s : St) : (ensureOnce s).1.limit = s.limit := by
  first | rfl | (unfold ensureOnce; (try simp only []); (repeat' split) <;> pair_subst <;> simp [*])

@[simp] theorem ensureOnce_throttleAfterRead (s : St) : (ensureOnce s).1.throttleAfterRead = s.throttleAfterRead := by
  first | rfl | (unfold ensureOnce; (try simp only []); (repeat' split) <;> pair_subst <;> simp [*])

@[simp] theorem ensureOnce_dropped (s : St) : (ensureOnce s).1.dropped = s.dropped := by
  first | rfl | (unfold ensureOnce; (try simp only []); (repeat' split) <;> pair_subst <;> simp [*])

@[simp] theorem ensureOnce_done (s : St) : (ensureOnce s).1.done = s.done := by
  first | rfl | (unfold ensureOnce; (try simp only []); (repeat' split) <;> pair_subst <;> simp [*])

@[simp] theorem ensureOnce_respQ (s : St) : (ensureOnce s).1.respQ = s.respQ := by
  first | rfl | (unfold ensureOnce; (try simp only []); (repeat' split) <;> pair_subst <;> simp [*])

@[simp] theorem ensureOnce_cancelQ (s : St) : (ensureOnce s).1.cancelQ = s.cancelQ := by
  first | rfl | (unfold ensureOnce; (try simp only []); (repeat' split) <;> pair_subst <;> simp [*])

@[simp] theorem ensureOnce_execs (s : St) : (ensureOnce s).1.execs = s.execs := by
  first | rfl | (unfold ensureOnce; (try simp only []); (repeat' split) <;> pair_subst <;> simp [*])

@[simp] theorem ensureWriteable_sidx (s : St) : (ensureWriteable s).1.sidx = s.sidx := by
  first | rfl | (unfold ensureWriteable; (try simp only []); (repeat' split) <;> pair_subst <;> simp [*])

@[simp] theorem ensureWriteable_inflight (s : St) : (ensureWriteable s).1.inflight = s.inflight := by
  first | rfl | (unfold ensureWriteable; (try simp only []); (repeat' split) <;> pair_subst <;> simp [*])

@[simp] theorem ensureWriteable_timers (s : St) : (ensureWriteable s).1.timers = s.timers := by
  first | rfl | (unfold ensureWriteable; (try simp only []); (repeat' split) <;> pair_subst <;> simp [*])

@[simp] theorem ensureWriteable_poisoned (s : St) : (ensureWriteable s).1.poisoned = s.poisoned := by
  first | rfl | (unfold ensureWriteable; (try simp only []); (repeat' split) <;> pair_subst <;> simp [*])

@[simp] theorem ensureWriteable_limit (s : St) : (ensureWriteable s).1.limit = s.limit := by
  first | rfl | (unfold ensureWriteable; (try simp only []); (repeat' split) <;> pair_subst <;> simp [*])

@[simp] theorem ensureWriteable_throttleAfterRead (s : St) : (ensureWriteable s).1.throttleAfterRead = s.throttleAfterRead := by
  first | rfl | (unfold ensureWriteable; (try simp only []); (repeat' split) <;> pair_subst <;> simp [*])

@[simp] theorem ensureWriteable_dropped (s : St) : (ensureWriteable s).1.dropped = s.dropped := by
  first | rfl | (unfold ensureWriteable; (try simp only []); (repeat' split) <;> pair_subst <;> simp [*])

@[simp] theorem ensureWriteable_done (s : St) : (ensureWriteable s).1.done = s.done := by
  first | rfl | (unfold ensureWriteable; (try simp only []); (repeat' split) <;> pair_subst <;> simp [*])

@[simp] theorem ensureWriteable_respQ (s : St) : (ensureWriteable s).1.respQ = s.respQ := by
  first | rfl | (unfold ensureWriteable; (try simp only []); (repeat' split) <;> pair_subst <;> simp [*])

@[simp] theorem ensureWriteable_cancelQ (s : St) : (ensureWriteable s).1.cancelQ = s.cancelQ := by
  first | rfl | (unfold ensureWriteable; (try simp only []); (repeat' split) <;> pair_subst <;> simp [*])

@[simp] theorem ensureWriteable_execs (s : St) : (ensureWriteable s).1.execs = s.execs := by
  first | rfl | (unfold ensureWriteable; (try simp only []); (repeat' split) <;> pair_subst <;> simp [*])

@[simp] theorem rqRelease_sidx (s : St) : (rqRelease s).sidx = s.sidx := by
  first | rfl | (unfold rqRelease; (try simp only []); (repeat' split) <;> pair_subst <;> simp [*])

@[simp] theorem rqRelease_inflight (s : St) : (rqRelease s).inflight = s.inflight := by
  first | rfl | (unfold rqRelease; (try simp only []); (repeat' split) <;> pair_subst <;> simp [*])

@[simp] theorem rqRelease_timers (s : St) : (rqRelease s).timers = s.timers := by
  first | rfl | (unfold rqRelease; (try simp only []); (repeat' split) <;> pair_subst <;> simp [*])

@[simp] theorem rqRelease_poisoned (s : St) : (rqRelease s).poisoned = s.poisoned := by
  first | rfl | (unfold rqRelease; (try simp only []); (repeat' split) <;> pair_subst <;> simp [*])

@[simp] theorem rqRelease_limit (s : St) : (rqRelease s).limit = s.limit := by
  first | rfl | (unfold rqRelease; (try simp only []); (repeat' split) <;> pair_subst <;> simp [*])

@[simp] theorem rqRelease_throttleAfterRead (s : St) : (rqRelease s).throttleAfterRead = s.throttleAfterRead := by
  first | rfl | (unfold rqRelease; (try simp only []); (repeat' split) <;> pair_subst <;> simp [*])

@[simp] theorem rqRelease_dropped (s : St) : (rqRelease s).dropped = s.dropped := by
  first | rfl | (unfold rqRelease; (try simp only []); (repeat' split) <;> pair_subst <;> simp [*])

@[simp] theorem rqRelease_done (s : St) : (rqRelease s).done = s.done := by
  first | rfl | (unfold rqRelease; (try simp only []); (repeat' split) <;> pair_subst <;> simp [*])

@[simp] theorem rqRelease_respQ (s : St) : (rqRelease s).respQ = s.respQ := by
  first | rfl | (unfold rqRelease; (try simp only []); (repeat' split) <;> pair_subst <;> simp [*])

@[simp] theorem rqRelease_cancelQ (s : St) : (rqRelease s).cancelQ = s.cancelQ := by
  first | rfl | (unfold rqRelease; (try simp only []); (repeat' split) <;> pair_subst <;> simp [*])

@[simp] theorem flushArm_sidx (s : St) (rc : Bool) : (flushArm s rc).1.sidx = s.sidx := by
  first | rfl | (unfold flushArm; (try simp only []); (repeat' split) <;> pair_subst <;> simp [*])

@[simp] theorem flushArm_inflight (s : St) (rc : Bool) : (flushArm s rc).1.inflight = s.inflight := by
  first | rfl | (unfold flushArm; (try simp only []); (repeat' split) <;> pair_subst <;> simp [*])

@[simp] theorem flushArm_timers (s : St) (rc : Bool) : (flushArm s rc).1.timers = s.timers := by
  first | rfl | (unfold flushArm; (try simp only []); (repeat' split) <;> pair_subst <;> simp [*])

@[simp] theorem flushArm_poisoned (s : St) (rc : Bool) : (flushArm s rc).1.poisoned = s.poisoned := by
  first | rfl | (unfold flushArm; (try simp only []); (repeat' split) <;> pair_subst <;> simp [*])

@[simp] theorem flushArm_limit (s : St) (rc : Bool) : (flushArm s rc).1.limit = s.limit := by
  first | rfl | (unfold flushArm; (try simp only []); (repeat' split) <;> pair_subst <;> simp [*])

@[simp] theorem flushArm_throttleAfterRead (s : St) (rc : Bool) : (flushArm s rc).1.throttleAfterRead = s.throttleAfterRead := by
  first | rfl | (unfold flushArm; (try simp only []); (repeat' split) <;> pair_subst <;> simp [*])

@[simp] theorem flushArm_dropped (s : St) (rc : Bool) : (flushArm s rc).1.dropped = s.dropped := by
  first | rfl | (unfold flushArm; (try simp only []); (repeat' split) <;> pair_subst <;> simp [*])

@[simp] theorem flushArm_done (s : St) (rc : Bool) : (flushArm s rc).1.done = s.done := by
  first | rfl | (unfold flushArm; (try simp only []); (repeat' split) <;> pair_subst <;> simp [*])

@[simp] theorem flushArm_respQ (s : St) (rc : Bool) : (flushArm s rc).1.respQ = s.respQ := by
  first | rfl | (unfold flushArm; (try simp only []); (repeat' split) <;> pair_subst <;> simp [*])

@[simp] theorem flushArm_cancelQ (s : St) (rc : Bool) : (flushArm s rc).1.cancelQ = s.cancelQ := by
  first | rfl | (unfold flushArm; (try simp only []); (repeat' split) <;> pair_subst <;> simp [*])

@[simp] theorem flushArm_execs (s : St) (rc : Bool) : (flushArm s rc).1.execs = s.execs := by
  first | rfl | (unfold flushArm; (try simp only []); (repeat' split) <;> pair_subst <;> simp [*])

@[simp] theorem dropOffered_sidx (s : St) (rid id : Nat) : (dropOffered s rid id).sidx = s.sidx := by
  first | rfl | (unfold dropOffered; (try simp only []); (repeat' split) <;> pair_subst <;> simp [*])

@[simp] theorem dropOffered_inflight (s : St) (rid id : Nat) : (dropOffered s rid id).inflight = s.inflight := by
  first | rfl | (unfold dropOffered; (try simp only []); (repeat' split) <;> pair_subst <;> simp [*])

@[simp] theorem dropOffered_timers (s : St) (rid id : Nat) : (dropOffered s rid id).timers = s.timers := by
  first | rfl | (unfold dropOffered; (try simp only []); (repeat' split) <;> pair_subst <;> simp [*])

@[simp] theorem dropOffered_poisoned (s : St) (rid id : Nat) : (dropOffered s rid id).poisoned = s.poisoned := by
  first | rfl | (unfold dropOffered; (try simp only []); (repeat' split) <;> pair_subst <;> simp [*])

@[simp] theorem dropOffered_limit (s : St) (rid id : Nat) : (dropOffered s rid id).limit = s.limit := by
  first | rfl | (unfold dropOffered; (try simp only []); (repeat' split) <;> pair_subst <;> simp [*])

@[simp] theorem dropOffered_throttleAfterRead (s : St) (rid id : Nat) : (dropOffered s rid id).throttleAfterRead = s.throttleAfterRead := by
  first | rfl | (unfold dropOffered; (try simp only []); (repeat' split) <;> pair_subst <;> simp [*])

@[simp] theorem dropOffered_dropped (s : St) (rid id : Nat) : (dropOffered s rid id).dropped = s.dropped := by
  first | rfl | (unfold dropOffered; (try simp only []); (repeat' split) <;> pair_subst <;> simp [*])

@[simp] theorem dropOffered_done (s : St) (rid id : Nat) : (dropOffered s rid id).done = s.done := by
  first | rfl | (unfold dropOffered; (try simp only []); (repeat' split) <;> pair_subst <;> simp [*])

@[simp] theorem dropOffered_respQ (s : St) (rid id : Nat) : (dropOffered s rid id).respQ = s.respQ := by
  first | rfl | (unfold dropOffered; (try simp only []); (repeat' split) <;> pair_subst <;> simp [*])

@[simp] theorem guardDrop_sidx (s : St) (e : Exec) : (guardDrop s e).sidx = s.sidx := by
  first | rfl | (unfold guardDrop; (try simp only []); (repeat' split) <;> pair_subst <;> simp [*])

@[simp] theorem guardDrop_inflight (s : St) (e : Exec) : (guardDrop s e).inflight = s.inflight := by
  first | rfl | (unfold guardDrop; (try simp only []); (repeat' split) <;> pair_subst <;> simp [*])

@[simp] theorem guardDrop_timers (s : St) (e : Exec) : (guardDrop s e).timers = s.timers := by
  first | rfl | (unfold guardDrop; (try simp only []); (repeat' split) <;> pair_subst <;> simp [*])

@[simp] theorem guardDrop_poisoned (s : St) (e : Exec) : (guardDrop s e).poisoned = s.poisoned := by
  first | rfl | (unfold guardDrop; (try simp only []); (repeat' split) <;> pair_subst <;> simp [*])

@[simp] theorem guardDrop_limit (s : St) (e : Exec) : (guardDrop s e).limit = s.limit := by
  first | rfl | (unfold guardDrop; (try simp only []); (repeat' split) <;> pair_subst <;> simp [*])

@[simp] theorem guardDrop_throttleAfterRead (s : St) (e : Exec) : (guardDrop s e).throttleAfterRead = s.throttleAfterRead := by
  first | rfl | (unfold guardDrop; (try simp only []); (repeat' split) <;> pair_subst <;> simp [*])

@[simp] theorem guardDrop_dropped (s : St) (e : Exec) : (guardDrop s e).dropped = s.dropped := by
  first | rfl | (unfold guardDrop; (try simp only []); (repeat' split) <;> pair_subst <;> simp [*])

@[simp] theorem guardDrop_done (s : St) (e : Exec) : (guardDrop s e).done = s.done := by
  first | rfl | (unfold guardDrop; (try simp only []); (repeat' split) <;> pair_subst <;> simp [*])

@[simp] theorem guardDrop_respQ (s : St) (e : Exec) : (guardDrop s e).respQ = s.respQ := by
  first | rfl | (unfold guardDrop; (try simp only []); (repeat' split) <;> pair_subst <;> simp [*])

@[simp] theorem guardDrop_execs (s : St) (e : Exec) : (guardDrop s e).execs = s.execs := by
  first | rfl | (unfold guardDrop; (try simp only []); (repeat' split) <;> pair_subst <;> simp [*])

@[simp] theorem queueAndFinish_sidx (s : St) (e : Exec) (res : Res) (now : Nat) : (queueAndFinish s e res now).sidx = s.sidx := by
  first | rfl | (unfold queueAndFinish; (try simp only []); (repeat' split) <;> pair_subst <;> simp [*])

@[simp] theorem queueAndFinish_inflight (s : St) (e : Exec) (res : Res) (now : Nat) : (queueAndFinish s e res now).inflight = s.inflight := by
  first | rfl | (unfold queueAndFinish; (try simp only []); (repeat' split) <;> pair_subst <;> simp [*])

@[simp] theorem queueAndFinish_timers (s : St) (e : Exec) (res : Res) (now : Nat) : (queueAndFinish s e res now).timers = s.timers := by
  first | rfl | (unfold queueAndFinish; (try simp only []); (repeat' split) <;> pair_subst <;> simp [*])

@[simp] theorem queueAndFinish_poisoned (s : St) (e : Exec) (res : Res) (now : Nat) : (queueAndFinish s e res now).poisoned = s.poisoned := by
  first | rfl | (unfold queueAndFinish; (try simp only []); (repeat' split) <;> pair_subst <;> simp [*])

@[simp] theorem queueAndFinish_limit (s : St) (e : Exec) (res : Res) (now : Nat) : (queueAndFinish s e res now).limit = s.limit := by
  first | rfl | (unfold queueAndFinish; (try simp only []); (repeat' split) <;> pair_subst <;> simp [*])

@[simp] theorem queueAndFinish_throttleAfterRead (s : St) (e : Exec) (res : Res) (now : Nat) : (queueAndFinish s e res now).throttleAfterRead = s.throttleAfterRead := by
  first | rfl | (unfold queueAndFinish; (try simp only []); (repeat' split) <;> pair_subst <;> simp [*])

@[simp] theorem queueAndFinish_dropped (s : St) (e : Exec) (res : Res) (now : Nat) : (queueAndFinish s e res now).dropped = s.dropped := by
  first | rfl | (unfold queueAndFinish; (try simp only []); (repeat' split) <;> pair_subst <;> simp [*])

@[simp] theorem queueAndFinish_done (s : St) (e : Exec) (res : Res) (now : Nat) : (queueAndFinish s e res now).done = s.done := by
  first | rfl | (unfold queueAndFinish; (try simp only []); (repeat' split) <;> pair_subst <;> simp [*])

@[simp] theorem queueAndFinish_cancelQ (s : St) (e : Exec) (res : Res) (now : Nat) : (queueAndFinish s e res now).cancelQ = s.cancelQ := by
  first | rfl | (unfold queueAndFinish; (try simp only []); (repeat' split) <;> pair_subst <;> simp [*])

@[simp] theorem trySend_sidx (s : St) (e : Exec) (res : Res) (now : Nat) : (trySend s e res now).sidx = s.sidx := by
  first | rfl | (unfold trySend; (try simp only []); (repeat' split) <;> pair_subst <;> simp [*])

@[simp] theorem trySend_inflight (s : St) (e : Exec) (res : Res) (now : Nat) : (trySend s e res now).inflight = s.inflight := by
  first | rfl | (unfold trySend; (try simp only []); (repeat' split) <;> pair_subst <;> simp [*])

@[simp] theorem trySend_timers (s : St) (e : Exec) (res : Res) (now : Nat) : (trySend s e res now).timers = s.timers := by
  first | rfl | (unfold trySend; (try simp only []); (repeat' split) <;> pair_subst <;> simp [*])

@[simp] theorem trySend_poisoned (s : St) (e : Exec) (res : Res) (now : Nat) : (trySend s e res now).poisoned = s.poisoned := by
  first | rfl | (unfold trySend; (try simp only []); (repeat' split) <;> pair_subst <;> simp [*])

@[simp] theorem trySend_limit (s : St) (e : Exec) (res : Res) (now : Nat) : (trySend s e res now).limit = s.limit := by
  first | rfl | (unfold trySend; (try simp only []); (repeat' split) <;> pair_subst <;> simp [*])

@[simp] theorem trySend_throttleAfterRead (s : St) (e : Exec) (res : Res) (now : Nat) : (trySend s e res now).throttleAfterRead = s.throttleAfterRead := by
  first | rfl | (unfold trySend; (try simp only []); (repeat' split) <;> pair_subst <;> simp [*])

@[simp] theorem trySend_dropped (s : St) (e : Exec) (res : Res) (now : Nat) : (trySend s e res now).dropped = s.dropped := by
  first | rfl | (unfold trySend; (try simp only []); (repeat' split) <;> pair_subst <;> simp [*])

@[simp] theorem trySend_done (s : St) (e : Exec) (res : Res) (now : Nat) : (trySend s e res now).done = s.done := by
  first | rfl | (unfold trySend; (try simp only []); (repeat' split) <;> pair_subst <;> simp [*])

@[simp] theorem trySend_cancelQ (s : St) (e : Exec) (res : Res) (now : Nat) : (trySend s e res now).cancelQ = s.cancelQ := by
  first | rfl | (unfold trySend; (try simp only []); (repeat' split) <;> pair_subst <;> simp [*])

@[simp] theorem pollExec_sidx (s : St) (vid now : Nat) : (pollExec s vid now).sidx = s.sidx := by
  first | rfl | (unfold pollExec; (try simp only []); (repeat' split) <;> pair_subst <;> simp [*])

@[simp] theorem pollExec_inflight (s : St) (vid now : Nat) : (pollExec s vid now).inflight = s.inflight := by
  first | rfl | (unfold pollExec; (try simp only []); (repeat' split) <;> pair_subst <;> simp [*])

@[simp] theorem pollExec_timers (s : St) (vid now : Nat) : (pollExec s vid now).timers = s.timers := by
  first | rfl | (unfold pollExec; (try simp only []); (repeat' split) <;> pair_subst <;> simp [*])

@[simp] theorem pollExec_poisoned (s : St) (vid now : Nat) : (pollExec s vid now).poisoned = s.poisoned := by
  first | rfl | (unfold pollExec; (try simp only []); (repeat' split) <;> pair_subst <;> simp [*])

@[simp] theorem pollExec_limit (s : St) (vid now : Nat) : (pollExec s vid now).limit = s.limit := by
  first | rfl | (unfold pollExec; (try simp only []); (repeat' split) <;> pair_subst <;> simp [*])

@[simp] theorem pollExec_throttleAfterRead (s : St) (vid now : Nat) : (pollExec s vid now).throttleAfterRead = s.throttleAfterRead := by
  first | rfl | (unfold pollExec; (try simp only []); (repeat' split) <;> pair_subst <;> simp [*])

@[simp] theorem pollExec_dropped (s : St) (vid now : Nat) : (pollExec s vid now).dropped = s.dropped := by
  first | rfl | (unfold pollExec; (try simp only []); (repeat' split) <;> pair_subst <;> simp [*])

@[simp] theorem pollExec_done (s : St) (vid now : Nat) : (pollExec s vid now).done = s.done := by
  first | rfl | (unfold pollExec; (try simp only []); (repeat' split) <;> pair_subst <;> simp [*])

@[simp] theorem pollExec_cancelQ (s : St) (vid now : Nat) : (pollExec s vid now).cancelQ = s.cancelQ := by
  first | rfl | (unfold pollExec; (try simp only []); (repeat' split) <;> pair_subst <;> simp [*])

@[simp] theorem dropExec_sidx (s : St) (vid now : Nat) : (dropExec s vid now).sidx = s.sidx := by
  first | rfl | (unfold dropExec; (try simp only []); (repeat' split) <;> pair_subst <;> simp [*])

@[simp] theorem dropExec_inflight (s : St) (vid now : Nat) : (dropExec s vid now).inflight = s.inflight := by
  first | rfl | (unfold dropExec; (try simp only []); (repeat' split) <;> pair_subst <;> simp [*])

@[simp] theorem dropExec_timers (s : St) (vid now : Nat) : (dropExec s vid now).timers = s.timers := by
  first | rfl | (unfold dropExec; (try simp only []); (repeat' split) <;> pair_subst <;> simp [*])

@[simp] theorem dropExec_poisoned (s : St) (vid now : Nat) : (dropExec s vid now).poisoned = s.poisoned := by
  first | rfl | (unfold dropExec; (try simp only []); (repeat' split) <;> pair_subst <;> simp [*])

@[simp] theorem dropExec_limit (s : St) (vid now : Nat) : (dropExec s vid now).limit = s.limit := by
  first | rfl | (unfold dropExec; (try simp only []); (repeat' split) <;> pair_subst <;> simp [*])

@[simp] theorem dropExec_throttleAfterRead (s : St) (vid now : Nat) : (dropExec s vid now).throttleAfterRead = s.throttleAfterRead := by
  first | rfl | (unfold dropExec; (try simp only []); (repeat' split) <;> pair_subst <;> simp [*])

@[simp] theorem dropExec_dropped (s : St) (vid now : Nat) : (dropExec s vid now).dropped = s.dropped := by
  first | rfl | (unfold dropExec; (try simp only []); (repeat' split) <;> pair_subst <;> simp [*])

@[simp] theorem dropExec_done (s : St) (vid now : Nat) : (dropExec s vid now).done = s.done := by
  first | rfl | (unfold dropExec; (try simp only []); (repeat' split) <;> pair_subst <;> simp [*])

@[simp] theorem dropExec_respQ (s : St) (vid now : Nat) : (dropExec s vid now).respQ = s.respQ := by
  first | rfl | (unfold dropExec; (try simp only []); (repeat' split) <;> pair_subst <;> simp [*])

@[simp] theorem finishHandler_sidx (s : St) (vid : Nat) (res : Res) : (finishHandler s vid res).sidx = s.sidx := by
  first | rfl | (unfold finishHandler; (try simp only []); (repeat' split) <;> pair_subst <;> simp [*])

@[simp] theorem finishHandler_inflight (s : St) (vid : Nat) (res : Res) : (finishHandler s vid res).inflight = s.inflight := by
  first | rfl | (unfold finishHandler; (try simp only []); (repeat' split) <;> pair_subst <;> simp [*])

@[simp] theorem finishHandler_timers (s : St) (vid : Nat) (res : Res) : (finishHandler s vid res).timers = s.timers := by
  first | rfl | (unfold finishHandler; (try simp only []); (repeat' split) <;> pair_subst <;> simp [*])

@[simp] theorem finishHandler_poisoned (s : St) (vid : Nat) (res : Res) : (finishHandler s vid res).poisoned = s.poisoned := by
  first | rfl | (unfold finishHandler; (try simp only []); (repeat' split) <;> pair_subst <;> simp [*])

@[simp] theorem finishHandler_limit (s : St) (vid : Nat) (res : Res) : (finishHandler s vid res).limit = s.limit := by
  first | rfl | (unfold finishHandler; (try simp only []); (repeat' split) <;> pair_subst <;> simp [*])

@[simp] theorem finishHandler_throttleAfterRead (s : St) (vid : Nat) (res : Res) : (finishHandler s vid res).throttleAfterRead = s.throttleAfterRead := by
  first | rfl | (unfold finishHandler; (try simp only []); (repeat' split) <;> pair_subst <;> simp [*])

@[simp] theorem finishHandler_dropped (s : St) (vid : Nat) (res : Res) : (finishHandler s vid res).dropped = s.dropped := by
  first | rfl | (unfold finishHandler; (try simp only []); (repeat' split) <;> pair_subst <;> simp [*])

@[simp] theorem finishHandler_done (s : St) (vid : Nat) (res : Res) : (finishHandler s vid res).done = s.done := by
  first | rfl | (unfold finishHandler; (try simp only []); (repeat' split) <;> pair_subst <;> simp [*])

@[simp] theorem finishHandler_respQ (s : St) (vid : Nat) (res : Res) : (finishHandler s vid res).respQ = s.respQ := by
  first | rfl | (unfold finishHandler; (try simp only []); (repeat' split) <;> pair_subst <;> simp [*])

@[simp] theorem finishHandler_cancelQ (s : St) (vid : Nat) (res : Res) : (finishHandler s vid res).cancelQ = s.cancelQ := by
  first | rfl | (unfold finishHandler; (try simp only []); (repeat' split) <;> pair_subst <;> simp [*])

@[simp] theorem liftT_sidx (s : St) (r : SimT × Bool) : (liftT s r).sidx = s.sidx := by
  first | rfl | (unfold liftT; (try simp only []); (repeat' split) <;> pair_subst <;> simp [*])

@[simp] theorem liftT_inflight (s : St) (r : SimT × Bool) : (liftT s r).inflight = s.inflight := by
  first | rfl | (unfold liftT; (try simp only []); (repeat' split) <;> pair_subst <;> simp [*])

@[simp] theorem liftT_timers (s : St) (r : SimT × Bool) : (liftT s r).timers = s.timers := by
  first | rfl | (unfold liftT; (try simp only []); (repeat' split) <;> pair_subst <;> simp [*])

@[simp] theorem liftT_poisoned (s : St) (r : SimT × Bool) : (liftT s r).poisoned = s.poisoned := by
  first | rfl | (unfold liftT; (try simp only []); (repeat' split) <;> pair_subst <;> simp [*])

@[simp] theorem liftT_limit (s : St) (r : SimT × Bool) : (liftT s r).limit = s.limit := by
  first | rfl | (unfold liftT; (try simp only []); (repeat' split) <;> pair_subst <;> simp [*])

@[simp] theorem liftT_throttleAfterRead (s : St) (r : SimT × Bool) : (liftT s r).throttleAfterRead = s.throttleAfterRead := by
  first | rfl | (unfold liftT; (try simp only []); (repeat' split) <;> pair_subst <;> simp [*])

@[simp] theorem liftT_dropped (s : St) (r : SimT × Bool) : (liftT s r).dropped = s.dropped := by
  first | rfl | (unfold liftT; (try simp only []); (repeat' split) <;> pair_subst <;> simp [*])

@[simp] theorem liftT_done (s : St) (r : SimT × Bool) : (liftT s r).done = s.done := by
  first | rfl | (unfold liftT; (try simp only []); (repeat' split) <;> pair_subst <;> simp [*])

@[simp] theorem liftT_respQ (s : St) (r : SimT × Bool) : (liftT s r).respQ = s.respQ := by
  first | rfl | (unfold liftT; (try simp only []); (repeat' split) <;> pair_subst <;> simp [*])

@[simp] theorem liftT_cancelQ (s : St) (r : SimT × Bool) : (liftT s r).cancelQ = s.cancelQ := by
  first | rfl | (unfold liftT; (try simp only []); (repeat' split) <;> pair_subst <;> simp [*])

@[simp] theorem liftT_execs (s : St) (r : SimT × Bool) : (liftT s r).execs = s.execs := by
  first | rfl | (unfold liftT; (try simp only []); (repeat' split) <;> pair_subst <;> simp [*])

@[simp] theorem onAdvance_sidx (s : St) (now : Nat) : (onAdvance s now).sidx = s.sidx := by
  first | rfl | (unfold onAdvance; (try simp only []); (repeat' split) <;> pair_subst <;> simp [*])

@[simp] theorem onAdvance_inflight (s : St) (now : Nat) : (onAdvance s now).inflight = s.inflight := by
  first | rfl | (unfold onAdvance; (try simp only []); (repeat' split) <;> pair_subst <;> simp [*])

@[simp] theorem onAdvance_poisoned (s : St) (now : Nat) : (onAdvance s now).poisoned = s.poisoned := by
  first | rfl | (unfold onAdvance; (try simp only []); (repeat' split) <;> pair_subst <;> simp [*])

@[simp] theorem onAdvance_limit (s : St) (now : Nat) : (onAdvance s now).limit = s.limit := by
  first | rfl | (unfold onAdvance; (try simp only []); (repeat' split) <;> pair_subst <;> simp [*])

@[simp] theorem onAdvance_throttleAfterRead (s : St) (now : Nat) : (onAdvance s now).throttleAfterRead = s.throttleAfterRead := by
  first | rfl | (unfold onAdvance; (try simp only []); (repeat' split) <;> pair_subst <;> simp [*])

@[simp] theorem onAdvance_dropped (s : St) (now : Nat) : (onAdvance s now).dropped = s.dropped := by
  first | rfl | (unfold onAdvance; (try simp only []); (repeat' split) <;> pair_subst <;> simp [*])

@[simp] theorem onAdvance_done (s : St) (now : Nat) : (onAdvance s now).done = s.done := by
  first | rfl | (unfold onAdvance; (try simp only []); (repeat' split) <;> pair_subst <;> simp [*])

@[simp] theorem onAdvance_respQ (s : St) (now : Nat) : (onAdvance s now).respQ = s.respQ := by
  first | rfl | (unfold onAdvance; (try simp only []); (repeat' split) <;> pair_subst <;> simp [*])

@[simp] theorem onAdvance_cancelQ (s : St) (now : Nat) : (onAdvance s now).cancelQ = s.cancelQ := by
  first | rfl | (unfold onAdvance; (try simp only []); (repeat' split) <;> pair_subst <;> simp [*])

@[simp] theorem onAdvance_execs (s : St) (now : Nat) : (onAdvance s now).execs = s.execs := by
  first | rfl | (unfold onAdvance; (try simp only []); (repeat' split) <;> pair_subst <;> simp [*])

/-! ### observations and execution keys -/

@[simp] theorem emit_obs (s : St) (o : Obs) : (emit s o).obs = o :: s.obs := rfl

@[simp] theorem updExec_obs (s : St) (rid : Nat) (f : Exec → Exec) : (updExec s rid f).obs = s.obs := rfl

@[simp] theorem updExec_ekeys (s : St) (rid : Nat) (f : Exec → Exec) (hr : ∀ e, (f e).rid = e.rid)
    (hi : ∀ e, (f e).id = e.id) (ha : ∀ e, (f e).aborted = e.aborted) :
    (updExec s rid f).execs.map ekey = s.execs.map ekey := by
  simp only [updExec, List.map_map]
  apply List.map_congr_left
  intro e _
  simp only [Function.comp]
  split <;> simp [ekey, hr, hi, ha]


@[simp] theorem wakeServer_gh (L : Option Nat) (g0 : Ghost) (s : St) : gh L g0 (wakeServer s).obs = gh L g0 s.obs := by
  first | rfl | (unfold wakeServer; (try simp only []); (repeat' split) <;> pair_subst <;> simp [*])

@[simp] theorem wakeExec_ekeys (s : St) (rid : Nat) : (wakeExec s rid).execs.map ekey = s.execs.map ekey := by
  first | rfl | (unfold wakeExec; (try simp only []); (repeat' split) <;> pair_subst <;> simp [*])

@[simp] theorem wakeExec_gh (L : Option Nat) (g0 : Ghost) (s : St) (rid : Nat) : gh L g0 (wakeExec s rid).obs = gh L g0 s.obs := by
  first | rfl | (unfold wakeExec; (try simp only []); (repeat' split) <;> pair_subst <;> simp [*])

@[simp] theorem emitViolations_gh (L : Option Nat) (g0 : Ghost) (s : St) (n : Nat) : gh L g0 (emitViolations s n).obs = gh L g0 s.obs := by
  unfold emitViolations
  generalize ((s.t.violations.take (s.t.violations.length - n)).reverse) = l
  induction l generalizing s with
  | nil => rfl
  | cons a l ih => simp [List.foldl_cons, ih]

@[simp] theorem tReady_gh (L : Option Nat) (g0 : Ghost) (s : St) : gh L g0 (tReady s).1.obs = gh L g0 s.obs := by
  first | rfl | (unfold tReady; (try simp only []); (repeat' split) <;> pair_subst <;> simp [*])

@[simp] theorem tFlush_gh (L : Option Nat) (g0 : Ghost) (s : St) : gh L g0 (tFlush s).1.obs = gh L g0 s.obs := by
  first | rfl | (unfold tFlush; (try simp only []); (repeat' split) <;> pair_subst <;> simp [*])

@[simp] theorem ensureLoop_gh (L : Option Nat) (g0 : Ghost) (fuel : Nat) (s : St) : gh L g0 (ensureLoop fuel s).1.obs = gh L g0 s.obs := by
  induction fuel generalizing s with
  | zero => simp [ensureLoop]
  | succ fuel ih =>
    unfold ensureLoop; (try simp only []); (repeat' split) <;> pair_subst <;> simp [*]

@[simp] theorem ensureOnce_gh (L : Option Nat) (g0 : Ghost) (s : St) : gh L g0 (ensureOnce s).1.obs = gh L g0 s.obs := by
  first | rfl | (unfold ensureOnce; (try simp only []); (repeat' split) <;> pair_subst <;> simp [*])

@[simp] theorem ensureWriteable_gh (L : Option Nat) (g0 : Ghost) (s : St) : gh L g0 (ensureWriteable s).1.obs = gh L g0 s.obs := by
  first | rfl | (unfold ensureWriteable; (try simp only []); (repeat' split) <;> pair_subst <;> simp [*])

@[simp] theorem rqRelease_ekeys (s : St) : (rqRelease s).execs.map ekey = s.execs.map ekey := by
  first | rfl | (unfold rqRelease; (try simp only []); (repeat' split) <;> pair_subst <;> simp [*])

@[simp] theorem rqRelease_gh (L : Option Nat) (g0 : Ghost) (s : St) : gh L g0 (rqRelease s).obs = gh L g0 s.obs := by
  first | rfl | (unfold rqRelease; (try simp only []); (repeat' split) <;> pair_subst <;> simp [*])

@[simp] theorem flushArm_gh (L : Option Nat) (g0 : Ghost) (s : St) (rc : Bool) : gh L g0 (flushArm s rc).1.obs = gh L g0 s.obs := by
  first | rfl | (unfold flushArm; (try simp only []); (repeat' split) <;> pair_subst <;> simp [*])

@[simp] theorem dropOffered_ekeys (s : St) (rid id : Nat) : (dropOffered s rid id).execs.map ekey = s.execs.map ekey := by
  first | rfl | (unfold dropOffered; (try simp only []); (repeat' split) <;> pair_subst <;> simp [*])

@[simp] theorem dropOffered_gh (L : Option Nat) (g0 : Ghost) (s : St) (rid id : Nat) : gh L g0 (dropOffered s rid id).obs = gh L g0 s.obs := by
  first | rfl | (unfold dropOffered; (try simp only []); (repeat' split) <;> pair_subst <;> simp [*])

@[simp] theorem guardDrop_gh (L : Option Nat) (g0 : Ghost) (s : St) (e : Exec) : gh L g0 (guardDrop s e).obs = gh L g0 s.obs := by
  first | rfl | (unfold guardDrop; (try simp only []); (repeat' split) <;> pair_subst <;> simp [*])

@[simp] theorem queueAndFinish_ekeys (s : St) (e : Exec) (res : Res) (now : Nat) : (queueAndFinish s e res now).execs.map ekey = s.execs.map ekey := by
  first | rfl | (unfold queueAndFinish; (try simp only []); (repeat' split) <;> pair_subst <;> simp [*])

@[simp] theorem queueAndFinish_gh (L : Option Nat) (g0 : Ghost) (s : St) (e : Exec) (res : Res) (now : Nat) : gh L g0 (queueAndFinish s e res now).obs = gh L g0 s.obs := by
  first | rfl | (unfold queueAndFinish; (try simp only []); (repeat' split) <;> pair_subst <;> simp [*])

@[simp] theorem trySend_ekeys (s : St) (e : Exec) (res : Res) (now : Nat) : (trySend s e res now).execs.map ekey = s.execs.map ekey := by
  first | rfl | (unfold trySend; (try simp only []); (repeat' split) <;> pair_subst <;> simp [*])

@[simp] theorem trySend_gh (L : Option Nat) (g0 : Ghost) (s : St) (e : Exec) (res : Res) (now : Nat) : gh L g0 (trySend s e res now).obs = gh L g0 s.obs := by
  first | rfl | (unfold trySend; (try simp only []); (repeat' split) <;> pair_subst <;> simp [*])

@[simp] theorem pollExec_ekeys (s : St) (vid now : Nat) : (pollExec s vid now).execs.map ekey = s.execs.map ekey := by
  first | rfl | (unfold pollExec; (try simp only []); (repeat' split) <;> pair_subst <;> simp [*])

@[simp] theorem pollExec_gh (L : Option Nat) (g0 : Ghost) (s : St) (vid now : Nat) : gh L g0 (pollExec s vid now).obs = gh L g0 s.obs := by
  first | rfl | (unfold pollExec; (try simp only []); (repeat' split) <;> pair_subst <;> simp [*])

@[simp] theorem dropExec_ekeys (s : St) (vid now : Nat) : (dropExec s vid now).execs.map ekey = s.execs.map ekey := by
  first | rfl | (unfold dropExec; (try simp only []); (repeat' split) <;> pair_subst <;> simp [*])

@[simp] theorem dropExec_gh (L : Option Nat) (g0 : Ghost) (s : St) (vid now : Nat) : gh L g0 (dropExec s vid now).obs = gh L g0 s.obs := by
  first | rfl | (unfold dropExec; (try simp only []); (repeat' split) <;> pair_subst <;> simp [*])

@[simp] theorem finishHandler_ekeys (s : St) (vid : Nat) (res : Res) : (finishHandler s vid res).execs.map ekey = s.execs.map ekey := by
  first | rfl | (unfold finishHandler; (try simp only []); (repeat' split) <;> pair_subst <;> simp [*])

@[simp] theorem finishHandler_gh (L : Option Nat) (g0 : Ghost) (s : St) (vid : Nat) (res : Res) : gh L g0 (finishHandler s vid res).obs = gh L g0 s.obs := by
  first | rfl | (unfold finishHandler; (try simp only []); (repeat' split) <;> pair_subst <;> simp [*])

@[simp] theorem liftT_gh (L : Option Nat) (g0 : Ghost) (s : St) (r : SimT × Bool) : gh L g0 (liftT s r).obs = gh L g0 s.obs := by
  first | rfl | (unfold liftT; (try simp only []); (repeat' split) <;> pair_subst <;> simp [*])

@[simp] theorem onAdvance_gh (L : Option Nat) (g0 : Ghost) (s : St) (now : Nat) : gh L g0 (onAdvance s now).obs = gh L g0 s.obs := by
  first | rfl | (unfold onAdvance; (try simp only []); (repeat' split) <;> pair_subst <;> simp [*])

/-! ### what `tSend` / `tNext` / `abortExec` do to the ghost and the keys -/

@[simp] theorem tSend_gh (L : Option Nat) (g0 : Ghost) (s : St) (m : Msg) :
    gh L g0 (tSend s m).1.obs = gstep L (gh L g0 s.obs) (.tSend (tid s) m (tSend s m).2) := by
  simp [tSend, tid]

theorem tNext_gh (L : Option Nat) (g0 : Ghost) (s : St) :
    gh L g0 (tNext s).1.obs =
      if s.readFused then gh L g0 s.obs else gstep L (gh L g0 s.obs) (.tNext (tid s) (tNext s).2) := by
  unfold tNext
  split
  · simp
  · simp only []; split <;> simp [tid]

theorem tNext_fused (s : St) (h : s.readFused = true) : tNext s = (s, .eof) := by simp [tNext, h]

/-- Reading never invents a request: with the read side fused the result is `eof`. -/
theorem tNext_item_not_fused (s : St) (m : Msg) (h : (tNext s).2 = .item m) : s.readFused = false := by
  cases hf : s.readFused with
  | false => rfl
  | true => rw [tNext_fused s hf] at h; cases h

theorem getExec_none_iff (s : St) (rid : Nat) : getExec s rid = none ↔ ∀ x ∈ s.execs, x.rid ≠ rid := by
  simp [getExec, List.find?_eq_none]

@[simp] theorem abortExec_ekeys (s : St) (rid : Nat) :
    (abortExec s rid).execs.map ekey = abortKeys rid (s.execs.map ekey) := by
  unfold abortExec
  split
  · rename_i h
    rw [getExec_none_iff] at h
    simp only [abortKeys, List.map_map]
    apply List.map_congr_left
    intro x hx
    have := h x hx
    simp [ekey, this]
  · have : ((updExec s rid (fun e => { e with aborted := true, abortWaker := false })).execs.map ekey)
        = abortKeys rid (s.execs.map ekey) := by
      simp only [updExec, abortKeys, List.map_map]
      apply List.map_congr_left
      intro x _
      simp only [Function.comp, ekey]
      split <;> simp_all
    split <;> simp [this]

@[simp] theorem abortExec_gh (L : Option Nat) (g0 : Ghost) (s : St) (rid : Nat) :
    gh L g0 (abortExec s rid).obs = gh L g0 s.obs := by
  unfold abortExec; (repeat' split) <;> simp

@[simp] theorem abortKeys_map_fst (rid : Nat) (l : List (Nat × Nat × Bool)) :
    (abortKeys rid l).map (·.1) = l.map (·.1) := by
  simp only [abortKeys, List.map_map]
  apply List.map_congr_left
  intro k _
  simp only [Function.comp]; split <;> rfl

@[simp] theorem abortKeys_length (rid : Nat) (l : List (Nat × Nat × Bool)) :
    (abortKeys rid l).length = l.length := by simp [abortKeys]

theorem mem_abortKeys_of_ne {rid : Nat} {l : List (Nat × Nat × Bool)} {k : Nat × Nat × Bool}
    (hk : k ∈ l) (hne : k.1 ≠ rid) : k ∈ abortKeys rid l := by
  simp only [abortKeys, List.mem_map]
  exact ⟨k, hk, by simp [hne]⟩

/-- after `abortExec rid` every key with that `rid` is flagged -/
theorem abortKeys_flagged {rid : Nat} {l : List (Nat × Nat × Bool)} {k : Nat × Nat × Bool}
    (hk : k ∈ abortKeys rid l) (hr : k.1 = rid) : k.2.2 = true := by
  simp only [abortKeys, List.mem_map] at hk
  obtain ⟨k0, _, rfl⟩ := hk
  split at hr
  · simp_all
  · rename_i h; simp_all

/-! ## list helpers -/

theorem eq_of_nodup_map {α β : Type} {f : α → β} {l : List α} (h : (l.map f).Nodup) {a b : α}
    (ha : a ∈ l) (hb : b ∈ l) (hab : f a = f b) : a = b := by
  induction l with
  | nil => cases ha
  | cons x l ih =>
    simp only [List.map_cons, List.nodup_cons, List.mem_map, not_exists, not_and] at h
    rcases List.mem_cons.mp ha with rfl | ha' <;> rcases List.mem_cons.mp hb with rfl | hb'
    · rfl
    · exact absurd hab.symm (h.1 b hb')
    · exact absurd hab (h.1 a ha')
    · exact ih h.2 ha' hb'

theorem perm_cons_filter_key {α : Type} (f : α → Nat) {l : List α} (hn : (l.map f).Nodup) {a : α}
    (ha : a ∈ l) : l.Perm (a :: l.filter (fun x => f x != f a)) := by
  induction l with
  | nil => cases ha
  | cons x l ih =>
    simp only [List.map_cons, List.nodup_cons, List.mem_map, not_exists, not_and] at hn
    rcases List.mem_cons.mp ha with rfl | ha'
    · have : l.filter (fun x => f x != f a) = l := by
        apply List.filter_eq_self.mpr
        intro b hb
        have := hn.1 b hb
        simp only [bne_iff_ne, ne_eq]; exact this
      simp [this]
    · have hne : f x ≠ f a := fun h => hn.1 a ha' h.symm
      have := ih hn.2 ha'
      simp only [List.filter_cons, bne_iff_ne, ne_eq, hne, not_false_eq_true, ↓reduceIte]
      exact (List.Perm.cons x this).trans (List.Perm.swap _ _ _)

theorem nodup_map_filter {α β : Type} (f : α → β) (p : α → Bool) {l : List α} (h : (l.map f).Nodup) :
    ((l.filter p).map f).Nodup :=
  List.Nodup.sublist ((List.filter_sublist).map f) h

/-! ## invariants -/

/-- the `(timer key, request id)` pair of a table entry -/
def SEntry.kv (e : SEntry) : Nat × Nat := (e.timerKey, e.id)

/-- **In-flight table well-formed**: ids pairwise distinct; the entries' `(timerKey, id)` pairs are
exactly the `(key, value)` pairs the `DelayQueue` holds; the queue's keys are distinct. -/
structure TableWF (s : St) : Prop where
  idNodup : (s.inflight.map (·.id)).Nodup
  perm : (s.inflight.map SEntry.kv).Perm s.timers.kv
  dq : s.timers.KvWF

/-- **Entries ↔ executions**: execution `i` has `rid = i`; every entry names an execution with the
same request id whose abort flag is clear; no two entries name the same execution. -/
structure ExecWF (s : St) : Prop where
  rids : (s.execs.map ekey).map (·.1) = List.range (s.execs.map ekey).length
  owner : ∀ e ∈ s.inflight, (e.rid, e.id, false) ∈ s.execs.map ekey
  ridNodup : (s.inflight.map (·.rid)).Nodup

/-- all ghost checks passed so far -/
structure GOk (g : Ghost) : Prop where
  orphan : g.okOrphan = true
  once : g.okOnce = true
  counts : g.okCounts = true
  limit : g.okLimit = true

/-- ghost coupling: every tracked id was read as a request and has not been answered since -/
structure Coupled (g : Ghost) (s : St) : Prop where
  read : ∀ e ∈ s.inflight, e.id ∈ g.reads
  unsent : ∀ e ∈ s.inflight, e.id ∉ g.sent

/-- the invariant that holds throughout a channel poll (`g0` = ghost at the start of the op) -/
structure Mid (L : Option Nat) (g0 : Ghost) (s : St) : Prop where
  table : TableWF s
  execs : ExecWF s
  coupled : Coupled (gh L g0 s.obs) s
  ok : GOk (gh L g0 s.obs)
  lim : s.limit = L

theorem TableWF.congr {s s' : St} (h : TableWF s) (h1 : s'.inflight = s.inflight) (h2 : s'.timers = s.timers) :
    TableWF s' :=
  ⟨by rw [h1]; exact h.idNodup, by rw [h1, h2]; exact h.perm, by rw [h2]; exact h.dq⟩

theorem ExecWF.congr {s s' : St} (h : ExecWF s) (h1 : s'.inflight = s.inflight)
    (h3 : s'.execs.map ekey = s.execs.map ekey) : ExecWF s' :=
  ⟨by rw [h3]; exact h.rids, by rw [h1, h3]; exact h.owner, by rw [h1]; exact h.ridNodup⟩

theorem TableWF.len_eq {s : St} (h : TableWF s) : s.timers.len = s.inflight.length := by
  rw [← DelayQ.kv_length, ← h.perm.length_eq]; simp

theorem TableWF.keyNodup {s : St} (h : TableWF s) : (s.inflight.map (·.timerKey)).Nodup := by
  have := ((h.perm.map (·.1)).nodup_iff).mpr h.dq.nodup
  simpa [List.map_map, Function.comp_def, SEntry.kv] using this

theorem findEntry_some {s : St} {id : Nat} {e : SEntry} (h : findEntry s id = some e) :
    e ∈ s.inflight ∧ e.id = id := by
  unfold findEntry at h
  exact ⟨List.mem_of_find?_eq_some h, by simpa using List.find?_some h⟩

theorem findEntry_none {s : St} {id : Nat} (h : findEntry s id = none) : ∀ e ∈ s.inflight, e.id ≠ id := by
  unfold findEntry at h
  simpa using h

theorem findEntry_of_mem {s : St} (h : TableWF s) {e : SEntry} (he : e ∈ s.inflight) :
    findEntry s e.id = some e := by
  cases hf : findEntry s e.id with
  | none => exact absurd rfl (findEntry_none hf e he)
  | some e' =>
    obtain ⟨h1, h2⟩ := findEntry_some hf
    rw [eq_of_nodup_map h.idNodup h1 he h2]

theorem ExecWF.rid_lt {s : St} (h : ExecWF s) {e : SEntry} (he : e ∈ s.inflight) : e.rid < s.execs.length := by
  have h1 := h.owner e he
  have : e.rid ∈ (s.execs.map ekey).map (·.1) := List.mem_map.mpr ⟨_, h1, rfl⟩
  rw [h.rids] at this
  simpa using this

/-- Invariant transfer along a step that leaves the relevant parts alone (the timer queue may
re-file its entries). -/
theorem Mid.of_frame {L g0} {s s' : St} (h : Mid L g0 s) (h1 : s'.inflight = s.inflight)
    (h2 : s'.timers.kv.Perm s.timers.kv) (h2' : s'.timers.nextKey = s.timers.nextKey)
    (h3 : s'.execs.map ekey = s.execs.map ekey) (h4 : gh L g0 s'.obs = gh L g0 s.obs)
    (h5 : s'.limit = s.limit) : Mid L g0 s' := by
  refine ⟨⟨?_, ?_, ⟨?_, ?_⟩⟩, ⟨?_, ?_, ?_⟩, ⟨?_, ?_⟩, ?_, ?_⟩
  · rw [h1]; exact h.table.idNodup
  · rw [h1]; exact h.table.perm.trans h2.symm
  · exact ((h2.map (·.1)).nodup_iff).mpr h.table.dq.nodup
  · intro p hp; rw [h2']; exact h.table.dq.lt p (h2.mem_iff.mp hp)
  · rw [h3]; exact h.execs.rids
  · rw [h1, h3]; exact h.execs.owner
  · rw [h1]; exact h.execs.ridNodup
  · rw [h1, h4]; exact h.coupled.read
  · rw [h1, h4]; exact h.coupled.unsent
  · rw [h4]; exact h.ok
  · rw [h5]; exact h.lim

/-- Removing one entry (together with its timer; optionally aborting its execution). -/
theorem Mid.remove_entry {L g0} {s s' : St} (h : Mid L g0 s) {e : SEntry} (he : e ∈ s.inflight)
    (hin : s'.inflight = s.inflight.filter (·.id != e.id))
    (hkv : s.timers.kv.Perm (e.kv :: s'.timers.kv))
    (hnk : s'.timers.nextKey = s.timers.nextKey)
    (hek : s'.execs.map ekey = s.execs.map ekey ∨ s'.execs.map ekey = abortKeys e.rid (s.execs.map ekey))
    (hg : gh L g0 s'.obs = gh L g0 s.obs) (hl : s'.limit = s.limit) : Mid L g0 s' := by
  have hsub : ∀ x ∈ s'.inflight, x ∈ s.inflight ∧ x.id ≠ e.id := by
    intro x hx; rw [hin] at hx
    have := List.mem_filter.mp hx
    exact ⟨this.1, by simpa using this.2⟩
  refine ⟨⟨?_, ?_, ⟨?_, ?_⟩⟩, ⟨?_, ?_, ?_⟩, ⟨?_, ?_⟩, ?_, ?_⟩
  · rw [hin]; exact nodup_map_filter _ _ h.table.idNodup
  · have h1 := perm_cons_filter_key (·.id) h.table.idNodup he
    have h2 := (h1.map SEntry.kv)
    rw [List.map_cons, ← hin] at h2
    exact List.Perm.cons_inv ((h2.symm.trans h.table.perm).trans hkv)
  · have := ((hkv.map (·.1)).nodup_iff).mp h.table.dq.nodup
    simp only [List.map_cons, List.nodup_cons] at this
    exact this.2
  · intro p hp
    rw [hnk]
    exact h.table.dq.lt p (hkv.mem_iff.mpr (List.mem_cons_of_mem _ hp))
  · rcases hek with hek | hek <;> rw [hek]
    · exact h.execs.rids
    · simpa using h.execs.rids
  · intro x hx
    obtain ⟨hx1, hx2⟩ := hsub x hx
    rcases hek with hek | hek <;> rw [hek]
    · exact h.execs.owner x hx1
    · apply mem_abortKeys_of_ne (h.execs.owner x hx1)
      intro hr
      exact hx2 (congrArg SEntry.id (eq_of_nodup_map h.execs.ridNodup hx1 he hr))
  · rw [hin]; exact nodup_map_filter _ _ h.execs.ridNodup
  · intro x hx; rw [hg]; exact h.coupled.read x (hsub x hx).1
  · intro x hx; rw [hg]; exact h.coupled.unsent x (hsub x hx).1
  · rw [hg]; exact h.ok
  · rw [hl]; exact h.lim

/-- Inserting a fresh entry with a fresh timer key and a fresh execution. -/
theorem Mid.insert_entry {L g0} {s s' : St} (h : Mid L g0 s) {id key rem due : Nat}
    (hfresh : ∀ e ∈ s.inflight, e.id ≠ id)
    (hin : s'.inflight = s.inflight ++ [{ id := id, timerKey := key, rid := s.execs.length, remainder := rem, dueAt := due }])
    (hkv : s'.timers.kv.Perm ((key, id) :: s.timers.kv)) (hwf : s'.timers.KvWF)
    (hek : s'.execs.map ekey = s.execs.map ekey ++ [(s.execs.length, id, false)])
    (hg : gh L g0 s'.obs = gh L g0 s.obs)
    (hr : id ∈ (gh L g0 s.obs).reads) (hs : id ∉ (gh L g0 s.obs).sent)
    (hl : s'.limit = s.limit) : Mid L g0 s' := by
  refine ⟨⟨?_, ?_, hwf⟩, ⟨?_, ?_, ?_⟩, ⟨?_, ?_⟩, ?_, ?_⟩
  · rw [hin, List.map_append, List.nodup_append]
    refine ⟨h.table.idNodup, by simp, ?_⟩
    intro a ha b hb
    simp only [List.map_cons, List.map_nil, List.mem_singleton] at hb
    obtain ⟨x, hx, rfl⟩ := List.mem_map.mp ha
    rw [hb]; exact hfresh x hx
  · rw [hin, List.map_append]
    simp only [List.map_cons, List.map_nil, SEntry.kv]
    exact ((List.perm_append_comm).trans (List.Perm.cons _ h.table.perm)).trans hkv.symm
  · rw [hek, List.map_append, h.execs.rids]
    simp [List.range_succ]
  · intro x hx
    rw [hin] at hx; rw [hek]
    rcases List.mem_append.mp hx with hx | hx
    · exact List.mem_append_left _ (h.execs.owner x hx)
    · simp only [List.mem_singleton] at hx; subst hx
      exact List.mem_append_right _ (by simp)
  · rw [hin, List.map_append, List.nodup_append]
    refine ⟨h.execs.ridNodup, by simp, ?_⟩
    intro a ha b hb
    simp only [List.map_cons, List.map_nil, List.mem_singleton] at hb
    obtain ⟨x, hx, rfl⟩ := List.mem_map.mp ha
    have := h.execs.rid_lt hx
    omega
  · intro x hx; rw [hg]; rw [hin] at hx
    rcases List.mem_append.mp hx with hx | hx
    · exact h.coupled.read x hx
    · simp only [List.mem_singleton] at hx; subst hx; exact hr
  · intro x hx; rw [hg]; rw [hin] at hx
    rcases List.mem_append.mp hx with hx | hx
    · exact h.coupled.unsent x hx
    · simp only [List.mem_singleton] at hx; subst hx; exact hs
  · rw [hg]; exact h.ok
  · rw [hl]; exact h.lim

/-! ### frame lemmas of the table operations (generated) -/
@[simp] theorem removeTimer_sidx (s : St) (key : Nat) : (removeTimer s key).sidx = s.sidx := by
  unfold removeTimer; (try simp only []); (repeat' split) <;> pair_subst <;> simp [*]

@[simp] theorem removeTimer_inflight (s : St) (key : Nat) : (removeTimer s key).inflight = s.inflight := by
  unfold removeTimer; (try simp only []); (repeat' split) <;> pair_subst <;> simp [*]

@[simp] theorem removeTimer_limit (s : St) (key : Nat) : (removeTimer s key).limit = s.limit := by
  unfold removeTimer; (try simp only []); (repeat' split) <;> pair_subst <;> simp [*]

@[simp] theorem removeTimer_throttleAfterRead (s : St) (key : Nat) : (removeTimer s key).throttleAfterRead = s.throttleAfterRead := by
  unfold removeTimer; (try simp only []); (repeat' split) <;> pair_subst <;> simp [*]

@[simp] theorem removeTimer_dropped (s : St) (key : Nat) : (removeTimer s key).dropped = s.dropped := by
  unfold removeTimer; (try simp only []); (repeat' split) <;> pair_subst <;> simp [*]

@[simp] theorem removeTimer_done (s : St) (key : Nat) : (removeTimer s key).done = s.done := by
  unfold removeTimer; (try simp only []); (repeat' split) <;> pair_subst <;> simp [*]

@[simp] theorem removeTimer_respQ (s : St) (key : Nat) : (removeTimer s key).respQ = s.respQ := by
  unfold removeTimer; (try simp only []); (repeat' split) <;> pair_subst <;> simp [*]

@[simp] theorem removeTimer_cancelQ (s : St) (key : Nat) : (removeTimer s key).cancelQ = s.cancelQ := by
  unfold removeTimer; (try simp only []); (repeat' split) <;> pair_subst <;> simp [*]

@[simp] theorem removeTimer_execs (s : St) (key : Nat) : (removeTimer s key).execs = s.execs := by
  unfold removeTimer; (try simp only []); (repeat' split) <;> pair_subst <;> simp [*]

@[simp] theorem removeRequest_sidx (s : St) (id : Nat) : (removeRequest s id).1.sidx = s.sidx := by
  unfold removeRequest; (try simp only []); (repeat' split) <;> pair_subst <;> simp [*]

@[simp] theorem removeRequest_limit (s : St) (id : Nat) : (removeRequest s id).1.limit = s.limit := by
  unfold removeRequest; (try simp only []); (repeat' split) <;> pair_subst <;> simp [*]

@[simp] theorem removeRequest_throttleAfterRead (s : St) (id : Nat) : (removeRequest s id).1.throttleAfterRead = s.throttleAfterRead := by
  unfold removeRequest; (try simp only []); (repeat' split) <;> pair_subst <;> simp [*]

@[simp] theorem removeRequest_dropped (s : St) (id : Nat) : (removeRequest s id).1.dropped = s.dropped := by
  unfold removeRequest; (try simp only []); (repeat' split) <;> pair_subst <;> simp [*]

@[simp] theorem removeRequest_done (s : St) (id : Nat) : (removeRequest s id).1.done = s.done := by
  unfold removeRequest; (try simp only []); (repeat' split) <;> pair_subst <;> simp [*]

@[simp] theorem removeRequest_respQ (s : St) (id : Nat) : (removeRequest s id).1.respQ = s.respQ := by
  unfold removeRequest; (try simp only []); (repeat' split) <;> pair_subst <;> simp [*]

@[simp] theorem removeRequest_cancelQ (s : St) (id : Nat) : (removeRequest s id).1.cancelQ = s.cancelQ := by
  unfold removeRequest; (try simp only []); (repeat' split) <;> pair_subst <;> simp [*]

@[simp] theorem removeRequest_execs (s : St) (id : Nat) : (removeRequest s id).1.execs = s.execs := by
  unfold removeRequest; (try simp only []); (repeat' split) <;> pair_subst <;> simp [*]

@[simp] theorem cancelRequest_sidx (s : St) (id : Nat) : (cancelRequest s id).1.sidx = s.sidx := by
  unfold cancelRequest; (try simp only []); (repeat' split) <;> pair_subst <;> simp [*]

@[simp] theorem cancelRequest_limit (s : St) (id : Nat) : (cancelRequest s id).1.limit = s.limit := by
  unfold cancelRequest; (try simp only []); (repeat' split) <;> pair_subst <;> simp [*]

@[simp] theorem cancelRequest_throttleAfterRead (s : St) (id : Nat) : (cancelRequest s id).1.throttleAfterRead = s.throttleAfterRead := by
  unfold cancelRequest; (try simp only []); (repeat' split) <;> pair_subst <;> simp [*]

@[simp] theorem cancelRequest_dropped (s : St) (id : Nat) : (cancelRequest s id).1.dropped = s.dropped := by
  unfold cancelRequest; (try simp only []); (repeat' split) <;> pair_subst <;> simp [*]

@[simp] theorem cancelRequest_done (s : St) (id : Nat) : (cancelRequest s id).1.done = s.done := by
  unfold cancelRequest; (try simp only []); (repeat' split) <;> pair_subst <;> simp [*]

@[simp] theorem cancelRequest_respQ (s : St) (id : Nat) : (cancelRequest s id).1.respQ = s.respQ := by
  unfold cancelRequest; (try simp only []); (repeat' split) <;> pair_subst <;> simp [*]

@[simp] theorem cancelRequest_cancelQ (s : St) (id : Nat) : (cancelRequest s id).1.cancelQ = s.cancelQ := by
  unfold cancelRequest; (try simp only []); (repeat' split) <;> pair_subst <;> simp [*]

/-- what `poll_expired` keeps -/
structure ExpKeep (s s' : St) : Prop where
  sidx : s'.sidx = s.sidx
  limit : s'.limit = s.limit
  throttleAfterRead : s'.throttleAfterRead = s.throttleAfterRead
  dropped : s'.dropped = s.dropped
  done : s'.done = s.done
  respQ : s'.respQ = s.respQ
  cancelQ : s'.cancelQ = s.cancelQ
  execsLen : s'.execs.length = s.execs.length
  inflightLen : s'.inflight.length ≤ s.inflight.length

theorem ExpKeep.refl (s : St) : ExpKeep s s := by constructor <;> first | rfl | exact Nat.le_refl _

theorem ExpKeep.trans {a b c : St} (h1 : ExpKeep a b) (h2 : ExpKeep b c) : ExpKeep a c :=
  ⟨h2.sidx.trans h1.sidx, h2.limit.trans h1.limit, h2.throttleAfterRead.trans h1.throttleAfterRead,
    h2.dropped.trans h1.dropped, h2.done.trans h1.done, h2.respQ.trans h1.respQ, h2.cancelQ.trans h1.cancelQ,
    h2.execsLen.trans h1.execsLen, Nat.le_trans h2.inflightLen h1.inflightLen⟩

theorem abortExec_execs_length' (s : St) (rid : Nat) : (abortExec s rid).execs.length = s.execs.length := by
  have := congrArg List.length (abortExec_ekeys s rid)
  simp only [abortKeys, List.length_map] at this
  exact this

theorem expireStep_keep (s : St) (now : Nat) : ExpKeep s (expireStep s now).1 := by
  have h := expireStep_shape s now
  revert h; generalize expireStep s now = p; intro h
  obtain ⟨s', r⟩ := p
  dsimp only at h ⊢
  cases h with
  | idleNone q hp => constructor <;> first | rfl | exact Nat.le_refl _
  | idlePending q hp => constructor <;> first | rfl | exact Nat.le_refl _
  | orphan q e hp hf => constructor <;> first | rfl | exact Nat.le_refl _
  | abort q e en hp hf h0 =>
    constructor <;> (try simp)
    · exact abortExec_execs_length' _ _
    · exact List.length_filter_le _ _
  | rearmed q e en s2 hp hf h0 hr =>
    have hfr := rearm_frame hr
    obtain ⟨q', key, w, _, rfl⟩ := rearm_some hr
    exact ⟨hfr.sidx, hfr.limit, hfr.throttleAfterRead, hfr.dropped, hfr.done, hfr.respQ, hfr.cancelQ,
      by rw [hfr.execs], by simp⟩
  | panicked q e en hp hf h0 hr => constructor <;> simp

theorem pollExpired_keep (s : St) (now : Nat) : ExpKeep s (pollExpired s now).1 :=
  pollExpired_rel now ExpKeep.refl (fun _ _ _ => ExpKeep.trans)
    (fun s => by constructor <;> simp) (fun s => expireStep_keep s now) s

@[simp] theorem pollExpired_sidx (s : St) (now : Nat) : (pollExpired s now).1.sidx = s.sidx :=
  (pollExpired_keep s now).sidx

@[simp] theorem pollExpired_limit (s : St) (now : Nat) : (pollExpired s now).1.limit = s.limit :=
  (pollExpired_keep s now).limit

@[simp] theorem pollExpired_throttleAfterRead (s : St) (now : Nat) : (pollExpired s now).1.throttleAfterRead = s.throttleAfterRead :=
  (pollExpired_keep s now).throttleAfterRead

@[simp] theorem pollExpired_dropped (s : St) (now : Nat) : (pollExpired s now).1.dropped = s.dropped :=
  (pollExpired_keep s now).dropped

@[simp] theorem pollExpired_done (s : St) (now : Nat) : (pollExpired s now).1.done = s.done :=
  (pollExpired_keep s now).done

@[simp] theorem pollExpired_respQ (s : St) (now : Nat) : (pollExpired s now).1.respQ = s.respQ :=
  (pollExpired_keep s now).respQ

@[simp] theorem pollExpired_cancelQ (s : St) (now : Nat) : (pollExpired s now).1.cancelQ = s.cancelQ :=
  (pollExpired_keep s now).cancelQ

/-- the execution `startRequest` creates -/
def newExec (s : St) (id d : Nat) (tr : Trace) (b : Nat) : Exec :=
  { rid := s.execs.length, id := id, deadline := d, trace := { tr with span := .fresh s.nextFresh }, body := b,
    guardArmed := false }

/-- `startRequest`'s state after the timer queue's self-wake (`w`: an insert that becomes the earliest
deadline wakes the waker the queue stored at its last `poll_expired`): only `woken` and `obs` change -/
def startWoke (s : St) (w : Bool) : St := if w then wakeServer s else s

/-- the three outcomes of `startRequest`: duplicate id, invalid deadline (panic), accepted.
(The result of `DelayQ.insert` is named, not projected out of the call, so that no term the kernel has
to reduce contains the call itself.) -/
theorem startRequest_cases (s : St) (now id d : Nat) (tr : Trace) (b : Nat) :
    ((findEntry s id).isSome = true ∧ startRequest s now id d tr b = (s, none))
    ∨ (findEntry s id = none ∧ (s.timers.insert now (clampTimeout (d - now)) id).2.1 = .panic ∧
        startRequest s now id d tr b =
          (emit { s with poisoned := true } (.panic (tid s) "DelayQueue::insert: invalid deadline"), none))
    ∨ (findEntry s id = none ∧ ∃ q key w, s.timers.insert now (clampTimeout (d - now)) id = (q, .ok key, w) ∧
        startRequest s now id d tr b =
          ({ startWoke s w with
                    timers := q, nextFresh := s.nextFresh + 1,
                    inflight := s.inflight ++ [{ id := id, timerKey := key, rid := s.execs.length,
                                                 remainder := (d - now) - clampTimeout (d - now),
                                                 dueAt := now + clampTimeout (d - now) }],
                    execs := s.execs ++ [newExec s id d tr b] }, some (newExec s id d tr b))) := by
  unfold startRequest
  split
  · left; exact ⟨by assumption, rfl⟩
  · rename_i hf
    have hf' : findEntry s id = none := by
      cases h : findEntry s id <;> simp_all
    right
    split
    · left; pair_subst; exact ⟨hf', by assumption, rfl⟩
    · right
      rename_i q key woke hins
      refine ⟨hf', q, key, woke, hins, ?_⟩
      unfold startWoke
      cases woke
      · rfl
      · simp only [if_true]
        unfold wakeServer newExec
        split <;> rfl

@[simp] theorem startWoke_sidx (s : St) (w : Bool) : (startWoke s w).sidx = s.sidx := by
  unfold startWoke wakeServer; (repeat' split) <;> rfl

@[simp] theorem startWoke_inflight (s : St) (w : Bool) : (startWoke s w).inflight = s.inflight := by
  unfold startWoke wakeServer; (repeat' split) <;> rfl

@[simp] theorem startWoke_timers (s : St) (w : Bool) : (startWoke s w).timers = s.timers := by
  unfold startWoke wakeServer; (repeat' split) <;> rfl

@[simp] theorem startWoke_poisoned (s : St) (w : Bool) : (startWoke s w).poisoned = s.poisoned := by
  unfold startWoke wakeServer; (repeat' split) <;> rfl

@[simp] theorem startWoke_limit (s : St) (w : Bool) : (startWoke s w).limit = s.limit := by
  unfold startWoke wakeServer; (repeat' split) <;> rfl

@[simp] theorem startWoke_throttleAfterRead (s : St) (w : Bool) : (startWoke s w).throttleAfterRead = s.throttleAfterRead := by
  unfold startWoke wakeServer; (repeat' split) <;> rfl

@[simp] theorem startWoke_dropped (s : St) (w : Bool) : (startWoke s w).dropped = s.dropped := by
  unfold startWoke wakeServer; (repeat' split) <;> rfl

@[simp] theorem startWoke_done (s : St) (w : Bool) : (startWoke s w).done = s.done := by
  unfold startWoke wakeServer; (repeat' split) <;> rfl

@[simp] theorem startWoke_respQ (s : St) (w : Bool) : (startWoke s w).respQ = s.respQ := by
  unfold startWoke wakeServer; (repeat' split) <;> rfl

@[simp] theorem startWoke_cancelQ (s : St) (w : Bool) : (startWoke s w).cancelQ = s.cancelQ := by
  unfold startWoke wakeServer; (repeat' split) <;> rfl

@[simp] theorem startWoke_execs (s : St) (w : Bool) : (startWoke s w).execs = s.execs := by
  unfold startWoke wakeServer; (repeat' split) <;> rfl

@[simp] theorem startWoke_nextFresh (s : St) (w : Bool) : (startWoke s w).nextFresh = s.nextFresh := by
  unfold startWoke wakeServer; (repeat' split) <;> rfl

@[simp] theorem startWoke_nextVis (s : St) (w : Bool) : (startWoke s w).nextVis = s.nextVis := by
  unfold startWoke wakeServer; (repeat' split) <;> rfl

@[simp] theorem startWoke_cancelRxWaker (s : St) (w : Bool) : (startWoke s w).cancelRxWaker = s.cancelRxWaker := by
  unfold startWoke wakeServer; (repeat' split) <;> rfl

@[simp] theorem startWoke_rqAvail (s : St) (w : Bool) : (startWoke s w).rqAvail = s.rqAvail := by
  unfold startWoke wakeServer; (repeat' split) <;> rfl

@[simp] theorem startWoke_rqWaiters (s : St) (w : Bool) : (startWoke s w).rqWaiters = s.rqWaiters := by
  unfold startWoke wakeServer; (repeat' split) <;> rfl

@[simp] theorem startWoke_rqAssigned (s : St) (w : Bool) : (startWoke s w).rqAssigned = s.rqAssigned := by
  unfold startWoke wakeServer; (repeat' split) <;> rfl

@[simp] theorem startWoke_rqRxWaker (s : St) (w : Bool) : (startWoke s w).rqRxWaker = s.rqRxWaker := by
  unfold startWoke wakeServer; (repeat' split) <;> rfl

@[simp] theorem startWoke_readFused (s : St) (w : Bool) : (startWoke s w).readFused = s.readFused := by
  unfold startWoke wakeServer; (repeat' split) <;> rfl

@[simp] theorem startWoke_t (s : St) (w : Bool) : (startWoke s w).t = s.t := by
  unfold startWoke wakeServer; (repeat' split) <;> rfl

@[simp] theorem startWoke_respCap (s : St) (w : Bool) : (startWoke s w).respCap = s.respCap := by
  unfold startWoke wakeServer; (repeat' split) <;> rfl

@[simp] theorem startWoke_ensureLoop (s : St) (w : Bool) : (startWoke s w).ensureLoop = s.ensureLoop := by
  unfold startWoke wakeServer; (repeat' split) <;> rfl

@[simp] theorem startWoke_gh (L : Option Nat) (g0 : Ghost) (s : St) (w : Bool) :
    gh L g0 (startWoke s w).obs = gh L g0 s.obs := by
  unfold startWoke; split <;> simp

@[simp] theorem startRequest_sidx (s : St) (now id d : Nat) (tr : Trace) (b : Nat) : (startRequest s now id d tr b).1.sidx = s.sidx := by
  rcases startRequest_cases s now id d tr b with ⟨_, h⟩ | ⟨_, _, h⟩ | ⟨_, _, _, _, _, h⟩ <;> simp [h]

@[simp] theorem startRequest_limit (s : St) (now id d : Nat) (tr : Trace) (b : Nat) : (startRequest s now id d tr b).1.limit = s.limit := by
  rcases startRequest_cases s now id d tr b with ⟨_, h⟩ | ⟨_, _, h⟩ | ⟨_, _, _, _, _, h⟩ <;> simp [h]

@[simp] theorem startRequest_throttleAfterRead (s : St) (now id d : Nat) (tr : Trace) (b : Nat) : (startRequest s now id d tr b).1.throttleAfterRead = s.throttleAfterRead := by
  rcases startRequest_cases s now id d tr b with ⟨_, h⟩ | ⟨_, _, h⟩ | ⟨_, _, _, _, _, h⟩ <;> simp [h]

@[simp] theorem startRequest_dropped (s : St) (now id d : Nat) (tr : Trace) (b : Nat) : (startRequest s now id d tr b).1.dropped = s.dropped := by
  rcases startRequest_cases s now id d tr b with ⟨_, h⟩ | ⟨_, _, h⟩ | ⟨_, _, _, _, _, h⟩ <;> simp [h]

@[simp] theorem startRequest_done (s : St) (now id d : Nat) (tr : Trace) (b : Nat) : (startRequest s now id d tr b).1.done = s.done := by
  rcases startRequest_cases s now id d tr b with ⟨_, h⟩ | ⟨_, _, h⟩ | ⟨_, _, _, _, _, h⟩ <;> simp [h]

@[simp] theorem startRequest_respQ (s : St) (now id d : Nat) (tr : Trace) (b : Nat) : (startRequest s now id d tr b).1.respQ = s.respQ := by
  rcases startRequest_cases s now id d tr b with ⟨_, h⟩ | ⟨_, _, h⟩ | ⟨_, _, _, _, _, h⟩ <;> simp [h]

@[simp] theorem startRequest_cancelQ (s : St) (now id d : Nat) (tr : Trace) (b : Nat) : (startRequest s now id d tr b).1.cancelQ = s.cancelQ := by
  rcases startRequest_cases s now id d tr b with ⟨_, h⟩ | ⟨_, _, h⟩ | ⟨_, _, _, _, _, h⟩ <;> simp [h]

@[simp] theorem baseStartSend_sidx (s : St) (id : Nat) (res : Res) : (baseStartSend s id res).1.sidx = s.sidx := by
  unfold baseStartSend; (try simp only []); (repeat' split) <;> pair_subst <;> simp [*]

@[simp] theorem baseStartSend_limit (s : St) (id : Nat) (res : Res) : (baseStartSend s id res).1.limit = s.limit := by
  unfold baseStartSend; (try simp only []); (repeat' split) <;> pair_subst <;> simp [*]

@[simp] theorem baseStartSend_throttleAfterRead (s : St) (id : Nat) (res : Res) : (baseStartSend s id res).1.throttleAfterRead = s.throttleAfterRead := by
  unfold baseStartSend; (try simp only []); (repeat' split) <;> pair_subst <;> simp [*]

@[simp] theorem baseStartSend_dropped (s : St) (id : Nat) (res : Res) : (baseStartSend s id res).1.dropped = s.dropped := by
  unfold baseStartSend; (try simp only []); (repeat' split) <;> pair_subst <;> simp [*]

@[simp] theorem baseStartSend_done (s : St) (id : Nat) (res : Res) : (baseStartSend s id res).1.done = s.done := by
  unfold baseStartSend; (try simp only []); (repeat' split) <;> pair_subst <;> simp [*]

@[simp] theorem baseStartSend_respQ (s : St) (id : Nat) (res : Res) : (baseStartSend s id res).1.respQ = s.respQ := by
  unfold baseStartSend; (try simp only []); (repeat' split) <;> pair_subst <;> simp [*]

@[simp] theorem baseStartSend_cancelQ (s : St) (id : Nat) (res : Res) : (baseStartSend s id res).1.cancelQ = s.cancelQ := by
  unfold baseStartSend; (try simp only []); (repeat' split) <;> pair_subst <;> simp [*]

@[simp] theorem baseStartSend_execs (s : St) (id : Nat) (res : Res) : (baseStartSend s id res).1.execs = s.execs := by
  unfold baseStartSend; (try simp only []); (repeat' split) <;> pair_subst <;> simp [*]

@[simp] theorem removeTimer_gh (L : Option Nat) (g0 : Ghost) (s : St) (key : Nat) : gh L g0 (removeTimer s key).obs = gh L g0 s.obs := by
  unfold removeTimer; (try simp only []); (repeat' split) <;> pair_subst <;> simp [*]

@[simp] theorem removeRequest_gh (L : Option Nat) (g0 : Ghost) (s : St) (id : Nat) : gh L g0 (removeRequest s id).1.obs = gh L g0 s.obs := by
  unfold removeRequest; (try simp only []); (repeat' split) <;> pair_subst <;> simp [*]

@[simp] theorem cancelRequest_gh (L : Option Nat) (g0 : Ghost) (s : St) (id : Nat) : gh L g0 (cancelRequest s id).1.obs = gh L g0 s.obs := by
  unfold cancelRequest; (try simp only []); (repeat' split) <;> pair_subst <;> simp [*]

theorem rearm_gh (L : Option Nat) (g0 : Ghost) {s s2 : St} {now : Nat} {en : SEntry} (hr : rearm s now en = some s2) :
    gh L g0 s2.obs = gh L g0 s.obs := by
  obtain ⟨q', key, w, _, rfl⟩ := rearm_some hr
  cases w <;> simp

@[simp] theorem pollExpired_gh (L : Option Nat) (g0 : Ghost) (s : St) (now : Nat) : gh L g0 (pollExpired s now).1.obs = gh L g0 s.obs := by
  refine pollExpired_ind (P := fun s' => gh L g0 s'.obs = gh L g0 s.obs) now (fun s1 h => ?_) (fun s1 h => ?_) s rfl
  · simpa using h
  · rw [← h]
    have hs := expireStep_shape s1 now
    revert hs; generalize expireStep s1 now = p; intro hs
    obtain ⟨s', r⟩ := p
    dsimp only at hs ⊢
    cases hs with
    | idleNone q hp => rfl
    | idlePending q hp => rfl
    | orphan q e hp hf => rfl
    | abort q e en hp hf h0 => simp
    | rearmed q e en s2 hp hf h0 hr => exact rearm_gh L g0 (s := { s1 with timers := q }) hr
    | panicked q e en hp hf h0 hr => simp

@[simp] theorem startRequest_gh (L : Option Nat) (g0 : Ghost) (s : St) (now id d : Nat) (tr : Trace) (b : Nat) : gh L g0 (startRequest s now id d tr b).1.obs = gh L g0 s.obs := by
  rcases startRequest_cases s now id d tr b with ⟨_, h⟩ | ⟨_, _, h⟩ | ⟨_, _, _, _, _, h⟩ <;> simp [h]

/-! ## walking the poll functions once: relations closed under the primitive steps -/

/-- A step that leaves alone everything the invariants look at (it may emit observations the ghost
ignores, touch wakers, queues, the transport, fields of executions other than `rid`/`id`/`aborted`). -/
structure Quiet (s s' : St) : Prop where
  inflight : s'.inflight = s.inflight
  timers : s'.timers = s.timers
  ekeys : s'.execs.map ekey = s.execs.map ekey
  gh : ∀ L g0, gh L g0 s'.obs = gh L g0 s.obs
  limit : s'.limit = s.limit
  tar : s'.throttleAfterRead = s.throttleAfterRead
  poisoned : s'.poisoned = s.poisoned

theorem Quiet.refl (s : St) : Quiet s s := ⟨rfl, rfl, rfl, fun _ _ => rfl, rfl, rfl, rfl⟩

theorem Quiet.trans {a b c : St} (h1 : Quiet a b) (h2 : Quiet b c) : Quiet a c :=
  ⟨h2.inflight.trans h1.inflight, h2.timers.trans h1.timers, h2.ekeys.trans h1.ekeys,
   fun L g0 => (h2.gh L g0).trans (h1.gh L g0), h2.limit.trans h1.limit, h2.tar.trans h1.tar,
   h2.poisoned.trans h1.poisoned⟩

/-- closes `Quiet s (f s)` goals for functions with `@[simp]` frame lemmas -/
macro "quiet_tac" : tactic =>
  `(tactic| (constructor <;> (try intros) <;> first | rfl | simp))

theorem quiet_emit_spin (s : St) (t : TaskId) : Quiet s (emit s (.spin t)) := by quiet_tac
theorem quiet_tReady (s : St) : Quiet s (tReady s).1 := by quiet_tac
theorem quiet_tFlush (s : St) : Quiet s (tFlush s).1 := by quiet_tac
theorem quiet_ensureWriteable (s : St) : Quiet s (ensureWriteable s).1 := by quiet_tac
theorem quiet_flushArm (s : St) (rc : Bool) : Quiet s (flushArm s rc).1 := by quiet_tac
theorem quiet_rqRelease (s : St) : Quiet s (rqRelease s) := by quiet_tac
theorem quiet_dropOffered (s : St) (rid id : Nat) : Quiet s (dropOffered s rid id) := by quiet_tac
@[simp] theorem markThrottled_eq (s : St) (rid : Nat) :
    limitedPollNextLegacy.markThrottled s rid = updExec s rid (fun e => { e with phase := .gone, woken := false }) := rfl

theorem quiet_markThrottled (s : St) (rid : Nat) : Quiet s (limitedPollNextLegacy.markThrottled s rid) := by quiet_tac
theorem quiet_pollExec (s : St) (vid now : Nat) : Quiet s (pollExec s vid now) := by quiet_tac
theorem quiet_dropExec (s : St) (vid now : Nat) : Quiet s (dropExec s vid now) := by quiet_tac
theorem quiet_finishHandler (s : St) (vid : Nat) (res : Res) : Quiet s (finishHandler s vid res) := by quiet_tac
theorem quiet_liftT (s : St) (r : SimT × Bool) : Quiet s (liftT s r) := by quiet_tac

/-- reflexive, transitive, contains the quiet steps -/
structure PreRel (R : St → St → Prop) : Prop where
  refl : ∀ s, R s s
  trans : ∀ {a b c}, R a b → R b c → R a c
  quiet : ∀ {s s'}, Quiet s s' → R s s'

/-- Relations closed under the steps of the write pump. -/
structure WriteRel (R : St → St → Prop) : Prop extends PreRel R where
  baseStartSend : ∀ s id res, R s (baseStartSend s id res).1

/-- Relations closed under the steps of `BaseChannel::poll_next`.  Reading a request and starting it
are one step (`readStart`) because the ghost coupling needs to know that the id was just read. -/
structure BaseRel (R : St → St → Prop) : Prop extends PreRel R where
  removeRequest : ∀ s id, R s (removeRequest s id).1
  cancelRequest : ∀ s id, R s (cancelRequest s id).1
  pollExpired : ∀ s now, R s (pollExpired s now).1
  tNext : ∀ s, R s (tNext s).1
  readStart : ∀ s now id d tr b, (Server.tNext s).2 = .item (.request id d tr b) →
    R s (startRequest (Server.tNext s).1 now id d tr b).1

/-- Relations closed under all steps of a channel poll. -/
structure PollRel (R : St → St → Prop) : Prop extends BaseRel R where
  baseStartSend : ∀ s id res, R s (baseStartSend s id res).1

theorem PollRel.toWriteRel {R} (h : PollRel R) : WriteRel R := ⟨h.toPreRel, h.baseStartSend⟩

/-! ### unfolding equations with named intermediate steps -/

/-- first arm of `BaseChannel::poll_next`: one queued guard cancellation -/
def baseCancelStep (s : St) : St × RStatus :=
  match s.cancelQ with
  | id :: rest => ((removeRequest { s with cancelQ := rest } id).1, RStatus.ready)
  | [] => ({ s with cancelRxWaker := true }, RStatus.closed)

def estOf : ExpRes → RStatus
  | .ready => .ready | .closed => .closed | .pending => .pending

/-- third arm: the transport read and what follows -/
def baseReadStep (fuel : Nat) (s : St) (now : Nat) (cst est : RStatus) : St × SPoll Exec :=
  match tNext s with
  | (s, .err) => (s, .err .read)
  | (s, .item (.request id d tr b)) =>
      match startRequest s now id d tr b with
      | (s, some ex) => (s, .some ex)
      | (s, none) => if s.poisoned then (s, .spin) else basePollNext fuel s now
  | (s, nx) =>
      let (s, rst) := match nx with
        | .item (.cancel id _) => ((cancelRequest s id).1, RStatus.ready)
        | .item _ => (s, RStatus.ready)
        | .eof => (s, RStatus.closed)
        | _ => (s, RStatus.pending)
      if s.poisoned then (s, .spin) else
      match combine (combine cst est) rst with
      | .ready => basePollNext fuel s now
      | .closed => (s, .none)
      | .pending => (s, .pending)

theorem basePollNext_zero (s : St) (now : Nat) : basePollNext 0 s now = (emit s (.spin (tid s)), .spin) := rfl

theorem basePollNext_succ (fuel : Nat) (s : St) (now : Nat) :
    basePollNext (fuel + 1) s now =
      if (pollExpired (baseCancelStep s).1 now).1.poisoned then ((pollExpired (baseCancelStep s).1 now).1, .spin)
      else baseReadStep fuel (pollExpired (baseCancelStep s).1 now).1 now (baseCancelStep s).2
            (estOf (pollExpired (baseCancelStep s).1 now).2) := by
  rw [basePollNext]
  rfl

theorem rel_baseCancelStep {R} (h : BaseRel R) (s : St) : R s (baseCancelStep s).1 := by
  unfold baseCancelStep
  split
  · exact h.trans (h.quiet (by quiet_tac)) (h.removeRequest _ _)
  · exact h.quiet (by quiet_tac)

theorem rel_basePollNext {R} (h : BaseRel R) (fuel : Nat) (s : St) (now : Nat) :
    R s (basePollNext fuel s now).1 := by
  induction fuel generalizing s with
  | zero => exact h.quiet (quiet_emit_spin _ _)
  | succ fuel ih =>
    rw [basePollNext_succ]
    have h1 := rel_baseCancelStep h s
    have h2 := h.trans h1 (h.pollExpired (baseCancelStep s).1 now)
    split
    · exact h2
    · apply h.trans h2
      generalize (pollExpired (baseCancelStep s).1 now).1 = s2
      generalize (baseCancelStep s).2 = cst
      generalize estOf _ = est
      unfold baseReadStep
      split
      · pair_subst; exact h.tNext s2
      · pair_subst
        rename_i id d tr b hps
        have h3 := h.readStart s2 now id d tr b hps
        split
        · pair_subst; exact h3
        · pair_subst
          split
          · exact h3
          · exact h.trans h3 (ih _)
      · pair_subst
        have h3 := h.tNext s2
        have key : ∀ s3 rst, R s2 s3 → R s2 (if s3.poisoned then (s3, SPoll.spin) else
            match combine (combine cst est) rst with
            | .ready => basePollNext fuel s3 now
            | .closed => (s3, .none)
            | .pending => (s3, .pending)).1 := by
          intro s3 rst h4
          split
          · exact h4
          · split
            · exact h.trans h4 (ih _)
            · exact h4
            · exact h4
        split
        rename_i heq
        apply key
        split at heq <;> cases heq
        · exact h.trans h3 (h.cancelRequest _ _)
        · exact h3
        · exact h3
        · exact h3

theorem rel_limitedPollNextLegacy {R} (h : PollRel R) (limit fuel : Nat) (s : St) (now : Nat) :
    R s (limitedPollNextLegacy limit fuel s now).1 := by
  induction fuel generalizing s with
  | zero => exact h.quiet (quiet_emit_spin _ _)
  | succ fuel ih =>
    unfold limitedPollNextLegacy
    split
    · have h1 := h.quiet (quiet_tReady s)
      split
      · pair_subst; exact h1
      · pair_subst; exact h1
      · pair_subst
        have h2 := h.trans h1 (rel_basePollNext h.toBaseRel (baseFuel (tReady s).1) (tReady s).1 now)
        split
        · pair_subst
          rename_i ex _
          have h3 := h.trans h2 (h.baseStartSend (basePollNext (baseFuel (tReady s).1) (tReady s).1 now).1 ex.id
            (Res.err throttleKindIdx))
          split
          · pair_subst; exact h3
          · pair_subst
            exact h.trans (h.trans h3 (h.quiet (quiet_markThrottled _ _))) (ih _)
        · exact h2
    · exact rel_basePollNext h.toBaseRel _ _ _

theorem rel_limitedPollNextFixed {R} (h : PollRel R) (limit fuel : Nat) (s : St) (now : Nat) :
    R s (limitedPollNextFixed limit fuel s now).1 := by
  induction fuel generalizing s with
  | zero => exact h.quiet (quiet_emit_spin _ _)
  | succ fuel ih =>
    unfold limitedPollNextFixed
    simp only []
    have key : ∀ s1, R s s1 → R s (match basePollNext (baseFuel s1) s1 now with
          | (s, .some ex) =>
              if s.inflight.length > limit then
                match baseStartSend s ex.id (Res.err throttleKindIdx) with
                | (s, some false) => (s, SPoll.err Activity.write)
                | (s, _) =>
                    limitedPollNextFixed limit fuel (updExec s ex.rid (fun e => { e with phase := .gone, woken := false })) now
              else (s, SPoll.some ex)
          | r => r).1 := by
      intro s1 h1
      have h2 := h.trans h1 (rel_basePollNext h.toBaseRel (baseFuel s1) s1 now)
      split
      · pair_subst
        rename_i ex _
        split
        · have h3 := h.trans h2 (h.baseStartSend (basePollNext (baseFuel s1) s1 now).1 ex.id (Res.err throttleKindIdx))
          split
          · pair_subst; exact h3
          · pair_subst
            exact h.trans (h.trans h3 (h.quiet (by quiet_tac))) (ih _)
        · exact h2
      · exact h2
    split
    · rename_i heq
      split at heq
      · split at heq <;> cases heq <;> pair_subst <;> exact h.quiet (quiet_tReady s)
      · cases heq
    · rename_i heq
      split at heq
      · split at heq <;> cases heq
        pair_subst
        exact key _ (h.quiet (quiet_tReady s))
      · cases heq
        exact key _ (h.refl s)

theorem rel_channelPollNext {R} (h : PollRel R) (s : St) (now : Nat) : R s (channelPollNext s now).1 := by
  unfold channelPollNext
  split
  · exact rel_basePollNext h.toBaseRel _ _ _
  · split
    · exact rel_limitedPollNextFixed h _ _ _ _
    · exact rel_limitedPollNextLegacy h _ _ _ _

theorem rel_pumpWrite {R} (h : WriteRel R) (s : St) (rc : Bool) : R s (pumpWrite s rc).1 := by
  unfold pumpWrite
  have h1 := h.quiet (quiet_ensureWriteable s)
  split
  · pair_subst; exact h.trans h1 (h.quiet (quiet_flushArm _ _))
  · pair_subst; exact h1
  · pair_subst; exact h1
  · pair_subst
    split
    · rename_i id res rest _
      have h2 : R s (rqRelease { (ensureWriteable s).1 with respQ := rest }) :=
        h.trans h1 (h.trans (h.quiet (by quiet_tac)) (h.quiet (quiet_rqRelease _)))
      have h3 := h.trans h2 (h.baseStartSend _ id res)
      simp only []
      split <;> pair_subst <;> exact h3
    · exact h.trans h1 (h.trans (h.quiet (by quiet_tac)) (h.quiet (quiet_flushArm _ _)))

/-- `pump_read` arms the guard of a request it yields -/
def armGuard (s : St) (read : SPoll Exec) : St :=
  match read with
  | .some ex => updExec s ex.rid (fun e => { e with guardArmed := true })
  | _ => s

def readClosedOf (read : SPoll Exec) : Bool :=
  match read with | .none => true | _ => false

/-- what `Requests::poll_next` does with the results of the two pumps -/
def requestsTail (fuel now : Nat) (read : SPoll Exec) (p : St × SPoll Unit) : St × ReqPoll :=
  match p with
  | (s, .err a) => ((match read with | .some ex => dropOffered s ex.rid ex.id | _ => s), .err a)
  | (s, .spin) => (s, .spin)
  | (s, write) =>
      match read, write with
      | .none, .none => (s, .none)
      | .some ex, _ => (s, .item ex.rid)
      | _, .some () => requestsPollNext fuel s now
      | _, _ => (s, .pending)

theorem requestsPollNext_succ (fuel : Nat) (s : St) (now : Nat) :
    requestsPollNext (fuel + 1) s now =
      match channelPollNext s now with
      | (s, .err a) => (s, .err a)
      | (s, .spin) => (s, .spin)
      | (s, read) => requestsTail fuel now read (pumpWrite (armGuard s read) (readClosedOf read)) := by
  rw [requestsPollNext]
  rfl

theorem quiet_armGuard (s : St) (read : SPoll Exec) : Quiet s (armGuard s read) := by
  unfold armGuard; split
  · quiet_tac
  · exact Quiet.refl s

theorem rel_requestsPollNext {R} (h : PollRel R) (fuel : Nat) (s : St) (now : Nat) :
    R s (requestsPollNext fuel s now).1 := by
  induction fuel generalizing s with
  | zero => exact h.quiet (quiet_emit_spin _ _)
  | succ fuel ih =>
    rw [requestsPollNext_succ]
    have h1 := rel_channelPollNext h s now
    split
    · pair_subst; exact h1
    · pair_subst; exact h1
    · pair_subst
      have h3 := h.trans (h.trans h1 (h.quiet (quiet_armGuard _ (channelPollNext s now).2)))
        (rel_pumpWrite h.toWriteRel _ (readClosedOf (channelPollNext s now).2))
      revert h3
      generalize pumpWrite _ _ = p
      intro h3
      unfold requestsTail
      split
      · split
        · exact h.trans h3 (h.quiet (quiet_dropOffered _ _ _))
        · exact h3
      · exact h3
      · split
        · exact h3
        · exact h3
        · exact h.trans h3 (ih _)
        · exact h3

/-! ## the table operations preserve the invariant -/

theorem removeRequest_cases (s : St) (id : Nat) :
    (findEntry s id = none ∧ removeRequest s id = (s, false))
    ∨ (∃ e, findEntry s id = some e ∧
        removeRequest s id =
          (removeTimer { s with inflight := s.inflight.filter (·.id != id) } e.timerKey, true)) := by
  unfold removeRequest
  split
  · left; exact ⟨by assumption, rfl⟩
  · right; exact ⟨_, by assumption, rfl⟩

theorem cancelRequest_cases (s : St) (id : Nat) :
    (findEntry s id = none ∧ cancelRequest s id = (s, false))
    ∨ (∃ e, findEntry s id = some e ∧
        cancelRequest s id =
          (removeTimer (abortExec { s with inflight := s.inflight.filter (·.id != id) } e.rid) e.timerKey, true)) := by
  unfold cancelRequest
  split
  · left; exact ⟨by assumption, rfl⟩
  · right; exact ⟨_, by assumption, rfl⟩

theorem removeTimer_of_some {s : St} {key : Nat} {q : DelayQ} {w : Bool}
    (h : s.timers.remove key = some (q, w)) :
    removeTimer s key = (if w then wakeServer { s with timers := q } else { s with timers := q }) := by
  unfold removeTimer; rw [h]

/-- Disarming the timer of an entry that was just taken out of the table re-establishes the
invariant (and does not panic). -/
theorem Mid.remove_timer_step {L g0} {s : St} (h : Mid L g0 s) {e : SEntry} (he : e ∈ s.inflight) (s1 : St)
    (h1 : s1.inflight = s.inflight.filter (·.id != e.id)) (h2 : s1.timers = s.timers)
    (hek : s1.execs.map ekey = s.execs.map ekey ∨ s1.execs.map ekey = abortKeys e.rid (s.execs.map ekey))
    (hg : gh L g0 s1.obs = gh L g0 s.obs) (hl : s1.limit = s.limit) :
    Mid L g0 (removeTimer s1 e.timerKey) ∧ (removeTimer s1 e.timerKey).poisoned = s1.poisoned
      ∧ (removeTimer s1 e.timerKey).inflight = s1.inflight := by
  have hmem : e.kv ∈ s.timers.kv := h.table.perm.mem_iff.mp (List.mem_map.mpr ⟨e, he, rfl⟩)
  have hsome : (s1.timers.remove e.timerKey).isSome = true := by
    rw [h2, DelayQ.remove_isSome_iff]
    exact List.mem_map.mpr ⟨_, hmem, rfl⟩
  obtain ⟨⟨q, w⟩, hq⟩ := Option.isSome_iff_exists.mp hsome
  rw [removeTimer_of_some hq]
  rw [h2] at hq
  obtain ⟨hkv, hnk⟩ := DelayQ.remove_some_spec _ _ _ _ hq
  have hperm : s.timers.kv.Perm (e.kv :: q.kv) := by
    rw [hkv]
    exact DelayQ.perm_cons_filter_fst h.table.dq.nodup hmem
  cases w
  · refine ⟨?_, rfl, rfl⟩
    exact h.remove_entry he (s' := { s1 with timers := q }) h1 hperm hnk hek hg hl
  · refine ⟨?_, by simp, by simp⟩
    exact h.remove_entry he (s' := wakeServer { s1 with timers := q }) (by simpa using h1) (by simpa using hperm)
      (by simpa using hnk) (by simpa using hek) (by simpa using hg) (by simpa using hl)

theorem mid_removeRequest {L g0} (s : St) (id : Nat) (h : Mid L g0 s) : Mid L g0 (removeRequest s id).1 := by
  rcases removeRequest_cases s id with ⟨_, h1⟩ | ⟨e, hf, h1⟩
  · rw [h1]; exact h
  · rw [h1]
    obtain ⟨he, hid⟩ := findEntry_some hf
    subst hid
    exact (h.remove_timer_step he { s with inflight := s.inflight.filter (·.id != e.id) } rfl rfl
      (Or.inl rfl) rfl rfl).1

theorem mid_cancelRequest {L g0} (s : St) (id : Nat) (h : Mid L g0 s) : Mid L g0 (cancelRequest s id).1 := by
  rcases cancelRequest_cases s id with ⟨_, h1⟩ | ⟨e, hf, h1⟩
  · rw [h1]; exact h
  · rw [h1]
    obtain ⟨he, hid⟩ := findEntry_some hf
    subst hid
    exact (h.remove_timer_step he _ (by simp) (by simp) (Or.inr (by simp)) (by simp) (by simp)).1

/-- with distinct ids, re-keying the entry with `en`'s id changes only `en`'s `(timerKey, id)` pair -/
theorem perm_map_rearmUpd {l : List SEntry} (hn : (l.map (·.id)).Nodup) {en : SEntry} (he : en ∈ l) (key now : Nat) :
    ((l.map (rearmUpd en.id key now)).map SEntry.kv).Perm
      ((key, en.id) :: (l.filter (fun x => x.id != en.id)).map SEntry.kv) := by
  have h1 := perm_cons_filter_key (·.id) hn he
  have h2 := (h1.map (rearmUpd en.id key now)).map SEntry.kv
  refine h2.trans ?_
  simp only [List.map_cons]
  have hhead : (rearmUpd en.id key now en).kv = (key, en.id) := by
    unfold rearmUpd; rw [if_pos (by simp)]; rfl
  rw [hhead]
  refine List.Perm.cons _ (List.Perm.of_eq ?_)
  rw [List.map_map]
  apply List.map_congr_left
  intro x hx
  have := (List.mem_filter.mp hx).2
  simp only [bne_iff_ne, ne_eq] at this
  simp only [Function.comp, rearmUpd_ne this]

/-- Re-arming the timer of a tracked entry: the fired timer is gone from the queue, a fresh one with a
fresh key is in, the entry carries the new key. -/
theorem Mid.rearm_entry {L g0} {s s' : St} (h : Mid L g0 s) {en : SEntry} (he : en ∈ s.inflight) {key now : Nat}
    {kvq : List (Nat × Nat)}
    (hin : s'.inflight = s.inflight.map (rearmUpd en.id key now))
    (hpop : s.timers.kv.Perm (en.kv :: kvq))
    (hins : s'.timers.kv.Perm ((key, en.id) :: kvq)) (hwf : s'.timers.KvWF)
    (hek : s'.execs.map ekey = s.execs.map ekey)
    (hg : gh L g0 s'.obs = gh L g0 s.obs) (hl : s'.limit = s.limit) : Mid L g0 s' := by
  have hids : s'.inflight.map (·.id) = s.inflight.map (·.id) := by
    rw [hin, List.map_map]; apply List.map_congr_left; intro x _; simp
  have hrids : s'.inflight.map (·.rid) = s.inflight.map (·.rid) := by
    rw [hin, List.map_map]; apply List.map_congr_left; intro x _; simp
  have hmem : ∀ x ∈ s'.inflight, ∃ y ∈ s.inflight, x.id = y.id ∧ x.rid = y.rid := by
    intro x hx; rw [hin] at hx
    obtain ⟨y, hy, rfl⟩ := List.mem_map.mp hx
    exact ⟨y, hy, by simp, by simp⟩
  refine ⟨⟨?_, ?_, hwf⟩, ⟨?_, ?_, ?_⟩, ⟨?_, ?_⟩, ?_, ?_⟩
  · rw [hids]; exact h.table.idNodup
  · rw [hin]
    refine (perm_map_rearmUpd h.table.idNodup he key now).trans ?_
    have h1 := perm_cons_filter_key (·.id) h.table.idNodup he
    have h2 := (h1.map SEntry.kv)
    rw [List.map_cons] at h2
    have h3 : ((s.inflight.filter (fun x => x.id != en.id)).map SEntry.kv).Perm kvq :=
      List.Perm.cons_inv ((h2.symm.trans h.table.perm).trans hpop)
    exact (List.Perm.cons _ h3).trans hins.symm
  · rw [hek]; exact h.execs.rids
  · intro x hx
    obtain ⟨y, hy, hid, hrid⟩ := hmem x hx
    rw [hek, hid, hrid]; exact h.execs.owner y hy
  · rw [hrids]; exact h.execs.ridNodup
  · intro x hx
    obtain ⟨y, hy, hid, _⟩ := hmem x hx
    rw [hg, hid]; exact h.coupled.read y hy
  · intro x hx
    obtain ⟨y, hy, hid, _⟩ := hmem x hx
    rw [hg, hid]; exact h.coupled.unsent y hy
  · rw [hg]; exact h.ok
  · rw [hl]; exact h.lim

theorem mid_expireStep {L g0} (s : St) (now : Nat) (h : Mid L g0 s) : Mid L g0 (expireStep s now).1 := by
  have hspec := DelayQ.pollExpired_kv s.timers now h.table.dq
  have hs := expireStep_shape s now
  revert hs; generalize expireStep s now = p; intro hs
  obtain ⟨s', r⟩ := p
  dsimp only at hs ⊢
  -- what a popped timer tells: its entry is tracked and is the one `findEntry` finds
  have popped : ∀ q (d : DqEntry), s.timers.pollExpired now = (q, .expired d) →
      ∃ en, en ∈ s.inflight ∧ en.kv = (d.key, d.val) ∧ en.id = d.val ∧
        findEntry { s with timers := q } d.val = some en ∧
        s.timers.kv.Perm ((d.key, d.val) :: q.kv) ∧ q.nextKey = s.timers.nextKey := by
    intro q d heq
    rw [heq] at hspec
    simp only [DelayQ.PollRes.popped, DelayQ.PollSpec] at hspec
    obtain ⟨hperm, hnk⟩ := hspec
    have hmem : (d.key, d.val) ∈ s.timers.kv := hperm.mem_iff.mpr (List.mem_cons_self ..)
    obtain ⟨en, hen, henkv⟩ := List.mem_map.mp (h.table.perm.mem_iff.mpr hmem)
    have hid : en.id = d.val := congrArg Prod.snd henkv
    have hfe : findEntry { s with timers := q } d.val = some en := by
      have := findEntry_of_mem h.table hen
      rw [hid] at this
      exact this
    exact ⟨en, hen, henkv, hid, hfe, hperm, hnk⟩
  cases hs with
  | idleNone q heq =>
    rw [heq] at hspec
    simp only [DelayQ.PollRes.popped, DelayQ.PollSpec] at hspec
    exact h.of_frame rfl hspec.1 hspec.2 rfl rfl rfl
  | idlePending q heq =>
    rw [heq] at hspec
    simp only [DelayQ.PollRes.popped, DelayQ.PollSpec] at hspec
    exact h.of_frame rfl hspec.1 hspec.2 rfl rfl rfl
  | orphan q d heq hf =>
    obtain ⟨en, _, _, _, hfe, _, _⟩ := popped q d heq
    rw [hf] at hfe; cases hfe
  | abort q d en' heq hf h0 =>
    obtain ⟨en, hen, henkv, hid, hfe, hperm, hnk⟩ := popped q d heq
    rw [hf] at hfe; cases hfe
    apply h.remove_entry hen (by simp [hid]) (by simpa [henkv] using hperm) (by simpa using hnk)
      (Or.inr (by simp)) (by simp) (by simp)
  | rearmed q d en' s2 heq hf h0 hr =>
    obtain ⟨en, hen, henkv, hid, hfe, hperm, hnk⟩ := popped q d heq
    rw [hf] at hfe; cases hfe
    obtain ⟨q', key, w, hi, rfl⟩ := rearm_some hr
    obtain ⟨_, _, hp'⟩ := DelayQ.insert_ok_spec _ _ _ _ _ _ _ hi
    have hqwf : q.KvWF := by
      constructor
      · have := ((hperm.map (·.1)).nodup_iff).mp h.table.dq.nodup
        simp only [List.map_cons, List.nodup_cons] at this
        exact this.2
      · intro p hp
        rw [hnk]
        exact h.table.dq.lt p (hperm.mem_iff.mpr (List.mem_cons_of_mem _ hp))
    have hwf := DelayQ.insert_ok_wf _ _ _ _ _ _ _ hi hqwf
    refine h.rearm_entry hen (key := key) (now := now) (kvq := q.kv) rfl (by rw [henkv]; exact hperm) hp' hwf ?_ ?_ ?_
    · cases w <;> simp
    · cases w <;> simp
    · cases w <;> simp
  | panicked q d en' heq hf h0 hr =>
    exact h.of_frame rfl (.refl _) rfl rfl (by simp) rfl

theorem mid_pollExpired {L g0} (s : St) (now : Nat) (h : Mid L g0 s) : Mid L g0 (pollExpired s now).1 :=
  pollExpired_ind (P := Mid L g0) now (fun s1 h1 => h1.of_frame rfl (.refl _) rfl rfl (by simp) rfl)
    (fun s1 h1 => mid_expireStep s1 now h1) s h

/-! ### ghost steps -/

/-- what any read does to the ghost: more ids read, fewer ids marked answered, flags untouched -/
theorem gstep_tNext_spec (L : Option Nat) (g : Ghost) (ep : TaskId) (r : NextRes) :
    (∀ x ∈ g.reads, x ∈ (gstep L g (.tNext ep r)).reads)
    ∧ (∀ x ∈ (gstep L g (.tNext ep r)).sent, x ∈ g.sent)
    ∧ (gstep L g (.tNext ep r)).okOrphan = g.okOrphan
    ∧ (gstep L g (.tNext ep r)).okOnce = g.okOnce
    ∧ (gstep L g (.tNext ep r)).okCounts = g.okCounts
    ∧ (gstep L g (.tNext ep r)).okLimit = g.okLimit
    ∧ (gstep L g (.tNext ep r)).yieldedNow = g.yieldedNow
    ∧ (gstep L g (.tNext ep r)).sends = g.sends := by
  cases r with
  | item m =>
    cases m with
    | request id d tr b =>
      refine ⟨?_, ?_, rfl, rfl, rfl, rfl, rfl, rfl⟩
      · intro x hx; exact List.mem_cons_of_mem _ hx
      · intro x hx; exact (List.mem_filter.mp hx).1
    | _ => simp
  | _ => simp

/-- Transfer of the invariant when only the ghost moved, monotonically. -/
theorem Mid.of_ghost_mono {L g0} {s s' : St} (h : Mid L g0 s) (h1 : s'.inflight = s.inflight)
    (h2 : s'.timers = s.timers) (h3 : s'.execs.map ekey = s.execs.map ekey) (h5 : s'.limit = s.limit)
    (hr : ∀ x ∈ (gh L g0 s.obs).reads, x ∈ (gh L g0 s'.obs).reads)
    (hs : ∀ x ∈ (gh L g0 s'.obs).sent, x ∈ (gh L g0 s.obs).sent)
    (ho : (gh L g0 s'.obs).okOrphan = (gh L g0 s.obs).okOrphan)
    (ho2 : (gh L g0 s'.obs).okOnce = (gh L g0 s.obs).okOnce)
    (hc : (gh L g0 s'.obs).okCounts = (gh L g0 s.obs).okCounts)
    (hl : (gh L g0 s'.obs).okLimit = (gh L g0 s.obs).okLimit) : Mid L g0 s' := by
  refine ⟨⟨?_, ?_, ?_⟩, ⟨?_, ?_, ?_⟩, ⟨?_, ?_⟩, ⟨?_, ?_, ?_, ?_⟩, ?_⟩
  · rw [h1]; exact h.table.idNodup
  · rw [h1, h2]; exact h.table.perm
  · rw [h2]; exact h.table.dq
  · rw [h3]; exact h.execs.rids
  · rw [h1, h3]; exact h.execs.owner
  · rw [h1]; exact h.execs.ridNodup
  · intro e he; rw [h1] at he; exact hr _ (h.coupled.read e he)
  · intro e he hc'; rw [h1] at he; exact h.coupled.unsent e he (hs _ hc')
  · rw [ho]; exact h.ok.orphan
  · rw [ho2]; exact h.ok.once
  · rw [hc]; exact h.ok.counts
  · rw [hl]; exact h.ok.limit
  · rw [h5]; exact h.lim

theorem mid_tNext {L g0} (s : St) (h : Mid L g0 s) : Mid L g0 (tNext s).1 := by
  have hg := tNext_gh L g0 s
  have hsp := gstep_tNext_spec L (gh L g0 s.obs) (tid s) (tNext s).2
  apply h.of_ghost_mono (by simp) (by simp) (by simp) (by simp) <;> rw [hg] <;> split <;> simp_all

/-- after reading a request message its id is recorded as read and not as answered -/
theorem tNext_request_ghost (L : Option Nat) (g0 : Ghost) (s : St) {id d : Nat} {tr : Trace} {b : Nat}
    (h : (tNext s).2 = .item (.request id d tr b)) :
    id ∈ (gh L g0 (tNext s).1.obs).reads ∧ id ∉ (gh L g0 (tNext s).1.obs).sent := by
  rw [tNext_gh, tNext_item_not_fused s _ h, h]
  simp [gstep]

theorem prod_eta3 {α β γ : Type} (p : α × β × γ) : p = (p.1, p.2.1, p.2.2) := rfl

theorem mid_startRequest {L g0} (s : St) (now id d : Nat) (tr : Trace) (b : Nat) (h : Mid L g0 s)
    (hr : id ∈ (gh L g0 s.obs).reads) (hs : id ∉ (gh L g0 s.obs).sent) :
    Mid L g0 (startRequest s now id d tr b).1 := by
  rcases startRequest_cases s now id d tr b with ⟨_, h1⟩ | ⟨_, _, h1⟩ | ⟨hf, q', key, w, hq, h1⟩
  · rw [h1]; exact h
  · rw [h1]; exact h.of_frame rfl (.refl _) rfl rfl (by simp) rfl
  · rw [h1]
    have hgw := startWoke_gh L g0 s w
    have hlw := startWoke_limit s w
    obtain ⟨_, _, hperm⟩ := DelayQ.insert_ok_spec _ _ _ _ _ _ _ hq
    have hwf := DelayQ.insert_ok_wf _ _ _ _ _ _ _ hq h.table.dq
    have hek : (s.execs ++ [newExec s id d tr b]).map ekey = s.execs.map ekey ++ [(s.execs.length, id, false)] := by
      simp [ekey, newExec]
    exact h.insert_entry (findEntry_none hf) rfl hperm hwf hek hgw hr hs hlw

theorem mid_readStart {L g0} (s : St) (now id d : Nat) (tr : Trace) (b : Nat)
    (hq : (tNext s).2 = .item (.request id d tr b)) (h : Mid L g0 s) :
    Mid L g0 (startRequest (tNext s).1 now id d tr b).1 := by
  obtain ⟨hr, hs⟩ := tNext_request_ghost L g0 s hq
  exact mid_startRequest _ now id d tr b (mid_tNext s h) hr hs

theorem baseStartSend_cases (s : St) (id : Nat) (res : Res) :
    ((removeRequest s id).2 = false ∧ baseStartSend s id res = ((removeRequest s id).1, none))
    ∨ ((removeRequest s id).2 = true ∧
        baseStartSend s id res =
          ((tSend (removeRequest s id).1 (.response id res)).1, some (tSend (removeRequest s id).1 (.response id res)).2)) := by
  unfold baseStartSend
  split
  · right; pair_subst; exact ⟨by assumption, rfl⟩
  · left; pair_subst; exact ⟨by assumption, rfl⟩

theorem mid_baseStartSend {L g0} (s : St) (id : Nat) (res : Res) (h : Mid L g0 s) :
    Mid L g0 (baseStartSend s id res).1 := by
  have hm := mid_removeRequest s id h
  rcases baseStartSend_cases s id res with ⟨_, h1⟩ | ⟨ht, h1⟩
  · rw [h1]; exact hm
  · rw [h1]
    -- the id was tracked, so it was read and not answered; now no entry carries it
    rcases removeRequest_cases s id with ⟨_, h2⟩ | ⟨e, hf, h2⟩
    · rw [h2] at ht; cases ht
    · obtain ⟨he, hid⟩ := findEntry_some hf
      subst hid
      have hstep := h.remove_timer_step he { s with inflight := s.inflight.filter (·.id != e.id) } rfl rfl
        (Or.inl rfl) rfl rfl
      have hin : (removeRequest s e.id).1.inflight = s.inflight.filter (·.id != e.id) := by
        rw [h2]; exact hstep.2.2
      have hgh : gh L g0 (removeRequest s e.id).1.obs = gh L g0 s.obs := by simp
      have hread := h.coupled.read e he
      have hunsent := h.coupled.unsent e he
      refine ⟨⟨?_, ?_, ?_⟩, ⟨?_, ?_, ?_⟩, ⟨?_, ?_⟩, ⟨?_, ?_, ?_, ?_⟩, ?_⟩
      · simpa using hm.table.idNodup
      · simpa using hm.table.perm
      · simpa using hm.table.dq
      · simpa using hm.execs.rids
      · simpa using hm.execs.owner
      · simpa using hm.execs.ridNodup
      · intro x hx
        simp only [tSend_inflight] at hx
        simp only [tSend_gh, gstep]
        exact hgh ▸ hm.coupled.read x hx
      · intro x hx
        simp only [tSend_inflight] at hx
        simp only [tSend_gh, gstep, List.mem_cons, not_or]
        refine ⟨?_, hm.coupled.unsent x hx⟩
        rw [hin] at hx
        simpa using (List.mem_filter.mp hx).2
      · simp only [tSend_gh, gstep, hgh, Bool.and_eq_true, List.contains_iff_mem]
        exact ⟨h.ok.orphan, by simpa using hread⟩
      · simp only [tSend_gh, gstep, hgh, Bool.and_eq_true, Bool.not_eq_true']
        exact ⟨h.ok.once, by simpa using hunsent⟩
      · simp only [tSend_gh, gstep, hgh]; exact h.ok.counts
      · simp only [tSend_gh, gstep, hgh]; exact h.ok.limit
      · simpa using hm.lim

theorem mid_quiet {L g0} {s s' : St} (hq : Quiet s s') (h : Mid L g0 s) : Mid L g0 s' :=
  h.of_frame hq.inflight (hq.timers ▸ .refl _) (by rw [hq.timers]) hq.ekeys (hq.gh L g0) hq.limit

/-- **The poll invariant is closed under every step of a channel poll.** -/
theorem midRel (L : Option Nat) (g0 : Ghost) : PollRel (fun s s' => Mid L g0 s → Mid L g0 s') where
  refl := fun _ h => h
  trans := fun h1 h2 h => h2 (h1 h)
  quiet := fun hq h => mid_quiet hq h
  removeRequest := fun s id h => mid_removeRequest s id h
  cancelRequest := fun s id h => mid_cancelRequest s id h
  pollExpired := fun s now h => mid_pollExpired s now h
  tNext := fun s h => mid_tNext s h
  readStart := fun s now id d tr b hq h => mid_readStart s now id d tr b hq h
  baseStartSend := fun s id res h => mid_baseStartSend s id res h

theorem mid_requestsPollNext {L g0} (fuel : Nat) (s : St) (now : Nat) (h : Mid L g0 s) :
    Mid L g0 (requestsPollNext fuel s now).1 :=
  rel_requestsPollNext (midRel L g0) fuel s now h

/-! ## simple relations closed under the poll steps -/

@[simp] theorem abortExec_execs_length (s : St) (rid : Nat) : (abortExec s rid).execs.length = s.execs.length := by
  have := congrArg List.length (abortExec_ekeys s rid)
  simp only [List.length_map, abortKeys_length] at this
  exact this

@[simp] theorem cancelRequest_execs_length (s : St) (id : Nat) :
    (cancelRequest s id).1.execs.length = s.execs.length := by
  rcases cancelRequest_cases s id with ⟨_, h⟩ | ⟨e, _, h⟩ <;> simp [h]

@[simp] theorem pollExpired_execs_length (s : St) (now : Nat) :
    (pollExpired s now).1.execs.length = s.execs.length := by
  exact (pollExpired_keep s now).execsLen

theorem startRequest_execs_length_ge (s : St) (now id d : Nat) (tr : Trace) (b : Nat) :
    s.execs.length ≤ (startRequest s now id d tr b).1.execs.length := by
  rcases startRequest_cases s now id d tr b with ⟨_, h⟩ | ⟨_, _, h⟩ | ⟨_, _, _, _, _, h⟩ <;> simp [h]

theorem Quiet.execs_length {s s' : St} (h : Quiet s s') : s'.execs.length = s.execs.length := by
  simpa using congrArg List.length h.ekeys

/-- the limiter configuration never changes during a poll -/
theorem limitRel : PollRel (fun s s' => s'.limit = s.limit ∧ s'.throttleAfterRead = s.throttleAfterRead) where
  refl := fun _ => ⟨rfl, rfl⟩
  trans := fun h1 h2 => ⟨h2.1.trans h1.1, h2.2.trans h1.2⟩
  quiet := fun hq => ⟨hq.limit, hq.tar⟩
  removeRequest := by intros; simp
  cancelRequest := by intros; simp
  pollExpired := by intros; simp
  tNext := by intros; simp
  readStart := by intros; simp
  baseStartSend := by intros; simp

/-- executions are only ever appended -/
theorem execsLenRel : PollRel (fun s s' => s.execs.length ≤ s'.execs.length) where
  refl := fun _ => Nat.le_refl _
  trans := fun h1 h2 => Nat.le_trans h1 h2
  quiet := fun hq => Nat.le_of_eq hq.execs_length.symm
  removeRequest := by intros; simp
  cancelRequest := by intros; simp
  pollExpired := by intros; simp
  tNext := by intros; simp
  readStart := by
    intro s now id d tr b _
    have := startRequest_execs_length_ge (tNext s).1 now id d tr b
    simpa using this
  baseStartSend := by intros; simp

theorem baseStartSend_gh (L : Option Nat) (g0 : Ghost) (s : St) (id : Nat) (res : Res) :
    gh L g0 (baseStartSend s id res).1.obs =
      if (removeRequest s id).2 then
        gstep L (gh L g0 s.obs) (.tSend (tid s) (.response id res) (tSend (removeRequest s id).1 (.response id res)).2)
      else gh L g0 s.obs := by
  rcases baseStartSend_cases s id res with ⟨h0, h⟩ | ⟨h0, h⟩ <;> simp [h, h0, tid]

/-- nothing a channel poll does marks a request as handed out (that happens in `pollServerKeep`) -/
theorem yieldedRel : PollRel (fun s s' => ∀ L g0, (gh L g0 s'.obs).yieldedNow = (gh L g0 s.obs).yieldedNow) where
  refl := fun _ _ _ => rfl
  trans := fun h1 h2 L g0 => (h2 L g0).trans (h1 L g0)
  quiet := fun hq L g0 => by rw [hq.gh]
  removeRequest := by intros; simp
  cancelRequest := by intros; simp
  pollExpired := by intros; simp
  tNext := by
    intro s L g0
    rw [tNext_gh]; split
    · rfl
    · exact (gstep_tNext_spec L _ _ _).2.2.2.2.2.2.1
  readStart := by
    intro s now id d tr b _ L g0
    rw [startRequest_gh, tNext_gh]; split
    · rfl
    · exact (gstep_tNext_spec L _ _ _).2.2.2.2.2.2.1
  baseStartSend := by
    intro s id res L g0
    rw [baseStartSend_gh]; split <;> simp [gstep]

/-- `BaseChannel::poll_next` never writes to the transport -/
theorem sendsRel : BaseRel (fun s s' => ∀ L g0, (gh L g0 s'.obs).sends = (gh L g0 s.obs).sends) where
  refl := fun _ _ _ => rfl
  trans := fun h1 h2 L g0 => (h2 L g0).trans (h1 L g0)
  quiet := fun hq L g0 => by rw [hq.gh]
  removeRequest := by intros; simp
  cancelRequest := by intros; simp
  pollExpired := by intros; simp
  tNext := by
    intro s L g0
    rw [tNext_gh]; split
    · rfl
    · exact (gstep_tNext_spec L _ _ _).2.2.2.2.2.2.2
  readStart := by
    intro s now id d tr b _ L g0
    rw [startRequest_gh, tNext_gh]; split
    · rfl
    · exact (gstep_tNext_spec L _ _ _).2.2.2.2.2.2.2

theorem removeRequest_length_le (s : St) (id : Nat) : (removeRequest s id).1.inflight.length ≤ s.inflight.length := by
  rcases removeRequest_cases s id with ⟨_, h⟩ | ⟨e, _, h⟩
  · simp [h]
  · simp only [h, removeTimer_inflight]; exact List.length_filter_le _ _

theorem cancelRequest_length_le (s : St) (id : Nat) : (cancelRequest s id).1.inflight.length ≤ s.inflight.length := by
  rcases cancelRequest_cases s id with ⟨_, h⟩ | ⟨e, _, h⟩
  · simp [h]
  · simp only [h, removeTimer_inflight, abortExec_inflight]; exact List.length_filter_le _ _

theorem pollExpired_length_le (s : St) (now : Nat) : (pollExpired s now).1.inflight.length ≤ s.inflight.length :=
  (pollExpired_keep s now).inflightLen

theorem baseStartSend_length_le (s : St) (id : Nat) (res : Res) :
    (baseStartSend s id res).1.inflight.length ≤ s.inflight.length := by
  rcases baseStartSend_cases s id res with ⟨_, h⟩ | ⟨_, h⟩ <;> simp [h] <;> exact removeRequest_length_le s id

/-- the write pump only ever removes entries -/
theorem lengthRel : WriteRel (fun s s' => s'.inflight.length ≤ s.inflight.length) where
  refl := fun _ => Nat.le_refl _
  trans := fun h1 h2 => Nat.le_trans h2 h1
  quiet := fun hq => Nat.le_of_eq (by rw [hq.inflight])
  baseStartSend := baseStartSend_length_le

/-! ## what a yielded request tells about the state (no invariant needed) -/

/-- table not larger, executions not fewer -/
def Shrink (s s' : St) : Prop := s'.inflight.length ≤ s.inflight.length ∧ s.execs.length ≤ s'.execs.length

theorem Shrink.refl (s : St) : Shrink s s := ⟨Nat.le_refl _, Nat.le_refl _⟩
theorem Shrink.trans {a b c : St} (h1 : Shrink a b) (h2 : Shrink b c) : Shrink a c :=
  ⟨Nat.le_trans h2.1 h1.1, Nat.le_trans h1.2 h2.2⟩
theorem Shrink.of_quiet {s s' : St} (h : Quiet s s') : Shrink s s' :=
  ⟨Nat.le_of_eq (by rw [h.inflight]), Nat.le_of_eq h.execs_length.symm⟩

theorem shrink_removeRequest (s : St) (id : Nat) : Shrink s (removeRequest s id).1 :=
  ⟨removeRequest_length_le s id, by simp⟩
theorem shrink_cancelRequest (s : St) (id : Nat) : Shrink s (cancelRequest s id).1 :=
  ⟨cancelRequest_length_le s id, by simp⟩
theorem shrink_pollExpired (s : St) (now : Nat) : Shrink s (pollExpired s now).1 :=
  ⟨pollExpired_length_le s now, by simp⟩
theorem shrink_tNext (s : St) : Shrink s (tNext s).1 := ⟨by simp, by simp⟩
theorem shrink_baseStartSend (s : St) (id : Nat) (res : Res) : Shrink s (baseStartSend s id res).1 :=
  ⟨baseStartSend_length_le s id res, by simp⟩
theorem shrink_baseCancelStep (s : St) : Shrink s (baseCancelStep s).1 := by
  unfold baseCancelStep; split
  · exact (Shrink.of_quiet (by quiet_tac)).trans (shrink_removeRequest _ _)
  · exact Shrink.of_quiet (by quiet_tac)

theorem shrink_pumpWrite (s : St) (rc : Bool) : Shrink s (pumpWrite s rc).1 :=
  ⟨rel_pumpWrite lengthRel s rc, rel_pumpWrite execsLenRel.toWriteRel s rc⟩

/-- a refused (`none`) `startRequest` leaves table and executions alone -/
theorem startRequest_none_shrink (s : St) (now id d : Nat) (tr : Trace) (b : Nat)
    (h : (startRequest s now id d tr b).2 = none) : Shrink s (startRequest s now id d tr b).1 := by
  rcases startRequest_cases s now id d tr b with ⟨_, h1⟩ | ⟨_, _, h1⟩ | ⟨_, _, _, _, _, h1⟩
  · rw [h1]; exact Shrink.refl s
  · rw [h1]; exact ⟨Nat.le_refl _, Nat.le_refl _⟩
  · rw [h1] at h; cases h

/-- what an accepted `startRequest` produced -/
structure Started (s0 s' : St) (ex : Exec) : Prop where
  rid : ex.rid = s0.execs.length
  phase : ex.phase = .offered
  vis : ex.vis = none
  aborted : ex.aborted = false
  inflight : ∃ key rem due, s'.inflight = s0.inflight ++
    [{ id := ex.id, timerKey := key, rid := ex.rid, remainder := rem, dueAt := due }]
  execs : s'.execs = s0.execs ++ [ex]
  untracked : findEntry s0 ex.id = none

theorem startRequest_some (s : St) (now id d : Nat) (tr : Trace) (b : Nat) (s' : St) (ex : Exec)
    (h : startRequest s now id d tr b = (s', some ex)) : Started s s' ex ∧ ex.id = id := by
  rcases startRequest_cases s now id d tr b with ⟨_, h1⟩ | ⟨_, _, h1⟩ | ⟨hf, _, key, _, _, h1⟩
  · rw [h1] at h; cases h
  · rw [h1] at h; cases h
  · rw [h1] at h
    simp only [Prod.mk.injEq, Option.some.injEq] at h
    obtain ⟨rfl, rfl⟩ := h
    exact ⟨⟨rfl, rfl, rfl, rfl, ⟨key, _, _, rfl⟩, rfl, hf⟩, rfl⟩

/-- **`BaseChannel::poll_next` yields only what it just started**: some intermediate state `s0`
(reached from `s` by removals only) accepted the request. -/
theorem basePollNext_some (fuel : Nat) (s : St) (now : Nat) (s' : St) (ex : Exec) :
    basePollNext fuel s now = (s', .some ex) → ∃ s0, Shrink s s0 ∧ Started s0 s' ex := by
  induction fuel generalizing s with
  | zero => intro h; rw [basePollNext_zero] at h; cases h
  | succ fuel ih =>
    intro h
    rw [basePollNext_succ] at h
    have h2 : Shrink s (pollExpired (baseCancelStep s).1 now).1 :=
      (shrink_baseCancelStep s).trans (shrink_pollExpired _ _)
    split at h
    · cases h
    · revert h h2
      generalize (pollExpired (baseCancelStep s).1 now).1 = s2
      generalize (baseCancelStep s).2 = cst
      generalize estOf _ = est
      intro h2 h
      unfold baseReadStep at h
      split at h
      · cases h
      · pair_subst
        rename_i id d tr b hps
        have h3 := h2.trans (shrink_tNext s2)
        split at h
        · rename_i s4 ex' heq
          simp only [Prod.mk.injEq, SPoll.some.injEq] at h
          obtain ⟨rfl, rfl⟩ := h
          exact ⟨_, h3, (startRequest_some _ _ _ _ _ _ _ _ heq).1⟩
        · rename_i s4 heq
          have h4 : Shrink s s4 := by
            have := startRequest_none_shrink (tNext s2).1 now id d tr b (by rw [heq])
            rw [heq] at this
            exact h3.trans this
          split at h
          · cases h
          · obtain ⟨s0, h5, h6⟩ := ih _ h
            exact ⟨s0, h4.trans h5, h6⟩
      · pair_subst
        have h3 := h2.trans (shrink_tNext s2)
        split at h
        rename_i s5 rst heq
        have h4 : Shrink s s5 := by
          split at heq <;> cases heq
          · exact h3.trans (shrink_cancelRequest _ _)
          · exact h3
          · exact h3
          · exact h3
        split at h
        · cases h
        · split at h
          · obtain ⟨s0, h5, h6⟩ := ih _ h
            exact ⟨s0, h4.trans h5, h6⟩
          · cases h
          · cases h

theorem Started.length {s0 s' : St} {ex : Exec} (h : Started s0 s' ex) :
    s'.inflight.length = s0.inflight.length + 1 := by
  obtain ⟨key, rem, due, hk⟩ := h.inflight; simp [hk]

theorem Started.rid_lt {s0 s' : St} {ex : Exec} (h : Started s0 s' ex) : ex.rid < s'.execs.length := by
  rw [h.execs, h.rid]; simp

/-- the new entry is the one `findEntry` returns for the id -/
theorem Started.findEntry {s0 s' : St} {ex : Exec} (h : Started s0 s' ex) :
    ∃ key rem due, findEntry s' ex.id =
      some { id := ex.id, timerKey := key, rid := ex.rid, remainder := rem, dueAt := due } := by
  obtain ⟨key, rem, due, hk⟩ := h.inflight
  refine ⟨key, rem, due, ?_⟩
  have hn := h.untracked
  unfold Server.findEntry at hn ⊢
  rw [hk, List.find?_append, hn]
  simp

/-- summary used by the limiter lemmas -/
structure YieldOK (s s' : St) (ex : Exec) : Prop where
  fresh : s.execs.length ≤ ex.rid
  lt : ex.rid < s'.execs.length
  pos : 1 ≤ s'.inflight.length

theorem basePollNext_some_yield (fuel : Nat) (s : St) (now : Nat) (s' : St) (ex : Exec)
    (h : basePollNext fuel s now = (s', .some ex)) :
    YieldOK s s' ex ∧ s'.inflight.length ≤ s.inflight.length + 1 := by
  obtain ⟨s0, h1, h2⟩ := basePollNext_some fuel s now s' ex h
  have := h2.length
  have := h1.1
  have := h1.2
  exact ⟨⟨by rw [h2.rid]; omega, h2.rid_lt, by omega⟩, by omega⟩

theorem YieldOK.mono {a s s' : St} {ex : Exec} (h : YieldOK s s' ex) (ha : a.execs.length ≤ s.execs.length) :
    YieldOK a s' ex := ⟨Nat.le_trans ha h.fresh, h.lt, h.pos⟩

/-- **C12 core (as found)**: what `MaxRequests::poll_next` hands out never takes the table above the
limit, and is a freshly created execution. -/
theorem limitedPollNextLegacy_some (limit fuel : Nat) (s : St) (now : Nat) (s' : St) (ex : Exec) :
    limitedPollNextLegacy limit fuel s now = (s', .some ex) →
    YieldOK s s' ex ∧ s'.inflight.length ≤ limit := by
  induction fuel generalizing s with
  | zero => intro h; simp [limitedPollNextLegacy] at h
  | succ fuel ih =>
    intro h
    unfold limitedPollNextLegacy at h
    split at h
    · split at h
      · cases h
      · cases h
      · pair_subst
        split at h
        · pair_subst
          rename_i ex0 _
          split at h
          · cases h
          · pair_subst
            obtain ⟨h1, h2⟩ := ih _ h
            refine ⟨h1.mono ?_, h2⟩
            have e1 : s.execs.length = (tReady s).1.execs.length := by simp
            have e2 := rel_basePollNext execsLenRel.toBaseRel (baseFuel (tReady s).1) (tReady s).1 now
            simp only [markThrottled_eq, updExec, List.length_map, baseStartSend_execs] at *
            omega
        · rename_i hne
          exact absurd h (hne _ _)
    · rename_i hlt
      obtain ⟨h1, h2⟩ := basePollNext_some_yield _ _ _ _ _ h
      exact ⟨h1, by omega⟩

/-- **C12 core (variant deciding after the read)**. -/
theorem limitedPollNextFixed_some (limit fuel : Nat) (s : St) (now : Nat) (s' : St) (ex : Exec) :
    limitedPollNextFixed limit fuel s now = (s', .some ex) →
    YieldOK s s' ex ∧ s'.inflight.length ≤ limit := by
  induction fuel generalizing s with
  | zero => intro h; simp [limitedPollNextFixed] at h
  | succ fuel ih =>
    intro h
    unfold limitedPollNextFixed at h
    simp only [] at h
    have key : ∀ s1, s.execs.length ≤ s1.execs.length →
        (match basePollNext (baseFuel s1) s1 now with
          | (s, .some ex) =>
              if s.inflight.length > limit then
                match baseStartSend s ex.id (Res.err throttleKindIdx) with
                | (s, some false) => (s, SPoll.err Activity.write)
                | (s, _) =>
                    limitedPollNextFixed limit fuel (updExec s ex.rid (fun e => { e with phase := .gone, woken := false })) now
              else (s, SPoll.some ex)
          | r => r) = (s', SPoll.some ex) → YieldOK s s' ex ∧ s'.inflight.length ≤ limit := by
      intro s1 hs1 h
      split at h
      · rename_i s2 ex0 heq
        have e2 := rel_basePollNext execsLenRel.toBaseRel (baseFuel s1) s1 now
        rw [heq] at e2
        split at h
        · split at h
          · cases h
          · pair_subst
            obtain ⟨h1, h2⟩ := ih _ h
            refine ⟨h1.mono ?_, h2⟩
            simp only [updExec, List.length_map, baseStartSend_execs] at *
            omega
        · rename_i hle
          simp only [Prod.mk.injEq, SPoll.some.injEq] at h
          obtain ⟨rfl, rfl⟩ := h
          obtain ⟨h1, _⟩ := basePollNext_some_yield _ _ _ _ _ heq
          exact ⟨h1.mono hs1, by omega⟩
      · rename_i hne
        exact absurd h (hne _ _)
    split at h
    · rename_i heq
      cases h
      split at heq
      · split at heq <;> cases heq
      · cases heq
    · rename_i heq
      split at heq
      · split at heq <;> cases heq
        pair_subst
        exact key _ (by simp) h
      · cases heq
        exact key _ (Nat.le_refl _) h

theorem channelPollNext_some (s : St) (now : Nat) (s' : St) (ex : Exec)
    (h : channelPollNext s now = (s', .some ex)) :
    YieldOK s s' ex ∧ ∀ L, s.limit = some L → s'.inflight.length ≤ L := by
  unfold channelPollNext at h
  split at h
  · rename_i hl
    exact ⟨(basePollNext_some_yield _ _ _ _ _ h).1, by simp [hl]⟩
  · rename_i l hl
    split at h
    · obtain ⟨h1, h2⟩ := limitedPollNextFixed_some _ _ _ _ _ _ h
      exact ⟨h1, by intro L hL; rw [hl] at hL; cases hL; exact h2⟩
    · obtain ⟨h1, h2⟩ := limitedPollNextLegacy_some _ _ _ _ _ _ h
      exact ⟨h1, by intro L hL; rw [hl] at hL; cases hL; exact h2⟩

/-- **C12 (state form): never over the limit.**  When `Requests::poll_next` hands out a request,
at most `L` requests are tracked (the new one included, unless a queued response already answered
it); the request is a freshly created execution. -/
theorem requestsPollNext_item (fuel : Nat) (s : St) (now : Nat) (s' : St) (rid : Nat) :
    requestsPollNext fuel s now = (s', .item rid) →
    (∀ L, s.limit = some L → s'.inflight.length ≤ L ∧ 1 ≤ L) ∧ s.execs.length ≤ rid ∧ rid < s'.execs.length := by
  induction fuel generalizing s with
  | zero => intro h; simp [requestsPollNext] at h
  | succ fuel ih =>
    intro h
    rw [requestsPollNext_succ] at h
    split at h
    · cases h
    · cases h
    · rename_i s1 read _ _ heq
      have hsh := shrink_pumpWrite (armGuard s1 read) (readClosedOf read)
      have hq := quiet_armGuard s1 read
      have hl1 : s1.limit = s.limit := by
        have := (rel_channelPollNext limitRel s now).1; rw [heq] at this; exact this
      have he1 : s.execs.length ≤ s1.execs.length := by
        have := rel_channelPollNext execsLenRel s now; rw [heq] at this; exact this
      have hl2 : (pumpWrite (armGuard s1 read) (readClosedOf read)).1.limit = s.limit := by
        rw [(rel_pumpWrite limitRel.toWriteRel _ _).1, hq.limit, hl1]
      revert h hsh hl2
      generalize pumpWrite (armGuard s1 read) (readClosedOf read) = p
      obtain ⟨s3, w⟩ := p
      intro h hsh hl2
      simp only at hsh hl2
      unfold requestsTail at h
      split at h
      · cases h
      · cases h
      · rename_i heq3
        cases heq3
        split at h
        · cases h
        · rename_i ex _ _
          simp only [Prod.mk.injEq, ReqPoll.item.injEq] at h
          obtain ⟨rfl, rfl⟩ := h
          obtain ⟨h1, h2⟩ := channelPollNext_some s now s1 ex heq
          have a1 := hsh.1; have a2 := hsh.2
          rw [hq.inflight] at a1
          rw [hq.execs_length] at a2
          refine ⟨?_, h1.fresh, by have := h1.lt; omega⟩
          intro L hL
          have := h2 L hL
          have := h1.pos
          exact ⟨by omega, by omega⟩
        · obtain ⟨h1, h2, h3⟩ := ih _ h
          refine ⟨fun L hL => h1 L (by rw [hl2]; exact hL), ?_, h3⟩
          have a2 := hsh.2
          rw [hq.execs_length] at a2
          omega
        · cases h

/-! ## further mechanism lemmas used by the property files -/

theorem getExec_updExec_ne (s : St) (rid r : Nat) (f : Exec → Exec) (hf : ∀ e, (f e).rid = e.rid) (hne : r ≠ rid) :
    getExec (updExec s rid f) r = getExec s r := by
  simp only [getExec, updExec, List.find?_map]
  have hpg : ((fun x : Exec => x.rid == r) ∘ fun e => if e.rid == rid then f e else e)
      = (fun x : Exec => x.rid == r) := by
    funext x; simp only [Function.comp]; split <;> simp [hf]
  rw [hpg]
  cases hfd : s.execs.find? (fun x => x.rid == r) with
  | none => rfl
  | some y =>
    have hy : y.rid = r := by simpa using List.find?_some hfd
    have : ¬ y.rid = rid := by rw [hy]; exact hne
    simp [this]

theorem getExec_wakeExec_ne (s : St) (rid r : Nat) (hne : r ≠ rid) : getExec (wakeExec s rid) r = getExec s r := by
  unfold wakeExec
  (repeat' split) <;> first | rfl | (simp only [getExec, emit]; exact getExec_updExec_ne _ _ _ _ (fun _ => rfl) hne)

theorem getExec_abortExec_ne (s : St) (rid r : Nat) (hne : r ≠ rid) : getExec (abortExec s rid) r = getExec s r := by
  unfold abortExec
  split
  · rfl
  · split
    · rw [getExec_wakeExec_ne _ _ _ hne]; exact getExec_updExec_ne _ _ _ _ (fun _ => rfl) hne
    · exact getExec_updExec_ne _ _ _ _ (fun _ => rfl) hne

/-- the handler runs: it is polled, or it returns -/
def handlerRuns : Obs → Bool
  | .handler _ .polled _ => true
  | .handler _ .completed _ => true
  | _ => false

theorem wakeExec_runs (s : St) (rid : Nat) : (wakeExec s rid).obs.filter handlerRuns = s.obs.filter handlerRuns := by
  unfold wakeExec; (repeat' split) <;> simp [emit, updExec, handlerRuns]

theorem rqRelease_runs (s : St) : (rqRelease s).obs.filter handlerRuns = s.obs.filter handlerRuns := by
  unfold rqRelease; split
  · rw [wakeExec_runs]
  · rfl

theorem mem_updExec {s : St} {rid : Nat} {f : Exec → Exec} {x : Exec} (hx : x ∈ (updExec s rid f).execs) :
    ∃ y ∈ s.execs, x = if y.rid == rid then f y else y := by
  simp only [updExec, List.mem_map] at hx
  obtain ⟨y, hy, rfl⟩ := hx
  exact ⟨y, hy, rfl⟩

/-- what `BaseChannel::start_send` does, by whether the id is tracked -/
theorem baseStartSend_spec (s : St) (id : Nat) (res : Res) :
    (findEntry s id = none ∧ baseStartSend s id res = (s, none))
    ∨ (∃ e ok, findEntry s id = some e
        ∧ (baseStartSend s id res).2 = some ok
        ∧ (baseStartSend s id res).1.obs.head? = some (.tSend (tid s) (.response id res) ok)
        ∧ (baseStartSend s id res).1.inflight = s.inflight.filter (·.id != id)
        ∧ findEntry (baseStartSend s id res).1 id = none
        ∧ (∀ q w, s.timers.remove e.timerKey = some (q, w) → (baseStartSend s id res).1.timers = q)) := by
  rcases removeRequest_cases s id with ⟨hf, h1⟩ | ⟨e, hf, h1⟩
  · left
    refine ⟨hf, ?_⟩
    rcases baseStartSend_cases s id res with ⟨_, h2⟩ | ⟨h0, _⟩
    · rw [h2, h1]
    · rw [h1] at h0; cases h0
  · right
    rcases baseStartSend_cases s id res with ⟨h0, _⟩ | ⟨_, h2⟩
    · rw [h1] at h0; cases h0
    · refine ⟨e, (tSend (removeRequest s id).1 (.response id res)).2, hf, by rw [h2], ?_, ?_, ?_, ?_⟩
      · rw [h2]; simp [tSend, tid]
      · rw [h2, h1]; simp
      · rw [h2, h1]
        simp only [findEntry, tSend_inflight, removeTimer_inflight, List.find?_filter]
        simp [List.find?_eq_none]
      · intro q w hq
        rw [h2, h1]
        simp only [tSend_timers]
        rw [removeTimer_of_some (s := { s with inflight := s.inflight.filter (·.id != id) }) hq]
        cases w <;> simp


end TarpcModel.Server

import TarpcModel.Lemmas.ClientTRel
import TarpcModel.Lemmas.ClientOwed
import TarpcModel.Lemmas.ClientTop
/-!
The write clauses of the client's C14 monitor (`checkC14Obs`, `.tSend`: no write after a reported failure, after the
close, or without a preceding `poll_ready → Ready`) on traces of the client model.

The monitor's state is a fold over the transport observations; three of its fields *are* fields of the instrumented
transport (`Cpl`: `gotReady`, `closed`, `failed`), because the dispatch does nothing to its transport but the five calls
it observes (`Flow.TRel`, `Lemmas/ClientTRel.lean`).  A write the monitor would object to is one at which the transport
records one of the violations `Flow.sendViols` — and its log only grows, and is free of them in every reachable state
(`Flow.Inv`).
-/
set_option linter.unusedSimpArgs false
set_option linter.unusedVariables false
namespace TarpcModel.Client
open Flow

namespace Flow.SimT
open TarpcModel.SimT

theorem pollReady_gotReady2 (t : SimT) : t.pollReady.1.gotReady = (t.gotReady || t.pollReady.2.1 == .ready) := by
  by_cases h1 : t.faultReady = true <;> by_cases h0 : t.faultSkip = 0 <;> by_cases h2 : t.isReadyNow = true <;> simp [pollReady, fires, h0, h1, h2]

theorem pollFlush_gotReady (t : SimT) : t.pollFlush.1.gotReady = t.gotReady := by
  by_cases h1 : t.faultFlush = true <;> by_cases h0 : t.faultSkip = 0 <;>
    by_cases h2 : (t.coupled && !t.flushOpen && !t.buffered.isEmpty) = true <;>
    simp [pollFlush, fires, h0, h1, h2, drain_gotReady]

theorem pollClose_gotReady (t : SimT) : t.pollClose.1.gotReady = t.gotReady := by
  by_cases h1 : t.faultClose = true <;> by_cases h0 : t.faultSkip = 0 <;>
    by_cases h2 : (t.coupled && !t.flushOpen && !t.buffered.isEmpty) = true <;>
    simp [pollClose, fires, h0, h1, h2, drain_gotReady]

end Flow.SimT

namespace M14

/-! ## the monitor's state as a fold; its write clauses -/

/-- the write clauses of `checkC14Obs` -/
def badSend (st : C14St) : Obs → Bool
  | .tSend _ _ _ => st.failed || st.closed || !st.gotReady
  | _ => false

def wstep (p : C14St × Bool) (o : Obs) : C14St × Bool := ((checkC14Obs p.1 o).1, p.2 || badSend p.1 o)

/-- (chronological order) -/
def wfl (p : C14St × Bool) (os : List Obs) : C14St × Bool := os.foldl wstep p

theorem wstep_nonT (p : C14St × Bool) (o : Obs) (h : isT o = false) : wstep p o = p := by
  obtain ⟨st, bd⟩ := p
  cases o with
  | ret t r =>
    have : (checkC14Obs st (.ret t r)).1 = st := by
      simp only [checkC14Obs]
      (repeat' split) <;> rfl
    show ((checkC14Obs st (.ret t r)).1, bd || false) = (st, bd)
    rw [this, Bool.or_false]
  | tReady ep r => cases h
  | tSend ep m ok => cases h
  | tFlush ep r => cases h
  | tClose ep r => cases h
  | tNext ep r => cases h
  | tViolation ep w => cases h
  | spin t => cases h
  | _ => simp [wstep, badSend, checkC14Obs]

theorem wstep_viol (p : C14St × Bool) (ep : TaskId) (w : String) : wstep p (.tViolation ep w) = p := by
  simp [wstep, badSend, checkC14Obs]

theorem wstep_spin (p : C14St × Bool) (t : TaskId) : wstep p (.spin t) = p := by
  simp [wstep, badSend, checkC14Obs]

theorem wfl_id (p : C14St × Bool) : ∀ (l : List Obs), (∀ o ∈ l, wstep p o = p) → wfl p l = p := by
  intro l
  induction l with
  | nil => intro _; rfl
  | cons o l ih =>
    intro h
    show wfl (wstep p o) l = p
    rw [h o (List.mem_cons_self ..)]
    exact ih (fun o' ho' => h o' (List.mem_cons_of_mem _ ho'))

theorem wfl_filter (l : List Obs) : ∀ p, wfl p l = wfl p (l.filter isT) := by
  induction l with
  | nil => intro p; rfl
  | cons o l ih =>
    intro p
    cases h : isT o with
    | false =>
      rw [List.filter_cons_of_neg (by simp [h])]
      show wfl (wstep p o) l = _
      rw [wstep_nonT p o h]; exact ih p
    | true =>
      rw [List.filter_cons_of_pos h]
      exact ih (wstep p o)

theorem wfl_append (p : C14St × Bool) (l1 l2 : List Obs) : wfl p (l1 ++ l2) = wfl (wfl p l1) l2 := by
  unfold wfl; rw [List.foldl_append]

/-- the fold over the observation buffer of a state (stored newest first) -/
def W (f0 : C14St × Bool) (s : St) : C14St × Bool := wfl f0 s.obs.reverse

theorem W_frameA {f0 : C14St × Bool} {s s' : St} (h : FrameA s s') : W f0 s' = W f0 s := by
  unfold W
  rw [wfl_filter, wfl_filter s.obs.reverse, List.filter_reverse, List.filter_reverse, h.tobs]

theorem W_tEmit (f0 : C14St × Bool) (s : St) (t' : SimT) (o : Obs) (w : Bool) :
    W f0 (tEmit s t' o w) = wstep (W f0 s) o := by
  have hv : ∀ p, wfl p (newViolObs s t').reverse = p := by
    intro p
    apply wfl_id
    intro x hx
    obtain ⟨v, _, rfl⟩ := mem_newViolObs (List.mem_reverse.mp hx)
    exact wstep_viol p _ _
  unfold W
  rw [tEmit_eq']
  split
  · simp only [List.reverse_cons, List.reverse_append, wfl_append, hv]
    show wstep (wstep (wfl f0 s.obs.reverse) o) (.wake (.dispatch s.k)) = _
    rw [wstep_nonT _ _ rfl]
  · simp only [List.reverse_cons, List.reverse_append, wfl_append, hv]
    rfl

theorem W_cons (f0 : C14St × Bool) (s s' : St) (o : Obs) (h : s'.obs = o :: s.obs) : W f0 s' = wstep (W f0 s) o := by
  unfold W
  rw [h, List.reverse_cons, wfl_append]
  rfl

/-! ## the coupling with the transport -/

structure Cpl (st : C14St) (t : SimT) : Prop where
  gotReady : st.gotReady = t.gotReady
  closed : st.closed = t.closed
  failed : st.failed = t.failed

/-- the coupling holds and no write clause has fired -/
def Good (f0 : C14St × Bool) (s : St) : Prop := Cpl (W f0 s).1 s.t ∧ (W f0 s).2 = false

/-- the relation walked through the dispatch: the transport's log grows; if it is still free of `sendViols` afterwards,
the coupling is kept and no write clause fired -/
def RW (s s' : St) : Prop :=
  s'.ensureLoop = s.ensureLoop ∧ (∀ w ∈ s.t.violations, w ∈ s'.t.violations) ∧
    ∀ f0, Good f0 s → SV s'.t → Good f0 s'

theorem proj_tReady (st : C14St) (ep : TaskId) (r : PollRes) :
    (checkC14Obs st (.tReady ep r)).1.gotReady = (st.gotReady || r == .ready) ∧
    (checkC14Obs st (.tReady ep r)).1.closed = st.closed ∧
    (checkC14Obs st (.tReady ep r)).1.failed = (st.failed || r == .err) := by
  cases r with
  | ready => simp [checkC14Obs]
  | err => simp [checkC14Obs]
  | pending =>
    simp only [checkC14Obs]
    split <;> simp

theorem proj_tFlush (st : C14St) (ep : TaskId) (r : PollRes) :
    (checkC14Obs st (.tFlush ep r)).1.gotReady = st.gotReady ∧
    (checkC14Obs st (.tFlush ep r)).1.closed = st.closed ∧
    (checkC14Obs st (.tFlush ep r)).1.failed = (st.failed || r == .err) := by
  cases r <;> simp [checkC14Obs]

theorem proj_tClose (st : C14St) (ep : TaskId) (r : PollRes) :
    (checkC14Obs st (.tClose ep r)).1.gotReady = st.gotReady ∧
    (checkC14Obs st (.tClose ep r)).1.closed = (st.closed || r == .ready) ∧
    (checkC14Obs st (.tClose ep r)).1.failed = (st.failed || r == .err) := by
  cases r <;> simp [checkC14Obs]

theorem proj_tSend (st : C14St) (ep : TaskId) (m : Msg) (ok : Bool) :
    (checkC14Obs st (.tSend ep m ok)).1.gotReady = false ∧
    (checkC14Obs st (.tSend ep m ok)).1.closed = st.closed ∧
    (checkC14Obs st (.tSend ep m ok)).1.failed = st.failed := by
  simp only [checkC14Obs]
  (repeat' split) <;> exact ⟨rfl, rfl, rfl⟩

theorem proj_tNext (st : C14St) (ep : TaskId) (r : NextRes) :
    (checkC14Obs st (.tNext ep r)).1.gotReady = st.gotReady ∧
    (checkC14Obs st (.tNext ep r)).1.closed = st.closed ∧
    (checkC14Obs st (.tNext ep r)).1.failed = st.failed := by
  simp [checkC14Obs]


/-! ## the relation is closed under everything the dispatch does -/

theorem sv_mono {t t' : SimT} (h : ∀ w ∈ t.violations, w ∈ t'.violations) (hs : SV t') : SV t :=
  fun w hw => hs w (h w hw)

/-- a transport call of the shape `tEmit` -/
theorem RW_call (s : St) (t' : SimT) (o : Obs) (w : Bool)
    (hm : ∀ x ∈ s.t.violations, x ∈ t'.violations)
    (hc : ∀ st, Cpl st s.t → SV t' → Cpl (checkC14Obs st o).1 t' ∧ badSend st o = false) :
    RW s (tEmit s t' o w) := by
  refine ⟨tEmit_ensureLoop _ _ _ _, by rw [tEmit_t]; exact hm, ?_⟩
  intro f0 hg hsv
  rw [tEmit_t] at hsv
  obtain ⟨h1, h2⟩ := hc (W f0 s).1 hg.1 hsv
  unfold Good
  rw [W_tEmit, tEmit_t]
  exact ⟨h1, by show ((W f0 s).2 || badSend (W f0 s).1 o) = false; rw [hg.2, h2]; rfl⟩

theorem useAfter_mono (t : SimT) (what : String) : ∀ x ∈ t.violations, x ∈ (t.useAfter what).violations :=
  (SimT.useAfter_adds t what).mono

/-- a write the monitor objects to is one at which the transport records a violation -/
theorem startSend_bad_viol (t : SimT) (m : Msg) (h : t.failed = true ∨ t.closed = true ∨ t.gotReady = false) :
    ∃ w ∈ (t.startSend m).1.violations, w ∈ sendViols := by
  have hv := SimT.startSend_violations t m
  have hu := SimT.useAfter_violations t "send"
  by_cases hg : t.gotReady = true
  · rw [hg] at hv
    simp only [if_true] at hv
    rcases h with hf | hc | hg'
    · rcases hu with h1 | ⟨_, h1⟩ | ⟨h0, _, _⟩
      · exfalso
        rcases SimT.useAfter_eq t "send" with h2 | ⟨_, h2⟩ | ⟨h0, _, _⟩
        · unfold TarpcModel.SimT.useAfter at h2
          rw [if_pos hf] at h2
          have := congrArg TarpcModel.SimT.violations h2
          simp [TarpcModel.SimT.violate] at this
        · rw [h2] at h1
          simp [TarpcModel.SimT.violate] at h1
        · rw [hf] at h0; cases h0
      · exact ⟨"send-after-failure", by rw [hv, h1]; exact List.mem_cons_self .., by decide⟩
      · rw [hf] at h0; cases h0
    · by_cases hf : t.failed = true
      · rcases hu with h1 | ⟨_, h1⟩ | ⟨h0, _, _⟩
        · exfalso
          unfold TarpcModel.SimT.useAfter at h1
          rw [if_pos hf] at h1
          simp [TarpcModel.SimT.violate] at h1
        · exact ⟨"send-after-failure", by rw [hv, h1]; exact List.mem_cons_self .., by decide⟩
        · rw [hf] at h0; cases h0
      · have hf' : t.failed = false := by simpa using hf
        rcases hu with h1 | ⟨h0, _⟩ | ⟨_, _, h1⟩
        · exfalso
          unfold TarpcModel.SimT.useAfter at h1
          rw [if_neg hf, if_pos hc] at h1
          simp [TarpcModel.SimT.violate] at h1
        · rw [hf'] at h0; cases h0
        · exact ⟨"send-after-close", by rw [hv, h1]; exact List.mem_cons_self .., by decide⟩
    · rw [hg] at hg'; cases hg'
  · have hg' : t.gotReady = false := by simpa using hg
    rw [hg'] at hv
    simp only [Bool.false_eq_true, if_false] at hv
    exact ⟨"send-without-ready", by rw [hv]; exact List.mem_cons_self .., by decide⟩

theorem RW.refl (s : St) : RW s s := ⟨rfl, fun _ h => h, fun _ h _ => h⟩

theorem RW.trans {a b c : St} (h1 : RW a b) (h2 : RW b c) : RW a c :=
  ⟨h2.1.trans h1.1, fun w hw => h2.2.1 w (h1.2.1 w hw),
    fun f0 hg hsv => h2.2.2 f0 (h1.2.2 f0 hg (sv_mono h2.2.1 hsv)) hsv⟩

theorem RW.of_same {s s' : St} (he : s'.ensureLoop = s.ensureLoop) (ht : s'.t = s.t) (hw : ∀ f0, W f0 s' = W f0 s) :
    RW s s' :=
  ⟨he, by rw [ht]; exact fun _ h => h, fun f0 hg _ => by unfold Good; rw [hw f0, ht]; exact hg⟩

theorem rw_trel : TRel RW where
  refl := RW.refl
  trans := RW.trans
  el := fun h => h.1
  frameA := fun h => RW.of_same h.ensureLoop h.t (fun f0 => W_frameA h)
  ready := fun s => by
    rw [tReady_eq]
    refine RW_call s _ _ _ (by rw [SimT.pollReady_violations]; exact useAfter_mono _ _) ?_
    intro st hc _
    obtain ⟨p1, p2, p3⟩ := proj_tReady st (tid s) s.t.pollReady.2.1
    exact ⟨⟨by rw [p1, SimT.pollReady_gotReady2, hc.gotReady], by rw [p2, SimT.pollReady_closed, hc.closed],
      by rw [p3, SimT.pollReady_failed, hc.failed]⟩, rfl⟩
  flush := fun s => by
    rw [tFlush_eq]
    refine RW_call s _ _ _ (by rw [SimT.pollFlush_violations]; exact useAfter_mono _ _) ?_
    intro st hc _
    obtain ⟨p1, p2, p3⟩ := proj_tFlush st (tid s) s.t.pollFlush.2.1
    exact ⟨⟨by rw [p1, SimT.pollFlush_gotReady, hc.gotReady], by rw [p2, SimT.pollFlush_closed, hc.closed],
      by rw [p3, SimT.pollFlush_failed, hc.failed]⟩, rfl⟩
  close := fun s => by
    rw [tClose_eq]
    refine RW_call s _ _ _ (by rw [SimT.pollClose_violations]; exact useAfter_mono _ _) ?_
    intro st hc _
    obtain ⟨p1, p2, p3⟩ := proj_tClose st (tid s) s.t.pollClose.2.1
    exact ⟨⟨by rw [p1, SimT.pollClose_gotReady, hc.gotReady], by rw [p2, SimT.pollClose_closed, hc.closed],
      by rw [p3, SimT.pollClose_failed, hc.failed]⟩, rfl⟩
  send := fun s m => by
    rw [tSend_eq]
    refine RW_call s _ _ _ (SimT.startSend_adds s.t m).mono ?_
    intro st hc hsv
    obtain ⟨p1, p2, p3⟩ := proj_tSend st (tid s) m (s.t.startSend m).2
    refine ⟨⟨by rw [p1, SimT.startSend_gotReady], by rw [p2, SimT.startSend_closed, hc.closed],
      by rw [p3, SimT.startSend_failed, hc.failed]⟩, ?_⟩
    show (st.failed || st.closed || !st.gotReady) = false
    cases hb : (st.failed || st.closed || !st.gotReady) with
    | false => rfl
    | true =>
      exfalso
      have hbad : s.t.failed = true ∨ s.t.closed = true ∨ s.t.gotReady = false := by
        rw [← hc.failed, ← hc.closed, ← hc.gotReady]
        simp only [Bool.or_eq_true, Bool.not_eq_true'] at hb
        rcases hb with (h | h) | h
        · exact Or.inl h
        · exact Or.inr (Or.inl h)
        · exact Or.inr (Or.inr h)
      obtain ⟨w, hw1, hw2⟩ := startSend_bad_viol s.t m hbad
      exact hsv w hw1 hw2
  next := fun s => by
    rw [tNext_eq]
    split
    · exact RW.refl s
    · refine ⟨rfl, by show ∀ w ∈ s.t.violations, w ∈ s.t.pollNext.1.violations; rw [SimT.pollNext_violations]; exact fun _ h => h, ?_⟩
      intro f0 hg _
      show Cpl (wfl f0 (.tNext (tid s) s.t.pollNext.2 :: s.obs).reverse).1 s.t.pollNext.1 ∧
        (wfl f0 (.tNext (tid s) s.t.pollNext.2 :: s.obs).reverse).2 = false
      rw [List.reverse_cons, wfl_append]
      show Cpl (wstep (W f0 s) (.tNext (tid s) s.t.pollNext.2)).1 s.t.pollNext.1 ∧
        (wstep (W f0 s) (.tNext (tid s) s.t.pollNext.2)).2 = false
      obtain ⟨p1, p2, p3⟩ := proj_tNext (W f0 s).1 (tid s) s.t.pollNext.2
      exact ⟨⟨by show _ = s.t.pollNext.1.gotReady; rw [SimT.pollNext_gotReady]; exact p1.trans hg.1.gotReady,
        by show _ = s.t.pollNext.1.closed; rw [SimT.pollNext_closed]; exact p2.trans hg.1.closed,
        by show _ = s.t.pollNext.1.failed; rw [SimT.pollNext_failed]; exact p3.trans hg.1.failed⟩,
        by show ((W f0 s).2 || false) = false; rw [hg.2]; rfl⟩
  term := fun s a => RW.of_same rfl rfl (fun _ => rfl)
  spin := fun s => RW.of_same rfl rfl (fun f0 => by
    rw [W_cons f0 s _ (.spin (tid s)) rfl]
    exact wstep_spin _ _)

/-- what the external transport events keep -/
def XT (t t' : SimT) : Prop := ExtT t t' ∧ t'.gotReady = t.gotReady

theorem RW_ext (s : St) (t' : SimT) (hx : XT s.t t') : RW s { s with t := t' } :=
  ⟨rfl, by show ∀ w ∈ s.t.violations, w ∈ t'.violations; rw [hx.1.violations]; exact fun _ h => h,
    fun f0 hg _ => ⟨⟨hg.1.gotReady.trans hx.2.symm, hg.1.closed.trans hx.1.closed.symm,
      hg.1.failed.trans hx.1.failed.symm⟩, hg.2⟩⟩

theorem wakeIfReady_gotReady (t : SimT) : t.wakeIfReady.1.gotReady = t.gotReady := by
  unfold TarpcModel.SimT.wakeIfReady; split <;> rfl

/-- **Every op** keeps the relation (fixed `ensure_writeable`). -/
theorem applyOp_RW (c : Sys) (op : COp) (hel : c.s.ensureLoop = false) : RW c.s (applyOp c op).s :=
  applyOp_trel rw_trel XT RW_ext (fun t i => ⟨inject_extT t i, rfl⟩) (fun t => ⟨setEof_extT t, rfl⟩)
    (fun t b => ⟨setReady_extT t b, wakeIfReady_gotReady _⟩) (fun t b => ⟨setFlush_extT t b, wakeIfReady_gotReady _⟩)
    (fun t k => ⟨armFault_extT t k, by cases k <;> rfl⟩) (fun t n => ⟨⟨rfl, rfl, rfl⟩, rfl⟩)
    (fun t b => ⟨⟨rfl, rfl, rfl⟩, rfl⟩) (fun t n => ⟨⟨rfl, rfl, rfl⟩, rfl⟩) c op hel


/-! ## the sub-monitor; every trace -/

/-- the write clauses of `checkC14` alone (the state is `checkC14`'s) -/
def checkC14Write (_ : Book) (s : C14St) : CEv → C14St × Option String
  | .op _ => ({ s with readyP := 0 }, none)
  | .obs o => ((checkC14Obs s o).1,
      if badSend s o then some "write after a reported failure, after the close, or without a preceding poll_ready → Ready"
      else none)

theorem wfl_bad (st : C14St) : ∀ (os : List Obs), (wfl (st, true) os).2 = true := by
  intro os
  induction os generalizing st with
  | nil => rfl
  | cons o os ih => exact ih _

/-- the monitor over the observations of one op: it follows the fold until the book is past a spin / panic -/
theorem mon_obs : ∀ (os : List Obs) (m : Mon C14St), m.bad = none → (wfl (m.st, false) os).2 = false →
    ((os.map CEv.obs).foldl (Mon.step checkC14Write) m).bad = none ∧
    (((os.map CEv.obs).foldl (Mon.step checkC14Write) m).book.spun = true ∨
      ((os.map CEv.obs).foldl (Mon.step checkC14Write) m).st = (wfl (m.st, false) os).1) := by
  intro os
  induction os with
  | nil => intro m hb _; exact ⟨hb, Or.inr rfl⟩
  | cons o os ih =>
    intro m hb hw
    simp only [List.map_cons, List.foldl_cons]
    cases hs : m.book.spun with
    | true =>
      -- frozen
      have hrun : ∀ (l : List Obs) (m1 : Mon C14St), m1.bad = none → m1.book.spun = true →
          ((l.map CEv.obs).foldl (Mon.step checkC14Write) m1).bad = none ∧
          ((l.map CEv.obs).foldl (Mon.step checkC14Write) m1).book.spun = true := by
        intro l
        induction l with
        | nil => intro m1 h1 h2; exact ⟨h1, h2⟩
        | cons o1 l ih1 =>
          intro m1 h1 h2
          simp only [List.map_cons, List.foldl_cons]
          refine ih1 _ ?_ ?_
          · rw [Mon.step_bad, h1]
            simp only [Mon.res, Mon.pre, h2, if_true]
          · rw [Mon.step_book, Book.spun_step, h2]; rfl
      obtain ⟨a1, a2⟩ := hrun (o :: os) m hb hs
      simp only [List.map_cons, List.foldl_cons] at a1 a2
      exact ⟨a1, Or.inl a2⟩
    | false =>
      have hb0 : badSend m.st o = false := by
        cases hbs : badSend m.st o with
        | false => rfl
        | true =>
          have : wfl (m.st, false) (o :: os) = wfl ((checkC14Obs m.st o).1, true) os := by
            show wfl (wstep (m.st, false) o) os = _
            unfold wstep; rw [hbs]; rfl
          rw [this, wfl_bad] at hw; cases hw
      have hst : (Mon.step checkC14Write m (.obs o)).st = (checkC14Obs m.st o).1 := by
        rw [Mon.step_st]; simp only [Mon.res, Mon.pre, hs, Bool.false_eq_true, if_false, checkC14Write]
      have hbd : (Mon.step checkC14Write m (.obs o)).bad = none := by
        rw [Mon.step_bad, hb]
        simp only [Mon.res, Mon.pre, hs, Bool.false_eq_true, if_false, checkC14Write, hb0]
      have hwf : wfl (m.st, false) (o :: os) = wfl ((Mon.step checkC14Write m (.obs o)).st, false) os := by
        show wfl (wstep (m.st, false) o) os = _
        unfold wstep; rw [hb0, hst]; rfl
      rw [hwf] at hw ⊢
      exact ih _ hbd hw

/-- between ops -/
structure J14 (m : Mon C14St) (c : Sys) : Prop where
  bad : m.bad = none
  inv : Flow.Inv c.s
  el : c.s.ensureLoop = false
  cpl : m.book.spun = true ∨ Cpl m.st c.s.t

theorem c14w_trace (ops : List COp) : ∀ (c : Sys) (m : Mon C14St), J14 m c →
    ((trace c ops).foldl (Mon.step checkC14Write) m).bad = none := by
  induction ops with
  | nil => intro c m h; exact h.bad
  | cons op ops ih =>
    intro c m h
    rw [trace_cons, List.foldl_cons, List.foldl_append]
    -- the `op` event
    have hb1 : (Mon.step checkC14Write m (.op op)).bad = none := by
      rw [Mon.step_bad, h.bad]
      show (Mon.res checkC14Write m (.op op)).2 = none
      unfold Mon.res
      split <;> rfl
    have hbk1 : (Mon.step checkC14Write m (.op op)).book.spun = m.book.spun := by
      rw [Mon.step_book, Book.spun_step_op]
    have hcpl1 : (Mon.step checkC14Write m (.op op)).book.spun = true ∨
        Cpl (Mon.step checkC14Write m (.op op)).st c.s.t := by
      rcases h.cpl with hs | hc
      · exact Or.inl (hbk1.trans hs)
      · cases hs : m.book.spun with
        | true => exact Or.inl (hbk1.trans hs)
        | false =>
          right
          have : (Mon.step checkC14Write m (.op op)).st = { m.st with readyP := 0 } := by
            rw [Mon.step_st]
            simp only [Mon.res, Mon.pre, Book.endOp_spun, hs, Bool.false_eq_true, if_false, checkC14Write]
          rw [this]
          exact ⟨hc.gotReady, hc.closed, hc.failed⟩
    -- the op itself
    generalize hc0 : ({ c with s := { c.s with obs := [] } } : Sys) = c0
    have hobs0 : c0.s.obs = [] := by rw [← hc0]
    have ht0 : c0.s.t = c.s.t := by rw [← hc0]
    have hinv0 : Flow.Inv c0.s := by rw [← hc0]; exact h.inv.clearObs
    have hel0 : c0.s.ensureLoop = false := by rw [← hc0]; exact h.el
    have hrw := applyOp_RW c0 op hel0
    have hinv1 : Flow.Inv (applyOp c0 op).s := Flow.applyOp_inv op hinv0
    have hos : (stepOp c op).2 = (applyOp c0 op).s.obs.reverse := by rw [← hc0]; rfl
    have hnext : (stepOp c op).1 = { applyOp c0 op with s := { (applyOp c0 op).s with obs := [] } } := by
      rw [← hc0]; rfl
    generalize hm1 : Mon.step checkC14Write m (.op op) = m1 at hb1 hbk1 hcpl1
    have hJ : J14 (((stepOp c op).2.map CEv.obs).foldl (Mon.step checkC14Write) m1) (stepOp c op).1 := by
      have hinv2 : Flow.Inv (stepOp c op).1.s := by rw [hnext]; exact hinv1.clearObs
      have hel2 : (stepOp c op).1.s.ensureLoop = false := by rw [hnext]; exact hrw.1.trans hel0
      rcases hcpl1 with hs | hc
      · -- frozen
        have hrun : ∀ (l : List Obs) (m2 : Mon C14St), m2.bad = none → m2.book.spun = true →
            ((l.map CEv.obs).foldl (Mon.step checkC14Write) m2).bad = none ∧
            ((l.map CEv.obs).foldl (Mon.step checkC14Write) m2).book.spun = true := by
          intro l
          induction l with
          | nil => intro m2 h1 h2; exact ⟨h1, h2⟩
          | cons o1 l ih1 =>
            intro m2 h1 h2
            simp only [List.map_cons, List.foldl_cons]
            refine ih1 _ ?_ ?_
            · rw [Mon.step_bad, h1]
              simp only [Mon.res, Mon.pre, h2, if_true]
            · rw [Mon.step_book, Book.spun_step, h2]; rfl
        obtain ⟨a1, a2⟩ := hrun (stepOp c op).2 m1 hb1 hs
        exact ⟨a1, hinv2, hel2, Or.inl a2⟩
      · have hg0 : Good (m1.st, false) c0.s := by
          unfold Good W
          rw [hobs0, ht0]
          exact ⟨hc, rfl⟩
        have hg1 := hrw.2.2 (m1.st, false) hg0 hinv1.base.sv
        unfold Good W at hg1
        rw [← hos] at hg1
        obtain ⟨a1, a2⟩ := mon_obs (stepOp c op).2 m1 hb1 hg1.2
        refine ⟨a1, hinv2, hel2, ?_⟩
        rcases a2 with a2 | a2
        · exact Or.inl a2
        · right
          rw [a2, hnext]
          exact hg1.1
    exact ih _ _ hJ

theorem c14_write_accepts (m b tc : Nat) (coupled : Bool) (ops : List COp) :
    (Mon.run checkC14Write {} (trace (initSys m b tc coupled) ops)).bad = none :=
  c14w_trace ops _ _ ⟨rfl, Flow.initSys_inv m b tc coupled, (by show Gen.clientEnsureLoop = false; decide), Or.inr ⟨rfl, rfl, rfl⟩⟩

end M14
end TarpcModel.Client

import TarpcModel.Client.Run
import TarpcModel.Lemmas.DelayQInv
/-
Shared invariants of the client model (`Client/Model.lean`, `Client/Run.lean`).

* `StInv s now` (= `Inv' none none s now`): the state invariant at virtual time `now`, a conjunction of
  - `TInv`  — in-flight table ↔ armed timers (bound, `DelayQ.WF`/`Timely`, every entry has its timer and
              `deadline ≤ whenMs * 1e6 + remainder` — the armed timer plus the part of the time until the deadline
              that `clampTimeout` cut off and `poll_expired` re-arms later —, every timer has its entry);
  - `IdInv` — request ids queued or in flight are pairwise distinct and `< nextId`;
  - `CInv`  — call ids (`cid`) are unique, request ids of live/resolved polled calls are distinct and `< nextId`, a
              oneshot / outcome holding `DeadlineExceeded` implies the call's deadline has passed;
  - `RInv`  — a call still waiting for its permit has not been enqueued; queued / in-flight requests carry the deadline
              of their call;
  - `OInv`  — every observation emitted so far is `ObsGood` at `now` (counts within bound and equal; only the
              `DelayQueue::insert` range panic, and — if the clamp fits the queue's range, `ClampFits` — only at or
              after `panicFreeNs` = 2^35 ms; `resolved … DeadlineExceeded t` only with `deadline ≤ t ≤ now`).
  `Inv' x b` generalises it for use *inside* a poll: `x = some cid` while call `cid` is in its first poll (it already
  owns a request id although its phase still says `notPolled`), `b = some f` to assert that the state's `frame`
  (calls' `(cid, ctx)`, `maxInFlight`, handles) still equals `f`.
* `Quiet s s'`: `s'` differs from `s` only in fields the invariant does not read; `Inv'.quiet` transfers the invariant.
  One `quiet_f` lemma per model function that only wakes tasks / talks to the transport / moves permits.
* One preservation lemma `Inv'.f` per remaining model function, up to `Inv'.applyOp`; `inv_reach`, `inv_stepOp`,
  `obs_stepOp`, `stepOp_frame`, `maxInFlight_reach` lift them to scripts; `advSum ops` (the sum of a script's `advance`
  amounts) is the clock of the state it reaches (`now_reach`).
* `StInv`, `SFrame`, `findEntry_some_mem`, … carry these names (not `Inv`, `Frame`, …) so that this family can be
  imported together with `Lemmas/ClientIds.lean` … (`Lemmas/ClientPanic.lean` does).
-/
set_option linter.unusedSimpArgs false
set_option linter.unusedVariables false
namespace TarpcModel.Client
open TarpcModel.DelayQ

/-! ### the clamped timeout -/

/-- `MAX_DEADLINE_TIMEOUT` in ns (meaningful when `Gen.clientTimerClampSecs ≠ 0`). -/
def clampNs : Nat := Gen.clientTimerClampSecs * 1000000000

theorem clampTimeout_le_self (t : Nat) : clampTimeout t ≤ t := by
  unfold clampTimeout; split
  · exact Nat.le_refl _
  · exact Nat.min_le_left _ _

/-- `insert_request` arms the timer with a clamped timeout and keeps the rest as the entry's `remainder`: together
they reach the deadline. -/
theorem deadline_le_arm (now d : Nat) :
    d ≤ now + clampTimeout (d - now) + ((d - now) - clampTimeout (d - now)) := by
  have := clampTimeout_le_self (d - now); omega

/-! ### observations -/

/-- From this instant on the `DelayQueue::insert` range check can fail (2^35 ms, in ns). -/
def panicFreeNs : Nat := 2 ^ 35 * nsPerMs

/-- The clamp is active and small enough for the `DelayQueue` range: `now_ms + clamp_ms + 1 ≤ 2^36 - 1` for
`now < 2^35 ms`.  (A `decide`-able fact about the generated constant; proved where it is used.) -/
def ClampFits : Prop :=
  Gen.clientTimerClampSecs ≠ 0 ∧ Gen.clientTimerClampSecs * 1000 + 2 ^ 35 + 1 ≤ delayQMaxMs

instance : Decidable ClampFits := by unfold ClampFits; exact inferInstance

/-- What the invariant promises about each observation emitted so far (`m` = `max_in_flight_requests`, `now` = the
virtual clock): `counts` are within the bound and agree, the only panic site ever reached is the `DelayQueue::insert`
range check — and, if the clamp fits the queue's range (`ClampFits`), not before `panicFreeNs` —, and a
`DeadlineExceeded` resolution carries a time (not in the future) not before the deadline of the call. -/
def ObsGood (m : Nat) (calls : List Call) (now : Nat) : Obs → Prop
  | .counts _ i t => i ≤ m ∧ i = t
  | .panic _ site => site = "DelayQueue::insert: invalid deadline" ∧ (ClampFits → panicFreeNs ≤ now)
  | .resolved cid o t => o = .deadline → ∃ c ∈ calls, c.cid = cid ∧ c.ctx.deadline ≤ t ∧ t ≤ now
  | _ => True

theorem ObsGood.mono {m : Nat} {calls : List Call} {now now' : Nat} {o : Obs} (h : ObsGood m calls now o)
    (hle : now ≤ now') : ObsGood m calls now' o := by
  cases o <;> try exact h
  · rename_i cid oc t
    intro hd
    obtain ⟨c, hc, h1, h2, h3⟩ := h hd
    exact ⟨c, hc, h1, h2, Nat.le_trans h3 hle⟩
  · exact ⟨h.1, fun hf => Nat.le_trans (h.2 hf) hle⟩

/-- Observations the invariant says nothing about. -/
def Harmless : Obs → Prop
  | .counts _ _ _ => False
  | .panic _ _ => False
  | .resolved _ o _ => o ≠ .deadline
  | _ => True

theorem Harmless.good {o : Obs} (h : Harmless o) (m : Nat) (calls : List Call) (now : Nat) : ObsGood m calls now o := by
  cases o <;> simp_all [Harmless, ObsGood]

/-! ### steps that do not touch what the invariant talks about -/

/-- the part of a call future the invariant talks about -/
def callCore (c : Call) : Nat × Ctx × Phase × Nat × Option Outcome × Option Outcome :=
  (c.cid, c.ctx, c.phase, c.id, c.os.val, c.outcome)

structure TimersSame (q q' : DelayQ) : Prop where
  entries : q'.entries = q.entries
  expired : q'.expired = q.expired
  nextKey : q'.nextKey = q.nextKey
  wheelElapsed : q'.wheelElapsed = q.wheelElapsed
  wheelNow : q'.wheelNow = q.wheelNow

theorem TimersSame.refl (q : DelayQ) : TimersSame q q := ⟨rfl, rfl, rfl, rfl, rfl⟩
theorem TimersSame.trans {a b c : DelayQ} (h1 : TimersSame a b) (h2 : TimersSame b c) : TimersSame a c :=
  ⟨h2.entries.trans h1.entries, h2.expired.trans h1.expired, h2.nextKey.trans h1.nextKey,
   h2.wheelElapsed.trans h1.wheelElapsed, h2.wheelNow.trans h1.wheelNow⟩

/-- `s'` differs from `s` only in fields the invariant does not read (wakers, permits, the transport, …), in the
non-core part of calls, and by harmless observations. -/
structure Quiet (s s' : St) : Prop where
  maxInFlight : s'.maxInFlight = s.maxInFlight
  inflight : s'.inflight = s.inflight
  timers : TimersSame s.timers s'.timers
  nextId : s'.nextId = s.nextId
  pq : s'.pq = s.pq
  calls : s'.calls.map callCore = s.calls.map callCore
  obs : ∀ o ∈ s'.obs, o ∈ s.obs ∨ Harmless o
  handles : s'.handles = s.handles
  nextHandle : s'.nextHandle = s.nextHandle

theorem Quiet.refl (s : St) : Quiet s s :=
  ⟨rfl, rfl, TimersSame.refl _, rfl, rfl, rfl, fun o h => Or.inl h, rfl, rfl⟩

theorem Quiet.trans {a b c : St} (h1 : Quiet a b) (h2 : Quiet b c) : Quiet a c :=
  ⟨h2.maxInFlight.trans h1.maxInFlight, h2.inflight.trans h1.inflight, h1.timers.trans h2.timers,
   h2.nextId.trans h1.nextId, h2.pq.trans h1.pq, h2.calls.trans h1.calls,
   fun o h => (h2.obs o h).elim (fun h' => h1.obs o h') Or.inr, h2.handles.trans h1.handles,
   h2.nextHandle.trans h1.nextHandle⟩

/-- closes `Quiet s { s with … }` goals for updates of fields the invariant does not read -/
macro "quiet_rfl" : tactic =>
  `(tactic| exact ⟨rfl, rfl, ⟨rfl, rfl, rfl, rfl, rfl⟩, rfl, rfl, rfl, fun o h => Or.inl h, rfl, rfl⟩)

theorem quiet_emit (s : St) {o : Obs} (h : Harmless o) : Quiet s (emit s o) :=
  ⟨rfl, rfl, TimersSame.refl _, rfl, rfl, rfl, fun o' h' => by
    simp only [emit, List.mem_cons] at h'
    rcases h' with rfl | h'
    · exact Or.inr h
    · exact Or.inl h', rfl, rfl⟩

theorem Quiet.emit {a b : St} (h : Quiet a b) {o : Obs} (ho : Harmless o) : Quiet a (emit b o) :=
  h.trans (quiet_emit b ho)

theorem quiet_foldl {α : Type} (f : St → α → St) (hf : ∀ s a, Quiet s (f s a)) (l : List α) (s : St) :
    Quiet s (l.foldl f s) := by
  induction l generalizing s with
  | nil => exact Quiet.refl s
  | cons a l ih => exact (hf s a).trans (ih _)

theorem quiet_wakeDispatch (s : St) : Quiet s (wakeDispatch s) := by
  unfold wakeDispatch
  split
  · exact Quiet.refl s
  · exact Quiet.trans (by quiet_rfl) (quiet_emit _ (by simp [Harmless]))

theorem quiet_updCall (s : St) (cid : Nat) (f : Call → Call) (hf : ∀ c, callCore (f c) = callCore c) :
    Quiet s (updCall s cid f) := by
  refine ⟨rfl, rfl, TimersSame.refl _, rfl, rfl, ?_, fun o h => Or.inl h, rfl, rfl⟩
  simp only [updCall, List.map_map]
  apply List.map_congr_left
  intro c _
  simp only [Function.comp]
  split
  · exact hf c
  · rfl

theorem quiet_wakeCall (s : St) (cid : Nat) : Quiet s (wakeCall s cid) := by
  unfold wakeCall
  split
  · split
    · exact Quiet.emit (quiet_updCall s cid _ (by intro c; rfl)) (by simp [Harmless])
    · exact Quiet.refl s
  · exact Quiet.refl s

theorem quiet_osDropTx (s : St) (cid : Nat) : Quiet s (osDropTx s cid) := by
  unfold osDropTx
  split
  · exact Quiet.refl s
  · split
    · exact Quiet.refl s
    · simp only
      split
      · exact (quiet_updCall s cid _ (by intro c; rfl)).trans (quiet_wakeCall _ _)
      · exact quiet_updCall s cid _ (by intro c; rfl)

theorem quiet_pqRelease (s : St) : Quiet s (pqRelease s) := by
  unfold pqRelease
  split
  · exact Quiet.trans (by quiet_rfl) (quiet_wakeCall _ _)
  · quiet_rfl

theorem quiet_pqClose (s : St) : Quiet s (pqClose s) := by
  unfold pqClose
  exact Quiet.trans (by quiet_rfl) (quiet_foldl wakeCall quiet_wakeCall _ _)

theorem quiet_cqPush (s : St) (id : Nat) : Quiet s (cqPush s id) := by
  unfold cqPush
  split
  · exact Quiet.refl s
  · simp only
    split
    · exact Quiet.trans (by quiet_rfl) (quiet_wakeDispatch _)
    · quiet_rfl

theorem quiet_cqRecv (s : St) : Quiet s (cqRecv s).1 := by
  unfold cqRecv
  split
  · quiet_rfl
  · split
    · exact Quiet.refl s
    · quiet_rfl

theorem quiet_emitViolations (s : St) (n : Nat) : Quiet s (emitViolations s n) := by
  unfold emitViolations
  exact quiet_foldl _ (fun s w => quiet_emit s (by simp [Harmless])) _ _

theorem quiet_tReady (s : St) : Quiet s (tReady s).1 := by
  unfold tReady
  generalize s.t.pollReady = p
  obtain ⟨t, r, w⟩ := p
  simp only
  have h1 : Quiet s (emit (emitViolations { s with t := t } s.t.violations.length) (.tReady (tid s) r)) :=
    Quiet.trans (Quiet.trans (by quiet_rfl) (quiet_emitViolations _ _)) (quiet_emit _ (by simp [Harmless]))
  split
  · exact h1.trans (quiet_wakeDispatch _)
  · exact h1

theorem quiet_tFlush (s : St) : Quiet s (tFlush s).1 := by
  unfold tFlush
  generalize s.t.pollFlush = p
  obtain ⟨t, r, w⟩ := p
  simp only
  have h1 : Quiet s (emit (emitViolations { s with t := t } s.t.violations.length) (.tFlush (tid s) r)) :=
    Quiet.trans (Quiet.trans (by quiet_rfl) (quiet_emitViolations _ _)) (quiet_emit _ (by simp [Harmless]))
  split
  · exact h1.trans (quiet_wakeDispatch _)
  · exact h1

theorem quiet_tClose (s : St) : Quiet s (tClose s).1 := by
  unfold tClose
  generalize s.t.pollClose = p
  obtain ⟨t, r, w⟩ := p
  simp only
  have h1 : Quiet s (emit (emitViolations { s with t := t } s.t.violations.length) (.tClose (tid s) r)) :=
    Quiet.trans (Quiet.trans (by quiet_rfl) (quiet_emitViolations _ _)) (quiet_emit _ (by simp [Harmless]))
  split
  · exact h1.trans (quiet_wakeDispatch _)
  · exact h1

theorem quiet_tSend (s : St) (m : Msg) : Quiet s (tSend s m).1 := by
  unfold tSend
  generalize s.t.startSend m = p
  obtain ⟨t, ok⟩ := p
  exact Quiet.trans (Quiet.trans (by quiet_rfl) (quiet_emitViolations _ _)) (quiet_emit _ (by simp [Harmless]))

theorem quiet_tNext (s : St) : Quiet s (tNext s).1 := by
  unfold tNext
  split
  · exact Quiet.refl s
  · generalize s.t.pollNext = p
    obtain ⟨t, r⟩ := p
    simp only
    have h1 : Quiet s (emit { s with t := t } (.tNext (tid s) r)) :=
      Quiet.trans (by quiet_rfl) (quiet_emit _ (by simp [Harmless]))
    split
    · exact h1.trans (by quiet_rfl)
    · exact h1

theorem quiet_ensureLoop (fuel : Nat) (s : St) : Quiet s (ensureLoop fuel s).1 := by
  induction fuel generalizing s with
  | zero => exact quiet_emit s (by simp [Harmless])
  | succ fuel ih =>
    unfold ensureLoop
    have h1 := quiet_tReady s
    generalize tReady s = p at h1 ⊢
    obtain ⟨s1, r⟩ := p
    simp only at h1 ⊢
    cases r with
    | ready => exact h1
    | err => exact h1
    | pending =>
      simp only
      have h2 := quiet_tFlush s1
      generalize tFlush s1 = p at h2 ⊢
      obtain ⟨s2, f⟩ := p
      simp only at h2 ⊢
      cases f with
      | pending => exact h1.trans h2
      | err => exact h1.trans h2
      | ready => exact (h1.trans h2).trans (ih s2)

theorem quiet_ensureOnce (s : St) : Quiet s (ensureOnce s).1 := by
  unfold ensureOnce
  have h1 := quiet_tReady s
  generalize tReady s = p at h1 ⊢
  obtain ⟨s1, r⟩ := p
  simp only at h1 ⊢
  cases r with
  | ready => exact h1
  | err => exact h1
  | pending =>
    simp only
    have h2 := quiet_tFlush s1
    generalize tFlush s1 = p at h2 ⊢
    obtain ⟨s2, f⟩ := p
    simp only at h2 ⊢
    cases f with
    | pending => exact h1.trans h2
    | err => exact h1.trans h2
    | ready =>
      simp only
      have h3 := quiet_tReady s2
      generalize tReady s2 = p at h3 ⊢
      obtain ⟨s3, r2⟩ := p
      simp only at h3 ⊢
      cases r2 <;> exact (h1.trans h2).trans h3

theorem quiet_ensureWriteable (s : St) : Quiet s (ensureWriteable s).1 := by
  unfold ensureWriteable
  split
  · exact quiet_ensureLoop _ s
  · exact quiet_ensureOnce s

theorem quiet_guardClose (s : St) (cid : Nat) : Quiet s (guardClose s cid) :=
  quiet_updCall s cid _ (by intro c; rfl)

theorem quiet_afterCallGone (s : St) : Quiet s (afterCallGone s) := by
  unfold afterCallGone
  split
  · simp only
    have h1 : Quiet s (if s.pqRxWaker then wakeDispatch { s with pqRxWaker := false } else s) := by
      split
      · exact Quiet.trans (by quiet_rfl) (quiet_wakeDispatch _)
      · exact Quiet.refl s
    generalize (if s.pqRxWaker then wakeDispatch { s with pqRxWaker := false } else s) = s1 at h1 ⊢
    split
    · exact h1.trans (Quiet.trans (by quiet_rfl) (quiet_wakeDispatch _))
    · exact h1
  · exact Quiet.refl s

theorem quiet_liftT (s : St) (r : SimT × Bool) : Quiet s (liftT s r) := by
  unfold liftT
  simp only
  split
  · exact Quiet.trans (by quiet_rfl) (quiet_wakeDispatch _)
  · quiet_rfl

theorem quiet_onAdvance (s : St) (now : Nat) : Quiet s (onAdvance s now) := by
  unfold onAdvance
  split
  · split
    · exact Quiet.trans (by quiet_rfl) (quiet_wakeDispatch _)
    · exact Quiet.refl s
  · exact Quiet.refl s

theorem quiet_dropPre (s : St) (cid : Nat) : Quiet s (dropPre s cid) := by
  unfold dropPre
  split
  · exact Quiet.refl s
  · split
    · simp only
      have h1 : Quiet s (if s.pqAssigned.contains cid = true then
          pqRelease { s with pqAssigned := s.pqAssigned.filter (· != cid), pqWaiters := s.pqWaiters.filter (· != cid) }
          else { s with pqAssigned := s.pqAssigned.filter (· != cid), pqWaiters := s.pqWaiters.filter (· != cid) }) := by
        split
        · exact Quiet.trans (by quiet_rfl) (quiet_pqRelease _)
        · quiet_rfl
      exact h1.trans (quiet_osDropTx _ _)
    · exact Quiet.refl s

theorem quiet_dropClose (s : St) (cid : Nat) : Quiet s (dropClose s cid) := by
  unfold dropClose
  split
  · exact Quiet.refl s
  · split
    · exact quiet_guardClose s cid
    · exact quiet_guardClose s cid
    · exact Quiet.refl s

theorem quiet_dropCancel (s : St) (cid : Nat) : Quiet s (dropCancel s cid) := by
  unfold dropCancel
  split
  · exact Quiet.refl s
  · split
    · exact quiet_cqPush s _
    · exact quiet_cqPush s _
    · exact Quiet.refl s

/-! ### the invariant -/

/-- The in-flight table and the armed timers agree (`m` = `max_in_flight_requests`). -/
structure TInv (m : Nat) (inf : List Entry) (q : DelayQ) (now : Nat) : Prop where
  bound : inf.length ≤ m
  wf : q.WF
  timely : q.Timely now
  /-- every entry has its timer, armed for its id; the timer and the `remainder` still to be armed reach the deadline -/
  e2t : ∀ en ∈ inf, ∃ w, q.Has en.timerKey en.id w ∧ en.ctx.deadline ≤ w * nsPerMs + en.remainder
  /-- every timer belongs to an entry -/
  t2e : ∀ k v w, q.Has k v w → ∃ en ∈ inf, en.timerKey = k ∧ en.id = v
  /-- the entry's exact due time (`timer_due`): with the remainder it reaches the deadline, and no more than
  `max deadline now` (it is `max deadline (time of insertion)`, constant across re-arms); the armed timer is its
  millisecond ceiling -/
  due : ∀ en ∈ inf, ∀ w, q.Has en.timerKey en.id w →
    en.ctx.deadline ≤ en.dueAt + en.remainder ∧ en.dueAt + en.remainder ≤ max en.ctx.deadline now ∧
    en.dueAt ≤ w * nsPerMs ∧ w * nsPerMs < en.dueAt + nsPerMs

/-- Request ids queued or in flight are pairwise distinct and were all handed out already. -/
structure IdInv (pq : List DReq) (inf : List Entry) (nextId : Nat) : Prop where
  nodup : (pq.map (·.id) ++ inf.map (·.id)).Nodup
  pqLt : ∀ r ∈ pq, r.id < nextId
  inLt : ∀ en ∈ inf, en.id < nextId

/-- The call has been given its request id (`x`: a call that is in the middle of its first poll). -/
def Assigned (x : Option Nat) (c : Call) : Prop :=
  c.phase = .reserving ∨ c.phase = .awaiting ∨ c.phase = .resolved ∨ x = some c.cid

/-- The call holds a request id that has not been enqueued yet. -/
def Waiting (x : Option Nat) (c : Call) : Prop := c.phase = .reserving ∨ (c.phase = .notPolled ∧ x = some c.cid)

structure CInv (x : Option Nat) (calls : List Call) (nextId now : Nat) : Prop where
  cidLt : ∀ c ∈ calls, c.cid < calls.length
  cidNodup : (calls.map (·.cid)).Nodup
  idLt : ∀ c ∈ calls, Assigned x c → c.id < nextId
  idInj : ∀ c1 ∈ calls, ∀ c2 ∈ calls, Assigned x c1 → Assigned x c2 → c1.id = c2.id → c1.cid = c2.cid
  osDl : ∀ c ∈ calls, c.os.val = some .deadline → c.ctx.deadline ≤ now
  outDl : ∀ c ∈ calls, c.outcome = some .deadline → c.ctx.deadline ≤ now

structure RInv (x : Option Nat) (calls : List Call) (pq : List DReq) (inf : List Entry) : Prop where
  /-- a call still waiting for its permit has not been enqueued -/
  resv : ∀ c ∈ calls, Waiting x c → (∀ r ∈ pq, r.id ≠ c.id) ∧ (∀ en ∈ inf, en.id ≠ c.id)
  /-- a queued request belongs to a call and carries its deadline -/
  pqCtx : ∀ r ∈ pq, ∃ c ∈ calls, c.cid = r.cid ∧ r.ctx.deadline = c.ctx.deadline
  inCtx : ∀ en ∈ inf, ∃ c ∈ calls, c.cid = en.cid ∧ en.ctx.deadline = c.ctx.deadline

def OInv (m : Nat) (calls : List Call) (now : Nat) (obs : List Obs) : Prop := ∀ o ∈ obs, ObsGood m calls now o

/-- the `(cid, ctx)` pairs of the calls -/
def callSig (l : List Call) : List (Nat × Ctx) := l.map (fun c => (c.cid, c.ctx))

/-- What a poll of a task never changes: which calls exist (with the context their caller gave them),
`max_in_flight_requests`, and the live handles. -/
abbrev SFrame := List (Nat × Ctx) × Nat × List Nat × Nat

def frame (s : St) : SFrame := (callSig s.calls, s.maxInFlight, s.handles, s.nextHandle)

/-- An optional snapshot of the frame, used to relate two states. -/
abbrev Snap := Option SFrame

/-- The client invariant at virtual time `now`; `x` names a call that is in the middle of its first poll
(`none` between polls), `b` is a snapshot of the frame the state still agrees with (`none` = nothing recorded). -/
structure Inv' (x : Option Nat) (b : Snap) (s : St) (now : Nat) : Prop where
  fr : ∀ f, b = some f → frame s = f
  t : TInv s.maxInFlight s.inflight s.timers now
  i : IdInv s.pq s.inflight s.nextId
  c : CInv x s.calls s.nextId now
  r : RInv x s.calls s.pq s.inflight
  o : OInv s.maxInFlight s.calls now s.obs

abbrev StInv (s : St) (now : Nat) : Prop := Inv' none none s now

/-! ### transfer along `Quiet` -/

theorem callSig_of_core {l l' : List Call} (h : l'.map callCore = l.map callCore) : callSig l' = callSig l := by
  have := congrArg (List.map (fun p : Nat × Ctx × Phase × Nat × Option Outcome × Option Outcome => (p.1, p.2.1))) h
  simpa [callSig, List.map_map, Function.comp_def, callCore] using this

theorem Quiet.frame {s s' : St} (hq : Quiet s s') : frame s' = frame s := by
  simp only [Client.frame, callSig_of_core hq.calls, hq.maxInFlight, hq.handles, hq.nextHandle]

theorem callSig_mem {l : List Call} {c : Call} (hc : c ∈ l) : (c.cid, c.ctx) ∈ callSig l :=
  List.mem_map_of_mem (f := fun c : Call => (c.cid, c.ctx)) hc

theorem mem_of_callSig {l l' : List Call} (h : callSig l' = callSig l) {c : Call} (hc : c ∈ l) :
    ∃ c' ∈ l', c'.cid = c.cid ∧ c'.ctx = c.ctx := by
  have := callSig_mem hc
  rw [← h] at this
  obtain ⟨c', hc', he⟩ := List.mem_map.mp this
  simp only [Prod.mk.injEq] at he
  exact ⟨c', hc', he.1, he.2⟩

theorem core_mem {l l' : List Call} (h : l'.map callCore = l.map callCore) {c' : Call} (hc : c' ∈ l') :
    ∃ c ∈ l, c.cid = c'.cid ∧ c.ctx = c'.ctx ∧ c.phase = c'.phase ∧ c.id = c'.id ∧ c.os.val = c'.os.val ∧
      c.outcome = c'.outcome := by
  have : callCore c' ∈ l.map callCore := by rw [← h]; exact List.mem_map_of_mem hc
  obtain ⟨c, hc, he⟩ := List.mem_map.mp this
  simp only [callCore, Prod.mk.injEq] at he
  exact ⟨c, hc, he⟩

theorem map_cid_of_core {l l' : List Call} (h : l'.map callCore = l.map callCore) :
    l'.map (·.cid) = l.map (·.cid) := by
  have := congrArg (List.map (fun p => p.1)) h
  simpa [List.map_map, Function.comp_def, callCore] using this

theorem CInv.congr {x : Option Nat} {l l' : List Call} {n now : Nat} (h : CInv x l n now)
    (hc : l'.map callCore = l.map callCore) : CInv x l' n now := by
  have hlen : l'.length = l.length := by simpa using congrArg List.length hc
  refine ⟨?_, ?_, ?_, ?_, ?_, ?_⟩
  · intro c' hc'
    obtain ⟨c, hm, e1, -⟩ := core_mem hc hc'
    rw [hlen, ← e1]; exact h.cidLt c hm
  · rw [map_cid_of_core hc]; exact h.cidNodup
  · intro c' hc' ha
    obtain ⟨c, hm, e1, e2, e3, e4, e5, e6⟩ := core_mem hc hc'
    rw [← e4]; exact h.idLt c hm (by simpa [Assigned, e1, e3] using ha)
  · intro c1' h1' c2' h2' a1 a2 hid
    obtain ⟨c1, hm1, e1, e2, e3, e4, e5, e6⟩ := core_mem hc h1'
    obtain ⟨c2, hm2, f1, f2, f3, f4, f5, f6⟩ := core_mem hc h2'
    rw [← e1, ← f1]
    exact h.idInj c1 hm1 c2 hm2 (by simpa [Assigned, e1, e3] using a1) (by simpa [Assigned, f1, f3] using a2)
      (by rw [e4, f4]; exact hid)
  · intro c' hc' hv
    obtain ⟨c, hm, e1, e2, e3, e4, e5, e6⟩ := core_mem hc hc'
    rw [← e2]; exact h.osDl c hm (by rw [e5]; exact hv)
  · intro c' hc' hv
    obtain ⟨c, hm, e1, e2, e3, e4, e5, e6⟩ := core_mem hc hc'
    rw [← e2]; exact h.outDl c hm (by rw [e6]; exact hv)

theorem RInv.congr {x : Option Nat} {l l' : List Call} {pq : List DReq} {inf : List Entry} (h : RInv x l pq inf)
    (hc : l'.map callCore = l.map callCore) : RInv x l' pq inf := by
  refine ⟨?_, ?_, ?_⟩
  · intro c' hc' hp
    obtain ⟨c, hm, e1, e2, e3, e4, e5, e6⟩ := core_mem hc hc'
    rw [← e4]; exact h.resv c hm (by simpa [Waiting, e1, e3] using hp)
  · intro r hr
    obtain ⟨c, hm, e1, e2⟩ := h.pqCtx r hr
    obtain ⟨c', hm', f1, f2, -⟩ := core_mem (l := l') (l' := l) hc.symm hm
    exact ⟨c', hm', by rw [f1]; exact e1, by rw [f2]; exact e2⟩
  · intro en hen
    obtain ⟨c, hm, e1, e2⟩ := h.inCtx en hen
    obtain ⟨c', hm', f1, f2, -⟩ := core_mem (l := l') (l' := l) hc.symm hm
    exact ⟨c', hm', by rw [f1]; exact e1, by rw [f2]; exact e2⟩

theorem ObsGood.congr {m now : Nat} {l l' : List Call} {o : Obs} (h : ObsGood m l now o)
    (hc : l'.map callCore = l.map callCore) : ObsGood m l' now o := by
  cases o <;> try exact h
  rename_i cid oc t
  intro hd
  obtain ⟨c, hm, e1, e2⟩ := h hd
  obtain ⟨c', hm', f1, f2, -⟩ := core_mem (l := l') (l' := l) hc.symm hm
  exact ⟨c', hm', by rw [f1]; exact e1, by rw [f2]; exact e2⟩

theorem TInv.same {m : Nat} {inf : List Entry} {q q' : DelayQ} {now : Nat} (h : TInv m inf q now)
    (hq : TimersSame q q') : TInv m inf q' now := by
  have hh := has_of_fields hq.entries hq.expired
  refine ⟨h.bound, wf_of_fields h.wf hq.entries hq.expired hq.nextKey hq.wheelElapsed,
    timely_of_fields h.timely hq.expired hq.wheelElapsed hq.wheelNow, ?_, ?_, ?_⟩
  · intro en hen
    obtain ⟨w, h1, h2⟩ := h.e2t en hen
    exact ⟨w, (hh _ _ _).mpr h1, h2⟩
  · intro k v w hk
    exact h.t2e k v w ((hh _ _ _).mp hk)
  · intro en hen w hw
    exact h.due en hen w ((hh _ _ _).mp hw)

theorem Inv'.quiet {x : Option Nat} {b : Snap} {s s' : St} {now : Nat} (h : Inv' x b s now) (hq : Quiet s s') :
    Inv' x b s' now := by
  refine ⟨fun f hf => hq.frame.trans (h.fr f hf), ?_, ?_, ?_, ?_, ?_⟩
  · rw [hq.maxInFlight, hq.inflight]; exact h.t.same hq.timers
  · rw [hq.pq, hq.inflight, hq.nextId]; exact h.i
  · rw [hq.nextId]; exact h.c.congr hq.calls
  · rw [hq.pq, hq.inflight]; exact h.r.congr hq.calls
  · intro o ho
    rw [hq.maxInFlight]
    rcases hq.obs o ho with h1 | h1
    · exact (h.o o h1).congr hq.calls
    · exact h1.good _ _ _

/-! ### the table / timer invariant under the table operations -/

theorem eq_of_nodup_map {α β : Type} (f : α → β) {l : List α} (h : (l.map f).Nodup) {a b : α}
    (ha : a ∈ l) (hb : b ∈ l) (he : f a = f b) : a = b := by
  induction l with
  | nil => cases ha
  | cons x xs ih =>
    simp only [List.map_cons, List.nodup_cons, List.mem_map, not_exists, not_and] at h
    rcases List.mem_cons.mp ha with rfl | ha' <;> rcases List.mem_cons.mp hb with rfl | hb'
    · rfl
    · exact absurd he.symm (h.1 b hb')
    · exact absurd he (h.1 a ha')
    · exact ih h.2 ha' hb'

theorem TInv.mono {m : Nat} {inf : List Entry} {q : DelayQ} {now now' : Nat} (h : TInv m inf q now)
    (hle : now ≤ now') : TInv m inf q now' :=
  ⟨h.bound, h.wf, h.timely.mono hle, h.e2t, h.t2e, fun en hen w hw => by
    obtain ⟨a, b, c, d⟩ := h.due en hen w hw
    exact ⟨a, by omega, c, d⟩⟩

theorem TInv.remove_ne_none {m : Nat} {inf : List Entry} {q : DelayQ} {now : Nat} (h : TInv m inf q now)
    {e : Entry} (he : e ∈ inf) : q.remove e.timerKey ≠ none := by
  intro hn
  rw [remove_eq_none_iff] at hn
  obtain ⟨w, hw, -⟩ := h.e2t e he
  exact hn ⟨_, _, hw⟩

theorem TInv.remove {m : Nat} {inf : List Entry} {q q' : DelayQ} {now : Nat} {b : Bool} (h : TInv m inf q now)
    (hn : (inf.map (·.id)).Nodup) {e : Entry} (he : e ∈ inf) (hr : q.remove e.timerKey = some (q', b)) :
    TInv m (inf.filter (·.id != e.id)) q' now := by
  have hs := remove_spec h.wf hr
  refine ⟨Nat.le_trans (List.length_filter_le _ _) h.bound, hs.wf, hs.timely now h.timely, ?_, ?_, ?_⟩
  rotate_left 2
  · intro en hen w hw
    exact h.due en (List.mem_filter.mp hen).1 w ((hs.has _ _ _).mp hw).1
  · intro en hen
    simp only [List.mem_filter, bne_iff_ne, ne_eq] at hen
    obtain ⟨w, hw, hd⟩ := h.e2t en hen.1
    refine ⟨w, (hs.has _ _ _).mpr ⟨hw, ?_⟩, hd⟩
    intro hk
    obtain ⟨w', hw', -⟩ := h.e2t e he
    rw [hk] at hw
    exact hen.2 (h.wf.keys |> fun _ => (Has.functional h.wf hw hw').1)
  · intro k v w hk
    obtain ⟨hk1, hk2⟩ := (hs.has _ _ _).mp hk
    obtain ⟨en, hen, e1, e2⟩ := h.t2e k v w hk1
    refine ⟨en, ?_, e1, e2⟩
    simp only [List.mem_filter, bne_iff_ne, ne_eq]
    refine ⟨hen, ?_⟩
    intro hid
    have : en = e := eq_of_nodup_map (·.id) hn hen he hid
    rw [this] at e1
    exact hk2 e1.symm

/-- the deadline `insert` computes is the millisecond ceiling of `now + timeout` (the wheel is not ahead of the clock) -/
theorem insertWhen_bounds {q : DelayQ} {now t : Nat} (ht : q.Timely now) :
    now + t ≤ insertWhen q now t * nsPerMs ∧ insertWhen q now t * nsPerMs < now + t + nsPerMs := by
  have h1 := ht.elapsed
  unfold insertWhen ceilMs nsPerMs at *
  omega

/-- A new entry whose timer is armed now with timeout `t` (so it is due at `now + t`), if that and the entry's
`remainder` reach its deadline and not more than `max deadline now`. -/
theorem TInv.insertEntry {m : Nat} {inf : List Entry} {q q' : DelayQ} {now t : Nat} {b : Bool} (h : TInv m inf q now)
    (hlt : inf.length < m) (en' : Entry)
    (hi : q.insert now t en'.id = (q', .ok en'.timerKey, b))
    (hdue : en'.dueAt = now + t)
    (hd : en'.ctx.deadline ≤ now + t + en'.remainder) (hd2 : now + t + en'.remainder ≤ max en'.ctx.deadline now) :
    TInv m (inf ++ [en']) q' now := by
  have hs := insert_spec h.wf hi
  refine ⟨by simp; omega, hs.wf, hs.timely now h.timely, ?_, ?_, ?_⟩
  rotate_left 2
  · intro en hen w hw
    have hb := insertWhen_bounds (t := t) h.timely
    simp only [List.mem_append, List.mem_singleton] at hen
    rcases (hs.has _ _ _).mp hw with hw | ⟨hk, -, hwq⟩
    · rcases hen with hen | rfl
      · exact h.due en hen w hw
      · -- the new key is fresh
        exfalso
        obtain ⟨d, hd', hk', -⟩ := hw
        have := h.wf.keyLt d hd'
        rw [hk', hs.key] at this
        exact Nat.lt_irrefl _ this
    · rcases hen with hen | rfl
      · exfalso
        obtain ⟨w0, ⟨d, hd', hk', -⟩, -⟩ := h.e2t en hen
        have := h.wf.keyLt d hd'
        rw [hk', hk, hs.key] at this
        exact Nat.lt_irrefl _ this
      · subst hwq
        rw [hdue]; exact ⟨hd, hd2, hb.1, hb.2⟩
  · intro en hen
    simp only [List.mem_append, List.mem_singleton] at hen
    rcases hen with hen | rfl
    · obtain ⟨w, hw, hd⟩ := h.e2t en hen
      exact ⟨w, (hs.has _ _ _).mpr (Or.inl hw), hd⟩
    · refine ⟨_, (hs.has _ _ _).mpr (Or.inr ⟨rfl, rfl, rfl⟩), ?_⟩
      have := le_insertWhen q now t
      omega
  · intro k v w hk
    rcases (hs.has _ _ _).mp hk with hk | ⟨rfl, rfl, rfl⟩
    · obtain ⟨en, hen, e1, e2⟩ := h.t2e k v w hk
      exact ⟨en, List.mem_append_left _ hen, e1, e2⟩
    · exact ⟨_, List.mem_append_right _ (List.mem_singleton.mpr rfl), rfl, rfl⟩

theorem TInv.insert {m : Nat} {inf : List Entry} {q q' : DelayQ} {now : Nat} {b : Bool} (h : TInv m inf q now)
    (hlt : inf.length < m) (id cid key : Nat) (ctx : Ctx)
    (hi : q.insert now (clampTimeout (ctx.deadline - now)) id = (q', .ok key, b)) :
    TInv m (inf ++ [{ id := id, cid := cid, ctx := ctx, timerKey := key,
                      remainder := (ctx.deadline - now) - clampTimeout (ctx.deadline - now),
                      dueAt := now + clampTimeout (ctx.deadline - now) }]) q' now :=
  h.insertEntry hlt _ hi rfl (deadline_le_arm now ctx.deadline) (by
    have := clampTimeout_le_self (ctx.deadline - now); simp only; omega)

/-- The table only matters as a set (of at most `m` entries). -/
theorem TInv.of_mem {m : Nat} {inf inf' : List Entry} {q : DelayQ} {now : Nat} (h : TInv m inf q now)
    (hb : inf'.length ≤ m) (hm : ∀ x, x ∈ inf' ↔ x ∈ inf) : TInv m inf' q now :=
  ⟨hb, h.wf, h.timely, fun en hen => h.e2t en ((hm en).mp hen), fun k v w hk => by
    obtain ⟨en, hen, e1, e2⟩ := h.t2e k v w hk
    exact ⟨en, (hm en).mpr hen, e1, e2⟩, fun en hen w hw => h.due en ((hm en).mp hen) w hw⟩

/-- `poll_expired` on a consistent table: a yielded timer belongs to exactly one entry, whose timer (which is due) and
`remainder` reach its deadline; without the entry the table is consistent with the queue after the poll. -/
theorem TInv.expired {m : Nat} {inf : List Entry} {q : DelayQ} {now : Nat} (h : TInv m inf q now)
    (hn : (inf.map (·.id)).Nodup) :
    (∀ e, (q.pollExpired now).2 = .expired e →
      ∃ en ∈ inf, en.id = e.val ∧ en.ctx.deadline ≤ e.whenMs * nsPerMs + en.remainder ∧ e.whenMs * nsPerMs ≤ now ∧
        TInv m (inf.filter (·.id != e.val)) (q.pollExpired now).1 now ∧
        (en.ctx.deadline ≤ en.dueAt + en.remainder ∧ en.dueAt + en.remainder ≤ max en.ctx.deadline now ∧
          en.dueAt ≤ e.whenMs * nsPerMs ∧ e.whenMs * nsPerMs < en.dueAt + nsPerMs)) ∧
    ((q.pollExpired now).2.entry = none → TInv m inf (q.pollExpired now).1 now) := by
  have hs := pollExpired_spec q now h.wf h.timely
  constructor
  · intro e he
    obtain ⟨h1, h2, h3⟩ := hs.some e he
    obtain ⟨en, hen, e1, e2⟩ := h.t2e _ _ _ h1
    obtain ⟨w, hw, hd⟩ := h.e2t en hen
    have hwe : w = e.whenMs := by
      rw [e1, e2] at hw
      exact (Has.functional h.wf hw h1).2
    refine ⟨en, hen, e2, ?_, h2, ?_, ?_⟩
    · rw [hwe] at hd; exact hd
    rotate_left
    · exact h.due en hen e.whenMs (by rw [e1, e2]; exact h1)
    · refine ⟨Nat.le_trans (List.length_filter_le _ _) h.bound, hs.wf, hs.timely, ?_, ?_, ?_⟩
      rotate_left 2
      · intro en' hen' w' hw'
        exact h.due en' (List.mem_filter.mp hen').1 w' ((h3 _ _ _).mp hw').1
      · intro en' hen'
        simp only [List.mem_filter, bne_iff_ne, ne_eq] at hen'
        obtain ⟨w', hw', hd'⟩ := h.e2t en' hen'.1
        refine ⟨w', (h3 _ _ _).mpr ⟨hw', ?_⟩, hd'⟩
        intro hk
        rw [hk] at hw'
        exact hen'.2 (Has.functional h.wf hw' h1).1
      · intro k v w' hk
        obtain ⟨hk1, hk2⟩ := (h3 _ _ _).mp hk
        obtain ⟨en', hen', f1, f2⟩ := h.t2e k v w' hk1
        refine ⟨en', ?_, f1, f2⟩
        simp only [List.mem_filter, bne_iff_ne, ne_eq]
        refine ⟨hen', ?_⟩
        intro hid
        have : en' = en := eq_of_nodup_map (·.id) hn hen' hen (by rw [hid, e2])
        rw [this, e1] at f1
        exact hk2 f1.symm
  · intro hnone
    have h3 := hs.none hnone
    refine ⟨h.bound, hs.wf, hs.timely, ?_, ?_, ?_⟩
    · intro en hen
      obtain ⟨w, hw, hd⟩ := h.e2t en hen
      exact ⟨w, (h3 _ _ _).mpr hw, hd⟩
    · intro k v w hk
      exact h.t2e k v w ((h3 _ _ _).mp hk)
    · intro en hen w hw
      exact h.due en hen w ((h3 _ _ _).mp hw)

theorem TInv.clear (m : Nat) {q : DelayQ} {now : Nat} (ht : q.Timely now) : TInv m [] q.clear now :=
  ⟨Nat.zero_le _, clear_wf q, clear_timely ht, fun en hen => (by cases hen), fun k v w hk => absurd hk (clear_has q k v w),
   fun en hen => (by cases hen)⟩

theorem TInv.empty (m now : Nat) : TInv m [] {} now :=
  ⟨Nat.zero_le _, empty_wf, empty_timely now, fun en hen => (by cases hen), fun k v w hk => absurd hk (empty_has k v w),
   fun en hen => (by cases hen)⟩

/-- The armed timers and the table have the same size. -/
theorem TInv.len_eq {m : Nat} {inf : List Entry} {q : DelayQ} {now : Nat} (h : TInv m inf q now)
    (hn : (inf.map (·.id)).Nodup) : q.len = inf.length := by
  rw [len_eq_all]
  have h1 : (q.all.map (·.key)).Nodup := by
    have := h.wf.keys
    rw [List.Nodup, List.pairwise_map]; exact this
  have h2 : (inf.map (·.timerKey)).Nodup := by
    rw [List.Nodup, List.pairwise_map]
    have hn' : inf.Pairwise (fun a b => a.id ≠ b.id) := by
      rw [List.Nodup, List.pairwise_map] at hn; exact hn
    refine hn'.imp_of_mem ?_
    intro a b ha hb hab hk
    obtain ⟨wa, hwa, -⟩ := h.e2t a ha
    obtain ⟨wb, hwb, -⟩ := h.e2t b hb
    rw [hk] at hwa
    exact hab (Has.functional h.wf hwa hwb).1
  have hp : (q.all.map (·.key)).Perm (inf.map (·.timerKey)) := by
    rw [List.perm_ext_iff_of_nodup h1 h2]
    intro k
    simp only [List.mem_map]
    constructor
    · rintro ⟨d, hd, rfl⟩
      obtain ⟨en, hen, e1, -⟩ := h.t2e d.key d.val d.whenMs ⟨d, hd, rfl, rfl, rfl⟩
      exact ⟨en, hen, e1⟩
    · rintro ⟨en, hen, rfl⟩
      obtain ⟨w, ⟨d, hd, e1, -⟩, -⟩ := h.e2t en hen
      exact ⟨d, hd, e1⟩
  simpa using hp.length_eq

/-! ### updates of calls -/

/-- An update `c ↦ c'` of a call future that the invariant tolerates at time `now`. -/
structure CallOK (x : Option Nat) (now : Nat) (c c' : Call) : Prop where
  cid : c'.cid = c.cid
  ctx : c'.ctx = c.ctx
  id : c'.id = c.id
  asg : Assigned x c' → Assigned x c
  wait : Waiting x c' → Waiting x c
  os : c'.os.val = some .deadline → c.os.val = some .deadline ∨ c.ctx.deadline ≤ now
  out : c'.outcome = some .deadline → c.outcome = some .deadline ∨ c.ctx.deadline ≤ now

theorem CallOK.refl (x : Option Nat) (now : Nat) (c : Call) : CallOK x now c c :=
  ⟨rfl, rfl, rfl, fun h => h, fun h => h, Or.inl, Or.inl⟩

/-- `updCall`'s function on the whole list -/
def updFn (cid : Nat) (f : Call → Call) (c : Call) : Call := if c.cid == cid then f c else c

theorem updCall_calls (s : St) (cid : Nat) (f : Call → Call) : (updCall s cid f).calls = s.calls.map (updFn cid f) := rfl

theorem callOK_updFn {x : Option Nat} {now cid : Nat} {f : Call → Call} {calls : List Call}
    (hf : ∀ c ∈ calls, c.cid = cid → CallOK x now c (f c)) : ∀ c ∈ calls, CallOK x now c (updFn cid f c) := by
  intro c hc
  unfold updFn
  split
  · rename_i h; exact hf c hc (by simpa using h)
  · exact CallOK.refl x now c

theorem CInv.map {x : Option Nat} {l : List Call} {n now : Nat} (h : CInv x l n now) (g : Call → Call)
    (hg : ∀ c ∈ l, CallOK x now c (g c)) : CInv x (l.map g) n now := by
  refine ⟨?_, ?_, ?_, ?_, ?_, ?_⟩
  · intro c' hc'
    obtain ⟨c, hc, rfl⟩ := List.mem_map.mp hc'
    rw [List.length_map, (hg c hc).cid]; exact h.cidLt c hc
  · rw [List.map_map]
    have : l.map ((·.cid) ∘ g) = l.map (·.cid) := by
      apply List.map_congr_left; intro c hc; exact (hg c hc).cid
    rw [this]; exact h.cidNodup
  · intro c' hc' ha
    obtain ⟨c, hc, rfl⟩ := List.mem_map.mp hc'
    rw [(hg c hc).id]; exact h.idLt c hc ((hg c hc).asg ha)
  · intro c1' h1' c2' h2' a1 a2 hid
    obtain ⟨c1, h1, rfl⟩ := List.mem_map.mp h1'
    obtain ⟨c2, h2, rfl⟩ := List.mem_map.mp h2'
    rw [(hg c1 h1).cid, (hg c2 h2).cid]
    exact h.idInj c1 h1 c2 h2 ((hg c1 h1).asg a1) ((hg c2 h2).asg a2) (by rw [← (hg c1 h1).id, ← (hg c2 h2).id]; exact hid)
  · intro c' hc' hv
    obtain ⟨c, hc, rfl⟩ := List.mem_map.mp hc'
    rw [(hg c hc).ctx]
    rcases (hg c hc).os hv with h1 | h1
    · exact h.osDl c hc h1
    · exact h1
  · intro c' hc' hv
    obtain ⟨c, hc, rfl⟩ := List.mem_map.mp hc'
    rw [(hg c hc).ctx]
    rcases (hg c hc).out hv with h1 | h1
    · exact h.outDl c hc h1
    · exact h1

theorem RInv.map {x : Option Nat} {l : List Call} {pq : List DReq} {inf : List Entry} {now : Nat}
    (h : RInv x l pq inf) (g : Call → Call) (hg : ∀ c ∈ l, CallOK x now c (g c)) : RInv x (l.map g) pq inf := by
  refine ⟨?_, ?_, ?_⟩
  · intro c' hc' hw
    obtain ⟨c, hc, rfl⟩ := List.mem_map.mp hc'
    rw [(hg c hc).id]; exact h.resv c hc ((hg c hc).wait hw)
  · intro r hr
    obtain ⟨c, hm, e1, e2⟩ := h.pqCtx r hr
    exact ⟨g c, List.mem_map_of_mem hm, by rw [(hg c hm).cid]; exact e1, by rw [(hg c hm).ctx]; exact e2⟩
  · intro en hen
    obtain ⟨c, hm, e1, e2⟩ := h.inCtx en hen
    exact ⟨g c, List.mem_map_of_mem hm, by rw [(hg c hm).cid]; exact e1, by rw [(hg c hm).ctx]; exact e2⟩

theorem ObsGood.map {x : Option Nat} {m now : Nat} {l : List Call} {o : Obs} (h : ObsGood m l now o) (g : Call → Call)
    (hg : ∀ c ∈ l, CallOK x now c (g c)) : ObsGood m (l.map g) now o := by
  cases o <;> try exact h
  rename_i cid oc t
  intro hd
  obtain ⟨c, hm, e1, e2⟩ := h hd
  exact ⟨g c, List.mem_map_of_mem hm, by rw [(hg c hm).cid]; exact e1, by rw [(hg c hm).ctx]; exact e2⟩

/-- A step that only rewrites calls (each in a tolerated way). -/
theorem Inv'.of_calls {x : Option Nat} {b : Snap} {s s' : St} {now : Nat} (h : Inv' x b s now)
    (hm : s'.maxInFlight = s.maxInFlight) (hi : s'.inflight = s.inflight) (ht : s'.timers = s.timers)
    (hn : s'.nextId = s.nextId) (hp : s'.pq = s.pq) (ho : s'.obs = s.obs) (g : Call → Call)
    (hc : s'.calls = s.calls.map g) (hg : ∀ c ∈ s.calls, CallOK x now c (g c))
    (hh : s'.handles = s.handles := by rfl) (hnh : s'.nextHandle = s.nextHandle := by rfl) : Inv' x b s' now := by
  have hsig : callSig s'.calls = callSig s.calls := by
    rw [hc, callSig, callSig, List.map_map]
    apply List.map_congr_left
    intro c hc'
    simp only [Function.comp, (hg c hc').cid, (hg c hc').ctx]
  have hfr : frame s' = frame s := by simp only [Client.frame, hsig, hm, hh, hnh]
  refine ⟨fun f hf => hfr.trans (h.fr f hf), ?_, ?_, ?_, ?_, ?_⟩
  · rw [hm, hi, ht]; exact h.t
  · rw [hp, hi, hn]; exact h.i
  · rw [hn, hc]; exact h.c.map g hg
  · rw [hp, hi, hc]; exact h.r.map g hg
  · rw [hm, hc, ho]; intro o ho'; exact (h.o o ho').map g hg

theorem Inv'.updCall {x : Option Nat} {b : Snap} {s : St} {now : Nat} (h : Inv' x b s now) (cid : Nat) (f : Call → Call)
    (hf : ∀ c ∈ s.calls, c.cid = cid → CallOK x now c (f c)) : Inv' x b (updCall s cid f) now :=
  h.of_calls rfl rfl rfl rfl rfl rfl (updFn cid f) rfl (callOK_updFn hf)

theorem Inv'.emit {x : Option Nat} {b : Snap} {s : St} {now : Nat} (h : Inv' x b s now) {o : Obs}
    (ho : ObsGood s.maxInFlight s.calls now o) : Inv' x b (emit s o) now := by
  refine ⟨h.fr, h.t, h.i, h.c, h.r, ?_⟩
  intro o' ho'
  simp only [Client.emit, List.mem_cons] at ho'
  rcases ho' with rfl | ho'
  · exact ho
  · exact h.o o' ho'

theorem Inv'.mono {x : Option Nat} {b : Snap} {s : St} {now now' : Nat} (h : Inv' x b s now) (hle : now ≤ now') : Inv' x b s now' :=
  ⟨h.fr, h.t.mono hle, h.i, ⟨h.c.cidLt, h.c.cidNodup, h.c.idLt, h.c.idInj,
    fun c hc hv => Nat.le_trans (h.c.osDl c hc hv) hle, fun c hc hv => Nat.le_trans (h.c.outDl c hc hv) hle⟩, h.r,
    fun o ho => (h.o o ho).mono hle⟩

/-! ### `getCall` -/

theorem getCall_some {s : St} {cid : Nat} {c : Call} (h : getCall s cid = some c) : c ∈ s.calls ∧ c.cid = cid := by
  unfold getCall at h
  exact ⟨List.mem_of_find?_eq_some h, by simpa using List.find?_some h⟩

theorem getCall_none {s : St} {cid : Nat} (h : getCall s cid = none) : ∀ c ∈ s.calls, c.cid ≠ cid := by
  unfold getCall at h
  intro c hc
  have := List.find?_eq_none.mp h c hc
  simpa using this

/-- Call ids (`cid`) identify calls. -/
theorem CInv.cid_unique {x : Option Nat} {l : List Call} {n now : Nat} (h : CInv x l n now) {c1 c2 : Call}
    (h1 : c1 ∈ l) (h2 : c2 ∈ l) (he : c1.cid = c2.cid) : c1 = c2 :=
  eq_of_nodup_map (·.cid) h.cidNodup h1 h2 he

theorem Inv'.call_unique {x : Option Nat} {b : Snap} {s : St} {now cid : Nat} {c : Call} (h : Inv' x b s now)
    (hg : getCall s cid = some c) : ∀ c' ∈ s.calls, c'.cid = cid → c' = c := by
  intro c' hc' he
  obtain ⟨hm, hcid⟩ := getCall_some hg
  exact h.c.cid_unique hc' hm (by rw [he, hcid])

theorem getCall_updCall_self (s : St) (cid : Nat) (f : Call → Call) (hf : ∀ c, (f c).cid = c.cid) :
    getCall (updCall s cid f) cid = (getCall s cid).map f := by
  unfold getCall
  rw [updCall_calls, List.find?_map]
  have : ((fun c : Call => c.cid == cid) ∘ updFn cid f) = (fun c : Call => c.cid == cid) := by
    funext c
    simp only [Function.comp, updFn]
    split
    · rename_i h; rw [hf]
    · rfl
  rw [this]
  cases h : List.find? (fun c : Call => c.cid == cid) s.calls with
  | none => rfl
  | some c =>
    have := List.find?_some h
    simp only [Option.map_some, updFn, this, ↓reduceIte]

theorem Inv'.weaken {x : Option Nat} {b : Snap} {s : St} {now : Nat} (h : Inv' x b s now) : Inv' none b s now := by
  have ha : ∀ c, Assigned none c → Assigned x c := by
    intro c hc; simp only [Assigned, reduceCtorEq, or_false] at hc
    rcases hc with h1 | h1 | h1
    · exact Or.inl h1
    · exact Or.inr (Or.inl h1)
    · exact Or.inr (Or.inr (Or.inl h1))
  have hw : ∀ c, Waiting none c → Waiting x c := by
    intro c hc; simp only [Waiting, reduceCtorEq, and_false, or_false] at hc
    exact Or.inl hc
  exact ⟨h.fr, h.t, h.i, ⟨h.c.cidLt, h.c.cidNodup, fun c hc a => h.c.idLt c hc (ha c a),
    fun c1 h1 c2 h2 a1 a2 => h.c.idInj c1 h1 c2 h2 (ha c1 a1) (ha c2 a2), h.c.osDl, h.c.outDl⟩,
    ⟨fun c hc w => h.r.resv c hc (hw c w), h.r.pqCtx, h.r.inCtx⟩, h.o⟩

/-! ### oneshot, `resolve` -/

theorem Inv'.osSend {x : Option Nat} {b : Snap} {s : St} {now : Nat} (h : Inv' x b s now) (cid : Nat) (o : Outcome)
    (ho : o = .deadline → ∀ c ∈ s.calls, c.cid = cid → c.ctx.deadline ≤ now) : Inv' x b (osSend s cid o) now := by
  unfold Client.osSend
  split
  · exact h
  · split
    · exact h
    · simp only
      have h1 : Inv' x b (Client.updCall s cid (fun c => { c with os := { c.os with val := some o, rxWaker := false } })) now :=
        h.updCall cid _ (by
          intro c hc hcid
          exact ⟨rfl, rfl, rfl, fun h => h, fun h => h,
            fun hv => Or.inr (ho (by simpa using hv) c hc hcid), Or.inl⟩)
      split
      · exact h1.quiet (quiet_wakeCall _ _)
      · exact h1

theorem Inv'.resolve {x : Option Nat} {b : Snap} {s : St} {now cid : Nat} {c : Call} (h : Inv' x b s now) (o : Outcome)
    (hg : getCall s cid = some c) (ha : Assigned x c) (ho : o = .deadline → c.ctx.deadline ≤ now) :
    Inv' x b (resolve s cid o now) now := by
  unfold Client.resolve
  simp only
  obtain ⟨hm, hcid⟩ := getCall_some hg
  have hu := h.call_unique hg
  have h1 : Inv' x b (Client.updCall s cid (fun c => { c with phase := .resolved, outcome := some o, woken := false, os := { c.os with rxClosed := true, rxWaker := false } })) now :=
    h.updCall cid _ (by
      intro c' hc' hcid'
      have := hu c' hc' hcid'; subst this
      exact ⟨rfl, rfl, rfl, fun _ => ha, fun hw => by simp [Waiting] at hw, Or.inl,
        fun hv => Or.inr (ho (by simpa using hv))⟩)
  refine (h1.emit ?_).quiet (quiet_afterCallGone _)
  intro hd
  refine ⟨_, List.mem_map_of_mem hm, ?_, ?_, Nat.le_refl _⟩
  · simp only [updFn, hcid, beq_self_eq_true, ↓reduceIte]
  · simp only [updFn, hcid, beq_self_eq_true, ↓reduceIte]; exact ho hd

theorem Inv'.pollOneshot {x : Option Nat} {b : Snap} {s : St} {now : Nat} (h : Inv' x b s now) (cid : Nat)
    (ha : ∀ c, getCall s cid = some c → Assigned x c) : Inv' x b (pollOneshot s cid now) now := by
  unfold Client.pollOneshot
  cases hg : getCall s cid with
  | none => exact h
  | some c =>
    simp only
    obtain ⟨hm, hcid⟩ := getCall_some hg
    cases hv : c.os.val with
    | some o =>
      simp only
      have h1 : Inv' x b (Client.updCall s cid (fun c => { c with os := { c.os with val := none } })) now :=
        h.updCall cid _ (by
          intro c' hc' hcid'
          exact ⟨rfl, rfl, rfl, fun h => h, fun h => h, fun hv => by simp at hv, Or.inl⟩)
      have hg1 := getCall_updCall_self s cid (fun c => { c with os := { c.os with val := none } }) (fun c => rfl)
      rw [hg] at hg1
      exact h1.resolve o hg1 (ha c hg) (fun hd => h.c.osDl c hm (by rw [hv, hd]))
    | none =>
      simp only
      split
      · exact h.resolve .shutdown hg (ha c hg) (fun hd => by cases hd)
      · exact (h.quiet (quiet_updCall s cid _ (by intro c; rfl))).quiet (quiet_emit _ (by simp [Harmless]))

/-! ### shrinking the queue / the table -/

theorem IdInv.sublist {pq pq' : List DReq} {inf inf' : List Entry} {n : Nat} (h : IdInv pq inf n)
    (hp : pq'.Sublist pq) (hi : inf'.Sublist inf) : IdInv pq' inf' n :=
  ⟨h.nodup.sublist ((hp.map _).append (hi.map _)), fun r hr => h.pqLt r (hp.subset hr),
   fun en hen => h.inLt en (hi.subset hen)⟩

theorem IdInv.inNodup {pq : List DReq} {inf : List Entry} {n : Nat} (h : IdInv pq inf n) : (inf.map (·.id)).Nodup :=
  (List.nodup_append.mp h.nodup).2.1

theorem RInv.subset {x : Option Nat} {calls : List Call} {pq pq' : List DReq} {inf inf' : List Entry}
    (h : RInv x calls pq inf) (hp : ∀ r ∈ pq', r ∈ pq) (hi : ∀ en ∈ inf', en ∈ inf) : RInv x calls pq' inf' :=
  ⟨fun c hc hw => ⟨fun r hr => (h.resv c hc hw).1 r (hp r hr), fun en hen => (h.resv c hc hw).2 en (hi en hen)⟩,
   fun r hr => h.pqCtx r (hp r hr), fun en hen => h.inCtx en (hi en hen)⟩

/-- Entries leave the queue and/or the table (with the timers following suit). -/
theorem Inv'.shrink {x : Option Nat} {b : Snap} {s s' : St} {now : Nat} (h : Inv' x b s now)
    (hm : s'.maxInFlight = s.maxInFlight) (hp : s'.pq.Sublist s.pq) (hi : s'.inflight.Sublist s.inflight)
    (hn : s'.nextId = s.nextId) (hc : s'.calls = s.calls) (ho : s'.obs = s.obs)
    (ht : TInv s.maxInFlight s'.inflight s'.timers now)
    (hh : s'.handles = s.handles := by rfl) (hnh : s'.nextHandle = s.nextHandle := by rfl) : Inv' x b s' now := by
  have hfr : frame s' = frame s := by simp only [Client.frame, hc, hm, hh, hnh]
  refine ⟨fun f hf => hfr.trans (h.fr f hf), ?_, ?_, ?_, ?_, ?_⟩
  · rw [hm]; exact ht
  · rw [hn]; exact h.i.sublist hp hi
  · rw [hn, hc]; exact h.c
  · rw [hc]; exact h.r.subset (fun r hr => hp.subset hr) (fun en hen => hi.subset hen)
  · rw [hm, hc, ho]; exact h.o

theorem findEntry_some_mem {s : St} {id : Nat} {e : Entry} (h : findEntry s id = some e) : e ∈ s.inflight ∧ e.id = id := by
  unfold findEntry at h
  exact ⟨List.mem_of_find?_eq_some h, by simpa using List.find?_some h⟩

theorem findEntry_none_ne {s : St} {id : Nat} (h : findEntry s id = none) : ∀ e ∈ s.inflight, e.id ≠ id := by
  unfold findEntry at h
  intro e he
  simpa using List.find?_eq_none.mp h e he

/-- `complete_request` / `cancel_request` up to the point where the entry and its timer are gone. -/
theorem Inv'.removeEntry {x : Option Nat} {b : Snap} {s : St} {now id : Nat} {e : Entry}
    (h : Inv' x b s now) (hf : findEntry s id = some e) :
    Inv' x b (removeTimer { s with inflight := s.inflight.filter (·.id != id) } e.timerKey) now := by
  obtain ⟨he, hid⟩ := findEntry_some_mem hf
  subst hid
  unfold removeTimer
  simp only
  cases hr : s.timers.remove e.timerKey with
  | none => exact absurd hr (h.t.remove_ne_none he)
  | some p =>
    obtain ⟨q', b'⟩ := p
    simp only
    have hS : Inv' x b { s with inflight := s.inflight.filter (·.id != e.id), timers := q' } now :=
      h.shrink rfl (List.Sublist.refl _) List.filter_sublist rfl rfl rfl (h.t.remove h.i.inNodup he hr)
    split
    · exact hS.quiet (quiet_wakeDispatch _)
    · exact hS

theorem Inv'.completeRequest {x : Option Nat} {b : Snap} {s : St} {now : Nat} (h : Inv' x b s now)
    (id : Nat) (o : Outcome) (ho : o ≠ .deadline) : Inv' x b (completeRequest s id o).1 now := by
  unfold Client.completeRequest
  cases hf : findEntry s id with
  | none => exact h
  | some e => exact (h.removeEntry hf).osSend e.cid o (fun hd => absurd hd ho)

theorem Inv'.cancelRequest {x : Option Nat} {b : Snap} {s : St} {now : Nat} (h : Inv' x b s now)
    (id : Nat) : Inv' x b (cancelRequest s id).1 now := by
  unfold Client.cancelRequest
  cases hf : findEntry s id with
  | none => exact h
  | some e => exact h.removeEntry hf

/-! ### `insert_request` -/

theorem clampTimeout_le (hf : Gen.clientTimerClampSecs ≠ 0) (t : Nat) : clampTimeout t ≤ clampNs := by
  unfold clampTimeout clampNs
  have : (Gen.clientTimerClampSecs == 0) = false := by simpa using hf
  rw [this]; exact Nat.min_le_right _ _

/-- The `DelayQueue::insert` range check cannot fail before `panicFreeNs` when the armed timeout is clamped (and the
clamp fits the queue's range): `when - wheelElapsed ≤ ceilMs (now + clampNs) ≤ now_ms + clamp_ms + 1 ≤ 2^36 - 1`. -/
theorem insert_panic_late {q q' : DelayQ} {now t val : Nat} {w : Bool}
    (h : q.insert now (clampTimeout t) val = (q', .panic, w)) (hf : ClampFits) : panicFreeNs ≤ now := by
  have ht := clampTimeout_le hf.1 t
  have h2 := hf.2
  rw [insert_eq] at h
  by_cases hp : (insertWhen q now (clampTimeout t) > q.wheelElapsed &&
      insertWhen q now (clampTimeout t) - q.wheelElapsed > delayQMaxMs) = true
  · simp only [Bool.and_eq_true, decide_eq_true_eq] at hp
    have hc2 := hp.2
    unfold insertWhen ceilMs nsPerMs at hc2
    unfold panicFreeNs nsPerMs
    unfold clampNs at ht
    unfold delayQMaxMs at hc2 h2
    generalize clampTimeout t = T at ht hc2
    generalize Gen.clientTimerClampSecs = S at ht h2
    omega
  · rw [if_neg hp] at h
    by_cases hc : insertShouldSet q (insertWhen q now (clampTimeout t)) = true
    · rw [if_pos hc] at h; simp only [Prod.mk.injEq, reduceCtorEq, false_and, and_false] at h
    · rw [if_neg hc] at h; simp only [Prod.mk.injEq, reduceCtorEq, false_and, and_false] at h

/-- The three ways `insert_request` ends. -/
theorem insertRequest_some {s s' : St} {now : Nat} {r : DReq} (h : insertRequest s now r = some s') :
    ((findEntry s r.id).isSome = true ∧
      s' = emit { s with poisoned := true } (.panic (tid s) "Request IDs should be unique")) ∨
    (findEntry s r.id = none ∧ ∃ q w, s.timers.insert now (clampTimeout (r.ctx.deadline - now)) r.id = (q, .panic, w) ∧
      s' = emit { s with poisoned := true } (.panic (tid s) "DelayQueue::insert: invalid deadline")) ∨
    (findEntry s r.id = none ∧ ∃ q key w, s.timers.insert now (clampTimeout (r.ctx.deadline - now)) r.id = (q, .ok key, w) ∧
      s' = (if w then
              wakeDispatch { s with timers := q, inflight := s.inflight ++ [{ id := r.id, cid := r.cid, ctx := r.ctx, timerKey := key, remainder := (r.ctx.deadline - now) - clampTimeout (r.ctx.deadline - now), dueAt := now + clampTimeout (r.ctx.deadline - now) }] }
            else { s with timers := q, inflight := s.inflight ++ [{ id := r.id, cid := r.cid, ctx := r.ctx, timerKey := key, remainder := (r.ctx.deadline - now) - clampTimeout (r.ctx.deadline - now), dueAt := now + clampTimeout (r.ctx.deadline - now) }] })) := by
  unfold Client.insertRequest at h
  split at h
  · rename_i hf; cases h; exact Or.inl ⟨hf, rfl⟩
  · rename_i hf
    have hf' : findEntry s r.id = none := by simpa using hf
    split at h
    · rename_i q w hq; cases h; exact Or.inr (Or.inl ⟨hf', _, _, hq, rfl⟩)
    · rename_i q key w hq; cases h; exact Or.inr (Or.inr ⟨hf', _, _, _, hq, rfl⟩)

/-- `insert_request` for a request just taken off the queue (it still counts as queued in the hypothesis):
the "Request IDs should be unique" panic is unreachable. -/
theorem Inv'.insertRequest {x : Option Nat} {b : Snap} {s : St} {now : Nat} {r : DReq}
    (h : Inv' x b { s with pq := r :: s.pq } now) (hlt : s.inflight.length < s.maxInFlight) :
    ∀ s', insertRequest s now r = some s' → Inv' x b s' now := by
  intro s' hs'
  have h0 : Inv' x b s now :=
    h.shrink rfl (List.sublist_cons_self _ _) (List.Sublist.refl _) rfl rfl rfl h.t
  rcases insertRequest_some hs' with ⟨hsome, -⟩ | ⟨hf, q, w, hins, rfl⟩ | ⟨hf, q, key, w, hins, rfl⟩
  · exfalso
    obtain ⟨e, hf⟩ := Option.isSome_iff_exists.mp hsome
    obtain ⟨he, hid⟩ := findEntry_some_mem hf
    have := h.i.nodup
    simp only [List.map_cons, List.cons_append, List.nodup_cons, List.mem_append, List.mem_map, not_or,
      not_exists, not_and] at this
    exact this.1.2 e he hid
  · exact Inv'.emit (s := { s with poisoned := true }) ⟨h0.fr, h0.t, h0.i, h0.c, h0.r, h0.o⟩
      ⟨rfl, insert_panic_late hins⟩
  · have hnone := findEntry_none_ne hf
    suffices hS : Inv' x b { s with timers := q, inflight := s.inflight ++ [{ id := r.id, cid := r.cid, ctx := r.ctx, timerKey := key, remainder := (r.ctx.deadline - now) - clampTimeout (r.ctx.deadline - now), dueAt := now + clampTimeout (r.ctx.deadline - now) }] } now by
      split
      · exact hS.quiet (quiet_wakeDispatch _)
      · exact hS
    refine ⟨h0.fr, h0.t.insert hlt r.id r.cid key r.ctx hins, ?_, h0.c, ?_, h0.o⟩
    · have hn := h.i.nodup
      refine ⟨?_, h0.i.pqLt, ?_⟩
      · simp only [List.map_cons, List.cons_append, List.nodup_cons, List.mem_append, List.mem_map, not_or,
          not_exists, not_and, List.map_append, List.map_nil, List.nodup_append, List.mem_singleton,
          List.not_mem_nil, false_implies, implies_true, and_true, List.Nodup, List.Pairwise.nil,
          List.pairwise_cons, forall_eq] at hn ⊢
        grind
      · intro en hen
        simp only [List.mem_append, List.mem_singleton] at hen
        rcases hen with hen | rfl
        · exact h0.i.inLt en hen
        · exact h.i.pqLt r List.mem_cons_self
    · refine ⟨?_, h0.r.pqCtx, ?_⟩
      · intro c hc hw
        obtain ⟨h1, h2⟩ := h.r.resv c hc hw
        refine ⟨fun r' hr' => h1 r' (List.mem_cons_of_mem _ hr'), ?_⟩
        intro en hen
        simp only [List.mem_append, List.mem_singleton] at hen
        rcases hen with hen | rfl
        · exact h2 en hen
        · exact h1 r List.mem_cons_self
      · intro en hen
        simp only [List.mem_append, List.mem_singleton] at hen
        rcases hen with hen | rfl
        · exact h0.r.inCtx en hen
        · exact h.r.pqCtx r List.mem_cons_self

/-! ### `poll_expired` -/

theorem rearmEntry_same (id key t due : Nat) (e : Entry) :
    (rearmEntry id key t due e).id = e.id ∧ (rearmEntry id key t due e).cid = e.cid ∧
      (rearmEntry id key t due e).ctx = e.ctx := by
  unfold rearmEntry; split <;> exact ⟨rfl, rfl, rfl⟩

theorem rearmEntry_ne {id key t due : Nat} {e : Entry} (h : e.id ≠ id) : rearmEntry id key t due e = e := by
  unfold rearmEntry; rw [if_neg (by simpa using h)]

theorem rearmEntry_eq {id key t due : Nat} {e : Entry} (h : e.id = id) :
    rearmEntry id key t due e = { e with timerKey := key, remainder := e.remainder - t, dueAt := due } := by
  unfold rearmEntry; rw [if_pos (by simpa using h)]

/-- The entries are re-keyed (id, call and context stay) and the timers follow suit. -/
theorem Inv'.rekey {x : Option Nat} {b : Snap} {s s' : St} {now : Nat} (h : Inv' x b s now) (f : Entry → Entry)
    (hf : ∀ e, (f e).id = e.id ∧ (f e).cid = e.cid ∧ (f e).ctx = e.ctx)
    (hm : s'.maxInFlight = s.maxInFlight) (hp : s'.pq = s.pq) (hi : s'.inflight = s.inflight.map f)
    (hn : s'.nextId = s.nextId) (hc : s'.calls = s.calls) (ho : s'.obs = s.obs)
    (ht : TInv s.maxInFlight s'.inflight s'.timers now)
    (hh : s'.handles = s.handles := by rfl) (hnh : s'.nextHandle = s.nextHandle := by rfl) : Inv' x b s' now := by
  have hfr : frame s' = frame s := by simp only [Client.frame, hc, hm, hh, hnh]
  have hids : (s.inflight.map f).map (·.id) = s.inflight.map (·.id) := by
    rw [List.map_map]; apply List.map_congr_left; intro e _; exact (hf e).1
  refine ⟨fun g hg => hfr.trans (h.fr g hg), ?_, ?_, ?_, ?_, ?_⟩
  · rw [hm]; exact ht
  · rw [hn, hp, hi]
    refine ⟨by rw [hids]; exact h.i.nodup, h.i.pqLt, fun en hen => ?_⟩
    obtain ⟨e, he, rfl⟩ := List.mem_map.mp hen
    rw [(hf e).1]; exact h.i.inLt e he
  · rw [hn, hc]; exact h.c
  · rw [hc, hp, hi]
    refine ⟨fun c hc hw => ⟨(h.r.resv c hc hw).1, fun en hen => ?_⟩, h.r.pqCtx, fun en hen => ?_⟩
    · obtain ⟨e, he, rfl⟩ := List.mem_map.mp hen
      rw [(hf e).1]; exact (h.r.resv c hc hw).2 e he
    · obtain ⟨e, he, rfl⟩ := List.mem_map.mp hen
      rw [(hf e).2.1, (hf e).2.2]; exact h.r.inCtx e he
  · rw [hm, hc, ho]; exact h.o

/-- The two ways re-arming ends (case analysis on the *result* of the insert). -/
theorem rearmWith_cases (s : St) (id t due : Nat) (r : DelayQ × DelayQ.InsertRes × Bool) :
    (∃ q' w, r = (q', .panic, w) ∧ rearmWith s id t due r =
      .done (emit { s with poisoned := true } (.panic (tid s) "DelayQueue::insert: invalid deadline")) false) ∨
    (∃ q' key w, r = (q', .ok key, w) ∧ rearmWith s id t due r =
      .again (if w then wakeDispatch { s with timers := q', inflight := s.inflight.map (rearmEntry id key t due) }
              else { s with timers := q', inflight := s.inflight.map (rearmEntry id key t due) })) := by
  obtain ⟨q', res, w⟩ := r
  cases res with
  | panic => exact Or.inl ⟨q', w, rfl, rfl⟩
  | ok key => exact Or.inr ⟨q', key, w, rfl, rfl⟩

theorem mem_map_rearm {inf : List Entry} (hn : (inf.map (·.id)).Nodup) {en : Entry} (hen : en ∈ inf) (key t due : Nat)
    (x : Entry) :
    x ∈ inf.map (rearmEntry en.id key t due) ↔
      x ∈ inf.filter (·.id != en.id) ++ [{ en with timerKey := key, remainder := en.remainder - t, dueAt := due }] := by
  simp only [List.mem_map, List.mem_append, List.mem_filter, bne_iff_ne, ne_eq, List.mem_singleton]
  constructor
  · rintro ⟨e, he, rfl⟩
    by_cases hid : e.id = en.id
    · have : e = en := eq_of_nodup_map (·.id) hn he hen hid
      subst this
      exact Or.inr (rearmEntry_eq rfl)
    · rw [rearmEntry_ne hid]; exact Or.inl ⟨he, hid⟩
  · rintro (⟨hx, hid⟩ | rfl)
    · exact ⟨x, hx, rearmEntry_ne hid⟩
    · exact ⟨en, hen, rearmEntry_eq rfl⟩

theorem length_filter_ne_lt {inf : List Entry} {en : Entry} (hen : en ∈ inf) :
    (inf.filter (·.id != en.id)).length < inf.length :=
  List.length_filter_lt_length_iff_exists.mpr ⟨en, hen, by simp⟩

/-- `poll_expired`, one iteration, on the result `r` of polling the queue. -/
theorem Inv'.expireWith {x : Option Nat} {b : Snap} {s : St} {now : Nat} (h : Inv' x b s now)
    (r : DelayQ × DelayQ.PollRes) (hr : r = s.timers.pollExpired now) :
    Inv' x b (expireWith s now r).st now := by
  obtain ⟨hsome, hnone⟩ := h.t.expired h.i.inNodup
  rw [← hr] at hsome hnone
  unfold Client.expireWith
  split
  · rename_i q e
    obtain ⟨en0, hen0, hid0, hdl, hdue, ht, hd1, hd2, hd3, hd4⟩ := hsome e rfl
    simp only at ht
    cases hf : findEntry s e.val with
    | none => exact absurd hid0 (findEntry_none_ne hf en0 hen0)
    | some en =>
      obtain ⟨hen, hid⟩ := findEntry_some_mem hf
      have heq : en = en0 := eq_of_nodup_map (·.id) h.i.inNodup hen hen0 (by rw [hid, hid0])
      subst heq
      show Inv' x b (ExpStep.st (if en.remainder - (now - en.dueAt) != 0 then _ else _)) now
      split
      · -- the timer is re-armed with (part of) what is left of the remainder after the lateness
        rename_i hne
        have hne' : en.remainder - (now - en.dueAt) ≠ 0 := by simpa using hne
        unfold Client.rearm
        rcases rearmWith_cases s e.val (now - en.dueAt + clampTimeout (en.remainder - (now - en.dueAt)))
            (now + clampTimeout (en.remainder - (now - en.dueAt)))
            (q.insert now (clampTimeout (en.remainder - (now - en.dueAt))) e.val) with
          ⟨q', w, hins, hrw⟩ | ⟨q', key, w, hins, hrw⟩
        · rw [hrw]
          exact Inv'.emit (s := { s with poisoned := true }) ⟨h.fr, h.t, h.i, h.c, h.r, h.o⟩
            ⟨rfl, insert_panic_late hins⟩
        · rw [hrw]
          have hle := clampTimeout_le_self (en.remainder - (now - en.dueAt))
          generalize hT' : clampTimeout (en.remainder - (now - en.dueAt)) = T at hins hle ⊢
          generalize hcut : now - en.dueAt + T = cut
          have hT : TInv s.maxInFlight (s.inflight.map (rearmEntry e.val key cut (now + T))) q' now := by
            have h1 : TInv s.maxInFlight
                (s.inflight.filter (·.id != e.val) ++
                  [{ en with timerKey := key, remainder := en.remainder - cut, dueAt := now + T }]) q' now := by
              refine ht.insertEntry ?_ { en with timerKey := key, remainder := en.remainder - cut, dueAt := now + T }
                (by rw [← hid] at hins; exact hins) rfl (by simp only; omega) (by simp only; omega)
              have := length_filter_ne_lt hen
              rw [hid] at this
              exact Nat.lt_of_lt_of_le this h.t.bound
            refine h1.of_mem (by rw [List.length_map]; exact h.t.bound) (fun y => ?_)
            rw [← hid]; exact mem_map_rearm h.i.inNodup hen key _ _ y
          have hS : Inv' x b { s with timers := q', inflight := s.inflight.map (rearmEntry e.val key cut (now + T)) } now :=
            h.rekey _ (rearmEntry_same _ _ _ _) rfl rfl rfl rfl rfl rfl hT
          show Inv' x b (if w = true then _ else _) now
          split
          · exact hS.quiet (quiet_wakeDispatch _)
          · exact hS
      · -- nothing left to arm: the deadline has passed
        rename_i hz
        have hz' : en.remainder - (now - en.dueAt) = 0 := by simpa using hz
        have h1 : Inv' x b { s with timers := q, inflight := s.inflight.filter (·.id != e.val) } now :=
          h.shrink rfl (List.Sublist.refl _) List.filter_sublist rfl rfl rfl ht
        refine h1.osSend en.cid .deadline ?_
        intro _ c hc hcid
        obtain ⟨c0, hc0, e1, e2⟩ := h.r.inCtx en hen
        have : c = c0 := h.c.cid_unique hc hc0 (by rw [hcid, e1])
        rw [this, ← e2]; omega
  · rename_i q res hres
    have hn : (q, res).2.entry = none := by
      cases res with
      | expired e => exact absurd rfl (hres e)
      | pending => rfl
      | none => rfl
    exact h.shrink rfl (List.Sublist.refl _) (List.Sublist.refl _) rfl rfl rfl (hnone hn)

theorem Inv'.pollExpiredLoop {x : Option Nat} {b : Snap} {now : Nat} (fuel : Nat) (s : St) (h : Inv' x b s now) :
    Inv' x b (pollExpiredLoop fuel s now).1 now := by
  induction fuel generalizing s with
  | zero => exact h
  | succ fuel ih =>
    have h1 : Inv' x b (expireStep s now).st now := h.expireWith _ rfl
    unfold Client.pollExpiredLoop; split <;> rename_i heq <;> rw [heq] at h1
    · exact ih _ h1
    · exact h1

theorem Inv'.pollExpired {x : Option Nat} {b : Snap} {s : St} {now : Nat} (h : Inv' x b s now) :
    Inv' x b (pollExpired s now).1 now := Inv'.pollExpiredLoop _ s h

/-- One iteration of `poll_expired` when the queue yields `e` for the tracked entry `en`. -/
theorem expireStep_of_expired {s : St} {now : Nat} {e : DqEntry} {en : Entry}
    (h : (s.timers.pollExpired now).2 = .expired e) (hf : findEntry s e.val = some en) :
    expireStep s now =
      if en.remainder - (now - en.dueAt) != 0 then
        rearm s (s.timers.pollExpired now).1 now e.val en (now - en.dueAt)
      else .done (osSend { s with timers := (s.timers.pollExpired now).1,
                                  inflight := s.inflight.filter (·.id != e.val) } en.cid .deadline) true := by
  unfold Client.expireStep
  generalize s.timers.pollExpired now = p at h ⊢
  obtain ⟨q, r⟩ := p
  simp only at h
  subst h
  simp only [Client.expireWith, hf]

/-- Re-arming never fails a request. -/
theorem rearm_ne_done_true (s : St) (q : DelayQ) (now id : Nat) (en : Entry) (late : Nat) (s' : St) :
    rearm s q now id en late ≠ .done s' true := by
  unfold Client.rearm
  rcases rearmWith_cases s id (late + clampTimeout (en.remainder - late)) (now + clampTimeout (en.remainder - late))
      (q.insert now (clampTimeout (en.remainder - late)) id) with
    ⟨_, _, _, hrw⟩ | ⟨_, _, _, _, hrw⟩ <;> rw [hrw] <;> simp

/-! ### `failAll`, queues -/

theorem Inv'.foldl {x : Option Nat} {b : Snap} {now : Nat} {α : Type} (f : St → α → St)
    (hf : ∀ s a, Inv' x b s now → Inv' x b (f s a) now) (l : List α) (s : St) (h : Inv' x b s now) :
    Inv' x b (l.foldl f s) now := by
  induction l generalizing s with
  | nil => exact h
  | cons a l ih => exact ih _ (hf s a h)

theorem Inv'.failAll {x : Option Nat} {b : Snap} {s : St} {now : Nat} (h : Inv' x b s now) (a : Activity) :
    Inv' x b (failAll s a) now := by
  unfold Client.failAll
  simp only
  refine Inv'.foldl _ (fun s e hs => hs.osSend e.cid _ (fun hd => by cases hd)) _ _ ?_
  exact h.shrink rfl (List.Sublist.refl _) (List.nil_sublist _) rfl rfl rfl (TInv.clear _ h.t.timely)

/-- `s` after `r` was taken off the request queue: `r` still counts as queued. -/
abbrev hold (s : St) (r : DReq) : St := { s with pq := r :: s.pq }

theorem quiet_hold {a b : St} (h : Quiet a b) (r : DReq) : Quiet (hold a r) (hold b r) :=
  ⟨h.maxInFlight, h.inflight, h.timers, h.nextId, by simp [hold, h.pq], h.calls, h.obs, h.handles, h.nextHandle⟩

theorem Inv'.unhold {x : Option Nat} {b : Snap} {s : St} {now : Nat} {r : DReq}
    (h : Inv' x b (hold s r) now) : Inv' x b s now :=
  h.shrink rfl (List.sublist_cons_self _ _) (List.Sublist.refl _) rfl rfl rfl h.t

/-- `poll_recv` either is quiet or hands out the head of the queue. -/
theorem pqRecv_split (s : St) :
    (∃ r, (pqRecv s).2 = .item r ∧ Quiet s (hold (pqRecv s).1 r)) ∨
    (Quiet s (pqRecv s).1 ∧ ((pqRecv s).2 = .pending ∨ (pqRecv s).2 = .closed)) := by
  unfold pqRecv
  cases hpq : s.pq with
  | cons r rest =>
    left
    refine ⟨r, rfl, ?_⟩
    have q := quiet_pqRelease { s with pq := rest }
    exact ⟨q.maxInFlight, q.inflight, q.timers, q.nextId, by simp [hold, q.pq, hpq], q.calls, q.obs, q.handles, q.nextHandle⟩
  | nil =>
    right
    simp only
    split
    · exact ⟨Quiet.refl s, Or.inr rfl⟩
    · split
      · exact ⟨Quiet.refl s, Or.inr rfl⟩
      · exact ⟨⟨rfl, rfl, ⟨rfl, rfl, rfl, rfl, rfl⟩, rfl, hpq.symm, rfl, fun o h => Or.inl h, rfl, rfl⟩, Or.inl rfl⟩

/-! ### the write pump -/

/-- Result of `poll_next_request`: a request handed out still counts as queued. -/
def HoldPW (x : Option Nat) (b : Snap) (now : Nat) (p : St × PW DReq) : Prop :=
  match p.2 with
  | .some r => Inv' x b (hold p.1 r) now
  | _ => Inv' x b p.1 now

theorem nextRequestLoop_spec {x : Option Nat} {b : Snap} {now : Nat} (fuel : Nat) (s : St)
    (h : Inv' x b s now) :
    HoldPW x b now (nextRequestLoop fuel s) ∧ (nextRequestLoop fuel s).1.inflight = s.inflight ∧
      (nextRequestLoop fuel s).1.maxInFlight = s.maxInFlight := by
  induction fuel generalizing s with
  | zero => exact ⟨h, rfl, rfl⟩
  | succ fuel ih =>
    unfold nextRequestLoop
    have hc := pqRecv_split s
    generalize pqRecv s = p at hc ⊢
    obtain ⟨s1, res⟩ := p
    simp only at hc
    cases res with
    | pending =>
      rcases hc with ⟨r, hr, -⟩ | ⟨hq, -⟩
      · cases hr
      · exact ⟨h.quiet hq, hq.inflight, hq.maxInFlight⟩
    | closed =>
      rcases hc with ⟨r, hr, -⟩ | ⟨hq, -⟩
      · cases hr
      · exact ⟨h.quiet hq, hq.inflight, hq.maxInFlight⟩
    | item r =>
      rcases hc with ⟨r', hr, hq⟩ | ⟨-, hr | hr⟩
      · simp only [Recv.item.injEq] at hr; subst hr
        have hh : Inv' x b (hold s1 r) now := h.quiet hq
        simp only
        split
        · obtain ⟨i1, i2, i3⟩ := ih s1 hh.unhold
          exact ⟨i1, i2.trans hq.inflight, i3.trans hq.maxInFlight⟩
        · exact ⟨hh, hq.inflight, hq.maxInFlight⟩
      · cases hr
      · cases hr

theorem pollNextRequest_spec {x : Option Nat} {b : Snap} {now : Nat} (s : St) (h : Inv' x b s now) :
    HoldPW x b now (pollNextRequest s) ∧
      ∀ r, (pollNextRequest s).2 = .some r → (pollNextRequest s).1.inflight.length < (pollNextRequest s).1.maxInFlight := by
  unfold pollNextRequest
  split
  · exact ⟨h, fun r hr => by cases hr⟩
  · rename_i hlt
    have hq := quiet_ensureWriteable s
    generalize ensureWriteable s = p at hq ⊢
    obtain ⟨s1, ew⟩ := p
    simp only at hq
    cases ew with
    | pending => exact ⟨h.quiet hq, fun r hr => by cases hr⟩
    | err a => exact ⟨h.quiet hq, fun r hr => by cases hr⟩
    | spin => exact ⟨h.quiet hq, fun r hr => by cases hr⟩
    | ready =>
      simp only
      obtain ⟨i1, i2, i3⟩ := nextRequestLoop_spec (s1.pq.length + 1) s1 (h.quiet hq)
      refine ⟨i1, fun r _ => ?_⟩
      rw [i2, i3, hq.inflight, hq.maxInFlight]; omega

theorem Inv'.pollWriteRequest {x : Option Nat} {b : Snap} {s : St} {now : Nat} (h : Inv' x b s now) :
    Inv' x b (pollWriteRequest s now).1 now := by
  unfold Client.pollWriteRequest
  obtain ⟨h1, h2⟩ := pollNextRequest_spec s h
  generalize pollNextRequest s = p at h1 h2 ⊢
  obtain ⟨s1, res⟩ := p
  cases res with
  | pending => exact h1
  | none => exact h1
  | err a => exact h1
  | spin => exact h1
  | some r =>
    simp only
    have hh : Inv' x b (hold s1 r) now := h1
    cases hi : Client.insertRequest s1 now r with
    | none => exact hh.unhold
    | some s2 =>
      simp only
      have h3 := hh.insertRequest (h2 r rfl) s2 hi
      split
      · exact h3
      · have hq := quiet_tSend s2 (.request r.id r.ctx.deadline r.ctx.trace r.body)
        generalize tSend s2 (.request r.id r.ctx.deadline r.ctx.trace r.body) = p at hq ⊢
        obtain ⟨s3, ok⟩ := p
        simp only at hq ⊢
        split
        · exact h3.quiet hq
        · exact (h3.quiet hq).completeRequest r.id .send (by simp)

theorem Inv'.nextCancelLoop {x : Option Nat} {b : Snap} {now : Nat} (fuel : Nat) (s : St)
    (h : Inv' x b s now) : Inv' x b (nextCancelLoop fuel s).1 now := by
  induction fuel generalizing s with
  | zero => exact h
  | succ fuel ih =>
    unfold Client.nextCancelLoop
    have hq := quiet_cqRecv s
    generalize cqRecv s = p at hq ⊢
    obtain ⟨s1, res⟩ := p
    cases res with
    | pending => exact h.quiet hq
    | closed => exact h.quiet hq
    | item id =>
      simp only
      have h2 := (h.quiet hq).cancelRequest id
      generalize Client.cancelRequest s1 id = p at h2 ⊢
      obtain ⟨s2, oe⟩ := p
      cases oe with
      | some e => exact h2
      | none => exact ih s2 h2

theorem Inv'.pollNextCancellation {x : Option Nat} {b : Snap} {s : St} {now : Nat} (h : Inv' x b s now) :
    Inv' x b (pollNextCancellation s).1 now := by
  unfold Client.pollNextCancellation
  have hq := quiet_ensureWriteable s
  generalize ensureWriteable s = p at hq ⊢
  obtain ⟨s1, ew⟩ := p
  cases ew with
  | pending => exact h.quiet hq
  | err a => exact h.quiet hq
  | spin => exact h.quiet hq
  | ready => exact (h.quiet hq).nextCancelLoop _ _

theorem Inv'.pollWriteCancel {x : Option Nat} {b : Snap} {s : St} {now : Nat} (h : Inv' x b s now) :
    Inv' x b (pollWriteCancel s).1 now := by
  unfold Client.pollWriteCancel
  have h1 := h.pollNextCancellation
  generalize Client.pollNextCancellation s = p at h1 ⊢
  obtain ⟨s1, res⟩ := p
  cases res with
  | pending => exact h1
  | none => exact h1
  | err a => exact h1
  | spin => exact h1
  | some e =>
    simp only
    have hq := quiet_tSend s1 (.cancel e.id e.ctx.trace)
    generalize tSend s1 (.cancel e.id e.ctx.trace) = p at hq ⊢
    obtain ⟨s2, ok⟩ := p
    simp only at hq ⊢
    split <;> exact h1.quiet hq

theorem Inv'.pumpWrite {x : Option Nat} {b : Snap} {s : St} {now : Nat} (h : Inv' x b s now) :
    Inv' x b (pumpWrite s now).1 now := by
  unfold Client.pumpWrite
  have h1 := h.pollWriteRequest
  generalize Client.pollWriteRequest s now = p at h1 ⊢
  obtain ⟨s1, r1⟩ := p
  cases r1 <;> simp only <;> try exact h1
  all_goals
    have h2 := h1.pollWriteCancel
    generalize Client.pollWriteCancel s1 = p at h2 ⊢
    obtain ⟨s2, r2⟩ := p
    cases r2 <;> simp only <;> try exact h2
    all_goals
      have h3 := h2.pollExpired
      generalize Client.pollExpired s2 now = p at h3 ⊢
      obtain ⟨s3, ex⟩ := p
      simp only at h3 ⊢
      split
      · exact h3
      · split
        · exact h3
        split
        · have hq := quiet_tClose s3
          generalize tClose s3 = p at hq ⊢
          obtain ⟨s4, r4⟩ := p
          cases r4 <;> exact h3.quiet hq
        · have hq := quiet_tFlush s3
          generalize tFlush s3 = p at hq ⊢
          obtain ⟨s4, r4⟩ := p
          cases r4 <;> exact h3.quiet hq

theorem Inv'.pumpRead {x : Option Nat} {b : Snap} {s : St} {now : Nat} (h : Inv' x b s now) :
    Inv' x b (pumpRead s).1 now := by
  unfold Client.pumpRead
  have hq := quiet_tNext s
  generalize tNext s = p at hq ⊢
  obtain ⟨s1, r⟩ := p
  cases r with
  | pending => exact h.quiet hq
  | eof => exact h.quiet hq
  | err => exact h.quiet hq
  | item m =>
    cases m with
    | response id res =>
      simp only
      refine (h.quiet hq).completeRequest id _ ?_
      cases res <;> simp [outcomeOf]
    | request _ _ _ _ => exact h.quiet hq
    | cancel _ _ => exact h.quiet hq

theorem Inv'.run {x : Option Nat} {b : Snap} {now : Nat} (fuel : Nat) (s : St) (h : Inv' x b s now) :
    Inv' x b (run fuel s now).1 now := by
  induction fuel generalizing s with
  | zero => exact h.quiet (quiet_emit s (by simp [Harmless]))
  | succ fuel ih =>
    unfold Client.run
    have h1 := h.pumpRead
    generalize Client.pumpRead s = p at h1 ⊢
    obtain ⟨s1, rd⟩ := p
    have h2 := h1.pumpWrite
    cases rd <;> simp only <;> try exact h1
    all_goals
      generalize Client.pumpWrite s1 now = p at h2 ⊢
      obtain ⟨s2, wr⟩ := p
      cases wr <;> simp only <;> try exact h2
      all_goals try (split <;> first | exact h2 | exact ih s2 h2)
      all_goals try exact ih s2 h2

/-! ### shutdown, `RequestDispatch::poll` -/

theorem Inv'.drainLoop {x : Option Nat} {b : Snap} {now : Nat} (fuel : Nat) (s : St) (a : Activity)
    (h : Inv' x b s now) : Inv' x b (drainLoop fuel s a).1 now := by
  induction fuel generalizing s with
  | zero => exact h
  | succ fuel ih =>
    unfold Client.drainLoop
    have hc := pqRecv_split s
    generalize pqRecv s = p at hc ⊢
    obtain ⟨s1, res⟩ := p
    simp only at hc
    cases res with
    | pending =>
      rcases hc with ⟨r, hr, -⟩ | ⟨hq, -⟩
      · cases hr
      · exact h.quiet hq
    | closed =>
      rcases hc with ⟨r, hr, -⟩ | ⟨hq, -⟩
      · cases hr
      · exact h.quiet hq
    | item r =>
      rcases hc with ⟨r', hr, hq⟩ | ⟨-, hr | hr⟩
      · simp only [Recv.item.injEq] at hr; subst hr
        have hh : Inv' x b s1 now := (h.quiet hq).unhold
        simp only
        split
        · exact ih s1 hh
        · exact ih _ (hh.osSend _ _ (fun hd => by cases hd))
      · cases hr
      · cases hr

theorem Inv'.shutDown {x : Option Nat} {b : Snap} {s : St} {now : Nat} (h : Inv' x b s now) (a : Activity) :
    Inv' x b (shutDown s a).1 now := by
  unfold Client.shutDown
  exact Inv'.drainLoop _ _ a ((h.quiet (quiet_pqClose s)).failAll a)

theorem Inv'.pollDispatchCore {x : Option Nat} {b : Snap} {s : St} {now : Nat} (h : Inv' x b s now) :
    Inv' x b (pollDispatchCore s now).1 now := by
  unfold Client.pollDispatchCore
  split
  · rename_i a _
    have h1 := h.shutDown a
    generalize Client.shutDown s a = p at h1 ⊢
    obtain ⟨s1, fin⟩ := p
    exact h1
  · have h1 := Inv'.run (runFuel s) s h
    generalize Client.run (runFuel s) s now = p at h1 ⊢
    obtain ⟨s1, r⟩ := p
    cases r with
    | pending => exact h1
    | ok => exact h1
    | spin => exact h1.quiet (by quiet_rfl)
    | err a =>
      simp only
      have h2 : Inv' x b { s1 with termErr := some a } now := h1.quiet (by quiet_rfl)
      have h3 := h2.shutDown a
      generalize Client.shutDown { s1 with termErr := some a } a = p at h3 ⊢
      obtain ⟨s2, fin⟩ := p
      exact h3

theorem Inv'.reframe {x : Option Nat} {b : Snap} {s : St} {now : Nat} (h : Inv' x b s now) (b' : Snap)
    (hb : ∀ f, b' = some f → frame s = f) : Inv' x b' s now :=
  ⟨hb, h.t, h.i, h.c, h.r, h.o⟩

theorem Inv'.counts_good {x : Option Nat} {b : Snap} {s : St} {now : Nat} (h : Inv' x b s now) (ep : TaskId) :
    ObsGood s.maxInFlight s.calls now (.counts ep s.inflight.length s.timers.len) :=
  ⟨h.t.bound, (h.t.len_eq h.i.inNodup).symm⟩

theorem ObsGood.transfer {m m' now : Nat} {l l' : List Call} {o : Obs} (h : ObsGood m l now o) (hm : m' = m)
    (hc : ∀ c ∈ l, ∃ c' ∈ l', c'.cid = c.cid ∧ c'.ctx = c.ctx) : ObsGood m' l' now o := by
  subst hm
  cases o <;> try exact h
  rename_i cid oc t
  intro hd
  obtain ⟨c, hmem, e1, e2⟩ := h hd
  obtain ⟨c', hm', f1, f2⟩ := hc c hmem
  exact ⟨c', hm', by rw [f1]; exact e1, by rw [f2]; exact e2⟩

theorem Inv'.pollDispatchKeep {x : Option Nat} {b : Snap} {s : St} {now : Nat} (h : Inv' x b s now) :
    Inv' x b (pollDispatchKeep s now) now := by
  unfold Client.pollDispatchKeep
  split
  · exact h.quiet (quiet_emit s (by simp [Harmless]))
  · simp only
    have h0 : Inv' x (some (frame s)) { s with dWoken := false } now :=
      (h.reframe (some (frame s)) (fun f hf => by simpa using hf)).quiet (by quiet_rfl)
    have h1 := h0.pollDispatchCore
    generalize Client.pollDispatchCore { s with dWoken := false } now = p at h1 ⊢
    obtain ⟨s1, r⟩ := p
    simp only at h1 ⊢
    have hf1 : frame s1 = frame s := h1.fr _ rfl
    have hm1 : s1.maxInFlight = s.maxInFlight := congrArg (fun f : SFrame => f.2.1) hf1
    have hsig1 : callSig s1.calls = callSig s.calls := congrArg (fun f : SFrame => f.1) hf1
    have h1' : Inv' x b s1 now := h1.reframe b (fun f hf => hf1.trans (h.fr f hf))
    have keep : ∀ s2 : St, Inv' x b s2 now →
        Inv' x b (match r with | .pending => s2 | _ => { s2 with done := some r }) now := by
      intro s2 h2
      cases r <;> first | exact h2 | exact h2.quiet (by quiet_rfl)
    apply keep
    split
    · refine ⟨h1'.fr, h1'.t, h1'.i, h1'.c, h1'.r, ?_⟩
      intro o ho
      simp only [List.mem_cons] at ho
      rcases ho with rfl | ho
      · trivial
      · exact (h.o o ho).transfer hm1 (fun c hc => mem_of_callSig hsig1 hc)
    · split
      · exact h1'
      · exact Inv'.emit (h1'.quiet (quiet_emit s1 (o := .ret (tid s1) r) (by simp [Harmless]))) (h1'.counts_good _)

/-- Dropping the dispatch. -/
theorem Inv'.dropDispatch {x : Option Nat} {b : Snap} {s : St} {now : Nat} (h : Inv' x b s now) :
    Inv' x b (dropDispatch s) now := by
  unfold Client.dropDispatch
  split
  · exact h.quiet (quiet_emit s (by simp [Harmless]))
  · simp only
    have h1 : Inv' x b (pqClose { s with dDropped := true, dWoken := false }) now :=
      h.quiet (Quiet.trans (by quiet_rfl) (quiet_pqClose _))
    generalize pqClose { s with dDropped := true, dWoken := false } = s1 at h1 ⊢
    have h2 : Inv' x b { s1 with pq := [], pqAvail := s1.bufCap - s1.pqAssigned.length } now :=
      h1.shrink rfl (List.nil_sublist _) (List.Sublist.refl _) rfl rfl rfl h1.t
    have h3 := Inv'.foldl (x := x) (b := b) (now := now) (fun s (r : DReq) => osDropTx s r.cid)
      (fun s r hs => hs.quiet (quiet_osDropTx _ _)) s1.pq _ h2
    generalize List.foldl (fun s (r : DReq) => osDropTx s r.cid)
      { s1 with pq := [], pqAvail := s1.bufCap - s1.pqAssigned.length } s1.pq = s2 at h3 ⊢
    have h4 : Inv' x b { s2 with inflight := [], timers := {} } now :=
      h3.shrink rfl (List.Sublist.refl _) (List.nil_sublist _) rfl rfl rfl (TInv.empty _ _)
    have h5 := Inv'.foldl (x := x) (b := b) (now := now) (fun s (e : Entry) => osDropTx s e.cid)
      (fun s r hs => hs.quiet (quiet_osDropTx _ _)) s2.inflight _ h4
    exact h5.quiet (by quiet_rfl)

theorem Inv'.pollDispatch {x : Option Nat} {b : Snap} {s : St} {now : Nat} (h : Inv' x b s now) :
    Inv' x b (pollDispatch s now) now := by
  unfold Client.pollDispatch
  simp only
  split
  · exact h.pollDispatchKeep.dropDispatch
  · exact h.pollDispatchKeep

/-! ### the call future -/

theorem getCall_of_mem {x : Option Nat} {b : Snap} {s : St} {now cid : Nat} {c : Call} (h : Inv' x b s now)
    (hc : c ∈ s.calls) (hcid : c.cid = cid) : getCall s cid = some c := by
  cases hg : getCall s cid with
  | none => exact absurd hcid (getCall_none hg c hc)
  | some c0 =>
    obtain ⟨h0, hcid0⟩ := getCall_some hg
    rw [h.c.cid_unique hc h0 (by rw [hcid, hcid0])]

theorem quiet_updCall_congr {a a' : St} (hq : Quiet a a') (cid : Nat) (f : Call → Call)
    (F : Nat × Ctx × Phase × Nat × Option Outcome × Option Outcome → Nat × Ctx × Phase × Nat × Option Outcome × Option Outcome)
    (hF : ∀ c, callCore (f c) = F (callCore c)) (hcid : ∀ c, (f c).cid = c.cid) :
    Quiet (updCall a cid f) (updCall a' cid f) := by
  refine ⟨hq.maxInFlight, hq.inflight, hq.timers, hq.nextId, hq.pq, ?_, hq.obs, hq.handles, hq.nextHandle⟩
  have key : ∀ l : List Call, (l.map (updFn cid f)).map callCore =
      (l.map callCore).map (fun p => if p.1 == cid then F p else p) := by
    intro l
    rw [List.map_map, List.map_map]
    apply List.map_congr_left
    intro c _
    simp only [Function.comp, updFn]
    have : (callCore c).1 = c.cid := rfl
    rw [this]
    split
    · exact hF c
    · rfl
  rw [updCall_calls, updCall_calls, key, key, hq.calls]

/-- The first poll of a call hands out the next request id: from here on `cid` counts as assigned. -/
theorem Inv'.assign {b : Snap} {s : St} {now cid : Nat} {c : Call} (h : Inv' none b s now) (fresh : Nat) (tr : Trace)
    (hg : getCall s cid = some c) (hph : c.phase = .notPolled) :
    Inv' (some cid) b (Client.updCall { s with nextFresh := fresh, nextId := s.nextId + 1 } cid
      (fun c => { c with id := s.nextId, trace := tr, woken := false })) now := by
  have hu := h.call_unique hg
  obtain ⟨hm, hcid⟩ := getCall_some hg
  -- facts about the updated list
  have hmem : ∀ c' ∈ s.calls.map (updFn cid (fun c => { c with id := s.nextId, trace := tr, woken := false })),
      (c' ∈ s.calls ∧ c'.cid ≠ cid) ∨
      (c' = { c with id := s.nextId, trace := tr, woken := false }) := by
    intro c' hc'
    obtain ⟨c0, h0, rfl⟩ := List.mem_map.mp hc'
    unfold updFn
    split
    · rename_i he
      right; rw [hu c0 h0 (by simpa using he)]
    · rename_i he
      left; exact ⟨h0, by simpa using he⟩
  have hasg : ∀ c0 : Call, c0.cid ≠ cid → Assigned (some cid) c0 → Assigned none c0 := by
    intro c0 hne ha
    rcases ha with h1 | h1 | h1 | h1
    · exact Or.inl h1
    · exact Or.inr (Or.inl h1)
    · exact Or.inr (Or.inr (Or.inl h1))
    · simp only [Option.some.injEq] at h1; exact absurd h1.symm hne
  have hcok : ∀ c0 ∈ s.calls, (updFn cid (fun c => { c with id := s.nextId, trace := tr, woken := false }) c0).cid = c0.cid ∧
      (updFn cid (fun c => { c with id := s.nextId, trace := tr, woken := false }) c0).ctx = c0.ctx := by
    intro c0 _; unfold updFn; split <;> exact ⟨rfl, rfl⟩
  have hfr : frame (Client.updCall { s with nextFresh := fresh, nextId := s.nextId + 1 } cid
      (fun c => { c with id := s.nextId, trace := tr, woken := false })) = frame s := by
    have : callSig (s.calls.map (updFn cid (fun c => { c with id := s.nextId, trace := tr, woken := false }))) =
        callSig s.calls := by
      rw [callSig, callSig, List.map_map]
      apply List.map_congr_left
      intro c0 h0
      simp only [Function.comp, (hcok c0 h0).1, (hcok c0 h0).2]
    simp only [Client.frame, updCall_calls, this]
    rfl
  refine ⟨fun f hf => hfr.trans (h.fr f hf), h.t, ⟨h.i.nodup, fun r hr => Nat.lt_succ_of_lt (h.i.pqLt r hr),
    fun en hen => Nat.lt_succ_of_lt (h.i.inLt en hen)⟩, ?_, ?_, ?_⟩
  · show CInv (some cid) (s.calls.map (updFn cid (fun c => { c with id := s.nextId, trace := tr, woken := false }))) (s.nextId + 1) now
    refine ⟨?_, ?_, ?_, ?_, ?_, ?_⟩
    · intro c' hc'
      rw [List.length_map]
      rcases hmem c' hc' with ⟨h0, -⟩ | rfl
      · exact h.c.cidLt c' h0
      · exact h.c.cidLt c hm
    · rw [List.map_map]
      have : s.calls.map ((·.cid) ∘ updFn cid (fun c => { c with id := s.nextId, trace := tr, woken := false })) =
          s.calls.map (·.cid) := by
        apply List.map_congr_left; intro c0 h0; exact (hcok c0 h0).1
      rw [this]; exact h.c.cidNodup
    · intro c' hc' ha
      rcases hmem c' hc' with ⟨h0, hne⟩ | rfl
      · exact Nat.lt_succ_of_lt (h.c.idLt c' h0 (hasg c' hne ha))
      · exact Nat.lt_succ_self _
    · intro c1 h1 c2 h2 a1 a2 hid
      rcases hmem c1 h1 with ⟨m1, ne1⟩ | rfl <;> rcases hmem c2 h2 with ⟨m2, ne2⟩ | rfl
      · exact h.c.idInj c1 m1 c2 m2 (hasg c1 ne1 a1) (hasg c2 ne2 a2) hid
      · have := h.c.idLt c1 m1 (hasg c1 ne1 a1)
        simp only at hid; omega
      · have := h.c.idLt c2 m2 (hasg c2 ne2 a2)
        simp only at hid; omega
      · rfl
    · intro c' hc' hv
      rcases hmem c' hc' with ⟨h0, -⟩ | rfl
      · exact h.c.osDl c' h0 hv
      · exact h.c.osDl c hm hv
    · intro c' hc' hv
      rcases hmem c' hc' with ⟨h0, -⟩ | rfl
      · exact h.c.outDl c' h0 hv
      · exact h.c.outDl c hm hv
  · show RInv (some cid) (s.calls.map (updFn cid (fun c => { c with id := s.nextId, trace := tr, woken := false }))) s.pq s.inflight
    refine ⟨?_, ?_, ?_⟩
    · intro c' hc' hw
      rcases hmem c' hc' with ⟨h0, hne⟩ | rfl
      · refine h.r.resv c' h0 ?_
        rcases hw with h1 | ⟨-, h1⟩
        · exact Or.inl h1
        · simp only [Option.some.injEq] at h1; exact absurd h1.symm hne
      · exact ⟨fun r hr => Nat.ne_of_lt (h.i.pqLt r hr), fun en hen => Nat.ne_of_lt (h.i.inLt en hen)⟩
    · intro r hr
      obtain ⟨c0, h0, e1, e2⟩ := h.r.pqCtx r hr
      exact ⟨_, List.mem_map_of_mem h0, by rw [(hcok c0 h0).1]; exact e1, by rw [(hcok c0 h0).2]; exact e2⟩
    · intro en hen
      obtain ⟨c0, h0, e1, e2⟩ := h.r.inCtx en hen
      exact ⟨_, List.mem_map_of_mem h0, by rw [(hcok c0 h0).1]; exact e1, by rw [(hcok c0 h0).2]; exact e2⟩
  · show OInv s.maxInFlight (s.calls.map (updFn cid (fun c => { c with id := s.nextId, trace := tr, woken := false }))) now s.obs
    intro o ho
    refine (h.o o ho).transfer rfl ?_
    intro c0 h0
    exact ⟨_, List.mem_map_of_mem h0, (hcok c0 h0).1, (hcok c0 h0).2⟩

theorem nodup_append_mid {A B : List Nat} {a : Nat} (h : (A ++ B).Nodup) (ha : a ∉ A) (hb : a ∉ B) :
    ((A ++ [a]) ++ B).Nodup := by
  simp only [List.nodup_append, List.mem_append, List.mem_singleton, List.nodup_cons, List.not_mem_nil,
    not_false_eq_true, List.nodup_nil, and_self, and_true, true_and, ne_eq] at h ⊢
  grind

/-- there is an assigned call `cid` (stable under `Quiet`) -/
def HasAssigned (x : Option Nat) (s : St) (cid : Nat) : Prop := ∃ c ∈ s.calls, c.cid = cid ∧ Assigned x c

theorem HasAssigned.quiet {x : Option Nat} {s s' : St} {cid : Nat} (h : HasAssigned x s cid) (hq : Quiet s s') :
    HasAssigned x s' cid := by
  obtain ⟨c, hc, hcid, ha⟩ := h
  obtain ⟨c', hc', e1, e2, e3, -⟩ := core_mem (l := s'.calls) (l' := s.calls) hq.calls.symm hc
  exact ⟨c', hc', by rw [e1]; exact hcid, by simpa [Assigned, e1, e3] using ha⟩

theorem Inv'.resolve' {x : Option Nat} {b : Snap} {s : St} {now cid : Nat} (h : Inv' x b s now) (o : Outcome)
    (ha : HasAssigned x s cid) (ho : o ≠ .deadline) : Inv' x b (Client.resolve s cid o now) now := by
  obtain ⟨c, hc, hcid, hasg⟩ := ha
  exact h.resolve o (getCall_of_mem h hc hcid) hasg (fun hd => absurd hd ho)

theorem Inv'.failShutdown {x : Option Nat} {b : Snap} {s : St} {now cid : Nat} (h : Inv' x b s now) (id : Nat)
    (ha : HasAssigned x s cid) : Inv' x b (failShutdown s cid id now) now := by
  unfold Client.failShutdown
  simp only
  have hq : Quiet s (cqPush (guardClose (osDropTx s cid) cid) id) :=
    ((quiet_osDropTx s cid).trans (quiet_guardClose _ cid)).trans (quiet_cqPush _ id)
  exact (h.quiet hq).resolve' .shutdown (ha.quiet hq) (by simp)

/-- The request of a waiting call is pushed on the queue and the call starts awaiting. -/
theorem Inv'.enqueue_core {x : Option Nat} {b : Snap} {s : St} {now : Nat} (h : Inv' x b s now) (c : Call)
    (hex : ∃ c0 ∈ s.calls, c0.cid = c.cid)
    (hw : ∀ c0 ∈ s.calls, c0.cid = c.cid → Waiting x c0 ∧ c0.id = c.id ∧ c0.ctx.deadline = c.ctx.deadline) :
    Inv' x b (Client.updCall { s with pq := s.pq ++ [{ cid := c.cid, id := c.id, ctx := { deadline := c.ctx.deadline, trace := c.trace }, body := c.body }] }
      c.cid (fun c => { c with phase := .awaiting })) now := by
  have hwa : ∀ c0, Waiting x c0 → Assigned x c0 := by
    intro c0 hw0
    rcases hw0 with h1 | ⟨-, h1⟩
    · exact Or.inl h1
    · exact Or.inr (Or.inr (Or.inr h1))
  obtain ⟨c0, hc0, hcid0⟩ := hex
  obtain ⟨hw0, hid0, hdl0⟩ := hw c0 hc0 hcid0
  have hok : ∀ c1 ∈ s.calls, CallOK x now c1 (updFn c.cid (fun c => { c with phase := .awaiting }) c1) := by
    apply callOK_updFn
    intro c1 h1 hcid1
    exact ⟨rfl, rfl, rfl, fun _ => hwa c1 (hw c1 h1 hcid1).1, fun hw' => by simp [Waiting] at hw', Or.inl, Or.inl⟩
  have hfresh := h.r.resv c0 hc0 hw0
  have hfr : frame (Client.updCall { s with pq := s.pq ++ [{ cid := c.cid, id := c.id, ctx := { deadline := c.ctx.deadline, trace := c.trace }, body := c.body }] }
      c.cid (fun c => { c with phase := .awaiting })) = frame s := by
    have : callSig (s.calls.map (updFn c.cid (fun c => { c with phase := .awaiting }))) = callSig s.calls := by
      rw [callSig, callSig, List.map_map]
      apply List.map_congr_left
      intro c1 h1
      simp only [Function.comp, (hok c1 h1).cid, (hok c1 h1).ctx]
    simp only [Client.frame, updCall_calls, this]
    rfl
  refine ⟨fun f hf => hfr.trans (h.fr f hf), h.t, ?_, ?_, ?_, ?_⟩
  · refine ⟨?_, ?_, h.i.inLt⟩
    · have hn := h.i.nodup
      have h1 : ∀ r ∈ s.pq, r.id ≠ c.id := fun r hr => by rw [← hid0]; exact hfresh.1 r hr
      have h2 : ∀ en ∈ s.inflight, en.id ≠ c.id := fun en hen => by rw [← hid0]; exact hfresh.2 en hen
      show ((s.pq ++ [_]).map (fun r : DReq => r.id) ++ s.inflight.map (fun e : Entry => e.id)).Nodup
      rw [List.map_append]
      refine nodup_append_mid hn ?_ ?_
      · simp only [List.mem_map, not_exists, not_and]; exact fun r hr => h1 r hr
      · simp only [List.mem_map, not_exists, not_and]; exact fun en hen => h2 en hen
    · intro r hr
      simp only [Client.updCall, List.mem_append, List.mem_singleton] at hr
      rcases hr with hr | rfl
      · exact h.i.pqLt r hr
      · simp only; rw [← hid0]; exact h.c.idLt c0 hc0 (hwa c0 hw0)
  · exact h.c.map _ hok
  · show RInv x (s.calls.map (updFn c.cid (fun c => { c with phase := .awaiting }))) _ s.inflight
    refine ⟨?_, ?_, ?_⟩
    · intro c' hc' hw'
      obtain ⟨c1, h1, rfl⟩ := List.mem_map.mp hc'
      have hne : c1.cid ≠ c.cid := by
        intro he
        simp [updFn, he, Waiting] at hw'
      have hc1 : updFn c.cid (fun c => { c with phase := .awaiting }) c1 = c1 := by
        simp [updFn, hne]
      rw [hc1] at hw' ⊢
      obtain ⟨f1, f2⟩ := h.r.resv c1 h1 hw'
      refine ⟨?_, f2⟩
      intro r hr
      simp only [Client.updCall, List.mem_append, List.mem_singleton] at hr
      rcases hr with hr | rfl
      · exact f1 r hr
      · simp only
        intro he
        exact hne (h.c.idInj c1 h1 c0 hc0 (hwa c1 hw') (hwa c0 hw0) (by rw [hid0, he]) |>.trans hcid0)
    · intro r hr
      simp only [Client.updCall, List.mem_append, List.mem_singleton] at hr
      rcases hr with hr | rfl
      · obtain ⟨c1, h1, e1, e2⟩ := h.r.pqCtx r hr
        exact ⟨_, List.mem_map_of_mem h1, (hok c1 h1).cid.trans e1, e2.trans (congrArg Ctx.deadline (hok c1 h1).ctx).symm⟩
      · exact ⟨_, List.mem_map_of_mem hc0, (hok c0 hc0).cid.trans hcid0,
          hdl0.symm.trans (congrArg Ctx.deadline (hok c0 hc0).ctx).symm⟩
    · intro en hen
      obtain ⟨c1, h1, e1, e2⟩ := h.r.inCtx en hen
      exact ⟨_, List.mem_map_of_mem h1, (hok c1 h1).cid.trans e1, e2.trans (congrArg Ctx.deadline (hok c1 h1).ctx).symm⟩
  · intro o ho
    exact (h.o o ho).map _ hok

theorem Inv'.enqueue {x : Option Nat} {b : Snap} {s : St} {now : Nat} (h : Inv' x b s now) (c : Call)
    (hex : ∃ c0 ∈ s.calls, c0.cid = c.cid)
    (hw : ∀ c0 ∈ s.calls, c0.cid = c.cid → Waiting x c0 ∧ c0.id = c.id ∧ c0.ctx.deadline = c.ctx.deadline) :
    Inv' x b (enqueue s c now) now := by
  unfold Client.enqueue
  simp only
  have hcore := h.enqueue_core c hex hw
  have hq : Quiet { s with pq := s.pq ++ [{ cid := c.cid, id := c.id, ctx := { deadline := c.ctx.deadline, trace := c.trace }, body := c.body }] }
      (pqPush s { cid := c.cid, id := c.id, ctx := { deadline := c.ctx.deadline, trace := c.trace }, body := c.body }) := by
    unfold pqPush
    simp only
    split
    · exact Quiet.trans (by quiet_rfl) (quiet_wakeDispatch _)
    · exact Quiet.refl _
  have h2 := hcore.quiet (quiet_updCall_congr hq c.cid (fun c => { c with phase := .awaiting })
    (fun p => (p.1, p.2.1, .awaiting, p.2.2.2)) (fun c => rfl) (fun c => rfl))
  refine h2.pollOneshot c.cid ?_
  intro c' hg
  obtain ⟨hm', hcid'⟩ := getCall_some hg
  obtain ⟨c1, h1, rfl⟩ := List.mem_map.mp hm'
  have : c1.cid = c.cid := by
    by_cases he : c1.cid = c.cid
    · exact he
    · simp [he] at hcid'
  simp [this, Assigned]

theorem mem_updCall {s : St} {cid : Nat} {f : Call → Call} {c' : Call} (h : c' ∈ (updCall s cid f).calls) :
    ∃ c0 ∈ s.calls, c' = updFn cid f c0 := by
  rw [updCall_calls] at h
  obtain ⟨c0, h0, rfl⟩ := List.mem_map.mp h
  exact ⟨c0, h0, rfl⟩

/-- the state after the first poll of call `cid` (= `c`) drew its request id and span -/
def assignId (s : St) (cid : Nat) (c : Call) : St :=
  updCall { s with nextFresh := s.nextFresh + 1, nextId := s.nextId + 1 } cid
    (fun c' => { c' with id := s.nextId, trace := { c.ctx.trace with span := .fresh s.nextFresh }, woken := false })

/-- the call as the rest of its first poll sees it -/
def assignedCall (s : St) (c : Call) : Call :=
  { c with id := s.nextId, trace := { c.ctx.trace with span := .fresh s.nextFresh } }

theorem pollCall_notPolled {s : St} {cid now : Nat} {c : Call} (hg : getCall s cid = some c)
    (hph : c.phase = .notPolled) :
    pollCall s cid now =
      if (assignId s cid c).pqClosed || (assignId s cid c).dDropped then
        failShutdown (assignId s cid c) cid s.nextId now
      else if (assignId s cid c).pqAvail > 0 then
        enqueue { assignId s cid c with pqAvail := (assignId s cid c).pqAvail - 1 } (assignedCall s c) now
      else
        emit (updCall { assignId s cid c with pqWaiters := (assignId s cid c).pqWaiters ++ [cid] } cid
          (fun c => { c with phase := .reserving })) (.ret (.call cid) .pending) := by
  unfold pollCall
  simp only [hg, hph]
  try rfl

theorem pollCall_reserving {s : St} {cid now : Nat} {c : Call} (hg : getCall s cid = some c)
    (hph : c.phase = .reserving) :
    pollCall s cid now =
      if (updCall s cid (fun c => { c with woken := false })).pqClosed ||
          (updCall s cid (fun c => { c with woken := false })).dDropped then
        failShutdown
          { updCall s cid (fun c => { c with woken := false }) with
            pqAssigned := (updCall s cid (fun c => { c with woken := false })).pqAssigned.filter (· != cid),
            pqWaiters := (updCall s cid (fun c => { c with woken := false })).pqWaiters.filter (· != cid),
            pqAvail := if (updCall s cid (fun c => { c with woken := false })).pqAssigned.contains cid
              then (updCall s cid (fun c => { c with woken := false })).pqAvail + 1
              else (updCall s cid (fun c => { c with woken := false })).pqAvail } cid c.id now
      else if (updCall s cid (fun c => { c with woken := false })).pqAssigned.contains cid then
        enqueue { updCall s cid (fun c => { c with woken := false }) with
          pqAssigned := (updCall s cid (fun c => { c with woken := false })).pqAssigned.filter (· != cid) } c now
      else emit (updCall s cid (fun c => { c with woken := false })) (.ret (.call cid) .pending) := by
  unfold pollCall
  simp only [hg, hph]
  try rfl

theorem pollCall_awaiting {s : St} {cid now : Nat} {c : Call} (hg : getCall s cid = some c)
    (hph : c.phase = .awaiting) :
    pollCall s cid now = pollOneshot (updCall s cid (fun c => { c with woken := false })) cid now := by
  unfold pollCall
  simp only [hg, hph]

theorem Inv'.pollCall {b : Snap} {s : St} {now : Nat} (h : Inv' none b s now) (cid : Nat) :
    Inv' none b (pollCall s cid now) now := by
  cases hg : getCall s cid with
  | none => unfold Client.pollCall; rw [hg]; exact h.quiet (quiet_emit s (by simp [Harmless]))
  | some c =>
    obtain ⟨hm, hcid⟩ := getCall_some hg
    have hu := h.call_unique hg
    cases hph : c.phase with
    | resolved => unfold Client.pollCall; simp only [hg, hph]; exact h.quiet (quiet_emit s (by simp [Harmless]))
    | dropped => unfold Client.pollCall; simp only [hg, hph]; exact h.quiet (quiet_emit s (by simp [Harmless]))
    | notPolled =>
      rw [pollCall_notPolled hg hph]
      have h1 : Inv' (some cid) b (assignId s cid c) now := h.assign _ _ hg hph
      -- the calls named `cid` after the assignment
      have hcalls : ∀ c' ∈ (assignId s cid c).calls, c'.cid = cid →
          c' = { c with id := s.nextId, trace := { c.ctx.trace with span := .fresh s.nextFresh }, woken := false } := by
        intro c' hc' hcid'
        obtain ⟨c0, h0, rfl⟩ := mem_updCall hc'
        have : c0.cid = cid := by
          by_cases he : c0.cid = cid
          · exact he
          · simp [updFn, he] at hcid'
        have h0c := hu c0 h0 this
        subst h0c
        simp only [updFn, this, beq_self_eq_true, ↓reduceIte]
      have hex : ∃ c0 ∈ (assignId s cid c).calls, c0.cid = cid :=
        ⟨_, List.mem_map_of_mem hm, by simp [hcid]⟩
      generalize assignId s cid c = s1 at h1 hcalls hex ⊢
      split
      · refine (h1.failShutdown s.nextId ?_).weaken
        obtain ⟨c0, h0, hc0⟩ := hex
        exact ⟨c0, h0, hc0, Or.inr (Or.inr (Or.inr (by rw [hc0])))⟩
      · split
        · refine (Inv'.enqueue (s := { s1 with pqAvail := s1.pqAvail - 1 }) (h1.quiet (by quiet_rfl))
            (assignedCall s c) ?_ ?_).weaken
          · obtain ⟨c0, h0, hc0⟩ := hex
            exact ⟨c0, h0, by rw [hc0]; exact hcid.symm⟩
          · intro c0 h0 hc0
            have := hcalls c0 h0 (by rw [hc0]; exact hcid)
            subst this
            exact ⟨Or.inr ⟨hph, by rw [hcid]⟩, rfl, rfl⟩
        · refine Inv'.weaken (Inv'.quiet (Inv'.updCall (s := { s1 with pqWaiters := s1.pqWaiters ++ [cid] })
            (h1.quiet (by quiet_rfl)) cid _ ?_) (quiet_emit _ (by simp [Harmless])))
          intro c0 h0 hc0
          have := hcalls c0 h0 hc0
          subst this
          exact ⟨rfl, rfl, rfl, fun _ => Or.inr (Or.inr (Or.inr (by rw [hcid]))),
            fun _ => Or.inr ⟨hph, by rw [hcid]⟩, Or.inl, Or.inl⟩
    | reserving =>
      rw [pollCall_reserving hg hph]
      have hq := quiet_updCall s cid (fun c => { c with woken := false }) (by intro c; rfl)
      have h1 := h.quiet hq
      have hcalls : ∀ c' ∈ (Client.updCall s cid (fun c => { c with woken := false })).calls, c'.cid = cid →
          c' = { c with woken := false } := by
        intro c' hc' hcid'
        obtain ⟨c0, h0, rfl⟩ := mem_updCall hc'
        have : c0.cid = cid := by
          by_cases he : c0.cid = cid
          · exact he
          · simp [updFn, he] at hcid'
        have h0c := hu c0 h0 this
        subst h0c
        simp only [updFn, this, beq_self_eq_true, ↓reduceIte]
      have hex : ∃ c0 ∈ (Client.updCall s cid (fun c => { c with woken := false })).calls, c0.cid = cid :=
        ⟨_, List.mem_map_of_mem hm, by simp [hcid]⟩
      generalize Client.updCall s cid (fun c => { c with woken := false }) = s1 at h1 hcalls hex ⊢
      split
      · refine Inv'.failShutdown (h1.quiet (by quiet_rfl)) c.id ?_
        obtain ⟨c0, h0, hc0⟩ := hex
        have := hcalls c0 h0 hc0
        exact ⟨c0, h0, hc0, Or.inl (by rw [this]; exact hph)⟩
      · split
        · refine Inv'.enqueue (h1.quiet (by quiet_rfl)) c ?_ ?_
          · obtain ⟨c0, h0, hc0⟩ := hex
            exact ⟨c0, h0, by rw [hc0]; exact hcid.symm⟩
          · intro c0 h0 hc0
            have := hcalls c0 h0 (by rw [hc0]; exact hcid)
            subst this
            exact ⟨Or.inl hph, rfl, rfl⟩
        · exact h1.quiet (quiet_emit _ (by simp [Harmless]))
    | awaiting =>
      rw [pollCall_awaiting hg hph]
      have hq := quiet_updCall s cid (fun c => { c with woken := false }) (by intro c; rfl)
      refine (h.quiet hq).pollOneshot cid ?_
      intro c' hg'
      rw [getCall_updCall_self s cid (fun c => { c with woken := false }) (fun c => rfl), hg] at hg'
      simp only [Option.map_some, Option.some.injEq] at hg'
      subst hg'
      exact Or.inr (Or.inl hph)

theorem Inv'.dropFinish {x : Option Nat} {b : Snap} {s : St} {now : Nat} (h : Inv' x b s now) (cid : Nat) :
    Inv' x b (dropFinish s cid) now := by
  unfold Client.dropFinish
  have hd : Inv' x b (afterCallGone (Client.updCall s cid (fun c => { c with phase := .dropped, woken := false }))) now := by
    refine (h.updCall cid _ ?_).quiet (quiet_afterCallGone _)
    intro c hc hcid
    refine ⟨rfl, rfl, rfl, ?_, ?_, Or.inl, Or.inl⟩
    · intro ha
      rcases ha with h1 | h1 | h1 | h1
      · cases h1
      · cases h1
      · cases h1
      · exact Or.inr (Or.inr (Or.inr h1))
    · intro hw
      rcases hw with h1 | ⟨h1, -⟩ <;> cases h1
  split
  · exact h.quiet (quiet_emit s (by simp [Harmless]))
  · split
    · exact hd
    · exact hd
    · exact hd
    · exact h.quiet (quiet_emit s (by simp [Harmless]))

theorem Inv'.dropCall {x : Option Nat} {b : Snap} {s : St} {now : Nat} (h : Inv' x b s now) (cid : Nat) (at_ : DropAt) :
    Inv' x b (dropCall s cid at_ now) now := by
  unfold Client.dropCall
  simp only
  have step : ∀ (c : Bool) (s : St), Inv' x b s now → Inv' x b (if c = true then Client.pollDispatch s now else s) now := by
    intro c s hs
    split
    · exact hs.pollDispatch
    · exact hs
  refine Inv'.dropFinish ?_ cid
  refine step _ _ ?_
  refine Inv'.quiet ?_ (quiet_dropCancel _ cid)
  refine step _ _ ?_
  refine Inv'.quiet ?_ (quiet_dropClose _ cid)
  refine step _ _ ?_
  exact h.quiet (quiet_dropPre s cid)

theorem Inv'.newCall {s : St} {now : Nat} (h : Inv' none none s now) (hd : Nat) (ctx : Ctx) (body : Nat) :
    Inv' none none (newCall s hd ctx body) now := by
  unfold Client.newCall
  split
  · refine ⟨fun f hf => (by cases hf), h.t, h.i, ?_, ?_, ?_⟩
    · refine ⟨?_, ?_, ?_, ?_, ?_, ?_⟩
      · intro c hc
        simp only [List.mem_append, List.mem_singleton, List.length_append, List.length_cons, List.length_nil] at hc ⊢
        rcases hc with hc | rfl
        · have := h.c.cidLt c hc; omega
        · simp
      · simp only [List.map_append, List.map_cons, List.map_nil]
        rw [List.nodup_append]
        refine ⟨h.c.cidNodup, by simp, ?_⟩
        intro a ha b' hb'
        simp only [List.mem_singleton] at hb'
        obtain ⟨c, hc, rfl⟩ := List.mem_map.mp ha
        have := h.c.cidLt c hc
        omega
      · intro c hc ha
        simp only [List.mem_append, List.mem_singleton] at hc
        rcases hc with hc | rfl
        · exact h.c.idLt c hc ha
        · simp [Assigned] at ha
      · intro c1 h1 c2 h2 a1 a2 hid
        simp only [List.mem_append, List.mem_singleton] at h1 h2
        rcases h1 with h1 | rfl
        · rcases h2 with h2 | rfl
          · exact h.c.idInj c1 h1 c2 h2 a1 a2 hid
          · simp [Assigned] at a2
        · simp [Assigned] at a1
      · intro c hc hv
        simp only [List.mem_append, List.mem_singleton] at hc
        rcases hc with hc | rfl
        · exact h.c.osDl c hc hv
        · simp at hv
      · intro c hc hv
        simp only [List.mem_append, List.mem_singleton] at hc
        rcases hc with hc | rfl
        · exact h.c.outDl c hc hv
        · simp at hv
    · refine ⟨?_, ?_, ?_⟩
      · intro c hc hw
        simp only [List.mem_append, List.mem_singleton] at hc
        rcases hc with hc | rfl
        · exact h.r.resv c hc hw
        · simp [Waiting] at hw
      · intro r hr
        obtain ⟨c, hc, e⟩ := h.r.pqCtx r hr
        exact ⟨c, List.mem_append_left _ hc, e⟩
      · intro en hen
        obtain ⟨c, hc, e⟩ := h.r.inCtx en hen
        exact ⟨c, List.mem_append_left _ hc, e⟩
    · intro o ho
      exact (h.o o ho).transfer rfl (fun c hc => ⟨c, List.mem_append_left _ hc, rfl, rfl⟩)
  · exact h.quiet (quiet_emit s (by simp [Harmless]))

/-! ### ops -/

theorem inv_init (k m bc tc : Nat) (coupled : Bool) (now : Nat) : StInv (init k m bc tc coupled) now := by
  refine ⟨fun f hf => (by cases hf), TInv.empty _ _, ?_, ?_, ?_, ?_⟩
  · exact ⟨by simp [init], by simp [init], by simp [init]⟩
  · refine ⟨?_, ?_, ?_, ?_, ?_, ?_⟩ <;> simp [init]
  · refine ⟨?_, ?_, ?_⟩ <;> simp [init]
  · simp [OInv, init]

theorem Inv'.clearObs {x : Option Nat} {b : Snap} {s : St} {now : Nat} (h : Inv' x b s now) :
    Inv' x b { s with obs := [] } now :=
  ⟨h.fr, h.t, h.i, h.c, h.r, fun o ho => by cases ho⟩

theorem quiet_take (s : St) (t : SimT) (ms : List Msg) :
    Quiet s (ms.foldl (fun s m => emit s (.took (tid s) m)) { s with t := t }) :=
  Quiet.trans (by quiet_rfl) (quiet_foldl _ (fun s m => quiet_emit s (by simp [Harmless])) _ _)

theorem Inv'.setHandles {x : Option Nat} {s : St} {now : Nat} (h : Inv' x none s now) (hs : List Nat) (n : Nat) :
    Inv' x none { s with handles := hs, nextHandle := n } now :=
  ⟨fun f hf => (by cases hf), h.t, h.i, h.c, h.r, h.o⟩

theorem Inv'.cloneHandle {x : Option Nat} {s : St} {now : Nat} (h : Inv' x none s now) (hd : Nat) :
    Inv' x none (cloneHandle s hd) now := by
  unfold Client.cloneHandle
  split
  · exact h.setHandles _ _
  · exact h.quiet (quiet_emit s (by simp [Harmless]))

theorem Inv'.dropHandle {x : Option Nat} {s : St} {now : Nat} (h : Inv' x none s now) (hd : Nat) :
    Inv' x none (dropHandle s hd) now := by
  unfold Client.dropHandle
  split
  · exact (h.setHandles (s.handles.filter (· != hd)) s.nextHandle).quiet (quiet_afterCallGone _)
  · exact h.quiet (quiet_emit s (by simp [Harmless]))

theorem Inv'.applyOp {c : Sys} (h : Inv' none none c.s c.now) (op : COp) :
    Inv' none none (applyOp c op).s (applyOp c op).now := by
  cases op with
  | call hd d tr body => exact h.newCall hd _ body
  | pollCall cid => exact h.pollCall cid
  | dropCall cid site => exact h.dropCall cid site
  | clone hd => exact h.cloneHandle hd
  | dropHandle hd => exact h.dropHandle hd
  | pollDispatch => exact h.pollDispatch
  | dropDispatch => exact h.dropDispatch
  | injectResp id res => exact h.quiet (quiet_liftT _ _)
  | injectErr => exact h.quiet (quiet_liftT _ _)
  | eof => exact h.quiet (quiet_liftT _ _)
  | setReady v => exact h.quiet (quiet_liftT _ _)
  | setFlush v => exact h.quiet (quiet_liftT _ _)
  | fault k => exact h.quiet (by quiet_rfl)
  | faultSkip n => exact h.quiet (by quiet_rfl)
  | selfWake b => exact h.quiet (by quiet_rfl)
  | take n => exact h.quiet (quiet_take _ _ _)
  | advance n => exact (h.mono (Nat.le_add_right _ _)).quiet (quiet_onAdvance _ _)

/-! ### reachable states, one op of a script -/

theorem frame_applyOp {c : Sys} (h : Inv' none none c.s c.now) (op : COp)
    (h1 : ∀ hd d tr body, op ≠ .call hd d tr body) (h2 : ∀ hd, op ≠ .clone hd) (h3 : ∀ hd, op ≠ .dropHandle hd) :
    frame (applyOp c op).s = frame c.s := by
  have h' : Inv' none (some (frame c.s)) c.s c.now := h.reframe _ (fun f hf => by simpa using hf)
  cases op with
  | call hd d tr body => exact absurd rfl (h1 hd d tr body)
  | clone hd => exact absurd rfl (h2 hd)
  | dropHandle hd => exact absurd rfl (h3 hd)
  | pollCall cid => exact (h'.pollCall cid).fr _ rfl
  | dropCall cid site => exact (h'.dropCall cid site).fr _ rfl
  | pollDispatch => exact h'.pollDispatch.fr _ rfl
  | dropDispatch => exact h'.dropDispatch.fr _ rfl
  | injectResp id res => exact (h'.quiet (quiet_liftT _ _)).fr _ rfl
  | injectErr => exact (h'.quiet (quiet_liftT _ _)).fr _ rfl
  | eof => exact (h'.quiet (quiet_liftT _ _)).fr _ rfl
  | setReady v => exact (h'.quiet (quiet_liftT _ _)).fr _ rfl
  | setFlush v => exact (h'.quiet (quiet_liftT _ _)).fr _ rfl
  | fault k => rfl
  | faultSkip n => rfl
  | selfWake b => rfl
  | take n => exact (quiet_take _ _ _).frame
  | advance n => exact (quiet_onAdvance _ _).frame

/-- `max_in_flight_requests` is a constant of the configuration. -/
theorem maxInFlight_applyOp {c : Sys} (h : StInv c.s c.now) (op : COp) :
    (applyOp c op).s.maxInFlight = c.s.maxInFlight := by
  have generic : ∀ op' : COp, (∀ hd d tr body, op' ≠ .call hd d tr body) → (∀ hd, op' ≠ .clone hd) →
      (∀ hd, op' ≠ .dropHandle hd) → (applyOp c op').s.maxInFlight = c.s.maxInFlight := by
    intro op' h1 h2 h3
    exact congrArg (fun f : SFrame => f.2.1) (frame_applyOp h op' h1 h2 h3)
  cases op with
  | call hd d tr body =>
    show (newCall c.s hd _ body).maxInFlight = _
    unfold newCall; split <;> rfl
  | clone hd =>
    show (cloneHandle c.s hd).maxInFlight = _
    unfold cloneHandle; split <;> rfl
  | dropHandle hd =>
    show (dropHandle c.s hd).maxInFlight = _
    unfold dropHandle
    split
    · exact (quiet_afterCallGone _).maxInFlight
    · rfl
  | pollCall cid => exact generic _ (by simp) (by simp) (by simp)
  | dropCall cid site => exact generic _ (by simp) (by simp) (by simp)
  | pollDispatch => exact generic _ (by simp) (by simp) (by simp)
  | dropDispatch => exact generic _ (by simp) (by simp) (by simp)
  | injectResp id res => exact generic _ (by simp) (by simp) (by simp)
  | injectErr => exact generic _ (by simp) (by simp) (by simp)
  | eof => exact generic _ (by simp) (by simp) (by simp)
  | setReady v => exact generic _ (by simp) (by simp) (by simp)
  | setFlush v => exact generic _ (by simp) (by simp) (by simp)
  | fault k => exact generic _ (by simp) (by simp) (by simp)
  | faultSkip n => exact generic _ (by simp) (by simp) (by simp)
  | selfWake b => exact generic _ (by simp) (by simp) (by simp)
  | take n => exact generic _ (by simp) (by simp) (by simp)
  | advance n => exact generic _ (by simp) (by simp) (by simp)

/-- Every state reachable by a script satisfies the invariant (at the script's clock). -/
theorem inv_reach (m bcap tcap : Nat) (coupled : Bool) (ops : List COp) :
    StInv (ops.foldl applyOp (initSys m bcap tcap coupled)).s (ops.foldl applyOp (initSys m bcap tcap coupled)).now := by
  suffices ∀ c : Sys, StInv c.s c.now → StInv (ops.foldl applyOp c).s (ops.foldl applyOp c).now from
    this _ (inv_init 0 m bcap tcap coupled 0)
  induction ops with
  | nil => exact fun c h => h
  | cons op ops ih => exact fun c h => ih _ (h.applyOp op)

theorem maxInFlight_reach (m bcap tcap : Nat) (coupled : Bool) (ops : List COp) :
    (ops.foldl applyOp (initSys m bcap tcap coupled)).s.maxInFlight = m := by
  suffices ∀ c : Sys, StInv c.s c.now → (ops.foldl applyOp c).s.maxInFlight = c.s.maxInFlight from
    this _ (inv_init 0 m bcap tcap coupled 0)
  induction ops with
  | nil => exact fun c h => rfl
  | cons op ops ih => exact fun c h => (ih _ (h.applyOp op)).trans (maxInFlight_applyOp h op)

/-- the state in which `stepOp` runs the op: observations cleared -/
def clr (c : Sys) : Sys := { c with s := { c.s with obs := [] } }

theorem stepOp_fst (c : Sys) (op : COp) : (stepOp c op).1 = clr (applyOp (clr c) op) := rfl
theorem stepOp_snd (c : Sys) (op : COp) : (stepOp c op).2 = (applyOp (clr c) op).s.obs.reverse := rfl

theorem inv_clr {c : Sys} (h : StInv c.s c.now) : StInv (clr c).s (clr c).now := h.clearObs

theorem inv_stepOp {c : Sys} (h : StInv c.s c.now) (op : COp) : StInv (stepOp c op).1.s (stepOp c op).1.now := by
  rw [stepOp_fst]; exact inv_clr ((inv_clr h).applyOp op)

/-- The states a script passes through when run op by op with `stepOp` (observations cleared after each op, as
`trace` does) satisfy the invariant, too. -/
theorem inv_reach_stepOp (m bcap tcap : Nat) (coupled : Bool) (ops : List COp) :
    StInv (ops.foldl (fun c op => (stepOp c op).1) (initSys m bcap tcap coupled)).s
      (ops.foldl (fun c op => (stepOp c op).1) (initSys m bcap tcap coupled)).now := by
  suffices ∀ c : Sys, StInv c.s c.now → StInv (ops.foldl (fun c op => (stepOp c op).1) c).s
      (ops.foldl (fun c op => (stepOp c op).1) c).now from this _ (inv_init 0 m bcap tcap coupled 0)
  induction ops with
  | nil => exact fun c h => h
  | cons op ops ih => exact fun c h => ih _ (inv_stepOp h op)

/-- The observations of one op are all good with respect to the state after the op. -/
theorem obs_stepOp {c : Sys} (h : StInv c.s c.now) (op : COp) :
    ∀ o ∈ (stepOp c op).2, ObsGood (stepOp c op).1.s.maxInFlight (stepOp c op).1.s.calls (stepOp c op).1.now o := by
  intro o ho
  rw [stepOp_snd, List.mem_reverse] at ho
  exact ((inv_clr h).applyOp op).o o ho

/-- the `(cid, deadline)` pairs of the calls -/
def sigD (l : List Call) : List (Nat × Nat) := l.map (fun c => (c.cid, c.ctx.deadline))

theorem sigD_of_callSig {l l' : List Call} (h : callSig l' = callSig l) : sigD l' = sigD l := by
  have := congrArg (List.map (fun p : Nat × Ctx => (p.1, p.2.deadline))) h
  simpa [callSig, sigD, List.map_map, Function.comp_def] using this

/-- How one op changes the frame: only `call`, `clone`, `drop-handle` do, in the obvious way. -/
theorem stepOp_frame {c : Sys} (h : StInv c.s c.now) (op : COp) :
    (stepOp c op).1.s.maxInFlight = c.s.maxInFlight ∧
    match op with
    | .call hd d tr body =>
        (stepOp c op).1.s.handles = c.s.handles ∧ (stepOp c op).1.s.nextHandle = c.s.nextHandle ∧
        sigD (stepOp c op).1.s.calls =
          if c.s.handles.contains hd then sigD c.s.calls ++ [(c.s.calls.length, d)] else sigD c.s.calls
    | .clone hd =>
        sigD (stepOp c op).1.s.calls = sigD c.s.calls ∧
        (stepOp c op).1.s.handles = (if c.s.handles.contains hd then c.s.handles ++ [c.s.nextHandle] else c.s.handles) ∧
        (stepOp c op).1.s.nextHandle = (if c.s.handles.contains hd then c.s.nextHandle + 1 else c.s.nextHandle)
    | .dropHandle hd =>
        sigD (stepOp c op).1.s.calls = sigD c.s.calls ∧
        (stepOp c op).1.s.handles = c.s.handles.filter (· != hd) ∧
        (stepOp c op).1.s.nextHandle = c.s.nextHandle
    | _ =>
        sigD (stepOp c op).1.s.calls = sigD c.s.calls ∧ (stepOp c op).1.s.handles = c.s.handles ∧
        (stepOp c op).1.s.nextHandle = c.s.nextHandle := by
  have hc := inv_clr h
  have generic : ∀ op' : COp, (∀ hd d tr body, op' ≠ .call hd d tr body) → (∀ hd, op' ≠ .clone hd) →
      (∀ hd, op' ≠ .dropHandle hd) →
      (stepOp c op').1.s.maxInFlight = c.s.maxInFlight ∧ sigD (stepOp c op').1.s.calls = sigD c.s.calls ∧
        (stepOp c op').1.s.handles = c.s.handles ∧ (stepOp c op').1.s.nextHandle = c.s.nextHandle := by
    intro op' h1 h2 h3
    have hf := frame_applyOp hc op' h1 h2 h3
    simp only [Client.frame, Prod.mk.injEq] at hf
    exact ⟨hf.2.1, sigD_of_callSig hf.1, hf.2.2.1, hf.2.2.2⟩
  cases op with
  | call hd d tr body =>
    simp only [stepOp_fst]
    show (newCall (clr c).s hd _ body).maxInFlight = _ ∧ (newCall (clr c).s hd _ body).handles = _ ∧
      (newCall (clr c).s hd _ body).nextHandle = _ ∧ sigD (newCall (clr c).s hd _ body).calls = _
    unfold newCall
    by_cases hh : hd ∈ c.s.handles
    · simp [clr, hh, sigD]
    · simp [clr, hh, sigD, emit]
  | clone hd =>
    simp only [stepOp_fst]
    show (cloneHandle (clr c).s hd).maxInFlight = _ ∧ sigD (cloneHandle (clr c).s hd).calls = _ ∧
      (cloneHandle (clr c).s hd).handles = _ ∧ (cloneHandle (clr c).s hd).nextHandle = _
    unfold cloneHandle
    by_cases hh : hd ∈ c.s.handles
    · simp [clr, hh]
    · simp [clr, hh, emit]
  | dropHandle hd =>
    simp only [stepOp_fst]
    show (dropHandle (clr c).s hd).maxInFlight = _ ∧ sigD (dropHandle (clr c).s hd).calls = _ ∧
      (dropHandle (clr c).s hd).handles = _ ∧ (dropHandle (clr c).s hd).nextHandle = _
    unfold dropHandle
    by_cases hh : hd ∈ c.s.handles
    · have hq := quiet_afterCallGone { (clr c).s with handles := (clr c).s.handles.filter (· != hd) }
      have hf := hq.frame
      simp only [Client.frame, Prod.mk.injEq] at hf
      simp only [clr, List.contains_eq_mem, hh, decide_true, ↓reduceIte] at hf ⊢
      exact ⟨hf.2.1, sigD_of_callSig hf.1, hf.2.2.1, hf.2.2.2⟩
    · have hnot : ∀ x ∈ c.s.handles, x ≠ hd := by
        intro x hx he; subst he
        exact hh hx
      have : c.s.handles.filter (· != hd) = c.s.handles := by
        rw [List.filter_eq_self]; intro x hx; simpa using hnot x hx
      simp [clr, hh, emit, this]
  | pollCall cid => exact generic _ (by simp) (by simp) (by simp)
  | dropCall cid site => exact generic _ (by simp) (by simp) (by simp)
  | pollDispatch => exact generic _ (by simp) (by simp) (by simp)
  | dropDispatch => exact generic _ (by simp) (by simp) (by simp)
  | injectResp id res => exact generic _ (by simp) (by simp) (by simp)
  | injectErr => exact generic _ (by simp) (by simp) (by simp)
  | eof => exact generic _ (by simp) (by simp) (by simp)
  | setReady v => exact generic _ (by simp) (by simp) (by simp)
  | setFlush v => exact generic _ (by simp) (by simp) (by simp)
  | fault k => exact generic _ (by simp) (by simp) (by simp)
  | faultSkip n => exact generic _ (by simp) (by simp) (by simp)
  | selfWake b => exact generic _ (by simp) (by simp) (by simp)
  | take n => exact generic _ (by simp) (by simp) (by simp)
  | advance n => exact generic _ (by simp) (by simp) (by simp)

/-! ### the clock of a script -/

/-- The virtual time an op adds to the clock. -/
def opAdv : COp → Nat
  | .advance n => n
  | _ => 0

/-- The total virtual time a script advances the clock by (the sum of its `advance` amounts). -/
def advSum : List COp → Nat
  | [] => 0
  | op :: ops => opAdv op + advSum ops

theorem applyOp_now (c : Sys) (op : COp) : (applyOp c op).now = c.now + opAdv op := by
  cases op <;> rfl

theorem stepOp_now (c : Sys) (op : COp) : (stepOp c op).1.now = c.now + opAdv op := by
  rw [stepOp_fst]; exact applyOp_now (clr c) op

theorem foldl_applyOp_now (ops : List COp) (c : Sys) : (ops.foldl applyOp c).now = c.now + advSum ops := by
  induction ops generalizing c with
  | nil => rfl
  | cons op ops ih => rw [List.foldl_cons, ih, applyOp_now, advSum]; omega

theorem advSum_append (a b : List COp) : advSum (a ++ b) = advSum a + advSum b := by
  induction a with
  | nil => simp [advSum]
  | cons op a ih => simp only [List.cons_append, advSum, ih]; omega

/-- The clock of a reachable state is the script's total advance. -/
theorem now_reach (m bcap tcap : Nat) (coupled : Bool) (ops : List COp) :
    (ops.foldl applyOp (initSys m bcap tcap coupled)).now = advSum ops := by
  rw [foldl_applyOp_now]; exact Nat.zero_add _

end TarpcModel.Client
